import AfkakProofs.Group.Step
/-!
# "Never idle": a started, non-stopping member that wants to rejoin and has no join coroutine
running has a rejoin / coordinator-retry timer pending — unless a NON-Kafka error escaped the join
(finding F12, non-Kafka half: the code swallows it and schedules nothing).
-/
namespace Afkak.Group
open Afkak.Consts

def Busy (s : St) : Prop :=
  s.started = true → s.stopping = false → s.rejoinNeeded = true → s.rejoinD = false → ∃ t ∈ s.timers, t.kind ≠ .hb

/-- the same without looking at `_rejoin_d`: what an error path establishes -/
def Busy' (s : St) : Prop :=
  s.started = true → s.stopping = false → s.rejoinNeeded = true → ∃ t ∈ s.timers, t.kind ≠ .hb

theorem Busy'.busy {s : St} (h : Busy' s) : Busy s := fun a b c _ => h a b c

/-- the event delivers a non-Kafka error at a point where it escapes `_join_and_sync` -/
def nonKafkaEscape : Ev → Bool
  | .coordDone (.err e) => coordFailRow e == .propagate && !escapeRejoins e
  | .metaDone (.err e) | .partsDone (.err e) => !escapeRejoins e
  | _ => false

theorem busy'_of_err {s0 s1 : St} (r : ErrRes s0 s1) : Busy' s1 := by
  rcases r.shape with ⟨a1, _, _, _, a5, _, _, a8⟩ | ⟨st, _⟩
  · rcases a8 with ⟨x, _⟩ | ⟨_, _, z⟩
    · intro _ h2; rw [a1, x] at h2; cases h2
    · intro h1 _ _
      rcases z with ⟨t, ht, hk⟩ | z
      · exact ⟨t, ht, by rw [hk]; decide⟩
      · rw [a5, z] at h1; cases h1
  · intro _ h2; rw [st] at h2; cases h2

theorem busy_stopping {s : St} (h : s.stopping = true) : Busy s := fun _ h2 => by rw [h] at h2; cases h2
theorem busy_rd {s : St} (h : s.rejoinD = true) : Busy s := fun _ _ _ h4 => by rw [h] at h4; cases h4
theorem busy_stable {s : St} (h : s.rejoinNeeded = false) : Busy s := fun _ _ h3 => by rw [h] at h3; cases h3

theorem busy_of_call {s0 s1 : St} (r : CallRes s0 s1) (h : Busy s0) : Busy s1 := by
  rcases r.shape with ⟨a1, _, a3, _, a5, _, a7, a8, _⟩ | ⟨st, _⟩
  · intro x1 x2 x3 x4
    rw [a7]; exact h (by rw [← a5]; exact x1) (by rw [← a1]; exact x2) (by rw [← a8]; exact x3) (by rw [← a3]; exact x4)
  · exact busy_stopping st

theorem escape_busy {s : St} (h : SInv s) (hp : Live s) (cfg : Cfg) (e : GErr) (he : escapeRejoins e = true) :
    Busy (escape cfg s e).1 := by
  rw [escape_eq]
  simp only [he, if_true]
  have hw := winv_upd h.toWInv hp false .idle s.prep s.coordBroker s.now
  exact (busy'_of_err (rejoinAfterError_res hw cfg e (fun _ => rfl) h.hb_has)).busy

theorem reqErr_busy {s : St} (h : SInv s) (hp : Live s) (cfg : Cfg) (e : GErr) :
    Busy { (rejoinAfterError cfg { s with jpc := .idle } e).1 with rejoinD := false } := by
  have hw := winv_upd h.toWInv hp s.rejoinD .idle s.prep s.coordBroker s.now
  have b := busy'_of_err (rejoinAfterError_res hw cfg e (fun _ => rfl) h.hb_has)
  exact fun a b' c _ => b a b' c

theorem afterPrepare_busy {s : St} (hrd : s.rejoinD = true) : Busy (afterPrepare s).1 := by
  unfold afterPrepare
  split
  · rename_i hs; exact busy_stopping (s := { s with jpc := .idle, rejoinD := false }) hs
  · exact busy_rd (s := { s with jpc := .join }) hrd

theorem joinAndSync_busy {s : St} : Busy (joinAndSync s).1 := by
  unfold joinAndSync
  simp only []
  split
  · rename_i hn; exact busy_stable (s := { s with rejoinWaitDc := none }) (by simpa using hn)
  · split
    · rename_i hd; exact busy_rd (s := { s with rejoinWaitDc := none }) hd
    · exact busy_rd (s := { s with rejoinWaitDc := none, rejoinD := true, jpc := .coordLookup }) rfl

theorem retry_busy (s : St) (d : Rat) : Busy { (addTimer s .retry d).1 with jpc := .idle, rejoinD := false } :=
  fun _ _ _ _ => ⟨⟨s.nextTimer, s.now + d, .retry⟩, List.mem_append_right _ (List.mem_singleton.mpr rfl), by simp⟩

theorem busy_congr {s s' : St} (h : Busy s) (e1 : s'.started = s.started) (e2 : s'.stopping = s.stopping)
    (e3 : s'.rejoinNeeded = s.rejoinNeeded) (e4 : s'.rejoinD = s.rejoinD)
    (m : ∀ t ∈ s.timers, t.kind ≠ .hb → t ∈ s'.timers) : Busy s' := by
  intro a b c d
  obtain ⟨t, ht, hk⟩ := h (by rw [← e1]; exact a) (by rw [← e2]; exact b) (by rw [← e3]; exact c) (by rw [← e4]; exact d)
  exact ⟨t, m t ht hk, hk⟩

theorem consumerDown_busy {s : St} (h : SInv s) (hb : Busy s) (hp : Live s) (cfg : Cfg) (cid : Nat) (ok : Bool) :
    Busy (consumerDown cfg s cid ok).1 := by
  unfold consumerDown
  let f : Con → Con := fun c => if c.cid = cid && c.phase == .draining then { c with phase := .stopped, startFired := true } else c
  have hf : ∀ c, (f c).held = c.held ∧ ((f c).phase = .running ↔ c.phase = .running) ∧ (f c).gen = c.gen ∧
      (f c).member = c.member ∧ (f c).topic = c.topic ∧ (f c).part = c.part := by
    intro c; simp only [f]; split
    · rename_i hc; simp only [Bool.and_eq_true, beq_iff_eq] at hc; simp [hc.2]
    · simp
  have w := winv_cons_map h.toWInv f hf
  have h1 : SInv { s with cons := s.cons.map f } := sinv_cons h hp _ w (noheld_cons_map f (fun c => (hf c).1))
  have hp1 : Live { s with cons := s.cons.map f } := hp
  have hb1 : Busy { s with cons := s.cons.map f } := busy_congr hb rfl rfl rfl rfl (fun _ ht _ => ht)
  simp only []
  split
  · rename_i hc
    simp only [Bool.and_eq_true, decide_eq_true_eq] at hc
    have hj : s.jpc = .prepare := hc.1
    split
    · exact busy_congr hb rfl rfl rfl rfl (fun _ ht _ => ht)
    · simp only [andThen_fst]
      obtain ⟨c1, c2, c3, c4, c5, c6, c7⟩ := drainDone_ctl { s with cons := s.cons.map f, prep := ⟨[], []⟩ }
        { s.prep with pending := s.prep.pending.filter (· != cid) } ok
      exact afterPrepare_busy (by rw [c2]; exact h.rd_jpc.mpr (by simp [hj]))
  · split
    · exact hb1
    · rename_i a co b hsp
      split
      · exact busy_congr hb rfl rfl rfl rfl (fun _ ht _ => ht)
      · simp only [andThen_fst]
        have h2 := sinv_stops_prep h1 hp1 (a ++ b) s.prep
        have hp2 : Live { s with cons := s.cons.map f, stops := a ++ b } := hp
        have h3 := drainDone_sinv h2 hp2 { co.drain with pending := co.drain.pending.filter (· != cid) } ok
        obtain ⟨c1, c2, c3, c4, c5, c6, c7⟩ := drainDone_ctl
          { s with cons := s.cons.map f, stops := a ++ b }
          { co.drain with pending := co.drain.pending.filter (· != cid) } ok
        have hb3 : Busy (drainDone { s with cons := s.cons.map f, stops := a ++ b }
          { co.drain with pending := co.drain.pending.filter (· != cid) } ok).1 :=
          busy_congr hb c4 c3 c5 c2 (fun t ht _ => by rw [c7]; exact ht)
        exact busy_of_call (stopLoop_res h3.toWInv cfg co.err co.user (rd_idle h3) h3.hb_has) hb3

theorem step_busy {s : St} (h : SInv s) (hb : Busy s) (cfg : Cfg) (e : Ev) (hne : nonKafkaEscape e = false) :
    Busy (step cfg s e).1 := by
  have hri : s.rejoinD = false → s.jpc = .idle := rd_idle h
  by_cases hp : Live s
  · cases e with
    | start =>
      simp only [step]; split
      · exact hb
      · exact joinAndSync_busy
    | stop =>
      simp only [step]
      rcases userStop_cases cfg s with ⟨hu, _, _⟩ | hu <;> rw [hu]
      · exact hb
      · exact busy_of_call (stopCall_res h.toWInv cfg none true (rd_idle h) h.hb_has) hb
    | coordDone r =>
      simp only [step]; split
      · exact hb
      · rename_i hj
        have hj' : s.jpc = .coordLookup := by simpa using hj
        have hrd : s.rejoinD = true := h.rd_jpc.mpr (by simp [hj'])
        cases r with
        | ok => exact busy_rd (s := { s with jpc := .metaLoad }) hrd
        | none => exact retry_busy s _
        | err e =>
          simp only []
          split
          · rename_i hpr
            refine escape_busy h hp cfg e ?_
            simp only [nonKafkaEscape, hpr, beq_self_eq_true, Bool.true_and, Bool.not_eq_eq_eq_not, Bool.not_false] at hne
            exact hne
          · exact retry_busy s _
          · exact retry_busy s _
    | metaDone r =>
      simp only [step]; split
      · exact hb
      · rename_i hj
        have hj' : s.jpc = .metaLoad := by simpa using hj
        have hrd : s.rejoinD = true := h.rd_jpc.mpr (by simp [hj'])
        cases r with
        | err e => exact escape_busy h hp cfg e (by simpa [nonKafkaEscape] using hne)
        | ok =>
          simp only []
          split
          · rename_i hs; exact busy_stopping (s := { s with jpc := .idle, rejoinD := false }) hs
          · unfold prepare
            split
            · exact busy_rd (s := { s with coordBroker := true, jpc := .hang }) hrd
            split
            · exact afterPrepare_busy (s := { s with coordBroker := true }) hrd
            · simp only []
              split
              · simp only [andThen_fst]
                exact afterPrepare_busy (by rw [(drainDone_ctl _ _ _).2.1]; exact hrd)
              · exact busy_rd (s := { (beginDrain { s with coordBroker := true }).1 with jpc := .prepare, prep := (beginDrain { s with coordBroker := true }).2.2 }) (by simp [hrd])
    | joinDone r =>
      simp only [step]; split
      · exact hb
      · rename_i hj
        have hj' : s.jpc = .join := by simpa using hj
        have hrd : s.rejoinD = true := h.rd_jpc.mpr (by simp [hj'])
        cases r with
        | err e => exact reqErr_busy h hp cfg e
        | ok m g leader n =>
          simp only [abandonHb_eq, andThen_fst]
          split
          · rename_i hs; exact busy_stopping (s := { s with member := m, gen := some g, hbInFlight := false, jpc := .idle, rejoinD := false }) hs
          · split
            · exact busy_rd (s := { s with member := m, gen := some g, hbInFlight := false, jpc := .loadParts n }) hrd
            · exact busy_rd (s := { s with member := m, gen := some g, hbInFlight := false, jpc := .sync }) hrd
    | partsDone r =>
      simp only [step]; split
      · rename_i n hj
        have hrd : s.rejoinD = true := h.rd_jpc.mpr (by simp [hj])
        cases r with
        | err e => exact escape_busy h hp cfg e (by simpa [nonKafkaEscape] using hne)
        | ok =>
          simp only []
          split
          · rename_i hs; exact busy_stopping (s := { s with jpc := .idle, rejoinD := false }) hs
          · exact busy_rd (s := { s with jpc := .sync }) hrd
      · exact hb
    | syncDone r =>
      simp only [step]; split
      · exact hb
      · cases r with
        | err e => exact reqErr_busy h hp cfg e
        | ok asg =>
          simp only []
          split
          · rename_i hs; exact busy_stopping (s := { s with jpc := .idle, rejoinD := false }) hs
          · simp only [andThen_fst]
            unfold startConsumers
            exact busy_stable rfl
    | hbDone r =>
      simp only [step]; split
      · exact hb
      · cases r with
        | ok => exact fun a b c d => hb a b c d
        | err e =>
          simp only []
          split
          · simp only [andThen_fst]
            have w0 := winv_hbInFlight h.toWInv false (fun x => by cases x)
            have w1 := hbStop_winv w0 rfl
            exact (busy'_of_err (rejoinAfterError_res w1 cfg e hri (by simp))).busy
          · exact fun a b c d => hb a b c d
    | leaveDone r =>
      have h' := leaveDone_sinv h cfg r
      simp only [step] at h' ⊢
      split
      · exact hb
      · rename_i err user hl
        have hs : s.stopping = true := h.leave_stop (by simp [hl])
        have hn : NoHeld s := h.stop_noheld hs
        cases r with
        | ok =>
          have f := finishStop_post (winv_member h.toWInv hn 0 none) cfg err user hs hn hri
          exact busy_stopping f.stopping
        | err e =>
          have f := finishStop_post h.toWInv cfg err user hs hn (rd_idle h)
          exact busy_stopping f.stopping
    | consumerDown cid ok =>
      simp only [step]; split
      · exact consumerDown_busy h hb hp cfg cid ok
      · exact hb
    | consumerErr cid e =>
      simp only [step]; split
      · let f : Con → Con := fun c => if c.cid = cid then { c with startFired := true } else c
        have hf : ∀ c, (f c).held = c.held ∧ ((f c).phase = .running ↔ c.phase = .running) ∧ (f c).gen = c.gen ∧
            (f c).member = c.member ∧ (f c).topic = c.topic ∧ (f c).part = c.part := by
          intro c; simp only [f]; split <;> simp
        have w := winv_cons_map h.toWInv f hf
        split
        · exact busy_congr hb rfl rfl rfl rfl (fun _ ht _ => ht)
        · exact (busy'_of_err (rejoinAfterError_res w cfg e hri h.hb_has)).busy
      · exact hb
    | consumerQuirk cid q =>
      simp only [step]; split
      · exact busy_congr hb rfl rfl rfl rfl (fun _ ht _ => ht)
      · exact hb
    | fire id hbNext =>
      simp only [step]; split
      · exact hb
      split
      · exact hb
      · rename_i t rest hf
        have htm : t ∈ s.timers ∧ t.id = id := by
          have : t ∈ s.timers.filter (·.id == id) := by rw [hf]; simp
          have := List.mem_filter.mp this
          exact ⟨this.1, by simpa using this.2⟩
        split
        · exact hb
        · have keep : ∀ t' ∈ s.timers, t'.kind ≠ t.kind → t' ∈ s.timers.filter (·.id != id) := by
            intro t' ht' hk
            refine List.mem_filter.mpr ⟨ht', ?_⟩
            simp only [bne_iff_ne, ne_eq]
            intro he
            have := uniq_eq h.timer_uniq ht' htm.1 (by rw [he, htm.2])
            rw [this] at hk; exact hk rfl
          split
          · exact joinAndSync_busy
          · exact joinAndSync_busy
          · rename_i hk
            simp only [andThen_fst]
            have keep' : ∀ t' ∈ s.timers, t'.kind ≠ .hb → t' ∈ s.timers.filter (·.id != id) :=
              fun t' ht' hk' => keep t' ht' (by rw [hk]; exact hk')
            split <;> split <;>
              exact busy_congr hb rfl rfl rfl rfl (fun t' ht' hk' => by
                first
                  | exact keep' t' ht' hk'
                  | exact List.mem_append_left _ (keep' t' ht' hk'))
    | advance dt =>
      simp only [step]; split
      · exact hb
      · exact fun a b c d => hb a b c d
  · have h1 : s.started = false := by unfold Live at hp; cases hs : s.started <;> simp_all
    have h2 : s.stopping = false := by unfold Live at hp; cases hs : s.stopping <;> simp_all
    by_cases he : e = .start
    · rw [he]; simp only [step, h1, h2]; exact joinAndSync_busy
    · by_cases ha : ∃ dt, e = .advance dt
      · obtain ⟨dt, rfl⟩ := ha
        simp only [step]; split
        · exact hb
        · exact fun a b c d => hb a b c d
      · rw [pristine_step h h1 h2 cfg e he (fun dt hx => ha ⟨dt, hx⟩)]; exact hb
