import AfkakProofs.Group.Obs
/-!
# After stop only the leave: a step that leaves the member stopping issues no group request
-/
namespace Afkak.Group
open Afkak.Consts Afkak.Monitor.C16

def ReqFree (obs : List Ob) : Prop := ∀ o ∈ obs, isGroupReqOb o = false

theorem reqFree_of_bg {obs : List Ob} (h : BG obs) : ReqFree obs := by
  intro o ho
  have := h o ho
  cases o <;> simp_all [bg, isGroupReqOb, isJoinOb, isSyncOb, isHeartbeatOb, isLookupOb]

theorem reqFree_nil : ReqFree [] := by intro o h; cases h
theorem reqFree_append {a b : List Ob} (h1 : ReqFree a) (h2 : ReqFree b) : ReqFree (a ++ b) := by
  intro o ho; rcases List.mem_append.mp ho with x | x
  · exact h1 o x
  · exact h2 o x

theorem joinAndSync_afterStop {s : St} (hn : s.stopping = true → s.rejoinNeeded = false) :
    (joinAndSync s).1.stopping = s.stopping ∧ (s.stopping = true → ReqFree (joinAndSync s).2) := by
  unfold joinAndSync
  simp only []
  split
  · exact ⟨rfl, fun _ => reqFree_nil⟩
  · split
    · exact ⟨rfl, fun _ => reqFree_nil⟩
    · rename_i h1 _
      refine ⟨rfl, fun hs => ?_⟩
      have := hn hs
      simp_all

theorem afterPrepare_afterStop (s : St) :
    (afterPrepare s).1.stopping = s.stopping ∧ (s.stopping = true → ReqFree (afterPrepare s).2) := by
  unfold afterPrepare
  split
  · exact ⟨rfl, fun _ => reqFree_nil⟩
  · rename_i h
    exact ⟨rfl, fun hs => absurd hs h⟩

/-- (A) a member that is already stopping issues no group request -/
theorem step_stopping_reqFree {s : St} (h : SInv s) (cfg : Cfg) (e : Ev) (hst : s.stopping = true) :
    ReqFree (step cfg s e).2 := by
  have bad : ReqFree [Ob.badOp] := by intro o ho; simp at ho; subst ho; rfl
  cases e with
  | start =>
    simp only [step]
    split
    · intro o ho; simp at ho; subst ho; rfl
    · exact (joinAndSync_afterStop (s := { s with started := true, startResult := none }) h.stop_needed).2 hst
  | stop => simp only [step]; exact reqFree_of_bg (userStop_bg _ _)
  | coordDone r =>
    simp only [step]
    split
    · exact bad
    · cases r with
      | ok => intro o ho; simp at ho; subst ho; rfl
      | none => exact reqFree_of_bg (BG_andThen (addTimer_bg _ _ _) (fun _ => BG_nil))
      | err e =>
        simp only []
        split
        · exact reqFree_of_bg (escape_bg _ _ _)
        · exact reqFree_of_bg (BG_andThen (addTimer_bg _ _ _) (fun _ => BG_nil))
        · exact reqFree_of_bg (BG_andThen (addTimer_bg _ _ _) (fun _ => BG_nil))
  | metaDone r =>
    simp only [step]
    split
    · exact bad
    · cases r with
      | err e => exact reqFree_of_bg (escape_bg _ _ _)
      | ok =>
        simp only []
        first
          | exact reqFree_nil
          | (split
             · exact reqFree_nil
             · rename_i hn; exact absurd hst hn)
  | joinDone r =>
    simp only [step]
    split
    · exact bad
    · cases r with
      | err e => exact reqFree_of_bg (BG_andThen (rejoinAfterError_bg _ _ _) (fun _ => BG_nil))
      | ok m g leader n =>
        simp only [abandonHb_eq, andThen_snd]
        refine reqFree_append (by split <;> first | exact reqFree_nil | (intro o ho; simp at ho; subst ho; rfl)) ?_
        first
          | exact reqFree_nil
          | (split
             · exact reqFree_nil
             · rename_i hn; exact absurd hst hn)
  | partsDone r =>
    simp only [step]
    split
    · cases r with
      | err e => exact reqFree_of_bg (escape_bg _ _ _)
      | ok =>
        simp only []
        first
          | exact reqFree_nil
          | (split
             · exact reqFree_nil
             · rename_i hn; exact absurd hst hn)
    · exact bad
  | syncDone r =>
    simp only [step]
    split
    · exact bad
    · cases r with
      | err e => exact reqFree_of_bg (BG_andThen (rejoinAfterError_bg _ _ _) (fun _ => BG_nil))
      | ok asg =>
        simp only []
        first
          | exact reqFree_nil
          | (split
             · exact reqFree_nil
             · rename_i hn; exact absurd hst hn)
  | hbDone r =>
    simp only [step]
    split
    · exact bad
    · cases r with
      | ok => exact reqFree_nil
      | err e =>
        simp only []
        split
        · exact reqFree_of_bg (BG_andThen (hbStop_bg _) (fun _ => rejoinAfterError_bg _ _ _))
        · intro o ho; simp at ho; subst ho; rfl
  | leaveDone r =>
    simp only [step]
    split
    · exact bad
    · exact reqFree_of_bg (finishStop_bg _ _ _ _)
  | consumerDown cid ok =>
    simp only [step]
    split
    · unfold consumerDown
      simp only []
      split
      · split
        · exact reqFree_nil
        · simp only [andThen_snd]
          refine reqFree_append (reqFree_of_bg (drainDone_bg _ _ _)) ?_
          refine (afterPrepare_afterStop _).2 ?_
          rw [(drainDone_ctl _ _ _).2.2.1]; exact hst
      · split
        · exact reqFree_nil
        · split
          · exact reqFree_nil
          · exact reqFree_of_bg (BG_andThen (drainDone_bg _ _ _) (fun _ => stopLoop_bg _ _ _ _))
    · exact bad
  | consumerErr cid e =>
    simp only [step]
    split
    · split
      · exact reqFree_nil
      · exact reqFree_of_bg (rejoinAfterError_bg _ _ _)
    · exact bad
  | consumerQuirk cid q =>
    simp only [step]
    split
    · exact reqFree_nil
    · exact bad
  | fire id hbNext =>
    simp only [step]
    split
    · exact bad
    split
    · exact bad
    · split
      · exact bad
      · split
        · exact (joinAndSync_afterStop (s := { s with timers := s.timers.filter (·.id != id) }) h.stop_needed).2 hst
        · exact (joinAndSync_afterStop (s := { s with timers := s.timers.filter (·.id != id) }) h.stop_needed).2 hst
        · simp only [hst, Bool.true_or, if_true, andThen_snd, List.nil_append]
          split
          · exact reqFree_of_bg (addTimer_bg _ _ _)
          · exact reqFree_nil
  | advance dt =>
    simp only [step]
    split
    · exact bad
    · exact reqFree_nil

/-- (B) a step that issues a group request does not change `_stopping` -/
theorem step_req_keeps_stopping (cfg : Cfg) (s : St) (e : Ev) :
    (∃ o ∈ (step cfg s e).2, isGroupReqOb o = true) → (step cfg s e).1.stopping = s.stopping := by
  have vac : ∀ {obs : List Ob} {P : Prop}, ReqFree obs → (∃ o ∈ obs, isGroupReqOb o = true) → P := by
    intro obs P h ⟨o, ho, hr⟩; rw [h o ho] at hr; cases hr
  have bad : ReqFree [Ob.badOp] := by intro o ho; simp at ho; subst ho; rfl
  have jas : ∀ s : St, (joinAndSync s).1.stopping = s.stopping := by
    intro s; unfold joinAndSync; simp only []; split
    · rfl
    · split <;> rfl
  have ap : ∀ s : St, (afterPrepare s).1.stopping = s.stopping := fun s => (afterPrepare_afterStop s).1
  cases e with
  | start =>
    simp only [step]
    split
    · intro _; rfl
    · intro _; exact jas _
  | stop => simp only [step]; exact vac (reqFree_of_bg (userStop_bg _ _))
  | coordDone r =>
    simp only [step]
    split
    · intro _; rfl
    · cases r with
      | ok => intro _; rfl
      | none => intro _; rfl
      | err e =>
        simp only []
        split
        · exact vac (reqFree_of_bg (escape_bg _ _ _))
        · intro _; rfl
        · intro _; rfl
  | metaDone r =>
    simp only [step]
    split
    · intro _; rfl
    · cases r with
      | err e => exact vac (reqFree_of_bg (escape_bg _ _ _))
      | ok =>
        simp only []
        split
        · intro _; rfl
        · unfold prepare
          split
          · intro _; rfl
          split
          · intro _; exact ap _
          · simp only []
            split
            · intro _
              simp only [andThen_fst]
              rw [ap, (drainDone_ctl _ _ _).2.2.1]; rfl
            · intro _; rfl
  | joinDone r =>
    simp only [step]
    split
    · intro _; rfl
    · cases r with
      | err e => exact vac (reqFree_of_bg (BG_andThen (rejoinAfterError_bg _ _ _) (fun _ => BG_nil)))
      | ok m g leader n =>
        simp only [abandonHb_eq, andThen_fst]
        intro _
        split
        · rfl
        · split <;> rfl
  | partsDone r =>
    simp only [step]
    split
    · cases r with
      | err e => exact vac (reqFree_of_bg (escape_bg _ _ _))
      | ok =>
        simp only []
        split <;> (intro _; rfl)
    · intro _; rfl
  | syncDone r =>
    simp only [step]
    split
    · intro _; rfl
    · cases r with
      | err e => exact vac (reqFree_of_bg (BG_andThen (rejoinAfterError_bg _ _ _) (fun _ => BG_nil)))
      | ok asg =>
        simp only []
        split
        · intro _; rfl
        · refine vac ?_
          simp only [andThen_snd]
          refine reqFree_append (reqFree_of_bg (resetHeartbeat_bg _ _)) ?_
          unfold startConsumers
          intro o ho
          simp only [List.mem_map] at ho
          obtain ⟨c, _, rfl⟩ := ho
          rfl
  | hbDone r =>
    simp only [step]
    split
    · intro _; rfl
    · cases r with
      | ok => intro _; rfl
      | err e =>
        simp only []
        split
        · exact vac (reqFree_of_bg (BG_andThen (hbStop_bg _) (fun _ => rejoinAfterError_bg _ _ _)))
        · intro _; rfl
  | leaveDone r =>
    simp only [step]
    split
    · intro _; rfl
    · exact vac (reqFree_of_bg (finishStop_bg _ _ _ _))
  | consumerDown cid ok =>
    simp only [step]
    split
    · unfold consumerDown
      simp only []
      split
      · split
        · intro _; rfl
        · intro _
          simp only [andThen_fst]
          rw [ap, (drainDone_ctl _ _ _).2.2.1]
      · split
        · intro _; rfl
        · split
          · intro _; rfl
          · exact vac (reqFree_of_bg (BG_andThen (drainDone_bg _ _ _) (fun _ => stopLoop_bg _ _ _ _)))
    · intro _; rfl
  | consumerErr cid e =>
    simp only [step]
    split
    · split
      · intro _; rfl
      · exact vac (reqFree_of_bg (rejoinAfterError_bg _ _ _))
    · intro _; rfl
  | consumerQuirk cid q =>
    simp only [step]
    split <;> (intro _; rfl)
  | fire id hbNext =>
    simp only [step]
    split
    · intro _; rfl
    split
    · intro _; rfl
    · split
      · intro _; rfl
      · split
        · intro _; exact jas _
        · intro _; exact jas _
        · intro _
          simp only [andThen_fst]
          split <;> split <;> rfl
  | advance dt =>
    simp only [step]
    split <;> (intro _; rfl)

/-- After stop only the leave: a step that leaves the member stopping issues no group request. -/
theorem step_afterStop {s : St} (h : SInv s) (cfg : Cfg) (e : Ev) (hs : (step cfg s e).1.stopping = true) :
    ReqFree (step cfg s e).2 := by
  intro o ho
  cases hr : isGroupReqOb o
  · rfl
  · have := step_req_keeps_stopping cfg s e ⟨o, ho, hr⟩
    rw [this] at hs
    exact absurd hr (by rw [step_stopping_reqFree h cfg e hs o ho]; decide)

end Afkak.Group
