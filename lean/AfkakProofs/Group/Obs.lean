import AfkakProofs.Group.Step
import Afkak.Monitor.C16
/-!
# What the helpers can emit

`bg o`: the observation is "background" — not a client request that starts or continues the join
protocol (`coordLookup`, `loadMeta`, `join`, `loadParts`, `sync`, `heartbeat`) and not a
`consumerStart`.  Everything except `joinAndSync`, `afterPrepare`, `startConsumers` and the reply
handlers themselves only emits background observations.
-/
namespace Afkak.Group
open Afkak.Consts

def bg : Ob → Bool
  | .coordLookup | .loadMeta | .join _ | .loadParts | .sync .. | .heartbeat .. | .consumerStart .. => false
  | _ => true

def BG (obs : List Ob) : Prop := ∀ o ∈ obs, bg o = true

@[simp] theorem BG_nil : BG [] := by intro o h; cases h
@[simp] theorem BG_append (a b : List Ob) : BG (a ++ b) ↔ BG a ∧ BG b := by
  unfold BG; constructor
  · intro h; exact ⟨fun o ho => h o (List.mem_append_left _ ho), fun o ho => h o (List.mem_append_right _ ho)⟩
  · intro ⟨h1, h2⟩ o ho; rcases List.mem_append.mp ho with x | x
    · exact h1 o x
    · exact h2 o x
@[simp] theorem BG_cons (o : Ob) (l : List Ob) : BG (o :: l) ↔ bg o = true ∧ BG l := by
  unfold BG; simp
theorem BG_map_stop (l : List Con) : BG (l.map fun c => .consumerStop c.cid) := by
  intro o ho; obtain ⟨c, _, rfl⟩ := List.mem_map.mp ho; rfl
theorem BG_map_shutdown (l : List Nat) : BG (l.map .consumerShutdown) := by
  intro o ho; obtain ⟨c, _, rfl⟩ := List.mem_map.mp ho; rfl
theorem BG_map_cancel (l : List Nat) : BG (l.map .cancelTimer) := by
  intro o ho; obtain ⟨c, _, rfl⟩ := List.mem_map.mp ho; rfl
theorem BG_andThen {o : Out} {f : St → Out} (h1 : BG o.2) (h2 : ∀ s, BG (f s).2) : BG (andThen o f).2 := by
  simp only [andThen_snd, BG_append]; exact ⟨h1, h2 _⟩

theorem stopCons_bg (s : St) (cids : List Nat) : BG (stopCons s cids).2 := BG_map_stop _
theorem stopConsumers_bg (s : St) : BG (stopConsumers s).2 := BG_map_stop _
theorem addTimer_bg (s : St) (k : TKind) (d : Rat) : BG (addTimer s k d).2 := by simp [bg]
theorem cancelTimer_bg (s : St) (id : Nat) : BG (cancelTimer s id).2 := by simp [cancelTimer, bg]
theorem hbStop_bg (s : St) : BG (hbStop s).2 := BG_map_cancel _
theorem hbSchedule_bg (cfg : Cfg) (s : St) : BG (hbSchedule cfg s).2 := addTimer_bg _ _ _
theorem resetHeartbeat_bg (cfg : Cfg) (s : St) : BG (resetHeartbeat cfg s).2 := by
  unfold resetHeartbeat
  split
  · exact BG_andThen (BG_map_cancel _) (fun _ => hbSchedule_bg _ _)
  · exact hbSchedule_bg _ _

theorem rowEffects_bg (s : St) (row : RejoinRow) : BG (rowEffects s row).2 := by
  unfold rowEffects
  refine BG_andThen (BG_andThen ?_ (fun _ => ?_)) (fun _ => BG_nil)
  · split
    · exact stopConsumers_bg s
    · exact BG_nil
  · simp only []; split <;> simp [bg]

theorem scheduleRejoin_bg (cfg : Cfg) (s : St) (fd : Bool) : BG (scheduleRejoin cfg s fd).2 := by
  unfold scheduleRejoin
  simp only []
  split
  · exact BG_andThen (addTimer_bg _ _ _) (fun _ => BG_nil)
  · exact BG_nil

theorem rejoinWith_bg (cfg : Cfg) (s : St) (row : RejoinRow) : BG (rejoinWith cfg s row).1.2 := by
  unfold rejoinWith
  split
  · exact BG_nil
  · exact stopConsumers_bg s
  · exact rowEffects_bg s row
  · exact BG_andThen (rowEffects_bg s row) (fun _ => scheduleRejoin_bg _ _ _)

theorem rejoinCore_bg (cfg : Cfg) (s : St) (e : GErr) : BG (rejoinCore cfg s e).1.2 := rejoinWith_bg _ _ _

theorem escapeCore_bg (cfg : Cfg) (s : St) (e : GErr) : BG (escapeCore cfg s e).1.2 := by
  unfold escapeCore
  simp only []
  split
  · exact rejoinCore_bg _ _ _
  · exact BG_nil

theorem cancelJoin_bg (cfg : Cfg) (s : St) : BG (cancelJoin cfg s).2 := by
  unfold cancelJoin
  split
  · simp only []
    split
    · exact BG_nil
    · refine BG_andThen (by simp [bg]) (fun _ => ?_)
      split
      · exact escapeCore_bg _ _ _
      · exact BG_andThen (addTimer_bg _ _ _) (fun _ => BG_nil)
      · exact BG_andThen (addTimer_bg _ _ _) (fun _ => BG_nil)
    · simp [bg]
    · exact BG_andThen (stopCons_bg _ _) (fun _ => BG_nil)
    · exact BG_nil
    · exact BG_andThen (by simp [bg]) (fun _ => rejoinCore_bg _ _ _)
    · exact BG_andThen (by simp [bg]) (fun _ => escapeCore_bg _ _ _)
    · exact BG_andThen (by simp [bg]) (fun _ => rejoinCore_bg _ _ _)
  · exact BG_nil

theorem finishStop_bg (cfg : Cfg) (s : St) (err : Option GErr) (user : Bool) : BG (finishStop cfg s err user).2 := by
  unfold finishStop
  refine BG_andThen (cancelJoin_bg _ _) (fun s' => ?_)
  simp only [BG_append]
  constructor
  · split <;> simp [bg]
  · split <;> simp [bg]

theorem stopCancelDc_bg (s : St) : BG (stopCancelDc s).2 := by
  unfold stopCancelDc
  split
  · exact cancelTimer_bg _ _
  · exact BG_nil

theorem stopCancelHb_bg (cfg : Cfg) (s : St) : BG (stopCancelHb cfg s).2 := by
  unfold stopCancelHb
  split
  · simp only []
    split
    · exact BG_andThen (BG_andThen (by simp [bg]) (fun _ => hbStop_bg _)) (fun _ => rejoinCore_bg _ _ _)
    · simp [bg]
  · exact BG_nil

theorem stopLooper_bg (s : St) : BG (stopLooper s).2 := by
  unfold stopLooper
  split
  · exact hbStop_bg _
  · exact BG_nil

theorem leaveOrFinish_bg (cfg : Cfg) (err : Option GErr) (user : Bool) (s : St) : BG (leaveOrFinish cfg err user s).2 := by
  unfold leaveOrFinish
  split
  · simp [bg]
  · exact finishStop_bg _ _ _ _

theorem coordStop_bg (cfg : Cfg) (s : St) (err : Option GErr) (user : Bool) : BG (coordStop cfg s err user).2 := by
  unfold coordStop
  split
  · split <;> simp [bg]
  · simp only []
    split
    · simp [bg]
    · exact BG_andThen (BG_andThen (BG_andThen (stopCancelDc_bg _) (fun _ => stopCancelHb_bg _ _)) (fun _ => stopLooper_bg _))
        (fun _ => leaveOrFinish_bg _ _ _ _)

theorem drainDone_bg (s : St) (d : Drain) (ok : Bool) : BG (drainDone s d ok).2 := by
  unfold drainDone
  split
  · exact BG_nil
  · exact stopCons_bg _ _

theorem beginDrain_bg (s : St) : BG (beginDrain s).2.1 := by
  unfold beginDrain
  intro o ho
  simp only [List.mem_flatMap] at ho
  obtain ⟨c, _, hc⟩ := ho
  split at hc <;> simp at hc <;> rcases hc with rfl | rfl <;> rfl

theorem stopLoop_bg (cfg : Cfg) (s : St) (err : Option GErr) (user : Bool) : BG (stopLoop cfg s err user).2 := by
  unfold stopLoop
  split
  · exact coordStop_bg _ _ _ _
  · simp only []
    split
    · exact BG_andThen (BG_andThen (beginDrain_bg s) (fun _ => drainDone_bg _ _ _)) (fun _ => coordStop_bg _ _ _ _)
    · exact beginDrain_bg s

theorem stopCall_bg (cfg : Cfg) (s : St) (err : Option GErr) (user : Bool) : BG (stopCall cfg s err user).2 :=
  stopLoop_bg _ _ _ _

theorem userStop_bg (cfg : Cfg) (s : St) : BG (userStop cfg s).2 := by
  rcases userStop_cases cfg s with ⟨hu, _, _⟩ | hu <;> rw [hu]
  · intro o ho; simp only [List.mem_singleton] at ho; subst ho; rfl
  · exact stopCall_bg _ _ _ _

theorem rejoinAfterError_bg (cfg : Cfg) (s : St) (e : GErr) : BG (rejoinAfterError cfg s e).2 := by
  unfold rejoinAfterError
  simp only []
  split
  · exact BG_andThen (rejoinCore_bg _ _ _) (fun _ => stopCall_bg _ _ _ _)
  · exact rejoinCore_bg _ _ _

theorem escape_bg (cfg : Cfg) (s : St) (e : GErr) : BG (escape cfg s e).2 := by
  unfold escape
  simp only []
  split
  · exact BG_andThen (escapeCore_bg _ _ _) (fun _ => stopCall_bg _ _ _ _)
  · exact escapeCore_bg _ _ _

end Afkak.Group
