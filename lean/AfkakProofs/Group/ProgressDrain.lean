import AfkakProofs.Group.Progress
import AfkakProofs.Group.DrainConvStep
/-!
# C17 bounded rejoin: the drain case

`progress` (Progress.lean) excludes a member in the middle of `on_join_prepare`.  With the converse
drain invariant `CInv` every awaited shutdown Deferred belongs to a consumer that is still draining,
so its successful completion is an enabled event: the failure-free continuation first completes
every awaited shutdown (at most `#consumers` events, `CInv.plen`), which sends the JoinGroup request,
then answers the join and the sync.  A coroutine parked behind a `stop()` (`jpc = hang`) does not
occur when `_stop_draining` is false (`CInv.hangf`).
-/
namespace Afkak.Group
open Afkak.Consts

/-- in the middle of `on_join_prepare`: complete the awaited shutdowns, then join and sync -/
theorem reach_prepare (cfg : Cfg) (s : St) (c : CInv s) (hj : s.jpc = .prepare) (hs : s.stopping = false) :
    Reach cfg (2 + s.cons.length) s := by
  have pl : PL s := ⟨hj, hs, c.pne hj, c.pdr hj⟩
  obtain ⟨tail, t1, t2, t3, t4, t5⟩ := phase_drain cfg _ s pl (Nat.le_refl _)
  have := Reach_append tail t1 (Nat.le_trans t2 (c.plen hj)) t3 (reach_join cfg _ t4 t5.stopping)
  exact Reach_mono this (by omega)

/-- **Bounded progress, including a drain in progress**: from a state (satisfying the reachable-state
    invariants) of a started, not stopping member with no `stop()` waiting for consumers there is a
    failure-free continuation of at most `6 + #consumers` events after which the member is stable;
    the only time that has to pass is the remaining delay of the pending rejoin / coordinator-retry
    timer. -/
theorem progress_drain (cfg : Cfg) (s : St) (h : SInv s) (_d : DInv s) (c : CInv s) (hb : Busy s)
    (h2 : s.started = true) (h3 : s.stopping = false) (h4 : s.stopDraining = false) :
    ∃ tail : List Ev, tail.all okEv = true ∧ tail.length ≤ 6 + s.cons.length ∧
      (∀ dt, Ev.advance dt ∈ tail → ∃ t ∈ s.timers, t.kind ≠ .hb ∧ dt = if s.now < t.due then t.due - s.now else 0) ∧
      (finalFrom cfg s tail).rejoinNeeded = false := by
  by_cases hj1 : s.jpc = .prepare
  · obtain ⟨tail, a, b, c', d'⟩ := reach_prepare cfg s c hj1 h3
    exact ⟨tail, a, by omega, fun dt hd => absurd hd (c' dt), d'⟩
  · by_cases hj2 : s.jpc = .hang
    · have := c.hangf hj2
      rw [h4] at this; cases this
    · exact progress cfg s h hb h2 h3 h4 hj1 hj2

/-- the same for the state a history ends in -/
theorem progress_drain_final (cfg : Cfg) (evs : List Ev) (hb : Busy (final cfg evs))
    (h2 : (final cfg evs).started = true) (h3 : (final cfg evs).stopping = false) (h4 : (final cfg evs).stopDraining = false) :
    ∃ tail : List Ev, tail.all okEv = true ∧ tail.length ≤ 6 + (final cfg evs).cons.length ∧
      (∀ dt, Ev.advance dt ∈ tail → ∃ t ∈ (final cfg evs).timers, t.kind ≠ .hb ∧
        dt = if (final cfg evs).now < t.due then t.due - (final cfg evs).now else 0) ∧
      (final cfg (evs ++ tail)).rejoinNeeded = false := by
  obtain ⟨tail, a, b, c, d⟩ := progress_drain cfg (final cfg evs) (final_sinv cfg evs) (final_dinv cfg evs) (final_cinv cfg evs) hb h2 h3 h4
  exact ⟨tail, a, b, c, by unfold final; rw [finalFrom_append]; exact d⟩

end Afkak.Group
