import AfkakProofs.Group.Fair
import AfkakProofs.Group.DrainConvStep
/-!
# The fairness theorem applies to every reachable state

`Fair.lean` proves the ∀-statement for states satisfying `Elig`, whose clauses about a drain in
progress (`prep`, `plen`, `nhang`) are the converse drain invariant `CInv` — now proved of every
reachable state.
-/
namespace Afkak.Group
open Afkak.Consts

theorem elig_final (cfg : Cfg) (evs : List Ev) (hb : Busy (final cfg evs)) (h2 : (final cfg evs).started = true)
    (h3 : (final cfg evs).stopping = false) (h4 : (final cfg evs).stopDraining = false) : Elig (final cfg evs) := by
  have c := final_cinv cfg evs
  refine ⟨final_sinv cfg evs, final_dinv cfg evs, hb, h2, h3, h4, fun hj => ?_, fun hj => ⟨c.pne hj, c.pdr hj⟩, c.plen⟩
  have := c.hangf hj
  rw [h4] at this; cases this

end Afkak.Group
