import AfkakProofs.Group.NoCrash
/-!
# No step of a reachable member takes a crash branch

`step_nc`: from a state satisfying the step invariant `SInv`, no observation of a step is
`raised "AlreadyCalled"` / `raised "AssertionError"`.  `noInternalError_run`: the monitor
`Afkak.Monitor.C17Crash.noInternalError` holds of every run of the model.
-/
namespace Afkak.Group.NoCrash
open Afkak.Consts Afkak.Monitor.C17Crash

theorem hbResched_nc (s : St) (d : Rat) : NC (if s.hbRunning then addTimer s .hb d else (s, [])).2 := by
  split
  · exact addTimer_nc _ _ _
  · exact NC_nil

theorem step_nc {s : St} (h : SInv s) (cfg : Cfg) (e : Ev) : NC (step cfg s e).2 := by
  have hp : Pre s := h.toWInv.pre
  cases e with
  | start =>
    simp only [step]
    split
    · simp only [NC_cons, NC_nil, and_true]; decide
    · exact joinAndSync_nc _
  | stop => exact userStop_nc cfg hp
  | coordDone r =>
    simp only [step]
    split
    · simp [isCrashOb]
    · cases r with
      | ok => simp [isCrashOb]
      | none => exact NC_andThen (addTimer_nc _ _ _) NC_nil
      | err e =>
        simp only []
        split
        · exact escape_nc cfg hp e
        · exact NC_andThen (addTimer_nc _ _ _) NC_nil
        · exact NC_andThen (addTimer_nc _ _ _) NC_nil
  | metaDone r =>
    simp only [step]
    split
    · simp [isCrashOb]
    · cases r with
      | err e => exact escape_nc cfg hp e
      | ok =>
        simp only []
        split
        · exact NC_nil
        · exact prepare_nc _
  | joinDone r =>
    simp only [step]
    split
    · simp [isCrashOb]
    · cases r with
      | err e =>
        refine NC_andThen (rejoinAfterError_nc cfg ?_ e) NC_nil
        exact ⟨hp.hb, hp.dc⟩
      | ok m g leader n =>
        refine NC_andThen (abandonHb_nc _) ?_
        split
        · exact NC_nil
        · split <;> simp [isCrashOb]
  | partsDone r =>
    simp only [step]
    split
    · cases r with
      | err e => exact escape_nc cfg hp e
      | ok =>
        simp only []
        split <;> simp [isCrashOb]
    · simp [isCrashOb]
  | syncDone r =>
    simp only [step]
    split
    · simp [isCrashOb]
    · cases r with
      | err e =>
        refine NC_andThen (rejoinAfterError_nc cfg ?_ e) NC_nil
        exact ⟨hp.hb, hp.dc⟩
      | ok asg =>
        simp only []
        split
        · exact NC_nil
        · exact NC_andThen (resetHeartbeat_nc _ _) (startConsumers_nc _ _)
  | hbDone r =>
    simp only [step]
    split
    · simp [isCrashOb]
    · rename_i hf
      have hf' : s.hbInFlight = true := by simpa using hf
      have hrun : s.hbRunning = true := by
        cases hr : s.hbRunning
        · rw [hp.hb hr] at hf'; cases hf'
        · rfl
      cases r with
      | ok => exact NC_nil
      | err e =>
        simp only []
        split
        · have w0 := winv_hbInFlight h.toWInv false (fun x => by cases x)
          have w1 := hbStop_winv w0 rfl
          exact NC_andThen (hbStop_nc _) (rejoinAfterError_nc cfg w1.pre e)
        · rename_i hr
          exact absurd hrun hr
  | leaveDone r =>
    simp only [step]
    split
    · simp [isCrashOb]
    · exact finishStop_nc _ _ _ _
  | consumerDown cid ok =>
    simp only [step]
    split
    · exact consumerDown_nc cfg hp cid ok
    · simp [isCrashOb]
  | consumerErr cid e =>
    simp only [step]
    split
    · split
      · exact NC_nil
      · apply rejoinAfterError_nc
        exact ⟨hp.hb, hp.dc⟩
    · simp [isCrashOb]
  | consumerQuirk cid q =>
    simp only [step]
    split <;> simp [isCrashOb]
  | fire id hbNext =>
    simp only [step]
    split
    · simp [isCrashOb]
    split
    · simp [isCrashOb]
    · split
      · simp [isCrashOb]
      · split
        · exact joinAndSync_nc _
        · exact joinAndSync_nc _
        · refine NC_andThen ?_ ?_
          · split <;> simp [isCrashOb]
          · exact hbResched_nc _ _
  | advance dt =>
    simp only [step]
    split <;> simp [isCrashOb]

/-- per step, in the monitor's vocabulary -/
theorem noCrash_step {s : St} (h : SInv s) (cfg : Cfg) (e : Ev) :
    noCrashStep ⟨e, (step cfg s e).2, snap (step cfg s e).1⟩ = true :=
  noCrashStep_of_NC (step_nc h cfg e)

theorem noInternalError_runFrom (cfg : Cfg) (evs : List Ev) :
    ∀ s, SInv s → noInternalError (toMSteps (runFrom cfg s evs)) = true := by
  induction evs with
  | nil => intro s _; rfl
  | cons e es ih =>
    intro s h
    have := ih _ (step_sinv h cfg e)
    unfold noInternalError at this ⊢
    simp only [runFrom, toMSteps, List.map_cons, List.all_cons, Bool.and_eq_true]
    exact ⟨noCrash_step h cfg e, this⟩

/-- **C17, no internal error**: on every run of the member, `Coordinator.stop` never cancels a
    `_rejoin_wait_dc` that is not active (`AlreadyCalled`) and a heartbeat failure never finds the
    looper stopped (`AssertionError`). -/
theorem noInternalError_run (cfg : Cfg) (evs : List Ev) :
    Afkak.Monitor.C17Crash.noInternalError (toMSteps (run cfg evs)) = true :=
  noInternalError_runFrom cfg evs init sinv_init

end Afkak.Group.NoCrash
