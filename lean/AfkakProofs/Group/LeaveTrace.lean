import AfkakProofs.Group.LeaveDrain
import AfkakProofs.Group.JoinIds
/-!
# C16 `leaveAfterDrain` on traces: the LeaveGroup goes out only from `Coordinator.stop`

`SK s o`: a helper that ends NOT stopping began not stopping and sent no LeaveGroup.  Hence a step
that sends the leave ends with `_stopping` set (`step_leave_stopping`), where a live consumer is one
that a drain still awaits (`SInv.stop_noheld`, `DInv.dw`): the join coroutine's `on_join_prepare`, or a
`ConsumerGroup.stop` coroutine.  Those are the two known findings' situations; outside them
`leaveAfterDrain` holds (`leaveAfterDrain_run`).
-/
namespace Afkak.Group
open Afkak.Consts Afkak.Monitor.C16 Afkak.Monitor.C16Leave

def NL (obs : List Ob) : Prop := ∀ x ∈ obs, isLeaveOb x = false
@[simp] theorem NL_nil : NL [] := by intro x h; cases h
@[simp] theorem NL_append (a b : List Ob) : NL (a ++ b) ↔ NL a ∧ NL b := by
  unfold NL; constructor
  · intro h; exact ⟨fun o ho => h o (List.mem_append_left _ ho), fun o ho => h o (List.mem_append_right _ ho)⟩
  · intro ⟨h1, h2⟩ o ho; rcases List.mem_append.mp ho with x | x
    · exact h1 o x
    · exact h2 o x
@[simp] theorem NL_cons (o : Ob) (l : List Ob) : NL (o :: l) ↔ isLeaveOb o = false ∧ NL l := by
  unfold NL; simp
theorem NL_map_stop (l : List Con) : NL (l.map fun c => .consumerStop c.cid) := by
  intro o ho; obtain ⟨c, _, rfl⟩ := List.mem_map.mp ho; rfl
theorem NL_map_cancel (l : List Nat) : NL (l.map .cancelTimer) := by
  intro o ho; obtain ⟨c, _, rfl⟩ := List.mem_map.mp ho; rfl

/-- a helper that ends not stopping began so and sent no leave -/
def SK (s : St) (o : Out) : Prop := o.1.stopping = false → s.stopping = false ∧ NL o.2

theorem SK_frame {s : St} {o : Out} (h1 : o.1.stopping = s.stopping) (h3 : NL o.2) : SK s o := by
  intro h; exact ⟨by rw [← h1]; exact h, h3⟩
theorem SK_vac {s : St} {o : Out} (h : o.1.stopping = true) : SK s o := by intro h'; rw [h] at h'; cases h'
theorem SK_andThen {s : St} {o : Out} {f : St → Out} (h1 : SK s o) (h2 : ∀ s1, SK s1 (f s1)) : SK s (andThen o f) := by
  intro h
  obtain ⟨a, b⟩ := h2 o.1 h
  obtain ⟨c, d⟩ := h1 a
  exact ⟨c, by rw [andThen_snd, NL_append]; exact ⟨d, b⟩⟩
theorem SK_of_eq {s s1 : St} {o : Out} (h1 : s1.stopping = s.stopping) (h : SK s1 o) : SK s o := by
  intro x; obtain ⟨a, b⟩ := h x; exact ⟨by rw [← h1]; exact a, b⟩

theorem stopCons_sk (s : St) (cids : List Nat) : SK s (stopCons s cids) := SK_frame rfl (NL_map_stop _)
theorem stopConsumers_sk (s : St) : SK s (stopConsumers s) := stopCons_sk _ _
theorem addTimer_sk (s : St) (k : TKind) (d : Rat) : SK s (addTimer s k d) :=
  SK_frame rfl (by simp [addTimer, isLeaveOb])
theorem cancelTimer_sk (s : St) (id : Nat) : SK s (cancelTimer s id) := SK_frame rfl (by simp [cancelTimer, isLeaveOb])
theorem hbStop_sk (s : St) : SK s (hbStop s) := SK_frame rfl (NL_map_cancel _)
theorem hbSchedule_sk (cfg : Cfg) (s : St) : SK s (hbSchedule cfg s) := addTimer_sk _ _ _
theorem resetHeartbeat_sk (cfg : Cfg) (s : St) : SK s (resetHeartbeat cfg s) := by
  unfold resetHeartbeat
  split
  · exact SK_andThen (SK_frame rfl (NL_map_cancel _)) (fun _ => hbSchedule_sk _ _)
  · exact SK_of_eq rfl (hbSchedule_sk cfg { s with hbRunning := true, hbStart := s.now })

theorem rowEffects_sk (s : St) (row : RejoinRow) : SK s (rowEffects s row) := by
  unfold rowEffects
  refine SK_andThen (SK_andThen ?_ (fun _ => SK_frame rfl ?_)) (fun _ => SK_frame ?_ NL_nil)
  · split
    · exact stopConsumers_sk s
    · exact SK_frame rfl NL_nil
  · simp only []; split <;> simp [isLeaveOb]
  · simp only []; split <;> rfl

theorem scheduleRejoin_sk (cfg : Cfg) (s : St) (fd : Bool) : SK s (scheduleRejoin cfg s fd) := by
  unfold scheduleRejoin
  simp only []
  split
  · exact SK_andThen (SK_of_eq rfl (addTimer_sk _ _ _)) (fun _ => SK_frame rfl NL_nil)
  · exact SK_frame rfl NL_nil

theorem rejoinWith_sk (cfg : Cfg) (s : St) (row : RejoinRow) : SK s (rejoinWith cfg s row).1 := by
  unfold rejoinWith
  split
  · exact SK_frame rfl NL_nil
  · exact stopConsumers_sk s
  · exact rowEffects_sk s row
  · exact SK_andThen (rowEffects_sk s row) (fun _ => scheduleRejoin_sk _ _ _)

theorem rejoinCore_sk (cfg : Cfg) (s : St) (e : GErr) : SK s (rejoinCore cfg s e).1 := rejoinWith_sk _ _ _

theorem escapeCore_sk (cfg : Cfg) (s : St) (e : GErr) : SK s (escapeCore cfg s e).1 := by
  unfold escapeCore
  simp only []
  split
  · exact SK_of_eq rfl (rejoinCore_sk cfg { s with jpc := .idle, rejoinD := false } e)
  · exact SK_frame rfl NL_nil

theorem cancelJoin_sk (cfg : Cfg) (s : St) : SK s (cancelJoin cfg s) := by
  unfold cancelJoin
  split
  · simp only []
    split
    · exact SK_frame rfl NL_nil
    · refine SK_andThen (SK_frame rfl (by simp [isLeaveOb])) (fun s1 => ?_)
      split
      · exact escapeCore_sk _ _ _
      · exact SK_andThen (addTimer_sk _ _ _) (fun _ => SK_frame rfl NL_nil)
      · exact SK_andThen (addTimer_sk _ _ _) (fun _ => SK_frame rfl NL_nil)
    · exact SK_frame rfl (by simp [isLeaveOb])
    · exact SK_andThen (SK_of_eq rfl (stopCons_sk _ _)) (fun _ => SK_frame rfl NL_nil)
    · exact SK_frame rfl NL_nil
    · exact SK_andThen (SK_frame rfl (by simp [isLeaveOb])) (fun _ => rejoinCore_sk _ _ _)
    · exact SK_andThen (SK_frame rfl (by simp [isLeaveOb])) (fun _ => escapeCore_sk _ _ _)
    · exact SK_andThen (SK_frame rfl (by simp [isLeaveOb])) (fun _ => rejoinCore_sk _ _ _)
  · exact SK_frame rfl NL_nil

theorem finishStop_sk (cfg : Cfg) (s : St) (err : Option GErr) (user : Bool) : SK s (finishStop cfg s err user) := by
  unfold finishStop
  refine SK_andThen (cancelJoin_sk _ _) (fun s' => SK_frame rfl ?_)
  simp only [NL_append]
  constructor
  · split <;> simp [isLeaveOb]
  · split <;> simp [isLeaveOb]

theorem coordStop_sk (cfg : Cfg) (s : St) (err : Option GErr) (user : Bool) : SK s (coordStop cfg s err user) := by
  by_cases h : (!s.started || s.stopping) = true
  · have e : coordStop cfg s err user = (s, if user then [.stopFired true] else []) := by unfold coordStop; rw [if_pos h]
    rw [e]; exact SK_frame rfl (by split <;> simp [isLeaveOb])
  · exact SK_vac (coordStop_stopping cfg s err user h)

theorem drainDone_sk (s : St) (d : Drain) (ok : Bool) : SK s (drainDone s d ok) := by
  unfold drainDone
  split
  · exact SK_frame rfl NL_nil
  · exact stopCons_sk _ _

theorem beginDrain_nl (s : St) : NL (beginDrain s).2.1 := by
  unfold beginDrain
  intro o ho
  simp only [List.mem_flatMap] at ho
  obtain ⟨c, _, hc⟩ := ho
  split at hc <;> simp at hc <;> rcases hc with rfl | rfl <;> rfl

theorem stopLoop_sk (cfg : Cfg) (s : St) (err : Option GErr) (user : Bool) : SK s (stopLoop cfg s err user) := by
  unfold stopLoop
  split
  · exact coordStop_sk _ _ _ _
  · simp only []
    split
    · exact SK_andThen (SK_andThen (o := ((beginDrain s).1, (beginDrain s).2.1)) (SK_frame rfl (beginDrain_nl s)) (fun _ => drainDone_sk _ _ _)) (fun _ => coordStop_sk _ _ _ _)
    · exact SK_frame rfl (beginDrain_nl s)

theorem stopCall_sk (cfg : Cfg) (s : St) (err : Option GErr) (user : Bool) : SK s (stopCall cfg s err user) := by
  unfold stopCall
  refine SK_of_eq ?_ (stopLoop_sk cfg _ err user)
  split <;> rfl

theorem userStop_sk (cfg : Cfg) (s : St) : SK s (userStop cfg s) := by
  rcases userStop_cases cfg s with ⟨hu, _, _⟩ | hu <;> rw [hu]
  · exact SK_frame rfl (by simp [NL, isLeaveOb])
  · exact stopCall_sk _ _ _ _

theorem rejoinAfterError_sk (cfg : Cfg) (s : St) (e : GErr) : SK s (rejoinAfterError cfg s e) := by
  unfold rejoinAfterError
  simp only []
  split
  · exact SK_andThen (rejoinCore_sk _ _ _) (fun _ => stopCall_sk _ _ _ _)
  · exact rejoinCore_sk _ _ _

theorem escape_sk (cfg : Cfg) (s : St) (e : GErr) : SK s (escape cfg s e) := by
  unfold escape
  simp only []
  split
  · exact SK_andThen (escapeCore_sk _ _ _) (fun _ => stopCall_sk _ _ _ _)
  · exact escapeCore_sk _ _ _

theorem joinAndSync_sk (s : St) : SK s (joinAndSync s) := by
  unfold joinAndSync
  simp only []
  split
  · exact SK_frame rfl NL_nil
  · split
    · exact SK_frame rfl NL_nil
    · exact SK_frame rfl (by simp [isLeaveOb])

theorem afterPrepare_sk (s : St) : SK s (afterPrepare s) := by
  unfold afterPrepare
  split
  · exact SK_frame rfl NL_nil
  · exact SK_frame rfl (by simp [isLeaveOb])

theorem prepare_sk (s : St) : SK s (prepare s) := by
  unfold prepare
  split
  · exact SK_frame rfl NL_nil
  · split
    · exact afterPrepare_sk s
    · simp only []
      split
      · exact SK_andThen (SK_andThen (o := ((beginDrain s).1, (beginDrain s).2.1)) (SK_frame rfl (beginDrain_nl s)) (fun _ => drainDone_sk _ _ _)) (fun _ => afterPrepare_sk _)
      · exact SK_frame rfl (beginDrain_nl s)

theorem startConsumers_sk (s : St) (asg : List (Nat × List Int)) : SK s (startConsumers s asg) := by
  refine SK_frame rfl ?_
  unfold startConsumers
  intro o ho
  simp only [List.mem_map] at ho
  obtain ⟨c, _, rfl⟩ := ho
  rfl

theorem consumerDown_sk (cfg : Cfg) (s : St) (cid : Nat) (ok : Bool) : SK s (consumerDown cfg s cid ok) := by
  unfold consumerDown
  simp only []
  split
  · split
    · exact SK_frame rfl NL_nil
    · exact SK_andThen (SK_of_eq rfl (drainDone_sk _ _ _)) (fun _ => afterPrepare_sk _)
  · split
    · exact SK_frame rfl NL_nil
    · split
      · exact SK_frame rfl NL_nil
      · exact SK_andThen (SK_of_eq rfl (drainDone_sk _ _ _)) (fun _ => stopLoop_sk _ _ _ _)

theorem step_sk (cfg : Cfg) (s : St) (e : Ev) : SK s (step cfg s e) := by
  have bad : SK s (s, [Ob.badOp]) := SK_frame rfl (by simp [isLeaveOb])
  cases e with
  | start =>
    simp only [step]; split
    · exact SK_frame rfl (by simp [isLeaveOb])
    · exact SK_of_eq rfl (joinAndSync_sk _)
  | stop => exact userStop_sk cfg s
  | coordDone r =>
    simp only [step]; split
    · exact bad
    · cases r with
      | ok => exact SK_frame rfl (by simp [isLeaveOb])
      | none => exact SK_andThen (addTimer_sk _ _ _) (fun _ => SK_frame rfl NL_nil)
      | err e =>
        simp only []
        split
        · exact escape_sk cfg s e
        · exact SK_andThen (addTimer_sk _ _ _) (fun _ => SK_frame rfl NL_nil)
        · exact SK_andThen (addTimer_sk _ _ _) (fun _ => SK_frame rfl NL_nil)
  | metaDone r =>
    simp only [step]; split
    · exact bad
    · cases r with
      | err e => exact escape_sk cfg s e
      | ok =>
        simp only []
        split
        · exact SK_frame rfl NL_nil
        · exact SK_of_eq rfl (prepare_sk _)
  | joinDone r =>
    simp only [step]; split
    · exact bad
    · cases r with
      | err e => exact SK_andThen (SK_of_eq rfl (rejoinAfterError_sk cfg _ e)) (fun _ => SK_frame rfl NL_nil)
      | ok m g l n =>
        simp only [abandonHb_eq]
        refine SK_andThen (SK_frame rfl (by split <;> simp [isLeaveOb])) (fun s1 => ?_)
        split
        · exact SK_frame rfl NL_nil
        · split <;> exact SK_frame rfl (by simp [isLeaveOb])
  | partsDone r =>
    simp only [step]; split
    · cases r with
      | err e => exact escape_sk cfg s e
      | ok => simp only []; split <;> exact SK_frame rfl (by simp [isLeaveOb])
    · exact bad
  | syncDone r =>
    simp only [step]; split
    · exact bad
    · cases r with
      | err e => exact SK_andThen (SK_of_eq rfl (rejoinAfterError_sk cfg _ e)) (fun _ => SK_frame rfl NL_nil)
      | ok a =>
        simp only []
        split
        · exact SK_frame rfl NL_nil
        · exact SK_andThen (resetHeartbeat_sk cfg s) (fun s1 => SK_of_eq rfl (startConsumers_sk _ a))
  | hbDone r =>
    simp only [step]; split
    · exact bad
    · cases r with
      | ok => exact SK_frame rfl NL_nil
      | err e =>
        simp only []
        split
        · exact SK_andThen (SK_of_eq rfl (hbStop_sk _)) (fun _ => rejoinAfterError_sk _ _ _)
        · exact SK_frame rfl (by simp [isLeaveOb])
  | leaveDone r =>
    simp only [step]; split
    · exact bad
    · cases r <;> exact SK_of_eq rfl (finishStop_sk _ _ _ _)
  | consumerDown cid ok =>
    simp only [step]; split
    · exact consumerDown_sk cfg s cid ok
    · exact bad
  | consumerErr cid e =>
    simp only [step]; split
    · split
      · exact SK_frame rfl NL_nil
      · exact SK_of_eq rfl (rejoinAfterError_sk cfg _ e)
    · exact bad
  | consumerQuirk cid q =>
    simp only [step]; split
    · exact SK_frame rfl NL_nil
    · exact bad
  | fire id hbNext =>
    simp only [step]
    split
    · exact bad
    split
    · exact bad
    · split
      · exact bad
      · split
        · exact SK_of_eq rfl (joinAndSync_sk _)
        · exact SK_of_eq rfl (joinAndSync_sk _)
        · refine SK_andThen ?_ (fun s1 => ?_)
          · split
            · exact SK_frame rfl NL_nil
            · exact SK_frame rfl (by simp [isLeaveOb])
          · split
            · exact addTimer_sk _ _ _
            · exact SK_frame rfl NL_nil
  | advance dt =>
    simp only [step]; split
    · exact bad
    · exact SK_frame rfl NL_nil

/-- a step that sends the LeaveGroup request ends with `_stopping` set -/
theorem step_leave_stopping (cfg : Cfg) (s : St) (e : Ev) (h : (step cfg s e).2.any isLeaveOb = true) :
    (step cfg s e).1.stopping = true := by
  cases hs : (step cfg s e).1.stopping with
  | true => rfl
  | false =>
    obtain ⟨o, ho, hl⟩ := List.any_eq_true.mp h
    have := (step_sk cfg s e hs).2 o ho
    rw [this] at hl; cases hl

/-- the two known findings' situations, as seen when the LeaveGroup goes out: the step that sends it
    leaves the join coroutine in the middle of `on_join_prepare` (its drain not finished: finding
    `stop-kills-consumers-draining-for-rejoin`) or a `ConsumerGroup.stop` coroutine still waiting for
    its consumers (finding `fatal-error-stop-leaves-while-stop-drains`). -/
def leaveDuringDrainFrom (cfg : Cfg) (s : St) : List Ev → Bool
  | [] => false
  | e :: es =>
    ((step cfg s e).2.any isLeaveOb && ((step cfg s e).1.jpc == .prepare || !(step cfg s e).1.stops.isEmpty)) ||
      leaveDuringDrainFrom cfg (step cfg s e).1 es

def leaveDuringDrain (cfg : Cfg) (evs : List Ev) : Bool := leaveDuringDrainFrom cfg init evs

/-- stopping, not in `on_join_prepare`, no stop waiting: every consumer has stopped -/
theorem all_stopped_of {s : St} (h : SInv s) (d : DInv s) (h1 : s.stopping = true) (h2 : s.jpc ≠ .prepare) (h3 : s.stops = []) :
    ∀ c ∈ s.cons, c.phase = .stopped := by
  intro c hc
  cases hp : c.phase with
  | stopped => rfl
  | running =>
    have := h.stop_noheld h1 c hc
    rw [(h.held_running c hc).mpr hp] at this
    cases this
  | draining =>
    rcases d.dw c hc hp with ⟨x, _⟩ | ⟨co, hco, _⟩
    · exact absurd x h2
    · rw [h3] at hco; cases hco

theorem leaveAfterDrain_runFrom (cfg : Cfg) (evs : List Ev) :
    ∀ s, SInv s → DInv s → leaveDuringDrainFrom cfg s evs = false →
      (toMSteps (runFrom cfg s evs)).all leaveAfterDrainStep = true := by
  induction evs with
  | nil => intro s _ _ _; rfl
  | cons e es ih =>
    intro s h d hq
    simp only [leaveDuringDrainFrom, Bool.or_eq_false_iff] at hq
    have h' := step_sinv h cfg e
    have d' := step_dinv d h cfg e
    simp only [runFrom, toMSteps, List.map_cons, List.all_cons, Bool.and_eq_true]
    refine ⟨?_, ih _ h' d' hq.2⟩
    unfold leaveAfterDrainStep
    cases hl : (step cfg s e).2.any isLeaveOb with
    | false => rfl
    | true =>
      have hst := step_leave_stopping cfg s e hl
      have hq1 := hq.1
      rw [hl] at hq1
      simp only [Bool.true_and, Bool.or_eq_false_iff, beq_eq_false_iff_ne, ne_eq, Bool.not_eq_false', List.isEmpty_iff] at hq1
      have hall := all_stopped_of h' d' hst hq1.1 hq1.2
      simp only [Bool.not_true, Bool.false_or, snap, List.all_eq_true, isLive, Bool.not_eq_eq_eq_not, Bool.not_true, bne_eq_false_iff_eq]
      intro c hc
      exact hall c hc

/-- **`leaveAfterDrain` holds of every run in which the leave never goes out during one of the two
    known findings' drains** -/
theorem leaveAfterDrain_run (cfg : Cfg) (evs : List Ev) (hq : leaveDuringDrain cfg evs = false) :
    leaveAfterDrain (toMSteps (run cfg evs)) = true :=
  leaveAfterDrain_runFrom cfg evs init sinv_init dinv_init hq

end Afkak.Group
