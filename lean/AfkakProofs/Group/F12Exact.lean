import AfkakProofs.Group.LeaveTrace
import AfkakProofs.Group.EscapePartial
import AfkakProofs.Group.Progress
import AfkakProofs.Group.ObsNb
/-!
# The known finding F12 (non-Kafka half) as an exact predicate of the history

`f12Occurs cfg evs`: somewhere in the history a member that is NOT stopping PROCESSES (the event is
enabled: observations ≠ `[badOp]`) a NON-Kafka error at a point where it escapes `_join_and_sync`
(coordinator look-up, metadata load, leader partition load).  That is the finding's situation and
nothing more: the same error delivered when the member does not wait for that reply is a no-op, and a
stopping member has nothing to keep alive (`start`'s Deferred is about to fire).

`Busy` (a member that wants to rejoin with no join in flight has a rejoin / retry timer) survives every
step outside that situation; the three open C17 statements follow for every history without it.
-/
namespace Afkak.Group
open Afkak.Consts Afkak.Monitor.C17

def f12At (cfg : Cfg) (s : St) (e : Ev) : Bool := nonKafkaEscape e && !s.stopping && (step cfg s e).2 != [.badOp]

def f12From (cfg : Cfg) (s : St) : List Ev → Bool
  | [] => false
  | e :: es => f12At cfg s e || f12From cfg (step cfg s e).1 es

def f12Occurs (cfg : Cfg) (evs : List Ev) : Bool := f12From cfg init evs

/-- the coarser event-only predicate implies it -/
theorem f12From_of_noEscape (cfg : Cfg) (evs : List Ev) : ∀ s, (∀ e ∈ evs, nonKafkaEscape e = false) → f12From cfg s evs = false := by
  induction evs with
  | nil => intro _ _; rfl
  | cons e es ih =>
    intro s h
    simp only [f12From, f12At, h e List.mem_cons_self, Bool.false_and, Bool.false_or]
    exact ih _ (fun x hx => h x (List.mem_cons_of_mem _ hx))

theorem not_badOp_of_nb {obs : List Ob} (h : NB obs) : obs ≠ [.badOp] := by
  intro e
  have := h .badOp (by rw [e]; simp)
  simp [nb] at this

/-- an escape-site event that is not processed leaves the state alone -/
theorem escapeEv_bad_same (cfg : Cfg) (s : St) (e : Ev) (he : nonKafkaEscape e = true) (hb : (step cfg s e).2 = [.badOp]) :
    (step cfg s e).1 = s := by
  cases e with
  | coordDone r =>
    cases r with
    | err g =>
      revert hb
      simp only [step]
      split
      · intro _; rfl
      · split
        · intro hb; exact absurd hb (not_badOp_of_nb (escape_nb _ _ _))
        · simp [nonKafkaEscape] at he; rename_i h1; simp [h1] at he
        · simp [nonKafkaEscape] at he; rename_i h1; simp [h1] at he
    | ok => cases he
    | none => cases he
  | metaDone r =>
    cases r with
    | err g =>
      revert hb
      simp only [step]
      split
      · intro _; rfl
      · intro hb; exact absurd hb (not_badOp_of_nb (escape_nb _ _ _))
    | ok => cases he
  | partsDone r =>
    cases r with
    | err g =>
      revert hb
      simp only [step]
      split
      · intro hb; exact absurd hb (not_badOp_of_nb (escape_nb _ _ _))
      · intro _; rfl
    | ok => cases he
  | joinDone r => cases he
  | syncDone r => cases he
  | hbDone r => cases he
  | start => cases he
  | stop => cases he
  | leaveDone r => cases he
  | consumerDown c ok => cases he
  | consumerErr c g => cases he
  | consumerQuirk c q => cases he
  | fire i n => cases he
  | advance d => cases he

theorem step_busy_exact {s : St} (h : SInv s) (hb : Busy s) (cfg : Cfg) (e : Ev) (hq : f12At cfg s e = false) :
    Busy (step cfg s e).1 := by
  cases he : nonKafkaEscape e with
  | false => exact step_busy h hb cfg e he
  | true =>
    cases hs : s.stopping with
    | true =>
      refine busy_stopping ?_
      cases hx : (step cfg s e).1.stopping with
      | true => rfl
      | false => have := (step_sk cfg s e hx).1; rw [hs] at this; cases this
    | false =>
      have hbad : (step cfg s e).2 = [.badOp] := by
        simp only [f12At, he, hs, Bool.not_false, Bool.true_and, bne_eq_false_iff_eq] at hq
        exact hq
      rw [escapeEv_bad_same cfg s e he hbad]; exact hb

theorem finalFrom_busy_exact (cfg : Cfg) (evs : List Ev) :
    ∀ s, SInv s → Busy s → f12From cfg s evs = false → Busy (finalFrom cfg s evs) := by
  induction evs with
  | nil => intro s _ hb _; exact hb
  | cons e es ih =>
    intro s h hb hq
    simp only [f12From, Bool.or_eq_false_iff] at hq
    exact ih _ (step_sinv h cfg e) (step_busy_exact h hb cfg e hq.1) hq.2

theorem final_busy_exact (cfg : Cfg) (evs : List Ev) (hq : f12Occurs cfg evs = false) : Busy (final cfg evs) :=
  finalFrom_busy_exact cfg evs init sinv_init busy_init hq

theorem neverIdle_runFrom_exact (cfg : Cfg) (evs : List Ev) :
    ∀ s, SInv s → Busy s → f12From cfg s evs = false →
      (toMSteps (runFrom cfg s evs)).all neverIdleStep = true := by
  induction evs with
  | nil => intro s _ _ _; rfl
  | cons e es ih =>
    intro s h hb hq
    simp only [f12From, Bool.or_eq_false_iff] at hq
    have h' := step_sinv h cfg e
    have hb' := step_busy_exact h hb cfg e hq.1
    simp only [runFrom, toMSteps, List.map_cons, List.all_cons, Bool.and_eq_true]
    exact ⟨neverIdle_of_inv h' hb' e _, ih _ h' hb' hq.2⟩

/-- **never idle, on every history without the finding's situation** -/
theorem neverIdle_run_exact (cfg : Cfg) (evs : List Ev) (hq : f12Occurs cfg evs = false) :
    neverIdle (toMSteps (run cfg evs)) = true :=
  neverIdle_runFrom_exact cfg evs init sinv_init busy_init hq

theorem escapeStep_exact (cfg : Cfg) (s : St) (e : Ev) (hq : f12At cfg s e = false) :
    escapeSurfacesStep (snap s) ⟨e, (step cfg s e).2, snap (step cfg s e).1⟩ = true := by
  cases he : nonKafkaEscape e with
  | false => exact escapeStep_of_noEscape _ _ he
  | true =>
    simp only [f12At, he, Bool.true_and, Bool.and_eq_false_iff, Bool.not_eq_false', bne_eq_false_iff_eq] at hq
    unfold escapeSurfacesStep
    simp only []
    split
    · rcases hq with hq | hq
      · simp [snap, hq]
      · simp [hq]
    · rcases hq with hq | hq
      · simp [snap, hq]
      · simp [hq]
    · rfl

theorem escapeFrom_exact (cfg : Cfg) (evs : List Ev) :
    ∀ s, f12From cfg s evs = false → escapeFrom (snap s) (toMSteps (runFrom cfg s evs)) = true := by
  induction evs with
  | nil => intro _ _; rfl
  | cons e es ih =>
    intro s hq
    simp only [f12From, Bool.or_eq_false_iff] at hq
    simp only [runFrom, toMSteps, List.map_cons, escapeFrom, Bool.and_eq_true]
    exact ⟨escapeStep_exact cfg s e hq.1, ih _ hq.2⟩

/-- **every escaping non-Kafka error surfaces, on every history without the finding's situation**
    (there is none to surface: the content is that the monitor asks nothing else) -/
theorem escapeSurfaces_run_exact (cfg : Cfg) (evs : List Ev) (hq : f12Occurs cfg evs = false) :
    escapeSurfaces (toMSteps (run cfg evs)) = true :=
  escapeFrom_exact cfg evs init hq

end Afkak.Group
