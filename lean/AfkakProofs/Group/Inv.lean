import Afkak.Group
import AfkakProofs.Group.Tables
/-!
# Reachable-state invariants of the group model

`WInv` holds at every helper boundary inside a step; `SInv` (which extends it) at step boundaries.
-/
namespace Afkak.Group
open Afkak.Consts

@[simp] theorem andThen_fst (o : Out) (f : St → Out) : (andThen o f).1 = (f o.1).1 := rfl
@[simp] theorem andThen_snd (o : Out) (f : St → Out) : (andThen o f).2 = o.2 ++ (f o.1).2 := rfl

/-! frame lemmas (generated text, all `rfl`) -/
@[simp] theorem stopCons_now (s : St) (cids : List Nat) : (stopCons s cids).1.now = s.now := rfl
@[simp] theorem stopCons_started (s : St) (cids : List Nat) : (stopCons s cids).1.started = s.started := rfl
@[simp] theorem stopCons_startResult (s : St) (cids : List Nat) : (stopCons s cids).1.startResult = s.startResult := rfl
@[simp] theorem stopCons_stopping (s : St) (cids : List Nat) : (stopCons s cids).1.stopping = s.stopping := rfl
@[simp] theorem stopCons_rejoinNeeded (s : St) (cids : List Nat) : (stopCons s cids).1.rejoinNeeded = s.rejoinNeeded := rfl
@[simp] theorem stopCons_rejoinD (s : St) (cids : List Nat) : (stopCons s cids).1.rejoinD = s.rejoinD := rfl
@[simp] theorem stopCons_jpc (s : St) (cids : List Nat) : (stopCons s cids).1.jpc = s.jpc := rfl
@[simp] theorem stopCons_prep (s : St) (cids : List Nat) : (stopCons s cids).1.prep = s.prep := rfl
@[simp] theorem stopCons_rejoinWaitDc (s : St) (cids : List Nat) : (stopCons s cids).1.rejoinWaitDc = s.rejoinWaitDc := rfl
@[simp] theorem stopCons_member (s : St) (cids : List Nat) : (stopCons s cids).1.member = s.member := rfl
@[simp] theorem stopCons_gen (s : St) (cids : List Nat) : (stopCons s cids).1.gen = s.gen := rfl
@[simp] theorem stopCons_coordBroker (s : St) (cids : List Nat) : (stopCons s cids).1.coordBroker = s.coordBroker := rfl
@[simp] theorem stopCons_hbRunning (s : St) (cids : List Nat) : (stopCons s cids).1.hbRunning = s.hbRunning := rfl
@[simp] theorem stopCons_hbStart (s : St) (cids : List Nat) : (stopCons s cids).1.hbStart = s.hbStart := rfl
@[simp] theorem stopCons_hbInFlight (s : St) (cids : List Nat) : (stopCons s cids).1.hbInFlight = s.hbInFlight := rfl
@[simp] theorem stopCons_timers (s : St) (cids : List Nat) : (stopCons s cids).1.timers = s.timers := rfl
@[simp] theorem stopCons_nextTimer (s : St) (cids : List Nat) : (stopCons s cids).1.nextTimer = s.nextTimer := rfl
@[simp] theorem stopCons_nextCid (s : St) (cids : List Nat) : (stopCons s cids).1.nextCid = s.nextCid := rfl
@[simp] theorem stopCons_asg (s : St) (cids : List Nat) : (stopCons s cids).1.asg = s.asg := rfl
@[simp] theorem stopCons_stops (s : St) (cids : List Nat) : (stopCons s cids).1.stops = s.stops := rfl
@[simp] theorem stopCons_leaveWait (s : St) (cids : List Nat) : (stopCons s cids).1.leaveWait = s.leaveWait := rfl
@[simp] theorem stopConsumers_now (s : St) : (stopConsumers s).1.now = s.now := rfl
@[simp] theorem stopConsumers_started (s : St) : (stopConsumers s).1.started = s.started := rfl
@[simp] theorem stopConsumers_startResult (s : St) : (stopConsumers s).1.startResult = s.startResult := rfl
@[simp] theorem stopConsumers_stopping (s : St) : (stopConsumers s).1.stopping = s.stopping := rfl
@[simp] theorem stopConsumers_rejoinNeeded (s : St) : (stopConsumers s).1.rejoinNeeded = s.rejoinNeeded := rfl
@[simp] theorem stopConsumers_rejoinD (s : St) : (stopConsumers s).1.rejoinD = s.rejoinD := rfl
@[simp] theorem stopConsumers_jpc (s : St) : (stopConsumers s).1.jpc = s.jpc := rfl
@[simp] theorem stopConsumers_prep (s : St) : (stopConsumers s).1.prep = s.prep := rfl
@[simp] theorem stopConsumers_rejoinWaitDc (s : St) : (stopConsumers s).1.rejoinWaitDc = s.rejoinWaitDc := rfl
@[simp] theorem stopConsumers_member (s : St) : (stopConsumers s).1.member = s.member := rfl
@[simp] theorem stopConsumers_gen (s : St) : (stopConsumers s).1.gen = s.gen := rfl
@[simp] theorem stopConsumers_coordBroker (s : St) : (stopConsumers s).1.coordBroker = s.coordBroker := rfl
@[simp] theorem stopConsumers_hbRunning (s : St) : (stopConsumers s).1.hbRunning = s.hbRunning := rfl
@[simp] theorem stopConsumers_hbStart (s : St) : (stopConsumers s).1.hbStart = s.hbStart := rfl
@[simp] theorem stopConsumers_hbInFlight (s : St) : (stopConsumers s).1.hbInFlight = s.hbInFlight := rfl
@[simp] theorem stopConsumers_timers (s : St) : (stopConsumers s).1.timers = s.timers := rfl
@[simp] theorem stopConsumers_nextTimer (s : St) : (stopConsumers s).1.nextTimer = s.nextTimer := rfl
@[simp] theorem stopConsumers_nextCid (s : St) : (stopConsumers s).1.nextCid = s.nextCid := rfl
@[simp] theorem stopConsumers_asg (s : St) : (stopConsumers s).1.asg = s.asg := rfl
@[simp] theorem stopConsumers_stops (s : St) : (stopConsumers s).1.stops = s.stops := rfl
@[simp] theorem stopConsumers_leaveWait (s : St) : (stopConsumers s).1.leaveWait = s.leaveWait := rfl
@[simp] theorem addTimer_now (s : St) (k : TKind) (d : Rat) : (addTimer s k d).1.now = s.now := rfl
@[simp] theorem addTimer_started (s : St) (k : TKind) (d : Rat) : (addTimer s k d).1.started = s.started := rfl
@[simp] theorem addTimer_startResult (s : St) (k : TKind) (d : Rat) : (addTimer s k d).1.startResult = s.startResult := rfl
@[simp] theorem addTimer_stopping (s : St) (k : TKind) (d : Rat) : (addTimer s k d).1.stopping = s.stopping := rfl
@[simp] theorem addTimer_rejoinNeeded (s : St) (k : TKind) (d : Rat) : (addTimer s k d).1.rejoinNeeded = s.rejoinNeeded := rfl
@[simp] theorem addTimer_rejoinD (s : St) (k : TKind) (d : Rat) : (addTimer s k d).1.rejoinD = s.rejoinD := rfl
@[simp] theorem addTimer_jpc (s : St) (k : TKind) (d : Rat) : (addTimer s k d).1.jpc = s.jpc := rfl
@[simp] theorem addTimer_prep (s : St) (k : TKind) (d : Rat) : (addTimer s k d).1.prep = s.prep := rfl
@[simp] theorem addTimer_rejoinWaitDc (s : St) (k : TKind) (d : Rat) : (addTimer s k d).1.rejoinWaitDc = s.rejoinWaitDc := rfl
@[simp] theorem addTimer_member (s : St) (k : TKind) (d : Rat) : (addTimer s k d).1.member = s.member := rfl
@[simp] theorem addTimer_gen (s : St) (k : TKind) (d : Rat) : (addTimer s k d).1.gen = s.gen := rfl
@[simp] theorem addTimer_coordBroker (s : St) (k : TKind) (d : Rat) : (addTimer s k d).1.coordBroker = s.coordBroker := rfl
@[simp] theorem addTimer_hbRunning (s : St) (k : TKind) (d : Rat) : (addTimer s k d).1.hbRunning = s.hbRunning := rfl
@[simp] theorem addTimer_hbStart (s : St) (k : TKind) (d : Rat) : (addTimer s k d).1.hbStart = s.hbStart := rfl
@[simp] theorem addTimer_hbInFlight (s : St) (k : TKind) (d : Rat) : (addTimer s k d).1.hbInFlight = s.hbInFlight := rfl
@[simp] theorem addTimer_cons (s : St) (k : TKind) (d : Rat) : (addTimer s k d).1.cons = s.cons := rfl
@[simp] theorem addTimer_nextCid (s : St) (k : TKind) (d : Rat) : (addTimer s k d).1.nextCid = s.nextCid := rfl
@[simp] theorem addTimer_asg (s : St) (k : TKind) (d : Rat) : (addTimer s k d).1.asg = s.asg := rfl
@[simp] theorem addTimer_stops (s : St) (k : TKind) (d : Rat) : (addTimer s k d).1.stops = s.stops := rfl
@[simp] theorem addTimer_leaveWait (s : St) (k : TKind) (d : Rat) : (addTimer s k d).1.leaveWait = s.leaveWait := rfl
@[simp] theorem cancelTimer_now (s : St) (id : Nat) : (cancelTimer s id).1.now = s.now := rfl
@[simp] theorem cancelTimer_started (s : St) (id : Nat) : (cancelTimer s id).1.started = s.started := rfl
@[simp] theorem cancelTimer_startResult (s : St) (id : Nat) : (cancelTimer s id).1.startResult = s.startResult := rfl
@[simp] theorem cancelTimer_stopping (s : St) (id : Nat) : (cancelTimer s id).1.stopping = s.stopping := rfl
@[simp] theorem cancelTimer_rejoinNeeded (s : St) (id : Nat) : (cancelTimer s id).1.rejoinNeeded = s.rejoinNeeded := rfl
@[simp] theorem cancelTimer_rejoinD (s : St) (id : Nat) : (cancelTimer s id).1.rejoinD = s.rejoinD := rfl
@[simp] theorem cancelTimer_jpc (s : St) (id : Nat) : (cancelTimer s id).1.jpc = s.jpc := rfl
@[simp] theorem cancelTimer_prep (s : St) (id : Nat) : (cancelTimer s id).1.prep = s.prep := rfl
@[simp] theorem cancelTimer_rejoinWaitDc (s : St) (id : Nat) : (cancelTimer s id).1.rejoinWaitDc = s.rejoinWaitDc := rfl
@[simp] theorem cancelTimer_member (s : St) (id : Nat) : (cancelTimer s id).1.member = s.member := rfl
@[simp] theorem cancelTimer_gen (s : St) (id : Nat) : (cancelTimer s id).1.gen = s.gen := rfl
@[simp] theorem cancelTimer_coordBroker (s : St) (id : Nat) : (cancelTimer s id).1.coordBroker = s.coordBroker := rfl
@[simp] theorem cancelTimer_hbRunning (s : St) (id : Nat) : (cancelTimer s id).1.hbRunning = s.hbRunning := rfl
@[simp] theorem cancelTimer_hbStart (s : St) (id : Nat) : (cancelTimer s id).1.hbStart = s.hbStart := rfl
@[simp] theorem cancelTimer_hbInFlight (s : St) (id : Nat) : (cancelTimer s id).1.hbInFlight = s.hbInFlight := rfl
@[simp] theorem cancelTimer_nextTimer (s : St) (id : Nat) : (cancelTimer s id).1.nextTimer = s.nextTimer := rfl
@[simp] theorem cancelTimer_cons (s : St) (id : Nat) : (cancelTimer s id).1.cons = s.cons := rfl
@[simp] theorem cancelTimer_nextCid (s : St) (id : Nat) : (cancelTimer s id).1.nextCid = s.nextCid := rfl
@[simp] theorem cancelTimer_asg (s : St) (id : Nat) : (cancelTimer s id).1.asg = s.asg := rfl
@[simp] theorem cancelTimer_stops (s : St) (id : Nat) : (cancelTimer s id).1.stops = s.stops := rfl
@[simp] theorem cancelTimer_leaveWait (s : St) (id : Nat) : (cancelTimer s id).1.leaveWait = s.leaveWait := rfl
@[simp] theorem hbStop_now (s : St) : (hbStop s).1.now = s.now := rfl
@[simp] theorem hbStop_started (s : St) : (hbStop s).1.started = s.started := rfl
@[simp] theorem hbStop_startResult (s : St) : (hbStop s).1.startResult = s.startResult := rfl
@[simp] theorem hbStop_stopping (s : St) : (hbStop s).1.stopping = s.stopping := rfl
@[simp] theorem hbStop_rejoinNeeded (s : St) : (hbStop s).1.rejoinNeeded = s.rejoinNeeded := rfl
@[simp] theorem hbStop_rejoinD (s : St) : (hbStop s).1.rejoinD = s.rejoinD := rfl
@[simp] theorem hbStop_jpc (s : St) : (hbStop s).1.jpc = s.jpc := rfl
@[simp] theorem hbStop_prep (s : St) : (hbStop s).1.prep = s.prep := rfl
@[simp] theorem hbStop_rejoinWaitDc (s : St) : (hbStop s).1.rejoinWaitDc = s.rejoinWaitDc := rfl
@[simp] theorem hbStop_member (s : St) : (hbStop s).1.member = s.member := rfl
@[simp] theorem hbStop_gen (s : St) : (hbStop s).1.gen = s.gen := rfl
@[simp] theorem hbStop_coordBroker (s : St) : (hbStop s).1.coordBroker = s.coordBroker := rfl
@[simp] theorem hbStop_hbStart (s : St) : (hbStop s).1.hbStart = s.hbStart := rfl
@[simp] theorem hbStop_hbInFlight (s : St) : (hbStop s).1.hbInFlight = s.hbInFlight := rfl
@[simp] theorem hbStop_nextTimer (s : St) : (hbStop s).1.nextTimer = s.nextTimer := rfl
@[simp] theorem hbStop_cons (s : St) : (hbStop s).1.cons = s.cons := rfl
@[simp] theorem hbStop_nextCid (s : St) : (hbStop s).1.nextCid = s.nextCid := rfl
@[simp] theorem hbStop_asg (s : St) : (hbStop s).1.asg = s.asg := rfl
@[simp] theorem hbStop_stops (s : St) : (hbStop s).1.stops = s.stops := rfl
@[simp] theorem hbStop_leaveWait (s : St) : (hbStop s).1.leaveWait = s.leaveWait := rfl
@[simp] theorem hbSchedule_now (cfg : Cfg) (s : St) : (hbSchedule cfg s).1.now = s.now := rfl
@[simp] theorem hbSchedule_started (cfg : Cfg) (s : St) : (hbSchedule cfg s).1.started = s.started := rfl
@[simp] theorem hbSchedule_startResult (cfg : Cfg) (s : St) : (hbSchedule cfg s).1.startResult = s.startResult := rfl
@[simp] theorem hbSchedule_stopping (cfg : Cfg) (s : St) : (hbSchedule cfg s).1.stopping = s.stopping := rfl
@[simp] theorem hbSchedule_rejoinNeeded (cfg : Cfg) (s : St) : (hbSchedule cfg s).1.rejoinNeeded = s.rejoinNeeded := rfl
@[simp] theorem hbSchedule_rejoinD (cfg : Cfg) (s : St) : (hbSchedule cfg s).1.rejoinD = s.rejoinD := rfl
@[simp] theorem hbSchedule_jpc (cfg : Cfg) (s : St) : (hbSchedule cfg s).1.jpc = s.jpc := rfl
@[simp] theorem hbSchedule_prep (cfg : Cfg) (s : St) : (hbSchedule cfg s).1.prep = s.prep := rfl
@[simp] theorem hbSchedule_rejoinWaitDc (cfg : Cfg) (s : St) : (hbSchedule cfg s).1.rejoinWaitDc = s.rejoinWaitDc := rfl
@[simp] theorem hbSchedule_member (cfg : Cfg) (s : St) : (hbSchedule cfg s).1.member = s.member := rfl
@[simp] theorem hbSchedule_gen (cfg : Cfg) (s : St) : (hbSchedule cfg s).1.gen = s.gen := rfl
@[simp] theorem hbSchedule_coordBroker (cfg : Cfg) (s : St) : (hbSchedule cfg s).1.coordBroker = s.coordBroker := rfl
@[simp] theorem hbSchedule_hbRunning (cfg : Cfg) (s : St) : (hbSchedule cfg s).1.hbRunning = s.hbRunning := rfl
@[simp] theorem hbSchedule_hbStart (cfg : Cfg) (s : St) : (hbSchedule cfg s).1.hbStart = s.hbStart := rfl
@[simp] theorem hbSchedule_hbInFlight (cfg : Cfg) (s : St) : (hbSchedule cfg s).1.hbInFlight = s.hbInFlight := rfl
@[simp] theorem hbSchedule_cons (cfg : Cfg) (s : St) : (hbSchedule cfg s).1.cons = s.cons := rfl
@[simp] theorem hbSchedule_nextCid (cfg : Cfg) (s : St) : (hbSchedule cfg s).1.nextCid = s.nextCid := rfl
@[simp] theorem hbSchedule_asg (cfg : Cfg) (s : St) : (hbSchedule cfg s).1.asg = s.asg := rfl
@[simp] theorem hbSchedule_stops (cfg : Cfg) (s : St) : (hbSchedule cfg s).1.stops = s.stops := rfl
@[simp] theorem hbSchedule_leaveWait (cfg : Cfg) (s : St) : (hbSchedule cfg s).1.leaveWait = s.leaveWait := rfl

@[simp] theorem addTimer_timers (s : St) (k : TKind) (d : Rat) : (addTimer s k d).1.timers = s.timers ++ [⟨s.nextTimer, s.now + d, k⟩] := rfl
@[simp] theorem addTimer_nextTimer (s : St) (k : TKind) (d : Rat) : (addTimer s k d).1.nextTimer = s.nextTimer + 1 := rfl
@[simp] theorem addTimer_obs (s : St) (k : TKind) (d : Rat) : (addTimer s k d).2 = [.setTimer s.nextTimer k d] := rfl
@[simp] theorem cancelTimer_timers (s : St) (id : Nat) : (cancelTimer s id).1.timers = s.timers.filter (·.id != id) := rfl
@[simp] theorem hbStop_timers (s : St) : (hbStop s).1.timers = s.timers.filter (·.kind != .hb) := rfl
@[simp] theorem hbStop_hbRunning (s : St) : (hbStop s).1.hbRunning = false := rfl
@[simp] theorem hbSchedule_timers (cfg : Cfg) (s : St) : (hbSchedule cfg s).1.timers = s.timers ++ [⟨s.nextTimer, s.now + hbDelay cfg s, .hb⟩] := rfl
@[simp] theorem hbSchedule_nextTimer (cfg : Cfg) (s : St) : (hbSchedule cfg s).1.nextTimer = s.nextTimer + 1 := rfl

/-- `ConsumerGroup.stop()` by the application: refused while an earlier stop drains (state
    unchanged), otherwise `stopCall` -/
theorem userStop_cases (cfg : Cfg) (s : St) :
    (userStop cfg s = (s, [.stopFired true]) ∧ s.stopDraining = true ∧ s.stopping = false) ∨
    userStop cfg s = stopCall cfg s none true := by
  unfold userStop
  split
  · rename_i h
    simp only [Bool.and_eq_true, Bool.not_eq_true'] at h
    exact Or.inl ⟨rfl, h.1, h.2⟩
  · exact Or.inr rfl

structure WInv (s : St) : Prop where
  stop_needed : s.stopping = true → s.rejoinNeeded = false
  hb_timer : s.hbRunning = false → (∀ t ∈ s.timers, t.kind ≠ .hb) ∧ s.hbInFlight = false
  timer_lt : ∀ t ∈ s.timers, t.id < s.nextTimer
  timer_uniq : s.timers.Pairwise (fun a b => a.id ≠ b.id)
  dc_active : s.stopping = false → ∀ id, s.rejoinWaitDc = some id → ∃ t ∈ s.timers, t.id = id ∧ t.kind = .rejoin
  held_running : ∀ c ∈ s.cons, (c.held = true ↔ c.phase = .running)
  held_cur : ∀ c ∈ s.cons, c.held = true → c.gen = s.gen ∧ c.member = s.member ∧ (c.topic, c.part) ∈ s.asg
  stop_noheld : s.stopping = true → ∀ c ∈ s.cons, c.held = false
  leave_stop : s.leaveWait.isSome = true → s.stopping = true
  start_res : s.started = true → s.stopping = false → s.startResult = none
  pristine : s.started = false → s.stopping = false → s.rejoinNeeded = true ∧ s.rejoinD = false ∧ s.jpc = .idle

theorem uniq_append {ts : List Timer} {n : Nat} (hu : ts.Pairwise (fun a b => a.id ≠ b.id)) (hl : ∀ t ∈ ts, t.id < n)
    (d : Rat) (k : TKind) : (ts ++ [(⟨n, d, k⟩ : Timer)]).Pairwise (fun (a b : Timer) => a.id ≠ b.id) := by
  rw [List.pairwise_append]
  refine ⟨hu, by simp, ?_⟩
  intro a ha b hb
  simp only [List.mem_singleton] at hb
  subst hb
  exact Nat.ne_of_lt (hl a ha)

/-- `heldCids` is empty exactly when no consumer is held -/
theorem heldCids_isEmpty (s : St) : (heldCids s).isEmpty = true ↔ ∀ c ∈ s.cons, c.held = false := by
  simp [heldCids, List.isEmpty_iff, List.filter_eq_nil_iff]

theorem stopCons_winv {s : St} (h : WInv s) (cids : List Nat) : WInv (stopCons s cids).1 := by
  unfold stopCons
  constructor <;> simp only [] <;> try (first | exact h.stop_needed | exact h.hb_timer | exact h.timer_lt | exact h.timer_uniq | exact h.dc_active | exact h.leave_stop | exact h.start_res | exact h.pristine)
  · intro c hc; have := h.held_running; grind
  · intro c hc; have := h.held_cur; grind
  · intro hs c hc; have := h.stop_noheld hs; grind

theorem stopConsumers_winv {s : St} (h : WInv s) : WInv (stopConsumers s).1 := stopCons_winv h _

theorem stopConsumers_noheld {s : St} (h : WInv s) : ∀ c ∈ (stopConsumers s).1.cons, c.held = false := by
  unfold stopConsumers stopCons heldCids
  simp only []
  intro c hc
  have := h.held_running
  grind

theorem rowEffects_winv {s : St} (h : WInv s) (row : RejoinRow) (hr : row.clearMember = true → row.leave = true) :
    WInv (rowEffects s row).1 := by
  unfold rowEffects
  simp only [andThen_fst]
  have h1 := stopConsumers_winv h
  have h2 := stopConsumers_noheld h
  cases hl : row.leave <;> cases hc : row.clearMember <;> simp_all
  constructor <;> simp only [] <;> try (first | exact h1.stop_needed | exact h1.hb_timer | exact h1.timer_lt | exact h1.timer_uniq | exact h1.dc_active | exact h1.leave_stop | exact h1.start_res | exact h1.pristine | exact h1.held_running | exact h1.stop_noheld)
  intro c hc; simp [h2 c hc]

/-- the control fields that `rejoin_after_error`'s table effects never touch -/
structure SameCtl (s s' : St) : Prop where
  stopping : s'.stopping = s.stopping
  started : s'.started = s.started
  startResult : s'.startResult = s.startResult
  rejoinD : s'.rejoinD = s.rejoinD
  jpc : s'.jpc = s.jpc
  prep : s'.prep = s.prep
  gen : s'.gen = s.gen
  coordBroker : s'.coordBroker = s.coordBroker
  hbRunning : s'.hbRunning = s.hbRunning
  hbInFlight : s'.hbInFlight = s.hbInFlight
  asg : s'.asg = s.asg
  stops : s'.stops = s.stops
  leaveWait : s'.leaveWait = s.leaveWait
  now : s'.now = s.now
  nextCid : s'.nextCid = s.nextCid

theorem rowEffects_ctl (s : St) (row : RejoinRow) : SameCtl s (rowEffects s row).1 := by
  unfold rowEffects
  cases row.leave <;> cases row.clearMember <;> constructor <;> simp

theorem rowEffects_timers (s : St) (row : RejoinRow) :
    (rowEffects s row).1.timers = s.timers ∧ (rowEffects s row).1.nextTimer = s.nextTimer ∧
    (rowEffects s row).1.rejoinWaitDc = s.rejoinWaitDc ∧ (rowEffects s row).1.rejoinNeeded = s.rejoinNeeded := by
  unfold rowEffects
  cases row.leave <;> cases row.clearMember <;> simp

theorem scheduleRejoin_ctl (cfg : Cfg) (s : St) (fd : Bool) : SameCtl s (scheduleRejoin cfg s fd).1 := by
  unfold scheduleRejoin
  cases h : s.rejoinWaitDc <;> constructor <;> simp

theorem scheduleRejoin_cons (cfg : Cfg) (s : St) (fd : Bool) :
    (scheduleRejoin cfg s fd).1.cons = s.cons ∧ (scheduleRejoin cfg s fd).1.member = s.member := by
  unfold scheduleRejoin
  cases h : s.rejoinWaitDc <;> simp

theorem scheduleRejoin_winv {s : St} (h : WInv s) (cfg : Cfg) (fd : Bool) (hs : s.stopping = false) :
    WInv (scheduleRejoin cfg s fd).1 := by
  unfold scheduleRejoin
  cases hd : s.rejoinWaitDc
  · simp only [Option.isNone_none, if_true, andThen_fst]
    constructor <;> simp only [addTimer_timers, addTimer_nextTimer, addTimer_stopping, addTimer_hbRunning, addTimer_cons,
      addTimer_gen, addTimer_member, addTimer_asg, addTimer_leaveWait, addTimer_started, addTimer_startResult,
      addTimer_rejoinD, addTimer_jpc, addTimer_rejoinNeeded, addTimer_hbInFlight]
    · simp [hs]
    · have := h.hb_timer; grind
    · have := h.timer_lt; grind
    · exact uniq_append h.timer_uniq h.timer_lt _ _
    · intro _ id hid
      simp only [Option.some.injEq] at hid
      exact ⟨⟨s.nextTimer, s.now + secs (if fd = true then cfg.fatalBackoffMs else cfg.retryBackoffMs), .rejoin⟩, by simp, hid, rfl⟩
    · exact h.held_running
    · exact h.held_cur
    · exact h.stop_noheld
    · exact h.leave_stop
    · exact h.start_res
    · have := h.pristine; grind
  · simp only [Option.isNone_some, Bool.false_eq_true, if_false]
    constructor <;> simp only []
    · simp [hs]
    · exact h.hb_timer
    · exact h.timer_lt
    · exact h.timer_uniq
    · have := h.dc_active; grind
    · exact h.held_running
    · exact h.held_cur
    · exact h.stop_noheld
    · exact h.leave_stop
    · exact h.start_res
    · have := h.pristine; grind

/-- after `scheduleRejoin` a rejoin is wanted and a rejoin timer is pending -/
theorem scheduleRejoin_post {s : St} (h : WInv s) (cfg : Cfg) (fd : Bool) (hs : s.stopping = false) :
    (scheduleRejoin cfg s fd).1.rejoinNeeded = true ∧ ∃ t ∈ (scheduleRejoin cfg s fd).1.timers, t.kind = .rejoin := by
  unfold scheduleRejoin
  cases hd : s.rejoinWaitDc
  · simp
  · have := h.dc_active hs _ hd
    simp only [Option.isNone_some, Bool.false_eq_true, if_false]
    grind

theorem SameCtl.rfl' (s : St) : SameCtl s s := by constructor <;> rfl
theorem SameCtl.trans {a b c : St} (h1 : SameCtl a b) (h2 : SameCtl b c) : SameCtl a c := by
  constructor
  · rw [h2.stopping, h1.stopping]
  · rw [h2.started, h1.started]
  · rw [h2.startResult, h1.startResult]
  · rw [h2.rejoinD, h1.rejoinD]
  · rw [h2.jpc, h1.jpc]
  · rw [h2.prep, h1.prep]
  · rw [h2.gen, h1.gen]
  · rw [h2.coordBroker, h1.coordBroker]
  · rw [h2.hbRunning, h1.hbRunning]
  · rw [h2.hbInFlight, h1.hbInFlight]
  · rw [h2.asg, h1.asg]
  · rw [h2.stops, h1.stops]
  · rw [h2.leaveWait, h1.leaveWait]
  · rw [h2.now, h1.now]
  · rw [h2.nextCid, h1.nextCid]

theorem stopConsumers_ctl (s : St) : SameCtl s (stopConsumers s).1 := by constructor <;> rfl

def NoHeld (s : St) : Prop := ∀ c ∈ s.cons, c.held = false

theorem stopCons_noheld {s : St} (h : NoHeld s) (cids : List Nat) : NoHeld (stopCons s cids).1 := by
  unfold stopCons NoHeld at *
  simp only []
  intro c hc
  grind

theorem rowEffects_noheld {s : St} (h : NoHeld s) (row : RejoinRow) : NoHeld (rowEffects s row).1 := by
  unfold rowEffects
  have := stopCons_noheld h (heldCids s)
  cases row.leave <;> cases row.clearMember <;> simp_all [NoHeld, stopConsumers]

theorem scheduleRejoin_noheld {s : St} (h : NoHeld s) (cfg : Cfg) (fd : Bool) : NoHeld (scheduleRejoin cfg s fd).1 := by
  unfold NoHeld; rw [(scheduleRejoin_cons cfg s fd).1]; exact h

theorem scheduleRejoin_timers_mono (cfg : Cfg) (s : St) (fd : Bool) : ∀ t ∈ s.timers, t ∈ (scheduleRejoin cfg s fd).1.timers := by
  unfold scheduleRejoin
  cases h : s.rejoinWaitDc <;> simp_all

theorem rejoinWith_ctl (cfg : Cfg) (s : St) (row : RejoinRow) : SameCtl s (rejoinWith cfg s row).1.1 := by
  unfold rejoinWith
  cases row.act <;> simp only [andThen_fst]
  · exact (rowEffects_ctl s row).trans (scheduleRejoin_ctl _ _ _)
  · exact rowEffects_ctl s row
  · exact SameCtl.rfl' s
  · exact stopConsumers_ctl s

theorem rejoinWith_winv {s : St} (h : WInv s) (cfg : Cfg) (row : RejoinRow)
    (hr : row.clearMember = true → row.leave = true) (hs : row.act = .rejoin → s.stopping = false) :
    WInv (rejoinWith cfg s row).1.1 := by
  unfold rejoinWith
  cases ha : row.act <;> simp only [andThen_fst]
  · refine scheduleRejoin_winv (rowEffects_winv h row hr) cfg _ ?_
    rw [(rowEffects_ctl s row).stopping]; exact hs ha
  · exact rowEffects_winv h row hr
  · exact h
  · exact stopConsumers_winv h

theorem rejoinWith_noheld {s : St} (h : NoHeld s) (cfg : Cfg) (row : RejoinRow) : NoHeld (rejoinWith cfg s row).1.1 := by
  unfold rejoinWith
  cases row.act <;> simp only [andThen_fst]
  · exact scheduleRejoin_noheld (rowEffects_noheld h row) _ _
  · exact rowEffects_noheld h row
  · exact h
  · exact stopCons_noheld h _

theorem rejoinWith_timers_mono (cfg : Cfg) (s : St) (row : RejoinRow) : ∀ t ∈ s.timers, t ∈ (rejoinWith cfg s row).1.1.timers := by
  unfold rejoinWith
  intro t ht
  cases row.act <;> simp only [andThen_fst]
  · apply scheduleRejoin_timers_mono; rw [(rowEffects_timers s row).1]; exact ht
  · rw [(rowEffects_timers s row).1]; exact ht
  · exact ht
  · exact ht

theorem rejoinWith_flag (cfg : Cfg) (s : St) (row : RejoinRow) : (rejoinWith cfg s row).2 = true ↔ row.act = .fatal := by
  unfold rejoinWith
  cases row.act <;> simp

theorem rejoinWith_fatal_noheld {s : St} (h : WInv s) (cfg : Cfg) (row : RejoinRow) (hf : row.act = .fatal) :
    NoHeld (rejoinWith cfg s row).1.1 := by
  unfold rejoinWith
  simp only [hf]
  exact stopConsumers_noheld h

theorem rejoinWith_rejoin_post {s : St} (h : WInv s) (cfg : Cfg) (row : RejoinRow)
    (hr : row.clearMember = true → row.leave = true) (ha : row.act = .rejoin) (hs : s.stopping = false) :
    (rejoinWith cfg s row).1.1.rejoinNeeded = true ∧ ∃ t ∈ (rejoinWith cfg s row).1.1.timers, t.kind = .rejoin := by
  unfold rejoinWith
  simp only [ha, andThen_fst]
  refine scheduleRejoin_post (rowEffects_winv h row hr) cfg _ ?_
  rw [(rowEffects_ctl s row).stopping]; exact hs

theorem rejoinWith_needed (cfg : Cfg) (s : St) (row : RejoinRow) (ha : row.act ≠ .rejoin) :
    (rejoinWith cfg s row).1.1.rejoinNeeded = s.rejoinNeeded := by
  unfold rejoinWith
  cases h : row.act <;> simp_all [(rowEffects_timers s row).2.2.2]

def midJoin (j : JPc) : Prop := j = .prepare ∨ j = .join ∨ (∃ n, j = .loadParts n) ∨ j = .sync

/-- the invariant at step boundaries -/
structure SInv (s : St) : Prop extends WInv s where
  rd_jpc : s.rejoinD = true ↔ s.jpc ≠ .idle
  jpc_needed : s.jpc ≠ .idle → s.rejoinNeeded = true ∨ s.stopping = true
  stable_hb : s.rejoinNeeded = false → s.stopping = false → s.hbRunning = true
  mid_noheld : midJoin s.jpc → NoHeld s
  hb_has : s.hbRunning = true → ∃ t ∈ s.timers, t.kind = .hb
  pristine_empty : s.started = false → s.stopping = false →
    s.timers = [] ∧ s.cons = [] ∧ s.hbInFlight = false ∧ s.leaveWait = none ∧ s.stops = [] ∧ s.hbRunning = false

theorem rejoinCore_stopping_winv {s : St} (h : WInv s) (cfg : Cfg) (e : GErr) (hs : s.stopping = true) :
    WInv (rejoinCore cfg s e).1.1 ∧ SameCtl s (rejoinCore cfg s e).1.1 ∧
    (rejoinCore cfg s e).1.1.rejoinNeeded = s.rejoinNeeded ∧ (∀ t ∈ s.timers, t ∈ (rejoinCore cfg s e).1.1.timers) ∧
    (NoHeld s → NoHeld (rejoinCore cfg s e).1.1) := by
  unfold rejoinCore
  have hne : (rejoinRow s.stopping e).act ≠ .rejoin := by rw [hs]; exact Tables.stopping_no_rejoin e
  exact ⟨rejoinWith_winv h cfg _ (Tables.clearMember_leave _ e) (fun ha => absurd ha hne), rejoinWith_ctl _ _ _,
    rejoinWith_needed _ _ _ hne, rejoinWith_timers_mono _ _ _, fun hn => rejoinWith_noheld hn _ _⟩

/-- what a state reached while stopping needs for `SInv` once the join coroutine is gone -/
theorem sinv_of_stopping {s : St} (h : WInv s) (hs : s.stopping = true) (hn : NoHeld s)
    (hr : s.rejoinD = false) (hj : s.jpc = .idle) (hb : s.hbRunning = true → ∃ t ∈ s.timers, t.kind = .hb) : SInv s := by
  refine { toWInv := h, rd_jpc := ?_, jpc_needed := ?_, stable_hb := ?_, mid_noheld := ?_, hb_has := hb, pristine_empty := ?_ }
  · simp [hr, hj]
  · simp [hj]
  · simp [hs]
  · intro _; exact hn
  · simp [hs]

/-- under stopping, with the record fields that `finishStop` finally resets -/
theorem winv_finish {s : St} (h : WInv s) (hs : s.stopping = true) (hn : NoHeld s) (res : Option (Option GErr)) :
    WInv { s with member := 0, gen := none, coordBroker := false, started := false, leaveWait := none, startResult := res } := by
  constructor <;> simp only []
  · exact h.stop_needed
  · exact h.hb_timer
  · exact h.timer_lt
  · exact h.timer_uniq
  · exact h.dc_active
  · exact h.held_running
  · intro c hc hh; have := hn c hc; simp_all
  · exact h.stop_noheld
  · simp
  · simp
  · simp [hs]

/-- while stopping, the join coroutine's bookkeeping fields are free -/
theorem winv_jpc_update {s : St} (h : WInv s) (hs : s.stopping = true) (rd : Bool) (j : JPc) (p : Drain) :
    WInv { s with rejoinD := rd, jpc := j, prep := p } := by
  constructor <;> simp only []
  · exact h.stop_needed
  · exact h.hb_timer
  · exact h.timer_lt
  · exact h.timer_uniq
  · exact h.dc_active
  · exact h.held_running
  · exact h.held_cur
  · exact h.stop_noheld
  · exact h.leave_stop
  · exact h.start_res
  · simp [hs]

theorem winv_addRetry {s : St} (h : WInv s) (d : Rat) : WInv (addTimer s .retry d).1 := by
  constructor <;> simp only [addTimer_timers, addTimer_nextTimer, addTimer_stopping, addTimer_hbRunning, addTimer_cons,
      addTimer_gen, addTimer_member, addTimer_asg, addTimer_leaveWait, addTimer_started, addTimer_startResult,
      addTimer_rejoinD, addTimer_jpc, addTimer_rejoinNeeded, addTimer_rejoinWaitDc, addTimer_hbInFlight]
  · exact h.stop_needed
  · have := h.hb_timer; grind
  · have := h.timer_lt; grind
  · exact uniq_append h.timer_uniq h.timer_lt _ _
  · have := h.dc_active; grind
  · exact h.held_running
  · exact h.held_cur
  · exact h.stop_noheld
  · exact h.leave_stop
  · exact h.start_res
  · exact h.pristine

/-- what the cancelled join coroutine leaves behind while stopping -/
structure StopPost (s s' : St) : Prop where
  winv : WInv s'
  stopping : s'.stopping = true
  noheld : NoHeld s'
  rd : s'.rejoinD = false
  jpc : s'.jpc = .idle
  started : s'.started = s.started
  startResult : s'.startResult = s.startResult
  stops : s'.stops = s.stops
  needed : s'.rejoinNeeded = s.rejoinNeeded
  mono : ∀ t ∈ s.timers, t ∈ s'.timers

theorem escapeCore_stopping {s : St} (h : WInv s) (cfg : Cfg) (e : GErr) (hs : s.stopping = true) (hn : NoHeld s) :
    StopPost s (escapeCore cfg s e).1.1 := by
  unfold escapeCore
  have h0 : WInv { s with jpc := .idle, rejoinD := false } := winv_jpc_update h hs false .idle s.prep
  by_cases he : escapeRejoins e = true
  · obtain ⟨w, c, n, mo, nh⟩ := rejoinCore_stopping_winv h0 cfg e hs
    simp only [he, if_true]
    exact ⟨w, by rw [c.stopping]; exact hs, nh hn, by rw [c.rejoinD], by rw [c.jpc], by rw [c.started],
      by rw [c.startResult], by rw [c.stops], n, mo⟩
  · simp only [he]
    exact ⟨h0, hs, hn, rfl, rfl, rfl, rfl, rfl, rfl, fun _ h => h⟩

theorem cancelJoin_post {s : St} (h : WInv s) (cfg : Cfg) (hs : s.stopping = true) (hn : NoHeld s)
    (hj : s.rejoinD = false → s.jpc = .idle) : StopPost s (cancelJoin cfg s).1 := by
  unfold cancelJoin
  by_cases hr : s.rejoinD = true
  · simp only [hr, if_true]
    have h0 : ∀ j p, WInv { s with rejoinD := false, jpc := j, prep := p } := fun j p => winv_jpc_update h hs false j p
    have h1 : WInv { s with rejoinD := false } := h0 s.jpc s.prep
    cases hjp : s.jpc <;> simp only [andThen_fst]
    · exact ⟨h0 .idle s.prep, hs, hn, rfl, rfl, rfl, rfl, rfl, rfl, fun _ h => h⟩
    · -- coordLookup
      cases coordFailRow .cancelled <;> simp only [andThen_fst]
      · have hw2 := winv_addRetry (h0 .coordLookup s.prep) (secs cfg.initialBackoffMs)
        exact ⟨winv_jpc_update hw2 hs false .idle _, hs, hn, rfl, rfl, rfl, rfl, rfl, rfl, fun _ h => List.mem_append_left _ h⟩
      · have hw2 := winv_addRetry (h0 .coordLookup s.prep) (secs cfg.fatalBackoffMs)
        exact ⟨winv_jpc_update hw2 hs false .idle _, hs, hn, rfl, rfl, rfl, rfl, rfl, rfl, fun _ h => List.mem_append_left _ h⟩
      · have t := escapeCore_stopping (h0 .coordLookup s.prep) cfg .cancelled hs hn
        exact ⟨t.winv, t.stopping, t.noheld, t.rd, t.jpc, t.started, t.startResult, t.stops, t.needed, t.mono⟩
    · exact ⟨h0 .idle s.prep, hs, hn, rfl, rfl, rfl, rfl, rfl, rfl, fun _ h => h⟩
    · -- prepare
      have hw := stopCons_winv (h0 .prepare s.prep) s.prep.batch
      have hn2 : NoHeld (stopCons { s with rejoinD := false, jpc := .prepare } s.prep.batch).1 := stopCons_noheld hn _
      exact ⟨winv_jpc_update hw hs false .idle _, hs, hn2, rfl, rfl, rfl, rfl, rfl, rfl, fun _ h => h⟩
    · -- hang
      exact ⟨h0 .idle s.prep, hs, hn, rfl, rfl, rfl, rfl, rfl, rfl, fun _ h => h⟩
    · -- join
      obtain ⟨w, c, n, mo, nh⟩ := rejoinCore_stopping_winv (h0 .idle s.prep) cfg .cancelled hs
      exact ⟨w, by rw [c.stopping]; exact hs, nh hn, by rw [c.rejoinD], by rw [c.jpc], by rw [c.started],
        by rw [c.startResult], by rw [c.stops], n, mo⟩
    · rename_i n
      have t := escapeCore_stopping (h0 (.loadParts n) s.prep) cfg (if cfg.partsCancelSleeping then .cancelled else .kafkaUnavailable) hs hn
      exact ⟨t.winv, t.stopping, t.noheld, t.rd, t.jpc, t.started, t.startResult, t.stops, t.needed, t.mono⟩
    · obtain ⟨w, c, n, mo, nh⟩ := rejoinCore_stopping_winv (h0 .idle s.prep) cfg .cancelled hs
      exact ⟨w, by rw [c.stopping]; exact hs, nh hn, by rw [c.rejoinD], by rw [c.jpc], by rw [c.started],
        by rw [c.startResult], by rw [c.stops], n, mo⟩
  · have hr' : s.rejoinD = false := by simpa using hr
    simp only [hr]
    exact ⟨h, hs, hn, hr', hj hr', rfl, rfl, rfl, rfl, fun _ h => h⟩

structure FinPost (s s' : St) : Prop where
  winv : WInv s'
  noheld : NoHeld s'
  stopping : s'.stopping = true
  rd : s'.rejoinD = false
  jpc : s'.jpc = .idle
  stops : s'.stops = s.stops
  started : s'.started = false
  hbRunning : s'.hbRunning = s.hbRunning
  leaveWait : s'.leaveWait = none
  mono : ∀ t ∈ s.timers, t ∈ s'.timers

theorem cancelJoin_hb (cfg : Cfg) (s : St) : (cancelJoin cfg s).1.hbRunning = s.hbRunning := by
  unfold cancelJoin escapeCore rejoinCore
  split
  · split <;> simp only [andThen_fst] <;> (try split) <;> (try split) <;> (try split) <;>
      simp [(rejoinWith_ctl _ _ _).hbRunning]
  · rfl

theorem finishStop_post {s : St} (h : WInv s) (cfg : Cfg) (err : Option GErr) (user : Bool)
    (hs : s.stopping = true) (hn : NoHeld s) (hj : s.rejoinD = false → s.jpc = .idle) :
    FinPost s (finishStop cfg s err user).1 := by
  have p := cancelJoin_post h cfg hs hn hj
  have w := winv_finish p.winv p.stopping p.noheld
    (if (cancelJoin cfg s).1.startResult.isNone then some err else (cancelJoin cfg s).1.startResult)
  unfold finishStop
  simp only [andThen_fst]
  exact ⟨w, p.noheld, p.stopping, p.rd, p.jpc, p.stops, rfl, cancelJoin_hb cfg s, rfl, p.mono⟩

/-- a state in the middle of `Coordinator.stop` -/
structure Mid (s s' : St) : Prop where
  winv : WInv s'
  noheld : NoHeld s'
  stopping : s'.stopping = true
  rd : s'.rejoinD = s.rejoinD
  jpc : s'.jpc = s.jpc
  stops : s'.stops = s.stops
  started : s'.started = s.started
  leaveWait : s'.leaveWait = s.leaveWait

theorem Mid.trans {a b c : St} (h1 : Mid a b) (h2 : Mid b c) : Mid a c :=
  ⟨h2.winv, h2.noheld, h2.stopping, by rw [h2.rd, h1.rd], by rw [h2.jpc, h1.jpc], by rw [h2.stops, h1.stops],
   by rw [h2.started, h1.started], by rw [h2.leaveWait, h1.leaveWait]⟩

theorem winv_filter_timers {s : St} (h : WInv s) (hs : s.stopping = true) (p : Timer → Bool) (hb : Bool)
    (hhb : hb = false → (∀ t ∈ s.timers.filter p, t.kind ≠ .hb) ∧ s.hbInFlight = false) :
    WInv { s with timers := s.timers.filter p, hbRunning := hb } := by
  constructor <;> simp only []
  · exact h.stop_needed
  · exact hhb
  · intro t ht; exact h.timer_lt t (List.mem_filter.mp ht).1
  · exact h.timer_uniq.filter _
  · simp [hs]
  · exact h.held_running
  · exact h.held_cur
  · exact h.stop_noheld
  · exact h.leave_stop
  · exact h.start_res
  · simp [hs]

theorem stopCancelDc_mid {s : St} (h : WInv s) (hs : s.stopping = true) (hn : NoHeld s) : Mid s (stopCancelDc s).1 := by
  unfold stopCancelDc
  cases hd : s.rejoinWaitDc
  · exact ⟨h, hn, hs, rfl, rfl, rfl, rfl, rfl⟩
  · rename_i id
    refine ⟨?_, hn, hs, rfl, rfl, rfl, rfl, rfl⟩
    exact winv_filter_timers h hs (fun t => t.id != id) s.hbRunning (fun hb => ⟨fun t ht => (h.hb_timer hb).1 t (List.mem_filter.mp ht).1, (h.hb_timer hb).2⟩)

theorem hbStop_mid {s : St} (h : WInv s) (hs : s.stopping = true) (hn : NoHeld s) (hf : s.hbInFlight = false) :
    Mid s (hbStop s).1 ∧ (hbStop s).1.hbRunning = false := by
  refine ⟨⟨?_, hn, hs, rfl, rfl, rfl, rfl, rfl⟩, rfl⟩
  exact winv_filter_timers h hs (fun t => t.kind != .hb) false (fun _ => ⟨fun t ht => by simpa using (List.mem_filter.mp ht).2, hf⟩)

theorem winv_hbInFlight {s : St} (h : WInv s) (b : Bool) (hb : b = true → s.hbRunning = true) : WInv { s with hbInFlight := b } := by
  constructor <;> simp only []
  · exact h.stop_needed
  · intro hr
    refine ⟨(h.hb_timer hr).1, ?_⟩
    cases b
    · rfl
    · rw [hb rfl] at hr; cases hr
  · exact h.timer_lt
  · exact h.timer_uniq
  · exact h.dc_active
  · exact h.held_running
  · exact h.held_cur
  · exact h.stop_noheld
  · exact h.leave_stop
  · exact h.start_res
  · exact h.pristine

theorem stopCancelHb_mid {s : St} (h : WInv s) (cfg : Cfg) (hs : s.stopping = true) (hn : NoHeld s) :
    Mid s (stopCancelHb cfg s).1 ∧ (stopCancelHb cfg s).1.hbInFlight = false := by
  unfold stopCancelHb
  have h1 := winv_hbInFlight h false (fun x => by cases x)
  split
  · simp only []
    split
    · simp only [andThen_fst]
      obtain ⟨m, _⟩ := hbStop_mid (s := { s with hbInFlight := false }) h1 hs hn rfl
      obtain ⟨w, c, _, _, nh⟩ := rejoinCore_stopping_winv m.winv cfg .cancelled m.stopping
      exact ⟨⟨w, nh m.noheld, by rw [c.stopping]; exact m.stopping, by rw [c.rejoinD]; exact m.rd, by rw [c.jpc]; exact m.jpc,
        by rw [c.stops]; exact m.stops, by rw [c.started]; exact m.started, by rw [c.leaveWait]; exact m.leaveWait⟩,
        by rw [c.hbInFlight]; rfl⟩
    · exact ⟨⟨h1, hn, hs, rfl, rfl, rfl, rfl, rfl⟩, rfl⟩
  · rename_i hf
    exact ⟨⟨h, hn, hs, rfl, rfl, rfl, rfl, rfl⟩, by simpa using hf⟩

theorem stopLooper_mid {s : St} (h : WInv s) (hs : s.stopping = true) (hn : NoHeld s) (hf : s.hbInFlight = false) :
    Mid s (stopLooper s).1 ∧ (stopLooper s).1.hbRunning = false := by
  unfold stopLooper
  split
  · exact hbStop_mid h hs hn hf
  · rename_i hr
    exact ⟨⟨h, hn, hs, rfl, rfl, rfl, rfl, rfl⟩, by simpa using hr⟩

/-- the state with `_stopping` set satisfies the weak invariant when no consumer is held -/
theorem winv_begin_stop {s : St} (h : WInv s) (hn : NoHeld s) : WInv { s with stopping := true, rejoinNeeded := false } := by
  constructor <;> simp only []
  · simp
  · exact h.hb_timer
  · exact h.timer_lt
  · exact h.timer_uniq
  · simp
  · exact h.held_running
  · exact h.held_cur
  · intro _; exact hn
  · simp
  · simp
  · simp

/-- result of `Coordinator.stop` -/
structure StopRes (s s' : St) : Prop where
  winv : WInv s'
  noheld : NoHeld s'
  stops : s'.stops = s.stops
  hb_has : s'.hbRunning = true → ∃ t ∈ s'.timers, t.kind = .hb
  shape : (s' = s ∧ (s.started = false ∨ s.stopping = true)) ∨
    (s'.stopping = true ∧ ((s'.jpc = s.jpc ∧ s'.rejoinD = s.rejoinD) ∨ (s'.jpc = .idle ∧ s'.rejoinD = false)))

theorem leaveOrFinish_res {s : St} (h : WInv s) (cfg : Cfg) (err : Option GErr) (user : Bool) (hs : s.stopping = true)
    (hn : NoHeld s) (hj : s.rejoinD = false → s.jpc = .idle) (hb : s.hbRunning = false) :
    let s' := (leaveOrFinish cfg err user s).1
    WInv s' ∧ NoHeld s' ∧ s'.stops = s.stops ∧ s'.hbRunning = false ∧ s'.stopping = true ∧
      ((s'.jpc = s.jpc ∧ s'.rejoinD = s.rejoinD) ∨ (s'.jpc = .idle ∧ s'.rejoinD = false)) := by
  unfold leaveOrFinish
  split
  · refine ⟨?_, hn, rfl, hb, hs, Or.inl ⟨rfl, rfl⟩⟩
    constructor <;> simp only []
    · exact h.stop_needed
    · exact h.hb_timer
    · exact h.timer_lt
    · exact h.timer_uniq
    · exact h.dc_active
    · exact h.held_running
    · exact h.held_cur
    · exact h.stop_noheld
    · intro _; exact hs
    · exact h.start_res
    · exact h.pristine
  · have f := finishStop_post h cfg err user hs hn hj
    exact ⟨f.winv, f.noheld, f.stops, by rw [f.hbRunning, hb], f.stopping, Or.inr ⟨f.jpc, f.rd⟩⟩

theorem coordStop_res {s : St} (h : WInv s) (cfg : Cfg) (err : Option GErr) (user : Bool) (hn : NoHeld s)
    (hj : s.rejoinD = false → s.jpc = .idle) (hb : s.hbRunning = true → ∃ t ∈ s.timers, t.kind = .hb) :
    StopRes s (coordStop cfg s err user).1 := by
  unfold coordStop
  split
  · rename_i hg
    refine ⟨h, hn, rfl, hb, Or.inl ⟨rfl, ?_⟩⟩
    cases hst : s.started <;> simp_all
  · simp only []
    have w1 := winv_begin_stop h hn
    split
    · exact ⟨w1, hn, rfl, hb, Or.inr ⟨rfl, Or.inl ⟨rfl, rfl⟩⟩⟩
    · simp only [andThen_fst]
      have mA := stopCancelDc_mid w1 rfl hn
      have mB := stopCancelHb_mid mA.winv cfg mA.stopping mA.noheld
      have mC := stopLooper_mid mB.1.winv mB.1.stopping mB.1.noheld mB.2
      have m := (mA.trans mB.1).trans mC.1
      obtain ⟨w, nh, st, hbf, sp, sh⟩ := leaveOrFinish_res m.winv cfg err user m.stopping m.noheld (by rw [m.rd, m.jpc]; exact hj) mC.2
      refine ⟨w, nh, by rw [st, m.stops], by simp [hbf], Or.inr ⟨sp, ?_⟩⟩
      rcases sh with ⟨a, b⟩ | ⟨a, b⟩
      · exact Or.inl ⟨by rw [a, m.jpc], by rw [b, m.rd]⟩
      · exact Or.inr ⟨a, b⟩

@[simp] theorem beginDrain_now (s : St) : (beginDrain s).1.now = s.now := rfl
@[simp] theorem beginDrain_started (s : St) : (beginDrain s).1.started = s.started := rfl
@[simp] theorem beginDrain_startResult (s : St) : (beginDrain s).1.startResult = s.startResult := rfl
@[simp] theorem beginDrain_stopping (s : St) : (beginDrain s).1.stopping = s.stopping := rfl
@[simp] theorem beginDrain_rejoinNeeded (s : St) : (beginDrain s).1.rejoinNeeded = s.rejoinNeeded := rfl
@[simp] theorem beginDrain_rejoinD (s : St) : (beginDrain s).1.rejoinD = s.rejoinD := rfl
@[simp] theorem beginDrain_jpc (s : St) : (beginDrain s).1.jpc = s.jpc := rfl
@[simp] theorem beginDrain_prep (s : St) : (beginDrain s).1.prep = s.prep := rfl
@[simp] theorem beginDrain_rejoinWaitDc (s : St) : (beginDrain s).1.rejoinWaitDc = s.rejoinWaitDc := rfl
@[simp] theorem beginDrain_member (s : St) : (beginDrain s).1.member = s.member := rfl
@[simp] theorem beginDrain_gen (s : St) : (beginDrain s).1.gen = s.gen := rfl
@[simp] theorem beginDrain_coordBroker (s : St) : (beginDrain s).1.coordBroker = s.coordBroker := rfl
@[simp] theorem beginDrain_hbRunning (s : St) : (beginDrain s).1.hbRunning = s.hbRunning := rfl
@[simp] theorem beginDrain_hbStart (s : St) : (beginDrain s).1.hbStart = s.hbStart := rfl
@[simp] theorem beginDrain_hbInFlight (s : St) : (beginDrain s).1.hbInFlight = s.hbInFlight := rfl
@[simp] theorem beginDrain_timers (s : St) : (beginDrain s).1.timers = s.timers := rfl
@[simp] theorem beginDrain_nextTimer (s : St) : (beginDrain s).1.nextTimer = s.nextTimer := rfl
@[simp] theorem beginDrain_nextCid (s : St) : (beginDrain s).1.nextCid = s.nextCid := rfl
@[simp] theorem beginDrain_asg (s : St) : (beginDrain s).1.asg = s.asg := rfl
@[simp] theorem beginDrain_stops (s : St) : (beginDrain s).1.stops = s.stops := rfl
@[simp] theorem beginDrain_leaveWait (s : St) : (beginDrain s).1.leaveWait = s.leaveWait := rfl

theorem beginDrain_winv {s : St} (h : WInv s) : WInv (beginDrain s).1 ∧ NoHeld (beginDrain s).1 := by
  unfold beginDrain NoHeld
  refine ⟨?_, ?_⟩
  · constructor <;> simp only []
    · exact h.stop_needed
    · exact h.hb_timer
    · exact h.timer_lt
    · exact h.timer_uniq
    · exact h.dc_active
    · intro c hc; have := h.held_running; grind
    · intro c hc; have := h.held_cur; grind
    · intro hs c hc; have := h.stop_noheld hs; grind
    · exact h.leave_stop
    · exact h.start_res
    · exact h.pristine
  · simp only []; intro c hc; grind

/-- result of `ConsumerGroup.stop` -/
structure CallRes (s s' : St) : Prop where
  winv : WInv s'
  hb_has : s'.hbRunning = true → ∃ t ∈ s'.timers, t.kind = .hb
  noheld : NoHeld s'
  shape : (s'.stopping = s.stopping ∧ s'.jpc = s.jpc ∧ s'.rejoinD = s.rejoinD ∧ s'.hbRunning = s.hbRunning ∧
            s'.started = s.started ∧ s'.startResult = s.startResult ∧ s'.timers = s.timers ∧ s'.rejoinNeeded = s.rejoinNeeded ∧
            (NoHeld s → s.started = false ∨ s.stopping = true))
        ∨ (s'.stopping = true ∧ ((s'.jpc = s.jpc ∧ s'.rejoinD = s.rejoinD) ∨ (s'.jpc = .idle ∧ s'.rejoinD = false)))

theorem drainDone_ctl (s : St) (d : Drain) (ok : Bool) :
    (drainDone s d ok).1.jpc = s.jpc ∧ (drainDone s d ok).1.rejoinD = s.rejoinD ∧ (drainDone s d ok).1.stopping = s.stopping ∧
    (drainDone s d ok).1.started = s.started ∧ (drainDone s d ok).1.rejoinNeeded = s.rejoinNeeded ∧
    (drainDone s d ok).1.hbRunning = s.hbRunning ∧ (drainDone s d ok).1.timers = s.timers := by
  unfold drainDone
  split <;> simp

theorem drainDone_startResult (s : St) (d : Drain) (ok : Bool) : (drainDone s d ok).1.startResult = s.startResult := by
  unfold drainDone; split <;> rfl

theorem drainDone_winv {s : St} (h : WInv s) (d : Drain) (ok : Bool) : WInv (drainDone s d ok).1 := by
  unfold drainDone
  split
  · exact h
  · exact stopCons_winv h _

theorem drainDone_noheld {s : St} (h : NoHeld s) (d : Drain) (ok : Bool) : NoHeld (drainDone s d ok).1 := by
  unfold drainDone
  split
  · exact h
  · exact stopCons_noheld h _

theorem stopLoop_res {s : St} (h : WInv s) (cfg : Cfg) (err : Option GErr) (user : Bool)
    (hj : s.rejoinD = false → s.jpc = .idle) (hb : s.hbRunning = true → ∃ t ∈ s.timers, t.kind = .hb) :
    CallRes s (stopLoop cfg s err user).1 := by
  unfold stopLoop
  split
  · rename_i he
    have hn : NoHeld s := (heldCids_isEmpty s).mp he
    have r := coordStop_res h cfg err user hn hj hb
    refine ⟨r.winv, r.hb_has, r.noheld, ?_⟩
    rcases r.shape with ⟨e, g⟩ | ⟨st, sh⟩
    · rw [e]; exact Or.inl ⟨rfl, rfl, rfl, rfl, rfl, rfl, rfl, rfl, fun _ => g⟩
    · exact Or.inr ⟨st, sh⟩
  · rename_i he
    have b := beginDrain_winv h
    simp only []
    split
    · simp only [andThen_fst]
      obtain ⟨c1, c2, c3, c4, c5, c6, c7⟩ := drainDone_ctl (beginDrain s).1 (beginDrain s).2.2 (!drainFails s)
      have w2 := drainDone_winv b.1 (beginDrain s).2.2 (!drainFails s)
      have n2 := drainDone_noheld b.2 (beginDrain s).2.2 (!drainFails s)
      have r := coordStop_res w2 cfg err user n2 (by rw [c1, c2]; exact hj) (by rw [c6, c7]; exact hb)
      refine ⟨r.winv, r.hb_has, r.noheld, ?_⟩
      rcases r.shape with ⟨e, g⟩ | ⟨st, sh⟩
      · rw [e]
        exact Or.inl ⟨c3, c1, c2, c6, c4, (drainDone_startResult _ _ _), c7, c5, fun hn => absurd ((heldCids_isEmpty s).mpr hn) he⟩
      · refine Or.inr ⟨st, ?_⟩
        rcases sh with ⟨x, y⟩ | ⟨x, y⟩
        · exact Or.inl ⟨by rw [x, c1]; rfl, by rw [y, c2]; rfl⟩
        · exact Or.inr ⟨x, y⟩
    · refine ⟨?_, hb, b.2, Or.inl ⟨rfl, rfl, rfl, rfl, rfl, rfl, rfl, rfl, fun hn => absurd ((heldCids_isEmpty s).mpr hn) he⟩⟩
      have w := b.1
      constructor <;> simp only []
      · exact w.stop_needed
      · exact w.hb_timer
      · exact w.timer_lt
      · exact w.timer_uniq
      · exact w.dc_active
      · exact w.held_running
      · exact w.held_cur
      · exact w.stop_noheld
      · exact w.leave_stop
      · exact w.start_res
      · exact w.pristine

/-- the `_stop_draining` flag is not constrained by the weak invariant -/
theorem winv_flag {s : St} (h : WInv s) (b : Bool) : WInv { s with stopDraining := b } := by
  constructor <;> simp only []
  · exact h.stop_needed
  · exact h.hb_timer
  · exact h.timer_lt
  · exact h.timer_uniq
  · exact h.dc_active
  · exact h.held_running
  · exact h.held_cur
  · exact h.stop_noheld
  · exact h.leave_stop
  · exact h.start_res
  · exact h.pristine

theorem stopCall_res {s : St} (h : WInv s) (cfg : Cfg) (err : Option GErr) (user : Bool)
    (hj : s.rejoinD = false → s.jpc = .idle) (hb : s.hbRunning = true → ∃ t ∈ s.timers, t.kind = .hb) :
    CallRes s (stopCall cfg s err user).1 := by
  unfold stopCall
  split
  · have r := stopLoop_res (s := { s with stopDraining := true }) (winv_flag h true) cfg err user hj hb
    exact ⟨r.winv, r.hb_has, r.noheld, r.shape⟩
  · exact stopLoop_res h cfg err user hj hb

/-- result of `rejoin_after_error` / of an error escaping the join -/
structure ErrRes (s s' : St) : Prop where
  winv : WInv s'
  hb_has : s'.hbRunning = true → ∃ t ∈ s'.timers, t.kind = .hb
  noheld : NoHeld s → NoHeld s'
  shape : (s'.stopping = s.stopping ∧ s'.jpc = s.jpc ∧ s'.rejoinD = s.rejoinD ∧ s'.hbRunning = s.hbRunning ∧
            s'.started = s.started ∧ s'.startResult = s.startResult ∧ (∀ t ∈ s.timers, t ∈ s'.timers) ∧
            ((s.stopping = true ∧ s'.rejoinNeeded = s.rejoinNeeded) ∨
             (s.stopping = false ∧ s'.rejoinNeeded = true ∧ ((∃ t ∈ s'.timers, t.kind = .rejoin) ∨ s.started = false))))
        ∨ (s'.stopping = true ∧ NoHeld s' ∧ ((s'.jpc = s.jpc ∧ s'.rejoinD = s.rejoinD) ∨ (s'.jpc = .idle ∧ s'.rejoinD = false)))

theorem rejoinAfterError_res {s : St} (h : WInv s) (cfg : Cfg) (e : GErr)
    (hj : s.rejoinD = false → s.jpc = .idle) (hb : s.hbRunning = true → ∃ t ∈ s.timers, t.kind = .hb) :
    ErrRes s (rejoinAfterError cfg s e).1 := by
  unfold rejoinAfterError rejoinCore
  have hcl := Tables.clearMember_leave s.stopping e
  have c := rejoinWith_ctl cfg s (rejoinRow s.stopping e)
  have hb1 : (rejoinWith cfg s (rejoinRow s.stopping e)).1.1.hbRunning = true →
      ∃ t ∈ (rejoinWith cfg s (rejoinRow s.stopping e)).1.1.timers, t.kind = .hb := by
    rw [c.hbRunning]; intro hr; obtain ⟨t, ht, hk⟩ := hb hr; exact ⟨t, rejoinWith_timers_mono _ _ _ t ht, hk⟩
  by_cases hf : (rejoinRow s.stopping e).act = .fatal
  · have hfl := (rejoinWith_flag cfg s (rejoinRow s.stopping e)).mpr hf
    simp only [hfl, if_true, andThen_fst]
    have hne : (rejoinRow s.stopping e).act ≠ .rejoin := by rw [hf]; decide
    have w := rejoinWith_winv h cfg _ hcl (fun ha => absurd ha hne)
    have nh := rejoinWith_fatal_noheld h cfg _ hf
    have r := stopCall_res w cfg (some e) false (by rw [c.rejoinD, c.jpc]; exact hj) hb1
    refine ⟨r.winv, r.hb_has, fun _ => r.noheld, ?_⟩
    rcases r.shape with ⟨a1, a2, a3, a4, a5, a6, a7, a8, a9⟩ | ⟨st, sh⟩
    · refine Or.inl ⟨by rw [a1, c.stopping], by rw [a2, c.jpc], by rw [a3, c.rejoinD], by rw [a4, c.hbRunning],
        by rw [a5, c.started], by rw [a6, c.startResult], fun t ht => by rw [a7]; exact rejoinWith_timers_mono _ _ _ t ht, ?_⟩
      have hnd : (stopCall cfg (rejoinWith cfg s (rejoinRow s.stopping e)).1.1 (some e) false).1.rejoinNeeded = s.rejoinNeeded := by
        rw [a8, rejoinWith_needed _ _ _ hne]
      rcases Bool.eq_false_or_eq_true s.stopping with hst | hst
      · exact Or.inl ⟨hst, hnd⟩
      · -- not stopping: the nested stop did nothing, so the member was not started: pristine
        rcases a9 nh with g | g
        · rw [c.started] at g
          exact Or.inr ⟨hst, by rw [hnd]; exact (h.pristine g hst).1, Or.inr g⟩
        · rw [c.stopping, hst] at g; cases g
    · refine Or.inr ⟨st, r.noheld, ?_⟩
      rcases sh with ⟨a, b⟩ | ⟨a, b⟩
      · exact Or.inl ⟨by rw [a, c.jpc], by rw [b, c.rejoinD]⟩
      · exact Or.inr ⟨a, b⟩
  · have hfl : (rejoinWith cfg s (rejoinRow s.stopping e)).2 = false := by
      cases hx : (rejoinWith cfg s (rejoinRow s.stopping e)).2
      · rfl
      · exact absurd ((rejoinWith_flag cfg s _).mp hx) hf
    simp only [hfl, Bool.false_eq_true, if_false]
    rcases Bool.eq_false_or_eq_true s.stopping with hst | hst
    · have hne : (rejoinRow s.stopping e).act ≠ .rejoin := by rw [hst]; exact Tables.stopping_no_rejoin e
      have w := rejoinWith_winv h cfg _ hcl (fun ha => absurd ha hne)
      exact ⟨w, hb1, fun hn => rejoinWith_noheld hn _ _, Or.inl ⟨c.stopping, c.jpc, c.rejoinD, c.hbRunning, c.started,
        c.startResult, rejoinWith_timers_mono _ _ _, Or.inl ⟨hst, rejoinWith_needed _ _ _ hne⟩⟩⟩
    · -- running: the row schedules a rejoin
      have ha : (rejoinRow s.stopping e).act = .rejoin := by
        rcases Tables.running_rejoin_or_fatal e with x | x
        · rw [hst]; exact x
        · rw [hst] at hf; exact absurd x hf
      have w := rejoinWith_winv h cfg _ hcl (fun _ => hst)
      obtain ⟨p1, p2⟩ := rejoinWith_rejoin_post h cfg _ hcl ha hst
      exact ⟨w, hb1, fun hn => rejoinWith_noheld hn _ _, Or.inl ⟨c.stopping, c.jpc, c.rejoinD, c.hbRunning, c.started,
        c.startResult, rejoinWith_timers_mono _ _ _, Or.inr ⟨hst, p1, Or.inl p2⟩⟩⟩

/-- `abandonHb` as one state update: the marker is cleared; the cancellation is observed when a
    heartbeat was outstanding -/
theorem abandonHb_eq (s : St) :
    abandonHb s = ({ s with hbInFlight := false }, if s.hbInFlight then [.cancelReq .hbR] else []) := by
  unfold abandonHb
  split
  · rfl
  · rename_i h
    have : s.hbInFlight = false := by simpa using h
    cases s
    simp_all
