import AfkakProofs.Group.ComposedBase
/-!
# Stopped is for ever

No step of the group model turns a stopped consumer record into a running or draining one: every
record after a step continues a record from before (same cid; stopped stays stopped) or is a new
one with `cid ≥ s.nextCid`.  (`beginDrain` turns HELD records into draining ones, so the chain
carries "held → running", one direction of `WInv.held_running`.)
-/
namespace Afkak.GroupCompose
open Afkak.Group Afkak.Consts

/-- one direction of `WInv.held_running` -/
def HeldRun (c : Con) : Prop := c.held = true → c.phase = .running

/-- `c'` continues `c`: same cid, and stopped stays stopped -/
def Cont (c c' : Con) : Prop := c.cid = c'.cid ∧ (c.phase = .stopped → c'.phase = .stopped)

theorem Cont.rfl' (c : Con) : Cont c c := ⟨rfl, id⟩
theorem Cont.trans {a b c : Con} (h1 : Cont a b) (h2 : Cont b c) : Cont a c := ⟨h1.1.trans h2.1, fun x => h2.2 (h1.2 x)⟩

def AllHeldRun (s : St) : Prop := ∀ c ∈ s.cons, HeldRun c

/-- every record after the helper continues a record from before -/
def SK (s : St) (o : Out) : Prop := AllHeldRun s → ∀ c' ∈ o.1.cons, HeldRun c' ∧ ∃ c ∈ s.cons, Cont c c'

theorem SK_frame {s : St} {o : Out} (h : o.1.cons = s.cons) : SK s o :=
  fun h0 c' hc' => ⟨h0 c' (by rw [← h]; exact hc'), c', by rw [← h]; exact hc', Cont.rfl' c'⟩
theorem SK_map {s : St} {o : Out} (f : Con → Con) (h : o.1.cons = s.cons.map f) (hf : ∀ c, HeldRun c → HeldRun (f c) ∧ Cont c (f c)) : SK s o := by
  intro h0 c' hc'
  rw [h] at hc'
  obtain ⟨c, hc, rfl⟩ := List.mem_map.mp hc'
  exact ⟨(hf c (h0 c hc)).1, c, hc, (hf c (h0 c hc)).2⟩
theorem SK_all {s : St} {o : Out} (h : SK s o) (h0 : AllHeldRun s) : AllHeldRun o.1 := fun c hc => (h h0 c hc).1
theorem SK_andThen {s : St} {o : Out} {f : St → Out} (h1 : SK s o) (h2 : ∀ s1, SK s1 (f s1)) : SK s (andThen o f) := by
  intro h0 c' hc'
  obtain ⟨r1, c1, hc1, e1⟩ := h2 o.1 (SK_all h1 h0) c' hc'
  obtain ⟨_, c, hc, e⟩ := h1 h0 c1 hc1
  exact ⟨r1, c, hc, e.trans e1⟩
theorem SK_of_cons {s s1 : St} {o : Out} (h : s1.cons = s.cons) (hk : SK s1 o) : SK s o := by
  intro h0 c' hc'
  obtain ⟨r, c, hc, e⟩ := hk (fun c hc => h0 c (by rw [← h]; exact hc)) c' hc'
  exact ⟨r, c, by rw [← h]; exact hc, e⟩
theorem SK_of_cons' {s s1 : St} {o : Out} (hk : SK s1 o) (h : s1.cons = s.cons) : SK s o := SK_of_cons h hk
theorem SK_trans {s s0 : St} {o : Out} (h0 : SK s (s0, [])) (h1 : SK s0 o) : SK s o := by
  intro h c' hc'
  obtain ⟨r1, c1, hc1, e1⟩ := h1 (SK_all h0 h) c' hc'
  obtain ⟨_, c, hc, e⟩ := h0 h c1 hc1
  exact ⟨r1, c, hc, e.trans e1⟩

theorem stopCons_sk (s : St) (cids : List Nat) : SK s (stopCons s cids) := by
  refine SK_map _ rfl (fun c hc => ?_)
  split <;> simp_all [HeldRun, Cont]
theorem stopConsumers_sk (s : St) : SK s (stopConsumers s) := stopCons_sk _ _
theorem beginDrain_sk (s : St) : SK s ((beginDrain s).1, (beginDrain s).2.1) := by
  refine SK_map _ rfl (fun c hc => ?_)
  split
  · split <;> simp_all [HeldRun, Cont]
  · exact ⟨hc, Cont.rfl' c⟩

theorem rowEffects_sk (s : St) (row : RejoinRow) : SK s (rowEffects s row) := by
  unfold rowEffects
  refine SK_andThen (SK_andThen ?_ (fun _ => SK_frame rfl)) (fun _ => SK_frame ?_)
  · split
    · exact stopConsumers_sk s
    · exact SK_frame rfl
  · simp only []; split <;> rfl

theorem rejoinWith_sk (cfg : Cfg) (s : St) (row : RejoinRow) : SK s (rejoinWith cfg s row).1 := by
  unfold rejoinWith
  split
  · exact SK_frame rfl
  · exact stopConsumers_sk s
  · exact rowEffects_sk s row
  · exact SK_andThen (rowEffects_sk s row) (fun _ => SK_frame (scheduleRejoin_cons' _ _ _))

theorem rejoinCore_sk (cfg : Cfg) (s : St) (e : GErr) : SK s (rejoinCore cfg s e).1 := rejoinWith_sk _ _ _

theorem escapeCore_sk (cfg : Cfg) (s : St) (e : GErr) : SK s (escapeCore cfg s e).1 := by
  unfold escapeCore
  simp only []
  split
  · exact SK_of_cons rfl (rejoinCore_sk cfg { s with jpc := .idle, rejoinD := false } e)
  · exact SK_frame rfl

theorem cancelJoin_sk (cfg : Cfg) (s : St) : SK s (cancelJoin cfg s) := by
  unfold cancelJoin
  split
  · simp only []
    split
    · exact SK_frame rfl
    · refine SK_andThen (SK_frame rfl) (fun s1 => ?_)
      split
      · exact escapeCore_sk _ _ _
      · exact SK_frame rfl
      · exact SK_frame rfl
    · exact SK_frame rfl
    · exact SK_andThen (SK_of_cons rfl (stopCons_sk _ _)) (fun _ => SK_frame rfl)
    · exact SK_frame rfl
    · exact SK_andThen (SK_frame rfl) (fun _ => rejoinCore_sk _ _ _)
    · exact SK_andThen (SK_frame rfl) (fun _ => escapeCore_sk _ _ _)
    · exact SK_andThen (SK_frame rfl) (fun _ => rejoinCore_sk _ _ _)
  · exact SK_frame rfl

theorem finishStop_sk (cfg : Cfg) (s : St) (err : Option GErr) (user : Bool) : SK s (finishStop cfg s err user) := by
  unfold finishStop
  exact SK_andThen (cancelJoin_sk _ _) (fun _ => SK_frame rfl)

theorem stopCancelHb_sk (cfg : Cfg) (s : St) : SK s (stopCancelHb cfg s) := by
  unfold stopCancelHb
  split
  · simp only []
    split
    · exact SK_andThen (SK_andThen (SK_frame rfl) (fun _ => SK_frame rfl)) (fun _ => rejoinCore_sk _ _ _)
    · exact SK_frame rfl
  · exact SK_frame rfl

theorem leaveOrFinish_sk (cfg : Cfg) (err : Option GErr) (user : Bool) (s : St) : SK s (leaveOrFinish cfg err user s) := by
  unfold leaveOrFinish
  split
  · exact SK_frame rfl
  · exact finishStop_sk _ _ _ _

theorem coordStop_sk (cfg : Cfg) (s : St) (err : Option GErr) (user : Bool) : SK s (coordStop cfg s err user) := by
  unfold coordStop
  split
  · exact SK_frame rfl
  · simp only []
    split
    · exact SK_frame rfl
    · exact SK_andThen (SK_andThen (SK_andThen (SK_frame (by rw [stopCancelDc_cons'])) (fun _ => stopCancelHb_sk _ _))
        (fun _ => SK_frame (stopLooper_cons' _))) (fun _ => leaveOrFinish_sk _ _ _ _)

theorem drainDone_sk (s : St) (d : Drain) (ok : Bool) : SK s (drainDone s d ok) := by
  unfold drainDone
  split
  · exact SK_frame rfl
  · exact stopCons_sk _ _

theorem stopLoop_sk (cfg : Cfg) (s : St) (err : Option GErr) (user : Bool) : SK s (stopLoop cfg s err user) := by
  unfold stopLoop
  split
  · exact coordStop_sk _ _ _ _
  · simp only []
    split
    · exact SK_andThen (SK_andThen (beginDrain_sk s) (fun _ => drainDone_sk _ _ _)) (fun _ => coordStop_sk _ _ _ _)
    · exact fun h0 c' hc' => beginDrain_sk s h0 c' hc'

theorem stopCall_sk (cfg : Cfg) (s : St) (err : Option GErr) (user : Bool) : SK s (stopCall cfg s err user) := by
  unfold stopCall
  refine SK_of_cons ?_ (stopLoop_sk cfg _ err user)
  split <;> rfl

theorem userStop_sk (cfg : Cfg) (s : St) : SK s (userStop cfg s) := by
  rcases userStop_cases cfg s with ⟨hu, _, _⟩ | hu <;> rw [hu]
  · exact SK_frame rfl
  · exact stopCall_sk _ _ _ _

theorem rejoinAfterError_sk (cfg : Cfg) (s : St) (e : GErr) : SK s (rejoinAfterError cfg s e) := by
  unfold rejoinAfterError
  simp only []
  split
  · exact SK_andThen (rejoinCore_sk _ _ _) (fun _ => stopCall_sk _ _ _ _)
  · exact rejoinCore_sk _ _ _

theorem escape_sk (cfg : Cfg) (s : St) (e : GErr) : SK s (escape cfg s e) := by
  unfold escape
  simp only []
  split
  · exact SK_andThen (escapeCore_sk _ _ _) (fun _ => stopCall_sk _ _ _ _)
  · exact escapeCore_sk _ _ _

theorem prepare_sk (s : St) : SK s (prepare s) := by
  unfold prepare
  split
  · exact SK_frame rfl
  · split
    · exact SK_frame (afterPrepare_cons' _)
    · simp only []
      split
      · exact SK_andThen (SK_andThen (beginDrain_sk s) (fun _ => drainDone_sk _ _ _)) (fun _ => SK_frame (afterPrepare_cons' _))
      · exact fun h0 c' hc' => beginDrain_sk s h0 c' hc'

theorem consumerDown_sk (cfg : Cfg) (s : St) (cid : Nat) (ok : Bool) : SK s (consumerDown cfg s cid ok) := by
  have h0 : SK s ({ s with cons := s.cons.map fun (c : Con) => if c.cid = cid && c.phase == .draining then { c with phase := .stopped, startFired := true } else c }, []) := by
    refine SK_map _ rfl (fun c hc => ?_)
    split
    · rename_i hq
      simp only [Bool.and_eq_true, decide_eq_true_eq, beq_iff_eq] at hq
      refine ⟨fun hh => ?_, rfl, fun _ => rfl⟩
      have := hc hh
      rw [hq.2] at this; cases this
    · exact ⟨hc, Cont.rfl' c⟩
  unfold consumerDown
  simp only []
  split
  · split
    · exact fun h c' hc' => h0 h c' hc'
    · exact SK_trans h0 (SK_andThen (SK_of_cons' (drainDone_sk _ _ _) rfl) (fun _ => SK_frame (afterPrepare_cons' _)))
  · split
    · exact fun h c' hc' => h0 h c' hc'
    · split
      · exact fun h c' hc' => h0 h c' hc'
      · exact SK_trans h0 (SK_andThen (SK_of_cons' (drainDone_sk _ _ _) rfl) (fun _ => stopLoop_sk _ _ _ _))

/-- **stopped is for ever**: every consumer record after a step continues a record from before the
    step (same cid, and stopped if that one was stopped) or is new, with a cid from `s.nextCid` on -/
theorem step_cont (cfg : Cfg) (s : St) (e : Ev) (h0 : AllHeldRun s) : ∀ c' ∈ (step cfg s e).1.cons,
    (∃ c ∈ s.cons, Cont c c') ∨ s.nextCid ≤ c'.cid := by
  have old : ∀ {s1 : St} {o : Out}, SK s1 o → s1.cons = s.cons → ∀ c' ∈ o.1.cons,
      (∃ c ∈ s.cons, Cont c c') ∨ s.nextCid ≤ c'.cid :=
    fun hk he c' hc' => Or.inl (SK_of_cons he hk h0 c' hc').2
  have same : ∀ c' ∈ s.cons, (∃ c ∈ s.cons, Cont c c') ∨ s.nextCid ≤ c'.cid :=
    fun c' hc' => Or.inl ⟨c', hc', Cont.rfl' c'⟩
  cases e with
  | start =>
    simp only [step]; split
    · exact same
    · exact old (SK_frame (joinAndSync_cons' _)) rfl
  | stop => exact old (userStop_sk cfg s) rfl
  | coordDone r =>
    simp only [step]; split
    · exact same
    · cases r with
      | ok => exact same
      | none => exact same
      | err e =>
        simp only []
        split
        · exact old (escape_sk cfg s e) rfl
        · exact same
        · exact same
  | metaDone r =>
    simp only [step]; split
    · exact same
    · cases r with
      | err e => exact old (escape_sk cfg s e) rfl
      | ok =>
        simp only []
        split
        · exact same
        · exact old (prepare_sk { s with coordBroker := true }) rfl
  | joinDone r =>
    simp only [step]; split
    · exact same
    · cases r with
      | err e => exact old (SK_andThen (rejoinAfterError_sk cfg { s with jpc := .idle } e) (fun _ => SK_frame rfl)) rfl
      | ok m g l n =>
        simp only [abandonHb_eq, andThen_fst]
        split
        · exact same
        · split <;> exact same
  | partsDone r =>
    simp only [step]; split
    · cases r with
      | err e => exact old (escape_sk cfg s e) rfl
      | ok => simp only []; split <;> exact same
    · exact same
  | syncDone r =>
    simp only [step]; split
    · exact same
    · cases r with
      | err e => exact old (SK_andThen (rejoinAfterError_sk cfg { s with jpc := .idle } e) (fun _ => SK_frame rfl)) rfl
      | ok a =>
        simp only []
        split
        · exact same
        · intro c' hc'
          simp only [andThen_fst] at hc'
          unfold startConsumers at hc'
          simp only [resetHeartbeat_cons', resetHeartbeat_nextCid'] at hc'
          rcases List.mem_append.mp hc' with x | x
          · exact Or.inl ⟨c', x, Cont.rfl' c'⟩
          · right
            obtain ⟨⟨tp, i⟩, _, rfl⟩ := List.mem_map.mp x
            exact Nat.le_add_right _ _
  | hbDone r =>
    simp only [step]; split
    · exact same
    · cases r with
      | ok => exact same
      | err e =>
        simp only []
        split
        · exact old (SK_andThen (SK_frame (s := { s with hbInFlight := false }) rfl) (fun _ => rejoinAfterError_sk _ _ _)) rfl
        · exact same
  | leaveDone r =>
    simp only [step]; split
    · exact same
    · cases r with
      | ok => exact old (finishStop_sk cfg { s with member := 0, gen := none } _ _) rfl
      | err e => exact old (finishStop_sk cfg s _ _) rfl
  | consumerDown cid ok =>
    simp only [step]; split
    · exact old (consumerDown_sk cfg s cid ok) rfl
    · exact same
  | consumerErr cid e =>
    simp only [step]; split
    · have h1 : SK s ({ s with cons := s.cons.map fun c => if c.cid = cid then { c with startFired := true } else c }, []) := by
        refine SK_map _ rfl (fun c hc => ?_); split
        · exact ⟨hc, rfl, id⟩
        · exact ⟨hc, Cont.rfl' c⟩
      split
      · exact fun c' hc' => Or.inl (h1 h0 c' hc').2
      · exact fun c' hc' => Or.inl (SK_trans h1 (rejoinAfterError_sk cfg _ e) h0 c' hc').2
    · exact same
  | consumerQuirk cid q =>
    simp only [step]; split
    · have h1 : SK s ({ s with cons := s.cons.map fun c => if c.cid = cid && c.phase == .running then { c with quirk := q } else c }, []) := by
        refine SK_map _ rfl (fun c hc => ?_); split
        · exact ⟨hc, rfl, id⟩
        · exact ⟨hc, Cont.rfl' c⟩
      exact fun c' hc' => Or.inl (h1 h0 c' hc').2
    · exact same
  | fire id hbNext =>
    simp only [step]
    split
    · exact same
    split
    · exact same
    · split
      · exact same
      · split
        · exact old (SK_frame (joinAndSync_cons' _)) rfl
        · exact old (SK_frame (joinAndSync_cons' _)) rfl
        · simp only [andThen_fst]
          split <;> split <;> exact same
  | advance dt => simp only [step]; split <;> exact same

theorem allHeldRun_of_sinv {s : St} (h : SInv s) : AllHeldRun s := fun c hc => (h.held_running c hc).mp

end Afkak.GroupCompose
