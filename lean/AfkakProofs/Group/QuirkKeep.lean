import AfkakProofs.Group.Frames
import AfkakProofs.Group.Inv
/-!
# A consumer record keeps its cid and its `quirk` (generated from the `IK` family of `Compose.lean`)

Only a processed `consumerQuirk` event rewrites a record's `quirk`; records created by
`on_join_complete` have none.  Used to link the monitor's `faulty` list (built from the observed
`consumerQuirk` events) to the model's records in `Graceful.lean`.
-/
namespace Afkak.Group
open Afkak.Consts

/-- a consumer record's cid and what the environment made its `shutdown()` do -/
def qid (c : Con) : Nat × Quirk := (c.cid, c.quirk)

/-- every consumer record after the helper is a record from before with the same qidity -/
def QK (s : St) (o : Out) : Prop := ∀ c' ∈ o.1.cons, ∃ c ∈ s.cons, qid c = qid c'

theorem QK_frame {s : St} {o : Out} (h : o.1.cons = s.cons) : QK s o := fun c' hc' => ⟨c', by rw [← h]; exact hc', rfl⟩
theorem QK_map {s : St} {o : Out} (f : Con → Con) (h : o.1.cons = s.cons.map f) (hf : ∀ c, qid (f c) = qid c) : QK s o := by
  intro c' hc'
  rw [h] at hc'
  obtain ⟨c, hc, rfl⟩ := List.mem_map.mp hc'
  exact ⟨c, hc, (hf c).symm⟩
theorem QK_andThen {s : St} {o : Out} {f : St → Out} (h1 : QK s o) (h2 : ∀ s1, QK s1 (f s1)) : QK s (andThen o f) := by
  intro c' hc'
  obtain ⟨c1, hc1, e1⟩ := h2 o.1 c' hc'
  obtain ⟨c, hc, e⟩ := h1 c1 hc1
  exact ⟨c, hc, e.trans e1⟩
theorem QK_of_cons {s s1 : St} {o : Out} (h : s1.cons = s.cons) (hk : QK s1 o) : QK s o := by
  intro c' hc'; obtain ⟨c, hc, e⟩ := hk c' hc'; exact ⟨c, by rw [← h]; exact hc, e⟩

theorem stopCons_qk (s : St) (cids : List Nat) : QK s (stopCons s cids) := by
  refine QK_map _ rfl (fun c => ?_)
  split <;> rfl
theorem stopConsumers_qk (s : St) : QK s (stopConsumers s) := stopCons_qk _ _
theorem beginDrain_qk (s : St) : QK s ((beginDrain s).1, (beginDrain s).2.1) := by
  refine QK_map _ rfl (fun c => ?_)
  split
  · split <;> rfl
  · rfl

theorem rowEffects_qk (s : St) (row : RejoinRow) : QK s (rowEffects s row) := by
  unfold rowEffects
  refine QK_andThen (QK_andThen ?_ (fun _ => QK_frame rfl)) (fun _ => QK_frame ?_)
  · split
    · exact stopConsumers_qk s
    · exact QK_frame rfl
  · simp only []; split <;> rfl

theorem rejoinWith_qk (cfg : Cfg) (s : St) (row : RejoinRow) : QK s (rejoinWith cfg s row).1 := by
  unfold rejoinWith
  split
  · exact QK_frame rfl
  · exact stopConsumers_qk s
  · exact rowEffects_qk s row
  · exact QK_andThen (rowEffects_qk s row) (fun _ => QK_frame (scheduleRejoin_cons' _ _ _))

theorem rejoinCore_qk (cfg : Cfg) (s : St) (e : GErr) : QK s (rejoinCore cfg s e).1 := rejoinWith_qk _ _ _

theorem escapeCore_qk (cfg : Cfg) (s : St) (e : GErr) : QK s (escapeCore cfg s e).1 := by
  unfold escapeCore
  simp only []
  split
  · exact QK_of_cons rfl (rejoinCore_qk cfg { s with jpc := .idle, rejoinD := false } e)
  · exact QK_frame rfl

theorem cancelJoin_qk (cfg : Cfg) (s : St) : QK s (cancelJoin cfg s) := by
  unfold cancelJoin
  split
  · simp only []
    split
    · exact QK_frame rfl
    · refine QK_andThen (QK_frame rfl) (fun s1 => ?_)
      split
      · exact escapeCore_qk _ _ _
      · exact QK_frame rfl
      · exact QK_frame rfl
    · exact QK_frame rfl
    · exact QK_andThen (QK_of_cons rfl (stopCons_qk _ _)) (fun _ => QK_frame rfl)
    · exact QK_frame rfl
    · exact QK_andThen (QK_frame rfl) (fun _ => rejoinCore_qk _ _ _)
    · exact QK_andThen (QK_frame rfl) (fun _ => escapeCore_qk _ _ _)
    · exact QK_andThen (QK_frame rfl) (fun _ => rejoinCore_qk _ _ _)
  · exact QK_frame rfl

theorem finishStop_qk (cfg : Cfg) (s : St) (err : Option GErr) (user : Bool) : QK s (finishStop cfg s err user) := by
  unfold finishStop
  exact QK_andThen (cancelJoin_qk _ _) (fun _ => QK_frame rfl)

theorem stopCancelHb_qk (cfg : Cfg) (s : St) : QK s (stopCancelHb cfg s) := by
  unfold stopCancelHb
  split
  · simp only []
    split
    · exact QK_andThen (QK_andThen (QK_frame rfl) (fun _ => QK_frame rfl)) (fun _ => rejoinCore_qk _ _ _)
    · exact QK_frame rfl
  · exact QK_frame rfl

theorem leaveOrFinish_qk (cfg : Cfg) (err : Option GErr) (user : Bool) (s : St) : QK s (leaveOrFinish cfg err user s) := by
  unfold leaveOrFinish
  split
  · exact QK_frame rfl
  · exact finishStop_qk _ _ _ _

theorem coordStop_qk (cfg : Cfg) (s : St) (err : Option GErr) (user : Bool) : QK s (coordStop cfg s err user) := by
  unfold coordStop
  split
  · exact QK_frame rfl
  · simp only []
    split
    · exact QK_frame rfl
    · exact QK_andThen (QK_andThen (QK_andThen (QK_frame (by rw [stopCancelDc_cons'])) (fun _ => stopCancelHb_qk _ _))
        (fun _ => QK_frame (stopLooper_cons' _))) (fun _ => leaveOrFinish_qk _ _ _ _)

theorem drainDone_qk (s : St) (d : Drain) (ok : Bool) : QK s (drainDone s d ok) := by
  unfold drainDone
  split
  · exact QK_frame rfl
  · exact stopCons_qk _ _

theorem stopLoop_qk (cfg : Cfg) (s : St) (err : Option GErr) (user : Bool) : QK s (stopLoop cfg s err user) := by
  unfold stopLoop
  split
  · exact coordStop_qk _ _ _ _
  · simp only []
    split
    · exact QK_andThen (QK_andThen (beginDrain_qk s) (fun _ => drainDone_qk _ _ _)) (fun _ => coordStop_qk _ _ _ _)
    · exact QK_of_cons rfl (QK_andThen (beginDrain_qk s) (fun _ => QK_frame (o := (_, [])) rfl)) |> fun h => by
        intro c' hc'; exact h c' hc'

theorem stopCall_qk (cfg : Cfg) (s : St) (err : Option GErr) (user : Bool) : QK s (stopCall cfg s err user) := by
  unfold stopCall
  refine QK_of_cons ?_ (stopLoop_qk cfg _ err user)
  split <;> rfl

theorem userStop_qk (cfg : Cfg) (s : St) : QK s (userStop cfg s) := by
  rcases userStop_cases cfg s with ⟨hu, _, _⟩ | hu <;> rw [hu]
  · exact QK_frame rfl
  · exact stopCall_qk _ _ _ _

theorem rejoinAfterError_qk (cfg : Cfg) (s : St) (e : GErr) : QK s (rejoinAfterError cfg s e) := by
  unfold rejoinAfterError
  simp only []
  split
  · exact QK_andThen (rejoinCore_qk _ _ _) (fun _ => stopCall_qk _ _ _ _)
  · exact rejoinCore_qk _ _ _

theorem escape_qk (cfg : Cfg) (s : St) (e : GErr) : QK s (escape cfg s e) := by
  unfold escape
  simp only []
  split
  · exact QK_andThen (escapeCore_qk _ _ _) (fun _ => stopCall_qk _ _ _ _)
  · exact escapeCore_qk _ _ _

theorem prepare_qk (s : St) : QK s (prepare s) := by
  unfold prepare
  split
  · exact QK_frame rfl
  · split
    · exact QK_frame (afterPrepare_cons' _)
    · simp only []
      split
      · exact QK_andThen (QK_andThen (beginDrain_qk s) (fun _ => drainDone_qk _ _ _)) (fun _ => QK_frame (afterPrepare_cons' _))
      · exact fun c' hc' => beginDrain_qk s c' hc'

theorem QK_trans {s s0 : St} {o : Out} (h0 : ∀ c' ∈ s0.cons, ∃ c ∈ s.cons, qid c = qid c') (h1 : QK s0 o) : QK s o := by
  intro c' hc'
  obtain ⟨c1, hc1, e1⟩ := h1 c' hc'
  obtain ⟨c, hc, e⟩ := h0 c1 hc1
  exact ⟨c, hc, e.trans e1⟩

theorem consumerDown_qk (cfg : Cfg) (s : St) (cid : Nat) (ok : Bool) : QK s (consumerDown cfg s cid ok) := by
  have h0 : ∀ c' ∈ (s.cons.map fun (c : Con) => if c.cid = cid && c.phase == .draining then { c with phase := .stopped, startFired := true } else c),
      ∃ c ∈ s.cons, qid c = qid c' := by
    intro c' hc'
    obtain ⟨c, hc, rfl⟩ := List.mem_map.mp hc'
    refine ⟨c, hc, ?_⟩
    split <;> rfl
  unfold consumerDown
  simp only []
  split
  · split
    · exact fun c' hc' => h0 c' hc'
    · exact QK_trans (s0 := { s with cons := s.cons.map fun (c : Con) => if c.cid = cid && c.phase == .draining then { c with phase := .stopped, startFired := true } else c }) h0
        (QK_andThen (QK_of_cons rfl (drainDone_qk _ _ _)) (fun _ => QK_frame (afterPrepare_cons' _)))
  · split
    · exact fun c' hc' => h0 c' hc'
    · split
      · exact fun c' hc' => h0 c' hc'
      · exact QK_trans (s0 := { s with cons := s.cons.map fun (c : Con) => if c.cid = cid && c.phase == .draining then { c with phase := .stopped, startFired := true } else c }) h0
          (QK_andThen (QK_of_cons rfl (drainDone_qk _ _ _)) (fun _ => stopLoop_qk _ _ _ _))

/-- a step keeps every record's (cid, quirk), except that a processed `consumerQuirk cid q` sets the
    quirk of `cid` to `q`, and new records have no quirk -/
theorem step_qid (cfg : Cfg) (s : St) (e : Ev) : ∀ c' ∈ (step cfg s e).1.cons,
    (∃ c ∈ s.cons, qid c = qid c') ∨ c'.quirk = .none ∨
    (∃ q, e = .consumerQuirk c'.cid q ∧ (step cfg s e).2 ≠ [.badOp] ∧ c'.quirk = q) := by
  have old : ∀ {P : Con → Prop} {s1 : St} {o : Out}, QK s1 o → s1.cons = s.cons → ∀ c' ∈ o.1.cons,
      (∃ c ∈ s.cons, qid c = qid c') ∨ c'.quirk = .none ∨ P c' :=
    fun hk he c' hc' => Or.inl (QK_of_cons he hk c' hc')
  have same : ∀ {P : Con → Prop}, ∀ c' ∈ s.cons, (∃ c ∈ s.cons, qid c = qid c') ∨ c'.quirk = .none ∨ P c' :=
    fun c' hc' => Or.inl ⟨c', hc', rfl⟩
  cases e with
  | start =>
    simp only [step]; split
    · exact same
    · exact old (QK_frame (joinAndSync_cons' _)) rfl
  | stop => exact old (userStop_qk cfg s) rfl
  | coordDone r =>
    simp only [step]; split
    · exact same
    · cases r with
      | ok => exact same
      | none => exact same
      | err e =>
        simp only []
        split
        · exact old (escape_qk cfg s e) rfl
        · exact same
        · exact same
  | metaDone r =>
    simp only [step]; split
    · exact same
    · cases r with
      | err e => exact old (escape_qk cfg s e) rfl
      | ok =>
        simp only []
        split
        · exact same
        · exact old (prepare_qk { s with coordBroker := true }) rfl
  | joinDone r =>
    simp only [step]; split
    · exact same
    · cases r with
      | err e => exact old (QK_andThen (rejoinAfterError_qk cfg { s with jpc := .idle } e) (fun _ => QK_frame rfl)) rfl
      | ok m g l n =>
        simp only [abandonHb_eq, andThen_fst, andThen_snd]
        split
        · exact same
        · split <;> exact same
  | partsDone r =>
    simp only [step]; split
    · cases r with
      | err e => exact old (escape_qk cfg s e) rfl
      | ok => simp only []; split <;> exact same
    · exact same
  | syncDone r =>
    simp only [step]; split
    · exact same
    · cases r with
      | err e => exact old (QK_andThen (rejoinAfterError_qk cfg { s with jpc := .idle } e) (fun _ => QK_frame rfl)) rfl
      | ok a =>
        simp only []
        split
        · exact same
        · intro c' hc'
          simp only [andThen_fst] at hc'
          unfold startConsumers at hc'
          simp only [resetHeartbeat_cons'] at hc'
          rcases List.mem_append.mp hc' with x | x
          · exact Or.inl ⟨c', x, rfl⟩
          · right; left
            obtain ⟨y, _, rfl⟩ := List.mem_map.mp x
            rfl
  | hbDone r =>
    simp only [step]; split
    · exact same
    · cases r with
      | ok => exact same
      | err e =>
        simp only []
        split
        · exact old (QK_andThen (QK_frame (s := { s with hbInFlight := false }) rfl) (fun _ => rejoinAfterError_qk _ _ _)) rfl
        · exact same
  | leaveDone r =>
    simp only [step]; split
    · exact same
    · cases r with
      | ok => exact old (finishStop_qk cfg { s with member := 0, gen := none } _ _) rfl
      | err e => exact old (finishStop_qk cfg s _ _) rfl
  | consumerDown cid ok =>
    simp only [step]; split
    · exact old (consumerDown_qk cfg s cid ok) rfl
    · exact same
  | consumerErr cid e =>
    simp only [step]; split
    · have h0 : QK s ({ s with cons := s.cons.map fun c => if c.cid = cid then { c with startFired := true } else c }, []) := by
        refine QK_map _ rfl (fun c => ?_); split <;> rfl
      split
      · exact fun c' hc' => Or.inl (h0 c' hc')
      · exact fun c' hc' => Or.inl (QK_trans (fun c1 hc1 => h0 c1 hc1) (rejoinAfterError_qk cfg _ e) c' hc')
    · exact same
  | consumerQuirk cid q =>
    by_cases hg : (s.cons.any fun c => c.cid = cid && c.phase = .running) = true
    · have e1 : step cfg s (.consumerQuirk cid q) =
          ({ s with cons := s.cons.map fun c => if c.cid = cid && c.phase == .running then { c with quirk := q } else c }, []) := by
        simp only [step, hg, if_true]
      rw [e1]
      intro c' hc'
      obtain ⟨c, hc, rfl⟩ := List.mem_map.mp hc'
      split
      · rename_i hx
        simp only [Bool.and_eq_true, decide_eq_true_eq] at hx
        right; right
        exact ⟨q, by rw [hx.1], by simp, rfl⟩
      · exact Or.inl ⟨c, hc, rfl⟩
    · have e1 : step cfg s (.consumerQuirk cid q) = (s, [.badOp]) := by
        simp only [step, hg]; rfl
      rw [e1]; exact same
  | fire id hbNext =>
    simp only [step]
    split
    · exact same
    split
    · exact same
    · split
      · exact same
      · split
        · exact old (QK_frame (joinAndSync_cons' _)) rfl
        · exact old (QK_frame (joinAndSync_cons' _)) rfl
        · simp only [andThen_fst]
          split <;> split <;> exact same
  | advance dt => simp only [step]; split <;> exact same

end Afkak.Group
