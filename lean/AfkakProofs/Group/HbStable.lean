import AfkakProofs.Group.ObsNb
import AfkakProofs.Group.Fence
import AfkakProofs.Group.FencedTrace
/-!
# C16 heartbeats only while a stable member, on traces

Ghost: the monitor's `stable` flag is true whenever the member is neither stopping nor wanting a
rejoin (`H s`).  A heartbeat is sent only in such a state; `H` is established only by a processed
successful sync reply, and a step that ends in `H` destabilises nothing.
-/
namespace Afkak.Group
open Afkak.Consts Afkak.Monitor.C16

def H (s : St) : Bool := !s.stopping && !s.rejoinNeeded

theorem H_iff (s : St) : H s = true ↔ s.stopping = false ∧ s.rejoinNeeded = false := by
  unfold H; cases s.stopping <;> cases s.rejoinNeeded <;> simp

def ND (obs : List Ob) : Prop := ∀ x ∈ obs, destabilises x = false
@[simp] theorem ND_nil : ND [] := by intro x h; cases h
@[simp] theorem ND_append (a b : List Ob) : ND (a ++ b) ↔ ND a ∧ ND b := by
  unfold ND; constructor
  · intro h; exact ⟨fun o ho => h o (List.mem_append_left _ ho), fun o ho => h o (List.mem_append_right _ ho)⟩
  · intro ⟨h1, h2⟩ o ho; rcases List.mem_append.mp ho with x | x
    · exact h1 o x
    · exact h2 o x
@[simp] theorem ND_cons (o : Ob) (l : List Ob) : ND (o :: l) ↔ destabilises o = false ∧ ND l := by
  unfold ND; simp
theorem ND_map_stop (l : List Con) : ND (l.map fun c => .consumerStop c.cid) := by
  intro o ho; obtain ⟨c, _, rfl⟩ := List.mem_map.mp ho; rfl
theorem ND_map_cancel (l : List Nat) : ND (l.map .cancelTimer) := by
  intro o ho; obtain ⟨c, _, rfl⟩ := List.mem_map.mp ho; rfl

/-- a helper that ends neither stopping nor wanting a rejoin began so and destabilised nothing -/
def HK (s : St) (o : Out) : Prop := H o.1 = true → H s = true ∧ ND o.2

theorem HK_frame {s : St} {o : Out} (h1 : o.1.stopping = s.stopping) (h2 : o.1.rejoinNeeded = s.rejoinNeeded) (h3 : ND o.2) : HK s o := by
  intro h; refine ⟨?_, h3⟩; unfold H at h ⊢; rw [← h1, ← h2]; exact h
theorem HK_vac {s : St} {o : Out} (h : H o.1 = false) : HK s o := by intro h'; rw [h] at h'; cases h'
theorem HK_andThen {s : St} {o : Out} {f : St → Out} (h1 : HK s o) (h2 : ∀ s1, HK s1 (f s1)) : HK s (andThen o f) := by
  intro h
  obtain ⟨a, b⟩ := h2 o.1 h
  obtain ⟨c, d⟩ := h1 a
  exact ⟨c, by rw [andThen_snd, ND_append]; exact ⟨d, b⟩⟩
theorem HK_of_eq {s s1 : St} {o : Out} (h1 : s1.stopping = s.stopping) (h2 : s1.rejoinNeeded = s.rejoinNeeded) (h : HK s1 o) : HK s o := by
  intro x; obtain ⟨a, b⟩ := h x; refine ⟨?_, b⟩; unfold H at a ⊢; rw [← h1, ← h2]; exact a

theorem stopCons_hk (s : St) (cids : List Nat) : HK s (stopCons s cids) := HK_frame rfl rfl (ND_map_stop _)
theorem stopConsumers_hk (s : St) : HK s (stopConsumers s) := stopCons_hk _ _
theorem addTimer_hk (s : St) (k : TKind) (d : Rat) (hk : k ≠ .rejoin) : HK s (addTimer s k d) := by
  refine HK_frame rfl rfl ?_
  simp only [addTimer_obs, ND_cons, ND_nil, and_true]
  cases k <;> first | rfl | exact absurd rfl hk
theorem cancelTimer_hk (s : St) (id : Nat) : HK s (cancelTimer s id) := HK_frame rfl rfl (by simp [cancelTimer, destabilises])
theorem hbStop_hk (s : St) : HK s (hbStop s) := HK_frame rfl rfl (ND_map_cancel _)
theorem hbSchedule_hk (cfg : Cfg) (s : St) : HK s (hbSchedule cfg s) := addTimer_hk _ _ _ (by decide)
theorem resetHeartbeat_hk (cfg : Cfg) (s : St) : HK s (resetHeartbeat cfg s) := by
  unfold resetHeartbeat
  split
  · exact HK_andThen (HK_frame rfl rfl (ND_map_cancel _)) (fun _ => hbSchedule_hk _ _)
  · exact HK_of_eq rfl rfl (hbSchedule_hk cfg { s with hbRunning := true, hbStart := s.now })

theorem rowEffects_hk (s : St) (row : RejoinRow) : HK s (rowEffects s row) := by
  unfold rowEffects
  refine HK_andThen (HK_andThen ?_ (fun _ => HK_frame rfl rfl ?_)) (fun _ => HK_frame ?_ ?_ ND_nil)
  · split
    · exact stopConsumers_hk s
    · exact HK_frame rfl rfl ND_nil
  · simp only []; split <;> simp [destabilises]
  · simp only []; split <;> rfl
  · simp only []; split <;> rfl

theorem scheduleRejoin_hk (cfg : Cfg) (s : St) (fd : Bool) : HK s (scheduleRejoin cfg s fd) := by
  refine HK_vac ?_
  unfold scheduleRejoin H
  simp only []
  split <;> simp [andThen, addTimer]

theorem rejoinWith_hk (cfg : Cfg) (s : St) (row : RejoinRow) : HK s (rejoinWith cfg s row).1 := by
  unfold rejoinWith
  split
  · exact HK_frame rfl rfl ND_nil
  · exact stopConsumers_hk s
  · exact rowEffects_hk s row
  · exact HK_andThen (rowEffects_hk s row) (fun _ => scheduleRejoin_hk _ _ _)

theorem rejoinCore_hk (cfg : Cfg) (s : St) (e : GErr) : HK s (rejoinCore cfg s e).1 := rejoinWith_hk _ _ _

theorem escapeCore_hk (cfg : Cfg) (s : St) (e : GErr) : HK s (escapeCore cfg s e).1 := by
  unfold escapeCore
  simp only []
  split
  · exact HK_of_eq rfl rfl (rejoinCore_hk cfg { s with jpc := .idle, rejoinD := false } e)
  · exact HK_frame rfl rfl ND_nil

theorem cancelJoin_hk (cfg : Cfg) (s : St) : HK s (cancelJoin cfg s) := by
  unfold cancelJoin
  split
  · simp only []
    split
    · exact HK_frame rfl rfl ND_nil
    · refine HK_andThen (HK_frame rfl rfl (by simp [destabilises])) (fun s1 => ?_)
      split
      · exact escapeCore_hk _ _ _
      · exact HK_andThen (addTimer_hk _ _ _ (by decide)) (fun _ => HK_frame rfl rfl ND_nil)
      · exact HK_andThen (addTimer_hk _ _ _ (by decide)) (fun _ => HK_frame rfl rfl ND_nil)
    · exact HK_frame rfl rfl (by simp [destabilises])
    · exact HK_andThen (HK_of_eq rfl rfl (stopCons_hk _ _)) (fun _ => HK_frame rfl rfl ND_nil)
    · exact HK_frame rfl rfl ND_nil
    · exact HK_andThen (HK_frame rfl rfl (by simp [destabilises])) (fun _ => rejoinCore_hk _ _ _)
    · exact HK_andThen (HK_frame rfl rfl (by simp [destabilises])) (fun _ => escapeCore_hk _ _ _)
    · exact HK_andThen (HK_frame rfl rfl (by simp [destabilises])) (fun _ => rejoinCore_hk _ _ _)
  · exact HK_frame rfl rfl ND_nil

theorem finishStop_hk (cfg : Cfg) (s : St) (err : Option GErr) (user : Bool) : HK s (finishStop cfg s err user) := by
  unfold finishStop
  refine HK_andThen (cancelJoin_hk _ _) (fun s' => HK_frame rfl rfl ?_)
  simp only [ND_append]
  constructor
  · split <;> simp [destabilises]
  · split <;> simp [destabilises]

theorem stopCancelDc_hk (s : St) : HK s (stopCancelDc s) := by
  unfold stopCancelDc
  split
  · exact cancelTimer_hk _ _
  · exact HK_frame rfl rfl ND_nil

theorem stopCancelHb_hk (cfg : Cfg) (s : St) : HK s (stopCancelHb cfg s) := by
  unfold stopCancelHb
  split
  · simp only []
    split
    · exact HK_andThen (HK_andThen (HK_frame rfl rfl (by simp [destabilises])) (fun _ => hbStop_hk _)) (fun _ => rejoinCore_hk _ _ _)
    · exact HK_frame rfl rfl (by simp [destabilises])
  · exact HK_frame rfl rfl ND_nil

theorem stopLooper_hk (s : St) : HK s (stopLooper s) := by
  unfold stopLooper
  split
  · exact hbStop_hk _
  · exact HK_frame rfl rfl ND_nil

theorem coordStop_hk (cfg : Cfg) (s : St) (err : Option GErr) (user : Bool) : HK s (coordStop cfg s err user) := by
  by_cases h : (!s.started || s.stopping) = true
  · have e : coordStop cfg s err user = (s, if user then [.stopFired true] else []) := by unfold coordStop; rw [if_pos h]
    rw [e]; exact HK_frame rfl rfl (by split <;> simp [destabilises])
  · refine HK_vac ?_
    have : (coordStop cfg s err user).1.stopping = true := by
      unfold coordStop
      rw [if_neg h]
      simp only []
      split
      · rfl
      · simp only [andThen_fst, leaveOrFinish_stopping', stopLooper_stopping', stopCancelHb_stopping', stopCancelDc_stopping']
    unfold H; rw [this]; rfl

theorem drainDone_hk (s : St) (d : Drain) (ok : Bool) : HK s (drainDone s d ok) := by
  unfold drainDone
  split
  · exact HK_frame rfl rfl ND_nil
  · exact stopCons_hk _ _

theorem beginDrain_nd (s : St) : ND (beginDrain s).2.1 := by
  unfold beginDrain
  intro o ho
  simp only [List.mem_flatMap] at ho
  obtain ⟨c, _, hc⟩ := ho
  split at hc <;> simp at hc <;> rcases hc with rfl | rfl <;> rfl

theorem stopLoop_hk (cfg : Cfg) (s : St) (err : Option GErr) (user : Bool) : HK s (stopLoop cfg s err user) := by
  unfold stopLoop
  split
  · exact coordStop_hk _ _ _ _
  · simp only []
    split
    · exact HK_andThen (HK_andThen (o := ((beginDrain s).1, (beginDrain s).2.1)) (HK_frame rfl rfl (beginDrain_nd s)) (fun _ => drainDone_hk _ _ _)) (fun _ => coordStop_hk _ _ _ _)
    · exact HK_frame rfl rfl (beginDrain_nd s)

theorem stopCall_hk (cfg : Cfg) (s : St) (err : Option GErr) (user : Bool) : HK s (stopCall cfg s err user) := by
  unfold stopCall
  refine HK_of_eq ?_ ?_ (stopLoop_hk cfg _ err user)
  · split <;> rfl
  · split <;> rfl

theorem userStop_hk (cfg : Cfg) (s : St) : HK s (userStop cfg s) := by
  rcases userStop_cases cfg s with ⟨hu, _, _⟩ | hu <;> rw [hu]
  · exact HK_frame rfl rfl (by simp [ND, destabilises])
  · exact stopCall_hk _ _ _ _

theorem rejoinAfterError_hk (cfg : Cfg) (s : St) (e : GErr) : HK s (rejoinAfterError cfg s e) := by
  unfold rejoinAfterError
  simp only []
  split
  · exact HK_andThen (rejoinCore_hk _ _ _) (fun _ => stopCall_hk _ _ _ _)
  · exact rejoinCore_hk _ _ _

theorem escape_hk (cfg : Cfg) (s : St) (e : GErr) : HK s (escape cfg s e) := by
  unfold escape
  simp only []
  split
  · exact HK_andThen (escapeCore_hk _ _ _) (fun _ => stopCall_hk _ _ _ _)
  · exact escapeCore_hk _ _ _

theorem joinAndSync_hk (s : St) : HK s (joinAndSync s) := by
  unfold joinAndSync
  simp only []
  split
  · exact HK_frame rfl rfl ND_nil
  · split
    · exact HK_frame rfl rfl ND_nil
    · rename_i h _
      refine HK_vac ?_
      simp only [Bool.not_eq_true, Bool.not_eq_false'] at h
      unfold H; simp [h]

/-- `afterPrepare`/`prepare` issue a join, but never end in `H` when they did not begin in it -/
theorem afterPrepare_hm (s : St) : H (afterPrepare s).1 = H s := by
  unfold afterPrepare; split <;> rfl

theorem prepare_hm (s : St) : H (prepare s).1 = H s := by
  unfold H
  rw [prepare_stopping']
  have : (prepare s).1.rejoinNeeded = s.rejoinNeeded := by
    unfold prepare; (try simp only []); repeat' split
    all_goals (first | rfl | simp [andThen, afterPrepare, drainDone, stopCons, beginDrain] | skip)
    all_goals (repeat' split)
    all_goals (first | rfl | simp)
  rw [this]


theorem H_of_eq {s s1 : St} (h1 : s1.stopping = s.stopping) (h2 : s1.rejoinNeeded = s.rejoinNeeded) : H s1 = H s := by
  unfold H; rw [h1, h2]

/-- a step that ends in `H`: the processed successful sync reply, or a step that began in `H`,
    destabilised nothing and was not a processed heartbeat failure -/
theorem step_hk {s : St} (h : SInv s) (cfg : Cfg) (e : Ev) (hH : H (step cfg s e).1 = true) :
    (∃ a, e = .syncDone (.ok a) ∧ (step cfg s e).2 ≠ [.badOp]) ∨
    (H s = true ∧ ND (step cfg s e).2 ∧ (∀ g, e = .hbDone (.err g) → (step cfg s e).2 = [.badOp])) := by
  have hw := h.toWInv
  have hri := rd_idle h
  have viaHK : ∀ {s1 : St} {o : Out}, HK s1 o → s1.stopping = s.stopping → s1.rejoinNeeded = s.rejoinNeeded →
      H o.1 = true → H s = true ∧ ND o.2 := fun hk a b x => HK_of_eq a b hk x
  have nohb : ∀ g, e = .hbDone (.err g) → False → (step cfg s e).2 = [.badOp] := fun _ _ f => f.elim
  have busy : s.jpc ≠ .idle → H s = false := fun hj => by
    rcases h.jpc_needed hj with x | x <;> (unfold H; rw [x]; simp)
  cases e with
  | start =>
    right
    have : H s = true ∧ ND (step cfg s .start).2 := by
      revert hH; simp only [step]; split
      · intro hH; exact ⟨hH, by simp [destabilises]⟩
      · exact viaHK (joinAndSync_hk { s with started := true, startResult := none }) rfl rfl
    exact ⟨this.1, this.2, fun g x => by cases x⟩
  | stop =>
    right
    have := viaHK (userStop_hk cfg s) rfl rfl hH
    exact ⟨this.1, this.2, fun g x => by cases x⟩
  | coordDone r =>
    right
    have : H s = true ∧ ND (step cfg s (.coordDone r)).2 := by
      revert hH; simp only [step]; split
      · intro hH; exact ⟨hH, by simp [destabilises]⟩
      · cases r with
        | ok => intro hH; exact ⟨hH, by simp [destabilises]⟩
        | none => intro hH; exact ⟨hH, by simp [andThen, destabilises]⟩
        | err e =>
          simp only []
          split
          · exact viaHK (escape_hk cfg s e) rfl rfl
          · intro hH; exact ⟨hH, by simp [andThen, destabilises]⟩
          · intro hH; exact ⟨hH, by simp [andThen, destabilises]⟩
    exact ⟨this.1, this.2, fun g x => by cases x⟩
  | metaDone r =>
    right
    have : H s = true ∧ ND (step cfg s (.metaDone r)).2 := by
      revert hH; simp only [step]; split
      · intro hH; exact ⟨hH, by simp [destabilises]⟩
      · rename_i hj
        have hb := busy (by have : s.jpc = .metaLoad := by simpa using hj
                            rw [this]; decide)
        cases r with
        | err e => exact viaHK (escape_hk cfg s e) rfl rfl
        | ok =>
          simp only []
          split
          · intro hH; exact ⟨hH, by simp⟩
          · intro hH
            rw [prepare_hm] at hH
            have hH' : H s = true := hH
            rw [hb] at hH'; cases hH'
    exact ⟨this.1, this.2, fun g x => by cases x⟩
  | joinDone r =>
    right
    have : H s = true ∧ ND (step cfg s (.joinDone r)).2 := by
      revert hH; simp only [step]; split
      · intro hH; exact ⟨hH, by simp [destabilises]⟩
      · cases r with
        | err e => exact viaHK (HK_andThen (rejoinAfterError_hk cfg { s with jpc := .idle } e) (fun _ => HK_frame rfl rfl ND_nil)) rfl rfl
        | ok m g l n =>
          simp only [abandonHb_eq, andThen_fst, andThen_snd]
          have hpre : ND (if s.hbInFlight = true then [Ob.cancelReq ReqKind.hbR] else []) := by
            split <;> simp [destabilises]
          split
          · intro hH; exact ⟨hH, by rw [ND_append]; exact ⟨hpre, ND_nil⟩⟩
          · split <;> (intro hH; exact ⟨hH, by rw [ND_append]; exact ⟨hpre, by simp [destabilises]⟩⟩)
    exact ⟨this.1, this.2, fun g x => by cases x⟩
  | partsDone r =>
    right
    have : H s = true ∧ ND (step cfg s (.partsDone r)).2 := by
      revert hH; simp only [step]; split
      · cases r with
        | err e => exact viaHK (escape_hk cfg s e) rfl rfl
        | ok =>
          simp only []
          split <;> (intro hH; exact ⟨hH, by simp [destabilises]⟩)
      · intro hH; exact ⟨hH, by simp [destabilises]⟩
    exact ⟨this.1, this.2, fun g x => by cases x⟩
  | syncDone r =>
    cases r with
    | err e =>
      right
      have : H s = true ∧ ND (step cfg s (.syncDone (.err e))).2 := by
        revert hH; simp only [step]; split
        · intro hH; exact ⟨hH, by simp [destabilises]⟩
        · exact viaHK (HK_andThen (rejoinAfterError_hk cfg { s with jpc := .idle } e) (fun _ => HK_frame rfl rfl ND_nil)) rfl rfl
      exact ⟨this.1, this.2, fun g x => by cases x⟩
    | ok a =>
      rcases syncOk_asg h cfg a with x | x
      · right; rw [x] at hH ⊢; exact ⟨hH, by simp [destabilises], fun g y => by cases y⟩
      · left; exact ⟨a, rfl, x.1⟩
  | hbDone r =>
    right
    by_cases hf : (!s.hbInFlight) = true
    · have e1 : step cfg s (.hbDone r) = (s, [.badOp]) := by simp only [step, hf, if_true]
      rw [e1] at hH ⊢
      exact ⟨hH, by simp [destabilises], fun _ _ => rfl⟩
    · cases r with
      | ok =>
        have e1 : step cfg s (.hbDone .ok) = ({ s with hbInFlight := false }, []) := by simp only [step, hf]; rfl
        rw [e1] at hH ⊢
        exact ⟨hH, by simp, fun g x => by cases x⟩
      | err e =>
        exfalso
        by_cases hr : s.hbRunning = true
        · have e1 : step cfg s (.hbDone (.err e)) = andThen (hbStop { s with hbInFlight := false }) fun s => rejoinAfterError cfg s e := by
            simp only [step, hf, hr]; rfl
          rw [e1, andThen_fst] at hH
          have w0 := winv_hbInFlight hw false (fun x => by cases x)
          have w1 := hbStop_winv w0 rfl
          have r := rejoinAfterError_res w1 cfg e (fun x => hri x) (by simp [hbStop])
          have hs' := step_sinv h cfg (.hbDone (.err e))
          rw [e1, andThen_fst] at hs'
          obtain ⟨a, b⟩ := (H_iff _).mp hH
          have := hs'.stable_hb b a
          rcases r.shape with ⟨_, _, _, c4, _⟩ | ⟨c, _⟩
          · rw [c4] at this; simp [hbStop] at this
          · rw [c] at a; cases a
        · have e1 : step cfg s (.hbDone (.err e)) = ({ s with hbInFlight := false }, [.raised "AssertionError"]) := by
            simp only [step, hf, hr]; rfl
          rw [e1] at hH
          obtain ⟨a, b⟩ := (H_iff _).mp hH
          exact hr (h.stable_hb b a)
  | leaveDone r =>
    right
    have : H s = true ∧ ND (step cfg s (.leaveDone r)).2 := by
      revert hH; simp only [step]; split
      · intro hH; exact ⟨hH, by simp [destabilises]⟩
      · cases r with
        | ok => exact viaHK (finishStop_hk cfg { s with member := 0, gen := none } _ _) rfl rfl
        | err e => exact viaHK (finishStop_hk cfg s _ _) rfl rfl
    exact ⟨this.1, this.2, fun g x => by cases x⟩
  | consumerDown cid ok =>
    right
    have : H s = true ∧ ND (step cfg s (.consumerDown cid ok)).2 := by
      revert hH; simp only [step]; split
      · unfold consumerDown
        simp only []
        split
        · rename_i hp
          simp only [Bool.and_eq_true, decide_eq_true_eq] at hp
          have hb := busy (by rw [hp.1]; decide)
          split
          · intro hH
            have hH' : H s = true := hH
            rw [hb] at hH'; cases hH'
          · intro hH
            rw [andThen_fst, afterPrepare_hm] at hH
            have hH' : H s = true := by
              rw [← hH]; symm
              exact H_of_eq (by rw [drainDone_stopping']) (by unfold drainDone stopCons; split <;> rfl)
            rw [hb] at hH'; cases hH'
        · split
          · intro hH; exact ⟨hH, by simp⟩
          · split
            · intro hH; exact ⟨hH, by simp⟩
            · exact viaHK (HK_andThen (drainDone_hk _ _ _) (fun _ => stopLoop_hk _ _ _ _)) rfl rfl
      · intro hH; exact ⟨hH, by simp [destabilises]⟩
    exact ⟨this.1, this.2, fun g x => by cases x⟩
  | consumerErr cid e =>
    right
    have : H s = true ∧ ND (step cfg s (.consumerErr cid e)).2 := by
      revert hH; simp only [step]; split
      · split
        · intro hH; exact ⟨hH, by simp⟩
        · exact viaHK (rejoinAfterError_hk cfg _ e) rfl rfl
      · intro hH; exact ⟨hH, by simp [destabilises]⟩
    exact ⟨this.1, this.2, fun g x => by cases x⟩
  | consumerQuirk cid q =>
    right
    have : H s = true ∧ ND (step cfg s (.consumerQuirk cid q)).2 := by
      revert hH; simp only [step]; split <;> (intro hH; exact ⟨hH, by simp [destabilises]⟩)
    exact ⟨this.1, this.2, fun g x => by cases x⟩
  | fire id hbNext =>
    right
    have : H s = true ∧ ND (step cfg s (.fire id hbNext)).2 := by
      revert hH; simp only [step]
      split
      · intro hH; exact ⟨hH, by simp [destabilises]⟩
      split
      · intro hH; exact ⟨hH, by simp [destabilises]⟩
      · split
        · intro hH; exact ⟨hH, by simp [destabilises]⟩
        · split
          · exact viaHK (joinAndSync_hk { s with timers := s.timers.filter (·.id != id) }) rfl rfl
          · exact viaHK (joinAndSync_hk { s with timers := s.timers.filter (·.id != id) }) rfl rfl
          · simp only [andThen_fst, andThen_snd]
            split <;> split <;> (intro hH; exact ⟨hH, by simp [destabilises]⟩)
    exact ⟨this.1, this.2, fun g x => by cases x⟩
  | advance dt =>
    right
    have : H s = true ∧ ND (step cfg s (.advance dt)).2 := by
      revert hH; simp only [step]; split <;> (intro hH; exact ⟨hH, by simp [destabilises]⟩)
    exact ⟨this.1, this.2, fun g x => by cases x⟩


theorem not_bg_of_hb {o : Ob} (h : isHeartbeatOb o = true) : bg o = false := by cases o <;> simp_all [isHeartbeatOb, bg]

theorem sig_nohb (s : St) (e : Ev) (hne : ∀ id n, e ≠ .fire id n) : ∀ x ∈ expectedSig s e, isHeartbeatOb x = false := by
  intro x hx
  cases e with
  | fire id n => exact absurd rfl (hne id n)
  | syncDone r =>
    cases r with
    | err e => simp [expectedSig] at hx
    | ok asg =>
      simp only [expectedSig] at hx
      split at hx
      · cases hx
      · split at hx
        · cases hx
        · unfold startObs at hx
          obtain ⟨y, _, rfl⟩ := List.mem_map.mp hx
          rfl
  | metaDone r =>
    cases r <;> simp only [expectedSig, lookupSig] at hx
    · repeat' split at hx
      all_goals (first | (simp at hx; done) | (simp at hx; subst hx; rfl))
    · cases hx
  | coordDone r =>
    cases r <;> simp only [expectedSig, lookupSig] at hx
    · repeat' split at hx
      all_goals (first | (simp at hx; done) | (simp at hx; subst hx; rfl))
    · cases hx
    · cases hx
  | joinDone r =>
    cases r <;> simp only [expectedSig, lookupSig] at hx
    · repeat' split at hx
      all_goals (first | (simp at hx; done) | (simp at hx; subst hx; rfl))
    · cases hx
  | partsDone r =>
    cases r <;> simp only [expectedSig, lookupSig] at hx
    · repeat' split at hx
      all_goals (first | (simp at hx; done) | (simp at hx; subst hx; rfl))
    · cases hx
  | consumerDown cid ok =>
    simp only [expectedSig, lookupSig] at hx
    repeat' split at hx
    all_goals (first | (simp at hx; done) | (simp at hx; subst hx; rfl))
  | start =>
    simp only [expectedSig, lookupSig] at hx
    repeat' split at hx
    all_goals (first | (simp at hx; done) | (simp at hx; subst hx; rfl))
  | stop => simp [expectedSig] at hx
  | hbDone r => simp [expectedSig] at hx
  | leaveDone r => simp [expectedSig] at hx
  | consumerErr cid e => simp [expectedSig] at hx
  | consumerQuirk cid q => simp [expectedSig] at hx
  | advance dt => simp [expectedSig] at hx

/-- a heartbeat is sent only by the looper's call, in a state neither stopping nor wanting a rejoin;
    that step destabilises nothing -/
theorem hb_emit (cfg : Cfg) (s : St) (e : Ev) (o : Ob) (ho : o ∈ (step cfg s e).2) (hb : isHeartbeatOb o = true) :
    (∃ id n, e = .fire id n) ∧ H s = true ∧ ND (step cfg s e).2 := by
  have hsig := mem_sig ho (not_bg_of_hb hb)
  rw [step_sig] at hsig
  by_cases hf : ∃ id n, e = .fire id n
  · refine ⟨hf, ?_⟩
    obtain ⟨id, hbNext, rfl⟩ := hf
    by_cases c1 : hbNext.any (· < 0) = true
    · simp [expectedSig, c1] at hsig
    · cases ht : s.timers.filter (·.id == id) with
      | nil => simp [expectedSig, c1, ht] at hsig
      | cons t ts =>
        by_cases c2 : s.now < t.due
        · simp [expectedSig, c1, ht, c2] at hsig
        · cases hk : t.kind with
          | hb =>
            by_cases c3 : (s.stopping || s.rejoinNeeded || s.hbInFlight) = true
            · simp [expectedSig, c1, ht, c2, hk, c3] at hsig
            · have c3' : s.stopping = false ∧ s.rejoinNeeded = false ∧ s.hbInFlight = false := by
                cases h1 : s.stopping <;> cases h2 : s.rejoinNeeded <;> cases h3 : s.hbInFlight <;> simp_all
              refine ⟨(H_iff s).mpr ⟨c3'.1, c3'.2.1⟩, ?_⟩
              simp only [step, c1, ht, c2, hk, Bool.false_eq_true, if_false, c3'.1, c3'.2.1, c3'.2.2, Bool.or_self, andThen_snd]
              split <;> simp [destabilises]
          | rejoin =>
            have : ∀ x ∈ expectedSig s (.fire id hbNext), isHeartbeatOb x = false := by
              intro x hx
              simp only [expectedSig, c1, ht, c2, hk, lookupSig, Bool.false_eq_true, if_false] at hx
              split at hx
              · simp at hx; subst hx; rfl
              · cases hx
            rw [this o hsig] at hb; cases hb
          | retry =>
            have : ∀ x ∈ expectedSig s (.fire id hbNext), isHeartbeatOb x = false := by
              intro x hx
              simp only [expectedSig, c1, ht, c2, hk, lookupSig, Bool.false_eq_true, if_false] at hx
              split at hx
              · simp at hx; subst hx; rfl
              · cases hx
            rw [this o hsig] at hb; cases hb
  · have := sig_nohb s e (fun id n x => hf ⟨id, n, x⟩) o hsig
    rw [this] at hb; cases hb

theorem hbObs_nd : ∀ (obs : List Ob), ND obs → hbObs true obs = some true
  | [], _ => rfl
  | o :: os, h => by
    rw [ND_cons] at h
    unfold hbObs
    split
    · simp only [if_true]; exact hbObs_nd os h.2
    · rw [h.1]; exact hbObs_nd os h.2

theorem hbObs_nohb : ∀ (obs : List Ob) (st : Bool), (∀ x ∈ obs, isHeartbeatOb x = false) → ∃ st1, hbObs st obs = some st1
  | [], st, _ => ⟨st, rfl⟩
  | o :: os, st, h => by
    unfold hbObs
    rw [if_neg (by rw [h o (by simp)]; simp)]
    exact hbObs_nohb os _ (fun x hx => h x (by simp [hx]))

def st0f (stable : Bool) (e : Ev) (obs : List Ob) : Bool :=
  match e with
  | .hbDone (.err _) => if obs == [.badOp] then stable else false
  | _ => stable

def st2f (st1 : Bool) (e : Ev) (obs : List Ob) : Bool :=
  match e with
  | .syncDone (.ok _) => if obs == [.badOp] then st1 else true
  | _ => st1

theorem heartbeat_step {s : St} (h : SInv s) (cfg : Cfg) (e : Ev) (stable : Bool) (hst : H s = true → stable = true) :
    ∃ st1, hbObs (st0f stable e (step cfg s e).2) (step cfg s e).2 = some st1 ∧
      (H (step cfg s e).1 = true → (st2f st1 e (step cfg s e).2 && !(step cfg s e).1.stopping) = true) := by
  have fin : ∀ st1, H (step cfg s e).1 = true → st2f st1 e (step cfg s e).2 = true →
      (st2f st1 e (step cfg s e).2 && !(step cfg s e).1.stopping) = true := fun st1 hH h2 => by
    rw [h2, ((H_iff _).mp hH).1]; rfl
  by_cases hex : ∃ o ∈ (step cfg s e).2, isHeartbeatOb o = true
  · obtain ⟨o, ho, hb⟩ := hex
    obtain ⟨⟨id, n, rfl⟩, hH, hnd⟩ := hb_emit cfg s e o ho hb
    refine ⟨true, ?_, fun hH' => fin true hH' rfl⟩
    have : st0f stable (.fire id n) (step cfg s (.fire id n)).2 = true := hst hH
    rw [this]; exact hbObs_nd _ hnd
  · have hno : ∀ x ∈ (step cfg s e).2, isHeartbeatOb x = false := fun x hx => by
      cases hb : isHeartbeatOb x with
      | false => rfl
      | true => exact (hex ⟨x, hx, hb⟩).elim
    by_cases hH' : H (step cfg s e).1 = true
    · rcases step_hk h cfg e hH' with ⟨a, rfl, hb⟩ | ⟨hH, hnd, hhb⟩
      · obtain ⟨st1, e1⟩ := hbObs_nohb _ (st0f stable (.syncDone (.ok a)) (step cfg s (.syncDone (.ok a))).2) hno
        refine ⟨st1, e1, fun _ => fin st1 hH' ?_⟩
        have hb' : ((step cfg s (.syncDone (.ok a))).2 == [.badOp]) = false := by simpa using hb
        simp [st2f, hb']
      · have : st0f stable e (step cfg s e).2 = true := by
          have hs := hst hH
          unfold st0f
          split
          · rename_i g; rw [hhb g rfl]; simpa using hs
          · exact hs
        refine ⟨true, by rw [this]; exact hbObs_nd _ hnd, fun _ => fin true hH' ?_⟩
        unfold st2f; split
        · split <;> rfl
        · rfl
    · obtain ⟨st1, e1⟩ := hbObs_nohb _ (st0f stable e (step cfg s e).2) hno
      exact ⟨st1, e1, fun x => absurd x hH'⟩

theorem heartbeatFrom_cons (stable : Bool) (m : MStep) (ms : List MStep) :
    heartbeatFrom stable (m :: ms) = match hbObs (st0f stable m.ev m.obs) m.obs with
      | none => false
      | some st1 => heartbeatFrom (st2f st1 m.ev m.obs && !m.snap.stopping) ms := by
  cases m with
  | mk ev obs sn =>
    cases ev <;> (try rfl)
    all_goals (rename_i r; cases r <;> rfl)

theorem heartbeat_runFrom (cfg : Cfg) (evs : List Ev) :
    ∀ (s : St) (stable : Bool), SInv s → (H s = true → stable = true) →
      heartbeatFrom stable (toMSteps (runFrom cfg s evs)) = true := by
  induction evs with
  | nil => intro s st _ _; rfl
  | cons e es ih =>
    intro s st h hst
    simp only [runFrom, toMSteps, List.map_cons]
    rw [heartbeatFrom_cons]
    obtain ⟨st1, e1, l1⟩ := heartbeat_step h cfg e st hst
    simp only [] at e1 ⊢
    rw [e1]
    exact ih _ _ (step_sinv h cfg e) l1

/-- **C16 heartbeats only while stable**: on every run a heartbeat is observed only after a
    processed successful sync reply with, since then, no heartbeat failure, no rejoin scheduled, no
    coordinator look-up / join / leave issued, and the member not stopping. -/
theorem heartbeatOnlyStable_run (cfg : Cfg) (evs : List Ev) : heartbeatOnlyStable (toMSteps (run cfg evs)) = true :=
  heartbeat_runFrom cfg evs init false sinv_init (fun h => by simp [H, init] at h)


/-! ## heartbeats quote the member's current ids -/

theorem hb_ids (cfg : Cfg) (s : St) (e : Ev) (o : Ob) (ho : o ∈ (step cfg s e).2) (hb : isHeartbeatOb o = true) :
    o = .heartbeat s.gen s.member := by
  have hsig := mem_sig ho (not_bg_of_hb hb)
  rw [step_sig] at hsig
  by_cases hf : ∃ id n, e = .fire id n
  · obtain ⟨id, hbNext, rfl⟩ := hf
    simp only [expectedSig, lookupSig] at hsig
    repeat' split at hsig
    all_goals (first | (simp at hsig; done) | (simp at hsig; subst hsig; first | rfl | cases hb))
  · have := sig_nohb s e (fun id n x => hf ⟨id, n, x⟩) o hsig
    rw [this] at hb; cases hb

theorem heartbeatIds_runFrom (cfg : Cfg) (evs : List Ev) :
    ∀ (s : St), heartbeatIdsFrom (snap s) (toMSteps (runFrom cfg s evs)) = true := by
  induction evs with
  | nil => intro s; rfl
  | cons e es ih =>
    intro s
    simp only [runFrom, toMSteps, List.map_cons, heartbeatIdsFrom, Bool.and_eq_true]
    refine ⟨?_, ih _⟩
    rw [List.all_eq_true]
    intro o ho
    by_cases hb : isHeartbeatOb o = true
    · obtain ⟨_, hH, _⟩ := hb_emit cfg s e o ho hb
      have hid := hb_ids cfg s e o ho hb
      obtain ⟨a, b⟩ := (H_iff s).mp hH
      simp only [hb, Bool.not_true, Bool.false_or, Bool.and_eq_true, Bool.not_eq_true', beq_iff_eq]
      exact ⟨⟨b, a⟩, hid⟩
    · simp only [Bool.not_eq_true] at hb
      simp [hb]

/-- **C16 heartbeat ids**: every heartbeat is sent by a member neither stopping nor wanting a rejoin
    and quotes its current generation and member id -/
theorem heartbeatIds_run (cfg : Cfg) (evs : List Ev) : heartbeatIds (toMSteps (run cfg evs)) = true :=
  heartbeatIds_runFrom cfg evs init

end Afkak.Group
