import AfkakProofs.Group.Step
import Afkak.Monitor.C17Crash
/-!
# The helpers never take a "crash" branch

`NC obs`: no observation of `obs` is a crash (`Ob.raised` other than the documented `RestartError`).
Same family as `Obs.lean` / `ObsNb.lean`; the two crash branches of the model (`coordStop`:
`AlreadyCalled`, `stopCancelHb` / `hbDone`: `AssertionError`) are ruled out by `Pre`, the part of the
weak invariant `WInv` that they test: a heartbeat request is outstanding only while the looper runs
(`WInv.hb_timer`), and before `Coordinator.stop` began `_rejoin_wait_dc` references an active call
(`WInv.dc_active`).
-/
namespace Afkak.Group.NoCrash
open Afkak.Consts Afkak.Monitor.C17Crash

def NC (obs : List Ob) : Prop := ∀ o ∈ obs, isCrashOb o = false

@[simp] theorem NC_nil : NC [] := by intro o h; cases h
@[simp] theorem NC_append (a b : List Ob) : NC (a ++ b) ↔ NC a ∧ NC b := by
  unfold NC; constructor
  · intro h; exact ⟨fun o ho => h o (List.mem_append_left _ ho), fun o ho => h o (List.mem_append_right _ ho)⟩
  · intro ⟨h1, h2⟩ o ho; rcases List.mem_append.mp ho with x | x
    · exact h1 o x
    · exact h2 o x
@[simp] theorem NC_cons (o : Ob) (l : List Ob) : NC (o :: l) ↔ isCrashOb o = false ∧ NC l := by
  unfold NC; simp
theorem NC_map_stop (l : List Con) : NC (l.map fun c => .consumerStop c.cid) := by
  intro o ho; obtain ⟨c, _, rfl⟩ := List.mem_map.mp ho; rfl
theorem NC_map_shutdown (l : List Nat) : NC (l.map .consumerShutdown) := by
  intro o ho; obtain ⟨c, _, rfl⟩ := List.mem_map.mp ho; rfl
theorem NC_map_cancel (l : List Nat) : NC (l.map .cancelTimer) := by
  intro o ho; obtain ⟨c, _, rfl⟩ := List.mem_map.mp ho; rfl
/-- sequencing: the continuation is only looked at in the state it is run in -/
theorem NC_andThen {o : Out} {f : St → Out} (h1 : NC o.2) (h2 : NC (f o.1).2) : NC (andThen o f).2 := by
  simp only [andThen_snd, NC_append]; exact ⟨h1, h2⟩

/-- `NC` is what the monitor's step predicate says -/
theorem noCrashStep_of_NC {e : Ev} {obs : List Ob} {sn : Snap} (h : NC obs) : noCrashStep ⟨e, obs, sn⟩ = true := by
  unfold noCrashStep
  simp only [Bool.not_eq_eq_eq_not, Bool.not_true]
  cases ha : obs.any isCrashOb
  · rfl
  · obtain ⟨o, ho, hc⟩ := List.any_eq_true.mp ha
    rw [h o ho] at hc; cases hc

/-! ## helpers without a crash branch -/

theorem stopCons_nc (s : St) (cids : List Nat) : NC (stopCons s cids).2 := NC_map_stop _
theorem stopConsumers_nc (s : St) : NC (stopConsumers s).2 := NC_map_stop _
theorem addTimer_nc (s : St) (k : TKind) (d : Rat) : NC (addTimer s k d).2 := by simp [isCrashOb]
theorem cancelTimer_nc (s : St) (id : Nat) : NC (cancelTimer s id).2 := by simp [cancelTimer, isCrashOb]
theorem hbStop_nc (s : St) : NC (hbStop s).2 := NC_map_cancel _
theorem hbSchedule_nc (cfg : Cfg) (s : St) : NC (hbSchedule cfg s).2 := addTimer_nc _ _ _
theorem resetHeartbeat_nc (cfg : Cfg) (s : St) : NC (resetHeartbeat cfg s).2 := by
  unfold resetHeartbeat
  split
  · exact NC_andThen (NC_map_cancel _) (hbSchedule_nc _ _)
  · exact hbSchedule_nc _ _

theorem rowEffects_nc (s : St) (row : RejoinRow) : NC (rowEffects s row).2 := by
  unfold rowEffects
  refine NC_andThen (NC_andThen ?_ ?_) NC_nil
  · split
    · exact stopConsumers_nc s
    · exact NC_nil
  · simp only []; split <;> simp [isCrashOb]

theorem scheduleRejoin_nc (cfg : Cfg) (s : St) (fd : Bool) : NC (scheduleRejoin cfg s fd).2 := by
  unfold scheduleRejoin
  simp only []
  split
  · exact NC_andThen (addTimer_nc _ _ _) NC_nil
  · exact NC_nil

theorem rejoinWith_nc (cfg : Cfg) (s : St) (row : RejoinRow) : NC (rejoinWith cfg s row).1.2 := by
  unfold rejoinWith
  split
  · exact NC_nil
  · exact stopConsumers_nc s
  · exact rowEffects_nc s row
  · exact NC_andThen (rowEffects_nc s row) (scheduleRejoin_nc _ _ _)

theorem rejoinCore_nc (cfg : Cfg) (s : St) (e : GErr) : NC (rejoinCore cfg s e).1.2 := rejoinWith_nc _ _ _

theorem escapeCore_nc (cfg : Cfg) (s : St) (e : GErr) : NC (escapeCore cfg s e).1.2 := by
  unfold escapeCore
  simp only []
  split
  · exact rejoinCore_nc _ _ _
  · exact NC_nil

theorem cancelJoin_nc (cfg : Cfg) (s : St) : NC (cancelJoin cfg s).2 := by
  unfold cancelJoin
  split
  · simp only []
    split
    · exact NC_nil
    · refine NC_andThen (by simp [isCrashOb]) ?_
      split
      · exact escapeCore_nc _ _ _
      · exact NC_andThen (addTimer_nc _ _ _) NC_nil
      · exact NC_andThen (addTimer_nc _ _ _) NC_nil
    · simp [isCrashOb]
    · exact NC_andThen (stopCons_nc _ _) NC_nil
    · exact NC_nil
    · exact NC_andThen (by simp [isCrashOb]) (rejoinCore_nc _ _ _)
    · exact NC_andThen (by simp [isCrashOb]) (escapeCore_nc _ _ _)
    · exact NC_andThen (by simp [isCrashOb]) (rejoinCore_nc _ _ _)
  · exact NC_nil

/-- the tail of `Coordinator.stop`: the nested `self.stop` of a fatal row is dropped (a
    `RestopError` inside an unobserved Deferred), so nothing here can reach a crash branch -/
theorem finishStop_nc (cfg : Cfg) (s : St) (err : Option GErr) (user : Bool) : NC (finishStop cfg s err user).2 := by
  unfold finishStop
  refine NC_andThen (cancelJoin_nc _ _) ?_
  simp only [NC_append]
  constructor
  · split <;> simp [isCrashOb]
  · split <;> simp [isCrashOb]

theorem stopCancelDc_nc (s : St) : NC (stopCancelDc s).2 := by
  unfold stopCancelDc
  split
  · exact cancelTimer_nc _ _
  · exact NC_nil

theorem stopLooper_nc (s : St) : NC (stopLooper s).2 := by
  unfold stopLooper
  split
  · exact hbStop_nc _
  · exact NC_nil

theorem leaveOrFinish_nc (cfg : Cfg) (err : Option GErr) (user : Bool) (s : St) : NC (leaveOrFinish cfg err user s).2 := by
  unfold leaveOrFinish
  split
  · simp [isCrashOb]
  · exact finishStop_nc _ _ _ _

theorem drainDone_nc (s : St) (d : Drain) (ok : Bool) : NC (drainDone s d ok).2 := by
  unfold drainDone
  split
  · exact NC_nil
  · exact stopCons_nc _ _

theorem beginDrain_nc (s : St) : NC (beginDrain s).2.1 := by
  unfold beginDrain
  intro o ho
  simp only [List.mem_flatMap] at ho
  obtain ⟨c, _, hc⟩ := ho
  split at hc <;> simp at hc <;> rcases hc with rfl | rfl <;> rfl

theorem afterPrepare_nc (s : St) : NC (afterPrepare s).2 := by
  unfold afterPrepare
  split <;> simp [isCrashOb]

theorem prepare_nc (s : St) : NC (prepare s).2 := by
  unfold prepare
  split
  · exact NC_nil
  split
  · exact afterPrepare_nc s
  · simp only []
    split
    · exact NC_andThen (NC_andThen (beginDrain_nc s) (drainDone_nc _ _ _)) (afterPrepare_nc _)
    · exact beginDrain_nc s

theorem joinAndSync_nc (s : St) : NC (joinAndSync s).2 := by
  unfold joinAndSync
  simp only []
  split
  · exact NC_nil
  · split <;> simp [isCrashOb]

theorem startConsumers_nc (s : St) (asg : List (Nat × List Int)) : NC (startConsumers s asg).2 := by
  unfold startConsumers
  intro o ho
  simp only [List.map_map] at ho
  obtain ⟨c, _, rfl⟩ := List.mem_map.mp ho
  rfl

theorem abandonHb_nc (s : St) : NC (abandonHb s).2 := by
  unfold abandonHb
  split <;> simp [isCrashOb]

/-! ## what the crash branches test -/

/-- `_rejoin_wait_dc`, when set, references an active call -/
def DcOk (s : St) : Prop := ∀ id, s.rejoinWaitDc = some id → ∃ t ∈ s.timers, t.id = id

/-- The part of the weak invariant the crash branches depend on. -/
structure Pre (s : St) : Prop where
  hb : s.hbRunning = false → s.hbInFlight = false
  dc : s.stopping = false → DcOk s

theorem _root_.Afkak.Group.WInv.pre {s : St} (h : WInv s) : Pre s :=
  ⟨fun hr => (h.hb_timer hr).2, fun hs id hid => by obtain ⟨t, ht, h1, _⟩ := h.dc_active hs id hid; exact ⟨t, ht, h1⟩⟩

theorem scheduleRejoin_dcok {s : St} (h : DcOk s) (cfg : Cfg) (fd : Bool) : DcOk (scheduleRejoin cfg s fd).1 := by
  unfold scheduleRejoin
  cases hd : s.rejoinWaitDc
  · intro id hid
    simp only [Option.isNone_none, if_true, andThen_fst, Option.some.injEq] at hid
    simp only [Option.isNone_none, if_true, andThen_fst, addTimer_timers]
    exact ⟨_, List.mem_append_right _ (List.mem_singleton.mpr rfl), hid⟩
  · simp only [Option.isNone_some, Bool.false_eq_true, if_false]
    exact fun id hid => h id (hd.trans hid)

theorem rowEffects_dcok {s : St} (h : DcOk s) (row : RejoinRow) : DcOk (rowEffects s row).1 := by
  obtain ⟨t1, _, t3, _⟩ := rowEffects_timers s row
  unfold DcOk
  rw [t1, t3]; exact h

theorem rejoinWith_dcok {s : St} (h : DcOk s) (cfg : Cfg) (row : RejoinRow) : DcOk (rejoinWith cfg s row).1.1 := by
  unfold rejoinWith
  cases row.act <;> simp only [andThen_fst]
  · exact scheduleRejoin_dcok (rowEffects_dcok h row) _ _
  · exact rowEffects_dcok h row
  · exact h
  · exact h

theorem rejoinWith_pre {s : St} (hp : Pre s) (cfg : Cfg) (row : RejoinRow) : Pre (rejoinWith cfg s row).1.1 := by
  have c := rejoinWith_ctl cfg s row
  refine ⟨by rw [c.hbRunning, c.hbInFlight]; exact hp.hb, ?_⟩
  rw [c.stopping]
  exact fun hs => rejoinWith_dcok (hp.dc hs) cfg row

theorem rejoinCore_pre {s : St} (hp : Pre s) (cfg : Cfg) (e : GErr) : Pre (rejoinCore cfg s e).1.1 := rejoinWith_pre hp _ _

theorem escapeCore_pre {s : St} (hp : Pre s) (cfg : Cfg) (e : GErr) : Pre (escapeCore cfg s e).1.1 := by
  unfold escapeCore
  have h0 : Pre { s with jpc := .idle, rejoinD := false } := ⟨hp.hb, hp.dc⟩
  simp only []
  split
  · exact rejoinCore_pre h0 cfg e
  · exact h0

theorem drainDone_pre {s : St} (hp : Pre s) (d : Drain) (ok : Bool) : Pre (drainDone s d ok).1 := by
  unfold drainDone
  split
  · exact hp
  · exact ⟨hp.hb, hp.dc⟩

theorem beginDrain_pre {s : St} (hp : Pre s) : Pre (beginDrain s).1 := ⟨hp.hb, hp.dc⟩

/-! ## the helpers with a crash branch -/

/-- `_handle_heartbeat_failure` of the cancelled heartbeat finds the looper running -/
theorem stopCancelHb_nc (cfg : Cfg) {s : St} (hh : s.hbRunning = false → s.hbInFlight = false) : NC (stopCancelHb cfg s).2 := by
  unfold stopCancelHb
  split
  · rename_i hf
    simp only []
    split
    · exact NC_andThen (NC_andThen (by simp [isCrashOb]) (hbStop_nc _)) (rejoinCore_nc _ _ _)
    · rename_i hr
      have hr' : s.hbRunning = false := by simpa using hr
      rw [hh hr'] at hf; cases hf
  · exact NC_nil

/-- `Coordinator.stop`: the `_rejoin_wait_dc` it cancels is active, the looper it stops on a
    heartbeat failure is running -/
theorem coordStop_nc (cfg : Cfg) {s : St} (hp : Pre s) (err : Option GErr) (user : Bool) : NC (coordStop cfg s err user).2 := by
  unfold coordStop
  split
  · split <;> simp [isCrashOb]
  · rename_i hg
    have hs : s.stopping = false := by
      cases hst : s.stopping
      · rfl
      · simp [hst] at hg
    simp only []
    split
    · rename_i hany
      exfalso
      cases hd : s.rejoinWaitDc with
      | none => simp [hd] at hany
      | some id =>
        obtain ⟨t, ht, hti⟩ := hp.dc hs id hd
        simp [hd, timerActive] at hany
        exact hany t ht hti
    · refine NC_andThen (NC_andThen (NC_andThen (stopCancelDc_nc _) (stopCancelHb_nc cfg ?_)) (stopLooper_nc _))
        (leaveOrFinish_nc _ _ _ _)
      unfold stopCancelDc
      simp only []
      split
      · exact hp.hb
      · exact hp.hb

theorem stopLoop_nc (cfg : Cfg) {s : St} (hp : Pre s) (err : Option GErr) (user : Bool) : NC (stopLoop cfg s err user).2 := by
  unfold stopLoop
  split
  · exact coordStop_nc cfg hp _ _
  · simp only []
    split
    · exact NC_andThen (NC_andThen (beginDrain_nc s) (drainDone_nc _ _ _))
        (coordStop_nc cfg (drainDone_pre (beginDrain_pre hp) _ _) _ _)
    · exact beginDrain_nc s

theorem stopCall_nc (cfg : Cfg) {s : St} (hp : Pre s) (err : Option GErr) (user : Bool) : NC (stopCall cfg s err user).2 := by
  unfold stopCall
  split
  · exact stopLoop_nc cfg (s := { s with stopDraining := true }) ⟨hp.hb, hp.dc⟩ _ _
  · exact stopLoop_nc cfg hp _ _

theorem userStop_nc (cfg : Cfg) {s : St} (hp : Pre s) : NC (userStop cfg s).2 := by
  unfold userStop
  split
  · simp [isCrashOb]
  · exact stopCall_nc cfg hp _ _

theorem rejoinAfterError_nc (cfg : Cfg) {s : St} (hp : Pre s) (e : GErr) : NC (rejoinAfterError cfg s e).2 := by
  unfold rejoinAfterError
  simp only []
  split
  · exact NC_andThen (rejoinCore_nc _ _ _) (stopCall_nc cfg (rejoinCore_pre hp cfg e) _ _)
  · exact rejoinCore_nc _ _ _

theorem escape_nc (cfg : Cfg) {s : St} (hp : Pre s) (e : GErr) : NC (escape cfg s e).2 := by
  unfold escape
  simp only []
  split
  · exact NC_andThen (escapeCore_nc _ _ _) (stopCall_nc cfg (escapeCore_pre hp cfg e) _ _)
  · exact escapeCore_nc _ _ _

theorem consumerDown_nc (cfg : Cfg) {s : St} (hp : Pre s) (cid : Nat) (ok : Bool) : NC (consumerDown cfg s cid ok).2 := by
  unfold consumerDown
  simp only []
  split
  · split
    · exact NC_nil
    · exact NC_andThen (drainDone_nc _ _ _) (afterPrepare_nc _)
  · split
    · exact NC_nil
    · split
      · exact NC_nil
      · refine NC_andThen (drainDone_nc _ _ _) (stopLoop_nc cfg ?_ _ _)
        apply drainDone_pre
        exact ⟨hp.hb, hp.dc⟩

end Afkak.Group.NoCrash
