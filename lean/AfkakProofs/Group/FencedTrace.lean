import AfkakProofs.Group.NoHeld
import AfkakProofs.Group.Fence
/-!
# The fencing monitor on traces (`fenced`): the assignment of the last processed sync reply is the
state's, or the group holds no consumer.
-/
namespace Afkak.Group
open Afkak.Consts Afkak.Monitor.C16

theorem step_asg (cfg : Cfg) (s : St) (e : Ev) (h : ∀ a, e ≠ .syncDone (.ok a)) : (step cfg s e).1.asg = s.asg := by
  cases e with
  | syncDone r =>
    cases r with
    | ok a => exact absurd rfl (h a)
    | err e => simp only [step]; split <;> simp
  | start => simp only [step]; split <;> simp
  | stop => simp [step]
  | coordDone r => cases r <;> simp only [step] <;> (repeat' split) <;> simp
  | metaDone r => cases r <;> simp only [step] <;> (repeat' split) <;> simp
  | joinDone r => cases r <;> simp only [step] <;> (repeat' split) <;> simp
  | partsDone r => cases r <;> simp only [step] <;> (repeat' split) <;> simp
  | hbDone r => cases r <;> simp only [step] <;> (repeat' split) <;> simp
  | leaveDone r => cases r <;> simp only [step] <;> (repeat' split) <;> simp
  | consumerDown cid ok => simp only [step]; split <;> simp
  | consumerErr cid e => simp only [step]; (repeat' split) <;> simp
  | consumerQuirk cid q => simp only [step]; split <;> simp
  | fire id hbNext => simp only [step, andThen]; (repeat' split) <;> simp
  | advance dt => simp only [step]; split <;> simp

theorem step_noheld (cfg : Cfg) (s : St) (e : Ev) (h : ∀ a, e ≠ .syncDone (.ok a)) (hn : NoHeld s) : NoHeld (step cfg s e).1 := by
  cases e with
  | syncDone r =>
    cases r with
    | ok a => exact absurd rfl (h a)
    | err e =>
      simp only [step]; split
      · exact hn
      · exact noheld_of_cons (rejoinAfterError_nh cfg _ e (noheld_of_cons (s' := { s with jpc := .idle }) hn rfl)) rfl
  | start =>
    simp only [step]; split
    · exact hn
    · exact noheld_of_cons hn (by simp)
  | stop => simp only [step]; exact stopCall_nh cfg s _ _ hn
  | coordDone r =>
    simp only [step]; split
    · exact hn
    · cases r with
      | ok => exact hn
      | none => exact hn
      | err e =>
        simp only []
        split
        · exact escape_nh cfg s e hn
        · exact hn
        · exact hn
  | metaDone r =>
    simp only [step]; split
    · exact hn
    · cases r with
      | err e => exact escape_nh cfg s e hn
      | ok =>
        simp only []
        split
        · exact hn
        · exact prepare_nh _ (noheld_of_cons (s' := { s with coordBroker := true }) hn rfl)
  | joinDone r =>
    simp only [step]; split
    · exact hn
    · cases r with
      | err e => exact noheld_of_cons (rejoinAfterError_nh cfg _ e (noheld_of_cons (s' := { s with jpc := .idle }) hn rfl)) rfl
      | ok m g l n =>
        simp only []
        split
        · exact hn
        · split <;> exact hn
  | partsDone r =>
    simp only [step]; split
    · cases r with
      | err e => exact escape_nh cfg s e hn
      | ok => simp only []; split <;> exact hn
    · exact hn
  | hbDone r =>
    simp only [step]; split
    · exact hn
    · cases r with
      | ok => exact hn
      | err e =>
        simp only []
        split
        · exact rejoinAfterError_nh cfg _ e (noheld_of_cons (s' := (hbStop { s with hbInFlight := false }).1) hn rfl)
        · exact hn
  | leaveDone r =>
    simp only [step]; split
    · exact hn
    · cases r with
      | ok => exact finishStop_nh (s := { s with member := 0, gen := none }) hn cfg _ _
      | err e => exact finishStop_nh hn cfg _ _
  | consumerDown cid ok =>
    simp only [step]; split
    · exact consumerDown_nh cfg s cid ok hn
    · exact hn
  | consumerErr cid e =>
    simp only [step]; split
    · have h1 : NoHeld { s with cons := s.cons.map fun (c : Con) => if c.cid = cid then { c with startFired := true } else c } :=
        noheld_cons_map _ (fun c => by split <;> rfl) hn
      split
      · exact h1
      · exact rejoinAfterError_nh cfg _ e h1
    · exact hn
  | consumerQuirk cid q =>
    simp only [step]; split
    · exact noheld_cons_map _ (fun c => by split <;> rfl) hn
    · exact hn
  | fire id hbNext =>
    simp only [step, andThen]
    refine noheld_of_cons hn ?_
    repeat' split
    all_goals (first | rfl | simp [andThen])
  | advance dt => simp only [step]; split <;> exact hn

/-- what a processed successful sync reply does to the assignment -/
theorem syncOk_asg (cfg : Cfg) (s : St) (a : List (Nat × List Int)) :
    (step cfg s (.syncDone (.ok a))).2 = [.badOp] ∨ NoHeld (step cfg s (.syncDone (.ok a))).1 ∨
    (step cfg s (.syncDone (.ok a))).1.asg = flatten a := by
  by_cases hj : (s.jpc != .sync) = true
  · left; simp only [step, hj, if_true]
  · by_cases hs : s.stopping = true
    · right; left
      sorry
    · right; right
      have e : (step cfg s (.syncDone (.ok a))).1 = (startConsumers { (resetHeartbeat cfg s).1 with rejoinNeeded := false, jpc := .idle, rejoinD := false } a).1 := by
        simp only [step, hj, hs]; rfl
      rw [e]; rfl

end Afkak.Group
