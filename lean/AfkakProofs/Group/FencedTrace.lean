import AfkakProofs.Group.NoHeld
import AfkakProofs.Group.Fence
/-!
# The fencing monitor on traces (`fenced`): the assignment of the last processed sync reply is the
state's, or the group holds no consumer.
-/
namespace Afkak.Group
open Afkak.Consts Afkak.Monitor.C16

theorem step_asg (cfg : Cfg) (s : St) (e : Ev) (h : ∀ a, e ≠ .syncDone (.ok a)) : (step cfg s e).1.asg = s.asg := by
  cases e with
  | syncDone r =>
    cases r with
    | ok a => exact absurd rfl (h a)
    | err e => simp only [step]; split <;> simp
  | start => simp only [step]; split <;> simp
  | stop => rcases userStop_cases cfg s with ⟨hu, _, _⟩ | hu <;> simp [step, hu]
  | coordDone r => cases r <;> simp only [step] <;> (repeat' split) <;> simp
  | metaDone r => cases r <;> simp only [step] <;> (repeat' split) <;> simp
  | joinDone r =>
    cases r with
    | err e => simp only [step]; (repeat' split) <;> simp
    | ok m g l n =>
      by_cases hj : (s.jpc != .join) = true
      · simp [step, hj]
      · by_cases hs : s.stopping = true <;> cases l <;> simp [step, hj, hs, abandonHb_eq, andThen]
  | partsDone r => cases r <;> simp only [step] <;> (repeat' split) <;> simp
  | hbDone r => cases r <;> simp only [step] <;> (repeat' split) <;> simp
  | leaveDone r => cases r <;> simp only [step] <;> (repeat' split) <;> simp
  | consumerDown cid ok => simp only [step]; split <;> simp
  | consumerErr cid e => simp only [step]; (repeat' split) <;> simp
  | consumerQuirk cid q => simp only [step]; split <;> simp
  | fire id hbNext => simp only [step, andThen]; (repeat' split) <;> simp
  | advance dt => simp only [step]; split <;> simp

theorem step_noheld (cfg : Cfg) (s : St) (e : Ev) (h : ∀ a, e ≠ .syncDone (.ok a)) (hn : NoHeld s) : NoHeld (step cfg s e).1 := by
  cases e with
  | syncDone r =>
    cases r with
    | ok a => exact absurd rfl (h a)
    | err e =>
      simp only [step]; split
      · exact hn
      · exact noheld_of_cons (rejoinAfterError_nh cfg _ e (noheld_of_cons (s' := { s with jpc := .idle }) hn rfl)) rfl
  | start =>
    simp only [step]; split
    · exact hn
    · exact noheld_of_cons hn (by simp)
  | stop =>
    simp only [step]
    rcases userStop_cases cfg s with ⟨hu, _, _⟩ | hu <;> rw [hu]
    · exact hn
    · exact stopCall_nh cfg s _ _ hn
  | coordDone r =>
    simp only [step]; split
    · exact hn
    · cases r with
      | ok => exact hn
      | none => exact hn
      | err e =>
        simp only []
        split
        · exact escape_nh cfg s e hn
        · exact hn
        · exact hn
  | metaDone r =>
    simp only [step]; split
    · exact hn
    · cases r with
      | err e => exact escape_nh cfg s e hn
      | ok =>
        simp only []
        split
        · exact hn
        · exact prepare_nh _ (noheld_of_cons (s' := { s with coordBroker := true }) hn rfl)
  | joinDone r =>
    simp only [step]; split
    · exact hn
    · cases r with
      | err e => exact noheld_of_cons (rejoinAfterError_nh cfg _ e (noheld_of_cons (s' := { s with jpc := .idle }) hn rfl)) rfl
      | ok m g l n =>
        simp only [abandonHb_eq, andThen_fst]
        split
        · exact hn
        · split <;> exact hn
  | partsDone r =>
    simp only [step]; split
    · cases r with
      | err e => exact escape_nh cfg s e hn
      | ok => simp only []; split <;> exact hn
    · exact hn
  | hbDone r =>
    simp only [step]; split
    · exact hn
    · cases r with
      | ok => exact hn
      | err e =>
        simp only []
        split
        · exact rejoinAfterError_nh cfg _ e (noheld_of_cons (s' := (hbStop { s with hbInFlight := false }).1) hn rfl)
        · exact hn
  | leaveDone r =>
    simp only [step]; split
    · exact hn
    · cases r with
      | ok => exact finishStop_nh (s := { s with member := 0, gen := none }) hn cfg _ _
      | err e => exact finishStop_nh hn cfg _ _
  | consumerDown cid ok =>
    simp only [step]; split
    · exact consumerDown_nh cfg s cid ok hn
    · exact hn
  | consumerErr cid e =>
    simp only [step]; split
    · have h1 : NoHeld { s with cons := s.cons.map fun (c : Con) => if c.cid = cid then { c with startFired := true } else c } :=
        noheld_cons_map _ (fun c => by split <;> rfl) hn
      split
      · exact h1
      · exact rejoinAfterError_nh cfg _ e h1
    · exact hn
  | consumerQuirk cid q =>
    simp only [step]; split
    · exact noheld_cons_map _ (fun c => by split <;> rfl) hn
    · exact hn
  | fire id hbNext =>
    simp only [step, andThen]
    refine noheld_of_cons hn ?_
    repeat' split
    all_goals (first | rfl | simp [andThen])
  | advance dt => simp only [step]; split <;> exact hn

/-- what a successful sync reply does: not enabled (nothing happens), or processed — and then the
    group holds no consumer (it is stopping) or the assignment is the reply's -/
theorem syncOk_asg {s : St} (h : SInv s) (cfg : Cfg) (a : List (Nat × List Int)) :
    step cfg s (.syncDone (.ok a)) = (s, [.badOp]) ∨
    ((step cfg s (.syncDone (.ok a))).2 ≠ [.badOp] ∧
      (NoHeld (step cfg s (.syncDone (.ok a))).1 ∨ (step cfg s (.syncDone (.ok a))).1.asg = flatten a)) := by
  by_cases hj : (s.jpc != .sync) = true
  · left; simp only [step, hj, if_true]
  · right
    by_cases hs : s.stopping = true
    · have e : step cfg s (.syncDone (.ok a)) = ({ s with jpc := .idle, rejoinD := false }, []) := by
        simp only [step, hj, hs]; rfl
      rw [e]
      exact ⟨by simp, Or.inl (noheld_of_cons (h.stop_noheld hs) rfl)⟩
    · have e : step cfg s (.syncDone (.ok a)) = andThen (resetHeartbeat cfg s) fun s =>
          startConsumers { s with rejoinNeeded := false, jpc := .idle, rejoinD := false } a := by
        simp only [step, hj, hs]; rfl
      rw [e]
      refine ⟨?_, Or.inr rfl⟩
      intro hb
      have hmem : Ob.badOp ∈ (andThen (resetHeartbeat cfg s) fun s =>
          startConsumers { s with rejoinNeeded := false, jpc := .idle, rejoinD := false } a).2 := by rw [hb]; simp
      rw [andThen_snd] at hmem
      rcases List.mem_append.mp hmem with y | y
      · unfold resetHeartbeat hbSchedule at y
        split at y
        · simp only [andThen_snd, addTimer_obs, List.mem_append, List.mem_map, List.mem_singleton] at y
          rcases y with ⟨_, _, y⟩ | y <;> cases y
        · simp only [addTimer_obs, List.mem_singleton] at y; cases y
      · unfold startConsumers at y
        obtain ⟨_, _, y⟩ := List.mem_map.mp y
        cases y

theorem nextAsg_other (asg : List (Nat × Int)) (e : Ev) (obs : List Ob) (sn : Snap) (h : ∀ a, e ≠ .syncDone (.ok a)) :
    nextAsg asg ⟨e, obs, sn⟩ = asg := by
  unfold nextAsg
  cases e with
  | syncDone r => cases r with
    | ok a => exact absurd rfl (h a)
    | err _ => rfl
  | _ => rfl

theorem fenced_step {s' : St} (h' : SInv s') (asg : List (Nat × Int)) (g : NoHeld s' ∨ asg = s'.asg) (e : Ev) (obs : List Ob) :
    fencedStep asg ⟨e, obs, snap s'⟩ = true := by
  unfold fencedStep snap
  simp only [List.all_eq_true, Bool.or_eq_true, Bool.not_eq_eq_eq_not, Bool.not_true, Bool.and_eq_true, beq_iff_eq,
    List.contains_eq_mem, decide_eq_true_eq]
  intro c hc
  by_cases hr : c.phase = .running
  · right
    have hh : c.held = true := (h'.held_running c hc).mpr hr
    obtain ⟨a1, a2, a3⟩ := h'.held_cur c hc hh
    rcases g with g | g
    · rw [g c hc] at hh; cases hh
    · exact ⟨⟨a1, a2⟩, by rw [g]; exact a3⟩
  · left; simp [isRunning, hr]

theorem fenced_runFrom (cfg : Cfg) (evs : List Ev) :
    ∀ s asg, SInv s → (NoHeld s ∨ asg = s.asg) → fencedFrom asg (toMSteps (runFrom cfg s evs)) = true := by
  induction evs with
  | nil => intro s asg _ _; rfl
  | cons e es ih =>
    intro s asg h g
    have h' := step_sinv h cfg e
    simp only [runFrom, toMSteps, List.map_cons, fencedFrom, Bool.and_eq_true]
    have key : NoHeld (step cfg s e).1 ∨ nextAsg asg ⟨e, (step cfg s e).2, snap (step cfg s e).1⟩ = (step cfg s e).1.asg := by
      by_cases hsync : ∃ a, e = .syncDone (.ok a)
      · obtain ⟨a, rfl⟩ := hsync
        rcases syncOk_asg h cfg a with x | ⟨x1, x2⟩
        · rw [x]; simp only [nextAsg, beq_self_eq_true, if_true]; exact g
        · rcases x2 with y | y
          · exact Or.inl y
          · right
            simp only [nextAsg]
            rw [if_neg (by simpa using x1), y]
      · have hns : ∀ a, e ≠ .syncDone (.ok a) := fun a ha => hsync ⟨a, ha⟩
        rw [nextAsg_other asg e _ _ hns]
        rcases g with g | g
        · exact Or.inl (step_noheld cfg s e hns g)
        · exact Or.inr (by rw [step_asg cfg s e hns]; exact g)
    exact ⟨fenced_step h' _ key _ _, ih _ _ h' key⟩

theorem fenced_run (cfg : Cfg) (evs : List Ev) : fenced (toMSteps (run cfg evs)) = true :=
  fenced_runFrom cfg evs init [] sinv_init (Or.inl (by intro c hc; simp [init] at hc))

end Afkak.Group
