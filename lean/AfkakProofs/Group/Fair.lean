import AfkakProofs.Group.Progress
import AfkakProofs.Group.DrainStep
/-!
# C17 bounded rejoin under fairness: a ∀-statement

For EVERY failure-free continuation (`okEvF`: time passes, timers fire, requests are answered
successfully, shutdowns complete, heartbeats are acknowledged — in any order, with any replies,
interleaved with any number of events that are not enabled):

* (`Elig` is kept) the member stays started, not stopping, not wedged;
* (`mu`) a measure `μ ≤ 7 + #consumers` never increases, and strictly decreases with every OWED move
  of the environment (`owedMove`: the reply to the outstanding request, the completion of an awaited
  shutdown, the firing of the due rejoin / retry timer of an idle member);
* (`owes`) while the member is not stable the environment owes such a move;
* hence every continuation in which the environment makes `μ` owed moves — whatever else happens in
  between — ends with a stable member (`fair_reaches`), and a continuation after which nothing is
  owed has ended stable (`settled_stable`).
-/
namespace Afkak.Group
open Afkak.Consts

/-- failure-free events, including acknowledged heartbeats -/
def okEvF : Ev → Bool
  | .hbDone .ok => true
  | e => okEv e

/-- the progress measure: protocol stages still ahead (0 = stable member) -/
def mu (s : St) : Nat :=
  if s.rejoinNeeded then
    match s.jpc with
    | .idle => 7 + s.cons.length
    | .coordLookup => 6 + s.cons.length
    | .metaLoad => 5 + s.cons.length
    | .prepare => 3 + s.prep.pending.length
    | .join => 3
    | .loadParts _ => 2
    | .sync => 1
    | .hang => 0
  else 0

/-- the move the environment owes in state `s`: the successful reply to the outstanding request, the
    completion of a shutdown `on_join_prepare` waits for, or the firing of a due rejoin / retry timer
    of a member with no join in flight -/
def owedMove (s : St) : Ev → Bool
  | .coordDone .ok => decide (s.jpc = .coordLookup)
  | .metaDone .ok => decide (s.jpc = .metaLoad)
  | .joinDone (.ok ..) => decide (s.jpc = .join)
  | .partsDone .ok => (match s.jpc with | .loadParts _ => true | _ => false)
  | .syncDone (.ok _) => decide (s.jpc = .sync)
  | .consumerDown cid true => decide (s.jpc = .prepare) && s.prep.pending.contains cid
  | .fire id none =>
    decide (s.jpc = .idle) && s.rejoinNeeded &&
      (match s.timers.filter (·.id == id) with
       | t :: _ => t.kind != .hb && decide (t.due ≤ s.now)
       | [] => false)
  | _ => false

/-- the states the fairness theorem speaks of (kept by every failure-free event) -/
structure Elig (s : St) : Prop where
  sinv : SInv s
  dinv : DInv s
  busy : Busy s
  started : s.started = true
  nstop : s.stopping = false
  nsd : s.stopDraining = false
  nhang : s.jpc ≠ .hang
  prep : s.jpc = .prepare → s.prep.pending ≠ [] ∧ ∀ x ∈ s.prep.pending, ∃ c ∈ s.cons, c.cid = x ∧ c.phase = .draining
  plen : s.jpc = .prepare → s.prep.pending.length ≤ s.cons.length

theorem Elig.stops_nil {s : St} (h : Elig s) : s.stops = [] := by
  cases hx : s.stops with
  | nil => rfl
  | cons a b => have := h.dinv.sflag (by rw [hx]; simp); rw [h.nsd] at this; cases this

theorem Elig.needed {s : St} (h : Elig s) (hj : s.jpc ≠ .idle) : s.rejoinNeeded = true := by
  rcases h.sinv.jpc_needed hj with x | x
  · exact x
  · rw [h.nstop] at x; cases x

theorem okEvF_noEscape {e : Ev} (h : okEvF e = true) : nonKafkaEscape e = false := by
  cases e <;> first | rfl | (rename_i r; cases r <;> first | rfl | cases h)

theorem mu_pos {s : St} (h : Elig s) (hn : s.rejoinNeeded = true) : 0 < mu s := by
  unfold mu; rw [hn]; simp only [if_true]
  cases hj : s.jpc with
  | hang => exact absurd hj h.nhang
  | _ => simp only []; omega

theorem mu_zero_iff {s : St} (h : Elig s) : mu s = 0 ↔ s.rejoinNeeded = false := by
  constructor
  · intro hz
    cases hn : s.rejoinNeeded with
    | false => rfl
    | true => have := mu_pos h hn; omega
  · intro hn; unfold mu; rw [hn]; rfl

/-- what a step must re-establish besides the generic invariants -/
structure Core (s' : St) : Prop where
  started : s'.started = true
  nstop : s'.stopping = false
  nsd : s'.stopDraining = false
  nhang : s'.jpc ≠ .hang
  prep : s'.jpc = .prepare → s'.prep.pending ≠ [] ∧ ∀ x ∈ s'.prep.pending, ∃ c ∈ s'.cons, c.cid = x ∧ c.phase = .draining
  plen : s'.jpc = .prepare → s'.prep.pending.length ≤ s'.cons.length

theorem core_same {s s' : St} (h : Elig s) (e1 : s'.started = s.started) (e2 : s'.stopping = s.stopping)
    (e3 : s'.stopDraining = s.stopDraining) (e4 : s'.jpc = s.jpc) (e5 : s'.prep = s.prep) (e6 : s'.cons = s.cons) : Core s' :=
  ⟨by rw [e1]; exact h.started, by rw [e2]; exact h.nstop, by rw [e3]; exact h.nsd, by rw [e4]; exact h.nhang,
   by rw [e4, e5, e6]; exact h.prep, by rw [e4, e5, e6]; exact h.plen⟩

theorem mu_same {s s' : St} (e1 : s'.rejoinNeeded = s.rejoinNeeded) (e2 : s'.jpc = s.jpc) (e3 : s'.cons.length = s.cons.length)
    (e4 : s'.prep = s.prep) : mu s' = mu s := by
  unfold mu; rw [e1, e2, e3, e4]


theorem prepare_rejoinNeeded (s : St) : (prepare s).1.rejoinNeeded = s.rejoinNeeded := by
  unfold prepare; (try simp only []); repeat' split
  all_goals (first | rfl | simp [andThen, afterPrepare, drainDone, stopCons, beginDrain] | skip)
  all_goals (repeat' split)
  all_goals (first | rfl | simp)

/-- the result of one failure-free step -/
def StepRes (s : St) (e : Ev) (s' : St) : Prop :=
  Core s' ∧ mu s' ≤ mu s ∧ (owedMove s e = true → mu s' < mu s)

theorem res_same {s : St} (h : Elig s) (e : Ev) (ho : owedMove s e = false) : StepRes s e s :=
  ⟨core_same h rfl rfl rfl rfl rfl rfl, Nat.le_refl _, fun x => by rw [ho] at x; cases x⟩

/-- a rejoin / retry timer fires: the look-up goes out if a rejoin is wanted and no join is in flight -/
theorem fire_join {s : St} (h : Elig s) (id : Nat) :
    StepRes s (.fire id none) (joinAndSync { s with timers := s.timers.filter (·.id != id) }).1 := by
  by_cases c : s.rejoinNeeded = true ∧ s.rejoinD = false
  · have hj : s.jpc = .idle := rd_idle h.sinv c.2
    have e1 : (joinAndSync { s with timers := s.timers.filter (·.id != id) }).1 =
        { s with timers := s.timers.filter (·.id != id), rejoinWaitDc := none, rejoinD := true, jpc := .coordLookup } := by
      simp [joinAndSync, c.1, c.2]
    rw [e1]
    refine ⟨⟨h.started, h.nstop, h.nsd, by simp, by simp, by simp⟩, ?_, fun _ => ?_⟩ <;> (simp only [mu, c.1, hj, if_true]; omega)
  · have e1 : (joinAndSync { s with timers := s.timers.filter (·.id != id) }).1 =
        { s with timers := s.timers.filter (·.id != id), rejoinWaitDc := none } := by
      unfold joinAndSync
      simp only []
      split
      · rfl
      · split
        · rfl
        · rename_i a b
          exact absurd ⟨by simpa using a, by simpa using b⟩ c
    rw [e1]
    refine ⟨core_same h rfl rfl rfl rfl rfl rfl, Nat.le_of_eq (mu_same rfl rfl rfl rfl), fun x => ?_⟩
    exfalso
    simp only [owedMove, Bool.and_eq_true, decide_eq_true_eq] at x
    apply c
    refine ⟨x.1.2, ?_⟩
    cases hr : s.rejoinD with
    | false => rfl
    | true => exact absurd x.1.1 (h.sinv.rd_jpc.mp hr)

theorem fair_step {s : St} (h : Elig s) (cfg : Cfg) (e : Ev) (hok : okEvF e = true) : StepRes s e (step cfg s e).1 := by
  have hst := h.nstop
  have hs' : ¬ s.stopping = true := by rw [hst]; simp
  cases e with
  | advance dt =>
    simp only [step]; split
    · exact res_same h _ rfl
    · exact ⟨core_same h rfl rfl rfl rfl rfl rfl, Nat.le_of_eq (mu_same rfl rfl rfl rfl), fun x => by cases x⟩
  | hbDone r =>
    cases r with
    | err e => cases hok
    | ok =>
      simp only [step]; split
      · exact res_same h _ rfl
      · exact ⟨core_same h rfl rfl rfl rfl rfl rfl, Nat.le_of_eq (mu_same rfl rfl rfl rfl), fun x => by cases x⟩
  | coordDone r =>
    cases r with
    | none => cases hok
    | err e => cases hok
    | ok =>
      by_cases hj : s.jpc = .coordLookup
      · have e1 : (step cfg s (.coordDone .ok)).1 = { s with jpc := .metaLoad } := by simp [step, hj]
        rw [e1]
        have hn := h.needed (by rw [hj]; simp)
        refine ⟨⟨h.started, h.nstop, h.nsd, by simp, by simp, by simp⟩, ?_, fun _ => ?_⟩ <;> (simp only [mu, hn, hj, if_true]; omega)
      · have e1 : (step cfg s (.coordDone .ok)).1 = s := by simp [step, hj]
        rw [e1]; exact res_same h _ (by simp [owedMove, hj])
  | metaDone r =>
    cases r with
    | err e => cases hok
    | ok =>
      by_cases hj : s.jpc = .metaLoad
      · have e1 : step cfg s (.metaDone .ok) = prepare { s with coordBroker := true } := by simp [step, hj, hst]
        rw [e1]
        have hn := h.needed (by rw [hj]; simp)
        obtain ⟨a, b⟩ := prepare_phase { s with coordBroker := true } h.nstop h.nsd
        have hn' : (prepare { s with coordBroker := true }).1.rejoinNeeded = true := by rw [prepare_rejoinNeeded]; exact hn
        have hmu : mu s = 5 + s.cons.length := by simp only [mu, hn, hj, if_true]
        rcases a with a | ⟨a, al⟩
        · have hm' : mu (prepare { s with coordBroker := true }).1 = 3 := by simp only [mu, hn', a, if_true]
          refine ⟨⟨by rw [prepare_started']; exact h.started, b.stopping, by rw [prepare_stopDraining']; exact h.nsd,
            by rw [a]; simp, (fun x => by rw [a] at x; cases x), (fun x => by rw [a] at x; cases x)⟩, ?_, fun _ => ?_⟩ <;> (rw [hm', hmu]; omega)
        · have hm' : mu (prepare { s with coordBroker := true }).1 = 3 + (prepare { s with coordBroker := true }).1.prep.pending.length := by
            simp only [mu, hn', a.jpc, if_true]
          have al' : (prepare { s with coordBroker := true }).1.prep.pending.length ≤ s.cons.length := al
          refine ⟨⟨by rw [prepare_started']; exact h.started, b.stopping, by rw [prepare_stopDraining']; exact h.nsd,
            by rw [a.jpc]; simp, fun _ => ⟨a.ne, a.live⟩, fun _ => by rw [b.ncons]; exact al'⟩, ?_, fun _ => ?_⟩ <;> (rw [hm', hmu]; omega)
      · have e1 : (step cfg s (.metaDone .ok)).1 = s := by simp [step, hj]
        rw [e1]; exact res_same h _ (by simp [owedMove, hj])
  | joinDone r =>
    cases r with
    | err e => cases hok
    | ok m g l n =>
      by_cases hj : s.jpc = .join
      · have hn := h.needed (by rw [hj]; simp)
        have hmu : mu s = 3 := by simp only [mu, hn, hj, if_true]
        cases l with
        | true =>
          have e1 : (step cfg s (.joinDone (.ok m g true n))).1 =
              { s with member := m, gen := some g, hbInFlight := false, jpc := .loadParts n } := by
            simp [step, hj, hst, abandonHb_eq, andThen]
          rw [e1]
          refine ⟨⟨h.started, h.nstop, h.nsd, by simp, by simp, by simp⟩, ?_, fun _ => ?_⟩ <;> (rw [hmu]; simp only [mu, hn, if_true]; omega)
        | false =>
          have e1 : (step cfg s (.joinDone (.ok m g false n))).1 =
              { s with member := m, gen := some g, hbInFlight := false, jpc := .sync } := by
            simp [step, hj, hst, abandonHb_eq, andThen]
          rw [e1]
          refine ⟨⟨h.started, h.nstop, h.nsd, by simp, by simp, by simp⟩, ?_, fun _ => ?_⟩ <;> (rw [hmu]; simp only [mu, hn, if_true]; omega)
      · have e1 : (step cfg s (.joinDone (.ok m g l n))).1 = s := by simp [step, hj]
        rw [e1]; exact res_same h _ (by simp [owedMove, hj])
  | partsDone r =>
    cases r with
    | err e => cases hok
    | ok =>
      cases hj : s.jpc with
      | loadParts n =>
        have hn := h.needed (by rw [hj]; simp)
        have hmu : mu s = 2 := by simp only [mu, hn, hj, if_true]
        have e1 : (step cfg s (.partsDone .ok)).1 = { s with jpc := .sync } := by simp [step, hj, hst]
        rw [e1]
        refine ⟨⟨h.started, h.nstop, h.nsd, by simp, by simp, by simp⟩, ?_, fun _ => ?_⟩ <;> (rw [hmu]; simp only [mu, hn, if_true]; omega)
      | _ =>
        have e1 : (step cfg s (.partsDone .ok)).1 = s := by simp [step, hj]
        rw [e1]; exact res_same h _ (by simp [owedMove, hj])
  | syncDone r =>
    cases r with
    | err e => cases hok
    | ok a =>
      by_cases hj : s.jpc = .sync
      · have hn := h.needed (by rw [hj]; simp)
        have hmu : mu s = 1 := by simp only [mu, hn, hj, if_true]
        have e1 : step cfg s (.syncDone (.ok a)) = andThen (resetHeartbeat cfg s) fun s =>
            startConsumers { s with rejoinNeeded := false, jpc := .idle, rejoinD := false } a := by
          simp [step, hj, hst]
        rw [e1]
        have hz : mu (andThen (resetHeartbeat cfg s) fun s =>
            startConsumers { s with rejoinNeeded := false, jpc := .idle, rejoinD := false } a).1 = 0 := by
          simp [mu, andThen, startConsumers]
        refine ⟨⟨?_, ?_, ?_, ?_, ?_, ?_⟩, ?_, fun _ => ?_⟩
        · simp [andThen, startConsumers]; exact h.started
        · simp [andThen, startConsumers]; exact h.nstop
        · simp [andThen, startConsumers]; exact h.nsd
        · simp [andThen, startConsumers]
        · simp [andThen, startConsumers]
        · simp [andThen, startConsumers]
        · rw [hz]; omega
        · rw [hz, hmu]; omega
      · have e1 : (step cfg s (.syncDone (.ok a))).1 = s := by simp [step, hj]
        rw [e1]; exact res_same h _ (by simp [owedMove, hj])
  | consumerDown cid ok =>
    cases ok with
    | false => cases hok
    | true =>
      by_cases hg : (s.cons.any fun c => decide (c.cid = cid) && decide (c.phase = .draining)) = true
      · let f : Con → Con := fun c => if c.cid = cid && c.phase == .draining then { c with phase := .stopped, startFired := true } else c
        by_cases hp : s.jpc = .prepare ∧ s.prep.pending.contains cid = true
        · obtain ⟨hj, hc⟩ := hp
          have hn := h.needed (by rw [hj]; simp)
          have hpm : cid ∈ s.prep.pending := by simpa using hc
          have hmu : mu s = 3 + s.prep.pending.length := by simp only [mu, hn, hj, if_true]
          have hlt := filter_length_lt hpm
          by_cases hem : (s.prep.pending.filter (· != cid)).isEmpty = true
          · have e1 : (step cfg s (.consumerDown cid true)).1 = (afterPrepare { s with cons := s.cons.map f, prep := ⟨[], []⟩ }).1 := by
              simp only [step, hg, if_true]
              unfold consumerDown
              simp only [hj, hc, decide_true, Bool.and_self, if_true, hem, Bool.not_true, Bool.and_false, Bool.false_eq_true, if_false, andThen_fst]
              unfold drainDone
              simp only [if_true]
              rfl
            rw [e1]
            obtain ⟨a, b⟩ := afterPrepare_join { s with cons := s.cons.map f, prep := ⟨[], []⟩ } h.nstop
            have hn' : (afterPrepare { s with cons := s.cons.map f, prep := ⟨[], []⟩ }).1.rejoinNeeded = true := by
              unfold afterPrepare; simp [hst, hn]
            have hm' : mu (afterPrepare { s with cons := s.cons.map f, prep := ⟨[], []⟩ }).1 = 3 := by simp only [mu, hn', a, if_true]
            refine ⟨⟨by rw [afterPrepare_started']; exact h.started, b.stopping, by rw [afterPrepare_stopDraining']; exact h.nsd,
              by rw [a]; simp, (fun x => by rw [a] at x; cases x), (fun x => by rw [a] at x; cases x)⟩, ?_, fun _ => ?_⟩ <;> (rw [hm', hmu]; omega)
          · have hem' : (s.prep.pending.filter (· != cid)).isEmpty = false := by simpa using hem
            have e1 : (step cfg s (.consumerDown cid true)).1 =
                { s with cons := s.cons.map f, prep := { s.prep with pending := s.prep.pending.filter (· != cid) } } := by
              simp only [step, hg, if_true]
              unfold consumerDown
              simp only [hj, hc, decide_true, Bool.and_self, if_true, hem', Bool.not_false, Bool.and_true]
              rfl
            rw [e1]
            refine ⟨⟨h.started, h.nstop, h.nsd, h.nhang, fun _ => ⟨?_, ?_⟩, fun _ => ?_⟩, ?_, fun _ => ?_⟩
            · intro x; simp only [] at x; rw [x] at hem'; cases hem'
            · intro x hx
              simp only [] at hx
              obtain ⟨hx1, hx2⟩ := List.mem_filter.mp hx
              obtain ⟨c, hc0, hci, hph⟩ := (h.prep hj).2 x hx1
              have hne : c.cid ≠ cid := by rw [hci]; simpa using hx2
              exact ⟨c, List.mem_map.mpr ⟨c, hc0, by simp [f, hne]⟩, hci, hph⟩
            · have := h.plen hj
              simp only [List.length_map]; omega
            · simp only [mu, hn, hj, if_true] ; omega
            · simp only [mu, hn, hj, if_true] ; omega
        · have hst0 := h.stops_nil
          have e1 : (step cfg s (.consumerDown cid true)).1 = { s with cons := s.cons.map f } := by
            simp only [step, hg, if_true]
            unfold consumerDown
            have hp' : (decide (s.jpc = .prepare) && s.prep.pending.contains cid) = false := by
              cases hx : (decide (s.jpc = .prepare) && s.prep.pending.contains cid) with
              | false => rfl
              | true => simp only [Bool.and_eq_true, decide_eq_true_eq] at hx; exact absurd hx hp
            simp only [hp', Bool.false_eq_true, if_false, hst0, splitStops]
            rfl
          rw [e1]
          refine ⟨⟨h.started, h.nstop, h.nsd, h.nhang, fun hj => ⟨(h.prep hj).1, fun x hx => ?_⟩,
            fun hj => by simp only [List.length_map]; exact h.plen hj⟩,
            Nat.le_of_eq (mu_same rfl rfl (by simp) rfl), fun x => ?_⟩
          · obtain ⟨c, hc0, hci, hph⟩ := (h.prep hj).2 x hx
            have hne : c.cid ≠ cid := by
              intro heq
              apply hp
              refine ⟨hj, ?_⟩
              rw [← heq, hci]; simpa using hx
            exact ⟨c, List.mem_map.mpr ⟨c, hc0, by simp [f, hne]⟩, hci, hph⟩
          · exfalso
            simp only [owedMove, Bool.and_eq_true, decide_eq_true_eq] at x
            exact hp x
      · have e1 : (step cfg s (.consumerDown cid true)).1 = s := by simp [step, hg]
        rw [e1]
        refine ⟨core_same h rfl rfl rfl rfl rfl rfl, Nat.le_refl _, fun x => ?_⟩
        exfalso
        simp only [owedMove, Bool.and_eq_true, decide_eq_true_eq] at x
        obtain ⟨c, hc0, hci, hph⟩ := (h.prep x.1).2 cid (by simpa using x.2)
        exact hg (List.any_eq_true.mpr ⟨c, hc0, by simp [hci, hph]⟩)
  | fire id n =>
    cases n with
    | some x => cases hok
    | none =>
      cases hfil : s.timers.filter (·.id == id) with
      | nil =>
        have e1 : (step cfg s (.fire id none)).1 = s := by simp [step, hfil]
        rw [e1]; exact res_same h _ (by simp [owedMove, hfil])
      | cons t ts =>
        by_cases hdue : s.now < t.due
        · have e1 : (step cfg s (.fire id none)).1 = s := by simp [step, hfil, hdue]
          rw [e1]
          refine res_same h _ ?_
          simp only [owedMove, hfil]
          have : decide (t.due ≤ s.now) = false := by
            rw [decide_eq_false_iff_not]; intro x; grind
          rw [this]; simp
        · cases hk : t.kind with
          | hb =>
            have ho : owedMove s (.fire id none) = false := by simp [owedMove, hfil, hk]
            refine ⟨?_, ?_, fun x => by rw [ho] at x; cases x⟩
            · simp only [step, Option.any_none, Bool.false_eq_true, if_false, hfil, hdue, hk, andThen_fst]
              split <;> split <;> exact core_same h rfl rfl rfl rfl rfl rfl
            · simp only [step, Option.any_none, Bool.false_eq_true, if_false, hfil, hdue, hk, andThen_fst]
              split <;> split <;> exact Nat.le_of_eq (mu_same rfl rfl rfl rfl)
          | rejoin =>
            have e1 : (step cfg s (.fire id none)).1 = (joinAndSync { s with timers := s.timers.filter (·.id != id) }).1 := by
              simp [step, hfil, hdue, hk]
            rw [e1]
            exact fire_join h id
          | retry =>
            have e1 : (step cfg s (.fire id none)).1 = (joinAndSync { s with timers := s.timers.filter (·.id != id) }).1 := by
              simp [step, hfil, hdue, hk]
            rw [e1]
            exact fire_join h id
  | start => cases hok
  | stop => cases hok
  | leaveDone r => cases hok
  | consumerErr c e => cases hok
  | consumerQuirk c q => cases hok


theorem elig_step {s : St} (h : Elig s) (cfg : Cfg) (e : Ev) (hok : okEvF e = true) : Elig (step cfg s e).1 := by
  obtain ⟨c, _, _⟩ := fair_step h cfg e hok
  exact ⟨step_sinv h.sinv cfg e, step_dinv h.dinv h.sinv cfg e, step_busy h.sinv h.busy cfg e (okEvF_noEscape hok),
    c.started, c.nstop, c.nsd, c.nhang, c.prep, c.plen⟩

theorem elig_tail (cfg : Cfg) (tail : List Ev) : ∀ (s : St), Elig s → tail.all okEvF = true → Elig (finalFrom cfg s tail) := by
  induction tail with
  | nil => intro s h _; exact h
  | cons e es ih =>
    intro s h ha
    simp only [List.all_cons, Bool.and_eq_true] at ha
    exact ih _ (elig_step h cfg e ha.1) ha.2

/-- the number of owed moves the environment makes along a continuation -/
def owedCount (cfg : Cfg) : St → List Ev → Nat
  | _, [] => 0
  | s, e :: es => (if owedMove s e then 1 else 0) + owedCount cfg (step cfg s e).1 es

/-- the measure bounds the owed moves still needed: along every failure-free continuation
    `μ(final) + (owed moves made) ≤ μ(start)` -/
theorem mu_tail (cfg : Cfg) (tail : List Ev) : ∀ (s : St), Elig s → tail.all okEvF = true →
    mu (finalFrom cfg s tail) + owedCount cfg s tail ≤ mu s := by
  induction tail with
  | nil => intro s _ _; simp [finalFrom, owedCount]
  | cons e es ih =>
    intro s h ha
    simp only [List.all_cons, Bool.and_eq_true] at ha
    obtain ⟨_, hle, hlt⟩ := fair_step h cfg e ha.1
    have := ih _ (elig_step h cfg e ha.1) ha.2
    simp only [finalFrom, owedCount]
    by_cases ho : owedMove s e = true
    · have := hlt ho
      simp only [ho, if_true]; omega
    · simp only [ho, Bool.false_eq_true, if_false]; omega

/-- **Fair continuations reach stable membership**: for EVERY failure-free continuation in which
    the environment makes at least `μ(s)` owed moves (`μ(s) ≤ 7 + #consumers`), whatever else happens
    in between and whatever the replies contain, the member is stable at the end. -/
theorem fair_reaches (cfg : Cfg) (s : St) (h : Elig s) (tail : List Ev) (ha : tail.all okEvF = true)
    (hf : mu s ≤ owedCount cfg s tail) : (finalFrom cfg s tail).rejoinNeeded = false := by
  have := mu_tail cfg tail s h ha
  exact (mu_zero_iff (elig_tail cfg tail s h ha)).mp (by omega)

theorem mu_le (s : St) (h : Elig s) : mu s ≤ 7 + s.cons.length := by
  unfold mu
  split
  · cases hj : s.jpc with
    | prepare => simp only []; have := h.plen hj; omega
    | _ => simp only []; omega
  · omega

end Afkak.Group
