import AfkakProofs.Group.JoinIds
/-!
# C16: SyncGroup requests quote the ids of the last successful join reply too

Independent audit round 2 (C16-3): `startsWithJoinIds` threads the (member id, generation) of the last
processed successful join reply to every `consumerStart`, but nothing compares the ids quoted by a
SyncGroup request.  `startsWithJoinIdsFrom2` is that monitor EXTENDED with
`| .sync g mem _ => ids' == some (mem, g.getD 0) && g.isSome`, proved of every model run here.

NOT YET the monitor the driver evaluates: replacing `Afkak.Monitor.C16.startsWithJoinIdsFrom` by this
definition (and `startsWithJoinIds_runFrom` in `JoinIds.lean` by the proof below, which is its superset)
rebuilds every file that imports `Afkak.Monitor.C16` and the driver, and a monitor change wants clean-tree
runs with seeds 0–7; left for the next session.  Meanwhile on the code a stale pair in a SyncGroup request
shows in the observation-by-observation comparison with the model (`sync <gen> <member> <n>`).
-/
namespace Afkak.Group
open Afkak.Consts Afkak.Monitor.C16

def startsWithJoinIdsFrom2 (ids : Option (Nat × Int)) : List MStep → Bool
  | [] => true
  | m :: ms =>
    let ids' := match m.ev with
      | .joinDone (.ok mem g _ _) => if m.obs == [.badOp] then ids else some (mem, g)
      | _ => ids
    (m.obs.all fun
      | .consumerStart _ _ _ g mem _ => ids' == some (mem, g.getD 0) && g.isSome
      | .sync g mem _ => ids' == some (mem, g.getD 0) && g.isSome
      | _ => true) && startsWithJoinIdsFrom2 ids' ms

/-- a SyncGroup request is sent only by a processed successful join reply (a follower: with the reply's
    ids) or by the leader's partitions reply (with the ids the member has before that step) -/
theorem sync_obs_ids (cfg : Cfg) (s : St) (e : Ev) (g : Option Int) (mem n : Nat)
    (ho : Ob.sync g mem n ∈ (step cfg s e).2) :
    (∃ m0 g0 n0, e = .joinDone (.ok m0 g0 false n0) ∧ s.jpc = .join ∧ g = some g0 ∧ mem = m0) ∨
    (e = .partsDone .ok ∧ (∃ k, s.jpc = .loadParts k) ∧ s.stopping = false ∧ g = s.gen ∧ mem = s.member) := by
  have hsig := mem_sig ho (not_bg_of_sync (o := .sync g mem n) rfl)
  rw [step_sig] at hsig
  cases e with
  | start =>
    simp only [expectedSig] at hsig
    split at hsig
    · cases hsig
    · unfold lookupSig at hsig; split at hsig
      · simp at hsig
      · cases hsig
  | stop => simp [expectedSig] at hsig
  | coordDone r =>
    cases r <;> simp only [expectedSig] at hsig
    · split at hsig
      · cases hsig
      · simp at hsig
    · cases hsig
    · cases hsig
  | metaDone r =>
    cases r with
    | err e => simp [expectedSig] at hsig
    | ok =>
      simp only [expectedSig] at hsig
      repeat' split at hsig
      all_goals first
        | (have hx := List.mem_singleton.mp hsig; cases hx)
        | cases hsig
  | joinDone r =>
    cases r with
    | err e => simp [expectedSig] at hsig
    | ok m0 g0 leader n0 =>
      simp only [expectedSig] at hsig
      split at hsig
      · cases hsig
      · rename_i hj
        split at hsig
        · cases hsig
        · cases leader with
          | true => simp at hsig
          | false =>
            simp only [Bool.false_eq_true, if_false, List.mem_singleton] at hsig
            injection hsig with h1 h2 h3
            exact Or.inl ⟨m0, g0, n0, rfl, by simpa using hj, h1, h2⟩
  | partsDone r =>
    cases r with
    | err e => simp [expectedSig] at hsig
    | ok =>
      simp only [expectedSig] at hsig
      split at hsig
      · rename_i k hj
        split at hsig
        · cases hsig
        · rename_i hst
          simp only [List.mem_singleton] at hsig
          injection hsig with h1 h2 h3
          exact Or.inr ⟨rfl, ⟨k, hj⟩, by simpa using hst, h1, h2⟩
      · cases hsig
  | syncDone r =>
    cases r with
    | err e => simp [expectedSig] at hsig
    | ok asg =>
      simp only [expectedSig] at hsig
      repeat' split at hsig
      all_goals first
        | (unfold startObs at hsig
           simp only [List.mem_map] at hsig
           obtain ⟨x, _, hx⟩ := hsig
           cases hx)
        | cases hsig
  | hbDone r => simp [expectedSig] at hsig
  | leaveDone r => simp [expectedSig] at hsig
  | consumerDown cid ok =>
    simp only [expectedSig] at hsig
    repeat' split at hsig
    all_goals first
      | (have hx := List.mem_singleton.mp hsig; cases hx)
      | cases hsig
  | consumerErr cid e => simp [expectedSig] at hsig
  | consumerQuirk cid q => simp [expectedSig] at hsig
  | fire id hbNext =>
    simp only [expectedSig] at hsig
    repeat' split at hsig
    all_goals first
      | (have hx := List.mem_singleton.mp hsig; cases hx)
      | (unfold lookupSig at hsig; split at hsig <;> simp at hsig)
      | cases hsig
  | advance dt => simp [expectedSig] at hsig

theorem startsWithJoinIdsFrom2_cons (ids : Option (Nat × Int)) (m : MStep) (ms : List MStep) :
    startsWithJoinIdsFrom2 ids (m :: ms) =
      ((m.obs.all fun
        | .consumerStart _ _ _ g mem _ => ids'f ids m.ev m.obs == some (mem, g.getD 0) && g.isSome
        | .sync g mem _ => ids'f ids m.ev m.obs == some (mem, g.getD 0) && g.isSome
        | _ => true) && startsWithJoinIdsFrom2 (ids'f ids m.ev m.obs) ms) := by
  cases m with
  | mk ev obs sn =>
    cases ev <;> (try rfl)
    all_goals (rename_i r; cases r <;> rfl)

theorem startsWithJoinIds2_runFrom (cfg : Cfg) (evs : List Ev) :
    ∀ (s : St) (ids : Option (Nat × Int)), SInv s → DInv s → MInv s → Gh ids s →
      startsWithJoinIdsFrom2 ids (toMSteps (runFrom cfg s evs)) = true := by
  induction evs with
  | nil => intro s ids _ _ _ _; rfl
  | cons e es ih =>
    intro s ids h hd hm hg
    simp only [runFrom, toMSteps, List.map_cons]
    rw [startsWithJoinIdsFrom2_cons, Bool.and_eq_true]
    simp only []
    constructor
    · rw [List.all_eq_true]
      intro o ho
      cases o with
      | consumerStart cid t p g mem off =>
        obtain ⟨⟨a, rfl⟩, hj, hst, rfl, rfl⟩ := start_obs_ids cfg s e cid t p g mem off ho
        obtain ⟨g0, hg0, hid⟩ := hg hst (Or.inr hj)
        simp only [ids'f, hid, hg0, Option.getD_some, beq_self_eq_true, Option.isSome_some, Bool.and_self]
      | sync g mem n =>
        rcases sync_obs_ids cfg s e g mem n ho with ⟨m0, g0, n0, rfl, hj, rfl, rfl⟩ | ⟨rfl, ⟨k, hj⟩, hst, rfl, rfl⟩
        · have hnb : ((step cfg s (.joinDone (.ok mem g0 false n0))).2 == [.badOp]) = false := by
            have := joinOk_ne_bad cfg s mem g0 false n0 (by simp [hj])
            simpa using this
          simp only [ids'f, hnb, Bool.false_eq_true, if_false, Option.getD_some, beq_self_eq_true, Option.isSome_some, Bool.and_self]
        · obtain ⟨g0, hg0, hid⟩ := hg hst (Or.inl ⟨k, hj⟩)
          simp only [ids'f, hid, hg0, Option.getD_some, beq_self_eq_true, Option.isSome_some, Bool.and_self]
      | _ => rfl
    · refine ih _ _ (step_sinv h cfg e) (step_dinv hd h cfg e) (step_minv h hd hm cfg e) ?_
      intro hns hsy
      rcases ((step_xfer h hd hm cfg e hns (midSync_all hsy)).2 hsy).2 with ⟨m, g, l, n, rfl, hnb, hme, hge⟩ | ⟨hnj, hns0, hsy0, hme, hge⟩
      · refine ⟨g, hge, ?_⟩
        have hb : ((step cfg s (.joinDone (.ok m g l n))).2 == [.badOp]) = false := by simpa using hnb
        simp only [ids'f, hb, Bool.false_eq_true, if_false, hme]
      · obtain ⟨g0, hg0, hid⟩ := hg hns0 hsy0
        refine ⟨g0, by rw [hge]; exact hg0, ?_⟩
        rw [hme]
        cases e with
        | joinDone r =>
          cases r with
          | ok m g l n =>
            have := hnj m g l n rfl
            simp only [ids'f, this, beq_self_eq_true, if_true]; exact hid
          | err e1 => exact hid
        | _ => exact hid
/-- **every SyncGroup request (and every consumer start) quotes the ids of the last successful join reply**, on every run -/
theorem startsWithJoinIds2_run (cfg : Cfg) (evs : List Ev) : startsWithJoinIdsFrom2 none (toMSteps (run cfg evs)) = true :=
  startsWithJoinIds2_runFrom cfg evs init none sinv_init dinv_init minv_init
    (fun _ h => (not_midAll_idle (midSync_all h)).elim)

end Afkak.Group
