import AfkakProofs.Group.FencedTrace
import Afkak.Consumer
/-!
# Composition: the group's fencing and the partition consumer's commit requests

The `Consumer` object of partition consumer `c` is constructed by `on_join_complete` with
`commit_consumer_id = self.member_id`, `commit_generation_id = self.generation_id`; `consumer.py`
assigns these two attributes only in `__init__` and `_send_commit_request` passes them to
`send_offset_commit_request` (all three facts are checked on the source by `harness/consts/group.py`,
constant `groupCommitIdentityFixed`).  So every commit request that the consumer model
(`Afkak.Consumer`, whose `Ob.commitReq` carries request number and offset) emits goes on the wire
tagged with the identity recorded in the group model's `Con` record.

Proved here, over ALL group event lists and ALL consumer runs:
* the identity of a `Con` record never changes and is the one of its `consumerStart` observation;
* hence every wire commit of a consumer the group created carries the (generation, member) it was
  started with, and while the consumer is running that pair is the member's CURRENT pair and the
  partition is currently assigned (`C16_fenced`).
-/
namespace Afkak.Group
open Afkak.Consts

/-- what identifies a partition consumer and fences its commits -/
def ident (c : Con) : Nat × Nat × Int × Option Int × Nat := (c.cid, c.topic, c.part, c.gen, c.member)

/-- every consumer record after the helper is a record from before with the same identity -/
def IK (s : St) (o : Out) : Prop := ∀ c' ∈ o.1.cons, ∃ c ∈ s.cons, ident c = ident c'

theorem IK_frame {s : St} {o : Out} (h : o.1.cons = s.cons) : IK s o := fun c' hc' => ⟨c', by rw [← h]; exact hc', rfl⟩
theorem IK_map {s : St} {o : Out} (f : Con → Con) (h : o.1.cons = s.cons.map f) (hf : ∀ c, ident (f c) = ident c) : IK s o := by
  intro c' hc'
  rw [h] at hc'
  obtain ⟨c, hc, rfl⟩ := List.mem_map.mp hc'
  exact ⟨c, hc, (hf c).symm⟩
theorem IK_andThen {s : St} {o : Out} {f : St → Out} (h1 : IK s o) (h2 : ∀ s1, IK s1 (f s1)) : IK s (andThen o f) := by
  intro c' hc'
  obtain ⟨c1, hc1, e1⟩ := h2 o.1 c' hc'
  obtain ⟨c, hc, e⟩ := h1 c1 hc1
  exact ⟨c, hc, e.trans e1⟩
theorem IK_of_cons {s s1 : St} {o : Out} (h : s1.cons = s.cons) (hk : IK s1 o) : IK s o := by
  intro c' hc'; obtain ⟨c, hc, e⟩ := hk c' hc'; exact ⟨c, by rw [← h]; exact hc, e⟩

theorem stopCons_ik (s : St) (cids : List Nat) : IK s (stopCons s cids) := by
  refine IK_map _ rfl (fun c => ?_)
  split <;> rfl
theorem stopConsumers_ik (s : St) : IK s (stopConsumers s) := stopCons_ik _ _
theorem beginDrain_ik (s : St) : IK s ((beginDrain s).1, (beginDrain s).2.1) := by
  refine IK_map _ rfl (fun c => ?_)
  split
  · split <;> rfl
  · rfl

theorem rowEffects_ik (s : St) (row : RejoinRow) : IK s (rowEffects s row) := by
  unfold rowEffects
  refine IK_andThen (IK_andThen ?_ (fun _ => IK_frame rfl)) (fun _ => IK_frame ?_)
  · split
    · exact stopConsumers_ik s
    · exact IK_frame rfl
  · simp only []; split <;> rfl

theorem rejoinWith_ik (cfg : Cfg) (s : St) (row : RejoinRow) : IK s (rejoinWith cfg s row).1 := by
  unfold rejoinWith
  split
  · exact IK_frame rfl
  · exact stopConsumers_ik s
  · exact rowEffects_ik s row
  · exact IK_andThen (rowEffects_ik s row) (fun _ => IK_frame (scheduleRejoin_cons' _ _ _))

theorem rejoinCore_ik (cfg : Cfg) (s : St) (e : GErr) : IK s (rejoinCore cfg s e).1 := rejoinWith_ik _ _ _

theorem escapeCore_ik (cfg : Cfg) (s : St) (e : GErr) : IK s (escapeCore cfg s e).1 := by
  unfold escapeCore
  simp only []
  split
  · exact IK_of_cons rfl (rejoinCore_ik cfg { s with jpc := .idle, rejoinD := false } e)
  · exact IK_frame rfl

theorem cancelJoin_ik (cfg : Cfg) (s : St) : IK s (cancelJoin cfg s) := by
  unfold cancelJoin
  split
  · simp only []
    split
    · exact IK_frame rfl
    · refine IK_andThen (IK_frame rfl) (fun s1 => ?_)
      split
      · exact escapeCore_ik _ _ _
      · exact IK_frame rfl
      · exact IK_frame rfl
    · exact IK_frame rfl
    · exact IK_andThen (IK_of_cons rfl (stopCons_ik _ _)) (fun _ => IK_frame rfl)
    · exact IK_frame rfl
    · exact IK_andThen (IK_frame rfl) (fun _ => rejoinCore_ik _ _ _)
    · exact IK_andThen (IK_frame rfl) (fun _ => escapeCore_ik _ _ _)
    · exact IK_andThen (IK_frame rfl) (fun _ => rejoinCore_ik _ _ _)
  · exact IK_frame rfl

theorem finishStop_ik (cfg : Cfg) (s : St) (err : Option GErr) (user : Bool) : IK s (finishStop cfg s err user) := by
  unfold finishStop
  exact IK_andThen (cancelJoin_ik _ _) (fun _ => IK_frame rfl)

theorem stopCancelHb_ik (cfg : Cfg) (s : St) : IK s (stopCancelHb cfg s) := by
  unfold stopCancelHb
  split
  · simp only []
    split
    · exact IK_andThen (IK_andThen (IK_frame rfl) (fun _ => IK_frame rfl)) (fun _ => rejoinCore_ik _ _ _)
    · exact IK_frame rfl
  · exact IK_frame rfl

theorem leaveOrFinish_ik (cfg : Cfg) (err : Option GErr) (user : Bool) (s : St) : IK s (leaveOrFinish cfg err user s) := by
  unfold leaveOrFinish
  split
  · exact IK_frame rfl
  · exact finishStop_ik _ _ _ _

theorem coordStop_ik (cfg : Cfg) (s : St) (err : Option GErr) (user : Bool) : IK s (coordStop cfg s err user) := by
  unfold coordStop
  split
  · exact IK_frame rfl
  · simp only []
    split
    · exact IK_frame rfl
    · exact IK_andThen (IK_andThen (IK_andThen (IK_frame (by rw [stopCancelDc_cons'])) (fun _ => stopCancelHb_ik _ _))
        (fun _ => IK_frame (stopLooper_cons' _))) (fun _ => leaveOrFinish_ik _ _ _ _)

theorem drainDone_ik (s : St) (d : Drain) (ok : Bool) : IK s (drainDone s d ok) := by
  unfold drainDone
  split
  · exact IK_frame rfl
  · exact stopCons_ik _ _

theorem stopLoop_ik (cfg : Cfg) (s : St) (err : Option GErr) (user : Bool) : IK s (stopLoop cfg s err user) := by
  unfold stopLoop
  split
  · exact coordStop_ik _ _ _ _
  · simp only []
    split
    · exact IK_andThen (IK_andThen (beginDrain_ik s) (fun _ => drainDone_ik _ _ _)) (fun _ => coordStop_ik _ _ _ _)
    · exact IK_of_cons rfl (IK_andThen (beginDrain_ik s) (fun _ => IK_frame (o := (_, [])) rfl)) |> fun h => by
        intro c' hc'; exact h c' hc'

theorem stopCall_ik (cfg : Cfg) (s : St) (err : Option GErr) (user : Bool) : IK s (stopCall cfg s err user) := by
  unfold stopCall
  refine IK_of_cons ?_ (stopLoop_ik cfg _ err user)
  split <;> rfl

theorem userStop_ik (cfg : Cfg) (s : St) : IK s (userStop cfg s) := by
  rcases userStop_cases cfg s with ⟨hu, _, _⟩ | hu <;> rw [hu]
  · exact IK_frame rfl
  · exact stopCall_ik _ _ _ _

theorem rejoinAfterError_ik (cfg : Cfg) (s : St) (e : GErr) : IK s (rejoinAfterError cfg s e) := by
  unfold rejoinAfterError
  simp only []
  split
  · exact IK_andThen (rejoinCore_ik _ _ _) (fun _ => stopCall_ik _ _ _ _)
  · exact rejoinCore_ik _ _ _

theorem escape_ik (cfg : Cfg) (s : St) (e : GErr) : IK s (escape cfg s e) := by
  unfold escape
  simp only []
  split
  · exact IK_andThen (escapeCore_ik _ _ _) (fun _ => stopCall_ik _ _ _ _)
  · exact escapeCore_ik _ _ _

theorem prepare_ik (s : St) : IK s (prepare s) := by
  unfold prepare
  split
  · exact IK_frame rfl
  · split
    · exact IK_frame (afterPrepare_cons' _)
    · simp only []
      split
      · exact IK_andThen (IK_andThen (beginDrain_ik s) (fun _ => drainDone_ik _ _ _)) (fun _ => IK_frame (afterPrepare_cons' _))
      · exact fun c' hc' => beginDrain_ik s c' hc'

theorem IK_trans {s s0 : St} {o : Out} (h0 : ∀ c' ∈ s0.cons, ∃ c ∈ s.cons, ident c = ident c') (h1 : IK s0 o) : IK s o := by
  intro c' hc'
  obtain ⟨c1, hc1, e1⟩ := h1 c' hc'
  obtain ⟨c, hc, e⟩ := h0 c1 hc1
  exact ⟨c, hc, e.trans e1⟩

theorem consumerDown_ik (cfg : Cfg) (s : St) (cid : Nat) (ok : Bool) : IK s (consumerDown cfg s cid ok) := by
  have h0 : ∀ c' ∈ (s.cons.map fun (c : Con) => if c.cid = cid && c.phase == .draining then { c with phase := .stopped, startFired := true } else c),
      ∃ c ∈ s.cons, ident c = ident c' := by
    intro c' hc'
    obtain ⟨c, hc, rfl⟩ := List.mem_map.mp hc'
    refine ⟨c, hc, ?_⟩
    split <;> rfl
  unfold consumerDown
  simp only []
  split
  · split
    · exact fun c' hc' => h0 c' hc'
    · exact IK_trans (s0 := { s with cons := s.cons.map fun (c : Con) => if c.cid = cid && c.phase == .draining then { c with phase := .stopped, startFired := true } else c }) h0
        (IK_andThen (IK_of_cons rfl (drainDone_ik _ _ _)) (fun _ => IK_frame (afterPrepare_cons' _)))
  · split
    · exact fun c' hc' => h0 c' hc'
    · split
      · exact fun c' hc' => h0 c' hc'
      · exact IK_trans (s0 := { s with cons := s.cons.map fun (c : Con) => if c.cid = cid && c.phase == .draining then { c with phase := .stopped, startFired := true } else c }) h0
          (IK_andThen (IK_of_cons rfl (drainDone_ik _ _ _)) (fun _ => stopLoop_ik _ _ _ _))

/-- a step keeps every consumer record's identity; a new record is the one of a `consumerStart`
    observation of that step -/
theorem step_ident (cfg : Cfg) (s : St) (e : Ev) : ∀ c' ∈ (step cfg s e).1.cons,
    (∃ c ∈ s.cons, ident c = ident c') ∨
    (∃ off, Ob.consumerStart c'.cid c'.topic c'.part c'.gen c'.member off ∈ (step cfg s e).2) := by
  have old : ∀ {s1 : St} {o : Out}, IK s1 o → s1.cons = s.cons → ∀ c' ∈ o.1.cons,
      (∃ c ∈ s.cons, ident c = ident c') ∨ (∃ off, Ob.consumerStart c'.cid c'.topic c'.part c'.gen c'.member off ∈ o.2) :=
    fun hk he c' hc' => Or.inl (IK_of_cons he hk c' hc')
  have same : ∀ (obs : List Ob), ∀ c' ∈ s.cons,
      (∃ c ∈ s.cons, ident c = ident c') ∨ (∃ off, Ob.consumerStart c'.cid c'.topic c'.part c'.gen c'.member off ∈ obs) :=
    fun _ c' hc' => Or.inl ⟨c', hc', rfl⟩
  cases e with
  | start =>
    simp only [step]; split
    · exact same _
    · exact old (IK_frame (joinAndSync_cons' _)) rfl
  | stop => exact old (userStop_ik cfg s) rfl
  | coordDone r =>
    simp only [step]; split
    · exact same _
    · cases r with
      | ok => exact same _
      | none => exact same _
      | err e =>
        simp only []
        split
        · exact old (escape_ik cfg s e) rfl
        · exact same _
        · exact same _
  | metaDone r =>
    simp only [step]; split
    · exact same _
    · cases r with
      | err e => exact old (escape_ik cfg s e) rfl
      | ok =>
        simp only []
        split
        · exact same _
        · exact old (prepare_ik { s with coordBroker := true }) rfl
  | joinDone r =>
    simp only [step]; split
    · exact same _
    · cases r with
      | err e => exact old (IK_andThen (rejoinAfterError_ik cfg { s with jpc := .idle } e) (fun _ => IK_frame rfl)) rfl
      | ok m g l n =>
        simp only [abandonHb_eq, andThen_fst, andThen_snd]
        split
        · exact same _
        · split <;> exact same _
  | partsDone r =>
    simp only [step]; split
    · cases r with
      | err e => exact old (escape_ik cfg s e) rfl
      | ok => simp only []; split <;> exact same _
    · exact same _
  | syncDone r =>
    simp only [step]; split
    · exact same _
    · cases r with
      | err e => exact old (IK_andThen (rejoinAfterError_ik cfg { s with jpc := .idle } e) (fun _ => IK_frame rfl)) rfl
      | ok a =>
        simp only []
        split
        · exact same _
        · intro c' hc'
          simp only [andThen_fst, andThen_snd] at hc' ⊢
          unfold startConsumers at hc' ⊢
          simp only [resetHeartbeat_cons'] at hc' ⊢
          rcases List.mem_append.mp hc' with x | x
          · exact Or.inl ⟨c', x, rfl⟩
          · right
            refine ⟨groupConsumerStartOffset, List.mem_append_right _ ?_⟩
            exact List.mem_map.mpr ⟨c', x, rfl⟩
  | hbDone r =>
    simp only [step]; split
    · exact same _
    · cases r with
      | ok => exact same _
      | err e =>
        simp only []
        split
        · exact old (IK_andThen (IK_frame (s := { s with hbInFlight := false }) rfl) (fun _ => rejoinAfterError_ik _ _ _)) rfl
        · exact same _
  | leaveDone r =>
    simp only [step]; split
    · exact same _
    · cases r with
      | ok => exact old (finishStop_ik cfg { s with member := 0, gen := none } _ _) rfl
      | err e => exact old (finishStop_ik cfg s _ _) rfl
  | consumerDown cid ok =>
    simp only [step]; split
    · exact old (consumerDown_ik cfg s cid ok) rfl
    · exact same _
  | consumerErr cid e =>
    simp only [step]; split
    · have h0 : IK s ({ s with cons := s.cons.map fun c => if c.cid = cid then { c with startFired := true } else c }, []) := by
        refine IK_map _ rfl (fun c => ?_); split <;> rfl
      split
      · exact fun c' hc' => Or.inl (h0 c' hc')
      · exact fun c' hc' => Or.inl (IK_trans (fun c1 hc1 => h0 c1 hc1) (rejoinAfterError_ik cfg _ e) c' hc')
    · exact same _
  | consumerQuirk cid q =>
    simp only [step]; split
    · have h0 : IK s ({ s with cons := s.cons.map fun c => if c.cid = cid && c.phase == .running then { c with quirk := q } else c }, []) := by
        refine IK_map _ rfl (fun c => ?_); split <;> rfl
      exact fun c' hc' => Or.inl (h0 c' hc')
    · exact same _
  | fire id hbNext =>
    simp only [step]
    split
    · exact same _
    split
    · exact same _
    · split
      · exact same _
      · split
        · exact old (IK_frame (joinAndSync_cons' _)) rfl
        · exact old (IK_frame (joinAndSync_cons' _)) rfl
        · simp only [andThen_fst]
          split <;> split <;> exact same _
  | advance dt => simp only [step]; split <;> exact same _

/-- all observations of a run, in order -/
def allObs (tr : List (Ev × List Ob × St)) : List Ob := tr.flatMap fun x => x.2.1

theorem ident_runFrom (cfg : Cfg) (evs : List Ev) : ∀ (s : St), ∀ c' ∈ (finalFrom cfg s evs).cons,
    (∃ c ∈ s.cons, ident c = ident c') ∨
    (∃ off, Ob.consumerStart c'.cid c'.topic c'.part c'.gen c'.member off ∈ allObs (runFrom cfg s evs)) := by
  induction evs with
  | nil => intro s c' hc'; exact Or.inl ⟨c', hc', rfl⟩
  | cons e es ih =>
    intro s c' hc'
    simp only [finalFrom] at hc'
    simp only [runFrom, allObs, List.flatMap_cons]
    rcases ih _ c' hc' with ⟨c1, hc1, e1⟩ | ⟨off, ho⟩
    · rcases step_ident cfg s e c1 hc1 with ⟨c, hc, e0⟩ | ⟨off, ho⟩
      · exact Or.inl ⟨c, hc, e0.trans e1⟩
      · right
        refine ⟨off, List.mem_append_left _ ?_⟩
        simp only [ident, Prod.mk.injEq] at e1
        obtain ⟨a, b, c, d, f⟩ := e1
        rw [← a, ← b, ← c, ← d, ← f]; exact ho
    · exact Or.inr ⟨off, List.mem_append_right _ ho⟩

/-- **Identity is fixed at the start**: every partition consumer the group holds a record of was
    started by a `consumerStart` observation carrying exactly the record's topic, partition,
    generation and member id — no step ever rewrites them. -/
theorem ident_from_start (cfg : Cfg) (evs : List Ev) : ∀ c ∈ (final cfg evs).cons,
    ∃ off, Ob.consumerStart c.cid c.topic c.part c.gen c.member off ∈ allObs (run cfg evs) := by
  intro c hc
  rcases ident_runFrom cfg evs init c hc with ⟨c0, hc0, _⟩ | h
  · simp [init] at hc0
  · exact h

/-! ## the consumer's commit requests on the wire -/

/-- an OffsetCommit request as `send_offset_commit_request(group, [(topic, partition, offset)],
    group_generation_id, consumer_id)` puts it on the wire -/
structure WireCommit where
  gen : Option Int
  member : Nat
  topic : Nat
  part : Int
  off : Int
  deriving DecidableEq, Repr

/-- the wire commits of the `Consumer` object that the group created as record `c`, given the
    chronological trace of that consumer: each `commitReq` observation of the consumer model is sent
    with the object's construction-time `commit_generation_id` / `commit_consumer_id` (= the
    record's; source facts checked by the extractor, constant `groupCommitIdentityFixed`) -/
def wireCommits (c : Con) (tr : List Afkak.Consumer.Item) : List WireCommit :=
  tr.filterMap fun
    | .ob (.commitReq _ off) => some ⟨c.gen, c.member, c.topic, c.part, off⟩
    | _ => none

/-- **Composition of C16 with the consumer package**: take ANY group history `evs`, any consumer
    record `c` the group holds after it, and ANY run of the consumer model (any configuration,
    processor script and event list) as the behaviour of that consumer.  Every commit request it
    emits carries the (generation, member id) and partition the consumer was STARTED with (there is
    a `consumerStart` observation in the group's trace with exactly these); and whenever the
    consumer is still running, that pair is the member's CURRENT generation and member id and the
    partition is in the current assignment — a commit by a running consumer is never fenced off, and
    a consumer of an old generation can only commit with the old generation (which the broker
    rejects). -/
theorem commit_fencing (cfg : Cfg) (evs : List Ev) (c : Con) (hc : c ∈ (final cfg evs).cons)
    (ccfg : Afkak.Consumer.Cfg) (script : List Afkak.Consumer.PEntry) (cevs : List Afkak.Consumer.Ev) :
    ∀ w ∈ wireCommits c (Afkak.Consumer.trace ccfg script cevs),
      (∃ off, Ob.consumerStart c.cid w.topic w.part w.gen w.member off ∈ allObs (run cfg evs)) ∧
      (c.phase = .running →
        w.gen = (final cfg evs).gen ∧ w.member = (final cfg evs).member ∧ (w.topic, w.part) ∈ (final cfg evs).asg) := by
  intro w hw
  unfold wireCommits at hw
  obtain ⟨it, _, hit⟩ := List.mem_filterMap.mp hw
  have hwe : w = ⟨c.gen, c.member, c.topic, c.part, w.off⟩ := by
    split at hit
    · injection hit with hit; rw [← hit]
    · cases hit
  rw [hwe]
  refine ⟨ident_from_start cfg evs c hc, fun hr => ?_⟩
  have h := final_sinv cfg evs
  have hh : c.held = true := (h.held_running c hc).mpr hr
  exact h.held_cur c hc hh

end Afkak.Group
