import AfkakProofs.Group.FencedTrace
import Afkak.Consumer
/-!
# Composition: the group's fencing and the partition consumer's commit requests

The `Consumer` object of partition consumer `c` is constructed by `on_join_complete` with
`commit_consumer_id = self.member_id`, `commit_generation_id = self.generation_id`; `consumer.py`
assigns these two attributes only in `__init__` and `_send_commit_request` passes them to
`send_offset_commit_request` (all three facts are checked on the source by `harness/consts/group.py`,
constant `groupCommitIdentityFixed`).  So every commit request that the consumer model
(`Afkak.Consumer`, whose `Ob.commitReq` carries request number and offset) emits goes on the wire
tagged with the identity recorded in the group model's `Con` record.

Proved here, over ALL group event lists and ALL consumer runs:
* the identity of a `Con` record never changes and is the one of its `consumerStart` observation;
* hence every wire commit of a consumer the group created carries the (generation, member) it was
  started with, and while the consumer is running that pair is the member's CURRENT pair and the
  partition is currently assigned (`C16_fenced`).
-/
namespace Afkak.Group
open Afkak.Consts

/-- what identifies a partition consumer and fences its commits -/
def ident (c : Con) : Nat × Nat × Int × Option Int × Nat := (c.cid, c.topic, c.part, c.gen, c.member)

/-- every consumer record after the helper is a record from before with the same identity -/
def IK (s : St) (o : Out) : Prop := ∀ c' ∈ o.1.cons, ∃ c ∈ s.cons, ident c = ident c'

theorem IK_frame {s : St} {o : Out} (h : o.1.cons = s.cons) : IK s o := fun c' hc' => ⟨c', by rw [← h]; exact hc', rfl⟩
theorem IK_map {s : St} {o : Out} (f : Con → Con) (h : o.1.cons = s.cons.map f) (hf : ∀ c, ident (f c) = ident c) : IK s o := by
  intro c' hc'
  rw [h] at hc'
  obtain ⟨c, hc, rfl⟩ := List.mem_map.mp hc'
  exact ⟨c, hc, (hf c).symm⟩
theorem IK_andThen {s : St} {o : Out} {f : St → Out} (h1 : IK s o) (h2 : ∀ s1, IK s1 (f s1)) : IK s (andThen o f) := by
  intro c' hc'
  obtain ⟨c1, hc1, e1⟩ := h2 o.1 c' hc'
  obtain ⟨c, hc, e⟩ := h1 c1 hc1
  exact ⟨c, hc, e.trans e1⟩
theorem IK_of_cons {s s1 : St} {o : Out} (h : s1.cons = s.cons) (hk : IK s1 o) : IK s o := by
  intro c' hc'; obtain ⟨c, hc, e⟩ := hk c' hc'; exact ⟨c, by rw [← h]; exact hc, e⟩

theorem stopCons_ik (s : St) (cids : List Nat) : IK s (stopCons s cids) := by
  refine IK_map _ rfl (fun c => ?_)
  simp only []; split <;> rfl
theorem stopConsumers_ik (s : St) : IK s (stopConsumers s) := stopCons_ik _ _
theorem beginDrain_ik (s : St) : IK s ((beginDrain s).1, (beginDrain s).2.1) := by
  refine IK_map _ rfl (fun c => ?_)
  simp only []; split
  · split <;> rfl
  · rfl

theorem rowEffects_ik (s : St) (row : RejoinRow) : IK s (rowEffects s row) := by
  unfold rowEffects
  refine IK_andThen (IK_andThen ?_ (fun _ => IK_frame rfl)) (fun _ => IK_frame ?_)
  · split
    · exact stopConsumers_ik s
    · exact IK_frame rfl
  · simp only []; split <;> rfl

theorem rejoinWith_ik (cfg : Cfg) (s : St) (row : RejoinRow) : IK s (rejoinWith cfg s row).1 := by
  unfold rejoinWith
  split
  · exact IK_frame rfl
  · exact stopConsumers_ik s
  · exact rowEffects_ik s row
  · exact IK_andThen (rowEffects_ik s row) (fun _ => IK_frame (scheduleRejoin_cons' _ _ _))

theorem rejoinCore_ik (cfg : Cfg) (s : St) (e : GErr) : IK s (rejoinCore cfg s e).1 := rejoinWith_ik _ _ _

theorem escapeCore_ik (cfg : Cfg) (s : St) (e : GErr) : IK s (escapeCore cfg s e).1 := by
  unfold escapeCore
  simp only []
  split
  · exact IK_of_cons rfl (rejoinCore_ik cfg { s with jpc := .idle, rejoinD := false } e)
  · exact IK_frame rfl

theorem cancelJoin_ik (cfg : Cfg) (s : St) : IK s (cancelJoin cfg s) := by
  unfold cancelJoin
  split
  · simp only []
    split
    · exact IK_frame rfl
    · refine IK_andThen (IK_frame rfl) (fun s1 => ?_)
      split
      · exact escapeCore_ik _ _ _
      · exact IK_frame rfl
      · exact IK_frame rfl
    · exact IK_frame rfl
    · exact IK_andThen (IK_of_cons rfl (stopCons_ik _ _)) (fun _ => IK_frame rfl)
    · exact IK_frame rfl
    · exact IK_andThen (IK_frame rfl) (fun _ => rejoinCore_ik _ _ _)
    · exact IK_andThen (IK_frame rfl) (fun _ => escapeCore_ik _ _ _)
    · exact IK_andThen (IK_frame rfl) (fun _ => rejoinCore_ik _ _ _)
  · exact IK_frame rfl

theorem finishStop_ik (cfg : Cfg) (s : St) (err : Option GErr) (user : Bool) : IK s (finishStop cfg s err user) := by
  unfold finishStop
  exact IK_andThen (cancelJoin_ik _ _) (fun _ => IK_frame rfl)

theorem stopCancelHb_ik (cfg : Cfg) (s : St) : IK s (stopCancelHb cfg s) := by
  unfold stopCancelHb
  split
  · simp only []
    split
    · exact IK_andThen (IK_andThen (IK_frame rfl) (fun _ => IK_frame rfl)) (fun _ => rejoinCore_ik _ _ _)
    · exact IK_frame rfl
  · exact IK_frame rfl

theorem leaveOrFinish_ik (cfg : Cfg) (err : Option GErr) (user : Bool) (s : St) : IK s (leaveOrFinish cfg err user s) := by
  unfold leaveOrFinish
  split
  · exact IK_frame rfl
  · exact finishStop_ik _ _ _ _

theorem coordStop_ik (cfg : Cfg) (s : St) (err : Option GErr) (user : Bool) : IK s (coordStop cfg s err user) := by
  unfold coordStop
  split
  · exact IK_frame rfl
  · simp only []
    split
    · exact IK_frame rfl
    · exact IK_andThen (IK_andThen (IK_andThen (IK_frame (by rw [stopCancelDc_cons'])) (fun _ => stopCancelHb_ik _ _))
        (fun _ => IK_frame (stopLooper_cons' _))) (fun _ => leaveOrFinish_ik _ _ _ _)

theorem drainDone_ik (s : St) (d : Drain) (ok : Bool) : IK s (drainDone s d ok) := by
  unfold drainDone
  split
  · exact IK_frame rfl
  · exact stopCons_ik _ _

theorem stopLoop_ik (cfg : Cfg) (s : St) (err : Option GErr) (user : Bool) : IK s (stopLoop cfg s err user) := by
  unfold stopLoop
  split
  · exact coordStop_ik _ _ _ _
  · simp only []
    split
    · exact IK_andThen (IK_andThen (beginDrain_ik s) (fun _ => drainDone_ik _ _ _)) (fun _ => coordStop_ik _ _ _ _)
    · exact IK_of_cons rfl (IK_andThen (beginDrain_ik s) (fun _ => IK_frame (o := (_, [])) rfl)) |> fun h => by
        intro c' hc'; exact h c' hc'

theorem stopCall_ik (cfg : Cfg) (s : St) (err : Option GErr) (user : Bool) : IK s (stopCall cfg s err user) := by
  unfold stopCall
  refine IK_of_cons ?_ (stopLoop_ik cfg _ err user)
  split <;> rfl

theorem rejoinAfterError_ik (cfg : Cfg) (s : St) (e : GErr) : IK s (rejoinAfterError cfg s e) := by
  unfold rejoinAfterError
  simp only []
  split
  · exact IK_andThen (rejoinCore_ik _ _ _) (fun _ => stopCall_ik _ _ _ _)
  · exact rejoinCore_ik _ _ _

theorem escape_ik (cfg : Cfg) (s : St) (e : GErr) : IK s (escape cfg s e) := by
  unfold escape
  simp only []
  split
  · exact IK_andThen (escapeCore_ik _ _ _) (fun _ => stopCall_ik _ _ _ _)
  · exact escapeCore_ik _ _ _

theorem prepare_ik (s : St) : IK s (prepare s) := by
  unfold prepare
  split
  · exact IK_frame rfl
  · split
    · exact IK_frame (afterPrepare_cons' _)
    · simp only []
      split
      · exact IK_andThen (IK_andThen (beginDrain_ik s) (fun _ => drainDone_ik _ _ _)) (fun _ => IK_frame (afterPrepare_cons' _))
      · exact fun c' hc' => beginDrain_ik s c' hc'

theorem consumerDown_ik (cfg : Cfg) (s : St) (cid : Nat) (ok : Bool) : IK s (consumerDown cfg s cid ok) := by
  have h0 : IK s ({ s with cons := s.cons.map fun (c : Con) => if c.cid = cid && c.phase == .draining then { c with phase := .stopped, startFired := true } else c }, []) := by
    refine IK_map _ rfl (fun c => ?_)
    simp only []; split <;> rfl
  unfold consumerDown
  simp only []
  split
  · split
    · exact fun c' hc' => h0 c' hc'
    · refine fun c' hc' => ?_
      have := IK_andThen (IK_andThen h0 (fun s1 => drainDone_ik { s1 with prep := ⟨[], []⟩ } _ ok)) (fun _ => IK_frame (afterPrepare_cons' _))
      exact this c' (by simpa [andThen] using hc')
  · split
    · exact fun c' hc' => h0 c' hc'
    · split
      · exact fun c' hc' => h0 c' hc'
      · refine fun c' hc' => ?_
        rename_i a co b _ _
        have := IK_andThen (IK_andThen h0 (fun s1 => drainDone_ik { s1 with stops := a ++ b } _ ok)) (fun s1 => stopLoop_ik cfg s1 co.err co.user)
        exact this c' (by simpa [andThen] using hc')

end Afkak.Group
