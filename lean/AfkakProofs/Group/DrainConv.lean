import AfkakProofs.Group.DrainStep
/-!
# The converse drain invariant

`DInv` (Drain.lean) says that every draining consumer is awaited by a drain.  `CInv` is the converse:
every shutdown Deferred that a drain (the `on_join_prepare` of the join coroutine, or a
`ConsumerGroup.stop` coroutine) still awaits belongs to a consumer that is still draining, and a
waiting drain awaits at least one.  To keep that true when ONE drain fails or is cancelled (its whole
batch is stopped) the batches of the drains must be pairwise disjoint, and no batch may contain the
cid of a consumer the group holds (a new drain takes exactly the held consumers).

This file: the definitions, the consumer-side relation `CKeep` between the states before and after a
helper, and the generic transfer lemma.  `DrainConvStep.lean`: preservation by every step.
-/
namespace Afkak.Group
open Afkak.Consts

/-- a consumer with cid `x` is draining -/
def Dr (s : St) (x : Nat) : Prop := ∃ c ∈ s.cons, c.cid = x ∧ c.phase = .draining
/-- no consumer with cid `x` is held by the group -/
def NH (s : St) (x : Nat) : Prop := ∀ c ∈ s.cons, c.cid = x → c.held = false

/-- the part of the converse drain invariant that holds at every helper boundary -/
structure CInv0 (s : St) : Prop where
  pne   : s.jpc = .prepare → s.prep.pending ≠ []
  pdr   : s.jpc = .prepare → ∀ x ∈ s.prep.pending, ∃ c ∈ s.cons, c.cid = x ∧ c.phase = .draining
  sne   : ∀ co ∈ s.stops, co.drain.pending ≠ []
  sdr   : ∀ co ∈ s.stops, ∀ x ∈ co.drain.pending, ∃ c ∈ s.cons, c.cid = x ∧ c.phase = .draining
  hangf : s.jpc = .hang → s.stopDraining = true
  clt   : ∀ c ∈ s.cons, c.cid < s.nextCid
  pblt  : s.jpc = .prepare → ∀ x ∈ s.prep.batch, x < s.nextCid
  sblt  : ∀ co ∈ s.stops, ∀ x ∈ co.drain.batch, x < s.nextCid
  pbnh  : s.jpc = .prepare → ∀ x ∈ s.prep.batch, ∀ c ∈ s.cons, c.cid = x → c.held = false
  sbnh  : ∀ co ∈ s.stops, ∀ x ∈ co.drain.batch, ∀ c ∈ s.cons, c.cid = x → c.held = false
  pdisj : s.jpc = .prepare → ∀ co ∈ s.stops, ∀ x ∈ s.prep.batch, x ∉ co.drain.batch
  sdisj : (s.stops.map (·.drain.batch)).Pairwise (fun a b => ∀ x ∈ a, x ∉ b)
  psub  : s.jpc = .prepare → ∀ x ∈ s.prep.pending, x ∈ s.prep.batch
  ssub  : ∀ co ∈ s.stops, ∀ x ∈ co.drain.pending, x ∈ co.drain.batch
  plen  : s.jpc = .prepare → s.prep.pending.length ≤ s.cons.length

/-- a `stop()` that has set `_stop_draining` and has not reached `Coordinator.stop` is waiting for a drain -/
def SD (s : St) : Prop := s.stopping = false → s.stopDraining = true → s.stops ≠ []

/-- the converse drain invariant (step boundaries) -/
structure CInv (s : St) : Prop extends CInv0 s where
  sdstop : s.stopping = false → s.stopDraining = true → s.stops ≠ []

theorem cinv_init : CInv init := by
  constructor
  · constructor <;> simp [init]
  · simp [init]

/-! ## the consumer side of a helper -/

/-- What a helper that creates no consumer does to the consumers: a draining consumer whose cid no
    held consumer shares stays draining unless its cid is in the excepted set `E`; cids no held
    consumer has stay so; cids and the cid counter are unchanged. -/
structure CKeep (E : Nat → Prop) (s s' : St) : Prop where
  dr : ∀ x, ¬ E x → NH s x → Dr s x → Dr s' x
  nh : ∀ x, NH s x → NH s' x
  lt : ∀ n, (∀ c ∈ s.cons, c.cid < n) → ∀ c ∈ s'.cons, c.cid < n
  nc : s'.nextCid = s.nextCid
  len : s.cons.length ≤ s'.cons.length

abbrev NoE : Nat → Prop := fun _ => False

theorem CKeep.rfl' (E : Nat → Prop) (s : St) : CKeep E s s := ⟨fun _ _ _ h => h, fun _ h => h, fun _ h => h, rfl, Nat.le_refl _⟩

theorem CKeep.of_cons {E : Nat → Prop} {s s' : St} (e : s'.cons = s.cons) (n : s'.nextCid = s.nextCid) : CKeep E s s' := by
  refine ⟨?_, ?_, ?_, n, by rw [e]; exact Nat.le_refl _⟩
  · intro x _ _ h; unfold Dr at h ⊢; rw [e]; exact h
  · intro x h; unfold NH at h ⊢; rw [e]; exact h
  · intro n h; rw [e]; exact h

theorem CKeep.trans {E : Nat → Prop} {a b c : St} (h1 : CKeep E a b) (h2 : CKeep E b c) : CKeep E a c :=
  ⟨fun x hx hn hd => h2.dr x hx (h1.nh x hn) (h1.dr x hx hn hd), fun x hn => h2.nh x (h1.nh x hn),
   fun n h => h2.lt n (h1.lt n h), by rw [h2.nc, h1.nc], Nat.le_trans h1.len h2.len⟩

theorem CKeep.mono {E E' : Nat → Prop} {s s' : St} (h : CKeep E s s') (he : ∀ x, E x → E' x) : CKeep E' s s' :=
  ⟨fun x hx => h.dr x (fun y => hx (he x y)), h.nh, h.lt, h.nc, h.len⟩

/-- a helper that maps the consumers -/
theorem keep_map {E : Nat → Prop} {s s' : St} (f : Con → Con) (e : s'.cons = s.cons.map f) (n : s'.nextCid = s.nextCid)
    (hcid : ∀ c, (f c).cid = c.cid) (hheld : ∀ c, (f c).held = true → c.held = true)
    (hdr : ∀ c ∈ s.cons, c.phase = .draining → ¬ E c.cid → NH s c.cid → (f c).phase = .draining) : CKeep E s s' := by
  refine ⟨?_, ?_, ?_, n, by rw [e, List.length_map]; exact Nat.le_refl _⟩
  · intro x hx hn ⟨c, hc, ec, pc⟩
    refine ⟨f c, by rw [e]; exact List.mem_map.mpr ⟨c, hc, rfl⟩, by rw [hcid, ec], ?_⟩
    exact hdr c hc pc (by rw [ec]; exact hx) (by rw [ec]; exact hn)
  · intro x hn c' hc' ec'
    rw [e] at hc'
    obtain ⟨c, hc, rfl⟩ := List.mem_map.mp hc'
    rw [hcid] at ec'
    have := hn c hc ec'
    cases hh : (f c).held with
    | false => rfl
    | true => rw [hheld c hh] at this; cases this
  · intro m h c' hc'
    rw [e] at hc'
    obtain ⟨c, hc, rfl⟩ := List.mem_map.mp hc'
    rw [hcid]; exact h c hc

theorem stopCons_keep (s : St) (cids : List Nat) : CKeep (fun x => x ∈ cids) s (stopCons s cids).1 := by
  refine keep_map (fun c => if (cids.contains c.cid && c.phase != .stopped) = true then { c with phase := .stopped, held := false, startFired := true } else c)
    rfl rfl ?_ ?_ ?_
  · intro c; split <;> rfl
  · intro c; split
    · intro h; cases h
    · exact fun h => h
  · intro c _ hp hx _
    simp [hx, hp]

theorem mem_heldCids {s : St} {x : Nat} : x ∈ heldCids s ↔ ∃ c ∈ s.cons, c.held = true ∧ c.cid = x := by
  simp [heldCids, and_assoc]

theorem stopConsumers_keep (s : St) : CKeep NoE s (stopConsumers s).1 := by
  refine keep_map (fun c => if ((heldCids s).contains c.cid && c.phase != .stopped) = true then { c with phase := .stopped, held := false, startFired := true } else c)
    rfl rfl ?_ ?_ ?_
  · intro c; split <;> rfl
  · intro c; split
    · intro h; cases h
    · exact fun h => h
  · intro c _ hp _ hn
    have : c.cid ∉ heldCids s := by
      rw [mem_heldCids]
      rintro ⟨c', hc', hh, ec⟩
      rw [hn c' hc' ec] at hh; cases hh
    simp [this, hp]

theorem beginDrain_keep (s : St) : CKeep NoE s (beginDrain s).1 := by
  refine keep_map (fun c => if c.held then
        (if c.quirk = .shutdownRaises then { c with phase := .stopped, held := false, startFired := true }
         else { c with phase := .draining, held := false })
      else c) rfl rfl ?_ ?_ ?_
  · intro c; split
    · split <;> rfl
    · rfl
  · intro c; split
    · split <;> (intro h; cases h)
    · exact fun h => h
  · intro c hc hp _ hn
    rw [hn c hc rfl]
    simpa using hp

theorem beginDrain_batch (s : St) : (beginDrain s).2.2.batch = heldCids s := rfl

theorem nh_not_held {s : St} {x : Nat} (h : NH s x) : x ∉ heldCids s := by
  rw [mem_heldCids]
  rintro ⟨c, hc, hh, ec⟩
  rw [h c hc ec] at hh; cases hh

/-- a drain that ends at once (any outcome) keeps every draining consumer that was not held -/
theorem drainNow_keep (s : St) (ok : Bool) : CKeep NoE s (drainDone (beginDrain s).1 (beginDrain s).2.2 ok).1 := by
  unfold drainDone
  split
  · exact beginDrain_keep s
  · have k1 := beginDrain_keep s
    have k2 := stopCons_keep (beginDrain s).1 (beginDrain s).2.2.batch
    exact ⟨fun x _ hn hd => k2.dr x (nh_not_held hn) (k1.nh x hn) (k1.dr x id hn hd), fun x hn => k2.nh x (k1.nh x hn),
      fun n h => k2.lt n (k1.lt n h), by rw [k2.nc, k1.nc], Nat.le_trans k1.len k2.len⟩

theorem beginDrain_plen (s : St) : (beginDrain s).2.2.pending.length ≤ (beginDrain s).1.cons.length := by
  simp only [beginDrain, List.length_map]
  exact Nat.le_trans (List.length_filter_le _ _) (List.length_filter_le _ _)

/-- the consumers whose shutdown Deferred a new drain collects are draining -/
theorem beginDrain_pending_dr (s : St) : ∀ x ∈ (beginDrain s).2.2.pending, Dr (beginDrain s).1 x := by
  unfold beginDrain Dr
  simp only []
  intro x hx
  obtain ⟨c, hc, rfl⟩ := List.mem_map.mp hx
  obtain ⟨hc1, hq⟩ := List.mem_filter.mp hc
  obtain ⟨hc2, hh⟩ := List.mem_filter.mp hc1
  refine ⟨_, List.mem_map.mpr ⟨c, hc2, rfl⟩, ?_, ?_⟩
  · simp only [hh, if_true]; split <;> rfl
  · have : c.quirk ≠ .shutdownRaises := by simpa using hq
    simp [hh, this]

/-! ## the generic transfer lemmas -/

theorem CInv0.transfer {E : Nat → Prop} {s s' : St} (h : CInv0 s) (k : CKeep E s s')
    (e1 : s'.stops = s.stops) (e2 : s.stopDraining = true → s'.stopDraining = true)
    (e4 : s'.jpc = .prepare → s.jpc = .prepare ∧ s'.prep = s.prep)
    (e6 : s'.jpc = .hang → s.jpc = .hang)
    (hE1 : s'.jpc = .prepare → ∀ x ∈ s.prep.pending, ¬ E x)
    (hE2 : ∀ co ∈ s.stops, ∀ x ∈ co.drain.pending, ¬ E x) : CInv0 s' := by
  constructor
  · intro j; obtain ⟨j0, ep⟩ := e4 j; rw [ep]; exact h.pne j0
  · intro j x hx; obtain ⟨j0, ep⟩ := e4 j; rw [ep] at hx
    exact k.dr x (hE1 j x hx) (h.pbnh j0 x (h.psub j0 x hx)) (h.pdr j0 x hx)
  · rw [e1]; exact h.sne
  · rw [e1]; intro co hco x hx
    exact k.dr x (hE2 co hco x hx) (h.sbnh co hco x (h.ssub co hco x hx)) (h.sdr co hco x hx)
  · intro j; exact e2 (h.hangf (e6 j))
  · rw [k.nc]; exact k.lt _ h.clt
  · intro j; obtain ⟨j0, ep⟩ := e4 j; rw [ep, k.nc]; exact h.pblt j0
  · rw [e1, k.nc]; exact h.sblt
  · intro j x hx; obtain ⟨j0, ep⟩ := e4 j; rw [ep] at hx; exact k.nh x (h.pbnh j0 x hx)
  · rw [e1]; intro co hco x hx; exact k.nh x (h.sbnh co hco x hx)
  · intro j; obtain ⟨j0, ep⟩ := e4 j; rw [ep, e1]; exact h.pdisj j0
  · rw [e1]; exact h.sdisj
  · intro j; obtain ⟨j0, ep⟩ := e4 j; rw [ep]; exact h.psub j0
  · rw [e1]; exact h.ssub
  · intro j; obtain ⟨j0, ep⟩ := e4 j; rw [ep]; exact Nat.le_trans (h.plen j0) k.len

/-- fields that `CInv0` does not look at -/
theorem cinv0_irrelevant {s s' : St} (h : CInv0 s) (e0 : s'.cons = s.cons) (e1 : s'.stops = s.stops)
    (e2 : s'.stopDraining = s.stopDraining) (e4 : s'.jpc = s.jpc) (e5 : s'.prep = s.prep) (e6 : s'.nextCid = s.nextCid) : CInv0 s' :=
  h.transfer (E := NoE) (CKeep.of_cons e0 e6) e1 (fun x => by rw [e2]; exact x) (fun j => ⟨by rw [← e4]; exact j, e5⟩)
    (fun j => by rw [← e4]; exact j) (fun _ _ _ => id) (fun _ _ _ _ => id)

/-- moving to a coroutine position that is not the prepare drain (from any position) -/
theorem cinv0_move {s s' : St} (h : CInv0 s) (hj' : s'.jpc ≠ .prepare) (e0 : s'.cons = s.cons) (e1 : s'.stops = s.stops)
    (e2 : s'.jpc = .hang → s'.stopDraining = true) (e6 : s'.nextCid = s.nextCid) : CInv0 s' := by
  have k : CKeep NoE s s' := CKeep.of_cons e0 e6
  constructor
  · intro j; exact absurd j hj'
  · intro j; exact absurd j hj'
  · rw [e1]; exact h.sne
  · rw [e1]; intro co hco x hx
    exact k.dr x id (h.sbnh co hco x (h.ssub co hco x hx)) (h.sdr co hco x hx)
  · exact e2
  · rw [k.nc]; exact k.lt _ h.clt
  · intro j; exact absurd j hj'
  · rw [e1, k.nc]; exact h.sblt
  · intro j; exact absurd j hj'
  · rw [e1]; intro co hco x hx; exact k.nh x (h.sbnh co hco x hx)
  · intro j; exact absurd j hj'
  · rw [e1]; exact h.sdisj
  · intro j; exact absurd j hj'
  · rw [e1]; exact h.ssub
  · intro j; exact absurd j hj'

theorem SD.transfer {s s' : St} (h : SD s) (e1 : s'.stops = s.stops) (e2 : s'.stopDraining = true → s.stopDraining = true)
    (e3 : s.stopping = true → s'.stopping = true) : SD s' := by
  intro a b
  rw [e1]
  refine h ?_ (e2 b)
  cases hs : s.stopping with
  | false => rfl
  | true => rw [e3 hs] at a; cases a

/-! ## `rejoin_after_error`'s table effects -/

theorem rowEffects_keep (s : St) (row : RejoinRow) : CKeep NoE s (rowEffects s row).1 := by
  unfold rowEffects
  cases row.leave <;> cases row.clearMember <;> simp only [andThen_fst, if_true, Bool.false_eq_true, if_false]
  · exact CKeep.rfl' _ s
  · exact CKeep.of_cons rfl rfl
  · exact stopConsumers_keep s
  · exact (stopConsumers_keep s).trans (CKeep.of_cons rfl rfl)

theorem rejoinWith_keep (cfg : Cfg) (s : St) (row : RejoinRow) : CKeep NoE s (rejoinWith cfg s row).1.1 := by
  unfold rejoinWith
  cases row.act <;> simp only [andThen_fst]
  · exact (rowEffects_keep s row).trans (CKeep.of_cons (by simp) (by simp))
  · exact rowEffects_keep s row
  · exact CKeep.rfl' _ s
  · exact stopConsumers_keep s

theorem rejoinWith_cinv0 {s : St} (h : CInv0 s) (cfg : Cfg) (row : RejoinRow) : CInv0 (rejoinWith cfg s row).1.1 := by
  have c := rejoinWith_ctl cfg s row
  exact h.transfer (rejoinWith_keep cfg s row) c.stops (fun x => by simpa using x) (fun j => ⟨by rw [← c.jpc]; exact j, c.prep⟩)
    (fun j => by rw [← c.jpc]; exact j) (fun _ _ _ => id) (fun _ _ _ _ => id)

theorem rejoinCore_keep (cfg : Cfg) (s : St) (e : GErr) : CKeep NoE s (rejoinCore cfg s e).1.1 := rejoinWith_keep _ _ _
theorem rejoinCore_cinv0 {s : St} (h : CInv0 s) (cfg : Cfg) (e : GErr) : CInv0 (rejoinCore cfg s e).1.1 := rejoinWith_cinv0 h cfg _

theorem rejoinWith_sdp {s : St} (h : SD s) (cfg : Cfg) (row : RejoinRow) : SD (rejoinWith cfg s row).1.1 := by
  have c := rejoinWith_ctl cfg s row
  exact h.transfer c.stops (fun x => by simpa using x) (fun x => by rw [c.stopping]; exact x)

theorem rejoinCore_sdp {s : St} (h : SD s) (cfg : Cfg) (e : GErr) : SD (rejoinCore cfg s e).1.1 := rejoinWith_sdp h cfg _

theorem escapeCore_keep (cfg : Cfg) (s : St) (e : GErr) : CKeep NoE s (escapeCore cfg s e).1.1 := by
  unfold escapeCore
  simp only []
  split
  · exact (CKeep.of_cons (s := s) (s' := { s with jpc := .idle, rejoinD := false }) rfl rfl).trans (rejoinCore_keep cfg _ e)
  · exact CKeep.of_cons rfl rfl

theorem escapeCore_cinv0 {s : St} (h : CInv0 s) (cfg : Cfg) (e : GErr) : CInv0 (escapeCore cfg s e).1.1 := by
  unfold escapeCore
  simp only []
  have h0 : CInv0 { s with jpc := .idle, rejoinD := false } := cinv0_move h (by simp) rfl rfl (by simp) rfl
  split
  · exact rejoinCore_cinv0 h0 cfg e
  · exact h0

theorem escapeCore_sdp {s : St} (h : SD s) (cfg : Cfg) (e : GErr) : SD (escapeCore cfg s e).1.1 := by
  unfold escapeCore
  simp only []
  have h0 : SD { s with jpc := .idle, rejoinD := false } := h
  split
  · exact rejoinCore_sdp h0 cfg e
  · exact h0

/-! ## `Coordinator.stop` -/

theorem cancelJoin_jpc (cfg : Cfg) (s : St) (hr : s.rejoinD = true) : (cancelJoin cfg s).1.jpc = .idle := by
  unfold cancelJoin
  simp only [hr, if_true]
  cases hjp : s.jpc <;> simp only [andThen_fst]
  · split
    · exact escapeCore_jpc _ _ _
    · rfl
    · rfl
  · simp
  · exact escapeCore_jpc _ _ _
  · simp

/-- cancelling the join coroutine stops the batch of its prepare drain and nothing else -/
theorem cancelJoin_keep' (cfg : Cfg) (s : St) (E : Nat → Prop) (hE : ∀ x, s.jpc = .prepare → x ∈ s.prep.batch → E x) :
    CKeep E s (cancelJoin cfg s).1 := by
  unfold cancelJoin
  by_cases hr : s.rejoinD = true
  · simp only [hr, if_true]
    have k0 : ∀ j, CKeep E s { s with rejoinD := false, jpc := j } := fun j => CKeep.of_cons rfl rfl
    cases hjp : s.jpc <;> simp only [andThen_fst]
    · exact k0 .idle
    · have k1 := k0 .coordLookup
      split
      · exact k1.trans ((escapeCore_keep cfg _ _).mono (fun _ x => x.elim))
      · exact k1.trans (CKeep.of_cons (by simp) (by simp))
      · exact k1.trans (CKeep.of_cons (by simp) (by simp))
    · exact k0 .idle
    · exact (k0 .prepare).trans (((stopCons_keep { s with rejoinD := false, jpc := .prepare } s.prep.batch).mono
        (fun x hx => hE x hjp hx)).trans (CKeep.of_cons rfl rfl))
    · exact k0 .idle
    · exact (k0 .idle).trans ((rejoinCore_keep cfg _ _).mono (fun _ x => x.elim))
    · rename_i n
      exact (k0 (.loadParts n)).trans ((escapeCore_keep cfg _ _).mono (fun _ x => x.elim))
    · exact (k0 .idle).trans ((rejoinCore_keep cfg _ _).mono (fun _ x => x.elim))
  · simp only [hr]
    exact CKeep.rfl' _ s

theorem cancelJoin_keep (cfg : Cfg) (s : St) : CKeep (fun x => s.jpc = .prepare ∧ x ∈ s.prep.batch) s (cancelJoin cfg s).1 :=
  cancelJoin_keep' cfg s _ (fun _ a b => ⟨a, b⟩)

theorem cancelJoin_cinv0 {s : St} (h : CInv0 s) (cfg : Cfg) : CInv0 (cancelJoin cfg s).1 := by
  by_cases hr : s.rejoinD = true
  · have hj := cancelJoin_jpc cfg s hr
    refine h.transfer (cancelJoin_keep cfg s) (by simp) (fun x => by simpa using x) (fun j => by rw [hj] at j; cases j)
      (fun j => by rw [hj] at j; cases j) (fun j => by rw [hj] at j; cases j) ?_
    intro co hco x hx ⟨j, hb⟩
    exact h.pdisj j co hco x hb (h.ssub co hco x hx)
  · have : (cancelJoin cfg s).1 = s := by unfold cancelJoin; simp only [hr]; rfl
    rw [this]; exact h

theorem cancelJoin_sdp {s : St} (h : SD s) (cfg : Cfg) : SD (cancelJoin cfg s).1 :=
  h.transfer (by simp) (fun x => by simpa using x) (fun x => by simpa using x)

theorem finishStop_cinv0 {s : St} (h : CInv0 s) (cfg : Cfg) (err : Option GErr) (user : Bool) : CInv0 (finishStop cfg s err user).1 := by
  unfold finishStop
  simp only [andThen_fst]
  exact cinv0_irrelevant (cancelJoin_cinv0 h cfg) rfl rfl rfl rfl rfl rfl

theorem leaveOrFinish_cinv0 {s : St} (h : CInv0 s) (cfg : Cfg) (err : Option GErr) (user : Bool) : CInv0 (leaveOrFinish cfg err user s).1 := by
  unfold leaveOrFinish
  split
  · exact cinv0_irrelevant h rfl rfl rfl rfl rfl rfl
  · exact finishStop_cinv0 h cfg err user

theorem stopCancelHb_cinv0 {s : St} (h : CInv0 s) (cfg : Cfg) : CInv0 (stopCancelHb cfg s).1 := by
  unfold stopCancelHb
  split
  · simp only []
    split
    · simp only [andThen_fst]
      refine rejoinCore_cinv0 ?_ cfg _
      exact cinv0_irrelevant h rfl rfl rfl rfl rfl rfl
    · exact cinv0_irrelevant h rfl rfl rfl rfl rfl rfl
  · exact h

theorem coordStop_cinv0 {s : St} (h : CInv0 s) (cfg : Cfg) (err : Option GErr) (user : Bool) : CInv0 (coordStop cfg s err user).1 := by
  unfold coordStop
  split
  · exact h
  · simp only []
    have h1 : CInv0 { s with stopping := true, rejoinNeeded := false } := cinv0_irrelevant h rfl rfl rfl rfl rfl rfl
    split
    · exact h1
    · simp only [andThen_fst]
      have h2 : CInv0 (stopCancelDc { s with stopping := true, rejoinNeeded := false }).1 :=
        cinv0_irrelevant h1 (by simp) (by simp) (by simp) (by simp) (by simp) (by simp)
      have h3 := stopCancelHb_cinv0 h2 cfg
      have h4 : CInv0 (stopLooper (stopCancelHb cfg (stopCancelDc { s with stopping := true, rejoinNeeded := false }).1).1).1 :=
        cinv0_irrelevant h3 (by simp) (by simp) (by simp) (by simp) (by simp) (by simp)
      exact leaveOrFinish_cinv0 h4 cfg err user

theorem coordStop_stopping_live (cfg : Cfg) (s : St) (err : Option GErr) (user : Bool) (h : s.started = true ∨ s.stopping = true) :
    (coordStop cfg s err user).1.stopping = true := by
  unfold coordStop
  split
  · rename_i hg
    rcases h with h | h
    · simpa [h] using hg
    · exact h
  · simp only []
    split
    · rfl
    · simp

theorem coordStop_sdp {s : St} (h : SD s) (cfg : Cfg) (err : Option GErr) (user : Bool) : SD (coordStop cfg s err user).1 := by
  by_cases hl : s.started = true ∨ s.stopping = true
  · intro a; rw [coordStop_stopping_live cfg s err user hl] at a; cases a
  · have : (coordStop cfg s err user).1 = s := by
      unfold coordStop
      have : s.started = false := by cases hx : s.started <;> simp_all
      simp [this]
    rw [this]; exact h

/-! ## `ConsumerGroup.stop` -/

/-- a new drain registered as a waiting `stop()` coroutine -/
theorem cinv0_push {s : St} (h : CInv0 s) (hne : (beginDrain s).2.2.pending ≠ []) (err : Option GErr) (user : Bool) :
    CInv0 { (beginDrain s).1 with stops := (beginDrain s).1.stops ++ [⟨(beginDrain s).2.2, err, user⟩] } := by
  have k1 := beginDrain_keep s
  have nh := beginDrain_nh s
  have hst : (beginDrain s).1.stops = s.stops := rfl
  have hjp : (beginDrain s).1.jpc = s.jpc := rfl
  have hpr : (beginDrain s).1.prep = s.prep := rfl
  have hheld : ∀ x ∈ (beginDrain s).2.2.batch, ∃ c ∈ s.cons, c.held = true ∧ c.cid = x := fun x hx => mem_heldCids.mp hx
  constructor
  · exact h.pne
  · intro j x hx; exact k1.dr x id (h.pbnh j x (h.psub j x hx)) (h.pdr j x hx)
  · intro co hco
    rcases List.mem_append.mp hco with m | m
    · exact h.sne co m
    · simp only [List.mem_singleton] at m; subst m; exact hne
  · intro co hco x hx
    rcases List.mem_append.mp hco with m | m
    · exact k1.dr x id (h.sbnh co m x (h.ssub co m x hx)) (h.sdr co m x hx)
    · simp only [List.mem_singleton] at m; subst m; exact beginDrain_pending_dr s x hx
  · exact h.hangf
  · intro c hc; rw [k1.nc]; exact k1.lt _ h.clt c hc
  · intro j; rw [k1.nc]; exact h.pblt j
  · intro co hco x hx
    rw [k1.nc]
    rcases List.mem_append.mp hco with m | m
    · exact h.sblt co m x hx
    · simp only [List.mem_singleton] at m; subst m
      obtain ⟨c, hc, _, rfl⟩ := hheld x hx
      exact h.clt c hc
  · intro _ x _ c hc _; exact nh c hc
  · intro _ _ x _ c hc _; exact nh c hc
  · intro j co hco x hx
    rcases List.mem_append.mp hco with m | m
    · exact h.pdisj j co m x hx
    · simp only [List.mem_singleton] at m; subst m
      intro hb
      obtain ⟨c, hc, hh, ec⟩ := hheld x hb
      rw [h.pbnh j x hx c hc ec] at hh; cases hh
  · simp only [hst, List.map_append, List.map_cons, List.map_nil]
    rw [List.pairwise_append]
    refine ⟨h.sdisj, List.pairwise_singleton _ _, ?_⟩
    intro a ha b hb x hx
    simp only [List.mem_singleton] at hb; subst hb
    obtain ⟨co, hco, rfl⟩ := List.mem_map.mp ha
    intro hb
    obtain ⟨c, hc, hh, ec⟩ := hheld x hb
    rw [h.sbnh co hco x hx c hc ec] at hh; cases hh
  · exact h.psub
  · intro co hco
    rcases List.mem_append.mp hco with m | m
    · exact h.ssub co m
    · simp only [List.mem_singleton] at m; subst m; exact beginDrain_sub s
  · intro j; exact Nat.le_trans (h.plen j) k1.len

/-- a drain that ends at once -/
theorem cinv0_drainNow {s : St} (h : CInv0 s) (ok : Bool) : CInv0 (drainDone (beginDrain s).1 (beginDrain s).2.2 ok).1 :=
  h.transfer (drainNow_keep s ok) (by simp) (fun x => by simpa using x) (fun j => ⟨by simpa using j, by simp⟩)
    (fun j => by simpa using j) (fun _ _ _ => id) (fun _ _ _ _ => id)

theorem stopLoop_cinv0 {s : St} (h : CInv0 s) (cfg : Cfg) (err : Option GErr) (user : Bool) : CInv0 (stopLoop cfg s err user).1 := by
  unfold stopLoop
  split
  · exact coordStop_cinv0 h cfg err user
  · simp only []
    split
    · simp only [andThen_fst]
      exact coordStop_cinv0 (cinv0_drainNow h _) cfg err user
    · rename_i hnow
      refine cinv0_push h ?_ err user
      intro he
      simp [he] at hnow

theorem stopLoop_sdp {s : St} (h : s.started = true ∨ SD s) (cfg : Cfg) (err : Option GErr) (user : Bool) : SD (stopLoop cfg s err user).1 := by
  unfold stopLoop
  split
  · rcases h with h | h
    · intro a; rw [coordStop_stopping_live cfg s err user (Or.inl h)] at a; cases a
    · exact coordStop_sdp h cfg err user
  · simp only []
    split
    · simp only [andThen_fst]
      rcases h with h | h
      · intro a; rw [coordStop_stopping_live cfg _ err user (Or.inl (by simpa using h))] at a; cases a
      · refine coordStop_sdp ?_ cfg err user
        exact h.transfer (by simp) (fun x => by simpa using x) (fun x => by simpa using x)
    · intro _ _; simp

theorem cinv0_flag {s : St} (h : CInv0 s) : CInv0 { s with stopDraining := true } :=
  h.transfer (E := NoE) (CKeep.of_cons rfl rfl) rfl (fun _ => rfl) (fun j => ⟨j, rfl⟩) (fun j => j) (fun _ _ _ => id) (fun _ _ _ _ => id)

theorem stopCall_cinv0 {s : St} (h : CInv0 s) (cfg : Cfg) (err : Option GErr) (user : Bool) : CInv0 (stopCall cfg s err user).1 := by
  unfold stopCall
  split
  · exact stopLoop_cinv0 (cinv0_flag h) cfg err user
  · exact stopLoop_cinv0 h cfg err user

theorem stopCall_sdp {s : St} (h : SD s) (cfg : Cfg) (err : Option GErr) (user : Bool) : SD (stopCall cfg s err user).1 := by
  unfold stopCall
  split
  · rename_i hc
    refine stopLoop_sdp (Or.inl ?_) cfg err user
    simp only [Bool.and_eq_true] at hc
    exact hc.1
  · exact stopLoop_sdp (Or.inr h) cfg err user

theorem rejoinAfterError_cinv0 {s : St} (h : CInv0 s) (cfg : Cfg) (e : GErr) : CInv0 (rejoinAfterError cfg s e).1 := by
  unfold rejoinAfterError
  simp only []
  split
  · simp only [andThen_fst]
    exact stopCall_cinv0 (rejoinCore_cinv0 h cfg e) cfg _ _
  · exact rejoinCore_cinv0 h cfg e

theorem rejoinAfterError_sdp {s : St} (h : SD s) (cfg : Cfg) (e : GErr) : SD (rejoinAfterError cfg s e).1 := by
  unfold rejoinAfterError
  simp only []
  split
  · simp only [andThen_fst]
    exact stopCall_sdp (rejoinCore_sdp h cfg e) cfg _ _
  · exact rejoinCore_sdp h cfg e

theorem escape_cinv0 {s : St} (h : CInv0 s) (cfg : Cfg) (e : GErr) : CInv0 (escape cfg s e).1 := by
  rw [escape_eq cfg s e]
  have h0 : CInv0 { s with jpc := .idle, rejoinD := false } := cinv0_move h (by simp) rfl rfl (by simp) rfl
  split
  · exact rejoinAfterError_cinv0 h0 cfg e
  · exact h0

theorem escape_sdp {s : St} (h : SD s) (cfg : Cfg) (e : GErr) : SD (escape cfg s e).1 := by
  rw [escape_eq cfg s e]
  have h0 : SD { s with jpc := .idle, rejoinD := false } := h
  split
  · exact rejoinAfterError_sdp h0 cfg e
  · exact h0

end Afkak.Group
