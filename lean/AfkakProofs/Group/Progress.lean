import AfkakProofs.Group.Trace
import AfkakProofs.Group.FencedTrace
/-!
# C17 once failures cease the member reaches stable membership in a bounded number of steps

From any reachable state of a started, not stopping member (no `stop()` waiting for consumers, no
non-Kafka error swallowed — finding F12 — and not in the middle of `on_join_prepare`) an explicit
failure-free continuation is constructed: wait for the pending rejoin / retry timer, let it fire, and
answer every request successfully (one `consumerDown` per consumer that `on_join_prepare` shuts
down).  After it the member is a stable member (`rejoinNeeded = false`).
-/
namespace Afkak.Group
open Afkak.Consts

/-- failure-free events: time passing, a timer firing, successful replies, a consumer's shutdown
    completing successfully -/
def okEv : Ev → Bool
  | .advance _ | .fire _ none | .coordDone .ok | .metaDone .ok | .joinDone (.ok ..) | .partsDone .ok
  | .syncDone (.ok _) | .consumerDown _ true => true
  | _ => false

theorem finalFrom_append (cfg : Cfg) (s : St) (a b : List Ev) :
    finalFrom cfg s (a ++ b) = finalFrom cfg (finalFrom cfg s a) b := by
  induction a generalizing s with
  | nil => rfl
  | cons e es ih => simp only [List.cons_append, finalFrom]; exact ih _

/-- what every phase keeps: not stopping, and the consumer records (by number) -/
structure Keep (s s' : St) : Prop where
  stopping : s'.stopping = false
  ncons : s'.cons.length = s.cons.length

/-- waiting for the sync reply: one successful reply makes the member stable -/
theorem phase_sync (cfg : Cfg) (s : St) (hj : s.jpc = .sync) (hs : s.stopping = false) :
    (step cfg s (.syncDone (.ok []))).1.rejoinNeeded = false := by
  simp [step, hj, hs, andThen, startConsumers]

/-- waiting for the join reply: a successful (non-leader) reply leads to the sync request -/
theorem phase_join (cfg : Cfg) (s : St) (hj : s.jpc = .join) (hs : s.stopping = false) :
    (step cfg s (.joinDone (.ok 1 1 false 0))).1.jpc = .sync ∧ Keep s (step cfg s (.joinDone (.ok 1 1 false 0))).1 := by
  refine ⟨?_, ?_, ?_⟩ <;> simp [step, hj, hs, abandonHb_eq, andThen]

/-- the leader's partition load: a successful reply leads to the sync request -/
theorem phase_parts (cfg : Cfg) (s : St) (n : Nat) (hj : s.jpc = .loadParts n) (hs : s.stopping = false) :
    (step cfg s (.partsDone .ok)).1.jpc = .sync ∧ Keep s (step cfg s (.partsDone .ok)).1 := by
  refine ⟨?_, ?_, ?_⟩ <;> simp [step, hj, hs]

/-- the drain of `on_join_prepare` in progress, every awaited shutdown Deferred belonging to a
    consumer that is still draining (so that its completion is an enabled event) -/
structure PL (s : St) : Prop where
  jpc : s.jpc = .prepare
  stopping : s.stopping = false
  ne : s.prep.pending ≠ []
  live : ∀ x ∈ s.prep.pending, ∃ c ∈ s.cons, c.cid = x ∧ c.phase = .draining

theorem afterPrepare_join (s : St) (hs : s.stopping = false) : (afterPrepare s).1.jpc = .join ∧ Keep s (afterPrepare s).1 := by
  unfold afterPrepare; refine ⟨?_, ?_, ?_⟩ <;> simp [hs]

theorem filter_length_lt {p : Nat} : ∀ {l : List Nat}, p ∈ l → (l.filter (· != p)).length < l.length
  | [], h => by cases h
  | x :: xs, h => by
    by_cases hx : x = p
    · subst hx
      simp only [bne_self_eq_false, Bool.false_eq_true, not_false_eq_true, List.filter_cons_of_neg, List.length_cons]
      exact Nat.lt_succ_of_le (List.length_filter_le _ _)
    · have : p ∈ xs := by
        rcases List.mem_cons.mp h with a | a
        · exact absurd a.symm hx
        · exact a
      rw [List.filter_cons_of_pos (by simpa using hx)]
      simp only [List.length_cons]
      exact Nat.succ_lt_succ (filter_length_lt this)

/-- the drain: one successful `consumerDown` per awaited consumer ends it with the join request -/
theorem phase_drain (cfg : Cfg) : ∀ (n : Nat) (s : St), PL s → s.prep.pending.length ≤ n →
    ∃ tail : List Ev, tail.all okEv = true ∧ tail.length ≤ n ∧ (∀ dt, Ev.advance dt ∉ tail) ∧
      (finalFrom cfg s tail).jpc = .join ∧ Keep s (finalFrom cfg s tail) := by
  intro n
  induction n with
  | zero =>
    intro s h hl
    have : s.prep.pending = [] := List.eq_nil_of_length_eq_zero (Nat.le_zero.mp hl)
    exact absurd this h.ne
  | succ n ih =>
    intro s h hl
    cases hp : s.prep.pending with
    | nil => exact absurd hp h.ne
    | cons p ps =>
      have hpm : p ∈ s.prep.pending := by rw [hp]; simp
      obtain ⟨c0, hc0, hcid, hdr⟩ := h.live p hpm
      have hen : (s.cons.any fun c => decide (c.cid = p) && decide (c.phase = .draining)) = true :=
        List.any_eq_true.mpr ⟨c0, hc0, by simp [hcid, hdr]⟩
      have hcont : s.prep.pending.contains p = true := by simpa using hpm
      let s0 : St := { s with cons := s.cons.map fun (c : Con) => if c.cid = p && c.phase == .draining then { c with phase := .stopped, startFired := true } else c }
      by_cases hem : (s.prep.pending.filter (· != p)).isEmpty = true
      · -- the last one: the drain is over, the join is sent
        have e1 : (step cfg s (.consumerDown p true)).1 = (afterPrepare { s0 with prep := ⟨[], []⟩ }).1 := by
          simp only [step, hen, if_true]
          unfold consumerDown
          simp only [h.jpc, hcont, decide_true, Bool.and_self, if_true, hem, Bool.not_true, Bool.and_false, Bool.false_eq_true, if_false,
            andThen_fst]
          unfold drainDone
          simp only [if_true]
          rfl
        obtain ⟨a, b⟩ := afterPrepare_join { s0 with prep := ⟨[], []⟩ } h.stopping
        refine ⟨[.consumerDown p true], rfl, by simp, by simp, ?_, ?_⟩
        · simp only [finalFrom]; rw [e1]; exact a
        · simp only [finalFrom]; rw [e1]
          exact ⟨b.stopping, by rw [b.ncons]; simp [s0]⟩
      · -- more to wait for
        have hem' : (s.prep.pending.filter (· != p)).isEmpty = false := by simpa using hem
        have e1 : (step cfg s (.consumerDown p true)).1.jpc = .prepare ∧ (step cfg s (.consumerDown p true)).1.stopping = false ∧
            (step cfg s (.consumerDown p true)).1.prep.pending = s.prep.pending.filter (· != p) ∧
            (step cfg s (.consumerDown p true)).1.cons = s0.cons := by
          simp only [step, hen, if_true]
          unfold consumerDown
          simp only [h.jpc, hcont, decide_true, Bool.and_self, if_true, hem', Bool.not_false, Bool.and_true]
          first | exact ⟨trivial, h.stopping, trivial, trivial⟩ | exact ⟨rfl, h.stopping, rfl, rfl⟩ | simp [h.stopping, s0]
        have hpl : PL (step cfg s (.consumerDown p true)).1 := by
          refine ⟨e1.1, e1.2.1, ?_, ?_⟩
          · rw [e1.2.2.1]; intro x; rw [x] at hem'; cases hem'
          · intro x hx
            rw [e1.2.2.1] at hx
            obtain ⟨hx1, hx2⟩ := List.mem_filter.mp hx
            obtain ⟨c, hc, hci, hph⟩ := h.live x hx1
            have hne : c.cid ≠ p := by rw [hci]; simpa using hx2
            refine ⟨c, ?_, hci, hph⟩
            rw [e1.2.2.2]
            simp only [s0]
            exact List.mem_map.mpr ⟨c, hc, by simp [hne]⟩
        have hlen : (step cfg s (.consumerDown p true)).1.prep.pending.length ≤ n := by
          rw [e1.2.2.1]
          have := filter_length_lt hpm
          omega
        obtain ⟨tail, t1, t2, t3, t4, t5⟩ := ih _ hpl hlen
        refine ⟨.consumerDown p true :: tail, by simp [okEv, t1], by simp; omega, ?_, ?_, ?_⟩
        · intro dt hd
          rcases List.mem_cons.mp hd with x | x
          · cases x
          · exact t3 dt x
        · simp only [finalFrom]; exact t4
        · simp only [finalFrom]
          exact ⟨t5.stopping, by rw [t5.ncons, e1.2.2.2]; simp [s0]⟩


theorem drainDone_ncons (s : St) (d : Drain) (ok : Bool) : (drainDone s d ok).1.cons.length = s.cons.length := by
  unfold drainDone stopCons; split <;> simp

/-- `on_join_prepare` of a member that is not stopping and has no `stop()` waiting: the join request
    is sent at once, or the drain begins with every awaited consumer draining -/
theorem prepare_phase (s : St) (hs : s.stopping = false) (hsd : s.stopDraining = false) :
    ((prepare s).1.jpc = .join ∨ (PL (prepare s).1 ∧ (prepare s).1.prep.pending.length ≤ s.cons.length)) ∧ Keep s (prepare s).1 := by
  have hsd' : ¬ s.stopDraining = true := by rw [hsd]; simp
  by_cases h2 : (heldCids s).isEmpty = true
  · have e : prepare s = afterPrepare s := by unfold prepare; simp [hsd, h2]
    rw [e]
    obtain ⟨a, b⟩ := afterPrepare_join s hs
    exact ⟨Or.inl a, b⟩
  · by_cases h3 : (drainFails s || (beginDrain s).2.2.pending.isEmpty) = true
    · have e : prepare s = andThen (andThen ((beginDrain s).1, (beginDrain s).2.1) fun s' => drainDone s' (beginDrain s).2.2 (!drainFails s)) afterPrepare := by
        unfold prepare; simp only [hsd', h2, h3]; simp
      rw [e]
      simp only [andThen_fst]
      obtain ⟨a, b⟩ := afterPrepare_join (drainDone (beginDrain s).1 (beginDrain s).2.2 (!drainFails s)).1 (by rw [drainDone_stopping']; exact hs)
      refine ⟨Or.inl a, b.stopping, ?_⟩
      rw [b.ncons, drainDone_ncons]
      simp [beginDrain]
    · have e : (prepare s).1 = { (beginDrain s).1 with jpc := .prepare, prep := (beginDrain s).2.2 } := by
        unfold prepare; simp only [hsd', h2, h3]; simp
      rw [e]
      have h3' : ((beginDrain s).2.2.pending.isEmpty) = false := by
        cases hx : (beginDrain s).2.2.pending.isEmpty
        · rfl
        · rw [hx] at h3; simp at h3
      refine ⟨Or.inr ⟨⟨rfl, hs, ?_, ?_⟩, ?_⟩, hs, by simp [beginDrain]⟩
      · intro x; simp only [] at x; rw [x] at h3'; cases h3'
      · intro x hx
        simp only [beginDrain, List.mem_map, List.mem_filter] at hx
        obtain ⟨c, ⟨⟨hc, hh⟩, hq⟩, rfl⟩ := hx
        refine ⟨{ c with phase := .draining, held := false }, ?_, rfl, rfl⟩
        simp only [beginDrain]
        refine List.mem_map.mpr ⟨c, hc, ?_⟩
        have hq' : c.quirk ≠ .shutdownRaises := by simpa using hq
        simp [hh, hq']
      · simp only [beginDrain, List.length_map]
        exact Nat.le_trans (List.length_filter_le _ _) (List.length_filter_le _ _)

theorem phase_meta (cfg : Cfg) (s : St) (hj : s.jpc = .metaLoad) (hs : s.stopping = false) (hsd : s.stopDraining = false) :
    ((step cfg s (.metaDone .ok)).1.jpc = .join ∨
      (PL (step cfg s (.metaDone .ok)).1 ∧ (step cfg s (.metaDone .ok)).1.prep.pending.length ≤ s.cons.length)) ∧
    Keep s (step cfg s (.metaDone .ok)).1 := by
  have e : step cfg s (.metaDone .ok) = prepare { s with coordBroker := true } := by simp [step, hj, hs]
  rw [e]
  obtain ⟨a, b⟩ := prepare_phase { s with coordBroker := true } hs hsd
  exact ⟨a, b.stopping, b.ncons⟩

theorem phase_coord (cfg : Cfg) (s : St) (hj : s.jpc = .coordLookup) (hs : s.stopping = false) (hsd : s.stopDraining = false) :
    (step cfg s (.coordDone .ok)).1.jpc = .metaLoad ∧ (step cfg s (.coordDone .ok)).1.stopDraining = false ∧
    Keep s (step cfg s (.coordDone .ok)).1 := by
  refine ⟨?_, ?_, ?_, ?_⟩ <;> simp [step, hj, hs, hsd]

theorem filter_id_uniq : ∀ (ts : List Timer) (t : Timer), ts.Pairwise (fun a b => a.id ≠ b.id) → t ∈ ts →
    ts.filter (·.id == t.id) = [t]
  | [], _, _, h => by cases h
  | a :: as, t, hu, ht => by
    rw [List.pairwise_cons] at hu
    rcases List.mem_cons.mp ht with x | x
    · subst x
      rw [List.filter_cons_of_pos (by simp)]
      congr 1
      rw [List.filter_eq_nil_iff]
      intro b hb
      have := hu.1 b hb
      simpa using fun h => this h.symm
    · have hne : a.id ≠ t.id := hu.1 t x
      rw [List.filter_cons_of_neg (by simpa using hne)]
      exact filter_id_uniq as t hu.2 x

/-- idle with a rejoin / retry timer pending: when its time has come the timer fires and the
    coordinator look-up is sent -/
theorem phase_idle (cfg : Cfg) (s : St) (hw : WInv s) (hj : s.jpc = .idle) (hrd : s.rejoinD = false) (hn : s.rejoinNeeded = true)
    (hs : s.stopping = false) (hsd : s.stopDraining = false) (t : Timer) (ht : t ∈ s.timers) (hk : t.kind ≠ .hb) :
    let dt : Rat := if s.now < t.due then t.due - s.now else 0
    let s' := finalFrom cfg s [.advance dt, .fire t.id none]
    s'.jpc = .coordLookup ∧ s'.stopDraining = false ∧ Keep s s' := by
  intro dt s'
  have hdt : ¬ dt < 0 := by
    simp only [dt]; split <;> grind
  have hdue : ¬ (s.now + dt < t.due) := by
    simp only [dt]; split <;> grind
  have hfil : s.timers.filter (·.id == t.id) = [t] := filter_id_uniq s.timers t hw.timer_uniq ht
  have e1 : (step cfg s (.advance dt)).1 = { s with now := s.now + dt } := by simp [step, hdt]
  have hkk : (t.kind = .rejoin ∨ t.kind = .retry) := by
    cases hx : t.kind <;> simp_all
  have e2 : (step cfg { s with now := s.now + dt } (.fire t.id none)).1 =
      (joinAndSync { s with now := s.now + dt, timers := s.timers.filter (·.id != t.id) }).1 := by
    simp only [step, Option.any_none, Bool.false_eq_true, if_false, hfil, hdue]
    rcases hkk with x | x <;> rw [x]
  have e3 : s' = (joinAndSync { s with now := s.now + dt, timers := s.timers.filter (·.id != t.id) }).1 := by
    simp only [s', finalFrom]; rw [e1, e2]
  rw [e3]
  unfold joinAndSync
  refine ⟨?_, ?_, ?_, ?_⟩ <;> simp [hn, hrd, hsd, hs]


/-- stable membership is reachable from `s` by at most `n` failure-free events, none of them the
    passing of time -/
def Reach (cfg : Cfg) (n : Nat) (s : St) : Prop :=
  ∃ tail : List Ev, tail.all okEv = true ∧ tail.length ≤ n ∧ (∀ dt, Ev.advance dt ∉ tail) ∧
    (finalFrom cfg s tail).rejoinNeeded = false

theorem Reach_append {cfg : Cfg} {n k : Nat} {s : St} (pre : List Ev) (h1 : pre.all okEv = true) (h2 : pre.length ≤ k)
    (h3 : ∀ dt, Ev.advance dt ∉ pre) (h : Reach cfg n (finalFrom cfg s pre)) : Reach cfg (k + n) s := by
  obtain ⟨tail, a, b, c, d⟩ := h
  refine ⟨pre ++ tail, by rw [List.all_append, h1, a]; rfl, by rw [List.length_append]; omega, ?_, by rw [finalFrom_append]; exact d⟩
  intro dt hd
  rcases List.mem_append.mp hd with x | x
  · exact h3 dt x
  · exact c dt x

theorem Reach_mono {cfg : Cfg} {n m : Nat} {s : St} (h : Reach cfg n s) (hl : n ≤ m) : Reach cfg m s := by
  obtain ⟨tail, a, b, c, d⟩ := h
  exact ⟨tail, a, Nat.le_trans b hl, c, d⟩

theorem reach_sync (cfg : Cfg) (s : St) (hj : s.jpc = .sync) (hs : s.stopping = false) : Reach cfg 1 s :=
  ⟨[.syncDone (.ok [])], rfl, by simp, by simp, by simp only [finalFrom]; exact phase_sync cfg s hj hs⟩

theorem reach_join (cfg : Cfg) (s : St) (hj : s.jpc = .join) (hs : s.stopping = false) : Reach cfg 2 s := by
  obtain ⟨a, b⟩ := phase_join cfg s hj hs
  exact Reach_append (k := 1) [.joinDone (.ok 1 1 false 0)] rfl (by simp) (by simp) (reach_sync cfg _ a b.stopping)

theorem reach_parts (cfg : Cfg) (s : St) (n : Nat) (hj : s.jpc = .loadParts n) (hs : s.stopping = false) : Reach cfg 2 s := by
  obtain ⟨a, b⟩ := phase_parts cfg s n hj hs
  exact Reach_append (k := 1) [.partsDone .ok] rfl (by simp) (by simp) (reach_sync cfg _ a b.stopping)

theorem reach_meta (cfg : Cfg) (s : St) (hj : s.jpc = .metaLoad) (hs : s.stopping = false) (hsd : s.stopDraining = false) :
    Reach cfg (3 + s.cons.length) s := by
  obtain ⟨a, b⟩ := phase_meta cfg s hj hs hsd
  have h1 : Reach cfg (s.cons.length + 2) (step cfg s (.metaDone .ok)).1 := by
    rcases a with a | ⟨a, al⟩
    · exact Reach_mono (reach_join cfg _ a b.stopping) (by omega)
    · obtain ⟨tail, t1, t2, t3, t4, t5⟩ := phase_drain cfg _ _ a (Nat.le_refl _)
      exact Reach_append tail t1 (Nat.le_trans t2 al) t3 (reach_join cfg _ t4 t5.stopping)
  have := Reach_append (k := 1) [.metaDone .ok] rfl (by simp) (by simp) (s := s) (by simpa [finalFrom] using h1)
  exact Reach_mono this (by omega)

theorem reach_coord (cfg : Cfg) (s : St) (hj : s.jpc = .coordLookup) (hs : s.stopping = false) (hsd : s.stopDraining = false) :
    Reach cfg (4 + s.cons.length) s := by
  obtain ⟨a, b, c⟩ := phase_coord cfg s hj hs hsd
  have h1 := reach_meta cfg _ a c.stopping b
  rw [c.ncons] at h1
  have := Reach_append (k := 1) [.coordDone .ok] rfl (by simp) (by simp) (s := s) (by simpa [finalFrom] using h1)
  exact Reach_mono this (by omega)

/-- **Bounded progress**: from a state (satisfying the reachable-state invariants) of a started,
    not stopping member with no `stop()` waiting for consumers and not in the middle of
    `on_join_prepare`, there is a failure-free continuation of at most `6 + #consumers` events after
    which the member is stable; the only time that has to pass is the remaining delay of the
    pending rejoin / coordinator-retry timer. -/
theorem progress (cfg : Cfg) (s : St) (h : SInv s) (hb : Busy s) (hst : s.started = true) (hs : s.stopping = false)
    (hsd : s.stopDraining = false) (hj1 : s.jpc ≠ .prepare) (hj2 : s.jpc ≠ .hang) :
    ∃ tail : List Ev, tail.all okEv = true ∧ tail.length ≤ 6 + s.cons.length ∧
      (∀ dt, Ev.advance dt ∈ tail → ∃ t ∈ s.timers, t.kind ≠ .hb ∧ dt = if s.now < t.due then t.due - s.now else 0) ∧
      (finalFrom cfg s tail).rejoinNeeded = false := by
  have lift : ∀ {n}, Reach cfg n s → n ≤ 6 + s.cons.length → ∃ tail : List Ev, tail.all okEv = true ∧ tail.length ≤ 6 + s.cons.length ∧
      (∀ dt, Ev.advance dt ∈ tail → ∃ t ∈ s.timers, t.kind ≠ .hb ∧ dt = if s.now < t.due then t.due - s.now else 0) ∧
      (finalFrom cfg s tail).rejoinNeeded = false := fun ⟨tail, a, b, c, d⟩ hl =>
    ⟨tail, a, Nat.le_trans b hl, fun dt hd => absurd hd (c dt), d⟩
  by_cases hn : s.rejoinNeeded = false
  · exact ⟨[], rfl, by simp, by simp, hn⟩
  · have hn' : s.rejoinNeeded = true := by simpa using hn
    cases hj : s.jpc with
    | prepare => exact absurd hj hj1
    | hang => exact absurd hj hj2
    | sync => exact lift (reach_sync cfg s hj hs) (by omega)
    | join => exact lift (reach_join cfg s hj hs) (by omega)
    | loadParts n => exact lift (reach_parts cfg s n hj hs) (by omega)
    | metaLoad => exact lift (reach_meta cfg s hj hs hsd) (by omega)
    | coordLookup => exact lift (reach_coord cfg s hj hs hsd) (by omega)
    | idle =>
      have hrd : s.rejoinD = false := by
        cases hx : s.rejoinD with
        | false => rfl
        | true => exact absurd hj (h.rd_jpc.mp hx)
      obtain ⟨t, ht, hk⟩ := hb hst hs hn' hrd
      obtain ⟨a, b, c⟩ := phase_idle cfg s h.toWInv hj hrd hn' hs hsd t ht hk
      obtain ⟨tail, t1, t2, t3, t4⟩ := reach_coord cfg _ a c.stopping b
      rw [c.ncons] at t2
      refine ⟨[.advance (if s.now < t.due then t.due - s.now else 0), .fire t.id none] ++ tail, ?_, ?_, ?_, ?_⟩
      · rw [List.all_append, t1]; rfl
      · rw [List.length_append]; simp; omega
      · intro dt hd
        rcases List.mem_append.mp hd with x | x
        · simp only [List.mem_cons, Ev.advance.injEq, List.mem_nil_iff, or_false, reduceCtorEq] at x
          exact ⟨t, ht, hk, x⟩
        · exact absurd x (t3 dt)
      · rw [finalFrom_append]; exact t4

theorem final_busy (cfg : Cfg) (evs : List Ev) (hne : ∀ e ∈ evs, nonKafkaEscape e = false) : Busy (final cfg evs) := by
  have : ∀ (evs : List Ev) (s : St), SInv s → Busy s → (∀ e ∈ evs, nonKafkaEscape e = false) → Busy (finalFrom cfg s evs) := by
    intro evs
    induction evs with
    | nil => intro s _ hb _; exact hb
    | cons e es ih =>
      intro s h hb hn
      exact ih _ (step_sinv h cfg e) (step_busy h hb cfg e (hn e (by simp))) (fun x hx => hn x (by simp [hx]))
  exact this evs init sinv_init busy_init hne


/-! ## the swallowed non-Kafka error (finding F12) leaves a state from which no failure-free
continuation makes progress -/

structure Stuck (s : St) : Prop where
  jpc : s.jpc = .idle
  timers : s.timers = []
  cons : s.cons = []
  needed : s.rejoinNeeded = true

theorem step_stuck (cfg : Cfg) (s : St) (e : Ev) (he : okEv e = true) (h : Stuck s) : Stuck (step cfg s e).1 := by
  cases e with
  | advance dt => simp only [step]; split <;> exact ⟨h.jpc, h.timers, h.cons, h.needed⟩
  | fire id n =>
    cases n with
    | some x => cases he
    | none => simp only [step, h.timers, Option.any_none, Bool.false_eq_true, if_false, List.filter_nil]; exact h
  | coordDone r =>
    cases r with
    | ok => simp only [step, h.jpc]; exact h
    | none => cases he
    | err e => cases he
  | metaDone r =>
    cases r with
    | ok => simp only [step, h.jpc]; exact h
    | err e => cases he
  | joinDone r =>
    cases r with
    | ok m g l n => simp only [step, h.jpc]; exact h
    | err e => cases he
  | partsDone r =>
    cases r with
    | ok => simp only [step, h.jpc]; exact h
    | err e => cases he
  | syncDone r =>
    cases r with
    | ok a => simp only [step, h.jpc]; exact h
    | err e => cases he
  | consumerDown cid ok => simp only [step, h.cons, List.any_nil, Bool.false_eq_true, if_false]; exact h
  | start => cases he
  | stop => cases he
  | hbDone r => cases he
  | leaveDone r => cases he
  | consumerErr c e => cases he
  | consumerQuirk c q => cases he

theorem finalFrom_stuck (cfg : Cfg) (tail : List Ev) : ∀ (s : St), tail.all okEv = true → Stuck s → Stuck (finalFrom cfg s tail) := by
  induction tail with
  | nil => intro s _ h; exact h
  | cons e es ih =>
    intro s ha h
    simp only [List.all_cons, Bool.and_eq_true] at ha
    exact ih _ ha.2 (step_stuck cfg s e ha.1 h)

end Afkak.Group
