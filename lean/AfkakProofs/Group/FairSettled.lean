import AfkakProofs.Group.FairReach
/-!
# C17 bounded rejoin under fairness, stated properly

`fair_reaches` (Fair.lean) counts owed moves against the measure `μ`; because `μ` drops by MORE than one
on some mandatory transitions (metadata reply → `on_join_prepare` / JoinGroup, a follower's join reply →
SyncGroup) its hypothesis `μ ≤ #owed moves` is satisfiable only from mid-exchange states with a leader's
replies (independent audit, round 2).  The statement that carries the meaning of "fair" is this one:

* `settled s`: the environment owes the member nothing — no request of the join coroutine is
  outstanding, no shutdown is awaited by `on_join_prepare` (`jpc = idle`), and no rejoin /
  coordinator-retry timer is pending;
* `settled_stable`: an eligible member (started, not stopping, no `stop()` waiting, `Busy`) that the
  environment owes nothing IS a stable member;
* `fair_settles`: hence EVERY failure-free continuation — any order, any reply contents, leader or
  follower, any number of events that are not enabled — that goes on until nothing is owed ends with a
  stable member;
* `owes`: and while the member is not stable something IS owed: a successful reply / shutdown
  completion is an enabled owed move, or a rejoin / retry timer is pending (its firing is owed once due);
* `settled_nothing_owed`: `settled` implies that no event is an owed move.
-/
namespace Afkak.Group
open Afkak.Consts

/-- the environment owes the member nothing -/
def settled (s : St) : Bool := s.jpc == .idle && s.timers.all (·.kind == .hb)

theorem settled_iff (s : St) : settled s = true ↔ s.jpc = .idle ∧ ∀ t ∈ s.timers, t.kind = .hb := by
  unfold settled
  simp only [Bool.and_eq_true, beq_iff_eq, List.all_eq_true]

theorem settled_stable {s : St} (h : Elig s) (hs : settled s = true) : s.rejoinNeeded = false := by
  cases hn : s.rejoinNeeded with
  | false => rfl
  | true =>
    obtain ⟨hj, ht⟩ := (settled_iff s).mp hs
    have hrd : s.rejoinD = false := by
      cases hx : s.rejoinD with
      | false => rfl
      | true => exact absurd hj (h.sinv.rd_jpc.mp hx)
    obtain ⟨t, hmem, hk⟩ := h.busy h.started h.nstop hn hrd
    exact absurd (ht t hmem) hk

/-- **every fair failure-free continuation ends with a stable member** -/
theorem fair_settles (cfg : Cfg) (s : St) (h : Elig s) (tail : List Ev) (ha : tail.all okEvF = true)
    (hs : settled (finalFrom cfg s tail) = true) : (finalFrom cfg s tail).rejoinNeeded = false :=
  settled_stable (elig_tail cfg tail s h ha) hs

/-- `settled` is what it says: no event is an owed move -/
theorem settled_nothing_owed {s : St} (hs : settled s = true) (e : Ev) : owedMove s e = false := by
  obtain ⟨hj, ht⟩ := (settled_iff s).mp hs
  cases e with
  | coordDone r => cases r <;> simp [owedMove, hj]
  | metaDone r => cases r <;> simp [owedMove, hj]
  | joinDone r => cases r <;> simp [owedMove, hj]
  | partsDone r => cases r <;> simp [owedMove, hj]
  | syncDone r => cases r <;> simp [owedMove, hj]
  | consumerDown c ok => cases ok <;> simp [owedMove, hj]
  | fire id n =>
    cases n with
    | some x => rfl
    | none =>
      simp only [owedMove]
      cases hf : s.timers.filter (·.id == id) with
      | nil => simp
      | cons t rest =>
        have hm : t ∈ s.timers := (List.mem_filter.mp (by rw [hf]; exact List.mem_cons_self)).1
        simp [ht t hm]
  | start => rfl
  | stop => rfl
  | hbDone r => rfl
  | leaveDone r => rfl
  | consumerErr c g => rfl
  | consumerQuirk c q => rfl
  | advance d => rfl

/-- while the member is not stable the environment owes something -/
theorem owes {s : St} (h : Elig s) (hn : s.rejoinNeeded = true) :
    (∃ e, okEvF e = true ∧ owedMove s e = true) ∨ (s.jpc = .idle ∧ ∃ t ∈ s.timers, t.kind ≠ .hb) := by
  cases hj : s.jpc with
  | idle =>
    right
    have hrd : s.rejoinD = false := by
      cases hx : s.rejoinD with
      | false => rfl
      | true => exact absurd hj (h.sinv.rd_jpc.mp hx)
    exact ⟨rfl, h.busy h.started h.nstop hn hrd⟩
  | coordLookup => left; exact ⟨.coordDone .ok, rfl, by simp [owedMove, hj]⟩
  | metaLoad => left; exact ⟨.metaDone .ok, rfl, by simp [owedMove, hj]⟩
  | prepare =>
    left
    obtain ⟨hne, _⟩ := h.prep hj
    cases hp : s.prep.pending with
    | nil => exact absurd hp hne
    | cons c rest => exact ⟨.consumerDown c true, rfl, by simp [owedMove, hj, hp]⟩
  | hang => exact absurd hj h.nhang
  | join => left; exact ⟨.joinDone (.ok 0 0 false 0), rfl, by simp [owedMove, hj]⟩
  | loadParts n => left; exact ⟨.partsDone .ok, rfl, by simp [owedMove, hj]⟩
  | sync => left; exact ⟨.syncDone (.ok []), rfl, by simp [owedMove, hj]⟩

end Afkak.Group
