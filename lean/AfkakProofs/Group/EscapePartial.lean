import AfkakProofs.Group.Busy
import AfkakProofs.Group.Tables
/-!
# C17 `escapeSurfaces` on histories without a non-Kafka error escaping the join

`escapeSurfaces` asks of every processed NON-Kafka error on the coordinator look-up, the metadata load
or the leader's partition load that it surfaces on `start`'s Deferred.  The code swallows those (known
finding F12, non-Kafka half); a history in which none occurs (`nonKafkaEscape e = false` for every
event: by the generated tables that is exactly "the error on such an event is a Kafka error") satisfies
the monitor for the plain reason that there is nothing to surface.
-/
namespace Afkak.Group
open Afkak.Consts Afkak.Monitor.C17

theorem escapeStep_of_noEscape (pre : Snap) (m : MStep) (h : nonKafkaEscape m.ev = false) : escapeSurfacesStep pre m = true := by
  unfold escapeSurfacesStep
  cases hev : m.ev with
  | coordDone r =>
    cases r with
    | err e =>
      simp only [errorOf]
      rw [hev] at h
      have hk : isKafka e = true := by
        cases hx : isKafka e with
        | true => rfl
        | false =>
          have h1 := (Tables.lookup_propagate_nonKafka e).mpr hx
          have h2 : escapeRejoins e = false := by rw [Tables.escape_iff_kafka]; exact hx
          simp [nonKafkaEscape, h1, h2] at h
      simp [hk]
    | ok => rfl
    | none => rfl
  | metaDone r =>
    cases r with
    | err e =>
      simp only [errorOf]
      rw [hev] at h
      have hk : isKafka e = true := by
        rw [← Tables.escape_iff_kafka]
        simpa [nonKafkaEscape] using h
      simp [hk]
    | ok => rfl
  | partsDone r =>
    cases r with
    | err e =>
      simp only [errorOf]
      rw [hev] at h
      have hk : isKafka e = true := by
        rw [← Tables.escape_iff_kafka]
        simpa [nonKafkaEscape] using h
      simp [hk]
    | ok => rfl
  | joinDone r => cases r <;> rfl
  | syncDone r => cases r <;> rfl
  | hbDone r => cases r <;> rfl
  | start => rfl
  | stop => rfl
  | leaveDone r => rfl
  | consumerDown c ok => rfl
  | consumerErr c e => rfl
  | consumerQuirk c q => rfl
  | fire i n => rfl
  | advance d => rfl

theorem escapeFrom_of_noEscape : ∀ (tr : List MStep) (pre : Snap), (∀ m ∈ tr, nonKafkaEscape m.ev = false) → escapeFrom pre tr = true := by
  intro tr
  induction tr with
  | nil => intro _ _; rfl
  | cons m ms ih =>
    intro pre h
    simp only [escapeFrom, Bool.and_eq_true]
    exact ⟨escapeStep_of_noEscape pre m (h m List.mem_cons_self), ih _ (fun x hx => h x (List.mem_cons_of_mem _ hx))⟩

theorem runFrom_evs (cfg : Cfg) (evs : List Ev) : ∀ s, ∀ m ∈ toMSteps (runFrom cfg s evs), m.ev ∈ evs := by
  induction evs with
  | nil => intro s m hm; cases hm
  | cons e es ih =>
    intro s m hm
    simp only [runFrom, toMSteps, List.map_cons, List.mem_cons] at hm
    rcases hm with rfl | hm
    · exact List.mem_cons_self
    · exact List.mem_cons_of_mem _ (ih _ m hm)

/-- no non-Kafka error escapes the join ⇒ `escapeSurfaces` -/
theorem escapeSurfaces_run (cfg : Cfg) (evs : List Ev) (hne : ∀ e ∈ evs, nonKafkaEscape e = false) :
    escapeSurfaces (toMSteps (run cfg evs)) = true :=
  escapeFrom_of_noEscape _ _ (fun m hm => hne _ (runFrom_evs cfg evs init m hm))

end Afkak.Group
