import AfkakProofs.Group.DrainStep
import AfkakProofs.Group.Fatal
import AfkakProofs.Group.OneJoin
/-!
# C16 consumers are started with the ids of the last successful join reply

Between the join reply and the sync reply of a member that is not stopping nothing rewrites the
member id / generation: no heartbeat is outstanding (it is abandoned at the join reply and none is
sent while a rejoin is wanted), no consumer is live whose error could clear the member id (none is
running mid-join, and none is draining because no `stop()` drain coexists with a join exchange).
-/
namespace Afkak.Group
open Afkak.Consts Afkak.Monitor.C16

def midAll (j : JPc) : Prop := j = .join ∨ (∃ n, j = .loadParts n) ∨ j = .sync
def midSync (j : JPc) : Prop := (∃ n, j = .loadParts n) ∨ j = .sync

theorem midSync_all {j : JPc} (h : midSync j) : midAll j := Or.inr h
theorem midAll_midJoin {j : JPc} (h : midAll j) : midJoin j := Or.inr h
theorem not_midAll_idle : ¬ midAll .idle := by intro h; rcases h with h | ⟨_, h⟩ | h <;> cases h

/-! ## helpers leave the coroutine where it is, or finished -/

def JI (s : St) (o : Out) : Prop := o.1.jpc = s.jpc ∨ o.1.jpc = .idle

theorem JI_frame {s : St} {o : Out} (h : o.1.jpc = s.jpc) : JI s o := Or.inl h
theorem JI_andThen {s : St} {o : Out} {f : St → Out} (h1 : JI s o) (h2 : ∀ s1, JI s1 (f s1)) : JI s (andThen o f) := by
  rcases h2 o.1 with a | a
  · rcases h1 with b | b
    · exact Or.inl (by rw [andThen_fst, a, b])
    · exact Or.inr (by rw [andThen_fst, a, b])
  · exact Or.inr (by rw [andThen_fst, a])

theorem escapeCore_idle (cfg : Cfg) (s : St) (e : GErr) : (escapeCore cfg s e).1.1.jpc = .idle := by
  unfold escapeCore
  simp only []
  split
  · rw [rejoinCore_jpc']
  · rfl

theorem cancelJoin_ji (cfg : Cfg) (s : St) : JI s (cancelJoin cfg s) := by
  unfold cancelJoin
  split
  · simp only []
    split
    · rename_i hj; exact Or.inr hj
    · right
      simp only [andThen_fst]
      split
      · exact escapeCore_idle _ _ _
      · rfl
      · rfl
    · exact Or.inr rfl
    · exact Or.inr rfl
    · exact Or.inr rfl
    · right; simp only [andThen_fst, rejoinCore_jpc']
    · right; simp only [andThen_fst]; exact escapeCore_idle _ _ _
    · right; simp only [andThen_fst, rejoinCore_jpc']
  · exact Or.inl rfl

theorem finishStop_ji (cfg : Cfg) (s : St) (err : Option GErr) (user : Bool) : JI s (finishStop cfg s err user) := by
  unfold finishStop
  exact JI_andThen (cancelJoin_ji _ _) (fun _ => JI_frame rfl)

theorem leaveOrFinish_ji (cfg : Cfg) (err : Option GErr) (user : Bool) (s : St) : JI s (leaveOrFinish cfg err user s) := by
  unfold leaveOrFinish
  split
  · exact JI_frame rfl
  · exact finishStop_ji _ _ _ _

theorem coordStop_ji (cfg : Cfg) (s : St) (err : Option GErr) (user : Bool) : JI s (coordStop cfg s err user) := by
  unfold coordStop
  split
  · exact JI_frame rfl
  · simp only []
    split
    · exact JI_frame rfl
    · exact JI_andThen (JI_andThen (JI_andThen (JI_frame (by rw [stopCancelDc_jpc'])) (fun _ => JI_frame (stopCancelHb_jpc' _ _)))
        (fun _ => JI_frame (stopLooper_jpc' _))) (fun _ => leaveOrFinish_ji _ _ _ _)

theorem stopLoop_ji (cfg : Cfg) (s : St) (err : Option GErr) (user : Bool) : JI s (stopLoop cfg s err user) := by
  unfold stopLoop
  split
  · exact coordStop_ji _ _ _ _
  · simp only []
    split
    · exact JI_andThen (JI_andThen (o := ((beginDrain s).1, (beginDrain s).2.1)) (JI_frame rfl) (fun _ => JI_frame (drainDone_jpc' _ _ _)))
        (fun _ => coordStop_ji _ _ _ _)
    · exact JI_frame rfl

theorem stopCall_ji (cfg : Cfg) (s : St) (err : Option GErr) (user : Bool) : JI s (stopCall cfg s err user) := by
  unfold stopCall
  rcases stopLoop_ji cfg (if s.started && !s.stopping then { s with stopDraining := true } else s) err user with a | a
  · left; rw [a]; split <;> rfl
  · exact Or.inr a

theorem userStop_ji (cfg : Cfg) (s : St) : JI s (userStop cfg s) := by
  rcases userStop_cases cfg s with ⟨hu, _, _⟩ | hu <;> rw [hu]
  · exact JI_frame rfl
  · exact stopCall_ji _ _ _ _

theorem rejoinAfterError_ji (cfg : Cfg) (s : St) (e : GErr) : JI s (rejoinAfterError cfg s e) := by
  unfold rejoinAfterError
  simp only []
  split
  · exact JI_andThen (JI_frame (rejoinCore_jpc' _ _ _)) (fun _ => stopCall_ji _ _ _ _)
  · exact JI_frame (rejoinCore_jpc' _ _ _)

theorem escape_idle (cfg : Cfg) (s : St) (e : GErr) : (escape cfg s e).1.jpc = .idle := by
  unfold escape
  simp only []
  split
  · simp only [andThen_fst]
    rcases stopCall_ji cfg (escapeCore cfg s e).1.1 (some e) false with a | a
    · rw [a]; exact escapeCore_idle _ _ _
    · exact a
  · exact escapeCore_idle _ _ _

/-! ## `Coordinator.stop` that gets past its guards leaves the member stopping -/

theorem coordStop_stopping (cfg : Cfg) (s : St) (err : Option GErr) (user : Bool) (h : ¬ (!s.started || s.stopping) = true) :
    (coordStop cfg s err user).1.stopping = true := by
  unfold coordStop
  rw [if_neg h]
  simp only []
  split
  · rfl
  · simp only [andThen_fst, leaveOrFinish_stopping', stopLooper_stopping', stopCancelHb_stopping', stopCancelDc_stopping']

/-- a `ConsumerGroup.stop` on a group that holds no consumer and does not end stopping did nothing -/
theorem stopCall_ns {s : St} (hn : NoHeld s) (cfg : Cfg) (err : Option GErr) (user : Bool)
    (h : (stopCall cfg s err user).1.stopping = false) : (stopCall cfg s err user).1 = s := by
  by_cases hg : (!s.started || s.stopping) = true
  · have hc : (s.started && !s.stopping) = false := by
      cases h1 : s.started <;> cases h2 : s.stopping <;> simp_all
    unfold stopCall stopLoop
    rw [hc]
    simp only [Bool.false_eq_true, if_false]
    rw [if_pos ((heldCids_isEmpty s).mpr hn)]
    unfold coordStop
    rw [if_pos hg]
  · exfalso
    have hc : (s.started && !s.stopping) = true := by
      cases h1 : s.started <;> cases h2 : s.stopping <;> simp_all
    have : (stopCall cfg s err user).1.stopping = true := by
      unfold stopCall stopLoop
      rw [hc]
      simp only [if_true]
      rw [if_pos ((heldCids_isEmpty { s with stopDraining := true }).mpr hn)]
      exact coordStop_stopping cfg _ err user hg
    rw [this] at h; cases h


theorem rejoinAfterError_sd {s : St} (hw : WInv s) (cfg : Cfg) (e : GErr)
    (h : (rejoinAfterError cfg s e).1.stopping = false) : (rejoinAfterError cfg s e).1.stopDraining = s.stopDraining := by
  unfold rejoinAfterError rejoinCore at h ⊢
  by_cases hf : (rejoinWith cfg s (rejoinRow s.stopping e)).2 = true
  · have ha := (rejoinWith_flag cfg s _).mp hf
    have hnh := rejoinWith_fatal_noheld hw cfg _ ha
    simp only [hf, if_true, andThen_fst] at h ⊢
    rw [stopCall_ns hnh cfg (some e) false h, rejoinWith_stopDraining']
  · simp only [hf] at h ⊢
    exact rejoinWith_stopDraining' _ _ _

/-- the two facts that keep the ids in place between the join and the sync reply -/
structure MInv (s : St) : Prop where
  k : s.stopping = false → midAll s.jpc → s.stopDraining = false
  i1 : s.stopping = false → midSync s.jpc → s.hbInFlight = false

theorem minv_init : MInv init := ⟨fun _ h => (not_midAll_idle h).elim, fun _ h => (not_midAll_idle (midSync_all h)).elim⟩

/-- mid-exchange (not stopping) every consumer record is stopped -/
theorem no_live_mid {s : St} (h : SInv s) (hd : DInv s) (hm : MInv s) (hns : s.stopping = false) (hj : midAll s.jpc) :
    ∀ c ∈ s.cons, c.phase = .stopped := by
  intro c hc
  have hnh := h.mid_noheld (midAll_midJoin hj) c hc
  have hsd := hm.k hns hj
  have hst : s.stops = [] := by
    cases hx : s.stops with
    | nil => rfl
    | cons a b => have := hd.sflag (by rw [hx]; simp); rw [hsd] at this; cases this
  cases hp : c.phase with
  | stopped => rfl
  | running => have := (h.held_running c hc).mpr hp; rw [hnh] at this; cases this
  | draining =>
    rcases hd.dw c hc hp with ⟨x, _⟩ | ⟨co, hco, _⟩
    · rw [x] at hj; rcases hj with y | ⟨_, y⟩ | y <;> cases y
    · rw [hst] at hco; cases hco

/-- what a step says about a state that is mid-exchange and not stopping after it -/
def Xfer (s : St) (e : Ev) (obs : List Ob) (s' : St) : Prop :=
  s'.stopping = false → midAll s'.jpc →
    s'.stopDraining = false ∧
    (midSync s'.jpc → s'.hbInFlight = false ∧
      ((∃ m g l n, e = .joinDone (.ok m g l n) ∧ obs ≠ [.badOp] ∧ s'.member = m ∧ s'.gen = some g) ∨
       ((∀ m g l n, e = .joinDone (.ok m g l n) → obs = [.badOp]) ∧ s.stopping = false ∧ midSync s.jpc ∧
         s'.member = s.member ∧ s'.gen = s.gen)))

/-- unchanged in everything that matters -/
theorem xfer_same {s : St} (hm : MInv s) (e : Ev) (obs : List Ob) (s' : St)
    (hne : ∀ m g l n, e = .joinDone (.ok m g l n) → obs = [.badOp])
    (e1 : s'.stopping = s.stopping) (e2 : s'.jpc = s.jpc) (e3 : s'.stopDraining = s.stopDraining)
    (e4 : s'.hbInFlight = true → s.hbInFlight = true) (e5 : s'.member = s.member) (e6 : s'.gen = s.gen) : Xfer s e obs s' := by
  intro hns hj
  rw [e1] at hns; rw [e2] at hj
  refine ⟨by rw [e3]; exact hm.k hns hj, fun hsy => ?_⟩
  rw [e2] at hsy
  refine ⟨?_, Or.inr ⟨hne, hns, hsy, e5, e6⟩⟩
  cases hx : s'.hbInFlight with
  | false => rfl
  | true => have := e4 hx; rw [hm.i1 hns hsy] at this; cases this

/-- the step ends with the coroutine finished (or never mid-exchange) -/
theorem xfer_not_mid {s : St} (e : Ev) (obs : List Ob) (s' : St) (h : ¬ midAll s'.jpc) : Xfer s e obs s' :=
  fun _ hj => absurd hj h


theorem joinAndSync_jpc_or (s : St) : (joinAndSync s).1.jpc = s.jpc ∨ (joinAndSync s).1.jpc = .coordLookup := by
  unfold joinAndSync
  simp only []
  split
  · exact Or.inl rfl
  · split
    · exact Or.inl rfl
    · exact Or.inr rfl

theorem afterPrepare_jpc_or (s : St) : (afterPrepare s).1.jpc = .idle ∨ (afterPrepare s).1.jpc = .join := by
  unfold afterPrepare; split
  · exact Or.inl rfl
  · exact Or.inr rfl

theorem prepare_jpc_or (s : St) :
    (prepare s).1.jpc = .hang ∨ (prepare s).1.jpc = .idle ∨ (prepare s).1.jpc = .join ∨ (prepare s).1.jpc = .prepare := by
  unfold prepare
  split
  · exact Or.inl rfl
  · split
    · rcases afterPrepare_jpc_or s with a | a
      · exact Or.inr (Or.inl a)
      · exact Or.inr (Or.inr (Or.inl a))
    · simp only []
      split
      · simp only [andThen_fst]
        rcases afterPrepare_jpc_or (drainDone (beginDrain s).1 (beginDrain s).2.2 (!drainFails s)).1 with a | a
        · exact Or.inr (Or.inl a)
        · exact Or.inr (Or.inr (Or.inl a))
      · exact Or.inr (Or.inr (Or.inr rfl))

theorem prepare_hang (s : St) (h : s.stopDraining = true) : (prepare s).1.jpc = .hang := by
  unfold prepare; simp [h]

theorem not_mid_of {j : JPc} (h : j = .idle ∨ j = .hang ∨ j = .prepare ∨ j = .coordLookup ∨ j = .metaLoad) : ¬ midAll j := by
  intro hm
  rcases h with h | h | h | h | h <;> (rw [h] at hm; rcases hm with x | ⟨_, x⟩ | x <;> cases x)

theorem not_sync_of {j : JPc} (h : j = .idle ∨ j = .hang ∨ j = .prepare ∨ j = .join) : ¬ midSync j := by
  intro hm
  rcases h with h | h | h | h <;> (rw [h] at hm; rcases hm with ⟨_, x⟩ | x <;> cases x)

theorem midAll_of_ji {s : St} {o : Out} (h : JI s o) (hm : midAll o.1.jpc) : midAll s.jpc := by
  rcases h with a | a
  · rw [a] at hm; exact hm
  · rw [a] at hm; exact (not_midAll_idle hm).elim
theorem midSync_of_ji {s : St} {o : Out} (h : JI s o) (hm : midSync o.1.jpc) : midSync s.jpc := by
  rcases h with a | a
  · rw [a] at hm; exact hm
  · rw [a] at hm; exact (not_midAll_idle (midSync_all hm)).elim
theorem ns_of_lk {s : St} {o : Out} (h : LK s o) (hn : o.1.stopping = false) : s.stopping = false := by
  cases hx : s.stopping with
  | false => rfl
  | true => rw [(h hx).1] at hn; cases hn

theorem midAll_of_rae {cfg : Cfg} {x : St} {e : GErr} (h : midAll (rejoinAfterError cfg x e).1.jpc) : midAll x.jpc :=
  midAll_of_ji (rejoinAfterError_ji cfg x e) h
theorem midSync_of_rae {cfg : Cfg} {x : St} {e : GErr} (h : midSync (rejoinAfterError cfg x e).1.jpc) : midSync x.jpc :=
  midSync_of_ji (rejoinAfterError_ji cfg x e) h
theorem ns_of_rae {cfg : Cfg} {x : St} {e : GErr} (h : (rejoinAfterError cfg x e).1.stopping = false) : x.stopping = false :=
  ns_of_lk (rejoinAfterError_lk cfg x e) h

theorem tail_ji (cfg : Cfg) (x : St) (d : Drain) (ok : Bool) (er : Option GErr) (us : Bool) :
    JI x (andThen (drainDone x d ok) fun s => stopLoop cfg s er us) :=
  JI_andThen (JI_frame (drainDone_jpc' _ _ _)) (fun _ => stopLoop_ji _ _ _ _)
theorem tail_lk (cfg : Cfg) (x : St) (d : Drain) (ok : Bool) (er : Option GErr) (us : Bool) :
    LK x (andThen (drainDone x d ok) fun s => stopLoop cfg s er us) :=
  LK_andThen (drainDone_lk _ _ _) (fun _ => stopLoop_lk _ _ _ _)
theorem midAll_of_tail {cfg : Cfg} {x : St} {d : Drain} {ok : Bool} {er : Option GErr} {us : Bool}
    (h : midAll (andThen (drainDone x d ok) fun s => stopLoop cfg s er us).1.jpc) : midAll x.jpc :=
  midAll_of_ji (tail_ji cfg x d ok er us) h
theorem ns_of_tail {cfg : Cfg} {x : St} {d : Drain} {ok : Bool} {er : Option GErr} {us : Bool}
    (h : (andThen (drainDone x d ok) fun s => stopLoop cfg s er us).1.stopping = false) : x.stopping = false :=
  ns_of_lk (tail_lk cfg x d ok er us) h

theorem step_xfer {s : St} (h : SInv s) (hd : DInv s) (hm : MInv s) (cfg : Cfg) (e : Ev) :
    Xfer s e (step cfg s e).2 (step cfg s e).1 := by
  have hw := h.toWInv
  have same : ∀ (e : Ev) (obs : List Ob), (∀ m g l n, e = .joinDone (.ok m g l n) → obs = [.badOp]) → Xfer s e obs s :=
    fun e obs nj => xfer_same hm e obs s nj rfl rfl rfl id rfl rfl
  cases e with
  | start =>
    simp only [step]; split
    · exact same _ _ (fun _ _ _ _ x => by cases x)
    · rcases joinAndSync_jpc_or { s with started := true, startResult := none } with a | a
      · exact xfer_same hm _ _ _ (fun _ _ _ _ x => by cases x) (joinAndSync_stopping' _) a (joinAndSync_stopDraining' _)
          (fun x => by rw [joinAndSync_hbInFlight'] at x; exact x) (joinAndSync_member' _) (joinAndSync_gen' _)
      · exact xfer_not_mid _ _ _ (not_mid_of (by rw [a]; simp))
  | stop =>
    intro hns hj
    have hj0 : midAll s.jpc := midAll_of_ji (userStop_ji cfg s) hj
    have es : (step cfg s .stop).1 = s := by
      rcases userStop_cases cfg s with ⟨hu, _, _⟩ | hu
      · show (userStop cfg s).1 = s
        rw [hu]
      · have hns' : (stopCall cfg s none true).1.stopping = false := by rw [← hu]; exact hns
        show (userStop cfg s).1 = s
        rw [hu]; exact stopCall_ns (h.mid_noheld (midAll_midJoin hj0)) cfg none true hns' 
    rw [es] at hns hj ⊢
    exact same .stop _ (fun _ _ _ _ x => by cases x) hns hj
  | coordDone r =>
    simp only [step]; split
    · exact same _ _ (fun _ _ _ _ x => by cases x)
    · cases r with
      | ok => exact xfer_not_mid _ _ _ (not_mid_of (by simp))
      | none => exact xfer_not_mid _ _ _ (not_mid_of (by simp [andThen]))
      | err e =>
        simp only []
        split
        · exact xfer_not_mid _ _ _ (not_mid_of (Or.inl (escape_idle _ _ _)))
        · exact xfer_not_mid _ _ _ (not_mid_of (by simp [andThen]))
        · exact xfer_not_mid _ _ _ (not_mid_of (by simp [andThen]))
  | metaDone r =>
    simp only [step]; split
    · exact same _ _ (fun _ _ _ _ x => by cases x)
    · cases r with
      | err e => exact xfer_not_mid _ _ _ (not_mid_of (Or.inl (escape_idle _ _ _)))
      | ok =>
        simp only []
        split
        · exact xfer_not_mid _ _ _ (not_mid_of (by simp))
        · intro hns hj
          refine ⟨?_, fun hsy => ?_⟩
          · rw [prepare_stopDraining']
            cases hsd : s.stopDraining with
            | false => rfl
            | true =>
              have := prepare_hang { s with coordBroker := true } hsd
              rw [this] at hj; exact (not_mid_of (Or.inr (Or.inl rfl)) hj).elim
          · exfalso
            rcases prepare_jpc_or { s with coordBroker := true } with a | a | a | a
            · exact not_sync_of (Or.inr (Or.inl a)) hsy
            · exact not_sync_of (Or.inl a) hsy
            · exact not_sync_of (Or.inr (Or.inr (Or.inr a))) hsy
            · exact not_sync_of (Or.inr (Or.inr (Or.inl a))) hsy
  | joinDone r =>
    cases r with
    | err e =>
      simp only [step]; split
      · exact same _ _ (fun _ _ _ _ x => by cases x)
      · refine xfer_not_mid _ _ _ (not_mid_of (Or.inl ?_))
        simp only [andThen_fst]
        rcases rejoinAfterError_ji cfg { s with jpc := .idle } e with a | a <;> exact a
    | ok m g l n =>
      by_cases hj : (s.jpc != .join) = true
      · have e1 : step cfg s (.joinDone (.ok m g l n)) = (s, [.badOp]) := by simp only [step, hj, if_true]
        rw [e1]
        exact same _ _ (fun _ _ _ _ _ => rfl)
      · have hj' : s.jpc = .join := by simpa using hj
        have hnb := joinOk_ne_bad cfg s m g l n hj
        intro hns hmid
        by_cases hs : s.stopping = true
        · exfalso
          have : (step cfg s (.joinDone (.ok m g l n))).1.stopping = true := by simp [step, hj, hs, abandonHb_eq, andThen]
          rw [this] at hns; cases hns
        · have hns0 : s.stopping = false := by simpa using hs
          cases l with
          | true =>
            have e1 : (step cfg s (.joinDone (.ok m g true n))).1 =
                { s with member := m, gen := some g, hbInFlight := false, jpc := .loadParts n } := by
              simp [step, hj, hs, abandonHb_eq, andThen]
            rw [e1]
            exact ⟨hm.k hns0 (Or.inl hj'), fun _ => ⟨rfl, Or.inl ⟨m, g, true, n, rfl, hnb, rfl, rfl⟩⟩⟩
          | false =>
            have e1 : (step cfg s (.joinDone (.ok m g false n))).1 =
                { s with member := m, gen := some g, hbInFlight := false, jpc := .sync } := by
              simp [step, hj, hs, abandonHb_eq, andThen]
            rw [e1]
            exact ⟨hm.k hns0 (Or.inl hj'), fun _ => ⟨rfl, Or.inl ⟨m, g, false, n, rfl, hnb, rfl, rfl⟩⟩⟩
  | partsDone r =>
    simp only [step]; split
    · rename_i n hjp
      cases r with
      | err e => exact xfer_not_mid _ _ _ (not_mid_of (Or.inl (escape_idle _ _ _)))
      | ok =>
        simp only []
        split
        · exact xfer_not_mid _ _ _ (not_mid_of (by simp))
        · intro hns _
          have hns0 : s.stopping = false := hns
          have hms : midSync s.jpc := Or.inl ⟨n, hjp⟩
          exact ⟨hm.k hns0 (midSync_all hms), fun _ => ⟨hm.i1 hns0 hms, Or.inr ⟨(fun _ _ _ _ x => by cases x), hns0, hms, rfl, rfl⟩⟩⟩
    · exact same _ _ (fun _ _ _ _ x => by cases x)
  | syncDone r =>
    simp only [step]; split
    · exact same _ _ (fun _ _ _ _ x => by cases x)
    · cases r with
      | err e =>
        refine xfer_not_mid _ _ _ (not_mid_of (Or.inl ?_))
        simp only [andThen_fst]
        rcases rejoinAfterError_ji cfg { s with jpc := .idle } e with a | a <;> exact a
      | ok a =>
        simp only []
        split
        · exact xfer_not_mid _ _ _ (not_mid_of (by simp))
        · exact xfer_not_mid _ _ _ (not_mid_of (by simp [andThen, startConsumers]))
  | hbDone r =>
    simp only [step]; split
    · exact same _ _ (fun _ _ _ _ x => by cases x)
    · rename_i hfl
      cases r with
      | ok => exact xfer_same hm _ _ _ (fun _ _ _ _ x => by cases x) rfl rfl rfl (fun x => by cases x) rfl rfl
      | err e =>
        simp only []
        split
        · intro hns hj
          simp only [andThen_fst] at hns hj ⊢
          have w1 := hbStop_winv (winv_hbInFlight hw false (fun x => by cases x)) rfl
          have hj0 := midAll_of_rae hj
          have hns0 := ns_of_rae hns
          refine ⟨?_, fun hsy => ?_⟩
          · rw [rejoinAfterError_sd w1 cfg e hns]; exact hm.k hns0 hj0
          · exfalso
            have hsy0 := midSync_of_rae hsy
            have := hm.i1 hns0 hsy0
            rw [this] at hfl; simp at hfl
        · exact xfer_same hm _ _ _ (fun _ _ _ _ x => by cases x) rfl rfl rfl (fun x => by cases x) rfl rfl
  | leaveDone r =>
    simp only [step]; split
    · exact same _ _ (fun _ _ _ _ x => by cases x)
    · rename_i err user hl
      intro hns _
      exfalso
      have hst := hw.leave_stop (by rw [hl]; rfl)
      rw [finishStop_stopping'] at hns
      cases r with
      | ok => have hns' : s.stopping = false := hns; rw [hst] at hns'; cases hns'
      | err e1 => have hns' : s.stopping = false := hns; rw [hst] at hns'; cases hns'
  | consumerDown cid ok =>
    simp only [step]; split
    · rename_i hg
      unfold consumerDown
      simp only []
      split
      · rename_i hp
        simp only [Bool.and_eq_true, decide_eq_true_eq] at hp
        split
        · exact xfer_not_mid _ _ _ (not_mid_of (Or.inr (Or.inr (Or.inl hp.1))))
        · intro hns hj
          refine ⟨?_, fun hsy => ?_⟩
          · simp only [andThen_fst, afterPrepare_stopDraining', drainDone_stopDraining']
            rcases hd.pflag hp.1 with x | x
            · exact x
            · simp only [andThen_fst, afterPrepare_stopping', drainDone_stopping'] at hns
              have hns' : s.stopping = false := hns
              rw [x] at hns'; cases hns'
          · exfalso
            rw [andThen_fst] at hsy
            rcases afterPrepare_jpc_or _ with a | a
            · rw [a] at hsy; exact not_sync_of (Or.inl rfl) hsy
            · rw [a] at hsy; exact not_sync_of (Or.inr (Or.inr (Or.inr rfl))) hsy
      · split
        · exact xfer_same hm _ _ _ (fun _ _ _ _ x => by cases x) rfl rfl rfl id rfl rfl
        · split
          · exact xfer_same hm _ _ _ (fun _ _ _ _ x => by cases x) rfl rfl rfl id rfl rfl
          · intro hns hj
            exfalso
            have hj0 := midAll_of_tail hj
            have hns0 := ns_of_tail hns
            have hall := no_live_mid h hd hm hns0 hj0
            obtain ⟨c, hc, hcp⟩ := List.any_eq_true.mp hg
            simp only [Bool.and_eq_true, decide_eq_true_eq] at hcp
            rw [hall c hc] at hcp; cases hcp.2
    · exact same _ _ (fun _ _ _ _ x => by cases x)
  | consumerErr cid e =>
    simp only [step]; split
    · rename_i hg
      split
      · exact xfer_same hm _ _ _ (fun _ _ _ _ x => by cases x) rfl rfl rfl id rfl rfl
      · intro hns hj
        exfalso
        have hj0 := midAll_of_rae hj
        have hns0 := ns_of_rae hns
        have hall := no_live_mid h hd hm hns0 hj0
        obtain ⟨c, hc, hcp⟩ := List.any_eq_true.mp hg
        simp only [Bool.and_eq_true, decide_eq_true_eq, bne_iff_ne, ne_eq] at hcp
        exact hcp.1.2 (hall c hc)
    · exact same _ _ (fun _ _ _ _ x => by cases x)
  | consumerQuirk cid q =>
    simp only [step]; split
    · exact xfer_same hm _ _ _ (fun _ _ _ _ x => by cases x) rfl rfl rfl id rfl rfl
    · exact same _ _ (fun _ _ _ _ x => by cases x)
  | fire id hbNext =>
    simp only [step]
    split
    · exact same _ _ (fun _ _ _ _ x => by cases x)
    split
    · exact same _ _ (fun _ _ _ _ x => by cases x)
    · split
      · exact same _ _ (fun _ _ _ _ x => by cases x)
      · have js : Xfer s (.fire id hbNext) (joinAndSync { s with timers := s.timers.filter (·.id != id) }).2
            (joinAndSync { s with timers := s.timers.filter (·.id != id) }).1 := by
          rcases joinAndSync_jpc_or { s with timers := s.timers.filter (·.id != id) } with a | a
          · exact xfer_same hm _ _ _ (fun _ _ _ _ x => by cases x) (joinAndSync_stopping' _) a (joinAndSync_stopDraining' _)
              (fun x => by rw [joinAndSync_hbInFlight'] at x; exact x) (joinAndSync_member' _) (joinAndSync_gen' _)
          · exact xfer_not_mid _ _ _ (not_mid_of (by rw [a]; simp))
        split
        · exact js
        · exact js
        · by_cases hbl : (s.stopping || s.rejoinNeeded || s.hbInFlight) = true
          · simp only [hbl, if_true, andThen_fst, andThen_snd]
            split <;> exact xfer_same hm _ _ _ (fun _ _ _ _ x => by cases x) rfl rfl rfl (fun x => x) rfl rfl
          · have hidle : s.jpc = .idle := by
              cases hj : s.jpc with
              | idle => rfl
              | _ =>
                exfalso
                rcases h.jpc_needed (by rw [hj]; simp) with x | x <;> simp [x] at hbl
            refine xfer_not_mid _ _ _ (not_mid_of (Or.inl ?_))
            simp only [hbl, andThen_fst]
            split <;> (try split) <;> exact hidle
  | advance dt =>
    simp only [step]; split
    · exact same _ _ (fun _ _ _ _ x => by cases x)
    · exact xfer_same hm _ _ _ (fun _ _ _ _ x => by cases x) rfl rfl rfl id rfl rfl


theorem step_minv {s : St} (h : SInv s) (hd : DInv s) (hm : MInv s) (cfg : Cfg) (e : Ev) : MInv (step cfg s e).1 :=
  ⟨fun a b => (step_xfer h hd hm cfg e a b).1, fun a b => ((step_xfer h hd hm cfg e a (midSync_all b)).2 b).1⟩

/-- consumers are started only by the processed successful sync reply of a member that is not
    stopping, with the ids it has before that step -/
theorem start_obs_ids (cfg : Cfg) (s : St) (e : Ev) (cid t : Nat) (p : Int) (g : Option Int) (mem : Nat) (off : Int)
    (ho : Ob.consumerStart cid t p g mem off ∈ (step cfg s e).2) :
    (∃ a, e = .syncDone (.ok a)) ∧ s.jpc = .sync ∧ s.stopping = false ∧ g = s.gen ∧ mem = s.member := by
  have hsig := mem_sig ho (not_bg_of_start (o := .consumerStart cid t p g mem off) rfl)
  rw [step_sig] at hsig
  by_cases hsync : ∃ a, e = .syncDone (.ok a)
  · obtain ⟨a, rfl⟩ := hsync
    simp only [expectedSig] at hsig
    split at hsig
    · cases hsig
    · rename_i hj
      split at hsig
      · cases hsig
      · rename_i hst
        unfold startObs at hsig
        obtain ⟨x, _, hx⟩ := List.mem_map.mp hsig
        injection hx with _ _ _ h4 h5 _
        exact ⟨⟨a, rfl⟩, by simpa using hj, by simpa using hst, h4.symm, h5.symm⟩
  · exfalso
    have := expectedSig_no_start s e (fun a ha => hsync ⟨a, ha⟩)
    have hm : Ob.consumerStart cid t p g mem off ∈ (expectedSig s e).filter isStartOb := List.mem_filter.mpr ⟨hsig, rfl⟩
    rw [this] at hm; cases hm

/-- ghost of the monitor's `ids` -/
def Gh (ids : Option (Nat × Int)) (s : St) : Prop :=
  s.stopping = false → midSync s.jpc → ∃ g, s.gen = some g ∧ ids = some (s.member, g)

def ids'f (ids : Option (Nat × Int)) (e : Ev) (obs : List Ob) : Option (Nat × Int) :=
  match e with
  | .joinDone (.ok mem g _ _) => if obs == [.badOp] then ids else some (mem, g)
  | _ => ids

theorem startsWithJoinIdsFrom_cons (ids : Option (Nat × Int)) (m : MStep) (ms : List MStep) :
    startsWithJoinIdsFrom ids (m :: ms) =
      ((m.obs.all fun
        | .consumerStart _ _ _ g mem _ => ids'f ids m.ev m.obs == some (mem, g.getD 0) && g.isSome
        | _ => true) && startsWithJoinIdsFrom (ids'f ids m.ev m.obs) ms) := by
  cases m with
  | mk ev obs sn =>
    cases ev <;> (try rfl)
    all_goals (rename_i r; cases r <;> rfl)

theorem startsWithJoinIds_runFrom (cfg : Cfg) (evs : List Ev) :
    ∀ (s : St) (ids : Option (Nat × Int)), SInv s → DInv s → MInv s → Gh ids s →
      startsWithJoinIdsFrom ids (toMSteps (runFrom cfg s evs)) = true := by
  induction evs with
  | nil => intro s ids _ _ _ _; rfl
  | cons e es ih =>
    intro s ids h hd hm hg
    simp only [runFrom, toMSteps, List.map_cons]
    rw [startsWithJoinIdsFrom_cons, Bool.and_eq_true]
    simp only []
    constructor
    · rw [List.all_eq_true]
      intro o ho
      cases o with
      | consumerStart cid t p g mem off =>
        obtain ⟨⟨a, rfl⟩, hj, hst, rfl, rfl⟩ := start_obs_ids cfg s e cid t p g mem off ho
        obtain ⟨g0, hg0, hid⟩ := hg hst (Or.inr hj)
        simp only [ids'f, hid, hg0, Option.getD_some, beq_self_eq_true, Option.isSome_some, Bool.and_self]
      | _ => rfl
    · refine ih _ _ (step_sinv h cfg e) (step_dinv hd h cfg e) (step_minv h hd hm cfg e) ?_
      intro hns hsy
      rcases ((step_xfer h hd hm cfg e hns (midSync_all hsy)).2 hsy).2 with ⟨m, g, l, n, rfl, hnb, hme, hge⟩ | ⟨hnj, hns0, hsy0, hme, hge⟩
      · refine ⟨g, hge, ?_⟩
        have hb : ((step cfg s (.joinDone (.ok m g l n))).2 == [.badOp]) = false := by simpa using hnb
        simp only [ids'f, hb, Bool.false_eq_true, if_false, hme]
      · obtain ⟨g0, hg0, hid⟩ := hg hns0 hsy0
        refine ⟨g0, by rw [hge]; exact hg0, ?_⟩
        rw [hme]
        cases e with
        | joinDone r =>
          cases r with
          | ok m g l n =>
            have := hnj m g l n rfl
            simp only [ids'f, this, beq_self_eq_true, if_true]; exact hid
          | err e1 => exact hid
        | _ => exact hid

/-- **C16 consumers get the ids of the last successful join reply**, on every run -/
theorem startsWithJoinIds_run (cfg : Cfg) (evs : List Ev) : startsWithJoinIds (toMSteps (run cfg evs)) = true :=
  startsWithJoinIds_runFrom cfg evs init none sinv_init dinv_init minv_init
    (fun _ h => (not_midAll_idle (midSync_all h)).elim)

end Afkak.Group
