import AfkakProofs.Group.Obs
/-!
# The helpers never emit `badOp`

`nb o`: background and not `badOp` (the driver's marker for an event the member does not process).
Same family as `Obs.lean`, for the finer predicate.
-/
namespace Afkak.Group
open Afkak.Consts

def nb (o : Ob) : Bool := bg o && o != .badOp

def NB (obs : List Ob) : Prop := ∀ o ∈ obs, nb o = true

@[simp] theorem NB_nil : NB [] := by intro o h; cases h
@[simp] theorem NB_append (a b : List Ob) : NB (a ++ b) ↔ NB a ∧ NB b := by
  unfold NB; constructor
  · intro h; exact ⟨fun o ho => h o (List.mem_append_left _ ho), fun o ho => h o (List.mem_append_right _ ho)⟩
  · intro ⟨h1, h2⟩ o ho; rcases List.mem_append.mp ho with x | x
    · exact h1 o x
    · exact h2 o x
@[simp] theorem NB_cons (o : Ob) (l : List Ob) : NB (o :: l) ↔ nb o = true ∧ NB l := by
  unfold NB; simp
theorem NB_map_stop (l : List Con) : NB (l.map fun c => .consumerStop c.cid) := by
  intro o ho; obtain ⟨c, _, rfl⟩ := List.mem_map.mp ho; rfl
theorem NB_map_shutdown (l : List Nat) : NB (l.map .consumerShutdown) := by
  intro o ho; obtain ⟨c, _, rfl⟩ := List.mem_map.mp ho; rfl
theorem NB_map_cancel (l : List Nat) : NB (l.map .cancelTimer) := by
  intro o ho; obtain ⟨c, _, rfl⟩ := List.mem_map.mp ho; rfl
theorem NB_andThen {o : Out} {f : St → Out} (h1 : NB o.2) (h2 : ∀ s, NB (f s).2) : NB (andThen o f).2 := by
  simp only [andThen_snd, NB_append]; exact ⟨h1, h2 _⟩

theorem stopCons_nb (s : St) (cids : List Nat) : NB (stopCons s cids).2 := NB_map_stop _
theorem stopConsumers_nb (s : St) : NB (stopConsumers s).2 := NB_map_stop _
theorem addTimer_nb (s : St) (k : TKind) (d : Rat) : NB (addTimer s k d).2 := by simp [nb, bg]
theorem cancelTimer_nb (s : St) (id : Nat) : NB (cancelTimer s id).2 := by simp [cancelTimer, nb, bg]
theorem hbStop_nb (s : St) : NB (hbStop s).2 := NB_map_cancel _
theorem hbSchedule_nb (cfg : Cfg) (s : St) : NB (hbSchedule cfg s).2 := addTimer_nb _ _ _
theorem resetHeartbeat_nb (cfg : Cfg) (s : St) : NB (resetHeartbeat cfg s).2 := by
  unfold resetHeartbeat
  split
  · exact NB_andThen (NB_map_cancel _) (fun _ => hbSchedule_nb _ _)
  · exact hbSchedule_nb _ _

theorem rowEffects_nb (s : St) (row : RejoinRow) : NB (rowEffects s row).2 := by
  unfold rowEffects
  refine NB_andThen (NB_andThen ?_ (fun _ => ?_)) (fun _ => NB_nil)
  · split
    · exact stopConsumers_nb s
    · exact NB_nil
  · simp only []; split <;> simp [nb, bg]

theorem scheduleRejoin_nb (cfg : Cfg) (s : St) (fd : Bool) : NB (scheduleRejoin cfg s fd).2 := by
  unfold scheduleRejoin
  simp only []
  split
  · exact NB_andThen (addTimer_nb _ _ _) (fun _ => NB_nil)
  · exact NB_nil

theorem rejoinWith_nb (cfg : Cfg) (s : St) (row : RejoinRow) : NB (rejoinWith cfg s row).1.2 := by
  unfold rejoinWith
  split
  · exact NB_nil
  · exact stopConsumers_nb s
  · exact rowEffects_nb s row
  · exact NB_andThen (rowEffects_nb s row) (fun _ => scheduleRejoin_nb _ _ _)

theorem rejoinCore_nb (cfg : Cfg) (s : St) (e : GErr) : NB (rejoinCore cfg s e).1.2 := rejoinWith_nb _ _ _

theorem escapeCore_nb (cfg : Cfg) (s : St) (e : GErr) : NB (escapeCore cfg s e).1.2 := by
  unfold escapeCore
  simp only []
  split
  · exact rejoinCore_nb _ _ _
  · exact NB_nil

theorem cancelJoin_nb (cfg : Cfg) (s : St) : NB (cancelJoin cfg s).2 := by
  unfold cancelJoin
  split
  · simp only []
    split
    · exact NB_nil
    · refine NB_andThen (by simp [nb, bg]) (fun _ => ?_)
      split
      · exact escapeCore_nb _ _ _
      · exact NB_andThen (addTimer_nb _ _ _) (fun _ => NB_nil)
      · exact NB_andThen (addTimer_nb _ _ _) (fun _ => NB_nil)
    · simp [nb, bg]
    · exact NB_andThen (stopCons_nb _ _) (fun _ => NB_nil)
    · exact NB_nil
    · exact NB_andThen (by simp [nb, bg]) (fun _ => rejoinCore_nb _ _ _)
    · exact NB_andThen (by simp [nb, bg]) (fun _ => escapeCore_nb _ _ _)
    · exact NB_andThen (by simp [nb, bg]) (fun _ => rejoinCore_nb _ _ _)
  · exact NB_nil

theorem finishStop_nb (cfg : Cfg) (s : St) (err : Option GErr) (user : Bool) : NB (finishStop cfg s err user).2 := by
  unfold finishStop
  refine NB_andThen (cancelJoin_nb _ _) (fun s' => ?_)
  simp only [NB_append]
  constructor
  · split <;> simp [nb, bg]
  · split <;> simp [nb, bg]

theorem stopCancelDc_nb (s : St) : NB (stopCancelDc s).2 := by
  unfold stopCancelDc
  split
  · exact cancelTimer_nb _ _
  · exact NB_nil

theorem stopCancelHb_nb (cfg : Cfg) (s : St) : NB (stopCancelHb cfg s).2 := by
  unfold stopCancelHb
  split
  · simp only []
    split
    · exact NB_andThen (NB_andThen (by simp [nb, bg]) (fun _ => hbStop_nb _)) (fun _ => rejoinCore_nb _ _ _)
    · simp [nb, bg]
  · exact NB_nil

theorem stopLooper_nb (s : St) : NB (stopLooper s).2 := by
  unfold stopLooper
  split
  · exact hbStop_nb _
  · exact NB_nil

theorem leaveOrFinish_nb (cfg : Cfg) (err : Option GErr) (user : Bool) (s : St) : NB (leaveOrFinish cfg err user s).2 := by
  unfold leaveOrFinish
  split
  · simp [nb, bg]
  · exact finishStop_nb _ _ _ _

theorem coordStop_nb (cfg : Cfg) (s : St) (err : Option GErr) (user : Bool) : NB (coordStop cfg s err user).2 := by
  unfold coordStop
  split
  · split <;> simp [nb, bg]
  · simp only []
    split
    · simp [nb, bg]
    · exact NB_andThen (NB_andThen (NB_andThen (stopCancelDc_nb _) (fun _ => stopCancelHb_nb _ _)) (fun _ => stopLooper_nb _))
        (fun _ => leaveOrFinish_nb _ _ _ _)

theorem drainDone_nb (s : St) (d : Drain) (ok : Bool) : NB (drainDone s d ok).2 := by
  unfold drainDone
  split
  · exact NB_nil
  · exact stopCons_nb _ _

theorem beginDrain_nb (s : St) : NB (beginDrain s).2.1 := by
  unfold beginDrain
  intro o ho
  simp only [List.mem_flatMap] at ho
  obtain ⟨c, _, hc⟩ := ho
  split at hc <;> simp at hc <;> rcases hc with rfl | rfl <;> rfl

theorem stopLoop_nb (cfg : Cfg) (s : St) (err : Option GErr) (user : Bool) : NB (stopLoop cfg s err user).2 := by
  unfold stopLoop
  split
  · exact coordStop_nb _ _ _ _
  · simp only []
    split
    · exact NB_andThen (NB_andThen (beginDrain_nb s) (fun _ => drainDone_nb _ _ _)) (fun _ => coordStop_nb _ _ _ _)
    · exact beginDrain_nb s

theorem stopCall_nb (cfg : Cfg) (s : St) (err : Option GErr) (user : Bool) : NB (stopCall cfg s err user).2 :=
  stopLoop_nb _ _ _ _

theorem rejoinAfterError_nb (cfg : Cfg) (s : St) (e : GErr) : NB (rejoinAfterError cfg s e).2 := by
  unfold rejoinAfterError
  simp only []
  split
  · exact NB_andThen (rejoinCore_nb _ _ _) (fun _ => stopCall_nb _ _ _ _)
  · exact rejoinCore_nb _ _ _

theorem escape_nb (cfg : Cfg) (s : St) (e : GErr) : NB (escape cfg s e).2 := by
  unfold escape
  simp only []
  split
  · exact NB_andThen (escapeCore_nb _ _ _) (fun _ => stopCall_nb _ _ _ _)
  · exact escapeCore_nb _ _ _

/-- a processed successful join reply is never mistaken for an event that was not enabled -/
theorem joinOk_ne_bad (cfg : Cfg) (s : St) (m : Nat) (g : Int) (l : Bool) (n : Nat) (hj : ¬ (s.jpc != .join) = true) :
    (step cfg s (.joinDone (.ok m g l n))).2 ≠ [.badOp] := by
  by_cases hf : s.hbInFlight = true <;> by_cases hs : s.stopping = true <;> cases l <;>
    simp [step, hj, hs, hf, abandonHb, andThen]

end Afkak.Group
