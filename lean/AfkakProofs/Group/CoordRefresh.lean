import AfkakProofs.Group.Retry
import Afkak.Monitor.C17Coord
/-!
# C17 an error that casts doubt on the cached coordinator invalidates it (monitor
`coordinatorRefreshed` on every model trace)

The table fact (`suspect_resets`) re-checks whenever the extractor regenerates `rejoinRow` from
`rejoin_after_error`; the rest routes every join / sync / heartbeat / consumer error of a started,
not stopping member through `rejoin_after_error` → `rowEffects`.
-/
namespace Afkak.Group
open Afkak.Consts Afkak.Monitor.C17 Afkak.Monitor.C17Coord

/-- the source's table: a time-out, NotCoordinator and CoordinatorNotAvailable reset the cached
    coordinator (whether or not stopping), and are Kafka errors -/
theorem Tables.suspect_resets (st : Bool) (e : GErr) (h : suspectsCoordinator e = true) :
    (rejoinRow st e).resetMeta = true ∧ isKafka e = true := by
  cases st <;> cases e <;> simp_all [suspectsCoordinator] <;> decide

theorem rowEffects_reset (s : St) (row : RejoinRow) (h : row.resetMeta = true) :
    Ob.resetGroupMeta ∈ (rowEffects s row).2 := by
  unfold rowEffects
  simp only [andThen_snd, h, if_true, List.append_nil, List.mem_append, List.mem_singleton, or_true]

theorem rejoinAfterError_resets (cfg : Cfg) (s : St) (e : GErr) (h : suspectsCoordinator e = true)
    (hs : s.stopping = false) : Ob.resetGroupMeta ∈ (rejoinAfterError cfg s e).2 := by
  obtain ⟨hr, hk⟩ := Tables.suspect_resets false e h
  rw [rejoinAfterError_kafka cfg s e hk hs]
  unfold rejoinWith
  rw [Tables.kafka_rejoins e hk]
  simp only [andThen_snd]
  exact List.mem_append_left _ (rowEffects_reset s _ hr)

theorem coordRefreshed_step {s : St} (h : SInv s) (cfg : Cfg) (e : Ev) :
    coordRefreshedStep (snap s) ⟨e, (step cfg s e).2, snap (step cfg s e).1⟩ = true := by
  unfold coordRefreshedStep
  cases hev : errorOf e with
  | none => rfl
  | some se =>
    obtain ⟨site, e0⟩ := se
    cases site with
    | lookup => rfl
    | escape => rfl
    | request =>
      simp only []
      by_cases hk : suspectsCoordinator e0 = true
      · by_cases hpre : (snap s).started = true ∧ (snap s).stopping = false
        · obtain ⟨hst, hsp⟩ := hpre
          have hsp' : s.stopping = false := hsp
          simp only [hk, Bool.not_true, Bool.false_or, hst, hsp, Bool.not_false, Bool.and_self]
          rw [Bool.or_eq_true]
          cases e with
          | joinDone r =>
            cases r with
            | ok m g l n => simp [errorOf] at hev
            | err e1 =>
              simp only [errorOf, Option.some.injEq, Prod.mk.injEq] at hev
              obtain ⟨_, rfl⟩ := hev
              simp only [step]
              split
              · left; rfl
              · right
                simp only [andThen_snd, List.append_nil, List.contains_eq_mem, decide_eq_true_eq]
                exact rejoinAfterError_resets cfg _ e1 hk hsp'
          | syncDone r =>
            cases r with
            | ok a => simp [errorOf] at hev
            | err e1 =>
              simp only [errorOf, Option.some.injEq, Prod.mk.injEq] at hev
              obtain ⟨_, rfl⟩ := hev
              simp only [step]
              split
              · left; rfl
              · right
                simp only [andThen_snd, List.append_nil, List.contains_eq_mem, decide_eq_true_eq]
                exact rejoinAfterError_resets cfg _ e1 hk hsp'
          | hbDone r =>
            cases r with
            | ok => simp [errorOf] at hev
            | err e1 =>
              simp only [errorOf, Option.some.injEq, Prod.mk.injEq] at hev
              obtain ⟨_, rfl⟩ := hev
              simp only [step]
              split
              · left; rfl
              · rename_i hf
                have hf' : s.hbInFlight = true := by simpa using hf
                have hrun : s.hbRunning = true := by
                  cases hr : s.hbRunning
                  · rw [(h.hb_timer hr).2] at hf'; cases hf'
                  · rfl
                right
                show ((if s.hbRunning = true then andThen (hbStop { s with hbInFlight := false }) fun s => rejoinAfterError cfg s e1
                        else ({ s with hbInFlight := false }, [.raised "AssertionError"])).2.contains .resetGroupMeta) = true
                rw [if_pos hrun]
                simp only [andThen_snd, List.contains_eq_mem, decide_eq_true_eq]
                refine List.mem_append_right _ (rejoinAfterError_resets cfg _ e1 hk ?_)
                unfold hbStop; exact hsp'
          | consumerErr cid e1 =>
            simp only [errorOf, Option.some.injEq, Prod.mk.injEq] at hev
            obtain ⟨_, rfl⟩ := hev
            simp only [step]
            split
            · right
              have hne : e1 ≠ GErr.cancelled := by intro hx; rw [hx] at hk; cases hk
              split
              · rename_i hx; simp only [Bool.and_eq_true, decide_eq_true_eq] at hx; exact absurd hx.1 hne
              · simp only [List.contains_eq_mem, decide_eq_true_eq]
                exact rejoinAfterError_resets cfg _ e1 hk hsp'
            · left; rfl
          | coordDone r => cases r <;> simp [errorOf] at hev
          | metaDone r => cases r <;> simp [errorOf] at hev
          | partsDone r => cases r <;> simp [errorOf] at hev
          | _ => simp [errorOf] at hev
        · have : ((snap s).started && !(snap s).stopping) = false := by
            cases h1 : (snap s).started <;> cases h2 : (snap s).stopping <;> simp_all
          simp [this]
      · simp [hk]

theorem coordRefreshed_runFrom (cfg : Cfg) (evs : List Ev) :
    ∀ s, SInv s → coordRefreshedFrom (snap s) (toMSteps (runFrom cfg s evs)) = true := by
  induction evs with
  | nil => intro s _; rfl
  | cons e es ih =>
    intro s h
    simp only [runFrom, toMSteps, List.map_cons, coordRefreshedFrom, Bool.and_eq_true]
    exact ⟨coordRefreshed_step h cfg e, ih _ (step_sinv h cfg e)⟩

theorem coordRefreshed_run (cfg : Cfg) (evs : List Ev) : coordinatorRefreshed (toMSteps (run cfg evs)) = true :=
  coordRefreshed_runFrom cfg evs init sinv_init

end Afkak.Group
