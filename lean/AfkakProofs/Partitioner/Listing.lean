import AfkakProofs.Partitioner
import AfkakProofs.Client.Dict
/-!
# Cross-layer: the order in which a broker lists the partitions of a topic does not matter

`KafkaClient._merge_topic_metadata` stores `sorted(partition ids)` as `topic_partitions[topic]`
(`Afkak.ClientCache.mergeTopic`), `Producer._next_partition` hands that list to the partitioner
(`Afkak.Partitioner.hashed` / `rrPartition`).  For a topic whose partitions are `0 … n-1` — listed by the
broker in ANY order — the list the partitioner sees is `[0, …, n-1]`, so the hashed partitioner's choice
is the Java client's `toPositive(murmur2(key)) % numPartitions` and the round-robin partitioner works on
an ascending list (the hypothesis of the fairness theorems).
-/
namespace Afkak.Partitioner

/-- the partition ids of a topic with `n` partitions -/
def ids (n : Nat) : List Int := (List.range n).map Int.ofNat

theorem insertInt_sorted (a : Int) : ∀ (l : List Int), l.Pairwise (· ≤ ·) → (insertInt a l).Pairwise (· ≤ ·)
  | [], _ => by simp [insertInt]
  | b :: l, h => by
    unfold insertInt
    split
    · rename_i hab
      refine List.Pairwise.cons ?_ h
      intro x hx
      rcases List.mem_cons.mp hx with rfl | hx
      · exact hab
      · exact Int.le_trans hab ((List.pairwise_cons.mp h).1 x hx)
    · rename_i hab
      have hba : b ≤ a := Int.le_of_lt (Int.not_le.mp hab)
      refine List.Pairwise.cons ?_ (insertInt_sorted a l (List.pairwise_cons.mp h).2)
      intro x hx
      have : x ∈ a :: l := (insertInt_perm a l).subset hx
      rcases List.mem_cons.mp this with rfl | hx
      · exact hba
      · exact (List.pairwise_cons.mp h).1 x hx

theorem sortInts_sorted : ∀ (l : List Int), (sortInts l).Pairwise (· ≤ ·)
  | [] => by simp [sortInts]
  | a :: l => by
    unfold sortInts
    exact insertInt_sorted a _ (sortInts_sorted l)

/-- `sorted()` of two listings of the same partitions is the same list -/
theorem sortInts_eq_of_perm {l₁ l₂ : List Int} (h : l₁.Perm l₂) : sortInts l₁ = sortInts l₂ := by
  apply List.Perm.eq_of_pairwise (le := (· ≤ ·))
  · intro a b _ _ hab hba; exact Int.le_antisymm hab hba
  · exact sortInts_sorted l₁
  · exact sortInts_sorted l₂
  · exact (sortInts_perm l₁).trans (h.trans (sortInts_perm l₂).symm)

theorem ids_sorted (n : Nat) : (ids n).Pairwise (· ≤ ·) := by
  unfold ids
  rw [List.pairwise_map]
  exact (List.pairwise_lt_range (n := n)).imp (fun h => by exact Int.ofNat_le.mpr (Nat.le_of_lt h))

/-- whatever the listing order, the sorted list is `[0, …, n-1]` -/
theorem sortInts_listing {listing : List Int} {n : Nat} (h : listing.Perm (ids n)) : sortInts listing = ids n := by
  rw [sortInts_eq_of_perm h, sortInts_of_sorted (ids_sorted n)]

theorem ids_length (n : Nat) : (ids n).length = n := by simp [ids]

theorem ids_getElem? (n i : Nat) (h : i < n) : (ids n)[i]? = some (Int.ofNat i) := by
  simp [ids, h]

theorem ids_nodup (n : Nat) : (ids n).Nodup := by
  unfold ids List.Nodup
  rw [List.pairwise_map]
  exact (List.pairwise_lt_range (n := n)).imp (fun h heq => by have := Int.ofNat.inj heq; omega)

theorem mem_ids {n : Nat} {p : Int} : p ∈ ids n ↔ ∃ i, i < n ∧ p = Int.ofNat i := by
  simp only [ids, List.mem_map, List.mem_range]
  constructor
  · rintro ⟨i, hi, rfl⟩; exact ⟨i, hi, rfl⟩
  · rintro ⟨i, hi, rfl⟩; exact ⟨i, hi, rfl⟩

/-- hashed partitioner over the client's sorted copy of ANY listing of the partitions `0 … n-1`:
    the Java client's choice -/
theorem hashed_listing_java (key : List UInt8) (listing : List Int) (n : Nat) (hk : key.length < 2^32)
    (hn : n ≠ 0) (h : listing.Perm (ids n)) :
    hashed key (sortInts listing) = some (Int.ofNat (javaIndex key n)) := by
  rw [sortInts_listing h]
  have hne : ids n ≠ [] := by
    intro h0; have := ids_length n; rw [h0] at this; exact hn this.symm
  rw [hashed_eq_java key (ids n) hk hne, ids_length]
  exact ids_getElem? n _ (Nat.mod_lt _ (Nat.pos_of_ne_zero hn))

end Afkak.Partitioner

/-! ## through the model of `KafkaClient._merge_topic_metadata` -/
namespace Afkak.ClientCache
variable {κ ν : Type} [BEq κ] [LawfulBEq κ]

/-- the two structural copies of `sorted()` (client cache / partitioner models) are the same function -/
theorem insertInt_eq (a : Int) : ∀ l, insertInt a l = Afkak.Partitioner.insertInt a l
  | [] => rfl
  | b :: l => by
    unfold insertInt Afkak.Partitioner.insertInt
    split
    · rfl
    · rw [insertInt_eq a l]

theorem sortInts_eq : ∀ l, sortInts l = Afkak.Partitioner.sortInts l
  | [] => rfl
  | a :: l => by
    unfold sortInts Afkak.Partitioner.sortInts
    rw [sortInts_eq l, insertInt_eq]

theorem upsert_fresh (k : κ) (v : ν) (l : List (κ × ν)) (h : ∀ e ∈ l, e.1 ≠ k) : upsert k v l = l ++ [(k, v)] := by
  unfold upsert
  have : hasKey k l = false := by
    simp only [hasKey, List.any_eq_false, beq_iff_eq]
    intro e he; exact h e he
  simp [this]

theorem foldl_upsert_fresh_keys : ∀ (l acc : List (κ × ν)), ((acc ++ l).map (·.1)).Nodup →
    l.foldl (fun d e => upsert e.1 e.2 d) acc = acc ++ l
  | [], acc, _ => by simp
  | e :: es, acc, h => by
    simp only [List.foldl_cons]
    have hnew : ∀ x ∈ acc, x.1 ≠ e.1 := by
      intro x hx hxe
      rw [List.map_append, List.nodup_append] at h
      exact h.2.2 x.1 (List.mem_map.mpr ⟨x, hx, rfl⟩) e.1 (List.mem_map.mpr ⟨e, List.mem_cons_self, rfl⟩) hxe
    rw [upsert_fresh e.1 e.2 acc hnew, foldl_upsert_fresh_keys es (acc ++ [(e.1, e.2)]) (by simpa using h)]
    simp

/-- a dict built from pairs with distinct keys keeps them all, in order -/
theorem dictOfList_of_nodup (l : List (κ × ν)) (h : (l.map (·.1)).Nodup) : dictOfList l = l := by
  unfold dictOfList
  simpa using foldl_upsert_fresh_keys l ([] : List (κ × ν)) (by simp; exact h)

/-- `topic_partitions[topic]` after merging a metadata entry that lists partitions with distinct ids:
    `sorted()` of the ids in the order listed -/
theorem mergeTopic_topicParts (c : Cache) (tm : TopicMeta) (hne : tm.parts ≠ [])
    (hnd : (tm.parts.map (·.part)).Nodup) :
    get? tm.name (mergeTopic c tm).topicParts = some (Afkak.Partitioner.sortInts (tm.parts.map (·.part))) := by
  have hd : dictOfList (tm.parts.map (fun p => (p.part, p))) = tm.parts.map (fun p => (p.part, p)) :=
    dictOfList_of_nodup _ (by simpa [List.map_map, Function.comp_def] using hnd)
  have hemp : (tm.parts.map (fun p => (p.part, p))).isEmpty = false := by
    cases hp : tm.parts with
    | nil => exact absurd hp hne
    | cons a l => rfl
  unfold mergeTopic
  simp only [hd, hemp, Bool.false_eq_true, if_false]
  rw [get?_upsert_self, sortInts_eq]
  simp [List.map_map, Function.comp_def]

end Afkak.ClientCache
