import Afkak.Generated.PartgenConsts
/-!
# The generated term of `HashedPartitioner.partition` equals the hand-written model

`Afkak.Consts.genHashedPartition` is regenerated on every run from the AST of
`afkak/partitioner.py: HashedPartitioner.partition` by `harness/lib/pure_translate.py`
(`self._hash(key)` is the input `h`).  With `h` = the model's hash of the key it IS the hand-written
`Afkak.Partitioner.hashed`, for every key and every partition list (the empty one included:
ZeroDivisionError on both sides).
-/
namespace Afkak.Partitioner
open Afkak.Consts Afkak.Murmur

theorem gen_hashed (key : List UInt8) (ps : List Int) :
    genHashedPartition (pureMurmur2 key) ps = hashed key ps := by
  simp only [genHashedPartition, hashed, hashedPositiveMask]
  by_cases h : ps.length = 0
  · simp [h]
  · simp [h]

end Afkak.Partitioner
