import AfkakProofs.Crc.Lfsr
/-!
# The byte-table form equals the bit-serial definition (`crc32_eq_crcSpec`)
-/
namespace Afkak.Crc32

theorem byteBits_getD (b : UInt8) (i : Nat) : (byteBits b).getD i false = b.toNat.testBit i := by
  have hb : b.toNat < 2 ^ 8 := b.toNat_lt
  rcases i with _|_|_|_|_|_|_|_|i <;> try rfl
  simp only [byteBits, List.getD_eq_getElem?_getD]
  have : b.toNat.testBit (i + 8) = false :=
    Nat.testBit_lt_two_pow (Nat.lt_of_lt_of_le hb (Nat.pow_le_pow_right (by omega) (by omega)))
  simp [this]

theorem W_byteBits (b : UInt8) : W (byteBits b) = BitVec.ofNat 32 b.toNat := by
  apply BitVec.eq_of_getLsbD_eq
  intro i hi
  rw [W_getLsbD _ _ hi, byteBits_getD, BitVec.getLsbD_ofNat]; simp [hi]

theorem byteBits_length (b : UInt8) : (byteBits b).length = 8 := rfl

/-- `n` zero-input steps on a word whose low `n` bits are clear are a plain shift. -/
theorem zpow_shift (n : Nat) (y : BitVec 32) (h : ∀ j, j < n → y.getLsbD j = false) :
    zpow n y = y >>> n := by
  induction n generalizing y with
  | zero => simp [zpow]
  | succ n ih =>
    have h0 : y.getLsbD 0 = false := h 0 (by omega)
    have hz : zstep y = y >>> 1 := by rw [zstep_def, h0]; simp
    rw [zpow, hz, ih]
    · rw [← BitVec.shiftRight_add, Nat.add_comm]
    · intro j hj; rw [BitVec.getLsbD_ushiftRight]; exact h (1 + j) (by omega)

theorem table_getD (i : Nat) (h : i < 256) : table.getD i 0#32 = tableEntry i := by
  simp [table, Array.getD_eq_getD_getElem?, h]

theorem mask_bit (j : Nat) : (0xFF#32 : BitVec 32).getLsbD j = decide (j < 8) := by
  show (BitVec.ofNat 32 (2 ^ 8 - 1)).getLsbD j = _
  rw [BitVec.getLsbD_ofNat, Nat.testBit_two_pow_sub_one]
  by_cases h : j < 8
  · have : j < 32 := by omega
    simp [h, this]
  · simp [h]

/-- Eight steps at once: low byte through the table, the rest shifted. -/
theorem zpow8_split (x : BitVec 32) :
    zpow 8 x = tableEntry (x &&& 0xFF#32).toNat ^^^ (x >>> 8) := by
  have hx : x = (x &&& 0xFF#32) ^^^ (x ^^^ (x &&& 0xFF#32)) := by
    rw [← BitVec.xor_assoc, BitVec.xor_comm _ x, BitVec.xor_assoc, BitVec.xor_self, BitVec.xor_zero]
  have hlow : ∀ j, j < 8 → (x ^^^ (x &&& 0xFF#32)).getLsbD j = false := by
    intro j hj
    simp [BitVec.getLsbD_xor, BitVec.getLsbD_and, mask_bit, hj]
  have hshift : (x &&& 0xFF#32) >>> 8 = 0#32 := by
    apply BitVec.eq_of_getLsbD_eq
    intro i hi
    simp [BitVec.getLsbD_ushiftRight, BitVec.getLsbD_and, mask_bit]
  conv => lhs; rw [hx]
  rw [zpow_xor, zpow_shift 8 _ hlow, BitVec.ushiftRight_xor_distrib, hshift, BitVec.xor_zero]
  simp [tableEntry]

theorem ofNat_byte_shift (b : UInt8) : (BitVec.ofNat 32 b.toNat) >>> 8 = 0#32 := by
  apply BitVec.eq_of_getLsbD_eq
  intro i hi
  have hb : b.toNat < 2 ^ 8 := b.toNat_lt
  have : b.toNat.testBit (8 + i) = false :=
    Nat.testBit_lt_two_pow (Nat.lt_of_lt_of_le hb (Nat.pow_le_pow_right (by omega) (by omega)))
  simp [BitVec.getLsbD_ushiftRight, BitVec.getLsbD_ofNat, this]

/-- zlib's table step is eight LFSR steps on the byte's bits, least significant first. -/
theorem updByte_eq (c : BitVec 32) (b : UInt8) : updByte c b = feed c (byteBits b) := by
  rw [feed_eq _ _ (by simp [byteBits_length]), byteBits_length, W_byteBits, zpow8_split,
    BitVec.ushiftRight_xor_distrib, ofNat_byte_shift, BitVec.xor_zero, updByte, table_getD]
  rw [BitVec.toNat_and]
  exact Nat.lt_of_le_of_lt Nat.and_le_right (by decide)

theorem foldl_updByte (data : List UInt8) (c : BitVec 32) :
    data.foldl updByte c = feed c (bitsOf data) := by
  induction data generalizing c with
  | nil => rfl
  | cons b bs ih => simp [List.foldl, bitsOf, feed_append, updByte_eq, ih]

/-- The table form (what zlib and the driver compute) is the bit-serial definition. -/
theorem crc32_eq_crcSpec (data : List UInt8) : crc32 data = crcSpec data := by
  simp [crc32, crcSpec, crcBits, foldl_updByte]

end Afkak.Crc32
