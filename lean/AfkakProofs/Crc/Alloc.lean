import AfkakProofs.Crc.SetCost
/-!
# The memory side: bytes sliced ≤ bytes consumed

Under the `bytes` measure every primitive call is charged the number of bytes it slices out of the
buffer.  `Tight m`: on success `m` has sliced at most what it consumed (the cursor advance); on
failure at most what remained.  The primitives are `Tight`, sequencing and loops preserve it, so
every response decoder allocates at most `|input|` bytes — for every byte string — and iterating a
message set at most `3·(|data| + gunzip output) + 1` (header, the `data[4:]` copy handed to
`zlib.crc32`, and the key/value slices).
-/
namespace Afkak.WireCost

attribute [local instance] bytesMeasure

def Res.PostT {α : Type} (r : Res α) (len c k : Nat) : Prop :=
  match r with
  | .ok _ c' k' => c ≤ c' ∧ c' ≤ len ∧ k' + c ≤ k + c'
  | .err _ k' => k' + c ≤ k + len

@[simp] theorem Res.postT_ok {α : Type} (a : α) (c' k' len c k : Nat) :
    (Res.ok a c' k').PostT len c k ↔ (c ≤ c' ∧ c' ≤ len ∧ k' + c ≤ k + c') := Iff.rfl

@[simp] theorem Res.postT_err {α : Type} (e : Err) (k' len c k : Nat) :
    (Res.err e k' : Res α).PostT len c k ↔ k' + c ≤ k + len := Iff.rfl

def Tight {α : Type} (m : Rd α) : Prop :=
  ∀ (d : List UInt8) (c k : Nat), c ≤ d.length → (m d c k).PostT d.length c k

theorem tight_pure {α : Type} (a : α) : Tight (pure a : Rd α) := by
  intro d c k h; show (Res.ok a c k).PostT _ _ _; simp; omega

theorem tight_fail {α : Type} (e : Err) : Tight (fail e : Rd α) := by
  intro d c k h; show (Res.err e k).PostT _ _ _; simp; omega

theorem tight_bind {α β : Type} {m : Rd α} {f : α → Rd β} (hm : Tight m) (hf : ∀ a, Tight (f a)) :
    Tight (m >>= f) := by
  intro dat cur k hcur
  have h1 := hm dat cur k hcur
  show (Rd.bind m f dat cur k).PostT _ _ _
  unfold Rd.bind
  cases hr : m dat cur k with
  | ok a c' k' =>
    rw [hr] at h1; simp at h1
    have h2 := hf a dat c' k' h1.2.1
    simp only
    cases hr2 : f a dat c' k' <;> rw [hr2] at h2 <;> simp at h2 ⊢ <;> omega
  | err e k' => rw [hr] at h1; simp at h1 ⊢; omega

theorem tight_relativeUnpack (fmt : List Char) : Tight (relativeUnpack fmt) := by
  intro d c k hc
  unfold relativeUnpack
  simp only [tick_bytes]
  cases fmtSize fmt with
  | none => simp; omega
  | some s => simp only; by_cases hlt : d.length < c + s <;> simp [hlt] <;> omega

theorem tight_relativeUnpackN (ch : Char) (n : Int) : Tight (relativeUnpackN ch n) := by
  intro d c k hc
  unfold relativeUnpackN
  simp only [tick_bytes]
  by_cases hn : n < 0
  · simp [hn]; omega
  · simp only [hn, ↓reduceIte]
    cases fldSize ch with
    | none => simp; omega
    | some w => simp only; by_cases hlt : d.length < c + n.toNat * w <;> simp [hlt] <;> omega

theorem tight_readLenBytes (w : Nat) : Tight (readLenBytes w) := by
  intro d c k hc
  unfold readLenBytes
  simp only [tick_bytes]
  by_cases h1 : d.length < c + w
  · simp [h1]; omega
  · simp only [h1, ↓reduceIte]
    by_cases h2 : (toSigned w (beNat (slice d c w)) == -1) = true
    · simp [h2]; omega
    · simp only [h2, Bool.false_eq_true, ↓reduceIte]
      by_cases h3 : toSigned w (beNat (slice d c w)) < 0
      · simp [h3]; omega
      · simp only [h3, ↓reduceIte]
        generalize (toSigned w (beNat (slice d c w))).toNat = n
        by_cases h4 : d.length < c + w + n <;> simp [h4] <;> omega

theorem tight_readShortBytes : Tight readShortBytes := tight_readLenBytes 2
theorem tight_readIntString : Tight readIntString := tight_readLenBytes 4

theorem tight_decodeText (valid : List UInt8 → Bool) (o : Option (List UInt8)) :
    Tight (decodeText valid o) := by
  unfold decodeText
  split
  · exact tight_fail _
  · split
    · exact tight_pure _
    · exact tight_fail _

theorem tight_readShortAscii : Tight readShortAscii :=
  tight_bind tight_readShortBytes (fun _ => tight_decodeText _ _)
theorem tight_readShortText : Tight readShortText :=
  tight_bind tight_readShortBytes (fun _ => tight_decodeText _ _)

theorem tight_repeatAcc {α : Type} {m : Rd α} (hm : Tight m) (n : Nat) (acc : List α) :
    Tight (repeatAcc m n acc) := by
  induction n generalizing acc with
  | zero => intro d c k h; show (Res.ok _ c k).PostT _ _ _; simp; omega
  | succ n ih =>
    intro dat cur k hcur
    have h1 := hm dat cur k hcur
    unfold repeatAcc
    cases hr : m dat cur k with
    | ok a c' k' =>
      rw [hr] at h1; simp at h1
      have h2 := ih (a :: acc) dat c' k' h1.2.1
      simp only
      cases hr2 : repeatAcc m n (a :: acc) dat c' k' <;> rw [hr2] at h2 <;> simp at h2 ⊢ <;> omega
    | err e k' => rw [hr] at h1; simp at h1 ⊢; omega

theorem tight_forRange {α : Type} {m : Rd α} (hm : Tight m) (n : Int) : Tight (forRange n m) :=
  tight_repeatAcc hm _ _

theorem tight_run {α : Type} {m : Rd α} (hm : Tight m) (bs : List UInt8) :
    (run m bs).cost ≤ bs.length := by
  have := hm bs 0 0 (Nat.zero_le _)
  unfold run Res.cost
  cases hr : m bs 0 0 <;> rw [hr] at this <;> simp at this ⊢ <;> omega

syntax "tight" : tactic
macro_rules
  | `(tactic| tight) => `(tactic| first
      | exact tight_pure _
      | exact tight_fail _
      | exact tight_relativeUnpack _
      | exact tight_relativeUnpackN _ _
      | exact tight_readShortBytes
      | exact tight_readIntString
      | exact tight_readShortAscii
      | exact tight_readShortText
      | (apply tight_forRange; tight)
      | (refine tight_bind ?_ (fun _ => ?_) <;> tight)
      | (split <;> tight))

open Afkak.Consts in
theorem tight_decodeApiVersions : Tight decodeApiVersions := by unfold decodeApiVersions apiVersionEntry; tight
theorem tight_decodeProduce (v : Int) : Tight (decodeProduce v) := by
  unfold decodeProduce produceTopics topicsLoop topicLoop producePartition; tight
theorem tight_decodeFetch (v : Int) : Tight (decodeFetch v) := by
  unfold decodeFetch fetchHead fetchTopics fetchTopic fetchPartition; tight
theorem tight_decodeOffset : Tight decodeOffset := by unfold decodeOffset topicsLoop topicLoop offsetPartition offsetEntry; tight
theorem tight_decodeMetadata : Tight decodeMetadata := by unfold decodeMetadata metadataBody metadataTopic metadataPartition metadataBroker; tight
theorem tight_decodeConsumerMetadata : Tight decodeConsumerMetadata := by
  unfold decodeConsumerMetadata; tight
theorem tight_decodeOffsetCommit : Tight decodeOffsetCommit := by unfold decodeOffsetCommit topicsLoop topicLoop offsetCommitPartition; tight
theorem tight_decodeOffsetFetch : Tight decodeOffsetFetch := by unfold decodeOffsetFetch topicsLoop topicLoop offsetFetchPartition; tight
theorem tight_decodeJoinGroupProtocolMetadata : Tight decodeJoinGroupProtocolMetadata := by
  unfold decodeJoinGroupProtocolMetadata subscriptionEntry; tight
theorem tight_decodeJoinGroup : Tight decodeJoinGroup := by unfold decodeJoinGroup joinGroupMember; tight
theorem tight_decodeLeaveGroup : Tight decodeLeaveGroup := by
  unfold decodeLeaveGroup decodeErrorOnly; tight
theorem tight_decodeHeartbeat : Tight decodeHeartbeat := by
  unfold decodeHeartbeat decodeErrorOnly; tight
theorem tight_decodeSyncGroup : Tight decodeSyncGroup := by unfold decodeSyncGroup; tight
theorem tight_decodeSyncGroupMemberAssignment : Tight decodeSyncGroupMemberAssignment := by
  unfold decodeSyncGroupMemberAssignment assignmentBody assignmentTopic; tight

end Afkak.WireCost

namespace Afkak.C12
open Afkak.WireCost Afkak.Consts

attribute [local instance] bytesMeasure

theorem readLenBytes_specB (w : Nat) (d : List UInt8) (c k : Nat) :
    match readLenBytes w d c k with
    | .ok m c' k' => k' = k + w + msgLen m ∧ c' = c + w + msgLen m ∧ c' ≤ d.length
    | .err _ k' => k' ≤ k + w := by
  unfold readLenBytes
  simp only [tick_bytes]
  by_cases h1 : d.length < c + w
  · simp [h1]
  · simp only [h1, ↓reduceIte]
    by_cases h2 : (toSigned w (beNat (slice d c w)) == -1) = true
    · simp [h2, msgLen]; omega
    · simp only [h2, Bool.false_eq_true, ↓reduceIte]
      by_cases h3 : toSigned w (beNat (slice d c w)) < 0
      · simp [h3]
      · simp only [h3, ↓reduceIte]
        generalize (toSigned w (beNat (slice d c w))).toNat = n
        by_cases h4 : d.length < c + w + n
        · simp [h4]
        · simp only [h4, ↓reduceIte]
          simp only [msgLen, slice, List.length_take, List.length_drop]
          refine ⟨?_, ?_, ?_⟩ <;> omega

theorem tight_entryHeader : Tight entryHeader := by unfold entryHeader; tight

/-- the 12-byte entry header + body under the bytes measure: exactly the bytes consumed -/
theorem entryHeader_specB (d : List UInt8) (c k : Nat) :
    match entryHeader d c k with
    | .ok om c' k' => k' = k + 12 + msgLen om.2 ∧ c' = c + 12 + msgLen om.2 ∧ c' ≤ d.length
    | .err _ _ => True := by
  simp only [entryHeader, bind, Rd.bind, relativeUnpack, c12Fmt_msgset_0, fmtSize, fldSize, tick_bytes]
  by_cases h1 : d.length < c + (8 + 0)
  · simp [h1]
  · simp only [h1, ↓reduceIte, decodeFields, fldSize]
    have := readLenBytes_specB 4 d (c + (8 + 0)) (k + (8 + 0))
    unfold readIntString
    cases hr : readLenBytes 4 d (c + (8 + 0)) (k + (8 + 0)) with
    | ok m c' k' =>
      rw [hr] at this
      simp only [Rd.bind, hr] at this ⊢
      simp only [Pure.pure]
      unfold Rd.pure
      simp only
      omega
    | err e k' => simp only [Rd.bind, hr]

theorem tight_msgFields (magic : Int) : Tight (msgFields magic) := by unfold msgFields; tight

/-- the allocation bound a nested-set decoder must satisfy -/
def InnerOkB (inner : List UInt8 → SetOut) : Prop :=
  ∀ x, (inner x).cost ≤ 3 * (x.length + (inner x).gz)

/-- `_decode_message` + its generator: the 6-byte header, the `data[4:]` copy for the CRC, the
    timestamp/key/value slices, and what the nested set allocates -/
theorem decodeMessage_alloc (inner : List UInt8 → SetOut) (gz : Gz) (hin : InnerOkB inner)
    (msg : Option (List UInt8)) (off : Int) :
    (decodeMessage inner gz msg off).cost ≤ 2 * msgLen msg + 3 * (decodeMessage inner gz msg off).gzb := by
  unfold decodeMessage
  cases msg with
  | none => simp [msgLen, MsgRes.cost, MsgRes.gzb]
  | some data =>
    simp only [msgLen]
    have hu := tight_relativeUnpack c12Fmt_message_0 data 0 0 (Nat.zero_le _)
    cases hr : relativeUnpack c12Fmt_message_0 data 0 0 with
    | err e k =>
      rw [hr] at hu; simp at hu
      cases e <;> simp [MsgRes.cost, MsgRes.gzb] <;> omega
    | ok vals cur k =>
      rw [hr] at hu; simp at hu
      have hcur : cur = 6 ∧ k = 6 ∧ 6 ≤ data.length := by
        unfold relativeUnpack at hr
        simp only [c12Fmt_message_0, fmtSize, fldSize, tick_bytes] at hr
        by_cases h : data.length < 0 + (4 + (1 + (1 + 0)))
        · simp [h] at hr
        · simp [h] at hr; omega
      obtain ⟨rfl, rfl, h6⟩ := hcur
      simp only
      split
      · rename_i crc magic att
        simp only [List.length_drop]
        split
        · simp [MsgRes.cost, MsgRes.gzb]; omega
        · split
          · have hf := tight_msgFields magic data 6 (6 + (data.length - 4)) h6
            cases hr2 : msgFields magic data 6 (6 + (data.length - 4)) with
            | err e k2 =>
              rw [hr2] at hf; simp at hf
              cases e <;> simp [MsgRes.cost, MsgRes.gzb] <;> omega
            | ok tkv c2 k2 =>
              rw [hr2] at hf; simp at hf
              obtain ⟨ts, key, value⟩ := tkv
              simp only
              split
              · simp [MsgRes.cost, MsgRes.gzb]; omega
              · split
                · cases hg : gz value with
                  | error cls => simp [MsgRes.cost, MsgRes.gzb]; omega
                  | ok g =>
                    have hi := hin g
                    simp only
                    split
                    · simp only [MsgRes.cost, MsgRes.gzb]; omega
                    · unfold v1Inner
                      split
                      · simp only [MsgRes.cost, MsgRes.gzb]; omega
                      · split <;> simp only [MsgRes.cost, MsgRes.gzb] <;> omega
                · split <;> simp [MsgRes.cost, MsgRes.gzb] <;> omega
          · simp [MsgRes.cost, MsgRes.gzb]; omega
      · simp [MsgRes.cost, MsgRes.gzb]; omega

theorem setLoop_alloc (inner : List UInt8 → SetOut) (gz : Gz) (hin : InnerOkB inner)
    (data : List UInt8) :
    ∀ (fuel cur : Nat) (rm : Bool) (acc : List (Int × Msg)) (k g : Nat), cur ≤ data.length →
      g ≤ (setLoop inner gz data fuel cur rm acc k g).gz ∧
      (setLoop inner gz data fuel cur rm acc k g).cost + 3 * cur + 3 * g
        ≤ k + 3 * data.length + 3 * (setLoop inner gz data fuel cur rm acc k g).gz := by
  intro fuel
  induction fuel with
  | zero => intro cur rm acc k g h; unfold setLoop; simp; omega
  | succ fuel ih =>
    intro cur rm acc k g hcur
    unfold setLoop
    by_cases hlt : cur < data.length
    · simp only [hlt, ↓reduceIte]
      have hh := entryHeader_specB data cur k
      have ht := tight_entryHeader data cur k hcur
      cases hr : entryHeader data cur k with
      | err e k' =>
        rw [hr] at ht; simp at ht
        cases e <;> cases rm <;> simp <;> omega
      | ok om cur' k' =>
        rw [hr] at hh; simp only at hh
        obtain ⟨offset, msg⟩ := om
        simp only at hh ⊢
        have hm := decodeMessage_alloc inner gz hin msg offset
        cases hd : decodeMessage inner gz msg offset with
        | bue k2 =>
          rw [hd] at hm; simp only [MsgRes.cost, MsgRes.gzb] at hm
          simp only
          cases rm <;> simp <;> omega
        | out ms e k2 g2 =>
          rw [hd] at hm; simp only [MsgRes.cost, MsgRes.gzb] at hm
          cases e with
          | some e => simp only; exact ⟨by omega, by omega⟩
          | none =>
            simp only
            have := ih cur' (rm || !ms.isEmpty) (ms.reverse ++ acc) (k' + k2) (g + g2) hh.2.2
            exact ⟨by omega, by omega⟩
    · simp only [hlt, ↓reduceIte]
      exact ⟨Nat.le_refl _, by simp; omega⟩

/-- **Message sets, memory side**: for every byte string, gunzip function and nesting depth the
    bytes sliced/copied while iterating are at most 3·(|data| + bytes obtained from gunzip). -/
theorem decodeSet_alloc (gz : Gz) (depth : Nat) : InnerOkB (decodeSet gz depth) := by
  induction depth with
  | zero =>
    intro data
    have hin : InnerOkB (fun _ => (⟨[], some Err.recursion, 0, 0⟩ : SetOut)) := by intro x; simp
    have := setLoop_alloc _ gz hin data (data.length + 1) 0 false [] 0 0 (Nat.zero_le _)
    unfold decodeSet
    omega
  | succ depth ih =>
    intro data
    have := setLoop_alloc _ gz ih data (data.length + 1) 0 false [] 0 0 (Nat.zero_le _)
    unfold decodeSet
    omega

end Afkak.C12
