import AfkakProofs.Crc.Lin
import Afkak.C12.MsgSet
/-!
# Cost of iterating a message set, and: the iteration fuel of the model is never exhausted

`decodeSet_cost`:  reader calls + checksummed bytes ≤ 2·(|data| + bytes obtained from gunzip) + 2,
for every byte string, every gunzip function and every nesting depth.
-/
namespace Afkak.C12
open Afkak.WireCost Afkak.Consts Afkak.Crc32

def msgLen : Option (List UInt8) → Nat
  | none => 0
  | some m => m.length

theorem readLenBytes_spec (w : Nat) (d : List UInt8) (c k : Nat) :
    match readLenBytes w d c k with
    | .ok m c' k' => k' = k + 1 ∧ c' = c + w + msgLen m ∧ c' ≤ d.length
    | .err _ k' => k' = k + 1 := by
  unfold readLenBytes
  simp only [tick_reads]
  by_cases h1 : d.length < c + w
  · simp [h1]
  · simp only [h1, ↓reduceIte]
    by_cases h2 : (toSigned w (beNat (slice d c w)) == -1) = true
    · simp [h2, msgLen]; omega
    · simp only [h2, Bool.false_eq_true, ↓reduceIte]
      by_cases h3 : toSigned w (beNat (slice d c w)) < 0
      · simp [h3]
      · simp only [h3, ↓reduceIte]
        generalize (toSigned w (beNat (slice d c w))).toNat = n
        by_cases h4 : d.length < c + w + n
        · simp [h4]
        · simp only [h4, ↓reduceIte]
          simp only [msgLen, slice, List.length_take, List.length_drop]
          refine ⟨trivial, ?_, ?_⟩ <;> omega

/-- the 12-byte entry header: two reads; on success the cursor is exactly past the message -/
theorem entryHeader_spec (d : List UInt8) (c k : Nat) :
    match entryHeader d c k with
    | .ok om c' k' => k' = k + 2 ∧ c' = c + 12 + msgLen om.2 ∧ c' ≤ d.length
    | .err _ k' => k' ≤ k + 2 := by
  simp only [entryHeader, bind, Rd.bind, relativeUnpack, c12Fmt_msgset_0, fmtSize, fldSize, tick_reads]
  by_cases h1 : d.length < c + (8 + 0)
  · simp [h1]
  · simp only [h1, ↓reduceIte, decodeFields, fldSize]
    have := readLenBytes_spec 4 d (c + (8 + 0)) (k + 1)
    unfold readIntString
    cases hr : readLenBytes 4 d (c + (8 + 0)) (k + 1) with
    | ok m c' k' =>
      rw [hr] at this
      simp only [Rd.bind, hr] at this ⊢
      simp only [Pure.pure]
      unfold Rd.pure
      simp only
      omega
    | err e k' =>
      rw [hr] at this
      simp only [Rd.bind, hr] at this ⊢
      omega

/-- `m` performs at most `n` primitive reads -/
def Reads {α : Type} (n : Nat) (m : Rd α) : Prop := ∀ d c k, (m d c k).cost ≤ k + n

theorem reads_pure {α : Type} (a : α) : Reads 0 (pure a : Rd α) := fun _ _ _ => Nat.le_refl _
theorem reads_fail {α : Type} (e : Err) : Reads 0 (fail e : Rd α) := fun _ _ _ => Nat.le_refl _

theorem reads_bind {α β : Type} {m : Rd α} {f : α → Rd β} {a b : Nat} (hm : Reads a m)
    (hf : ∀ x, Reads b (f x)) : Reads (a + b) (m >>= f) := by
  intro d c k
  have h1 := hm d c k
  show (Rd.bind m f d c k).cost ≤ _
  unfold Rd.bind
  cases hr : m d c k with
  | ok x c' k' =>
    rw [hr] at h1
    have h2 := hf x d c' k'
    simp only [Res.cost] at h1 h2 ⊢
    omega
  | err e k' => rw [hr] at h1; simp only [Res.cost] at h1 ⊢; omega

theorem reads_mono {α : Type} {m : Rd α} {a b : Nat} (h : Reads a m) (hab : a ≤ b) : Reads b m :=
  fun d c k => Nat.le_trans (h d c k) (by omega)

theorem reads_relativeUnpack (fmt : List Char) : Reads 1 (relativeUnpack fmt) := by
  intro d c k
  unfold relativeUnpack
  cases fmtSize fmt with
  | none => simp [Res.cost]
  | some s => simp only; split <;> simp [Res.cost]

theorem reads_readIntString : Reads 1 readIntString := by
  intro d c k
  have := readLenBytes_spec 4 d c k
  unfold readIntString
  cases hr : readLenBytes 4 d c k <;> rw [hr] at this <;> simp only [Res.cost] at this ⊢ <;> omega

theorem reads_msgFields (magic : Int) : Reads 3 (msgFields magic) := by
  unfold msgFields
  split
  · exact reads_mono (reads_bind reads_readIntString (fun _ =>
      reads_bind reads_readIntString (fun _ => reads_pure _))) (by omega)
  · refine reads_mono (reads_bind (b := 2) (reads_relativeUnpack _) (fun x => ?_)) (by omega)
    split
    · exact reads_bind reads_readIntString (fun _ =>
        reads_bind reads_readIntString (fun _ => reads_pure _))
    · exact reads_mono (reads_fail _) (by omega)

/-- `m` never fails with the model's fuel marker -/
def NoFuel {α : Type} (m : Rd α) : Prop := ∀ d c k e k', m d c k = .err e k' → e ≠ Err.modelFuel

theorem nofuel_pure {α : Type} (a : α) : NoFuel (pure a : Rd α) := by
  intro d c k e k' h; cases h

theorem nofuel_fail {α : Type} (e : Err) (he : e ≠ Err.modelFuel) : NoFuel (fail e : Rd α) := by
  intro d c k e' k' h
  simp only [fail, Res.err.injEq] at h
  rw [← h.1]; exact he

theorem nofuel_bind {α β : Type} {m : Rd α} {f : α → Rd β} (hm : NoFuel m) (hf : ∀ x, NoFuel (f x)) :
    NoFuel (m >>= f) := by
  intro d c k e k' h
  change Rd.bind m f d c k = _ at h
  unfold Rd.bind at h
  cases hr : m d c k with
  | ok x c' k2 => rw [hr] at h; exact hf x d c' k2 e k' h
  | err e2 k2 =>
    rw [hr] at h
    simp only [Res.err.injEq] at h
    rw [← h.1]; exact hm d c k e2 k2 hr

theorem nofuel_relativeUnpack (fmt : List Char) : NoFuel (relativeUnpack fmt) := by
  intro d c k e k' h
  unfold relativeUnpack at h
  cases hs : fmtSize fmt with
  | none => rw [hs] at h; simp only [Res.err.injEq] at h; rw [← h.1]; simp
  | some s =>
    rw [hs] at h; simp only at h
    split at h
    · simp only [Res.err.injEq] at h; rw [← h.1]; simp
    · cases h

theorem readLenBytes_err (w : Nat) (d : List UInt8) (c k : Nat) (e : Err) (k' : Nat)
    (h : readLenBytes w d c k = .err e k') : e = Err.bufferUnderflow := by
  unfold readLenBytes at h
  by_cases h1 : d.length < c + w
  · simp [h1] at h; exact h.1.symm
  · simp only [h1, ↓reduceIte] at h
    by_cases h2 : (toSigned w (beNat (slice d c w)) == -1) = true
    · simp [h2] at h
    · simp only [h2, Bool.false_eq_true, ↓reduceIte] at h
      by_cases h3 : toSigned w (beNat (slice d c w)) < 0
      · simp [h3] at h; exact h.1.symm
      · simp only [h3, ↓reduceIte] at h
        by_cases h4 : d.length < c + w + (toSigned w (beNat (slice d c w))).toNat
        · simp [h4] at h; exact h.1.symm
        · simp [h4] at h

theorem nofuel_readIntString : NoFuel readIntString := by
  intro d c k e k' h
  rw [readLenBytes_err 4 d c k e k' h]; simp

theorem nofuel_msgFields (magic : Int) : NoFuel (msgFields magic) := by
  unfold msgFields
  split
  · exact nofuel_bind nofuel_readIntString (fun _ =>
      nofuel_bind nofuel_readIntString (fun _ => nofuel_pure _))
  · refine nofuel_bind (nofuel_relativeUnpack _) (fun x => ?_)
    split
    · exact nofuel_bind nofuel_readIntString (fun _ =>
        nofuel_bind nofuel_readIntString (fun _ => nofuel_pure _))
    · exact nofuel_fail _ (by simp)

theorem nofuel_entryHeader : NoFuel entryHeader := by
  unfold entryHeader
  refine nofuel_bind (nofuel_relativeUnpack _) (fun x => ?_)
  split
  · exact nofuel_bind nofuel_readIntString (fun _ => nofuel_pure _)
  · exact nofuel_fail _ (by simp)

def MsgRes.cost : MsgRes → Nat
  | .bue c => c
  | .out _ _ c _ => c

def MsgRes.gzb : MsgRes → Nat
  | .bue _ => 0
  | .out _ _ _ g => g

def MsgRes.errv : MsgRes → Option Err
  | .bue _ => none
  | .out _ e _ _ => e

/-- the bound a nested-set decoder must satisfy -/
def InnerOk (inner : List UInt8 → SetOut) : Prop :=
  ∀ x, (inner x).cost ≤ 2 * (x.length + (inner x).gz) + 2 ∧ (inner x).err ≠ some Err.modelFuel

/-- cost of `_decode_message` + exhausting its generator -/
theorem decodeMessage_cost (inner : List UInt8 → SetOut) (gz : Gz) (hin : InnerOk inner)
    (msg : Option (List UInt8)) (off : Int) :
    (decodeMessage inner gz msg off).cost
        ≤ msgLen msg + 2 * (decodeMessage inner gz msg off).gzb + 2 ∧
      (decodeMessage inner gz msg off).errv ≠ some Err.modelFuel := by
  unfold decodeMessage
  cases msg with
  | none => simp [msgLen, MsgRes.cost, MsgRes.gzb, MsgRes.errv]
  | some data =>
    simp only [msgLen]
    have hu := reads_relativeUnpack c12Fmt_message_0 data 0 0
    cases hr : relativeUnpack c12Fmt_message_0 data 0 0 with
    | err e k =>
      rw [hr] at hu; simp only [Res.cost] at hu
      have hnf := nofuel_relativeUnpack _ _ _ _ _ _ hr
      cases e <;> simp [MsgRes.cost, MsgRes.gzb, MsgRes.errv] at hnf ⊢ <;> omega
    | ok vals cur k =>
      rw [hr] at hu; simp only [Res.cost] at hu
      have hlen : 6 ≤ data.length := by
        unfold relativeUnpack at hr
        simp only [c12Fmt_message_0, fmtSize, fldSize] at hr
        by_cases h : data.length < 0 + (4 + (1 + (1 + 0)))
        · simp [h] at hr
        · omega
      simp only
      split
      · rename_i crc magic att
        simp only [List.length_drop]
        split
        · simp [MsgRes.cost, MsgRes.gzb, MsgRes.errv]; omega
        · split
          · have hf := reads_msgFields magic data cur (k + (data.length - 4))
            cases hr2 : msgFields magic data cur (k + (data.length - 4)) with
            | err e k2 =>
              rw [hr2] at hf; simp only [Res.cost] at hf
              have hnf := nofuel_msgFields _ _ _ _ _ _ hr2
              cases e <;> simp [MsgRes.cost, MsgRes.gzb, MsgRes.errv] at hnf ⊢ <;> omega
            | ok tkv c2 k2 =>
              rw [hr2] at hf; simp only [Res.cost] at hf
              obtain ⟨ts, key, value⟩ := tkv
              simp only
              split
              · simp [MsgRes.cost, MsgRes.gzb, MsgRes.errv]; omega
              · split
                · cases hg : gz value with
                  | error cls => simp [MsgRes.cost, MsgRes.gzb, MsgRes.errv]; omega
                  | ok g =>
                    have hi := hin g
                    simp only
                    split
                    · simp only [MsgRes.cost, MsgRes.gzb, MsgRes.errv]; exact ⟨by omega, hi.2⟩
                    · unfold v1Inner
                      split
                      · rename_i e he
                        simp only [MsgRes.cost, MsgRes.gzb, MsgRes.errv]
                        refine ⟨by omega, ?_⟩
                        intro h; apply hi.2; rw [he, h]
                      · split <;> simp [MsgRes.cost, MsgRes.gzb, MsgRes.errv] <;> omega
                · split <;> simp [MsgRes.cost, MsgRes.gzb, MsgRes.errv] <;> omega
          · simp [MsgRes.cost, MsgRes.gzb, MsgRes.errv]; omega
      · simp [MsgRes.cost, MsgRes.gzb, MsgRes.errv]; omega

theorem setLoop_inv (inner : List UInt8 → SetOut) (gz : Gz) (hin : InnerOk inner)
    (data : List UInt8) :
    ∀ (fuel cur : Nat) (rm : Bool) (acc : List (Int × Msg)) (k g : Nat),
      cur ≤ data.length → data.length - cur < fuel →
      (setLoop inner gz data fuel cur rm acc k g).err ≠ some Err.modelFuel ∧
      g ≤ (setLoop inner gz data fuel cur rm acc k g).gz ∧
        (setLoop inner gz data fuel cur rm acc k g).cost + 2 * cur + 2 * g
          ≤ k + 2 * data.length + 2 * (setLoop inner gz data fuel cur rm acc k g).gz + 2 := by
  intro fuel
  induction fuel with
  | zero => intro cur rm acc k g _ h; omega
  | succ fuel ih =>
    intro cur rm acc k g hcur hfuel
    unfold setLoop
    by_cases hlt : cur < data.length
    · simp only [hlt, ↓reduceIte]
      have hh := entryHeader_spec data cur k
      cases hr : entryHeader data cur k with
      | err e k' =>
        rw [hr] at hh; simp only at hh
        have hnf := nofuel_entryHeader _ _ _ _ _ hr
        cases e <;> cases rm <;> simp at hnf ⊢ <;> omega
      | ok om cur' k' =>
        rw [hr] at hh; simp only at hh
        obtain ⟨offset, msg⟩ := om
        simp only at hh ⊢
        have hm := decodeMessage_cost inner gz hin msg offset
        cases hd : decodeMessage inner gz msg offset with
        | bue k2 =>
          rw [hd] at hm; simp only [MsgRes.cost, MsgRes.gzb] at hm
          simp only
          cases rm <;> simp <;> omega
        | out ms e k2 g2 =>
          rw [hd] at hm; simp only [MsgRes.cost, MsgRes.gzb, MsgRes.errv] at hm
          cases e with
          | some e =>
            simp only
            refine ⟨?_, by omega, by omega⟩
            simpa using hm.2
          | none =>
            simp only
            have := ih cur' (rm || !ms.isEmpty) (ms.reverse ++ acc) (k' + k2) (g + g2) hh.2.2 (by omega)
            refine ⟨this.1, by omega, by omega⟩
    · simp only [hlt, ↓reduceIte]
      refine ⟨by simp, Nat.le_refl _, by omega⟩

/-- **C12 (c), message sets.**  For every byte string, gunzip function and nesting depth:
    the fuel marker is never produced, and reader calls + checksummed bytes
    ≤ 2·(|data| + gunzip output bytes) + 2. -/
theorem decodeSet_ok (gz : Gz) (depth : Nat) : InnerOk (decodeSet gz depth) := by
  induction depth with
  | zero =>
    intro data
    have hin : InnerOk (fun _ => (⟨[], some Err.recursion, 0, 0⟩ : SetOut)) := by
      intro x; simp
    have := setLoop_inv _ gz hin data (data.length + 1) 0 false [] 0 0 (Nat.zero_le _) (by omega)
    unfold decodeSet
    exact ⟨by omega, this.1⟩
  | succ depth ih =>
    intro data
    have := setLoop_inv _ gz ih data (data.length + 1) 0 false [] 0 0 (Nat.zero_le _) (by omega)
    unfold decodeSet
    exact ⟨by omega, this.1⟩

end Afkak.C12
