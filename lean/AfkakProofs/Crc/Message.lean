import AfkakProofs.Crc.Burst
/-!
# The CRC check of `_decode_message` rejects every burst inside the checksummed region
-/
namespace Afkak.C12
open Afkak.Crc32 Afkak.WireCost Afkak.Consts Afkak.Monitor.C12

theorem six_bytes (data : List UInt8) (h : 6 ≤ data.length) :
    ∃ c0 c1 c2 c3 m a rest, data = c0 :: c1 :: c2 :: c3 :: m :: a :: rest := by
  match data, h with
  | c0 :: c1 :: c2 :: c3 :: m :: a :: rest, _ => exact ⟨c0, c1, c2, c3, m, a, rest, rfl⟩

/-- `_decode_message`: a stored CRC that differs from the CRC of `data[4:]` is a `ChecksumError`
    raised before anything is interpreted or yielded. -/
theorem decodeMessage_checksum (inner : List UInt8 → SetOut) (gz : Gz) (off : Int)
    (data : List UInt8) (hlen : 6 ≤ data.length)
    (hne : beNat (data.take 4) ≠ (crc32 (data.drop 4)).toNat) :
    decodeMessage inner gz (some data) off = .out [] (some .checksum) (1 + (data.length - 4)) 0 := by
  obtain ⟨c0, c1, c2, c3, m, a, rest, rfl⟩ := six_bytes data hlen
  have hne' : (beNat [c0, c1, c2, c3] : Int) ≠ ((crc32 (m :: a :: rest)).toNat : Int) := by
    intro h; apply hne; simpa using Int.natCast_inj.1 h
  simp [decodeMessage, relativeUnpack, c12Fmt_message_0, fmtSize, fldSize, decodeFields, slice,
    fldSigned]
  rw [if_neg (by omega)]
  simp [hne']

theorem xorBytes_length (a b : List UInt8) (h : b.length = a.length) :
    (xorBytes a b).length = a.length := by
  simp [xorBytes, h]

theorem xorBytes_zero (a z : List UInt8) (hl : z.length = a.length) (hz : z.all (fun b => b == 0) = true) :
    xorBytes a z = a := by
  induction a generalizing z with
  | nil => simp [xorBytes]
  | cons x xs ih =>
    cases z with
    | nil => simp at hl
    | cons y ys =>
      simp only [List.all_cons, Bool.and_eq_true, beq_iff_eq] at hz
      have := ih ys (by simpa using hl) hz.2
      simp only [xorBytes, List.zipWith_cons_cons] at this ⊢
      rw [this, hz.1]; simp

theorem xorBytes_take (a b : List UInt8) (n : Nat) :
    (xorBytes a b).take n = xorBytes (a.take n) (b.take n) := by
  simp [xorBytes, List.take_zipWith]

theorem xorBytes_drop (a b : List UInt8) (n : Nat) :
    (xorBytes a b).drop n = xorBytes (a.drop n) (b.drop n) := by
  simp [xorBytes, List.drop_zipWith]

/-- **C12 (a), message level.**  A message whose stored CRC matches, altered by a non-zero error
    pattern that leaves the CRC field alone and whose set bits lie within 32 consecutive bits of the
    checksummed region, is rejected with `ChecksumError`; nothing is yielded, whatever the altered
    bytes would have meant. -/
theorem decodeMessage_burst (inner : List UInt8 → SetOut) (gz : Gz) (off : Int)
    (msg e : List UInt8) (k : Nat) (hcrc : crcOk msg = true) (hb : isBurst msg.length e k = true) :
    decodeMessage inner gz (some (xorBytes msg e)) off
      = .out [] (some .checksum) (1 + (msg.length - 4)) 0 := by
  simp only [crcOk, Bool.and_eq_true, decide_eq_true_eq, beq_iff_eq] at hcrc
  simp only [isBurst, Bool.and_eq_true, beq_iff_eq] at hb
  obtain ⟨⟨⟨hel, hz⟩, hnz⟩, hw⟩ := hb
  have hlen : (xorBytes msg e).length = msg.length := xorBytes_length _ _ hel
  rw [← hlen]
  apply decodeMessage_checksum _ _ _ _ (by omega)
  rw [xorBytes_take, xorBytes_drop, xorBytes_zero _ _ (by simp [hel]) hz, hcrc.2]
  intro h
  exact crc32_burst (msg.drop 4) (e.drop 4) k (by simp [hel]) hnz hw (BitVec.toNat_inj.1 h.symm)

end Afkak.C12
