import AfkakProofs.Crc.LinDecoders
import AfkakProofs.Crc.SetCost
/-!
# One bound for a fetch response and all its message sets

`Pay w m`: on success the decoder `m` has consumed at least `w result` bytes.  With
`w = Σ over the decoded partitions of (|message set| + 1)` for `decodeFetch` this says the message
sets handed out are disjoint slices of the input — so the per-set bounds add up to a bound in the
input length.
-/
namespace Afkak.C12
open Afkak.WireCost Afkak.Consts

def Pay {α : Type} (w : α → Nat) (m : Rd α) : Prop :=
  ∀ (d : List UInt8) (c k : Nat) (a : α) (c' k' : Nat), c ≤ d.length → m d c k = .ok a c' k' →
    c ≤ c' ∧ c' ≤ d.length ∧ w a + c ≤ c'

theorem pay_of_lin {α : Type} {m : Rd α} {db cr : Nat} (h : Lin db cr m) : Pay (fun _ => 0) m := by
  intro d c k a c' k' hc hr
  have := h d c k hc
  rw [hr] at this
  simp at this
  show c ≤ c' ∧ c' ≤ d.length ∧ 0 + c ≤ c'
  omega

theorem pay_pure {α : Type} (w : α → Nat) (a : α) (h : w a = 0) : Pay w (pure a : Rd α) := by
  intro d c k a' c' k' hc hr
  change Res.ok a c k = _ at hr
  cases hr
  omega

theorem pay_fail {α : Type} (w : α → Nat) (e : Err) : Pay w (fail e : Rd α) := by
  intro d c k a' c' k' hc hr
  cases hr

theorem pay_bind {α β : Type} {m : Rd α} {f : α → Rd β} {w1 : α → Nat} {w : β → Nat}
    (hm : Pay w1 m) (hf : ∀ a, Pay (fun b => w b - w1 a) (f a)) : Pay w (m >>= f) := by
  intro d c k b c'' k'' hc hr
  change Rd.bind m f d c k = _ at hr
  unfold Rd.bind at hr
  cases h1 : m d c k with
  | err e k1 => rw [h1] at hr; cases hr
  | ok a c1 k1 =>
    rw [h1] at hr
    have p1 := hm d c k a c1 k1 hc h1
    have p2 := hf a d c1 k1 b c'' k'' p1.2.1 hr
    simp only at p2
    omega

theorem pay_bind0 {α β : Type} {m : Rd α} {f : α → Rd β} {w : β → Nat}
    (hm : Pay (fun _ => 0) m) (hf : ∀ a, Pay w (f a)) : Pay w (m >>= f) :=
  pay_bind hm (fun a => by simpa using hf a)

theorem pay_map {α β : Type} {m : Rd α} {g : α → β} {w1 : α → Nat} {w : β → Nat}
    (hm : Pay w1 m) (hg : ∀ a, w (g a) ≤ w1 a) : Pay w (m >>= fun a => (pure (g a) : Rd β)) :=
  pay_bind hm (fun a => pay_pure _ _ (by have := hg a; omega))

theorem sum_map_reverse {α : Type} (w : α → Nat) (l : List α) :
    (l.reverse.map w).sum = (l.map w).sum := by
  induction l with
  | nil => rfl
  | cons x xs ih => simp; omega

theorem pay_repeatAcc {α : Type} {m : Rd α} {w : α → Nat} (hm : Pay w m) (n : Nat) :
    ∀ (acc : List α) (d : List UInt8) (c k : Nat) (l : List α) (c' k' : Nat), c ≤ d.length →
      repeatAcc m n acc d c k = .ok l c' k' →
      c ≤ c' ∧ c' ≤ d.length ∧ (l.map w).sum + c ≤ c' + (acc.map w).sum := by
  induction n with
  | zero =>
    intro acc d c k l c' k' hc hr
    change Res.ok acc.reverse c k = _ at hr
    cases hr
    rw [sum_map_reverse]; omega
  | succ n ih =>
    intro acc d c k l c' k' hc hr
    unfold repeatAcc at hr
    cases h1 : m d c k with
    | err e k1 => rw [h1] at hr; cases hr
    | ok a c1 k1 =>
      rw [h1] at hr
      have p1 := hm d c k a c1 k1 hc h1
      have p2 := ih (a :: acc) d c1 k1 l c' k' p1.2.1 hr
      simp only [List.map_cons, List.sum_cons] at p2
      omega

theorem pay_forRange {α : Type} {m : Rd α} {w : α → Nat} (hm : Pay w m) (n : Int) :
    Pay (fun l => (l.map w).sum) (forRange n m) := by
  intro d c k l c' k' hc hr
  have := pay_repeatAcc hm n.toNat [] d c k l c' k' hc hr
  simpa using this

/-- weight of one decoded partition entry: its message set's length + 1 -/
def wPart (v : Val) : Nat :=
  match partSet v with
  | some d => optLen d + 1
  | none => 0

theorem sum_flatten (w : Val → Nat) (tss : List (List Val)) :
    (tss.flatten.map w).sum = (tss.map (fun l => (l.map w).sum)).sum := by
  induction tss with
  | nil => rfl
  | cons x xs ih =>
    simp only [List.flatten_cons, List.map_append, List.sum_append, List.map_cons, List.sum_cons, ih]

theorem fetchSets_weight (parts : List Val) :
    ((fetchSets (.list parts)).map (fun d => optLen d + 1)).sum = (parts.map wPart).sum := by
  simp only [fetchSets]
  induction parts with
  | nil => rfl
  | cons x xs ih =>
    simp only [List.filterMap_cons, List.map_cons, List.sum_cons, wPart]
    cases partSet x with
    | none => simpa using ih
    | some d => simp [ih]

theorem msgLen_eq_optLen (o : Option (List UInt8)) : msgLen o = optLen o := by
  cases o <;> rfl

theorem pay_readIntString : Pay (fun ms => optLen ms + 1) readIntString := by
  intro d c k a c' k' hc hr
  have := readLenBytes_spec 4 d c k
  unfold readIntString at hr
  rw [hr] at this
  simp only [msgLen_eq_optLen] at this
  show c ≤ c' ∧ c' ≤ d.length ∧ optLen a + 1 + c ≤ c'
  omega

/-- `decode_fetch_response` consumes at least Σ (|message set| + 1) bytes -/
theorem pay_decodeFetch (v : Int) :
    Pay (fun val => ((fetchSets val).map (fun d => optLen d + 1)).sum) (decodeFetch v) := by
  unfold decodeFetch
  refine pay_bind0 (pay_of_lin (lin_fetchHead v)) (fun numTopics => ?_)
  unfold fetchTopics
  refine pay_map (w1 := fun tss => (tss.map (fun l => (l.map wPart).sum)).sum) ?_ ?_
  · apply pay_forRange
    unfold fetchTopic
    refine pay_bind0 (pay_of_lin lin_readShortAscii) (fun topic => ?_)
    refine pay_bind0 (pay_of_lin (lin_relativeUnpack _ (by decide))) (fun x => ?_)
    split
    · apply pay_forRange
      unfold fetchPartition
      refine pay_bind0 (pay_of_lin (lin_relativeUnpack _ (by decide))) (fun y => ?_)
      split
      · refine pay_map pay_readIntString (fun ms => ?_)
        simp [wPart, partSet]
      · exact pay_fail _ _
    · exact pay_fail _ _
  · intro tss
    rw [fetchSets_weight, sum_flatten]
    exact Nat.le_refl _

theorem sum_cost_le (gz : Gz) (depth : Nat) (sets : List (Option (List UInt8))) :
    ((sets.map (decodeSetOpt gz depth)).map (·.cost)).sum
      ≤ 2 * (sets.map (fun d => optLen d + 1)).sum
        + 2 * ((sets.map (decodeSetOpt gz depth)).map (·.gz)).sum := by
  induction sets with
  | nil => simp
  | cons d ds ih =>
    simp only [List.map_cons, List.sum_cons]
    have h1 : (decodeSetOpt gz depth d).cost ≤ 2 * (optLen d + 1) + 2 * (decodeSetOpt gz depth d).gz := by
      cases d with
      | none => simp [decodeSetOpt]
      | some data =>
        have := (decodeSet_ok gz depth data).1
        simp only [decodeSetOpt, optLen]
        omega
    omega

/-- **One bound for a fetch response and all its message sets**: primitive reads + checksummed
    bytes ≤ 4·|input| + 2·(bytes obtained from gunzip) + 1, for every byte string. -/
theorem fetchTotal_le (gz : Gz) (depth : Nat) (v : Int) (bs : List UInt8) :
    match fetchTotal gz depth v bs with
    | (cost, none) => cost ≤ 2 * bs.length + 1
    | (cost, some g) => cost ≤ 4 * bs.length + 2 * g + 1 := by
  unfold fetchTotal
  have hl := lin_run (lin_decodeFetch v) bs
  cases hr : run (decodeFetch v) bs with
  | err e k => rw [hr] at hl; simpa [Res.cost] using hl
  | ok val c' k =>
    rw [hr] at hl
    simp only [Res.cost] at hl
    have hp : 0 ≤ c' ∧ c' ≤ bs.length ∧
        ((fetchSets val).map (fun d => optLen d + 1)).sum + 0 ≤ c' :=
      pay_decodeFetch v bs 0 0 val c' k (Nat.zero_le _) hr
    have hs := sum_cost_le gz depth (fetchSets val)
    simp only
    omega

end Afkak.C12
