import AfkakProofs.Crc.MsbFirst
import AfkakProofs.Crc.Message
import AfkakProofs.Crc.Truncate
/-!
# The witness of `C12_burst_msb_first_counterexample` (kernel computation kept out of the Props file)
-/
namespace Afkak.C12
open Afkak.Crc32 Afkak.WireCost Afkak.Monitor.C12

theorem msb_first_witness :
    let m : Msg := { magic := 1, attrs := 0, key := none, value := some [0, 0, 0, 0, 0], ts := some 0 }
    let m' : Msg := { magic := 1, attrs := 0, key := none, value := some [0x05, 0x8f, 0xf4, 0x6a, 0x70], ts := some 0 }
    let e : List UInt8 := [0, 0, 0, 0, 0, 0, 0, 0, 0, 0, 0, 0, 0, 0, 0, 0, 0, 0, 0, 0, 0, 0,
      0x05, 0x8f, 0xf4, 0x6a, 0x70]
    crcOk (encodeMessage m) = true ∧ e.length = (encodeMessage m).length ∧
    (e.take 4).all (fun b => b == 0) = true ∧ nonzero e = true ∧
    burstWithinMsb e 181 31 = true ∧
    (∀ k, burstWithin (e.drop 4) k 32 = false) ∧
    crc32 ((xorBytes (encodeMessage m) e).drop 4) = crc32 ((encodeMessage m).drop 4) ∧
    ∀ (inner : List UInt8 → SetOut) (gz : Gz) (off : Int),
      ∃ c, decodeMessage inner gz (some (xorBytes (encodeMessage m) e)) off = .out [(off, m')] none c 0 := by
  intro m m' e
  have hx : xorBytes (encodeMessage m) e = encodeMessage m' := by decide +kernel
  have hb : ∀ k, k ≤ 184 → burstWithin (e.drop 4) k 32 = false := by decide +kernel
  have hall : ∀ k, burstWithin (e.drop 4) k 32 = false := by
    intro k
    by_cases hk : k ≤ 184
    · exact hb k hk
    · have hlen : (bitsOf (e.drop 4)).length = 184 := by rw [bitsOf_length]; rfl
      have ht : (bitsOf (e.drop 4)).take k = bitsOf (e.drop 4) :=
        List.take_of_length_le (by rw [hlen]; omega)
      have hz : allZeroBits (bitsOf (e.drop 4)) = false := by decide +kernel
      simp only [burstWithin, ht, hz, Bool.false_and]
  refine ⟨by decide +kernel, by decide +kernel, by decide +kernel, by decide +kernel, by decide +kernel,
    hall, by decide +kernel, ?_⟩
  intro inner gz off
  rw [hx]
  exact decodeMessage_roundtrip inner gz off m' (by decide +kernel)

end Afkak.C12
