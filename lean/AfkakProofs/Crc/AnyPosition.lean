import AfkakProofs.Crc.Message
import AfkakProofs.Crc.CrcField
import AfkakProofs.Crc.Burst
/-!
# Bursts placed anywhere in a message: exactly which are guaranteed to be detected

`C12_burst_any_position` (open, with a proved counterexample) asks for detection of every non-zero
burst of span ≤ 32 bits anywhere in the message.  What IS guaranteed, for every message length and
every window position: the burst does not straddle the boundary between the stored CRC word (bytes
0..3) and the checksummed bytes (magic..value) — i.e. it is confined to one of the two.  The full
span of 32 bits is covered in both cases.  A straddling burst changes `t` low bits of the data and
`32 - t` high bits of the stored word at once and passes exactly when the two changes cancel, which
depends on the message length (the counterexample is such a pair).
-/
namespace Afkak.C12
open Afkak.Crc32 Afkak.WireCost Afkak.Monitor.C12

theorem bitsOf_drop (e : List UInt8) (n : Nat) : bitsOf (e.drop n) = (bitsOf e).drop (8 * n) := by
  induction e generalizing n with
  | nil => simp [bitsOf]
  | cons b bs ih =>
    cases n with
    | zero => simp
    | succ m =>
      have hb : (byteBits b).length = 8 := byteBits_length b
      simp only [List.drop_succ_cons, bitsOf, ih]
      rw [show 8 * (m + 1) = (byteBits b).length + 8 * m by omega, List.drop_append]
      simp

theorem nonzero_split (e : List UInt8) (n : Nat) (h : nonzero e = true) :
    nonzero (e.take n) = true ∨ nonzero (e.drop n) = true := by
  have : nonzero (e.take n ++ e.drop n) = true := by rw [List.take_append_drop]; exact h
  simp only [nonzero, List.any_append, Bool.or_eq_true] at this ⊢
  exact this

theorem not_nonzero_of_all_zero (z : List UInt8) (hz : z.all (fun b => b == 0) = true) :
    nonzero z = false := by
  induction z with
  | nil => rfl
  | cons y ys ih =>
    simp only [List.all_cons, Bool.and_eq_true, beq_iff_eq] at hz
    have := ih hz.2
    simp only [nonzero, List.any_cons, hz.1] at this ⊢
    simpa using this

/-- a window of the whole message that leaves the CRC word alone is a window of the checksummed
    region, 32 bits further left -/
theorem burstWithin_drop4 (e : List UInt8) (k : Nat) (hw : burstWithin e k 32 = true) :
    burstWithin (e.drop 4) (k - 32) 32 = true := by
  simp only [burstWithin, Bool.and_eq_true, allZeroBits_iff] at hw ⊢
  rw [bitsOf_drop]
  obtain ⟨h1, h2⟩ := hw
  constructor
  · intro b hb
    by_cases hk : 32 ≤ k
    · apply h1
      have : ((bitsOf e).drop (8 * 4)).take (k - 32) = ((bitsOf e).take k).drop 32 := by
        rw [List.drop_take]
      rw [this] at hb
      exact List.mem_of_mem_drop hb
    · have : k - 32 = 0 := by omega
      simp [this] at hb
  · intro b hb
    apply h2
    rw [List.drop_drop] at hb
    by_cases hk : 32 ≤ k
    · have : 8 * 4 + (k - 32 + 32) = k + 32 := by omega
      rw [this] at hb; exact hb
    · have : 8 * 4 + (k - 32 + 32) = (k + 32) + (32 - k) := by omega
      rw [this, ← List.drop_drop] at hb
      exact List.mem_of_mem_drop hb

/-- **Bursts anywhere that do not straddle the CRC/data boundary are detected** — every message
    length, every window position, the full span of 32 bits. -/
theorem decodeMessage_burst_nonstraddling (inner : List UInt8 → SetOut) (gz : Gz) (off : Int)
    (msg e : List UInt8) (k : Nat) (hcrc : crcOk msg = true) (hel : e.length = msg.length)
    (hnz : nonzero e = true) (hw : burstWithin e k 32 = true)
    (hns : ((e.take 4).all (fun b => b == 0) || (e.drop 4).all (fun b => b == 0)) = true) :
    decodeMessage inner gz (some (xorBytes msg e)) off
      = .out [] (some .checksum) (1 + (msg.length - 4)) 0 := by
  simp only [Bool.or_eq_true] at hns
  rcases hns with hz | hz
  · -- CRC word untouched: a burst of the checksummed region
    have hnd : nonzero (e.drop 4) = true := by
      rcases nonzero_split e 4 hnz with h | h
      · rw [not_nonzero_of_all_zero _ hz] at h; cases h
      · exact h
    apply decodeMessage_burst inner gz off msg e (k - 32) hcrc
    simp only [isBurst, Bool.and_eq_true, beq_iff_eq]
    exact ⟨⟨⟨hel, hz⟩, hnd⟩, burstWithin_drop4 e k hw⟩
  · -- checksummed bytes untouched: an alteration of the stored word alone
    have hnt : nonzero (e.take 4) = true := by
      rcases nonzero_split e 4 hnz with h | h
      · exact h
      · rw [not_nonzero_of_all_zero _ hz] at h; cases h
    exact decodeMessage_crc_field inner gz off msg e hcrc hel hnt hz

end Afkak.C12
