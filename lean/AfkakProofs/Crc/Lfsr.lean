import Afkak.Crc32
/-!
# Algebra of the CRC-32 shift register

* `zstep` (the zero-input step) is GF(2)-linear and injective (injectivity uses that bit 31 of the
  reflected polynomial — the constant term of the generator — is set).
* `stepBit s b = zstep (s ^^^ ofBit b)`.
* Feeding `n ≤ 32` bits `w` into state `s` gives `zpow n (s ^^^ W w)`, where `W w` is the word whose
  bit `i` is `w[i]` (`feed_eq`).  This is the "first four bytes are XORed into the preset" fact;
  it is what makes every burst of span ≤ 32 visible in the register.
-/
namespace Afkak.Crc32

theorem zstep_def (s : BitVec 32) :
    zstep s = (s >>> 1) ^^^ (if s.getLsbD 0 then poly else 0#32) := by
  simp [zstep, stepBit]

theorem zstep_xor (a b : BitVec 32) : zstep (a ^^^ b) = zstep a ^^^ zstep b := by
  simp only [zstep_def, BitVec.getLsbD_xor, BitVec.ushiftRight_xor_distrib]
  generalize a >>> 1 = x; generalize b >>> 1 = y; generalize poly = p
  cases a.getLsbD 0 <;> cases b.getLsbD 0 <;> simp
  · ac_rfl
  · ac_rfl
  · calc x ^^^ y = x ^^^ y ^^^ (p ^^^ p) := by simp
      _ = _ := by ac_rfl

theorem zstep_zero : zstep 0#32 = 0#32 := by decide

/-- The kernel of the zero-input step is trivial. -/
theorem zstep_eq_zero (c : BitVec 32) (h : zstep c = 0#32) : c = 0#32 := by
  rw [zstep_def] at h
  cases h0 : c.getLsbD 0
  · simp at h
    ext i hi
    have := congrArg (fun v => v.getLsbD (i-1)) h
    simp at this
    by_cases hi0 : i = 0
    · subst hi0; simpa using h0
    · have : 1 + (i - 1) = i := by omega
      simp_all
  · rw [h0] at h
    have h1 := congrArg (fun v => v.getLsbD 31) h
    have hp : poly[31] = true := by decide
    simp [hp] at h1

theorem xor_eq_zero_iff (a b : BitVec 32) : a ^^^ b = 0#32 ↔ a = b := by
  constructor
  · intro h
    have h2 : a ^^^ b ^^^ b = 0#32 ^^^ b := by rw [h]
    simpa [BitVec.xor_assoc] using h2
  · rintro rfl; simp

theorem xor_right_inj (s a b : BitVec 32) (h : s ^^^ a = s ^^^ b) : a = b := by
  have h2 : s ^^^ (s ^^^ a) = s ^^^ (s ^^^ b) := by rw [h]
  simpa [← BitVec.xor_assoc] using h2

theorem zstep_inj {a b : BitVec 32} (h : zstep a = zstep b) : a = b := by
  have : zstep (a ^^^ b) = 0#32 := by rw [zstep_xor, h, BitVec.xor_self]
  exact (xor_eq_zero_iff a b).1 (zstep_eq_zero _ this)

theorem zpow_xor (n : Nat) (a b : BitVec 32) : zpow n (a ^^^ b) = zpow n a ^^^ zpow n b := by
  induction n generalizing a b with
  | zero => rfl
  | succ n ih => simp only [zpow, zstep_xor, ih]

theorem zpow_inj (n : Nat) {a b : BitVec 32} (h : zpow n a = zpow n b) : a = b := by
  induction n generalizing a b with
  | zero => exact h
  | succ n ih => exact zstep_inj (ih h)

theorem zpow_zero_vec (n : Nat) : zpow n 0#32 = 0#32 := by
  induction n with
  | zero => rfl
  | succ n ih => simp only [zpow, zstep_zero, ih]

/-- A bit as a word. -/
def ofBit (b : Bool) : BitVec 32 := if b then 1#32 else 0#32

theorem stepBit_eq (s : BitVec 32) (b : Bool) : stepBit s b = zstep (s ^^^ ofBit b) := by
  cases b
  · simp [ofBit, zstep]
  · have hb : ofBit true = 1#32 := rfl
    rw [zstep_def, hb]
    simp only [stepBit, BitVec.getLsbD_xor, BitVec.ushiftRight_xor_distrib]
    have h1 : (1#32 : BitVec 32) >>> 1 = 0#32 := by decide
    have h2 : (1#32 : BitVec 32).getLsbD 0 = true := by decide
    rw [h1, h2]
    cases s.getLsbD 0 <;> simp

theorem stepBit_inj {s t : BitVec 32} {b : Bool} (h : stepBit s b = stepBit t b) : s = t := by
  rw [stepBit_eq, stepBit_eq] at h
  have := zstep_inj h
  have h2 : s ^^^ ofBit b ^^^ ofBit b = t ^^^ ofBit b ^^^ ofBit b := by rw [this]
  simpa [BitVec.xor_assoc] using h2

/-- Shifting left and stepping undoes itself when no bit is lost. -/
theorem zstep_shl (x : BitVec 32) (h : x.getLsbD 31 = false) : zstep (x <<< 1) = x := by
  rw [zstep_def]
  have h0 : (x <<< 1).getLsbD 0 = false := by simp
  rw [h0]
  ext i hi
  simp only [Bool.false_eq_true, ↓reduceIte, BitVec.xor_zero, BitVec.getElem_ushiftRight]
  by_cases h31 : i = 31
  · subst h31; simp; simpa using h.symm
  · have : 1 + i < 32 := by omega
    simp [this]

/-- The word whose bit `i` is `w[i]`. -/
def W : List Bool → BitVec 32
  | [] => 0#32
  | b :: bs => ofBit b ^^^ (W bs <<< 1)

theorem ofBit_getLsbD (b : Bool) (i : Nat) : (ofBit b).getLsbD i = (decide (i = 0) && b) := by
  cases b
  · simp [ofBit]
  · have hb : ofBit true = 1#32 := rfl
    rw [hb]
    rcases i with _ | i
    · decide
    · simp [BitVec.getLsbD_one]

theorem W_getLsbD (bs : List Bool) (i : Nat) (hi : i < 32) : (W bs).getLsbD i = bs.getD i false := by
  induction bs generalizing i with
  | nil => simp [W]
  | cons b bs ih =>
    simp only [W, BitVec.getLsbD_xor, ofBit_getLsbD, BitVec.getLsbD_shiftLeft]
    rcases i with _ | i
    · simp
    · have : i < 32 := by omega
      simp [ih i this, hi]

theorem W_high (bs : List Bool) (i : Nat) (hi : i < 32) (h : bs.length ≤ i) :
    (W bs).getLsbD i = false := by
  rw [W_getLsbD bs i hi]; simp [List.getElem?_eq_none h]

theorem W_inj {bs cs : List Bool} (hl : bs.length = cs.length) (h32 : bs.length ≤ 32)
    (h : W bs = W cs) : bs = cs := by
  apply List.ext_getElem hl
  intro i h1 h2
  have hi : i < 32 := by omega
  have := congrArg (fun v => v.getLsbD i) h
  simp only [W_getLsbD _ _ hi] at this
  simpa [List.getElem?_eq_getElem h1, List.getElem?_eq_getElem h2] using this

/-- Feeding at most 32 bits: they are XORed into the register as a word, then shifted through. -/
theorem feed_eq (bs : List Bool) (s : BitVec 32) (h : bs.length ≤ 32) :
    feed s bs = zpow bs.length (s ^^^ W bs) := by
  induction bs generalizing s with
  | nil => simp [feed, W, zpow]
  | cons b bs ih =>
    have hl : bs.length ≤ 31 := by simpa using h
    simp only [feed, List.length_cons, zpow, W]
    rw [ih _ (by omega), stepBit_eq]
    congr 1
    have hx : s ^^^ (ofBit b ^^^ W bs <<< 1) = (s ^^^ ofBit b) ^^^ (W bs <<< 1) := by
      rw [BitVec.xor_assoc]
    rw [hx, zstep_xor (s ^^^ ofBit b), zstep_shl _ (W_high bs 31 (by omega) hl)]

theorem feed_append (s : BitVec 32) (a b : List Bool) : feed s (a ++ b) = feed (feed s a) b := by
  induction a generalizing s with
  | nil => rfl
  | cons x a ih => simp [feed, ih]

theorem feed_inj_state (bs : List Bool) {s t : BitVec 32} (h : feed s bs = feed t bs) : s = t := by
  induction bs generalizing s t with
  | nil => exact h
  | cons b bs ih => exact stepBit_inj (ih h)

theorem not_inj {a b : BitVec 32} (h : ~~~a = ~~~b) : a = b := by
  have := congrArg (~~~ ·) h
  simpa using this

/-- **Burst detection on bit strings.**  Two bit strings that differ only inside one window of at
    most 32 consecutive bits (and do differ there) have different CRCs — for every prefix, every
    suffix, every length. -/
theorem crcBits_window (pre w w' post : List Bool) (hl : w.length = w'.length)
    (h32 : w.length ≤ 32) (hne : w ≠ w') :
    crcBits (pre ++ w ++ post) ≠ crcBits (pre ++ w' ++ post) := by
  intro h
  simp only [crcBits, feed_append] at h
  have h1 := feed_inj_state post (not_inj h)
  rw [feed_eq w _ h32, feed_eq w' _ (hl ▸ h32), ← hl] at h1
  exact hne (W_inj hl h32 (xor_right_inj _ _ _ (zpow_inj _ h1)))

end Afkak.Crc32
