import Afkak.WireCost
/-!
# Linear cost of the cursor decoders

`Lin d c m`: run from any cursor inside the buffer, the decoder `m`

* on success leaves the cursor inside the buffer, not before where it started, and has spent at most
  `2·(bytes consumed) + d − c` primitive reads (`d` = debit it may take from its caller, `c` = credit
  it leaves);
* on failure has spent at most `2·(bytes remaining) + 1 + d`.

Every fixed-size read of ≥ 1 byte costs 1 and consumes ≥ 1: it leaves a credit of 1.  The only
read that may consume nothing is `relative_unpack(">%di" % n)` with `n = 0`; it takes a debit of 1,
and in the code it always follows the read of its count.  Loop bodies are `Lin 0 _`, so a loop of
any claimed count costs at most twice the bytes it consumes.
-/
namespace Afkak.WireCost

/-- what `Lin` demands of one result -/
def Res.Post {α : Type} (r : Res α) (len c k debit credit : Nat) : Prop :=
  match r with
  | .ok _ c' k' => c ≤ c' ∧ c' ≤ len ∧ k' + 2 * c + credit ≤ k + 2 * c' + debit
  | .err _ k' => k' ≤ k + 2 * (len - c) + 1 + debit

@[simp] theorem Res.post_ok {α : Type} (a : α) (c' k' len c k d cr : Nat) :
    (Res.ok a c' k').Post len c k d cr ↔ (c ≤ c' ∧ c' ≤ len ∧ k' + 2 * c + cr ≤ k + 2 * c' + d) :=
  Iff.rfl

@[simp] theorem Res.post_err {α : Type} (e : Err) (k' len c k d cr : Nat) :
    (Res.err e k' : Res α).Post len c k d cr ↔ k' ≤ k + 2 * (len - c) + 1 + d := Iff.rfl

def Lin {α : Type} (debit credit : Nat) (m : Rd α) : Prop :=
  ∀ (d : List UInt8) (c k : Nat), c ≤ d.length → (m d c k).Post d.length c k debit credit

theorem Lin.weaken {α : Type} {m : Rd α} {d c d' c' : Nat} (h : Lin d c m) (hd : d ≤ d') (hc : c' ≤ c) :
    Lin d' c' m := by
  intro dat cur k hcur
  have := h dat cur k hcur
  cases hr : m dat cur k <;> rw [hr] at this <;> simp at this ⊢ <;> omega

theorem lin_pure {α : Type} (a : α) : Lin 0 0 (pure a : Rd α) := by
  intro d c k h; show (Res.ok a c k).Post _ _ _ _ _; simp; omega

theorem lin_fail {α : Type} (e : Err) : Lin 0 0 (fail e : Rd α) := by
  intro d c k h; show (Res.err e k).Post _ _ _ _ _; simp; omega

/-- general sequencing: the debit of the second part is paid from the credit of the first -/
theorem lin_bind {α β : Type} {m : Rd α} {f : α → Rd β} {d1 c1 d2 c2 : Nat}
    (hm : Lin d1 c1 m) (hf : ∀ a, Lin d2 c2 (f a)) (hpay : d2 ≤ c1) : Lin d1 0 (m >>= f) := by
  intro dat cur k hcur
  have h1 := hm dat cur k hcur
  show (Rd.bind m f dat cur k).Post _ _ _ _ _
  unfold Rd.bind
  cases hr : m dat cur k with
  | ok a c' k' =>
    rw [hr] at h1; simp at h1
    have h2 := hf a dat c' k' h1.2.1
    simp only
    cases hr2 : f a dat c' k' <;> rw [hr2] at h2 <;> simp at h2 ⊢ <;> omega
  | err e k' =>
    rw [hr] at h1; simp at h1 ⊢; omega

theorem lin_bind00 {α β : Type} {m : Rd α} {f : α → Rd β} {c1 c2 : Nat}
    (hm : Lin 0 c1 m) (hf : ∀ a, Lin 0 c2 (f a)) : Lin 0 0 (m >>= f) :=
  lin_bind hm hf (Nat.zero_le _)

theorem lin_bind01 {α β : Type} {m : Rd α} {f : α → Rd β}
    (hm : Lin 0 1 m) (hf : ∀ a, Lin 1 0 (f a)) : Lin 0 0 (m >>= f) :=
  lin_bind hm hf (Nat.le_refl _)

theorem lin_bind10 {α β : Type} {m : Rd α} {f : α → Rd β} {c2 : Nat}
    (hm : Lin 1 0 m) (hf : ∀ a, Lin 0 c2 (f a)) : Lin 1 0 (m >>= f) :=
  lin_bind hm hf (Nat.zero_le _)

/-- one call costs at most one unit or the bytes it slices -/
theorem tick_le (μ : Measure) (n : Nat) : tick μ n ≤ max 1 n := by
  cases μ <;> simp [tick] <;> omega

theorem tick_zero_le (μ : Measure) : tick μ 0 ≤ 1 := by
  cases μ <;> simp [tick]

/-- a fixed-format read of at least one byte (under either measure) -/
theorem lin_relativeUnpack [m : HasMeasure] (fmt : List Char) (h : fmtSize fmt ≠ some 0) :
    Lin 0 1 (relativeUnpack fmt) := by
  intro d c k hc
  unfold relativeUnpack
  have t0 := tick_zero_le m.μ
  cases hs : fmtSize fmt with
  | none => simp; omega
  | some s =>
    have : 1 ≤ s := by rcases s with _ | s; exact absurd hs h; omega
    have ts := tick_le m.μ s
    simp only
    by_cases hlt : d.length < c + s <;> simp [hlt] <;> omega

theorem lin_relativeUnpackN [m : HasMeasure] (ch : Char) (n : Int) : Lin 1 0 (relativeUnpackN ch n) := by
  intro d c k hc
  unfold relativeUnpackN
  have t0 := tick_zero_le m.μ
  by_cases hn : n < 0
  · simp [hn]; omega
  · simp only [hn, ↓reduceIte]
    cases fldSize ch with
    | none => simp; omega
    | some w =>
      simp only
      have ts := tick_le m.μ (n.toNat * w)
      by_cases hlt : d.length < c + n.toNat * w <;> simp [hlt] <;> omega

theorem lin_readLenBytes [m : HasMeasure] (w : Nat) (hw : 1 ≤ w) : Lin 0 1 (readLenBytes w) := by
  intro d c k hc
  unfold readLenBytes
  have t0 := tick_zero_le m.μ
  have tw := tick_le m.μ w
  by_cases h1 : d.length < c + w
  · simp [h1]; omega
  · simp only [h1, ↓reduceIte]
    by_cases h2 : (toSigned w (beNat (slice d c w)) == -1) = true
    · simp [h2]; omega
    · simp only [h2, Bool.false_eq_true, ↓reduceIte]
      by_cases h3 : toSigned w (beNat (slice d c w)) < 0
      · simp [h3]; omega
      · simp only [h3, ↓reduceIte]
        generalize (toSigned w (beNat (slice d c w))).toNat = n
        have tn := tick_le m.μ (w + n)
        by_cases h4 : d.length < c + w + n <;> simp [h4] <;> omega

theorem lin_readShortBytes [HasMeasure] : Lin 0 1 readShortBytes := lin_readLenBytes 2 (by omega)
theorem lin_readIntString [HasMeasure] : Lin 0 1 readIntString := lin_readLenBytes 4 (by omega)

theorem lin_decodeText (valid : List UInt8 → Bool) (o : Option (List UInt8)) :
    Lin 0 0 (decodeText valid o) := by
  unfold decodeText
  split
  · exact lin_fail _
  · split
    · exact lin_pure _
    · exact lin_fail _

theorem lin_readShortAscii [HasMeasure] : Lin 0 0 readShortAscii :=
  lin_bind00 lin_readShortBytes (fun _ => lin_decodeText _ _)

theorem lin_readShortText [HasMeasure] : Lin 0 0 readShortText :=
  lin_bind00 lin_readShortBytes (fun _ => lin_decodeText _ _)

/-- a loop whose body never takes a debit costs at most twice what it consumes, whatever the count -/
theorem lin_repeatAcc {α : Type} {m : Rd α} {c1 : Nat} (hm : Lin 0 c1 m) (n : Nat) (acc : List α) :
    Lin 0 0 (repeatAcc m n acc) := by
  induction n generalizing acc with
  | zero => intro d c k h; show (Res.ok _ c k).Post _ _ _ _ _; simp; omega
  | succ n ih =>
    intro dat cur k hcur
    have h1 := hm dat cur k hcur
    unfold repeatAcc
    cases hr : m dat cur k with
    | ok a c' k' =>
      rw [hr] at h1; simp at h1
      have h2 := ih (a :: acc) dat c' k' h1.2.1
      simp only
      cases hr2 : repeatAcc m n (a :: acc) dat c' k' <;> rw [hr2] at h2 <;> simp at h2 ⊢ <;> omega
    | err e k' =>
      rw [hr] at h1; simp at h1 ⊢; omega

theorem lin_forRange {α : Type} {m : Rd α} {c1 : Nat} (hm : Lin 0 c1 m) (n : Int) :
    Lin 0 0 (forRange n m) := lin_repeatAcc hm _ _

/-- the whole-buffer statement -/
theorem lin_run {α : Type} {m : Rd α} {c1 : Nat} (hm : Lin 0 c1 m) (bs : List UInt8) :
    (run m bs).cost ≤ 2 * bs.length + 1 := by
  have := hm bs 0 0 (Nat.zero_le _)
  unfold run Res.cost
  cases hr : m bs 0 0 <;> rw [hr] at this <;> simp at this ⊢ <;> omega

end Afkak.WireCost
