import AfkakProofs.Crc.AgreeResp
/-!
# The remaining response decoders: text fields, counted arrays, dicts

* `validUtf8_agree`: this package's DFA for CPython's strict UTF-8 decoder accepts exactly what the
  wire package's recursive validator accepts (lead-byte classes checked on all 256 bytes by
  `decide +kernel`, then induction).
* `relativeUnpackN_agree`: `relative_unpack(">%di" % n, …)`.
* `dictOf_map`: a Python `dict` built by successive assignments, as its item list.
* `joinMeta_agree`, `joinGroup_agree`, `assignment_agree`, `metadata_agree`.
With `AgreeResp.lean` and `Agree.lean` this covers all fourteen response decoders, the message and
the message-set decoder.
-/
namespace Afkak.Agree
open Afkak Afkak.Bytes

def accU (st : Option (Nat × UInt8 × UInt8)) (bs : Bytes) : Bool :=
  match bs.foldl WireCost.utf8Step st with
  | some (0, _, _) => true
  | _ => false

theorem accU_none (bs : Bytes) : accU none bs = false := by
  have : ∀ bs : Bytes, bs.foldl WireCost.utf8Step none = none := by
    intro bs; induction bs with
    | nil => rfl
    | cons b r ih => simpa [List.foldl, WireCost.utf8Step] using ih
  simp [accU, this]

theorem accU_cont_nil (n : Nat) (lo hi : UInt8) : accU (some (n + 1, lo, hi)) [] = false := rfl

theorem accU_cont_cons (n : Nat) (lo hi b : UInt8) (r : Bytes) :
    accU (some (n + 1, lo, hi)) (b :: r) = ((lo ≤ b && b ≤ hi) && accU (some (n, 0x80, 0xBF)) r) := by
  simp only [accU, List.foldl_cons, WireCost.utf8Step]
  by_cases h : (lo ≤ b && b ≤ hi) = true
  · simp [h]
  · have : accU none r = false := accU_none r
    simp only [accU] at this
    simp [h, this]

example (b0 : UInt8) (h : ¬ b0 < 0x80) (h2 : b0 ≤ 0xDF) : 128 ≤ b0.toNat ∧ b0.toNat ≤ 223 := by
  simp only [UInt8.lt_iff_toNat_lt, UInt8.le_iff_toNat_le] at h h2
  simp at h h2
  omega

/-- the lead-byte classes of UTF-8 (Unicode Table 3-7), on the byte's numeric value:
    continuation bytes still needed and the bounds of the next byte -/
def headW (b : UInt8) : Option (Nat × UInt8 × UInt8) :=
  let n := b.toNat
  if n < 128 then some (0, 0x80, 0xBF)
  else if 194 ≤ n ∧ n ≤ 223 then some (1, 0x80, 0xBF)
  else if n = 224 then some (2, 0xA0, 0xBF)
  else if n = 237 then some (2, 0x80, 0x9F)
  else if 225 ≤ n ∧ n ≤ 239 then some (2, 0x80, 0xBF)
  else if n = 240 then some (3, 0x90, 0xBF)
  else if 241 ≤ n ∧ n ≤ 243 then some (3, 0x80, 0xBF)
  else if n = 244 then some (3, 0x80, 0x8F)
  else none

syntax "bt" : tactic
macro_rules
  | `(tactic| bt) => `(tactic| (
      simp only [UInt8.lt_iff_toNat_lt, UInt8.le_iff_toNat_le, Bool.and_eq_true, decide_eq_true_eq,
        beq_iff_eq, ← UInt8.toNat_inj, Bool.not_eq_true, Bool.and_eq_false_iff, decide_eq_false_iff_not,
        beq_eq_false_iff_ne, ne_eq, not_and] at *
      simp at *
      omega))

theorem step0_all : ∀ n : Fin 256,
    WireCost.utf8Step (some (0, 0, 0)) (UInt8.ofNat n.val) = headW (UInt8.ofNat n.val) := by
  decide +kernel

theorem step0_spec (x y b : UInt8) : WireCost.utf8Step (some (0, x, y)) b = headW b := by
  have h := step0_all ⟨b.toNat, b.toNat_lt⟩
  have hb : UInt8.ofNat b.toNat = b := by simp
  simp only [hb] at h
  rw [← h]
  rfl

theorem conds_all : ∀ n : Fin 256,
    let b := UInt8.ofNat n.val
    (decide (b < 0x80) = decide (n.val < 128)) ∧
    ((0xC2 ≤ b && b ≤ 0xDF) = decide (194 ≤ n.val ∧ n.val ≤ 223)) ∧
    ((0xE0 ≤ b && b ≤ 0xEF) = decide (224 ≤ n.val ∧ n.val ≤ 239)) ∧
    ((0xF0 ≤ b && b ≤ 0xF4) = decide (240 ≤ n.val ∧ n.val ≤ 244)) ∧
    ((b == 0xE0) = decide (n.val = 224)) ∧ ((b == 0xED) = decide (n.val = 237)) ∧
    ((b == 0xF0) = decide (n.val = 240)) ∧ ((b == 0xF4) = decide (n.val = 244)) := by
  decide +kernel

theorem conds (b : UInt8) :
    (decide (b < 0x80) = decide (b.toNat < 128)) ∧
    ((0xC2 ≤ b && b ≤ 0xDF) = decide (194 ≤ b.toNat ∧ b.toNat ≤ 223)) ∧
    ((0xE0 ≤ b && b ≤ 0xEF) = decide (224 ≤ b.toNat ∧ b.toNat ≤ 239)) ∧
    ((0xF0 ≤ b && b ≤ 0xF4) = decide (240 ≤ b.toNat ∧ b.toNat ≤ 244)) ∧
    ((b == 0xE0) = decide (b.toNat = 224)) ∧ ((b == 0xED) = decide (b.toNat = 237)) ∧
    ((b == 0xF0) = decide (b.toNat = 240)) ∧ ((b == 0xF4) = decide (b.toNat = 244)) := by
  have h := conds_all ⟨b.toNat, b.toNat_lt⟩
  have hb : UInt8.ofNat b.toNat = b := by simp
  simp only [hb] at h
  exact h

theorem accU_start_cons (x y b : UInt8) (r : Bytes) :
    accU (some (0, x, y)) (b :: r) = accU (headW b) r := by
  simp only [accU, List.foldl_cons, step0_spec]

theorem validUtf8_agree_aux : ∀ (n : Nat) (bs : Bytes), bs.length ≤ n →
    Wire.validUtf8 bs = accU (some (0, 0x80, 0xBF)) bs := by
  intro n
  induction n with
  | zero =>
    intro bs h
    have : bs = [] := List.eq_nil_of_length_eq_zero (by omega)
    subst this; rfl
  | succ n ih =>
    intro bs h
    cases bs with
    | nil => rfl
    | cons b0 rest =>
      have hr : rest.length ≤ n := by simpa using h
      obtain ⟨c1, c2, c3, c4, c5, c6, c7, c8⟩ := conds b0
      have c1' : (b0 < 0x80) ↔ b0.toNat < 128 := by simpa using c1
      rw [accU_start_cons]
      unfold Wire.validUtf8
      simp only [c1', c2, c3, c4, c5, c6, c7, c8, headW, decide_eq_true_eq]
      by_cases h1 : b0.toNat < 128
      · simp only [h1, ↓reduceIte]; exact ih rest hr
      simp only [h1, ↓reduceIte]
      by_cases h2 : 194 ≤ b0.toNat ∧ b0.toNat ≤ 223
      · simp only [h2, and_self, ↓reduceIte]
        cases rest with
        | nil => rfl
        | cons b1 r =>
          rw [accU_cont_cons, ← ih r (by simp at hr; omega)]
          simp [Wire.isCont]
      simp only [h2, ↓reduceIte]
      -- three-byte forms
      have three : ∀ (lo hi : UInt8) (rest : Bytes), rest.length ≤ n →
          accU (some (2, lo, hi)) rest = (match rest with
            | b1 :: b2 :: r => (lo ≤ b1 && b1 ≤ hi) && Wire.isCont b2 && Wire.validUtf8 r
            | _ => false) := by
        intro lo hi rest hl
        match rest, hl with
        | [], _ => rfl
        | [b1], _ => simp [accU_cont_cons, accU_cont_nil]
        | b1 :: b2 :: r, hl =>
          rw [accU_cont_cons, accU_cont_cons, ← ih r (by simp at hl; omega)]
          simp [Wire.isCont, Bool.and_assoc]
      have four : ∀ (lo hi : UInt8) (rest : Bytes), rest.length ≤ n →
          accU (some (3, lo, hi)) rest = (match rest with
            | b1 :: b2 :: b3 :: r => (lo ≤ b1 && b1 ≤ hi) && Wire.isCont b2 && Wire.isCont b3 && Wire.validUtf8 r
            | _ => false) := by
        intro lo hi rest hl
        match rest, hl with
        | [], _ => rfl
        | [b1], _ => simp [accU_cont_cons, accU_cont_nil]
        | [b1, b2], _ => simp [accU_cont_cons, accU_cont_nil]
        | b1 :: b2 :: b3 :: r, hl =>
          rw [accU_cont_cons, accU_cont_cons, accU_cont_cons, ← ih r (by simp at hl; omega)]
          simp [Wire.isCont, Bool.and_assoc]
      by_cases h3 : b0.toNat = 224
      · have e : (224 ≤ b0.toNat ∧ b0.toNat ≤ 239) := by omega
        simp (decide := true) only [h3, e, and_self, ↓reduceIte, decide_true]
        rw [three _ _ rest hr]
        cases rest with
        | nil => rfl
        | cons b1 r => cases r <;> simp
      by_cases h4 : b0.toNat = 237
      · have e : (224 ≤ b0.toNat ∧ b0.toNat ≤ 239) := by omega
        simp (decide := true) only [h3, h4, e, and_self, ↓reduceIte, decide_true, decide_false]
        rw [three _ _ rest hr]
        cases rest with
        | nil => rfl
        | cons b1 r => cases r <;> simp
      by_cases h5 : 225 ≤ b0.toNat ∧ b0.toNat ≤ 239
      · have e : (224 ≤ b0.toNat ∧ b0.toNat ≤ 239) := by omega
        simp (decide := true) only [h3, h4, h5, e, and_self, ↓reduceIte, decide_true, decide_false]
        rw [three _ _ rest hr]
        cases rest with
        | nil => rfl
        | cons b1 r => cases r <;> simp [Wire.isCont]
      have e3 : ¬ (224 ≤ b0.toNat ∧ b0.toNat ≤ 239) := by omega
      by_cases h6 : b0.toNat = 240
      · have e : (240 ≤ b0.toNat ∧ b0.toNat ≤ 244) := by omega
        simp (decide := true) only [h3, h4, h5, h6, e3, e, and_self, ↓reduceIte, decide_true, decide_false]
        rw [four _ _ rest hr]
        rcases rest with _ | ⟨b1, _ | ⟨b2, _ | ⟨b3, r⟩⟩⟩ <;> simp
      by_cases h7 : 241 ≤ b0.toNat ∧ b0.toNat ≤ 243
      · have e : (240 ≤ b0.toNat ∧ b0.toNat ≤ 244) := by omega
        have e8 : ¬ b0.toNat = 244 := by omega
        simp (decide := true) only [h3, h4, h5, h6, h7, e3, e, e8, and_self, ↓reduceIte, decide_true, decide_false]
        rw [four _ _ rest hr]
        rcases rest with _ | ⟨b1, _ | ⟨b2, _ | ⟨b3, r⟩⟩⟩ <;> simp [Wire.isCont]
      by_cases h8 : b0.toNat = 244
      · have e : (240 ≤ b0.toNat ∧ b0.toNat ≤ 244) := by omega
        simp (decide := true) only [h3, h4, h5, h6, h7, h8, e3, e, and_self, ↓reduceIte, decide_true, decide_false]
        rw [four _ _ rest hr]
        rcases rest with _ | ⟨b1, _ | ⟨b2, _ | ⟨b3, r⟩⟩⟩ <;> simp
      have e4 : ¬ (240 ≤ b0.toNat ∧ b0.toNat ≤ 244) := by omega
      simp (decide := true) only [h3, h4, h5, h6, h7, h8, e3, e4, ↓reduceIte, decide_false]
      exact (accU_none rest).symm

theorem validUtf8_agree (bs : Bytes) : Wire.validUtf8 bs = WireCost.validUtf8 bs :=
  validUtf8_agree_aux bs.length bs (Nat.le_refl _)

theorem readShortText_agree (data : Bytes) (c k : Nat) :
    Wire.readShortText data (c : Int) = eraseRes (WireCost.readShortText data c k) := by
  unfold Wire.readShortText WireCost.readShortText
  rw [readShortBytes_agree data c k]
  cases h : WireCost.readShortBytes data c k with
  | err e k1 => rw [C12.bind_err h]; simp [eraseRes]
  | ok b c1 k1 =>
    rw [C12.bind_ok h]
    simp only [eraseRes]
    cases b with
    | none => simp [Wire.decodeText, WireCost.decodeText, WireCost.fail, errMap]
    | some bs =>
      simp only [Wire.decodeText, WireCost.decodeText, validUtf8_agree]
      by_cases hv : WireCost.validUtf8 bs = true
      · simp [hv, C12.pure_run]
      · simp [hv, WireCost.fail, errMap]

/-! ### join-group protocol metadata, join-group -/

theorem joinMeta_agree (data : Bytes) :
    Wire.decodeJoinGroupProtocolMetadata data
      = eraseVal (fun v => match v with
          | .list [ver, .list subs, ud] => ⟨valInt ver, subs.map valBytes, valOptBytes ud⟩
          | _ => ⟨0, [], none⟩)
        (WireCost.run WireCost.decodeJoinGroupProtocolMetadata data) := by
  have f0 : '>' :: Consts.c12Fmt_joinmeta_0 = Consts.fmt_decode_join_group_protocol_metadata_0 := by decide
  unfold Wire.decodeJoinGroupProtocolMetadata WireCost.decodeJoinGroupProtocolMetadata WireCost.run
  rw [← f0]
  have h := ru2_agree Consts.c12Fmt_joinmeta_0 data 0 0
  rw [show ((0 : Nat) : Int) = 0 from rfl] at h
  rw [h]
  cases h0 : WireCost.relativeUnpack Consts.c12Fmt_joinmeta_0 data 0 0 with
  | err e k => rw [C12.bind_err h0]; rfl
  | ok vals c k =>
    rw [C12.bind_ok h0]
    match vals with
    | [ver, n] =>
      simp only
      have hbody : ∀ (c k : Nat), Wire.readShortText data (c : Int)
          = eraseResC valBytes (WireCost.subscriptionEntry data c k) := by
        intro c k
        unfold WireCost.subscriptionEntry
        rw [readShortText_agree data c k]
        cases h1 : WireCost.readShortText data c k with
        | err e k1 => rw [C12.bind_err h1]; rfl
        | ok s c1 k1 => rw [C12.bind_ok h1]; rfl
      have hl := repeatAcc_agreeR valBytes data WireCost.subscriptionEntry (Wire.readShortText data)
        hbody n.toNat [] c k
      unfold WireCost.forRange
      cases hr : WireCost.repeatAcc WireCost.subscriptionEntry n.toNat [] data c k with
      | err e1 k1 => rw [hr] at hl; rw [C12.bind_err hr, hl]; rfl
      | ok l c1 k1 =>
        rw [hr] at hl
        obtain ⟨new, hnew, hw⟩ := hl
        simp only [List.reverse_nil, List.nil_append] at hnew
        subst hnew
        rw [C12.bind_ok hr, hw]
        simp only
        rw [readIntString_agree data c1 k1]
        cases h2 : WireCost.readIntString data c1 k1 with
        | err e2 k2 => rw [C12.bind_err h2]; rfl
        | ok ud c2 k2 =>
          rw [C12.bind_ok h2, C12.pure_run]
          simp [eraseRes, eraseVal, valInt, optBytes_roundtrip]
    | [] => rfl
    | [_] => rfl
    | _ :: _ :: _ :: _ => rfl

def toMember : WireCost.Val → Bytes × Option Bytes
  | .list [m, md] => (valBytes m, valOptBytes md)
  | _ => ([], none)

theorem joinGroupMember_agree (data : Bytes) (c k : Nat) :
    Wire.joinGroupMember data (c : Int) = eraseResC toMember (WireCost.joinGroupMember data c k) := by
  unfold Wire.joinGroupMember WireCost.joinGroupMember
  rw [readShortText_agree data c k]
  cases h1 : WireCost.readShortText data c k with
  | err e k1 => rw [C12.bind_err h1]; rfl
  | ok mid c1 k1 =>
    rw [C12.bind_ok h1]
    simp only [eraseRes]
    rw [readIntString_agree data c1 k1]
    cases h2 : WireCost.readIntString data c1 k1 with
    | err e k2 => rw [C12.bind_err h2]; rfl
    | ok md c2 k2 =>
      rw [C12.bind_ok h2, C12.pure_run]
      simp [eraseRes, eraseResC, toMember, valBytes, optBytes_roundtrip]

theorem joinGroup_agree (data : Bytes) :
    Wire.decodeJoinGroupResponse data
      = eraseVal (fun v => match v with
          | .list [e, g, p, l, m, .list ms] =>
            ⟨valInt e, valInt g, valBytes p, valBytes l, valBytes m, ms.map toMember⟩
          | _ => ⟨0, 0, [], [], [], []⟩)
        (WireCost.run WireCost.decodeJoinGroup data) := by
  have f0 : '>' :: Consts.c12Fmt_join_0 = Consts.fmt_decode_join_group_response_0 := by decide
  have f1 : '>' :: Consts.c12Fmt_join_1 = Consts.fmt_decode_join_group_response_1 := by decide
  unfold Wire.decodeJoinGroupResponse WireCost.decodeJoinGroup WireCost.run
  rw [← f0, ← f1]
  have h := ru3_agree Consts.c12Fmt_join_0 data 0 0
  rw [show ((0 : Nat) : Int) = 0 from rfl] at h
  rw [h]
  cases h0 : WireCost.relativeUnpack Consts.c12Fmt_join_0 data 0 0 with
  | err e k => rw [C12.bind_err h0]; rfl
  | ok vals c k =>
    rw [C12.bind_ok h0]
    match vals with
    | [corr, err, gen] =>
      simp only
      rw [readShortText_agree data c k]
      cases h1 : WireCost.readShortText data c k with
      | err e k1 => rw [C12.bind_err h1]; rfl
      | ok gp c1 k1 =>
        rw [C12.bind_ok h1]
        simp only [eraseRes]
        rw [readShortText_agree data c1 k1]
        cases h2 : WireCost.readShortText data c1 k1 with
        | err e k2 => rw [C12.bind_err h2]; rfl
        | ok lid c2 k2 =>
          rw [C12.bind_ok h2]
          simp only [eraseRes]
          rw [readShortText_agree data c2 k2]
          cases h3 : WireCost.readShortText data c2 k2 with
          | err e k3 => rw [C12.bind_err h3]; rfl
          | ok mid c3 k3 =>
            rw [C12.bind_ok h3]
            simp only [eraseRes]
            rw [ru1_agree Consts.c12Fmt_join_1 data c3 k3]
            cases h4 : WireCost.relativeUnpack Consts.c12Fmt_join_1 data c3 k3 with
            | err e k4 => rw [C12.bind_err h4]; rfl
            | ok nl c4 k4 =>
              rw [C12.bind_ok h4]
              match nl with
              | [n] =>
                simp only
                have hl := repeatAcc_agreeR toMember data WireCost.joinGroupMember (Wire.joinGroupMember data)
                  (joinGroupMember_agree data) n.toNat [] c4 k4
                unfold WireCost.forRange
                cases hr : WireCost.repeatAcc WireCost.joinGroupMember n.toNat [] data c4 k4 with
                | err e1 k5 => rw [hr] at hl; rw [C12.bind_err hr, hl]; rfl
                | ok l c5 k5 =>
                  rw [hr] at hl
                  obtain ⟨new, hnew, hw⟩ := hl
                  simp only [List.reverse_nil, List.nil_append] at hnew
                  subst hnew
                  rw [C12.bind_ok hr, C12.pure_run, hw]
                  simp [eraseVal, valInt, valBytes]
              | [] => rfl
              | _ :: _ :: _ => rfl
    | [] => rfl
    | [_] => rfl
    | [_, _] => rfl
    | _ :: _ :: _ :: _ :: _ => rfl

theorem fmtSize_replicate (ch : Char) (w : Nat) (h : WireCost.fldSize ch = some w) (n : Nat) :
    WireCost.fmtSize (List.replicate n ch) = some (n * w) := by
  induction n with
  | zero => simp [WireCost.fmtSize]
  | succ n ih =>
    simp only [List.replicate_succ, WireCost.fmtSize, h, ih]
    congr 1
    rw [Nat.succ_mul]; omega

theorem relativeUnpackN_agree (kc ch : Char) (hk : kc = 'd' ∨ kc = 's') (n : Int) (data : Bytes) (c k : Nat) :
    Wire.relativeUnpackN ['>', '%', kc, ch] n data (c : Int)
      = eraseRes (WireCost.relativeUnpackN ch n data c k) := by
  unfold Wire.relativeUnpackN WireCost.relativeUnpackN
  have hk' : ¬ (kc ≠ 'd' ∧ kc ≠ 's') := by rcases hk with h | h <;> simp [h]
  simp only [hk', ↓reduceIte, fieldSpec_eq]
  by_cases hn : n < 0
  · simp only [hn, ↓reduceIte]
    cases WireCost.fldSize ch <;> simp [eraseRes, errMap]
  · simp only [hn, ↓reduceIte]
    cases hw : WireCost.fldSize ch with
    | none => simp [eraseRes, errMap]
    | some w =>
      simp only [Option.map_some]
      obtain ⟨m, rfl⟩ : ∃ m : Nat, n = m := ⟨n.toNat, by omega⟩
      simp only [Int.toNat_natCast]
      by_cases hlt : data.length < c + m * w
      · have : (data.length : Int) < (c : Int) + (m : Int) * (w : Int) := by
          have : ((m * w : Nat) : Int) = (m : Int) * (w : Int) := by simp
          omega
        simp [hlt, this, eraseRes, errMap]
      · have h2 : ¬ ((data.length : Int) < (c : Int) + (m : Int) * (w : Int)) := by
          have : ((m * w : Nat) : Int) = (m : Int) * (w : Int) := by simp
          omega
        simp only [hlt, h2, ↓reduceIte, eraseRes]
        have hs : pySlice data (c : Int) ((c : Int) + (m : Int) * (w : Int)) = WireCost.slice data c (m * w) := by
          have := pySlice_eq data c (m * w) (by omega)
          simpa using this
        rw [hs, unpackBody_eq _ _ (m * w) (fmtSize_replicate ch w hw m) (slice_length data c (m * w) (by omega))]
        simp

/-! ### Python dicts as item lists -/

theorem dictSet_map {κ ν ν' : Type} [BEq κ] (g : ν → ν') (d : List (κ × ν)) (k : κ) (v : ν) :
    (WireCost.dictSet d k v).map (fun e => (e.1, g e.2))
      = Wire.dictSet (d.map (fun e => (e.1, g e.2))) k (g v) := by
  unfold WireCost.dictSet Wire.dictSet
  have hany : (d.map (fun e => (e.1, g e.2))).any (fun e => e.1 == k) = d.any (fun e => e.1 == k) := by
    simp [List.any_map, Function.comp_def]
  rw [hany]
  by_cases h : d.any (fun e => e.1 == k) = true
  · simp only [h, ↓reduceIte, List.map_map]
    apply List.map_congr_left
    intro e _
    simp only [Function.comp]
    by_cases he : (e.1 == k) = true <;> simp [he]
  · simp [h]

theorem dictOf_map {κ ν ν' : Type} [BEq κ] (g : ν → ν') (items : List (κ × ν)) :
    (WireCost.dictOf items).map (fun e => (e.1, g e.2))
      = Wire.dictOfList (items.map (fun e => (e.1, g e.2))) := by
  unfold WireCost.dictOf Wire.dictOfList
  have : ∀ (d : List (κ × ν)),
      (items.foldl (fun d e => WireCost.dictSet d e.1 e.2) d).map (fun e => (e.1, g e.2))
        = (items.map (fun e => (e.1, g e.2))).foldl (fun d e => Wire.dictSet d e.1 e.2)
            (d.map (fun e => (e.1, g e.2))) := by
    induction items with
    | nil => intro d; rfl
    | cons x xs ih =>
      intro d
      simp only [List.foldl_cons, List.map_cons]
      rw [ih, dictSet_map]
  simpa using this []

/-! ### sync-group member assignment -/

def toAssignItem : WireCost.Val → Bytes × List Int
  | .list [t, ps] => (valBytes t, valInts ps)
  | _ => ([], [])

theorem asg_consts :
    '>' :: Consts.c12Fmt_assignment_0 = Consts.fmt_decode_sync_group_member_assignment_0 ∧
    '>' :: Consts.c12Fmt_assignment_1 = Consts.fmt_decode_sync_group_member_assignment_1 ∧
    ['>', '%', 's', Consts.c12Rep_assignment_2] = Consts.fmt_decode_sync_group_member_assignment_2 := by decide

theorem assignmentTopic_agree (data : Bytes) (c k : Nat) :
    Wire.assignmentTopic data (c : Int)
      = eraseResC (fun (e : List UInt8 × WireCost.Val) => (e.1, valInts e.2)) (WireCost.assignmentTopic data c k) := by
  obtain ⟨-, f1, f2⟩ := asg_consts
  unfold Wire.assignmentTopic WireCost.assignmentTopic
  rw [readShortAscii_agree data c k]
  cases h0 : WireCost.readShortAscii data c k with
  | err e k0 => rw [C12.bind_err h0]; rfl
  | ok topic c0 k0 =>
    rw [C12.bind_ok h0]
    simp only [eraseRes]
    rw [← f1, ru1_agree Consts.c12Fmt_assignment_1 data c0 k0]
    cases h1 : WireCost.relativeUnpack Consts.c12Fmt_assignment_1 data c0 k0 with
    | err e k1 => rw [C12.bind_err h1]; rfl
    | ok vals c1 k1 =>
      rw [C12.bind_ok h1]
      match vals with
      | [np] =>
        simp only
        rw [← f2, relativeUnpackN_agree 's' _ (Or.inr rfl) np data c1 k1]
        cases h2 : WireCost.relativeUnpackN Consts.c12Rep_assignment_2 np data c1 k1 with
        | err e k2 => rw [C12.bind_err h2]; rfl
        | ok ps c2 k2 =>
          rw [C12.bind_ok h2, C12.pure_run]
          simp [eraseRes, eraseResC, valInts_ints]
      | [] => rfl
      | _ :: _ :: _ => rfl

theorem assignment_agree (data : Bytes) :
    Wire.decodeSyncGroupMemberAssignment data
      = eraseVal (fun v => match v with
          | .list [ver, .list ad, ud] => ⟨valInt ver, ad.map toAssignItem, valOptBytes ud⟩
          | _ => ⟨0, [], none⟩)
        (WireCost.run WireCost.decodeSyncGroupMemberAssignment data) := by
  obtain ⟨f0, -, -⟩ := asg_consts
  unfold Wire.decodeSyncGroupMemberAssignment WireCost.decodeSyncGroupMemberAssignment WireCost.run
  rw [← f0]
  have h := ru2_agree Consts.c12Fmt_assignment_0 data 0 0
  rw [show ((0 : Nat) : Int) = 0 from rfl] at h
  rw [h]
  cases h0 : WireCost.relativeUnpack Consts.c12Fmt_assignment_0 data 0 0 with
  | err e k => rw [C12.bind_err h0]; rfl
  | ok vals c k =>
    rw [C12.bind_ok h0]
    match vals with
    | [ver, n] =>
      simp only
      by_cases hv : ver = 0
      · subst hv
        simp only [bne_self_eq_false, Bool.false_eq_true, ↓reduceIte, ne_eq, not_true_eq_false]
        unfold WireCost.assignmentBody
        have hl := repeatAcc_agreeR (fun (e : List UInt8 × WireCost.Val) => (e.1, valInts e.2)) data
          WireCost.assignmentTopic (Wire.assignmentTopic data) (assignmentTopic_agree data) n.toNat [] c k
        unfold WireCost.forRange
        cases hr : WireCost.repeatAcc WireCost.assignmentTopic n.toNat [] data c k with
        | err e1 k1 => rw [hr] at hl; rw [C12.bind_err hr, hl]; rfl
        | ok l c1 k1 =>
          rw [hr] at hl
          obtain ⟨new, hnew, hw⟩ := hl
          simp only [List.reverse_nil, List.nil_append] at hnew
          subst hnew
          rw [C12.bind_ok hr, hw]
          simp only
          rw [readIntString_agree data c1 k1]
          cases h2 : WireCost.readIntString data c1 k1 with
          | err e2 k2 => rw [C12.bind_err h2]; rfl
          | ok ud c2 k2 =>
            rw [C12.bind_ok h2, C12.pure_run]
            simp only [eraseRes, eraseVal, valInt, optBytes_roundtrip, List.map_map]
            rw [← dictOf_map valInts l]
            congr 2
      · have hb : (ver != 0) = true := by simp [hv]
        simp only [hb, ↓reduceIte, hv, ne_eq, not_false_eq_true]
        rfl
    | [] => rfl
    | [_] => rfl
    | _ :: _ :: _ :: _ => rfl

/-! ### metadata -/

def toBroker : WireCost.Val → Wire.BrokerMeta
  | .list [i, h, p] => ⟨valInt i, valBytes h, valInt p⟩
  | _ => ⟨0, [], 0⟩

def toPartition : WireCost.Val → Wire.PartitionMeta
  | .list [t, p, e, l, rs, isr] => ⟨valBytes t, valInt p, valInt e, valInt l, valInts rs, valInts isr⟩
  | _ => ⟨[], 0, 0, 0, [], []⟩

def toPartItem : WireCost.Val → Int × Wire.PartitionMeta
  | .list [p, v] => (valInt p, toPartition v)
  | _ => (0, toPartition .null)

def toTopic : WireCost.Val → Wire.TopicMeta
  | .list [n, e, .list pm] => ⟨valBytes n, valInt e, pm.map toPartItem⟩
  | _ => ⟨[], 0, []⟩

def toBrokerItem : WireCost.Val → Int × Wire.BrokerMeta
  | .list [i, v] => (valInt i, toBroker v)
  | _ => (0, toBroker .null)

def toTopicItem : WireCost.Val → Bytes × Wire.TopicMeta
  | .list [n, v] => (valBytes n, toTopic v)
  | _ => ([], toTopic .null)

theorem md_consts :
    '>' :: Consts.c12Fmt_metadata_0 = Consts.fmt_decode_metadata_response_0 ∧
    '>' :: Consts.c12Fmt_metadata_1 = Consts.fmt_decode_metadata_response_1 ∧
    '>' :: Consts.c12Fmt_metadata_2 = Consts.fmt_decode_metadata_response_2 ∧
    '>' :: Consts.c12Fmt_metadata_3 = Consts.fmt_decode_metadata_response_3 ∧
    '>' :: Consts.c12Fmt_metadata_4 = Consts.fmt_decode_metadata_response_4 ∧
    '>' :: Consts.c12Fmt_metadata_5 = Consts.fmt_decode_metadata_response_5 ∧
    '>' :: Consts.c12Fmt_metadata_6 = Consts.fmt_decode_metadata_response_6 ∧
    ['>', '%', 'd', Consts.c12Rep_metadata_7] = Consts.fmt_decode_metadata_response_7 ∧
    '>' :: Consts.c12Fmt_metadata_8 = Consts.fmt_decode_metadata_response_8 ∧
    ['>', '%', 'd', Consts.c12Rep_metadata_9] = Consts.fmt_decode_metadata_response_9 ∧
    (Consts.c12MaxBrokers : Int) = (Consts.maxBrokers : Int) := by decide

theorem metadataBroker_agree (data : Bytes) (c k : Nat) :
    Wire.metadataBroker data (c : Int)
      = eraseResC (fun (e : Int × WireCost.Val) => (e.1, toBroker e.2)) (WireCost.metadataBroker data c k) := by
  obtain ⟨-, f1, f2, -⟩ := md_consts
  unfold Wire.metadataBroker WireCost.metadataBroker
  rw [← f1, ← f2, ru1_agree Consts.c12Fmt_metadata_1 data c k]
  cases h0 : WireCost.relativeUnpack Consts.c12Fmt_metadata_1 data c k with
  | err e k0 => rw [C12.bind_err h0]; rfl
  | ok vals c0 k0 =>
    rw [C12.bind_ok h0]
    match vals with
    | [nodeId] =>
      simp only
      rw [readShortAscii_agree data c0 k0]
      cases h1 : WireCost.readShortAscii data c0 k0 with
      | err e k1 => rw [C12.bind_err h1]; rfl
      | ok host c1 k1 =>
        rw [C12.bind_ok h1]
        simp only [eraseRes]
        rw [ru1_agree Consts.c12Fmt_metadata_2 data c1 k1]
        cases h2 : WireCost.relativeUnpack Consts.c12Fmt_metadata_2 data c1 k1 with
        | err e k2 => rw [C12.bind_err h2]; rfl
        | ok pl c2 k2 =>
          rw [C12.bind_ok h2]
          match pl with
          | [port] => rfl
          | [] => rfl
          | _ :: _ :: _ => rfl
    | [] => rfl
    | _ :: _ :: _ => rfl

theorem metadataPartition_agree (data topic : Bytes) (c k : Nat) :
    Wire.metadataPartition data topic (c : Int)
      = eraseResC (fun (e : Int × WireCost.Val) => (e.1, toPartition e.2))
          (WireCost.metadataPartition topic data c k) := by
  obtain ⟨-, -, -, -, -, -, f6, f7, f8, f9, -⟩ := md_consts
  unfold Wire.metadataPartition WireCost.metadataPartition
  rw [← f6, ← f7, ← f8, ← f9, ru4_agree Consts.c12Fmt_metadata_6 data c k]
  cases h0 : WireCost.relativeUnpack Consts.c12Fmt_metadata_6 data c k with
  | err e k0 => rw [C12.bind_err h0]; rfl
  | ok vals c0 k0 =>
    rw [C12.bind_ok h0]
    match vals with
    | [perr, partition, leader, nr] =>
      simp only
      rw [relativeUnpackN_agree 'd' _ (Or.inl rfl) nr data c0 k0]
      cases h1 : WireCost.relativeUnpackN Consts.c12Rep_metadata_7 nr data c0 k0 with
      | err e k1 => rw [C12.bind_err h1]; rfl
      | ok reps c1 k1 =>
        rw [C12.bind_ok h1]
        simp only [eraseRes]
        rw [ru1_agree Consts.c12Fmt_metadata_8 data c1 k1]
        cases h2 : WireCost.relativeUnpack Consts.c12Fmt_metadata_8 data c1 k1 with
        | err e k2 => rw [C12.bind_err h2]; rfl
        | ok nl c2 k2 =>
          rw [C12.bind_ok h2]
          match nl with
          | [ni] =>
            simp only
            rw [relativeUnpackN_agree 'd' _ (Or.inl rfl) ni data c2 k2]
            cases h3 : WireCost.relativeUnpackN Consts.c12Rep_metadata_9 ni data c2 k2 with
            | err e k3 => rw [C12.bind_err h3]; rfl
            | ok isr c3 k3 =>
              rw [C12.bind_ok h3, C12.pure_run]
              simp [eraseRes, eraseResC, toPartition, valBytes, valInt, valInts_ints]
          | [] => rfl
          | _ :: _ :: _ => rfl
    | [] => rfl
    | [_] => rfl
    | [_, _] => rfl
    | [_, _, _] => rfl
    | _ :: _ :: _ :: _ :: _ :: _ => rfl

theorem metadataTopic_agree (data : Bytes) (c k : Nat) :
    Wire.metadataTopic data (c : Int)
      = eraseResC (fun (e : List UInt8 × WireCost.Val) => (e.1, toTopic e.2)) (WireCost.metadataTopic data c k) := by
  obtain ⟨-, -, -, -, f4, f5, -⟩ := md_consts
  unfold Wire.metadataTopic WireCost.metadataTopic
  rw [← f4, ← f5, ru1_agree Consts.c12Fmt_metadata_4 data c k]
  cases h0 : WireCost.relativeUnpack Consts.c12Fmt_metadata_4 data c k with
  | err e k0 => rw [C12.bind_err h0]; rfl
  | ok vals c0 k0 =>
    rw [C12.bind_ok h0]
    match vals with
    | [terr] =>
      simp only
      rw [readShortAscii_agree data c0 k0]
      cases h1 : WireCost.readShortAscii data c0 k0 with
      | err e k1 => rw [C12.bind_err h1]; rfl
      | ok name c1 k1 =>
        rw [C12.bind_ok h1]
        simp only [eraseRes]
        rw [ru1_agree Consts.c12Fmt_metadata_5 data c1 k1]
        cases h2 : WireCost.relativeUnpack Consts.c12Fmt_metadata_5 data c1 k1 with
        | err e k2 => rw [C12.bind_err h2]; rfl
        | ok nl c2 k2 =>
          rw [C12.bind_ok h2]
          match nl with
          | [np] =>
            simp only
            have hl := repeatAcc_agreeR (fun (e : Int × WireCost.Val) => (e.1, toPartition e.2)) data
              (WireCost.metadataPartition name) (Wire.metadataPartition data name)
              (metadataPartition_agree data name) np.toNat [] c2 k2
            unfold WireCost.forRange
            cases hr : WireCost.repeatAcc (WireCost.metadataPartition name) np.toNat [] data c2 k2 with
            | err e1 k3 => rw [hr] at hl; rw [C12.bind_err hr, hl]; rfl
            | ok l c3 k3 =>
              rw [hr] at hl
              obtain ⟨new, hnew, hw⟩ := hl
              simp only [List.reverse_nil, List.nil_append] at hnew
              subst hnew
              rw [C12.bind_ok hr, C12.pure_run, hw]
              simp only [eraseResC, toTopic, valBytes, valInt, List.map_map]
              rw [← dictOf_map toPartition l]
              congr 3
          | [] => rfl
          | _ :: _ :: _ => rfl
    | [] => rfl
    | _ :: _ :: _ => rfl

/-- `decode_metadata_response` -/
theorem metadata_agree (data : Bytes) :
    Wire.decodeMetadataResponse data
      = eraseVal (fun v => match v with
          | .list [.list bd, .list td] => (bd.map toBrokerItem, td.map toTopicItem)
          | _ => ([], []))
        (WireCost.run WireCost.decodeMetadata data) := by
  obtain ⟨f0, -, -, f3, -, -, -, -, -, -, fmax⟩ := md_consts
  unfold Wire.decodeMetadataResponse WireCost.decodeMetadata WireCost.run
  rw [← f0, ← f3]
  have h := ru2_agree Consts.c12Fmt_metadata_0 data 0 0
  rw [show ((0 : Nat) : Int) = 0 from rfl] at h
  rw [h]
  cases h0 : WireCost.relativeUnpack Consts.c12Fmt_metadata_0 data 0 0 with
  | err e k => rw [C12.bind_err h0]; rfl
  | ok vals c k =>
    rw [C12.bind_ok h0]
    match vals with
    | [corr, nb] =>
      simp only [fmax]
      by_cases hg : nb > (Consts.maxBrokers : Int)
      · simp only [hg, ↓reduceIte]; rfl
      · simp only [hg, ↓reduceIte]
        unfold WireCost.metadataBody
        have hl := repeatAcc_agreeR (fun (e : Int × WireCost.Val) => (e.1, toBroker e.2)) data
          WireCost.metadataBroker (Wire.metadataBroker data) (metadataBroker_agree data) nb.toNat [] c k
        unfold WireCost.forRange
        cases hr : WireCost.repeatAcc WireCost.metadataBroker nb.toNat [] data c k with
        | err e1 k1 => rw [hr] at hl; rw [C12.bind_err hr, hl]; rfl
        | ok bl c1 k1 =>
          rw [hr] at hl
          obtain ⟨new, hnew, hw⟩ := hl
          simp only [List.reverse_nil, List.nil_append] at hnew
          subst hnew
          rw [C12.bind_ok hr, hw]
          simp only
          rw [ru1_agree Consts.c12Fmt_metadata_3 data c1 k1]
          cases h3 : WireCost.relativeUnpack Consts.c12Fmt_metadata_3 data c1 k1 with
          | err e k3 => rw [C12.bind_err h3]; rfl
          | ok ntl c3 k3 =>
            rw [C12.bind_ok h3]
            match ntl with
            | [nt] =>
              simp only
              have hl2 := repeatAcc_agreeR (fun (e : List UInt8 × WireCost.Val) => (e.1, toTopic e.2)) data
                WireCost.metadataTopic (Wire.metadataTopic data) (metadataTopic_agree data) nt.toNat [] c3 k3
              cases hr2 : WireCost.repeatAcc WireCost.metadataTopic nt.toNat [] data c3 k3 with
              | err e2 k4 => rw [hr2] at hl2; rw [C12.bind_err hr2, hl2]; rfl
              | ok tl c4 k4 =>
                rw [hr2] at hl2
                obtain ⟨new2, hnew2, hw2⟩ := hl2
                simp only [List.reverse_nil, List.nil_append] at hnew2
                subst hnew2
                rw [C12.bind_ok hr2, C12.pure_run, hw2]
                simp only [eraseVal, List.map_map]
                rw [← dictOf_map toBroker bl, ← dictOf_map toTopic tl]
                congr 3
            | [] => rfl
            | _ :: _ :: _ => rfl
    | [] => rfl
    | [_] => rfl
    | _ :: _ :: _ :: _ => rfl
end Afkak.Agree
