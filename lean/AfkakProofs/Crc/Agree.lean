import Afkak.Wire.Responses
import AfkakProofs.Crc.CrcField
import AfkakProofs.Crc.SetCost
/-!
# The C12 cost-instrumented decoders, with the cost erased, ARE the wire package's decoders

`Afkak.Wire.*` (package "wire", properties C04/C05) and `Afkak.WireCost` / `Afkak.C12` (this
package) are two hand-written models of the same Python functions.  They differ in representation:
wire's cursor is an `Int` and slices are Python slices (`pySlice`), its readers return
`Except Err (value × cursor)`, a generator is `(items, Option Err)`; here the cursor is a `Nat`
(after the F15 fix it can never go backwards), every reader also counts its cost, and the
message-set loop is tail recursive with accumulators.

Proved here, for every byte string:
* `relativeUnpack_agree`, `readIntString_agree` — the primitive readers;
* `decodeMessage_agree` — `_decode_message` + the iteration of its generator;
* `decodeSet_agree`, `decodeSetOpt_agree` — `_decode_message_set_iter`, every gunzip function,
  every nesting depth;
* `decodeFetch_agree` — `decode_fetch_response` with every message set iterated (the consumer's
  whole data path), through generic lemmas relating the eager accumulating loops here to wire's
  generators (`repeatAcc_agreeG1`, `repeatAcc_agreeG`).
The other thirteen response decoders are in `AgreeResp.lean` and `AgreeResp2.lean`.  In addition
`Driver/CrcCross.lean` runs both compiled models on every hostile input of the correspondence check.
So the C12 theorems about corruption, truncation and cost speak about the very model C05's
round-trip theorems are about.
-/
namespace Afkak.Agree
open Afkak Afkak.Bytes

/-! ## bytes -/

theorem toNatBE_eq (bs : Bytes) : toNatBE bs = WireCost.beNat bs := by
  induction bs with
  | nil => rfl
  | cons b bs ih => rw [toNatBE, C12.beNat_cons, ih]

theorem pySlice_eq (data : Bytes) (c n : Nat) (h : c + n ≤ data.length) :
    pySlice data (c : Int) ((c : Int) + (n : Int)) = WireCost.slice data c n := by
  unfold pySlice WireCost.slice
  have h1 : ¬ ((c : Int) < 0) := by omega
  have h2 : ¬ ((c : Int) > (data.length : Int)) := by omega
  have h3 : ¬ ((c : Int) + (n : Int) < 0) := by omega
  have h4 : ¬ ((c : Int) + (n : Int) > (data.length : Int)) := by omega
  simp only [h1, h2, h3, h4, ↓reduceIte]
  by_cases hn : n = 0
  · subst hn; simp
  · have : (c : Int) < (c : Int) + (n : Int) := by omega
    simp only [this, ↓reduceIte]
    have e1 : ((c : Int) + (n : Int) - (c : Int)).toNat = n := by omega
    simp [e1]

theorem fieldSpec_eq (c : Char) :
    Wire.fieldSpec c = (WireCost.fldSize c).map (fun w => (w, WireCost.fldSigned c)) := by
  unfold Wire.fieldSpec WireCost.fldSize WireCost.fldSigned
  split <;> simp_all

theorem fldSize_cases {c : Char} {w : Nat} (h : WireCost.fldSize c = some w) :
    w = 1 ∨ w = 2 ∨ w = 4 ∨ w = 8 := by
  unfold WireCost.fldSize at h
  split at h <;> simp_all

theorem fieldValue_eq (s : Bool) (w : Nat) (hw : w = 1 ∨ w = 2 ∨ w = 4 ∨ w = 8) (bs : Bytes)
    (hl : bs.length = w) :
    Wire.fieldValue s bs = (if s then WireCost.toSigned w (WireCost.beNat bs) else (WireCost.beNat bs : Int)) := by
  unfold Wire.fieldValue
  cases s
  · simp [toNatBE_eq]
  · simp only [↓reduceIte, toIntBE, toNatBE_eq, WireCost.toSigned, hl]
    rcases hw with rfl | rfl | rfl | rfl <;> simp only [Nat.reduceMul, Nat.reduceSub, Nat.reducePow] <;>
      split <;> split <;> omega

theorem unpackBody_eq (cs : List Char) : ∀ (bs : Bytes) (n : Nat), WireCost.fmtSize cs = some n →
    bs.length = n → Wire.unpackBody cs bs = some (WireCost.decodeFields cs bs, []) := by
  induction cs with
  | nil =>
    intro bs n h hl
    simp only [WireCost.fmtSize, Option.some.injEq] at h
    have : bs = [] := List.eq_nil_of_length_eq_zero (by omega)
    subst this; rfl
  | cons c cs ih =>
    intro bs n h hl
    simp only [WireCost.fmtSize] at h
    cases hc : WireCost.fldSize c with
    | none => simp [hc] at h
    | some a =>
      cases hcs : WireCost.fmtSize cs with
      | none => simp [hc, hcs] at h
      | some b =>
        simp only [hc, hcs, Option.some.injEq] at h
        have hfs : Wire.fieldSpec c = some (a, WireCost.fldSigned c) := by rw [fieldSpec_eq, hc]; rfl
        have hlen : ¬ bs.length < a := by omega
        have hrec := ih (bs.drop a) b hcs (by simp; omega)
        simp only [Wire.unpackBody, hfs, hlen, ↓reduceIte, hrec, WireCost.decodeFields, hc]
        rw [fieldValue_eq _ a (fldSize_cases hc) _ (by simp; omega)]

/-! ## errors and results -/

def errMap : WireCost.Err → Wire.Err
  | .bufferUnderflow => .bufferUnderflow
  | .checksum => .checksum
  | .fetchSizeTooSmall => .fetchSizeTooSmall
  | .protocol => .protocol
  | .invalidMessage => .invalidMessage
  | .structError => .structError
  | .attributeError => .attributeError
  | .typeError => .typeError
  | .unicodeDecode => .unicodeDecode
  | .notImplemented => .notImplemented
  | .valueError => .valueError
  | .unboundLocal => .unboundLocal
  | .recursion => .fuel
  | .modelFuel => .fuel
  | .external _ => .gunzip

/-- forget the cost; the cursor becomes wire's `Int` cursor -/
def eraseRes {α : Type} : WireCost.Res α → Wire.R (α × Int)
  | .ok a c _ => .ok (a, (c : Int))
  | .err e _ => .error (errMap e)

theorem bodySize_eq (cs : List Char) : Wire.bodySize cs = WireCost.fmtSize cs := by
  induction cs with
  | nil => rfl
  | cons c cs ih =>
    simp only [Wire.bodySize, WireCost.fmtSize, fieldSpec_eq, ih]
    cases WireCost.fldSize c <;> cases WireCost.fmtSize cs <;> rfl

theorem slice_length (d : Bytes) (c n : Nat) (h : c + n ≤ d.length) : (WireCost.slice d c n).length = n := by
  simp [WireCost.slice]; omega

theorem relativeUnpack_agree (fmt : List Char) (data : Bytes) (c k : Nat) :
    Wire.relativeUnpack ('>' :: fmt) data (c : Int) = eraseRes (WireCost.relativeUnpack fmt data c k) := by
  unfold Wire.relativeUnpack WireCost.relativeUnpack
  simp only [Wire.calcsize, bodySize_eq]
  cases hs : WireCost.fmtSize fmt with
  | none => rfl
  | some size =>
    simp only
    by_cases hlt : data.length < c + size
    · have : (data.length : Int) < (c : Int) + (size : Int) := by omega
      simp [hlt, this, eraseRes, errMap]
    · have : ¬ ((data.length : Int) < (c : Int) + (size : Int)) := by omega
      simp only [hlt, this, ↓reduceIte, eraseRes]
      rw [pySlice_eq data c size (by omega)]
      simp only [Wire.unpack, unpackBody_eq fmt _ size hs (slice_length data c size (by omega))]
      simp

theorem readLenPrefixed_agree (null negBelow : Int) (hnull : null = -1) (hneg : negBelow = 0)
    (data : Bytes) (c k : Nat) :
    Wire.readLenPrefixed ['>', 'i'] 4 null negBelow data (c : Int)
      = eraseRes (WireCost.readLenBytes 4 data c k) := by
  subst hnull hneg
  unfold Wire.readLenPrefixed WireCost.readLenBytes
  by_cases hlt : data.length < c + 4
  · have : (data.length : Int) < (c : Int) + 4 := by omega
    simp [hlt, this, eraseRes, errMap]
  · have h1 : ¬ ((data.length : Int) < (c : Int) + 4) := by omega
    simp only [hlt, h1, ↓reduceIte]
    have hs : pySlice data (c : Int) ((c : Int) + 4) = WireCost.slice data c 4 :=
      pySlice_eq data c 4 (by omega)
    rw [hs]
    have hu : Wire.unpack ['>', 'i'] (WireCost.slice data c 4)
        = some [WireCost.toSigned 4 (WireCost.beNat (WireCost.slice data c 4))] := by
      have := unpackBody_eq ['i'] (WireCost.slice data c 4) 4 rfl (slice_length data c 4 (by omega))
      simp only [Wire.unpack, this]
      simp only [WireCost.decodeFields, WireCost.fldSize, WireCost.fldSigned]
      have ht : List.take 4 (WireCost.slice data c 4) = WireCost.slice data c 4 :=
        List.take_of_length_le (by rw [slice_length data c 4 (by omega)]; exact Nat.le_refl _)
      simp [ht]
    rw [hu]
    simp only
    generalize WireCost.toSigned 4 (WireCost.beNat (WireCost.slice data c 4)) = strlen
    by_cases hm1 : strlen = -1
    · subst hm1; simp [eraseRes]
    · have hb : ¬ ((strlen == -1) = true) := by simpa using hm1
      simp only [hm1, hb, Bool.false_eq_true, ↓reduceIte]
      by_cases hneg : strlen < 0
      · simp [hneg, eraseRes, errMap]
      · simp only [hneg, ↓reduceIte]
        obtain ⟨n, rfl⟩ : ∃ n : Nat, strlen = n := ⟨strlen.toNat, by omega⟩
        simp only [Int.toNat_natCast]
        by_cases hl2 : data.length < c + 4 + n
        · have : (data.length : Int) < (c : Int) + 4 + (n : Int) := by omega
          simp [hl2, this, eraseRes, errMap]
        · have h2 : ¬ ((data.length : Int) < (c : Int) + 4 + (n : Int)) := by omega
          simp only [hl2, h2, ↓reduceIte, eraseRes]
          have hs2 : pySlice data ((c : Int) + 4) ((c : Int) + 4 + (n : Int)) = WireCost.slice data (c + 4) n := by
            have := pySlice_eq data (c + 4) n (by omega)
            simpa using this
          rw [hs2]
          simp

theorem readIntString_agree (data : Bytes) (c k : Nat) :
    Wire.readIntString data (c : Int) = eraseRes (WireCost.readIntString data c k) :=
  readLenPrefixed_agree _ _ rfl rfl data c k

/-! ## messages -/
def msgMap (m : WireCost.Msg) : Wire.Message :=
  { magic := m.magic, attributes := m.attrs, key := m.key, value := m.value, timestamp := m.ts }

def omMap (om : Int × WireCost.Msg) : Wire.OffsetAndMessage := ⟨om.1, msgMap om.2⟩

def eraseSet (r : WireCost.SetOut) : Wire.Gen := (r.msgs.map omMap, r.err.map errMap)

def eraseMsg : C12.MsgRes → Wire.Gen
  | .bue _ => ([], some .bufferUnderflow)
  | .out ms e _ _ => (ms.map omMap, e.map errMap)

/-- wire's externals, instantiated the way the C12 model fixes them: zlib's CRC-32 is
    `Afkak.Crc32.crc32`, gunzip is the given function (an exception is `GunzipError`), snappy is
    not installed. -/
def extOf (gz : C12.Gz) : Wire.Ext :=
  { crc := fun b => (Crc32.crc32 b).toNat
    gzip := fun _ => .error .extMissing
    gunzip := fun v => match gz v with
      | .ok g => .ok g
      | .error _ => .error .gunzip
    snappy := fun _ => .error .notImplemented
    unsnappy := fun _ => .error .notImplemented
    nowMs := 0 }

def InnerAgree (inner : List UInt8 → WireCost.SetOut) (recSet : Bytes → Wire.Gen) : Prop :=
  ∀ x, eraseSet (inner x) = recSet x ∧ (inner x).err ≠ some WireCost.Err.bufferUnderflow

theorem v1Inner_agree (off : Int) (r : WireCost.SetOut) (k glen : Nat) :
    eraseMsg (C12.v1Inner off r k glen) = Wire.v1Inner off (eraseSet r) := by
  unfold C12.v1Inner Wire.v1Inner eraseSet
  cases he : r.err with
  | some e => simp [eraseMsg]
  | none =>
    simp only [Option.map_none]
    cases hl : r.msgs.getLast? with
    | none =>
      have : r.msgs = [] := by simpa using hl
      simp [this, eraseMsg]
    | some last =>
      have : (r.msgs.map omMap).getLast? = some (omMap last) := by simp [List.getLast?_map, hl]
      simp only [this, eraseMsg, Option.map_none, List.map_map]
      congr 1

theorem consts_agree :
    Consts.c12CodecMask = Consts.attributeCodecMask ∧ Consts.c12CodecNone = Consts.codecNone.toNat ∧
    Consts.c12CodecGzip = Consts.codecGzip.toNat ∧ Consts.c12CodecSnappy = Consts.codecSnappy.toNat ∧
    '>' :: Consts.c12Fmt_message_0 = Consts.fmt_decode_message_0 ∧
    '>' :: Consts.c12Fmt_message_1 = Consts.fmt_decode_message_v1_0 ∧
    '>' :: Consts.c12Fmt_msgset_0 = Consts.fmt_decode_message_set_iter_0 ∧
    Consts.crcFrom = 4 ∧ Consts.crcMask = 2 ^ 32 - 1 := by decide

/-- the codec dispatch once timestamp, key and value are read -/
theorem codec_agree (inner : List UInt8 → WireCost.SetOut) (recSet : Bytes → Wire.Gen)
    (hin : InnerAgree inner recSet) (gz : C12.Gz) (magic att off : Int) (ts : Option Int)
    (key value : Option Bytes) (k : Nat) (hm : magic = 0 ∧ ts = none ∨ magic = 1 ∧ ts ≠ none) :
    eraseMsg
      (if (att.toNat &&& Consts.c12CodecMask == Consts.c12CodecNone) = true then
        C12.MsgRes.out [(off, { magic := magic, attrs := att, key := key, value := value, ts := ts })] none k 0
      else if (att.toNat &&& Consts.c12CodecMask == Consts.c12CodecGzip) = true then
        match gz value with
        | .error cls => C12.MsgRes.out [] (some (.external cls)) k 0
        | .ok g =>
          if (magic == 0) = true then C12.MsgRes.out (inner g).msgs (inner g).err (k + (inner g).cost) (g.length + (inner g).gz)
          else C12.v1Inner off (inner g) k g.length
      else if (att.toNat &&& Consts.c12CodecMask == Consts.c12CodecSnappy) = true then
        C12.MsgRes.out [] (some .notImplemented) k 0
      else C12.MsgRes.out [] (some .protocol) k 0)
    = Wire.decodeCodec (extOf gz) recSet att value
        ([⟨off, { magic := magic, attributes := att, key := key, value := value, timestamp := ts }⟩], none)
        (if magic = 0 then id else Wire.v1Inner off) := by
  obtain ⟨e1, e2, e3, e4, -⟩ := consts_agree
  unfold Wire.decodeCodec
  simp only [e1, e2, e3, e4, beq_iff_eq]
  split
  · simp [eraseMsg, omMap, msgMap]
  · split
    · simp only [extOf]
      cases gz value with
      | error cls => simp [eraseMsg, errMap]
      | ok g =>
        simp only
        rcases hm with ⟨h0, _⟩ | ⟨h1, _⟩
        · subst h0
          simp only [↓reduceIte, id, eraseMsg]
          exact (hin g).1
        · subst h1
          simp only [show ¬ ((1 : Int) = 0) by decide, ↓reduceIte]
          rw [v1Inner_agree, (hin g).1]
    · split
      · simp [extOf, eraseMsg, errMap]
      · simp [eraseMsg, errMap]

theorem crc_field_agree (gz : C12.Gz) (data : Bytes) (h : 4 ≤ data.length) :
    (((extOf gz).crc (pySlice data Consts.crcFrom data.length)) &&& Consts.crcMask : Nat)
      = (Crc32.crc32 (data.drop 4)).toNat := by
  obtain ⟨-, -, -, -, -, -, -, e8, e9⟩ := consts_agree
  have hs : pySlice data (Consts.crcFrom : Nat) (data.length : Int) = data.drop 4 := by
    rw [e8]
    have := pySlice_eq data 4 (data.length - 4) (by omega)
    have e : ((4 : Nat) : Int) + ((data.length - 4 : Nat) : Int) = (data.length : Int) := by omega
    rw [e] at this
    rw [this, WireCost.slice, List.take_of_length_le (by simp)]
  simp only [extOf]
  rw [hs, e9, Nat.and_two_pow_sub_one_eq_mod]
  exact Nat.mod_eq_of_lt (Crc32.crc32 (data.drop 4)).isLt

theorem decodeMessage_agree (inner : List UInt8 → WireCost.SetOut) (recSet : Bytes → Wire.Gen)
    (hin : InnerAgree inner recSet) (gz : C12.Gz) (msg : Option Bytes) (off : Int) :
    eraseMsg (C12.decodeMessage inner gz msg off)
      = Wire.decodeMessageWith (extOf gz) recSet msg off := by
  obtain ⟨-, -, -, -, f0, f1, -, -, -⟩ := consts_agree
  cases msg with
  | none => simp [C12.decodeMessage, Wire.decodeMessageWith, eraseMsg, errMap]
  | some data =>
    unfold C12.decodeMessage Wire.decodeMessageWith
    simp only
    rw [← f0]
    have hru : Wire.relativeUnpack ('>' :: Consts.c12Fmt_message_0) data 0
        = eraseRes (WireCost.relativeUnpack Consts.c12Fmt_message_0 data 0 0) :=
      relativeUnpack_agree Consts.c12Fmt_message_0 data 0 0
    rw [hru]
    cases hr : WireCost.relativeUnpack Consts.c12Fmt_message_0 data 0 0 with
    | err e k => cases e <;> simp [eraseRes, eraseMsg, errMap]
    | ok vals cur k =>
      have hr' := hr
      simp only [WireCost.relativeUnpack, Consts.c12Fmt_message_0, WireCost.fmtSize, WireCost.fldSize,
        WireCost.decodeFields, WireCost.fldSigned, WireCost.tick_reads] at hr'
      by_cases hlen : data.length < 0 + (4 + (1 + (1 + 0)))
      · simp [hlen] at hr'
      · simp only [hlen, ↓reduceIte, WireCost.Res.ok.injEq] at hr'
        obtain ⟨hv, hc, hk⟩ := hr'
        have hex : ∃ crc magic att, vals = [crc, magic, att] := ⟨_, _, _, hv.symm⟩
        obtain ⟨crc, magic, att, rfl⟩ := hex
        clear hv hr
        subst hc hk
        have hl4 : 4 ≤ data.length := by omega
        simp only [eraseRes, crc_field_agree gz data hl4, List.length_drop]
        by_cases hcrc : crc = ((Crc32.crc32 (List.drop 4 data)).toNat : Int)
        · have hb : ¬ ((crc != ((Crc32.crc32 (List.drop 4 data)).toNat : Int)) = true) := by simp [hcrc]
          subst hcrc
          simp only [bne_self_eq_false, Bool.false_eq_true, ↓reduceIte, ne_eq, not_true_eq_false,
            Nat.zero_add, Nat.add_zero, Nat.reduceAdd]
          generalize 1 + (List.length data - 4) = K
          by_cases hm0 : magic = 0
          · subst hm0
            simp only [beq_self_eq_true, Bool.true_or, ↓reduceIte]
            rw [readIntString_agree data 6 K]
            have hmf : C12.msgFields 0 = (do
                let key ← WireCost.readIntString
                let value ← WireCost.readIntString
                pure (none, key, value)) := by simp [C12.msgFields]
            rw [hmf]
            cases h1 : WireCost.readIntString data 6 K with
            | err e k1 =>
              rw [C12.bind_err h1]
              cases e <;> simp [eraseRes, eraseMsg, errMap]
            | ok key c1 k1 =>
              rw [C12.bind_ok h1]
              simp only [eraseRes]
              rw [readIntString_agree data c1 k1]
              cases h2 : WireCost.readIntString data c1 k1 with
              | err e k2 =>
                rw [C12.bind_err h2]
                cases e <;> simp [eraseRes, eraseMsg, errMap]
              | ok value c2 k2 =>
                rw [C12.bind_ok h2, C12.pure_run]
                simp only [eraseRes]
                have := codec_agree inner recSet hin gz 0 att off none key value k2 (Or.inl ⟨rfl, rfl⟩)
                simp only [beq_self_eq_true, ↓reduceIte] at this ⊢
                exact this
          · by_cases hm1 : magic = 1
            · subst hm1
              simp only [show ((1 : Int) == 0) = false from rfl, beq_self_eq_true, Bool.or_true, ↓reduceIte,
                show ¬ ((1 : Int) = 0) by decide]
              rw [← f1, relativeUnpack_agree Consts.c12Fmt_message_1 data 6 K]
              simp only [C12.msgFields, show ((1 : Int) == 0) = false from rfl, Bool.false_eq_true, ↓reduceIte]
              cases h0 : WireCost.relativeUnpack Consts.c12Fmt_message_1 data 6 K with
              | err e k0 =>
                rw [C12.bind_err h0]
                cases e <;> simp [eraseRes, eraseMsg, errMap]
              | ok tsl c0 k0 =>
                rw [C12.bind_ok h0]
                simp only [eraseRes]
                match tsl with
                | [ts] =>
                  simp only
                  rw [readIntString_agree data c0 k0]
                  cases h1 : WireCost.readIntString data c0 k0 with
                  | err e k1 =>
                    rw [C12.bind_err h1]
                    cases e <;> simp [eraseRes, eraseMsg, errMap]
                  | ok key c1 k1 =>
                    rw [C12.bind_ok h1]
                    simp only [eraseRes]
                    rw [readIntString_agree data c1 k1]
                    cases h2 : WireCost.readIntString data c1 k1 with
                    | err e k2 =>
                      rw [C12.bind_err h2]
                      cases e <;> simp [eraseRes, eraseMsg, errMap]
                    | ok value c2 k2 =>
                      rw [C12.bind_ok h2, C12.pure_run]
                      simp only [eraseRes]
                      have := codec_agree inner recSet hin gz 1 att off (some ts) key value k2
                        (Or.inr ⟨rfl, by simp⟩)
                      simp only [show ((1 : Int) == 0) = false from rfl, Bool.false_eq_true, ↓reduceIte,
                        show ¬ ((1 : Int) = 0) by decide] at this ⊢
                      exact this
                | [] => simp [WireCost.fail, eraseMsg, errMap]
                | _ :: _ :: _ => simp [WireCost.fail, eraseMsg, errMap]
            · have hb : (magic == 0 || magic == 1) = false := by simp [hm0, hm1]
              simp [hb, hm0, hm1, eraseMsg, errMap]
        · have hb : (crc != ((Crc32.crc32 (List.drop 4 data)).toNat : Int)) = true := by simp [hcrc]
          simp [hb, hcrc, eraseMsg, errMap]

/-- what `_decode_message` (+ its generator) raises after yielding is never `BufferUnderflowError`:
    an underflow is always reported before anything is yielded (`MsgRes.bue`) -/
theorem decodeMessage_no_bue (inner : List UInt8 → WireCost.SetOut) (gz : C12.Gz)
    (hin : ∀ x, (inner x).err ≠ some WireCost.Err.bufferUnderflow)
    (msg : Option Bytes) (off : Int) :
    (C12.decodeMessage inner gz msg off).errv ≠ some WireCost.Err.bufferUnderflow := by
  unfold C12.decodeMessage
  cases msg with
  | none => simp [C12.MsgRes.errv]
  | some data =>
    simp only
    cases hr : WireCost.relativeUnpack Consts.c12Fmt_message_0 data 0 0 with
    | err e k => cases e <;> simp [C12.MsgRes.errv]
    | ok vals cur k =>
      simp only
      split
      · rename_i crc magic att
        split
        · simp [C12.MsgRes.errv]
        · split
          · cases hr2 : C12.msgFields magic data cur (k + (data.drop 4).length) with
            | err e k2 => cases e <;> simp [C12.MsgRes.errv]
            | ok tkv c2 k2 =>
              obtain ⟨ts, key, value⟩ := tkv
              simp only
              split
              · simp [C12.MsgRes.errv]
              · split
                · cases hg : gz value with
                  | error cls => simp [C12.MsgRes.errv]
                  | ok g =>
                    simp only
                    split
                    · simpa [C12.MsgRes.errv] using hin g
                    · unfold C12.v1Inner
                      split
                      · rename_i e he
                        simp only [C12.MsgRes.errv]
                        intro h; apply hin g; rw [he, h]
                      · split <;> simp [C12.MsgRes.errv]
                · split <;> simp [C12.MsgRes.errv]
          · simp [C12.MsgRes.errv]
      · simp [C12.MsgRes.errv]

def prependGen (pre : List Wire.OffsetAndMessage) (g : Wire.Gen) : Wire.Gen := (pre ++ g.1, g.2)

theorem setLoop_agree (inner : List UInt8 → WireCost.SetOut) (recSet : Bytes → Wire.Gen)
    (hin : InnerAgree inner recSet) (gz : C12.Gz) (data : Bytes) :
    ∀ (fuel cur : Nat) (rm : Bool) (acc : List (Int × WireCost.Msg)) (k g : Nat),
      cur ≤ data.length → data.length - cur < fuel →
      eraseSet (C12.setLoop inner gz data fuel cur rm acc k g)
        = prependGen (acc.reverse.map omMap) (Wire.setLoopWith (extOf gz) recSet data fuel (cur : Int) rm) ∧
      (C12.setLoop inner gz data fuel cur rm acc k g).err ≠ some WireCost.Err.bufferUnderflow := by
  obtain ⟨-, -, -, -, -, -, f2, -, -⟩ := consts_agree
  intro fuel
  induction fuel with
  | zero => intro cur rm acc k g _ h; omega
  | succ fuel ih =>
    intro cur rm acc k g hcur hfuel
    unfold C12.setLoop Wire.setLoopWith
    by_cases hlt : cur < data.length
    · have hlt' : ((cur : Int) < (data.length : Int)) := by omega
      simp only [hlt, hlt', ↓reduceIte, not_true_eq_false]
      rw [← f2, relativeUnpack_agree Consts.c12Fmt_msgset_0 data cur k]
      unfold C12.entryHeader
      cases h0 : WireCost.relativeUnpack Consts.c12Fmt_msgset_0 data cur k with
      | err e k0 =>
        rw [C12.bind_err h0]
        cases e <;> cases rm <;> simp [eraseRes, eraseSet, errMap, prependGen]
      | ok vals c0 k0 =>
        have h0' := h0
        simp only [WireCost.relativeUnpack, Consts.c12Fmt_msgset_0, WireCost.fmtSize, WireCost.fldSize,
          WireCost.decodeFields, WireCost.fldSigned, WireCost.tick_reads] at h0'
        by_cases hl8 : data.length < cur + (8 + 0)
        · simp [hl8] at h0'
        · simp only [hl8, ↓reduceIte, WireCost.Res.ok.injEq] at h0'
          obtain ⟨hv, hc, hk⟩ := h0'
          have hex : ∃ offset, vals = [offset] := ⟨_, hv.symm⟩
          obtain ⟨offset, rfl⟩ := hex
          clear hv
          rw [C12.bind_ok h0]
          simp only [eraseRes]
          rw [readIntString_agree data c0 k0]
          cases h1 : WireCost.readIntString data c0 k0 with
          | err e k1 =>
            rw [C12.bind_err h1]
            cases e <;> cases rm <;> simp [eraseRes, eraseSet, errMap, prependGen]
          | ok msg c1 k1 =>
            rw [C12.bind_ok h1, C12.pure_run]
            simp only [eraseRes]
            have hspec := C12.readLenBytes_spec 4 data c0 k0
            unfold WireCost.readIntString at h1
            rw [h1] at hspec
            simp only at hspec
            have hag := decodeMessage_agree inner recSet hin gz msg offset
            have hnb := decodeMessage_no_bue inner gz (fun x => (hin x).2) msg offset
            rw [← hag]
            cases hd : C12.decodeMessage inner gz msg offset with
            | bue k2 =>
              cases rm <;> simp [eraseMsg, eraseSet, errMap, prependGen]
            | out ms e k2 g2 =>
              rw [hd] at hnb
              simp only [C12.MsgRes.errv] at hnb
              cases e with
              | some e =>
                have hne : errMap e ≠ Wire.Err.bufferUnderflow := by
                  cases e <;> simp [errMap] at hnb ⊢
                simp only [eraseMsg, Option.map_some]
                refine ⟨?_, by simpa using hnb⟩
                simp [eraseSet, prependGen, hne]
              | none =>
                simp only [eraseMsg, Option.map_none]
                have hrec := ih c1 (rm || !ms.isEmpty) (ms.reverse ++ acc) (k1 + k2) (g + g2)
                  hspec.2.2 (by omega)
                refine ⟨?_, hrec.2⟩
                rw [hrec.1]
                simp [prependGen, List.isEmpty_map] 
    · have hlt' : ¬ ((cur : Int) < (data.length : Int)) := by omega
      simp [hlt, hlt', eraseSet, prependGen]

/-- **The C12 message-set model, with its cost erased, is the wire package's message-set model**
    (`Afkak.Wire.decodeMessageSet`, the one C05's theorems are about), for every byte string,
    gunzip function and nesting depth — wire's depth counts the outermost set, hence `depth + 1`. -/
theorem decodeSet_agree (gz : C12.Gz) (depth : Nat) :
    InnerAgree (C12.decodeSet gz depth) (Wire.decodeMessageSet (extOf gz) (depth + 1)) := by
  induction depth with
  | zero =>
    intro data
    have hin : InnerAgree (fun _ => (⟨[], some WireCost.Err.recursion, 0, 0⟩ : WireCost.SetOut))
        (Wire.decodeMessageSet (extOf gz) 0) := by
      intro x; simp [eraseSet, errMap, Wire.decodeMessageSet]
    have := setLoop_agree _ _ hin gz data (data.length + 1) 0 false [] 0 0 (Nat.zero_le _) (by omega)
    unfold C12.decodeSet
    rw [Wire.decodeMessageSet]
    refine ⟨?_, this.2⟩
    rw [this.1]; simp [prependGen]
  | succ d ih =>
    intro data
    have := setLoop_agree _ _ ih gz data (data.length + 1) 0 false [] 0 0 (Nat.zero_le _) (by omega)
    unfold C12.decodeSet
    rw [Wire.decodeMessageSet]
    refine ⟨?_, this.2⟩
    rw [this.1]; simp [prependGen]

theorem decodeSetOpt_agree (gz : C12.Gz) (depth : Nat) (d : Option Bytes) :
    eraseSet (C12.decodeSetOpt gz depth d) = Wire.decodeMessageSetOpt (extOf gz) (depth + 1) d := by
  cases d with
  | none => simp [C12.decodeSetOpt, Wire.decodeMessageSetOpt, eraseSet, errMap]
  | some data => exact (decodeSet_agree gz depth data).1

/-! ## loops: eager accumulation here, generators there -/

/-- a decoder of this package that collects a list agrees with a generator of the wire package -/
def AgreeG {α β : Type} (conv : α → β) (data : Bytes) (m : WireCost.Rd (List α)) (w : Int → Wire.G β) : Prop :=
  ∀ (c k : Nat), match m data c k with
    | .ok l c' _ => w (c : Int) = (l.map conv, .ok (c' : Int))
    | .err e _ => (w (c : Int)).2 = .error (errMap e)

/-- one item per iteration -/
def AgreeG1 {α β : Type} (conv : α → β) (data : Bytes) (m : WireCost.Rd α) (w : Int → Wire.G β) : Prop :=
  ∀ (c k : Nat), match m data c k with
    | .ok a c' _ => w (c : Int) = ([conv a], .ok (c' : Int))
    | .err e _ => (w (c : Int)).2 = .error (errMap e)

theorem repeatAcc_agreeG1 {α β : Type} (conv : α → β) (data : Bytes) (m : WireCost.Rd α)
    (w : Int → Wire.G β) (h : AgreeG1 conv data m w) (n : Nat) :
    ∀ (acc : List α) (c k : Nat), match WireCost.repeatAcc m n acc data c k with
      | .ok l c' _ => ∃ new, l = acc.reverse ++ new ∧ Wire.repeatG w n (c : Int) = (new.map conv, .ok (c' : Int))
      | .err e _ => (Wire.repeatG w n (c : Int)).2 = .error (errMap e) := by
  induction n with
  | zero => intro acc c k; exact ⟨[], by simp, rfl⟩
  | succ n ih =>
    intro acc c k
    unfold WireCost.repeatAcc Wire.repeatG
    have h1 := h c k
    cases hr : m data c k with
    | err e k1 => rw [hr] at h1; simp only at h1 ⊢; rw [show w (c : Int) = ((w c).1, (w c).2) from rfl, h1]
    | ok a c1 k1 =>
      rw [hr] at h1; simp only at h1 ⊢
      rw [h1]
      have h2 := ih (a :: acc) c1 k1
      cases hr2 : WireCost.repeatAcc m n (a :: acc) data c1 k1 with
      | err e k2 => rw [hr2] at h2; simp only at h2 ⊢; exact h2
      | ok l c2 k2 =>
        rw [hr2] at h2; simp only at h2 ⊢
        obtain ⟨new, hl, hw⟩ := h2
        exact ⟨a :: new, by simp [hl], by rw [hw]; simp⟩

theorem repeatAcc_agreeG {α β : Type} (conv : α → β) (data : Bytes) (m : WireCost.Rd (List α))
    (w : Int → Wire.G β) (h : AgreeG conv data m w) (n : Nat) :
    ∀ (acc : List (List α)) (c k : Nat), match WireCost.repeatAcc m n acc data c k with
      | .ok l c' _ => ∃ new, l = acc.reverse ++ new ∧
          Wire.repeatG w n (c : Int) = (new.flatten.map conv, .ok (c' : Int))
      | .err e _ => (Wire.repeatG w n (c : Int)).2 = .error (errMap e) := by
  induction n with
  | zero => intro acc c k; exact ⟨[], by simp, rfl⟩
  | succ n ih =>
    intro acc c k
    unfold WireCost.repeatAcc Wire.repeatG
    have h1 := h c k
    cases hr : m data c k with
    | err e k1 => rw [hr] at h1; simp only at h1 ⊢; rw [show w (c : Int) = ((w c).1, (w c).2) from rfl, h1]
    | ok a c1 k1 =>
      rw [hr] at h1; simp only at h1 ⊢
      rw [h1]
      have h2 := ih (a :: acc) c1 k1
      cases hr2 : WireCost.repeatAcc m n (a :: acc) data c1 k1 with
      | err e k2 => rw [hr2] at h2; simp only at h2 ⊢; exact h2
      | ok l c2 k2 =>
        rw [hr2] at h2; simp only at h2 ⊢
        obtain ⟨new, hl, hw⟩ := h2
        exact ⟨a :: new, by simp [hl], by rw [hw]; simp⟩

theorem readLenPrefixed_agree' (ch : Char) (w : Nat) (hw : WireCost.fldSize ch = some w)
    (hs : WireCost.fldSigned ch = true) (null negBelow : Int) (hnull : null = -1) (hneg : negBelow = 0)
    (data : Bytes) (c k : Nat) :
    Wire.readLenPrefixed ['>', ch] (w : Int) null negBelow data (c : Int)
      = eraseRes (WireCost.readLenBytes w data c k) := by
  subst hnull hneg
  unfold Wire.readLenPrefixed WireCost.readLenBytes
  by_cases hlt : data.length < c + w
  · have : (data.length : Int) < (c : Int) + (w : Int) := by omega
    simp [hlt, this, eraseRes, errMap]
  · have h1 : ¬ ((data.length : Int) < (c : Int) + (w : Int)) := by omega
    simp only [hlt, h1, ↓reduceIte]
    rw [pySlice_eq data c w (by omega)]
    have hu : Wire.unpack ['>', ch] (WireCost.slice data c w)
        = some [WireCost.toSigned w (WireCost.beNat (WireCost.slice data c w))] := by
      have hfs : WireCost.fmtSize [ch] = some w := by simp [WireCost.fmtSize, hw]
      have := unpackBody_eq [ch] (WireCost.slice data c w) w hfs (slice_length data c w (by omega))
      simp only [Wire.unpack, this]
      simp only [WireCost.decodeFields, hw, hs]
      have ht : List.take w (WireCost.slice data c w) = WireCost.slice data c w :=
        List.take_of_length_le (by rw [slice_length data c w (by omega)]; exact Nat.le_refl _)
      simp [ht]
    rw [hu]
    simp only
    generalize WireCost.toSigned w (WireCost.beNat (WireCost.slice data c w)) = strlen
    by_cases hm1 : strlen = -1
    · subst hm1; simp [eraseRes]
    · have hb : ¬ ((strlen == -1) = true) := by simpa using hm1
      simp only [hm1, hb, Bool.false_eq_true, ↓reduceIte]
      by_cases hneg : strlen < 0
      · simp [hneg, eraseRes, errMap]
      · simp only [hneg, ↓reduceIte]
        obtain ⟨n, rfl⟩ : ∃ n : Nat, strlen = n := ⟨strlen.toNat, by omega⟩
        simp only [Int.toNat_natCast]
        by_cases hl2 : data.length < c + w + n
        · have : (data.length : Int) < (c : Int) + (w : Int) + (n : Int) := by omega
          simp [hl2, this, eraseRes, errMap]
        · have h2 : ¬ ((data.length : Int) < (c : Int) + (w : Int) + (n : Int)) := by omega
          simp only [hl2, h2, ↓reduceIte, eraseRes]
          have hs2 : pySlice data ((c : Int) + (w : Int)) ((c : Int) + (w : Int) + (n : Int))
              = WireCost.slice data (c + w) n := by
            have := pySlice_eq data (c + w) n (by omega)
            simpa using this
          rw [hs2]
          simp

theorem readShortBytes_agree (data : Bytes) (c k : Nat) :
    Wire.readShortBytes data (c : Int) = eraseRes (WireCost.readShortBytes data c k) :=
  readLenPrefixed_agree' 'h' 2 rfl rfl _ _ rfl rfl data c k

theorem readShortAscii_agree (data : Bytes) (c k : Nat) :
    Wire.readShortAscii data (c : Int) = eraseRes (WireCost.readShortAscii data c k) := by
  unfold Wire.readShortAscii WireCost.readShortAscii
  rw [readShortBytes_agree data c k]
  cases h : WireCost.readShortBytes data c k with
  | err e k1 => rw [C12.bind_err h]; simp [eraseRes]
  | ok b c1 k1 =>
    rw [C12.bind_ok h]
    simp only [eraseRes]
    cases b with
    | none => simp [Wire.decodeAscii, WireCost.decodeText, WireCost.fail, errMap]
    | some bs =>
      simp only [Wire.decodeAscii, WireCost.decodeText, Wire.isAscii, WireCost.validAscii]
      by_cases hv : (bs.all (· < 128)) = true
      · have hv' : (bs.all (· < 0x80)) = true := hv
        simp [hv, C12.pure_run]
      · have hv' : ¬ (bs.all (· < 0x80)) = true := hv
        simp [hv, WireCost.fail, errMap]

/-! ## `decode_fetch_response` -/

/-- one decoded partition entry of this package as wire's `FetchResp` (message set iterated) -/
def toFetchResp (gz : C12.Gz) (depth : Nat) : WireCost.Val → Wire.FetchResp
  | .list [.bytes t, .int p, .int e, .int hw, .mset d] =>
    ⟨t, p, e, hw, eraseSet (C12.decodeSetOpt gz depth d)⟩
  | _ => ⟨[], 0, 0, 0, ([], none)⟩

theorem fetch_consts :
    '>' :: Consts.c12Fmt_fetch_0 = Consts.fmt_decode_fetch_response_0 ∧
    '>' :: Consts.c12Fmt_fetch_1 = Consts.fmt_decode_fetch_response_1 ∧
    '>' :: Consts.c12Fmt_fetch_2 = Consts.fmt_decode_fetch_response_2 ∧
    '>' :: Consts.c12Fmt_fetch_3 = Consts.fmt_decode_fetch_response_3 ∧
    Consts.fetchRespV0Is = 0 ∧ Consts.fetchRespV2From = 2 := by decide

theorem fetchPartition_agree (gz : C12.Gz) (depth : Nat) (data topic : Bytes) :
    AgreeG1 (toFetchResp gz depth) data (WireCost.fetchPartition topic)
      (Wire.fetchPartition (extOf gz) (depth + 1) data topic) := by
  obtain ⟨-, -, -, f3, -, -⟩ := fetch_consts
  intro c k
  unfold Wire.fetchPartition Wire.ru3 WireCost.fetchPartition
  rw [← f3, relativeUnpack_agree Consts.c12Fmt_fetch_3 data c k]
  cases h0 : WireCost.relativeUnpack Consts.c12Fmt_fetch_3 data c k with
  | err e k0 => rw [C12.bind_err h0]; simp [eraseRes]
  | ok vals c0 k0 =>
    rw [C12.bind_ok h0]
    simp only [eraseRes]
    match vals with
    | [p, e, hw] =>
      simp only
      rw [readIntString_agree data c0 k0]
      cases h1 : WireCost.readIntString data c0 k0 with
      | err e1 k1 => rw [C12.bind_err h1]; simp [eraseRes]
      | ok ms c1 k1 =>
        rw [C12.bind_ok h1, C12.pure_run]
        simp [eraseRes, toFetchResp, decodeSetOpt_agree]
    | [] => simp [WireCost.fail, errMap]
    | [_] => simp [WireCost.fail, errMap]
    | [_, _] => simp [WireCost.fail, errMap]
    | _ :: _ :: _ :: _ :: _ => simp [WireCost.fail, errMap]

theorem forRange_agreeG1 {α β : Type} (conv : α → β) (data : Bytes) (m : WireCost.Rd α)
    (w : Int → Wire.G β) (h : AgreeG1 conv data m w) (n : Int) :
    AgreeG conv data (WireCost.forRange n m) (Wire.repeatG w n.toNat) := by
  intro c k
  have := repeatAcc_agreeG1 conv data m w h n.toNat [] c k
  unfold WireCost.forRange
  cases hr : WireCost.repeatAcc m n.toNat [] data c k with
  | err e k1 => rw [hr] at this; exact this
  | ok l c1 k1 =>
    rw [hr] at this
    obtain ⟨new, hl, hw⟩ := this
    simp only [List.reverse_nil, List.nil_append] at hl
    subst hl; exact hw

theorem fetchTopic_agree (gz : C12.Gz) (depth : Nat) (data : Bytes) :
    AgreeG (toFetchResp gz depth) data WireCost.fetchTopic (Wire.fetchTopic (extOf gz) (depth + 1) data) := by
  obtain ⟨-, -, f2, -, -, -⟩ := fetch_consts
  intro c k
  unfold Wire.fetchTopic Wire.ru1 WireCost.fetchTopic
  rw [readShortAscii_agree data c k]
  cases h0 : WireCost.readShortAscii data c k with
  | err e k0 => rw [C12.bind_err h0]; simp [eraseRes]
  | ok topic c0 k0 =>
    rw [C12.bind_ok h0]
    simp only [eraseRes]
    rw [← f2, relativeUnpack_agree Consts.c12Fmt_fetch_2 data c0 k0]
    cases h1 : WireCost.relativeUnpack Consts.c12Fmt_fetch_2 data c0 k0 with
    | err e k1 => rw [C12.bind_err h1]; simp [eraseRes]
    | ok vals c1 k1 =>
      rw [C12.bind_ok h1]
      simp only [eraseRes]
      match vals with
      | [n] =>
        simp only
        exact forRange_agreeG1 _ data _ _ (fetchPartition_agree gz depth data topic) n c1 k1
      | [] => simp [WireCost.fail, errMap]
      | _ :: _ :: _ => simp [WireCost.fail, errMap]

theorem rd_bind_assoc {α β γ : Type} (m : WireCost.Rd α) (f : α → WireCost.Rd β) (g : β → WireCost.Rd γ) :
    (m >>= f >>= g) = (m >>= fun a => f a >>= g) := by
  funext d c k
  show WireCost.Rd.bind (WireCost.Rd.bind m f) g d c k = WireCost.Rd.bind m (fun a => WireCost.Rd.bind (f a) g) d c k
  unfold WireCost.Rd.bind
  cases m d c k <;> rfl

theorem fetchTopics_agree (gz : C12.Gz) (depth : Nat) (data : Bytes) (n : Int) (c0 k0 : Nat) :
    match WireCost.fetchTopics n data c0 k0 with
    | .ok val c _ => ∃ parts, val = .list parts ∧
        Wire.repeatG (Wire.fetchTopic (extOf gz) (depth + 1) data) n.toNat (c0 : Int)
          = (parts.map (toFetchResp gz depth), .ok (c : Int))
    | .err e _ => (Wire.repeatG (Wire.fetchTopic (extOf gz) (depth + 1) data) n.toNat (c0 : Int)).2
        = .error (errMap e) := by
  unfold WireCost.fetchTopics
  have hloop := repeatAcc_agreeG (toFetchResp gz depth) data WireCost.fetchTopic
    (Wire.fetchTopic (extOf gz) (depth + 1) data) (fetchTopic_agree gz depth data) n.toNat [] c0 k0
  unfold WireCost.forRange
  cases hr : WireCost.repeatAcc WireCost.fetchTopic n.toNat [] data c0 k0 with
  | err e k1 => rw [hr] at hloop; rw [C12.bind_err hr]; exact hloop
  | ok tss c1 k1 =>
    rw [hr] at hloop
    obtain ⟨new, hl, hw⟩ := hloop
    simp only [List.reverse_nil, List.nil_append] at hl
    subst hl
    rw [C12.bind_ok hr, C12.pure_run]
    exact ⟨_, rfl, hw⟩

/-- **`decode_fetch_response`, message sets iterated**: when this package's decoder returns a value
    wire's generator ends normally at the same cursor having yielded exactly the corresponding
    `FetchResp`s (each with its message set iterated by wire's `decodeMessageSet`); when it raises,
    wire's generator ends with the same exception. -/
theorem decodeFetch_agree (gz : C12.Gz) (depth : Nat) (v : Int) (data : Bytes) :
    match WireCost.run (WireCost.decodeFetch v) data with
    | .ok val c _ => ∃ parts, val = .list parts ∧
        Wire.decodeFetchResponse (extOf gz) (depth + 1) data v = (parts.map (toFetchResp gz depth), .ok (c : Int))
    | .err e _ => (Wire.decodeFetchResponse (extOf gz) (depth + 1) data v).2 = .error (errMap e) := by
  obtain ⟨f0, f1, -, -, e0, e2⟩ := fetch_consts
  unfold WireCost.run WireCost.decodeFetch Wire.decodeFetchResponse WireCost.fetchHead Wire.ru2 Wire.ru3
  simp only [e0, e2]
  by_cases h0 : v = 0
  · subst h0
    simp only [beq_self_eq_true, ↓reduceIte]
    rw [← f0]
    have hru : Wire.relativeUnpack ('>' :: Consts.c12Fmt_fetch_0) data 0
        = eraseRes (WireCost.relativeUnpack Consts.c12Fmt_fetch_0 data 0 0) :=
      relativeUnpack_agree Consts.c12Fmt_fetch_0 data 0 0
    rw [hru]
    rw [rd_bind_assoc]
    cases h : WireCost.relativeUnpack Consts.c12Fmt_fetch_0 data 0 0 with
    | err e k => rw [C12.bind_err h]; simp [eraseRes]
    | ok vals c k =>
      rw [C12.bind_ok h]
      match vals with
      | [a, n] =>
        simp only [eraseRes]
        rw [C12.bind_ok (C12.pure_run _ _ _ _)]
        exact fetchTopics_agree gz depth data n c k
      | [] => rw [C12.bind_err (e := .valueError) (k' := k) rfl]; simp [eraseRes, errMap]
      | [_] => rw [C12.bind_err (e := .valueError) (k' := k) rfl]; simp [eraseRes, errMap]
      | _ :: _ :: _ :: _ => rw [C12.bind_err (e := .valueError) (k' := k) rfl]; simp [eraseRes, errMap]
  · have hb : (v == 0) = false := by simp [h0]
    simp only [h0, hb, Bool.false_eq_true, ↓reduceIte]
    by_cases h2 : v ≥ 2
    · simp only [h2, ↓reduceIte]
      rw [← f1]
      have hru : Wire.relativeUnpack ('>' :: Consts.c12Fmt_fetch_1) data 0
          = eraseRes (WireCost.relativeUnpack Consts.c12Fmt_fetch_1 data 0 0) :=
        relativeUnpack_agree Consts.c12Fmt_fetch_1 data 0 0
      rw [hru, rd_bind_assoc]
      cases h : WireCost.relativeUnpack Consts.c12Fmt_fetch_1 data 0 0 with
      | err e k => rw [C12.bind_err h]; simp [eraseRes]
      | ok vals c k =>
        rw [C12.bind_ok h]
        match vals with
        | [a, b, n] =>
          simp only [eraseRes]
          rw [C12.bind_ok (C12.pure_run _ _ _ _)]
          exact fetchTopics_agree gz depth data n c k
        | [] => rw [C12.bind_err (e := .valueError) (k' := k) rfl]; simp [eraseRes, errMap]
        | [_] => rw [C12.bind_err (e := .valueError) (k' := k) rfl]; simp [eraseRes, errMap]
        | [_, _] => rw [C12.bind_err (e := .valueError) (k' := k) rfl]; simp [eraseRes, errMap]
        | _ :: _ :: _ :: _ :: _ => rw [C12.bind_err (e := .valueError) (k' := k) rfl]; simp [eraseRes, errMap]
    · simp only [h2, ↓reduceIte]
      rw [C12.bind_err (e := .unboundLocal) (k' := 0) rfl]
      simp [errMap]
end Afkak.Agree
