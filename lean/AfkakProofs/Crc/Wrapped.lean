import AfkakProofs.Crc.CorruptSet
/-!
# Truncation and corruption in sets whose entries may be gzip wrappers

`setLoop_trunc_gen` / `setLoop_prefix_gen` are the entry-level forms of `setLoop_trunc` /
`setLoop_prefix`: they ask of an entry only that its message decodes cleanly to what it is said to
contain (`CleanEntry`).  Plain messages are clean (`decodeMessage_roundtrip`); a gzip wrapper of
either format is clean when the decompressor turns its payload into the encoding of a set of plain
messages (`wellFormed_clean`, through `decodeMessage_encoded` and `decodeSet_roundtrip`).
-/
namespace Afkak.C12
open Afkak.WireCost Afkak.Consts Afkak.Crc32 Afkak.Monitor.C12


theorem plain_encodable {m : Msg} (h : plainMsg m = true) : encodableMsg m = true := by
  simp only [plainMsg, Bool.and_eq_true] at h
  simp only [encodableMsg, Bool.and_eq_true]
  obtain ⟨⟨⟨⟨⟨⟨a, b⟩, c⟩, _⟩, d⟩, e⟩, f⟩ := h
  exact ⟨⟨⟨⟨⟨a, b⟩, c⟩, d⟩, e⟩, f⟩

/-- the fields after magic/attributes of an encodable message read back -/
theorem msgFields_roundtrip' (pre : List UInt8) (m : Msg) (hp : encodableMsg m = true) (k : Nat) :
    ∃ k', msgFields m.magic
        (pre ++ encTs m.ts ++ encBytes m.key ++ encBytes m.value)
        pre.length k = .ok (m.ts, m.key, m.value)
          (pre ++ encTs m.ts ++ encBytes m.key ++ encBytes m.value).length k' := by
  simp only [encodableMsg, Bool.and_eq_true, decide_eq_true_eq, Bool.or_eq_true, beq_iff_eq] at hp
  obtain ⟨⟨⟨⟨⟨hm, _⟩, _⟩, hk⟩, hv⟩, _⟩ := hp
  rcases hm with ⟨hm0, hts⟩ | ⟨hm1, hts⟩
  · rw [hts, hm0]
    simp only [msgFields, encTs, List.append_nil, beq_self_eq_true, ↓reduceIte]
    have h1 := read_encBytes pre (encBytes m.value) m.key hk k
    rw [bind_ok h1]
    have h2 := read_encBytes (pre ++ encBytes m.key) [] m.value hv (k + 1)
    simp only [List.append_nil, List.length_append] at h2
    rw [bind_ok h2, pure_run]
    exact ⟨k + 1 + 1, by simp [Nat.add_assoc]⟩
  · cases hts' : m.ts with
    | none => rw [hts'] at hts; simp at hts
    | some t =>
      rw [hts'] at hts
      simp only at hts
      rw [hm1]
      simp only [msgFields, encTs, c12Fmt_message_1, show ((1 : Int) == 0) = false from rfl,
        Bool.false_eq_true, ↓reduceIte]
      have h0 := unpack_q pre (encBytes m.key ++ encBytes m.value) t hts k
      simp only [List.append_assoc] at h0 ⊢
      rw [bind_ok h0]
      simp only
      have h1 := read_encBytes (pre ++ toBESigned 8 t) (encBytes m.value) m.key hk (k + 1)
      simp only [List.append_assoc, List.length_append, toBESigned_length] at h1
      rw [bind_ok h1]
      have h2 := read_encBytes (pre ++ toBESigned 8 t ++ encBytes m.key) [] m.value hv (k + 1 + 1)
      simp only [List.append_assoc, List.append_nil, List.length_append, toBESigned_length,
        ← Nat.add_assoc] at h2
      rw [bind_ok h2, pure_run]
      exact ⟨k + 1 + 1 + 1, by simp [Nat.add_assoc]⟩

/-- what `_decode_message` does with an encodable message once the CRC has matched and the fields
    are read: the codec dispatch -/
def codecTail (inner : List UInt8 → SetOut) (gz : Gz) (off : Int) (m : Msg) (k : Nat) : MsgRes :=
  if (m.attrs.toNat &&& c12CodecMask == c12CodecNone) = true then .out [(off, m)] none k 0
  else if (m.attrs.toNat &&& c12CodecMask == c12CodecGzip) = true then
    match gz m.value with
    | .error cls => .out [] (some (.external cls)) k 0
    | .ok g =>
      if (m.magic == 0) = true then .out (inner g).msgs (inner g).err (k + (inner g).cost) (g.length + (inner g).gz)
      else v1Inner off (inner g) k g.length
  else if (m.attrs.toNat &&& c12CodecMask == c12CodecSnappy) = true then .out [] (some .notImplemented) k 0
  else .out [] (some .protocol) k 0

theorem decodeMessage_encoded (inner : List UInt8 → SetOut) (gz : Gz) (off : Int) (m : Msg)
    (hp : encodableMsg m = true) :
    ∃ k, decodeMessage inner gz (some (encodeMessage m)) off = codecTail inner gz off m k := by
  have hp' := hp
  simp only [encodableMsg, Bool.and_eq_true, decide_eq_true_eq, Bool.or_eq_true, beq_iff_eq] at hp'
  obtain ⟨⟨⟨⟨⟨hm, ha0⟩, ha1⟩, hk⟩, hv⟩, _⟩ := hp'
  obtain ⟨c0, c1, c2, c3, hc⟩ := four_bytes (toBE 4 (crc32 (encodeBody m)).toNat) (by simp)
  have hcrc : beNat [c0, c1, c2, c3] = (crc32 (encodeBody m)).toNat := by
    rw [← hc, beNat_toBE]
    exact Nat.mod_eq_of_lt (by have := (crc32 (encodeBody m)).isLt; simpa using this)
  have hfK := msgFields_roundtrip'
    [c0, c1, c2, c3, UInt8.ofNat m.magic.toNat, UInt8.ofNat m.attrs.toNat] m hp
  have hmg : ((UInt8.ofNat m.magic.toNat).toNat : Int) = m.magic := by
    rcases hm with ⟨h, _⟩ | ⟨h, _⟩ <;> rw [h] <;> decide
  have hat : ((UInt8.ofNat m.attrs.toNat).toNat : Int) = m.attrs := by
    rw [UInt8.toNat_ofNat']; omega
  have hdata : encodeMessage m = [c0, c1, c2, c3, UInt8.ofNat m.magic.toNat, UInt8.ofNat m.attrs.toNat]
      ++ encTs m.ts ++ encBytes m.key ++ encBytes m.value := by
    simp only [encodeMessage]
    rw [hc]
    simp [encodeBody, List.append_assoc]
  have hlen : 6 ≤ (encodeMessage m).length := by rw [hdata]; simp
  have e1 : (beNat [UInt8.ofNat m.magic.toNat] : Int) = m.magic := by simpa [beNat] using hmg
  have e2 : (beNat [UInt8.ofNat m.attrs.toNat] : Int) = m.attrs := by simpa [beNat] using hat
  have e0 : (beNat [c0, c1, c2, c3] : Int) = ((crc32 (UInt8.ofNat m.magic.toNat ::
      UInt8.ofNat m.attrs.toNat :: (encTs m.ts ++ (encBytes m.key ++ encBytes m.value)))).toNat : Int) := by
    rw [hcrc]; simp [encodeBody]
  rw [hdata] at hlen ⊢
  simp only [List.cons_append, List.nil_append, List.append_assoc] at hfK hlen ⊢
  simp [decodeMessage, relativeUnpack, c12Fmt_message_0, fmtSize, fldSize, decodeFields, slice,
    fldSigned]
  rw [if_neg (by omega)]
  simp only [e0, e1, e2, ↓reduceIte]
  have hmm : m.magic = 0 ∨ m.magic = 1 := by rcases hm with ⟨h, _⟩ | ⟨h, _⟩ <;> simp [h]
  simp only [hmm, ↓reduceIte]
  generalize (1 + ((encTs m.ts).length + ((encBytes m.key).length + (encBytes m.value).length) + 1 + 1)) = K
  obtain ⟨k', hf⟩ := hfK K
  simp only [List.length_cons, List.length_nil] at hf
  rw [hf]
  refine ⟨k', ?_⟩
  unfold codecTail
  simp only [beq_iff_eq]
  split
  · rfl
  · split
    · cases gz m.value <;> rfl
    · rfl

/-! ## entries that decode cleanly (plain messages, or wrappers whose payload decompresses) -/

/-- an entry as bytes, with what iterating it yields -/
structure RawEntry where
  off : Int
  msg : List UInt8
  yields : List (Int × Msg)

def RawEntry.bytes (e : RawEntry) : List UInt8 :=
  toBESigned 8 e.off ++ toBESigned 4 e.msg.length ++ e.msg

def RawEntry.len (e : RawEntry) : Nat := 12 + e.msg.length

def encodeRaw : List RawEntry → List UInt8
  | [] => []
  | e :: rest => e.bytes ++ encodeRaw rest

/-- the entry's message decodes to `yields` and ends normally -/
def CleanEntry (inner : List UInt8 → SetOut) (gz : Gz) (e : RawEntry) : Prop :=
  int64 e.off = true ∧ e.msg.length < 2147483648 ∧
    ∃ k g, decodeMessage inner gz (some e.msg) e.off = .out e.yields none k g

theorem RawEntry.bytes_length (e : RawEntry) : e.bytes.length = e.len := by
  simp [RawEntry.bytes, RawEntry.len]; omega

/-- general form of `setLoop_trunc`: any clean entries, not only plain messages -/
theorem setLoop_trunc_gen (inner : List UInt8 → SetOut) (gz : Gz) (es : List RawEntry) :
    ∀ (pre : List UInt8) (c fuel : Nat) (rm : Bool) (acc : List (Int × Msg)) (k g : Nat),
      (∀ e ∈ es, CleanEntry inner gz e) → c ≤ (encodeRaw es).length → c < fuel →
      let n := completeCount (es.map RawEntry.len) c
      let ys := (es.take n).flatMap RawEntry.yields
      (setLoop inner gz (pre ++ (encodeRaw es).take c) fuel pre.length rm acc k g).msgs
          = acc.reverse ++ ys ∧
      (setLoop inner gz (pre ++ (encodeRaw es).take c) fuel pre.length rm acc k g).err
          = (if rm || !ys.isEmpty || decide (c = ((es.take n).map RawEntry.len).sum) then none
             else some Err.fetchSizeTooSmall) := by
  induction es with
  | nil =>
    intro pre c fuel rm acc k g _ hc hf
    have hc0 : c = 0 := by simpa [encodeRaw] using hc
    subst hc0
    obtain ⟨fuel, rfl⟩ : ∃ f, fuel = f + 1 := ⟨fuel - 1, by omega⟩
    unfold setLoop
    simp [encodeRaw, completeCount]
  | cons e rest ih =>
    intro pre c fuel rm acc k g hcl hc hf
    obtain ⟨fuel, rfl⟩ : ∃ f, fuel = f + 1 := ⟨fuel - 1, by omega⟩
    obtain ⟨ho, hM, k2, g2, hd⟩ := hcl e (by simp)
    have hrest : ∀ x ∈ rest, CleanEntry inner gz x := fun x hx => hcl x (by simp [hx])
    simp only [encodeRaw, List.map_cons, completeCount]
    by_cases hfit : e.len ≤ c
    · simp only [hfit, ↓reduceIte]
      have htake : (e.bytes ++ encodeRaw rest).take c = e.bytes ++ (encodeRaw rest).take (c - e.len) := by
        rw [List.take_append, List.take_of_length_le (by rw [e.bytes_length]; exact hfit), e.bytes_length]
      rw [htake]
      have hdata : pre ++ (e.bytes ++ (encodeRaw rest).take (c - e.len))
          = pre ++ (toBESigned 8 e.off ++ toBESigned 4 e.msg.length ++ e.msg) ++ (encodeRaw rest).take (c - e.len) := by
        simp [RawEntry.bytes, List.append_assoc]
      have hh := entryHeader_complete pre ((encodeRaw rest).take (c - e.len)) e.msg e.off ho hM k
      unfold setLoop
      have hcur : pre.length < (pre ++ (e.bytes ++ (encodeRaw rest).take (c - e.len))).length := by
        simp [RawEntry.bytes]; omega
      simp only [hcur, ↓reduceIte]
      rw [hdata, hh]
      simp only [hd]
      have hpre' : pre ++ (toBESigned 8 e.off ++ toBESigned 4 e.msg.length ++ e.msg)
            ++ (encodeRaw rest).take (c - e.len) = (pre ++ e.bytes) ++ (encodeRaw rest).take (c - e.len) := rfl
      have hcurlen : pre.length + (12 + e.msg.length) = (pre ++ e.bytes).length := by
        simp [RawEntry.bytes]; omega
      rw [hpre', hcurlen]
      have hc' : c - e.len ≤ (encodeRaw rest).length := by
        have : (encodeRaw (e :: rest)).length = e.len + (encodeRaw rest).length := by
          simp [encodeRaw, e.bytes_length]
        omega
      have hlen12 : 12 ≤ e.len := by simp [RawEntry.len]
      have := ih (pre ++ e.bytes) (c - e.len) fuel (rm || !e.yields.isEmpty)
        (e.yields.reverse ++ acc) (k + 2 + k2) (g + g2) hrest hc' (by omega)
      simp only at this
      refine ⟨?_, ?_⟩
      · rw [this.1]; simp
      · rw [this.2]
        simp only [List.take_succ_cons, List.flatMap_cons, List.map_cons, List.sum_cons]
        have e1 : (c - e.len = (List.map RawEntry.len (List.take (completeCount (List.map RawEntry.len rest) (c - e.len)) rest)).sum)
            ↔ (c = e.len + (List.map RawEntry.len (List.take (completeCount (List.map RawEntry.len rest) (c - e.len)) rest)).sum) := by
          omega
        simp only [e1]
        cases hy : e.yields with
        | nil => cases rm <;> simp
        | cons y ys' => cases rm <;> simp
    · simp only [hfit, ↓reduceIte]
      have htake : (e.bytes ++ encodeRaw rest).take c = e.bytes.take c := by
        rw [List.take_append]
        have : c - e.bytes.length = 0 := by rw [e.bytes_length]; omega
        simp [this]
      rw [htake]
      by_cases hc0 : c = 0
      · subst hc0
        unfold setLoop
        simp
      · obtain ⟨k', hh⟩ := entryHeader_partial pre e.msg e.off ho hM c (by simp only [RawEntry.len] at hfit; omega) k
        unfold setLoop
        have hcur : pre.length < (pre ++ e.bytes.take c).length := by
          simp [RawEntry.bytes, List.length_take]; omega
        simp only [hcur, ↓reduceIte]
        have hb : e.bytes = toBESigned 8 e.off ++ toBESigned 4 e.msg.length ++ e.msg := rfl
        rw [hb, hh]
        cases rm <;> simp [hc0]

/-- general form of `setLoop_prefix` -/
theorem setLoop_prefix_gen (inner : List UInt8 → SetOut) (gz : Gz) (before : List RawEntry) :
    ∀ (pre tail : List UInt8) (fuel : Nat) (rm : Bool) (acc : List (Int × Msg)) (k g : Nat),
      (∀ e ∈ before, CleanEntry inner gz e) → before.length ≤ fuel →
      ∃ k' g', setLoop inner gz (pre ++ encodeRaw before ++ tail) fuel pre.length rm acc k g
        = setLoop inner gz (pre ++ encodeRaw before ++ tail) (fuel - before.length)
            (pre ++ encodeRaw before).length (rm || !(before.flatMap RawEntry.yields).isEmpty)
            ((before.flatMap RawEntry.yields).reverse ++ acc) k' g' := by
  induction before with
  | nil =>
    intro pre tail fuel rm acc k g _ _
    exact ⟨k, g, by simp [encodeRaw]⟩
  | cons e rest ih =>
    intro pre tail fuel rm acc k g hcl hf
    obtain ⟨fuel, rfl⟩ : ∃ f, fuel = f + 1 := ⟨fuel - 1, by simp at hf; omega⟩
    obtain ⟨ho, hM, k2, g2, hd⟩ := hcl e (by simp)
    have hrest : ∀ x ∈ rest, CleanEntry inner gz x := fun x hx => hcl x (by simp [hx])
    have hdata : pre ++ encodeRaw (e :: rest) ++ tail
        = pre ++ (toBESigned 8 e.off ++ toBESigned 4 e.msg.length ++ e.msg) ++ (encodeRaw rest ++ tail) := by
      simp [encodeRaw, RawEntry.bytes, List.append_assoc]
    have hh := entryHeader_complete pre (encodeRaw rest ++ tail) e.msg e.off ho hM k
    have hdata2 : pre ++ encodeRaw (e :: rest) ++ tail = (pre ++ e.bytes) ++ encodeRaw rest ++ tail := by
      simp [encodeRaw, List.append_assoc]
    obtain ⟨k', g', hih⟩ := ih (pre ++ e.bytes) tail fuel (rm || !e.yields.isEmpty)
      (e.yields.reverse ++ acc) (k + 2 + k2) (g + g2) hrest (by simp at hf; omega)
    refine ⟨k', g', ?_⟩
    conv => lhs; unfold setLoop
    have hcur : pre.length < (pre ++ encodeRaw (e :: rest) ++ tail).length := by
      simp [encodeRaw, RawEntry.bytes]; omega
    simp only [hcur, ↓reduceIte]
    rw [hdata, hh]
    simp only [hd]
    have hcurlen : pre.length + (12 + e.msg.length) = (pre ++ e.bytes).length := by
      simp [RawEntry.bytes]; omega
    rw [← hdata, hdata2, hcurlen, hih]
    have e1 : fuel + 1 - (e :: rest).length = fuel - rest.length := by simp
    have e2 : (pre ++ e.bytes ++ encodeRaw rest).length = (pre ++ encodeRaw (e :: rest)).length := by
      simp [encodeRaw]
    rw [e1, e2]
    congr 1
    · cases hy : e.yields <;> cases rm <;> simp [hy]
    · simp

/-! ## plain messages and gzip wrappers are clean -/

def SetEntry.toRaw (e : SetEntry) : RawEntry := ⟨e.off, e.msgBytes, e.yields⟩

theorem encodeEntries_raw (es : List SetEntry) : encodeEntries es = encodeRaw (es.map SetEntry.toRaw) := by
  induction es with
  | nil => rfl
  | cons e rest ih => simp [encodeEntries, encodeRaw, ih, SetEntry.bytes, RawEntry.bytes, SetEntry.toRaw]

theorem encodable_size {m : Msg} (h : encodableMsg m = true) : (encodeMessage m).length < 2147483648 := by
  simp only [encodableMsg, Bool.and_eq_true, decide_eq_true_eq] at h
  exact h.2

theorem codec_consts : c12CodecNone = 0 ∧ c12CodecGzip = 1 := by decide

/-- a well-formed entry decodes cleanly, one nesting level being available for a wrapper -/
theorem wellFormed_clean (gz : Gz) (depth : Nat) (e : SetEntry) (h : e.WellFormed gz) :
    CleanEntry (decodeSet gz depth) gz e.toRaw := by
  cases e with
  | plain om =>
    obtain ⟨ho, hpm, hM⟩ := plainEntry_parts h
    obtain ⟨k, hd⟩ := decodeMessage_roundtrip (decodeSet gz depth) gz om.1 om.2 hpm
    exact ⟨ho, hM, k, 0, hd⟩
  | wrapper off wm ims =>
    obtain ⟨ho, henc, hcodec, hgz, hims⟩ := h
    refine ⟨ho, encodable_size henc, ?_⟩
    obtain ⟨k, hd⟩ := decodeMessage_encoded (decodeSet gz depth) gz off wm henc
    obtain ⟨c0, c1⟩ := codec_consts
    have hrt := decodeSet_roundtrip gz depth ims hims
    simp only [SetEntry.toRaw, SetEntry.off, SetEntry.msgBytes, SetEntry.yields]
    rw [hd]
    unfold codecTail
    have hn : ¬ ((wm.attrs.toNat &&& c12CodecMask == c12CodecNone) = true) := by
      rw [hcodec, c0, c1]; decide
    have hg : (wm.attrs.toNat &&& c12CodecMask == c12CodecGzip) = true := by simp [hcodec]
    simp only [hn, hg, ↓reduceIte, hgz, Bool.false_eq_true]
    by_cases hm0 : (wm.magic == 0) = true
    · simp only [hm0, ↓reduceIte]
      exact ⟨_, _, by rw [hrt.1, hrt.2]⟩
    · simp only [hm0, Bool.false_eq_true, ↓reduceIte]
      unfold v1Inner
      rw [hrt.2, hrt.1]
      cases ims.getLast? with
      | none => exact ⟨_, _, rfl⟩
      | some last => exact ⟨_, _, rfl⟩

theorem toRaw_len (es : List SetEntry) : (es.map SetEntry.toRaw).map RawEntry.len = es.map SetEntry.len := by
  simp [SetEntry.toRaw, RawEntry.len, SetEntry.len, Function.comp_def]

theorem toRaw_yields (es : List SetEntry) :
    (es.map SetEntry.toRaw).flatMap RawEntry.yields = es.flatMap SetEntry.yields := by
  simp [List.flatMap_map, SetEntry.toRaw]

/-- **Truncation, sets with gzip wrappers.**  Entries may be plain messages or gzip wrappers of
    either format whose payload the decompressor turns into the encoding of a set of plain messages.
    Iterating the first `c` bytes yields exactly what the complete entries contain (inner messages
    with stored offsets under a format-0 wrapper, re-based under a format-1 wrapper), then ends
    normally when the cut is on an entry boundary or something has been yielded, and raises
    `ConsumerFetchSizeTooSmall` otherwise. -/
theorem decodeSet_truncate_entries (gz : Gz) (depth : Nat) (es : List SetEntry) (c : Nat)
    (hwf : ∀ e ∈ es, e.WellFormed gz) (hc : c ≤ (encodeEntries es).length) :
    let n := completeCount (es.map SetEntry.len) c
    let ys := (es.take n).flatMap SetEntry.yields
    (decodeSet gz (depth + 1) ((encodeEntries es).take c)).msgs = ys ∧
    (decodeSet gz (depth + 1) ((encodeEntries es).take c)).err
      = (if !ys.isEmpty || decide (c = ((es.take n).map SetEntry.len).sum) then none
         else some Err.fetchSizeTooSmall) := by
  have hlen : ((encodeEntries es).take c).length = c := by simp [List.length_take]; omega
  have hcl : ∀ e ∈ es.map SetEntry.toRaw, CleanEntry (decodeSet gz depth) gz e := by
    intro e he
    obtain ⟨s, hs, rfl⟩ := List.mem_map.1 he
    exact wellFormed_clean gz depth s (hwf s hs)
  have := setLoop_trunc_gen (decodeSet gz depth) gz (es.map SetEntry.toRaw) [] c (c + 1) false [] 0 0 hcl
    (by rw [← encodeEntries_raw]; exact hc) (by omega)
  simp only [List.nil_append, List.length_nil, List.reverse_nil, Bool.false_or, toRaw_len,
    ← encodeEntries_raw, ← List.map_take, toRaw_yields] at this
  unfold decodeSet
  rw [hlen]
  simpa [List.map_map, Function.comp_def, SetEntry.toRaw, RawEntry.len, SetEntry.len] using this

/-- **Corruption inside a set with gzip wrappers**: the entries `before` the altered message may be
    plain or gzip wrappers; exactly what they contain is yielded, then `ChecksumError`. -/
theorem decodeSet_corrupt_entries (gz : Gz) (depth : Nat) (before : List SetEntry) (off : Int)
    (msg e : List UInt8) (k : Nat) (tail : List UInt8)
    (hwf : ∀ s ∈ before, s.WellFormed gz) (ho : int64 off = true)
    (hlen : msg.length < 2147483648)
    (hcrc : crcOk msg = true) (hb : isBurst msg.length e k = true) :
    let bad := xorBytes msg e
    let data := encodeEntries before ++ (toBESigned 8 off ++ toBESigned 4 bad.length ++ bad) ++ tail
    (decodeSet gz (depth + 1) data).msgs = before.flatMap SetEntry.yields ∧
    (decodeSet gz (depth + 1) data).err = some Err.checksum := by
  intro bad data
  have hel : e.length = msg.length := by
    simp only [isBurst, Bool.and_eq_true, beq_iff_eq] at hb; exact hb.1.1.1
  have hbl : bad.length = msg.length := xorBytes_length _ _ hel
  have hcl : ∀ r ∈ before.map SetEntry.toRaw, CleanEntry (decodeSet gz depth) gz r := by
    intro r hr
    obtain ⟨s, hs, rfl⟩ := List.mem_map.1 hr
    exact wellFormed_clean gz depth s (hwf s hs)
  have hbe : before.length ≤ (encodeEntries before).length := by
    clear hwf hcl
    induction before with
    | nil => simp
    | cons s rest ih => simp [encodeEntries, SetEntry.bytes] at ih ⊢; omega
  have hdl : (encodeEntries before).length + 12 ≤ data.length := by
    simp only [data, List.length_append, toBESigned_length]; omega
  obtain ⟨k', g', hp⟩ := setLoop_prefix_gen (decodeSet gz depth) gz (before.map SetEntry.toRaw) []
    ((toBESigned 8 off ++ toBESigned 4 bad.length ++ bad) ++ tail) (data.length + 1) false [] 0 0 hcl
    (by simp; omega)
  have hd0 : [] ++ encodeRaw (before.map SetEntry.toRaw) ++ ((toBESigned 8 off ++ toBESigned 4 bad.length ++ bad) ++ tail) = data := by
    simp [data, List.append_assoc, encodeEntries_raw]
  rw [hd0] at hp
  simp only [List.length_nil, List.nil_append, List.append_nil, List.length_map, ← encodeEntries_raw, toRaw_yields] at hp
  unfold decodeSet
  rw [hp]
  obtain ⟨f, hf⟩ : ∃ f, data.length + 1 - before.length = f + 1 := ⟨data.length - before.length, by omega⟩
  rw [hf]
  unfold setLoop
  have hcur : (encodeEntries before).length < data.length := by omega
  simp only [hcur, ↓reduceIte]
  have hh := entryHeader_complete (encodeEntries before) tail bad off ho (by omega) k'
  have hd1 : encodeEntries before ++ (toBESigned 8 off ++ toBESigned 4 bad.length ++ bad) ++ tail = data := rfl
  rw [hd1] at hh
  rw [hh]
  have hdm : decodeMessage (decodeSet gz depth) gz (some bad) off
      = .out [] (some .checksum) (1 + (msg.length - 4)) 0 :=
    decodeMessage_burst (decodeSet gz depth) gz off msg e k hcrc hb
  simp only [hdm]
  simp
end Afkak.C12
