import AfkakProofs.Crc.Lin
/-!
# Every response decoder is `Lin 0 0`: its primitive reads are at most `2·|input| + 1`

The tactic `lin` walks the desugared `do` block: each `>>=` is one of the three sequencing lemmas,
each loop is `lin_forRange`, each `match`/`if` is split.  The side condition "this fixed format is
at least one byte long" is discharged by `decide` on the format extracted from the source.
-/
namespace Afkak.WireCost
open Afkak.Consts

syntax "lin" : tactic
macro_rules
  | `(tactic| lin) => `(tactic| first
      | exact lin_pure _
      | exact lin_fail _
      | exact (lin_relativeUnpack _ (by decide))
      | exact lin_readShortBytes
      | exact lin_readIntString
      | exact lin_readShortAscii
      | exact lin_readShortText
      | exact Lin.weaken (lin_relativeUnpack _ (by decide)) (Nat.le_refl _) (Nat.zero_le _)
      | exact Lin.weaken lin_readShortBytes (Nat.le_refl _) (Nat.zero_le _)
      | exact Lin.weaken lin_readIntString (Nat.le_refl _) (Nat.zero_le _)
      | exact lin_relativeUnpackN _ _
      | (apply lin_forRange (c1 := 0); lin)
      | (refine lin_bind00 (c1 := 0) (c2 := 0) ?_ (fun _ => ?_) <;> lin)
      | (refine lin_bind01 ?_ (fun _ => ?_) <;> lin)
      | (refine lin_bind10 (c2 := 0) ?_ (fun _ => ?_) <;> lin)
      | (refine Lin.weaken (d := 0) (c := 0) (d' := 1) (c' := 0) ?_ (Nat.zero_le _) (Nat.le_refl _); lin)
      | (split <;> lin))

theorem lin_decodeApiVersions [HasMeasure] : Lin 0 0 decodeApiVersions := by unfold decodeApiVersions apiVersionEntry; lin
theorem lin_decodeProduce [HasMeasure] (v : Int) : Lin 0 0 (decodeProduce v) := by
  unfold decodeProduce produceTopics topicsLoop topicLoop producePartition; lin
theorem lin_fetchHead [HasMeasure] (v : Int) : Lin 0 0 (fetchHead v) := by unfold fetchHead; lin
theorem lin_decodeFetch [HasMeasure] (v : Int) : Lin 0 0 (decodeFetch v) := by
  unfold decodeFetch fetchHead fetchTopics fetchTopic fetchPartition; lin
theorem lin_decodeOffset [HasMeasure] : Lin 0 0 decodeOffset := by unfold decodeOffset topicsLoop topicLoop offsetPartition offsetEntry; lin
theorem lin_decodeMetadata [HasMeasure] : Lin 0 0 decodeMetadata := by unfold decodeMetadata metadataBody metadataTopic metadataPartition metadataBroker; lin
theorem lin_decodeConsumerMetadata [HasMeasure] : Lin 0 0 decodeConsumerMetadata := by
  unfold decodeConsumerMetadata; lin
theorem lin_decodeOffsetCommit [HasMeasure] : Lin 0 0 decodeOffsetCommit := by unfold decodeOffsetCommit topicsLoop topicLoop offsetCommitPartition; lin
theorem lin_decodeOffsetFetch [HasMeasure] : Lin 0 0 decodeOffsetFetch := by unfold decodeOffsetFetch topicsLoop topicLoop offsetFetchPartition; lin
theorem lin_decodeJoinGroupProtocolMetadata [HasMeasure] : Lin 0 0 decodeJoinGroupProtocolMetadata := by
  unfold decodeJoinGroupProtocolMetadata subscriptionEntry; lin
theorem lin_decodeJoinGroup [HasMeasure] : Lin 0 0 decodeJoinGroup := by unfold decodeJoinGroup joinGroupMember; lin
theorem lin_decodeLeaveGroup [HasMeasure] : Lin 0 0 decodeLeaveGroup := by
  unfold decodeLeaveGroup decodeErrorOnly; lin
theorem lin_decodeHeartbeat [HasMeasure] : Lin 0 0 decodeHeartbeat := by
  unfold decodeHeartbeat decodeErrorOnly; lin
theorem lin_decodeSyncGroup [HasMeasure] : Lin 0 0 decodeSyncGroup := by unfold decodeSyncGroup; lin
theorem lin_decodeSyncGroupMemberAssignment [HasMeasure] : Lin 0 0 decodeSyncGroupMemberAssignment := by
  unfold decodeSyncGroupMemberAssignment assignmentBody assignmentTopic; lin

end Afkak.WireCost
