import AfkakProofs.Crc.Lin
/-!
# Every response decoder is `Lin 0 0`: its primitive reads are at most `2·|input| + 1`

The tactic `lin` walks the desugared `do` block: each `>>=` is one of the three sequencing lemmas,
each loop is `lin_forRange`, each `match`/`if` is split.  The side condition "this fixed format is
at least one byte long" is discharged by `decide` on the format extracted from the source.
-/
namespace Afkak.WireCost
open Afkak.Consts

syntax "lin" : tactic
macro_rules
  | `(tactic| lin) => `(tactic| first
      | exact lin_pure _
      | exact lin_fail _
      | exact (lin_relativeUnpack _ (by decide))
      | exact lin_readShortBytes
      | exact lin_readIntString
      | exact lin_readShortAscii
      | exact lin_readShortText
      | exact Lin.weaken (lin_relativeUnpack _ (by decide)) (Nat.le_refl _) (Nat.zero_le _)
      | exact Lin.weaken lin_readShortBytes (Nat.le_refl _) (Nat.zero_le _)
      | exact Lin.weaken lin_readIntString (Nat.le_refl _) (Nat.zero_le _)
      | exact lin_relativeUnpackN _ _
      | (apply lin_forRange (c1 := 0); lin)
      | (refine lin_bind00 (c1 := 0) (c2 := 0) ?_ (fun _ => ?_) <;> lin)
      | (refine lin_bind01 ?_ (fun _ => ?_) <;> lin)
      | (refine lin_bind10 (c2 := 0) ?_ (fun _ => ?_) <;> lin)
      | (refine Lin.weaken (d := 0) (c := 0) (d' := 1) (c' := 0) ?_ (Nat.zero_le _) (Nat.le_refl _); lin)
      | (split <;> lin))

theorem lin_decodeApiVersions : Lin 0 0 decodeApiVersions := by unfold decodeApiVersions; lin
theorem lin_decodeProduce (v : Int) : Lin 0 0 (decodeProduce v) := by
  unfold decodeProduce produceTopics; lin
theorem lin_fetchHead (v : Int) : Lin 0 0 (fetchHead v) := by unfold fetchHead; lin
theorem lin_decodeFetch (v : Int) : Lin 0 0 (decodeFetch v) := by
  unfold decodeFetch fetchHead fetchTopics fetchTopic fetchPartition; lin
theorem lin_decodeOffset : Lin 0 0 decodeOffset := by unfold decodeOffset; lin
theorem lin_decodeMetadata : Lin 0 0 decodeMetadata := by unfold decodeMetadata; lin
theorem lin_decodeConsumerMetadata : Lin 0 0 decodeConsumerMetadata := by
  unfold decodeConsumerMetadata; lin
theorem lin_decodeOffsetCommit : Lin 0 0 decodeOffsetCommit := by unfold decodeOffsetCommit; lin
theorem lin_decodeOffsetFetch : Lin 0 0 decodeOffsetFetch := by unfold decodeOffsetFetch; lin
theorem lin_decodeJoinGroupProtocolMetadata : Lin 0 0 decodeJoinGroupProtocolMetadata := by
  unfold decodeJoinGroupProtocolMetadata; lin
theorem lin_decodeJoinGroup : Lin 0 0 decodeJoinGroup := by unfold decodeJoinGroup; lin
theorem lin_decodeLeaveGroup : Lin 0 0 decodeLeaveGroup := by
  unfold decodeLeaveGroup decodeErrorOnly; lin
theorem lin_decodeHeartbeat : Lin 0 0 decodeHeartbeat := by
  unfold decodeHeartbeat decodeErrorOnly; lin
theorem lin_decodeSyncGroup : Lin 0 0 decodeSyncGroup := by unfold decodeSyncGroup; lin
theorem lin_decodeSyncGroupMemberAssignment : Lin 0 0 decodeSyncGroupMemberAssignment := by
  unfold decodeSyncGroupMemberAssignment; lin

end Afkak.WireCost
