import AfkakProofs.Crc.Table
import Afkak.Monitor.C12
/-!
# Burst detection on byte strings

From `crcBits_window` (bit strings) to byte strings and the monitor's predicates
(`burstWithin`, `nonzero`): XOR-ing a non-zero error pattern whose set bits lie in a window of 32
consecutive bits (CRC bit order) into a byte string changes its CRC-32.
-/
namespace Afkak.Crc32
open Afkak.Monitor.C12

theorem bitsOf_length (l : List UInt8) : (bitsOf l).length = 8 * l.length := by
  induction l with
  | nil => rfl
  | cons b bs ih => simp [bitsOf, byteBits_length, ih]; omega

theorem byteBits_xor (x y : UInt8) : byteBits (x ^^^ y) = xorBits (byteBits x) (byteBits y) := by
  simp only [byteBits, xorBits, List.zipWith_cons_cons, List.zipWith_nil_right, UInt8.toNat_xor,
    Nat.testBit_xor]

theorem bitsOf_xorBytes (a b : List UInt8) :
    bitsOf (xorBytes a b) = xorBits (bitsOf a) (bitsOf b) := by
  induction a generalizing b with
  | nil => simp [xorBytes, xorBits, bitsOf]
  | cons x xs ih =>
    cases b with
    | nil => simp [xorBytes, xorBits, bitsOf]
    | cons y ys =>
      have := ih ys
      simp only [xorBytes, xorBits, List.zipWith_cons_cons, bitsOf] at this ⊢
      rw [List.zipWith_append (by simp [byteBits_length]), ← this, byteBits_xor]
      rfl

theorem allZeroBits_iff (l : List Bool) : allZeroBits l = true ↔ ∀ b ∈ l, b = false := by
  simp [allZeroBits]

theorem xorBits_zero (B E : List Bool) (hl : E.length = B.length) (hz : ∀ b ∈ E, b = false) :
    xorBits B E = B := by
  induction B generalizing E with
  | nil => simp [xorBits]
  | cons x xs ih =>
    cases E with
    | nil => simp at hl
    | cons y ys =>
      have hy : y = false := hz y (by simp)
      have := ih ys (by simpa using hl) (fun b hb => hz b (by simp [hb]))
      simp only [xorBits, List.zipWith_cons_cons] at this ⊢
      rw [this, hy]; simp

theorem xorBits_eq_self (B E : List Bool) (hl : E.length = B.length) (h : xorBits B E = B) :
    ∀ b ∈ E, b = false := by
  induction B generalizing E with
  | nil => cases E with
    | nil => simp
    | cons y ys => simp at hl
  | cons x xs ih =>
    cases E with
    | nil => simp at hl
    | cons y ys =>
      simp only [xorBits, List.zipWith_cons_cons, List.cons.injEq] at h
      intro b hb
      rcases List.mem_cons.1 hb with rfl | hb
      · cases x <;> cases b <;> simp_all
      · exact ih ys (by simpa using hl) h.2 b hb

theorem xorBits_length (B E : List Bool) (hl : E.length = B.length) :
    (xorBits B E).length = B.length := by
  simp [xorBits, hl]

/-- Burst detection, bit strings, in the form the monitor uses: the error bits outside
    `[k, k+32)` are zero and some error bit is set. -/
theorem crcBits_burst (B E : List Bool) (k : Nat) (hl : E.length = B.length)
    (hpre : ∀ b ∈ E.take k, b = false) (hpost : ∀ b ∈ E.drop (k + 32), b = false)
    (hnz : ∃ b ∈ E, b = true) : crcBits (xorBits B E) ≠ crcBits B := by
  have split : ∀ L : List Bool, L = L.take k ++ (L.drop k).take 32 ++ L.drop (k + 32) := by
    intro L
    rw [List.append_assoc, ← List.drop_drop, List.take_append_drop, List.take_append_drop]
  have hB := split B
  have hX := split (xorBits B E)
  have h1 : (xorBits B E).take k = B.take k := by
    simp only [xorBits, List.take_zipWith]
    exact xorBits_zero _ _ (by simp [hl]) hpre
  have h3 : (xorBits B E).drop (k + 32) = B.drop (k + 32) := by
    simp only [xorBits, List.drop_zipWith]
    exact xorBits_zero _ _ (by simp [hl]) hpost
  have h2 : ((xorBits B E).drop k).take 32 = xorBits ((B.drop k).take 32) ((E.drop k).take 32) := by
    simp only [xorBits, List.drop_zipWith, List.take_zipWith]
  have hX' : xorBits B E = B.take k ++ xorBits ((B.drop k).take 32) ((E.drop k).take 32)
      ++ B.drop (k + 32) := by
    rw [← h1, ← h2, ← h3]; exact hX
  rw [hX']
  conv => rhs; rw [hB]
  apply crcBits_window
  · rw [xorBits_length _ _ (by simp [hl])]
  · rw [xorBits_length _ _ (by simp [hl])]; simp; omega
  · intro heq
    have hz := xorBits_eq_self _ _ (by simp [hl]) heq
    obtain ⟨b, hb, hbt⟩ := hnz
    have hE := split E
    rw [hE] at hb
    simp only [List.mem_append] at hb
    rcases hb with (hb | hb) | hb
    · rw [hpre b hb] at hbt; cases hbt
    · rw [hz b hb] at hbt; cases hbt
    · rw [hpost b hb] at hbt; cases hbt

theorem byte_ne_zero_bit (b : UInt8) (h : b ≠ 0) : ∃ x ∈ byteBits b, x = true := by
  apply Decidable.byContradiction
  intro hc
  apply h
  have hall : ∀ i, i < 8 → b.toNat.testBit i = false := by
    intro i hi
    have : (byteBits b).getD i false ∈ byteBits b := by
      rw [List.getD_eq_getElem?_getD, List.getElem?_eq_getElem (by simpa [byteBits_length] using hi)]
      simp
    rw [byteBits_getD] at this
    cases hb : b.toNat.testBit i
    · rfl
    · exact absurd ⟨_, this, hb⟩ hc
  have : b.toNat = 0 := by
    apply Nat.eq_of_testBit_eq
    intro i
    by_cases hi : i < 8
    · simp [hall i hi]
    · have hb : b.toNat < 2 ^ 8 := b.toNat_lt
      simp [Nat.testBit_lt_two_pow (Nat.lt_of_lt_of_le hb (Nat.pow_le_pow_right (by omega) (by omega : 8 ≤ i)))]
  exact UInt8.toNat_inj.1 (by simpa using this)

theorem nonzero_bits (e : List UInt8) (h : nonzero e = true) : ∃ x ∈ bitsOf e, x = true := by
  induction e with
  | nil => simp [nonzero] at h
  | cons b bs ih =>
    by_cases hb : b = 0
    · have : nonzero bs = true := by simpa [nonzero, hb] using h
      obtain ⟨x, hx, hxt⟩ := ih this
      exact ⟨x, by simp [bitsOf, hx], hxt⟩
    · obtain ⟨x, hx, hxt⟩ := byte_ne_zero_bit b hb
      exact ⟨x, by simp [bitsOf, hx], hxt⟩

/-- **Burst detection, byte strings.**  A non-zero error pattern of the data's length whose set
    bits lie within 32 consecutive bits (CRC bit order) changes the CRC-32. -/
theorem crcSpec_burst (data e : List UInt8) (k : Nat) (hl : e.length = data.length)
    (hnz : nonzero e = true) (hw : burstWithin e k 32 = true) :
    crcSpec (xorBytes data e) ≠ crcSpec data := by
  simp only [burstWithin, Bool.and_eq_true, allZeroBits_iff] at hw
  simp only [crcSpec, bitsOf_xorBytes]
  exact crcBits_burst _ _ k (by simp [bitsOf_length, hl]) hw.1 hw.2 (nonzero_bits e hnz)

theorem crc32_burst (data e : List UInt8) (k : Nat) (hl : e.length = data.length)
    (hnz : nonzero e = true) (hw : burstWithin e k 32 = true) :
    crc32 (xorBytes data e) ≠ crc32 data := by
  rw [crc32_eq_crcSpec, crc32_eq_crcSpec]; exact crcSpec_burst data e k hl hnz hw

end Afkak.Crc32
