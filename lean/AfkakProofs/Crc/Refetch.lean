import Afkak.Consumer
import Afkak.Monitor.C12
/-!
# "The consumer then enlarges its buffer rather than skipping", on the consumer MODEL

`Afkak.Consumer` is the consumer package's model (properties C02/C03/C13/C14).  Here: the growth
function of this package is that model's growth function, and the model's `handleFetchResponse`
on a too-small answer satisfies the monitor `refetchOk` that the harness evaluates on the real
`Consumer`.
-/
namespace Afkak.C12
open Afkak.Monitor.C12

/-- the growth rule of this package is the consumer model's (both read the source's literals) -/
theorem grow_eq_consumer (b : Nat) (max : Option Nat) : grow b max = Afkak.Consumer.grow b max := by
  unfold grow growFactor Afkak.Consumer.grow
  have e1 : Consts.c12GrowThreshold = Consts.growThreshold := by decide
  have e2 : Consts.c12GrowFactorSmall = Consts.growFactorSmall := by decide
  have e3 : Consts.c12GrowFactor = Consts.growFactorLarge := by decide
  rw [e1, e2, e3]
  cases max <;> rfl

open Afkak.Consumer in
/-- **The consumer model's reaction to a too-small answer satisfies `refetchOk`**: a running consumer
    with no block in progress that receives a fetch reply with no complete message and the
    fetch-size-too-small ending keeps its fetch offset and sets its buffer to `grow buffer max` —
    or, at the maximum, keeps both and fails. -/
theorem consumer_refetchOk (cfg : Cfg) (inner : Ops) (k : Nat) (s : St)
    (hr : s.startD = .pending) (hb : s.msgBlock = false) (offs : List Int) (c : Nat) (hc : 0 < c) :
    refetchOk offs 0 s.fetchOffset
      (handleFetchResponse cfg inner k { msgs := [], tail := .small } s).fetchOffset
      s.bufferSize cfg.bufMax c
      (match Afkak.Consumer.grow s.bufferSize cfg.bufMax with
        | some _ => some (handleFetchResponse cfg inner k { msgs := [], tail := .small } s).bufferSize
        | none => none) = true := by
  have hretryO : ∀ (a : Option Rat) (x : St), (retryFetch cfg a x).fetchOffset = x.fetchOffset := by
    intro a x; unfold retryFetch emit; grind
  have hretryB : ∀ (a : Option Rat) (x : St), (retryFetch cfg a x).bufferSize = x.bufferSize := by
    intro a x; unfold retryFetch emit; grind
  have hc0 : (c == 0) = false := by simp; omega
  unfold refetchOk
  simp only [List.take_zero, List.getLast?_nil, hc0, Bool.false_eq_true, ↓reduceIte, grow_eq_consumer]
  unfold handleFetchResponse fetchBody fetchTail
  simp only [extract, deliverBlock, List.isEmpty_nil, if_true, hr, hb]
  cases hg : Afkak.Consumer.grow s.bufferSize cfg.bufMax with
  | some b => simp [hretryO, hretryB]
  | none => simp [startErrback, errbackRaises, emit]
end Afkak.C12
