import Afkak.Monitor.C12
/-!
# The other bit numbering: most significant bit of each byte first

`burstWithin` counts bits in the order CRC-32 consumes them (least significant bit of each byte
first); for that order every burst of span ≤ 32 is detected.  Counting bits the other way round
(most significant bit of each byte first, the usual way of drawing a byte string) gives the same
windows when they are byte-aligned, but a non-aligned window of 32 bits then consists of the LOW bits
of its first byte and the HIGH bits of its fifth byte — up to 40 bits apart in CRC order.  Such
"bursts" are not guaranteed to be detected; `AfkakProps/C12.lean` proves a concrete one of span 31
that is not (`C12_burst_msb_first_counterexample`).  These definitions exist to state that.
-/
namespace Afkak.Monitor.C12
open Afkak.Crc32

/-- the 8 bits of a byte, most significant first -/
def byteBitsMsb (b : UInt8) : List Bool :=
  [b.toNat.testBit 7, b.toNat.testBit 6, b.toNat.testBit 5, b.toNat.testBit 4,
   b.toNat.testBit 3, b.toNat.testBit 2, b.toNat.testBit 1, b.toNat.testBit 0]

def bitsOfMsb : List UInt8 → List Bool
  | [] => []
  | b :: bs => byteBitsMsb b ++ bitsOfMsb bs

/-- every set bit of `e` — bits numbered byte by byte, MOST significant bit of each byte first — lies
    in the window `[k, k + n)` -/
def burstWithinMsb (e : List UInt8) (k n : Nat) : Bool :=
  allZeroBits ((bitsOfMsb e).take k) && allZeroBits ((bitsOfMsb e).drop (k + n))

end Afkak.Monitor.C12
