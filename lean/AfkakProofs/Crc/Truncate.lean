import AfkakProofs.Crc.SetCost
import Afkak.Monitor.C12
/-!
# Truncation: iterating a prefix of an encoded message set
-/
namespace Afkak.C12
open Afkak.WireCost Afkak.Consts Afkak.Crc32 Afkak.Monitor.C12

/-! ## big-endian round trips -/

theorem foldl_be (acc : Nat) (b : List UInt8) :
    b.foldl (fun acc x => acc * 256 + x.toNat) acc
      = acc * 256 ^ b.length + b.foldl (fun acc x => acc * 256 + x.toNat) 0 := by
  induction b generalizing acc with
  | nil => simp
  | cons x xs ih =>
    simp only [List.foldl_cons, List.length_cons]
    rw [ih (acc * 256 + x.toNat), ih (0 * 256 + x.toNat), Nat.pow_succ]
    simp only [Nat.add_mul, Nat.zero_mul, Nat.zero_add, Nat.mul_assoc, Nat.add_assoc,
      Nat.mul_comm (256 ^ xs.length) 256]

theorem beNat_append (a b : List UInt8) : beNat (a ++ b) = beNat a * 256 ^ b.length + beNat b := by
  simp only [beNat, List.foldl_append]
  exact foldl_be _ _

@[simp] theorem toBE_length (w n : Nat) : (toBE w n).length = w := by
  induction w generalizing n with
  | zero => rfl
  | succ w ih => simp [toBE, ih]

theorem beNat_toBE (w n : Nat) : beNat (toBE w n) = n % 256 ^ w := by
  induction w generalizing n with
  | zero => simp [toBE, beNat, Nat.mod_one]
  | succ w ih =>
    rw [toBE, beNat_append, ih]
    simp only [List.length_singleton, Nat.pow_one, beNat, List.foldl_cons, List.foldl_nil,
      Nat.zero_mul, Nat.zero_add]
    have : (UInt8.ofNat (n % 256)).toNat = n % 256 := by simp [UInt8.toNat_ofNat']
    rw [this, Nat.pow_succ, Nat.mul_comm (256 ^ w) 256, Nat.mod_mul]
    omega

@[simp] theorem toBESigned_length (w : Nat) (i : Int) : (toBESigned w i).length = w := by
  simp [toBESigned]

theorem toSigned4 (i : Int) (h1 : -2147483648 ≤ i) (h2 : i < 2147483648) :
    toSigned 4 (beNat (toBESigned 4 i)) = i := by
  unfold toBESigned
  rw [beNat_toBE]
  unfold toSigned
  simp only [Nat.reduceMul, Nat.reduceSub, Nat.reducePow]
  split <;> omega

theorem toSigned8 (i : Int) (h : int64 i = true) : toSigned 8 (beNat (toBESigned 8 i)) = i := by
  simp only [int64, Bool.and_eq_true, decide_eq_true_eq] at h
  unfold toBESigned
  rw [beNat_toBE]
  unfold toSigned
  simp only [Nat.reduceMul, Nat.reduceSub, Nat.reducePow]
  split <;> omega

/-! ## reading at a cursor inside a concatenation -/

theorem slice_mid (pre x post : List UInt8) : slice (pre ++ x ++ post) pre.length x.length = x := by
  simp [slice, List.append_assoc]

theorem slice_mid' (pre x post : List UInt8) (n : Nat) (h : n = x.length) :
    slice (pre ++ x ++ post) pre.length n = x := by
  subst h; exact slice_mid pre x post

/-- `relative_unpack(">q")` on an encoded int64 -/
theorem unpack_q (pre post : List UInt8) (t : Int) (ht : int64 t = true) (k : Nat) :
    relativeUnpack ['q'] (pre ++ toBESigned 8 t ++ post) pre.length k
      = .ok [t] (pre.length + 8) (k + 1) := by
  unfold relativeUnpack
  simp only [fmtSize, fldSize, Nat.add_zero]
  have hl : ¬ (pre ++ toBESigned 8 t ++ post).length < pre.length + 8 := by simp
  simp only [hl, ↓reduceIte]
  rw [slice_mid' pre (toBESigned 8 t) post 8 (by simp)]
  simp only [decodeFields, fldSize, fldSigned]
  have : List.take 8 (toBESigned 8 t) = toBESigned 8 t := List.take_of_length_le (by simp)
  simp [this, toSigned8 t ht]

/-- `read_int_string` on an encoded (nullable) byte string -/
theorem read_encBytes (pre post : List UInt8) (x : Option (List UInt8)) (hx : optLen x < 2147483648)
    (k : Nat) :
    readIntString (pre ++ encBytes x ++ post) pre.length k
      = .ok x (pre.length + (encBytes x).length) (k + 1) := by
  cases x with
  | none =>
    simp only [encBytes]
    unfold readIntString readLenBytes
    have hl : ¬ (pre ++ toBESigned 4 (-1) ++ post).length < pre.length + 4 := by simp
    simp only [hl, ↓reduceIte]
    rw [slice_mid' pre _ post 4 (by simp), toSigned4 (-1) (by omega) (by omega)]
    simp
  | some b =>
    simp only [encBytes, optLen] at hx ⊢
    unfold readIntString readLenBytes
    have hl : ¬ (pre ++ (toBESigned 4 b.length ++ b) ++ post).length < pre.length + 4 := by
      simp
    simp only [hl, ↓reduceIte]
    have hs : slice (pre ++ (toBESigned 4 ↑b.length ++ b) ++ post) pre.length 4 = toBESigned 4 b.length := by
      have := slice_mid' pre (toBESigned 4 (b.length : Int)) (b ++ post) 4 (by simp)
      simpa [List.append_assoc] using this
    rw [hs, toSigned4 _ (by omega) (by omega)]
    have h1 : ¬ (((b.length : Int) == -1) = true) := by simp
    have h2 : ¬ ((b.length : Int) < 0) := by omega
    simp only [h1, h2, Bool.false_eq_true, ↓reduceIte, Int.toNat_natCast]
    have hl2 : ¬ (pre ++ (toBESigned 4 ↑b.length ++ b) ++ post).length < pre.length + 4 + b.length := by
      simp; omega
    simp only [hl2, ↓reduceIte, tick_reads]
    have hs2 : slice (pre ++ (toBESigned 4 ↑b.length ++ b) ++ post) (pre.length + 4) b.length = b := by
      have := slice_mid' (pre ++ toBESigned 4 (b.length : Int)) b post b.length rfl
      simpa [List.append_assoc] using this
    rw [hs2]
    simp [Nat.add_assoc]

/-! ## a plain message decodes to itself -/

theorem bind_ok {α β : Type} {m : Rd α} {f : α → Rd β} {d : List UInt8} {c k c' k' : Nat} {a : α}
    (h : m d c k = .ok a c' k') : (m >>= f) d c k = f a d c' k' := by
  show Rd.bind m f d c k = _
  unfold Rd.bind; rw [h]

theorem bind_err {α β : Type} {m : Rd α} {f : α → Rd β} {d : List UInt8} {c k k' : Nat} {e : Err}
    (h : m d c k = .err e k') : (m >>= f) d c k = .err e k' := by
  show Rd.bind m f d c k = _
  unfold Rd.bind; rw [h]

theorem pure_run {α : Type} (a : α) (d : List UInt8) (c k : Nat) : (pure a : Rd α) d c k = .ok a c k := rfl

/-- the fields after magic/attributes of a plain message read back -/
theorem msgFields_roundtrip (pre : List UInt8) (m : Msg) (hp : plainMsg m = true) (k : Nat) :
    ∃ k', msgFields m.magic
        (pre ++ encTs m.ts ++ encBytes m.key ++ encBytes m.value)
        pre.length k = .ok (m.ts, m.key, m.value)
          (pre ++ encTs m.ts ++ encBytes m.key ++ encBytes m.value).length k' := by
  simp only [plainMsg, Bool.and_eq_true, decide_eq_true_eq, Bool.or_eq_true, beq_iff_eq] at hp
  obtain ⟨⟨⟨⟨⟨⟨hm, _⟩, _⟩, _⟩, hk⟩, hv⟩, _⟩ := hp
  rcases hm with ⟨hm0, hts⟩ | ⟨hm1, hts⟩
  · rw [hts, hm0]
    simp only [msgFields, encTs, List.append_nil, beq_self_eq_true, ↓reduceIte]
    have h1 := read_encBytes pre (encBytes m.value) m.key hk k
    rw [bind_ok h1]
    have h2 := read_encBytes (pre ++ encBytes m.key) [] m.value hv (k + 1)
    simp only [List.append_nil, List.length_append] at h2
    rw [bind_ok h2, pure_run]
    exact ⟨k + 1 + 1, by simp [Nat.add_assoc]⟩
  · cases hts' : m.ts with
    | none => rw [hts'] at hts; simp at hts
    | some t =>
      rw [hts'] at hts
      simp only at hts
      rw [hm1]
      simp only [msgFields, encTs, c12Fmt_message_1, show ((1 : Int) == 0) = false from rfl,
        Bool.false_eq_true, ↓reduceIte]
      have h0 := unpack_q pre (encBytes m.key ++ encBytes m.value) t hts k
      simp only [List.append_assoc] at h0 ⊢
      rw [bind_ok h0]
      simp only
      have h1 := read_encBytes (pre ++ toBESigned 8 t) (encBytes m.value) m.key hk (k + 1)
      simp only [List.append_assoc, List.length_append, toBESigned_length] at h1
      rw [bind_ok h1]
      have h2 := read_encBytes (pre ++ toBESigned 8 t ++ encBytes m.key) [] m.value hv (k + 1 + 1)
      simp only [List.append_assoc, List.append_nil, List.length_append, toBESigned_length,
        ← Nat.add_assoc] at h2
      rw [bind_ok h2, pure_run]
      exact ⟨k + 1 + 1 + 1, by simp [Nat.add_assoc]⟩

theorem four_bytes (l : List UInt8) (h : l.length = 4) : ∃ a b c d, l = [a, b, c, d] := by
  match l, h with
  | [a, b, c, d], _ => exact ⟨a, b, c, d, rfl⟩

theorem decodeMessage_roundtrip (inner : List UInt8 → SetOut) (gz : Gz) (off : Int) (m : Msg)
    (hp : plainMsg m = true) :
    ∃ k, decodeMessage inner gz (some (encodeMessage m)) off = .out [(off, m)] none k 0 := by
  have hp' := hp
  simp only [plainMsg, Bool.and_eq_true, decide_eq_true_eq, Bool.or_eq_true, beq_iff_eq] at hp'
  obtain ⟨⟨⟨⟨⟨⟨hm, ha0⟩, ha1⟩, hcodec⟩, hk⟩, hv⟩, _⟩ := hp'
  obtain ⟨c0, c1, c2, c3, hc⟩ := four_bytes (toBE 4 (crc32 (encodeBody m)).toNat) (by simp)
  have hcrc : beNat [c0, c1, c2, c3] = (crc32 (encodeBody m)).toNat := by
    rw [← hc, beNat_toBE]
    exact Nat.mod_eq_of_lt (by have := (crc32 (encodeBody m)).isLt; simpa using this)
  have hfK := msgFields_roundtrip
    [c0, c1, c2, c3, UInt8.ofNat m.magic.toNat, UInt8.ofNat m.attrs.toNat] m hp
  have hmg : ((UInt8.ofNat m.magic.toNat).toNat : Int) = m.magic := by
    rcases hm with ⟨h, _⟩ | ⟨h, _⟩ <;> rw [h] <;> decide
  have hat : ((UInt8.ofNat m.attrs.toNat).toNat : Int) = m.attrs := by
    rw [UInt8.toNat_ofNat']; omega
  have hdata : encodeMessage m = [c0, c1, c2, c3, UInt8.ofNat m.magic.toNat, UInt8.ofNat m.attrs.toNat]
      ++ encTs m.ts ++ encBytes m.key ++ encBytes m.value := by
    simp only [encodeMessage]
    rw [hc]
    simp [encodeBody, List.append_assoc]
  have hlen : 6 ≤ (encodeMessage m).length := by rw [hdata]; simp
  have e1 : (beNat [UInt8.ofNat m.magic.toNat] : Int) = m.magic := by simpa [beNat] using hmg
  have e2 : (beNat [UInt8.ofNat m.attrs.toNat] : Int) = m.attrs := by simpa [beNat] using hat
  have e0 : (beNat [c0, c1, c2, c3] : Int) = ((crc32 (UInt8.ofNat m.magic.toNat ::
      UInt8.ofNat m.attrs.toNat :: (encTs m.ts ++ (encBytes m.key ++ encBytes m.value)))).toNat : Int) := by
    rw [hcrc]; simp [encodeBody]
  rw [hdata] at hlen ⊢
  simp only [List.cons_append, List.nil_append, List.append_assoc] at hfK hlen ⊢
  simp [decodeMessage, relativeUnpack, c12Fmt_message_0, fmtSize, fldSize, decodeFields, slice,
    fldSigned]
  rw [if_neg (by omega)]
  simp only [e0, e1, e2, ↓reduceIte]
  have hmm : m.magic = 0 ∨ m.magic = 1 := by rcases hm with ⟨h, _⟩ | ⟨h, _⟩ <;> simp [h]
  simp only [hmm, ↓reduceIte]
  generalize (1 + ((encTs m.ts).length + ((encBytes m.key).length + (encBytes m.value).length) + 1 + 1)) = K
  obtain ⟨k', hf⟩ := hfK K
  simp only [List.length_cons, List.length_nil] at hf
  rw [hf]
  simp only [hcodec, ↓reduceIte]
  exact ⟨k', rfl⟩
/-! ## entries, complete and cut short -/

/-- the header and body of a complete entry are read back -/
theorem entryHeader_complete (pre post M : List UInt8) (off : Int) (ho : int64 off = true)
    (hM : M.length < 2147483648) (k : Nat) :
    entryHeader (pre ++ (toBESigned 8 off ++ toBESigned 4 M.length ++ M) ++ post) pre.length k
      = .ok (off, some M) (pre.length + (12 + M.length)) (k + 2) := by
  unfold entryHeader
  simp only [c12Fmt_msgset_0]
  have h0 := unpack_q pre (toBESigned 4 M.length ++ M ++ post) off ho k
  simp only [List.append_assoc] at h0 ⊢
  rw [bind_ok h0]
  simp only
  have h1 := read_encBytes (pre ++ toBESigned 8 off) post (some M) (by simpa [optLen] using hM) (k + 1)
  simp only [encBytes, List.append_assoc, List.length_append, toBESigned_length] at h1
  rw [bind_ok h1, pure_run]
  congr 1 <;> omega

theorem readIntString_short (d : List UInt8) (c k : Nat) (h : d.length < c + 4) :
    readIntString d c k = .err .bufferUnderflow (k + 1) := by
  unfold readIntString readLenBytes
  simp [h]

theorem readIntString_partial (pre rest : List UInt8) (n : Nat) (hn : n < 2147483648)
    (hr : rest.length < n) (k : Nat) :
    readIntString (pre ++ toBESigned 4 n ++ rest) pre.length k = .err .bufferUnderflow (k + 1) := by
  unfold readIntString readLenBytes
  have hl : ¬ (pre ++ toBESigned 4 n ++ rest).length < pre.length + 4 := by simp
  simp only [hl, ↓reduceIte]
  rw [slice_mid' pre _ rest 4 (by simp), toSigned4 _ (by omega) (by omega)]
  have h1 : ¬ (((n : Int) == -1) = true) := by simp
  have h2 : ¬ ((n : Int) < 0) := by omega
  simp only [h1, h2, Bool.false_eq_true, ↓reduceIte, Int.toNat_natCast]
  have hl2 : (pre ++ toBESigned 4 ↑n ++ rest).length < pre.length + 4 + n := by simp; omega
  simp only [hl2, ↓reduceIte, tick_reads]

/-- a strict, non-empty prefix of an entry: the header or the body read underflows -/
theorem entryHeader_partial (pre M : List UInt8) (off : Int) (ho : int64 off = true)
    (hM : M.length < 2147483648) (j : Nat) (hj : j < 12 + M.length) (k : Nat) :
    ∃ k', entryHeader (pre ++ (toBESigned 8 off ++ toBESigned 4 M.length ++ M).take j) pre.length k
      = .err .bufferUnderflow k' := by
  unfold entryHeader
  simp only [c12Fmt_msgset_0]
  by_cases h8 : j < 8
  · refine ⟨k + 1, ?_⟩
    have : relativeUnpack ['q'] (pre ++ (toBESigned 8 off ++ toBESigned 4 M.length ++ M).take j) pre.length k
        = .err .bufferUnderflow (k + 1) := by
      unfold relativeUnpack
      simp only [fmtSize, fldSize, Nat.add_zero]
      have : (pre ++ (toBESigned 8 off ++ toBESigned 4 M.length ++ M).take j).length < pre.length + 8 := by
        simp [List.length_take]; omega
      simp only [this, ↓reduceIte, tick_reads]
    rw [bind_err this]
  · have ht : (toBESigned 8 off ++ toBESigned 4 M.length ++ M).take j
        = toBESigned 8 off ++ (toBESigned 4 M.length ++ M).take (j - 8) := by
      rw [List.append_assoc, List.take_append, List.take_of_length_le (by simp; omega)]
      simp
    rw [ht]
    have h0 := unpack_q pre ((toBESigned 4 M.length ++ M).take (j - 8)) off ho k
    simp only [List.append_assoc] at h0 ⊢
    rw [bind_ok h0]
    simp only
    by_cases h12 : j < 12
    · refine ⟨k + 1 + 1, ?_⟩
      have : readIntString (pre ++ (toBESigned 8 off ++ (toBESigned 4 M.length ++ M).take (j - 8)))
          (pre.length + 8) (k + 1) = .err .bufferUnderflow (k + 1 + 1) := by
        apply readIntString_short
        simp [List.length_take]; omega
      rw [bind_err this]
    · refine ⟨k + 1 + 1, ?_⟩
      have ht2 : (toBESigned 4 (M.length : Int) ++ M).take (j - 8)
          = toBESigned 4 M.length ++ M.take (j - 12) := by
        rw [List.take_append, List.take_of_length_le (by simp; omega)]
        simp only [toBESigned_length, Nat.sub_sub]
      rw [ht2]
      have := readIntString_partial (pre ++ toBESigned 8 off) (M.take (j - 12)) M.length hM
        (by simp [List.length_take]; omega) (k + 1)
      simp only [List.append_assoc, List.length_append, toBESigned_length] at this
      rw [bind_err this]

def entryLen (om : Int × Msg) : Nat := (encodeEntry om).length

theorem encodeEntry_eq (om : Int × Msg) :
    encodeEntry om = toBESigned 8 om.1 ++ toBESigned 4 (encodeMessage om.2).length ++ encodeMessage om.2 := by
  simp [encodeEntry]

theorem entryLen_eq (om : Int × Msg) : entryLen om = 12 + (encodeMessage om.2).length := by
  simp [entryLen, encodeEntry_eq]; omega

theorem plainEntry_parts {om : Int × Msg} (h : plainEntry om = true) :
    int64 om.1 = true ∧ plainMsg om.2 = true ∧ (encodeMessage om.2).length < 2147483648 := by
  simp only [plainEntry, Bool.and_eq_true] at h
  refine ⟨h.1, h.2, ?_⟩
  have := h.2
  simp only [plainMsg, Bool.and_eq_true, decide_eq_true_eq] at this
  exact this.2

theorem setLoop_trunc (inner : List UInt8 → SetOut) (gz : Gz) (ms : List (Int × Msg)) :
    ∀ (pre : List UInt8) (c fuel : Nat) (rm : Bool) (acc : List (Int × Msg)) (k g : Nat),
      (∀ om ∈ ms, plainEntry om = true) → c ≤ (encodeSet ms).length → c < fuel →
      (setLoop inner gz (pre ++ (encodeSet ms).take c) fuel pre.length rm acc k g).msgs
          = acc.reverse ++ ms.take (completeCount (ms.map entryLen) c) ∧
      (setLoop inner gz (pre ++ (encodeSet ms).take c) fuel pre.length rm acc k g).err
          = (if rm || decide (0 < completeCount (ms.map entryLen) c) || decide (c = 0) then none
             else some Err.fetchSizeTooSmall) := by
  induction ms with
  | nil =>
    intro pre c fuel rm acc k g _ hc hf
    have hc0 : c = 0 := by simpa [encodeSet] using hc
    subst hc0
    obtain ⟨fuel, rfl⟩ : ∃ f, fuel = f + 1 := ⟨fuel - 1, by omega⟩
    unfold setLoop
    simp [encodeSet, completeCount]
  | cons om rest ih =>
    intro pre c fuel rm acc k g hpl hc hf
    obtain ⟨fuel, rfl⟩ : ∃ f, fuel = f + 1 := ⟨fuel - 1, by omega⟩
    obtain ⟨ho, hpm, hM⟩ := plainEntry_parts (hpl om (by simp))
    have hrest : ∀ x ∈ rest, plainEntry x = true := fun x hx => hpl x (by simp [hx])
    have hlenE := entryLen_eq om
    simp only [encodeSet, List.map_cons, completeCount]
    by_cases hfit : entryLen om ≤ c
    · -- the first entry is complete
      simp only [hfit, ↓reduceIte]
      have htake : (encodeEntry om ++ encodeSet rest).take c
          = encodeEntry om ++ (encodeSet rest).take (c - entryLen om) := by
        rw [List.take_append, List.take_of_length_le (by simpa [entryLen] using hfit)]; rfl
      rw [htake]
      have hdata : pre ++ (encodeEntry om ++ (encodeSet rest).take (c - entryLen om))
          = pre ++ (toBESigned 8 om.1 ++ toBESigned 4 (encodeMessage om.2).length ++ encodeMessage om.2)
              ++ (encodeSet rest).take (c - entryLen om) := by
        rw [encodeEntry_eq]; simp [List.append_assoc]
      have hh := entryHeader_complete pre ((encodeSet rest).take (c - entryLen om))
        (encodeMessage om.2) om.1 ho hM k
      obtain ⟨k2, hd⟩ := decodeMessage_roundtrip inner gz om.1 om.2 hpm
      unfold setLoop
      have hcur : pre.length < (pre ++ (encodeEntry om ++ (encodeSet rest).take (c - entryLen om))).length := by
        simp [encodeEntry_eq]; omega
      simp only [hcur, ↓reduceIte]
      rw [hdata, hh]
      simp only [hd]
      have hpre' : pre ++ (toBESigned 8 om.1 ++ toBESigned 4 (encodeMessage om.2).length ++ encodeMessage om.2)
            ++ (encodeSet rest).take (c - entryLen om)
          = (pre ++ encodeEntry om) ++ (encodeSet rest).take (c - entryLen om) := by
        rw [encodeEntry_eq]
      have hcurlen : pre.length + (12 + (encodeMessage om.2).length) = (pre ++ encodeEntry om).length := by
        simp [encodeEntry_eq]; omega
      rw [hpre', hcurlen]
      have hc' : c - entryLen om ≤ (encodeSet rest).length := by
        simp [encodeSet, entryLen] at hc ⊢; omega
      have := ih (pre ++ encodeEntry om) (c - entryLen om) fuel (rm || !([(om.1, om.2)] : List (Int × Msg)).isEmpty)
        (([(om.1, om.2)] : List (Int × Msg)).reverse ++ acc) (k + 2 + k2) (g + 0) hrest hc' (by omega)
      refine ⟨?_, ?_⟩
      · rw [this.1]; simp
      · rw [this.2]; simp
    · -- the cut falls inside the first entry
      simp only [hfit, ↓reduceIte]
      have htake : (encodeEntry om ++ encodeSet rest).take c = (encodeEntry om).take c := by
        rw [List.take_append]
        have : c - (encodeEntry om).length = 0 := by simp [entryLen] at hfit; omega
        simp [this]
      rw [htake]
      by_cases hc0 : c = 0
      · subst hc0
        unfold setLoop
        simp
      · rw [encodeEntry_eq]
        obtain ⟨k', hh⟩ := entryHeader_partial pre (encodeMessage om.2) om.1 ho hM c (by omega) k
        unfold setLoop
        have hcur : pre.length < (pre ++ (toBESigned 8 om.1 ++ toBESigned 4 (encodeMessage om.2).length
            ++ encodeMessage om.2).take c).length := by
          simp [List.length_take]; omega
        simp only [hcur, ↓reduceIte, hh]
        cases rm <;> simp [hc0]

/-- **C12 (b).**  Iterating the first `c` bytes of an encoded set of plain messages yields exactly
    the messages whose entries are complete, and ends normally — or, when `0 < c` and not even one
    entry is complete, yields nothing and raises `ConsumerFetchSizeTooSmall`. -/
theorem decodeSet_truncate (gz : Gz) (depth : Nat) (ms : List (Int × Msg)) (c : Nat)
    (hpl : ∀ om ∈ ms, plainEntry om = true) (hc : c ≤ (encodeSet ms).length) :
    (decodeSet gz depth ((encodeSet ms).take c)).msgs
        = ms.take (completeCount (ms.map entryLen) c) ∧
    (decodeSet gz depth ((encodeSet ms).take c)).err
        = (if 0 < completeCount (ms.map entryLen) c ∨ c = 0 then none
           else some Err.fetchSizeTooSmall) := by
  have hlen : ((encodeSet ms).take c).length = c := by simp [List.length_take]; omega
  cases depth with
  | zero =>
    unfold decodeSet
    have := setLoop_trunc (fun _ => ⟨[], some Err.recursion, 0, 0⟩) gz ms [] c (c + 1) false [] 0 0 hpl hc
      (by omega)
    simp only [List.nil_append, List.length_nil, List.reverse_nil, Bool.false_or] at this
    rw [hlen]
    refine ⟨this.1, ?_⟩
    rw [this.2]; simp
  | succ d =>
    unfold decodeSet
    have := setLoop_trunc (decodeSet gz d) gz ms [] c (c + 1) false [] 0 0 hpl hc (by omega)
    simp only [List.nil_append, List.length_nil, List.reverse_nil, Bool.false_or] at this
    rw [hlen]
    refine ⟨this.1, ?_⟩
    rw [this.2]; simp

/-- the same, as the monitor that is evaluated on the real decoder's outcome -/
theorem decodeSet_truncOk (gz : Gz) (depth : Nat) (ms : List (Int × Msg)) (c : Nat)
    (hpl : ∀ om ∈ ms, plainEntry om = true) (hc : c ≤ (encodeSet ms).length) :
    truncOk (ms.map entryLen) ms c (decodeSet gz depth ((encodeSet ms).take c)).msgs
      (decodeSet gz depth ((encodeSet ms).take c)).err = true := by
  obtain ⟨h1, h2⟩ := decodeSet_truncate gz depth ms c hpl hc
  unfold truncOk
  rw [h1, h2]
  by_cases hk : completeCount (ms.map entryLen) c = 0
  · by_cases hc0 : c = 0
    · subst hc0; simp [hk]
    · have : 0 < c := by omega
      simp [hk, this, hc0]
  · have : 0 < completeCount (ms.map entryLen) c := by omega
    simp [hk, this]

theorem encodeSet_length (ms : List (Int × Msg)) : (encodeSet ms).length = (ms.map entryLen).sum := by
  induction ms with
  | nil => rfl
  | cons om rest ih => simp [encodeSet, entryLen, ih]

theorem completeCount_all (lens : List Nat) : completeCount lens lens.sum = lens.length := by
  induction lens with
  | nil => rfl
  | cons l ls ih => simp [completeCount, ih]

/-- an untruncated set of plain messages decodes to exactly those messages -/
theorem decodeSet_roundtrip (gz : Gz) (depth : Nat) (ms : List (Int × Msg))
    (hpl : ∀ om ∈ ms, plainEntry om = true) :
    (decodeSet gz depth (encodeSet ms)).msgs = ms ∧ (decodeSet gz depth (encodeSet ms)).err = none := by
  have h := decodeSet_truncate gz depth ms (encodeSet ms).length hpl (Nat.le_refl _)
  rw [List.take_of_length_le (Nat.le_refl _)] at h
  rw [encodeSet_length, completeCount_all] at h
  simp only [List.length_map, List.take_length] at h
  refine ⟨h.1, ?_⟩
  rw [h.2]
  cases ms with
  | nil => simp
  | cons om rest => simp

end Afkak.C12
