import AfkakProofs.Crc.RefetchDelivery
/-!
# `refetchOk` for a reply that had to wait behind a block in progress

When a fetch reply arrives while the previous block is still being processed,
`_handle_fetch_response` parks it behind `_msg_block_d` (`handleFetchResponse`, `msgBlock = true`
branch: nothing is delivered, the position stays).  It is handled when the block finishes
(`finishFull`, the `_msg_block_d` callback).  This file proves the delivery half of `refetchOk` for
that moment: the position ends right after the last parked message, the buffer is unchanged.
-/
namespace Afkak.C12
open Afkak.Consumer Afkak.Monitor.C12

theorem consumer_refetch_after_delivery_parked (cfg : Cfg) (inner : Ops) (hin : OpsK inner) (s : St)
    (m : Msg) (ms : List Msg)
    (hb : s.msgBlock = true) (hpk : s.parked = some { msgs := m :: ms, tail := .done })
    (hr : (s.startD == .none) = false)
    (hp : ((m :: ms).map (·.off)).Pairwise (· < ·)) (hf : s.fetchOffset ≤ m.off) :
    let s' := finishFull cfg inner s
    refetchOk ((m :: ms).map (·.off)) (ms.length + 1) s.fetchOffset s'.fetchOffset s.bufferSize cfg.bufMax 1
      (some s'.bufferSize) = true := by
  intro s'
  have hex := extract_snd_sorted (m :: ms) s.fetchOffset hp (by
    intro x hx; simp only [List.head?_cons, Option.some.injEq] at hx; subst hx; exact hf)
  obtain ⟨o, ho⟩ : ∃ o, ((m :: ms).map (·.off)).getLast? = some o := by
    cases h : ((m :: ms).map (·.off)).getLast? with
    | none => simp at h
    | some o => exact ⟨o, rfl⟩
  rw [ho] at hex
  have key : s'.fetchOffset = o + 1 ∧ s'.bufferSize = s.bufferSize := by
    show (finishFull cfg inner s).fetchOffset = o + 1 ∧ (finishFull cfg inner s).bufferSize = s.bufferSize
    unfold finishFull
    simp only [hb, if_true, hpk, hr, Bool.false_eq_true, if_false]
    unfold fetchBody
    have := fetchTail_done_frame (cfg := cfg) hin true (m :: ms)
      { s with msgBlock := false, parked := none, retryDelay := cfg.retryInit, attempts := 1, requestD := ReqD.none }
      (fun k kind c h => ReqD.noConfusion h)
    simp only [] at this
    rw [hex] at this
    exact this
  have htake : ((m :: ms).map (·.off)).take (ms.length + 1) = (m :: ms).map (·.off) := by
    apply List.take_of_length_le; simp
  unfold refetchOk
  rw [htake, ho]
  simp [key.1, key.2]

end Afkak.C12
