import AfkakProofs.Crc.RefetchStep
/-!
# The at-maximum case of a too-small answer, stated explicitly

`refetchOk … none` (the consumer "gave up") only checks that the fetch position is unchanged; the
theorems `consumer_refetchOk(_step)` pass `none` exactly when `grow = none`.  What the model does in
that case is stated here in full: the `start()` Deferred is errbacked with
`ConsumerFetchSizeTooSmall` (observation `startFired (err tooSmall)`, `startD` becomes `called`),
fetch position and buffer size are unchanged, and NO refetch is scheduled (no timer set: the retry
call is what it was).
-/
namespace Afkak.C12
open Afkak.Consumer Afkak.Monitor.C12

theorem consumer_refetch_at_maximum (cfg : Cfg) (inner : Ops) (k : Nat) (s : St)
    (hr : s.startD = .pending) (hb : s.msgBlock = false)
    (hg : Afkak.Consumer.grow s.bufferSize cfg.bufMax = none) :
    let s' := handleFetchResponse cfg inner k { msgs := [], tail := .small } s
    s'.startD = .called ∧ s'.bufferSize = s.bufferSize ∧ s'.fetchOffset = s.fetchOffset ∧
    s'.retryCall = s.retryCall ∧ s'.requestD = .none ∧
    s'.out = .ob (.startFired (.err .tooSmall)) :: s.out := by
  intro s'
  simp only [s']
  unfold handleFetchResponse fetchBody fetchTail
  simp only [extract, deliverBlock, List.isEmpty_nil, if_true, hr, hb, hg]
  simp [startErrback, errbackRaises, emit]

/-- on `step`: the same, the trace gaining the event, the observation and the probe -/
theorem consumer_refetch_at_maximum_step (cfg : Cfg) (k : Nat) (s : St) (hc : s.crashed = false)
    (hq : (s.requestD == .pending k .fetch false || s.requestD == .pending k .fetch true) = true)
    (hr : s.startD = .pending) (hb : s.msgBlock = false)
    (hg : Afkak.Consumer.grow s.bufferSize cfg.bufMax = none) :
    let s' := step cfg s (.fetchOk k { msgs := [], tail := .small })
    s'.startD = .called ∧ s'.bufferSize = s.bufferSize ∧ s'.fetchOffset = s.fetchOffset ∧
    s'.retryCall = s.retryCall ∧ s'.requestD = .none ∧
    .ob (.startFired (.err .tooSmall)) ∈ s'.out ∧
    (∀ d, .ob (.setTimer .retry d) ∈ s'.out → .ob (.setTimer .retry d) ∈ s.out) := by
  intro s'
  have h := consumer_refetch_at_maximum cfg (opsN cfg cfg.depth) k
    { s with out := .ev (.fetchOk k { msgs := [], tail := .small }) :: s.out } hr hb hg
  simp only [] at h
  obtain ⟨h1, h2, h3, h4, h5, h6⟩ := h
  have hs : ∀ T, T = handleFetchResponse cfg (opsN cfg cfg.depth) k { msgs := [], tail := .small }
      { s with out := .ev (.fetchOk k { msgs := [], tail := .small }) :: s.out } →
      s' = (if T.crashed then T else probe T) := by
    intro T hT
    subst hT
    show step cfg s _ = _
    unfold step
    simp only [hc, Bool.false_eq_true, if_false]
    unfold stepCore
    simp only [hq, if_true]
  rw [hs _ rfl]
  split
  · refine ⟨h1, h2, h3, h4, h5, ?_, ?_⟩
    · rw [h6]; simp
    · intro d hd; rw [h6] at hd; simpa using hd
  · refine ⟨h1, h2, h3, h4, h5, ?_, ?_⟩
    · simp [probe, emit, h6]
    · intro d hd
      simp only [probe, emit, h6, List.mem_cons] at hd
      rcases hd with hd | hd | hd | hd
      · cases hd
      · cases hd
      · cases hd
      · exact hd

end Afkak.C12
