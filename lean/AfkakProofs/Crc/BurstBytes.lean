import AfkakProofs.Crc.Message
import AfkakProofs.Crc.CrcField
/-!
# Alterations confined to four consecutive bytes — stated on bytes, no bit order involved

`C12_burst` speaks of error patterns whose set bits lie in a window of 32 consecutive bits in CRC
bit order (least significant bit of each byte first).  A reader who does not want to think about bit
order needs only this: two byte strings of the same length that differ only inside a window of at
most FOUR consecutive BYTES (any window position, any length) have different CRC-32s, and a message
whose bytes differ from a CRC-valid message only inside such a window — lying in the checksummed
region or in the stored CRC word — is rejected with `ChecksumError`.
-/
namespace Afkak.Crc32

theorem bitsOf_append (a b : List UInt8) : bitsOf (a ++ b) = bitsOf a ++ bitsOf b := by
  induction a with
  | nil => rfl
  | cons x xs ih => simp [bitsOf, ih, List.append_assoc]

theorem byteBits_inj {x y : UInt8} (h : byteBits x = byteBits y) : x = y := by
  have hbit : ∀ i, x.toNat.testBit i = y.toNat.testBit i := by
    intro i
    by_cases hi : i < 8
    · rw [← byteBits_getD, ← byteBits_getD, h]
    · have hx : x.toNat < 2 ^ 8 := x.toNat_lt
      have hy : y.toNat < 2 ^ 8 := y.toNat_lt
      have hp : 2 ^ 8 ≤ 2 ^ i := Nat.pow_le_pow_right (by omega) (by omega)
      rw [Nat.testBit_lt_two_pow (Nat.lt_of_lt_of_le hx hp),
        Nat.testBit_lt_two_pow (Nat.lt_of_lt_of_le hy hp)]
  exact UInt8.toNat_inj.1 (Nat.eq_of_testBit_eq hbit)

theorem bitsOf_inj : ∀ (a b : List UInt8), a.length = b.length → bitsOf a = bitsOf b → a = b
  | [], [], _, _ => rfl
  | [], _ :: _, hl, _ => by simp at hl
  | _ :: _, [], hl, _ => by simp at hl
  | x :: xs, y :: ys, hl, h => by
    simp only [bitsOf] at h
    obtain ⟨h1, h2⟩ := List.append_inj h (by simp [byteBits_length])
    rw [byteBits_inj h1, bitsOf_inj xs ys (by simpa using hl) h2]

/-- **Four-byte window, byte strings.**  Two byte strings that differ only inside one window of at
    most four consecutive bytes have different CRC-32s — every prefix, every suffix, every length. -/
theorem crc32_window_bytes (pre w w' post : List UInt8) (hl : w.length = w'.length)
    (h4 : w.length ≤ 4) (hne : w ≠ w') :
    crc32 (pre ++ w ++ post) ≠ crc32 (pre ++ w' ++ post) := by
  rw [crc32_eq_crcSpec, crc32_eq_crcSpec]
  simp only [crcSpec, bitsOf_append]
  apply crcBits_window
  · simp [bitsOf_length, hl]
  · rw [bitsOf_length]; omega
  · intro h; exact hne (bitsOf_inj w w' hl h)

end Afkak.Crc32

namespace Afkak.C12
open Afkak.Crc32 Afkak.WireCost Afkak.Consts Afkak.Monitor.C12

/-- a list cut at `i` and `i + n` -/
theorem split3 (l : List UInt8) (i n : Nat) :
    l = l.take i ++ (l.drop i).take n ++ l.drop (i + n) := by
  rw [List.append_assoc, ← List.drop_drop, List.take_append_drop, List.take_append_drop]

/-- **Four-byte window, message level.**  `msg` has a matching stored CRC; `msg'` has the same length,
    is not `msg`, and agrees with it outside the byte window `[i, i + n)`, `n ≤ 4`.  When the window
    lies in the checksummed region (`4 ≤ i`) or in the stored CRC word (`i + n ≤ 4`), `_decode_message`
    rejects `msg'` with `ChecksumError` and yields nothing. -/
theorem decodeMessage_window_bytes (inner : List UInt8 → SetOut) (gz : Gz) (off : Int)
    (msg msg' : List UInt8) (i n : Nat)
    (hcrc : crcOk msg = true) (hl : msg'.length = msg.length) (hne : msg' ≠ msg) (hn : n ≤ 4)
    (hpre : msg'.take i = msg.take i) (hpost : msg'.drop (i + n) = msg.drop (i + n))
    (hns : 4 ≤ i ∨ i + n ≤ 4) :
    decodeMessage inner gz (some msg') off = .out [] (some .checksum) (1 + (msg.length - 4)) 0 := by
  simp only [crcOk, Bool.and_eq_true, decide_eq_true_eq, beq_iff_eq] at hcrc
  rw [← hl]
  apply decodeMessage_checksum _ _ _ _ (by omega)
  rcases hns with h4 | h4
  · -- window inside the checksummed region: same stored word, different CRC
    have ht : msg'.take 4 = msg.take 4 := by
      have := congrArg (List.take 4) hpre
      simpa [List.take_take, Nat.min_eq_left h4] using this
    have hd : ∀ l : List UInt8, l.drop 4
        = (l.drop 4).take (i - 4) ++ ((l.drop 4).drop (i - 4)).take n ++ (l.drop 4).drop (i - 4 + n) :=
      fun l => split3 (l.drop 4) (i - 4) n
    have e1 : (msg'.drop 4).take (i - 4) = (msg.drop 4).take (i - 4) := by
      have := congrArg (List.drop 4) hpre
      simpa [List.drop_take] using this
    have e3 : (msg'.drop 4).drop (i - 4 + n) = (msg.drop 4).drop (i - 4 + n) := by
      rw [List.drop_drop, List.drop_drop, show 4 + (i - 4 + n) = i + n by omega, hpost]
    have e2l : (((msg'.drop 4).drop (i - 4)).take n).length = (((msg.drop 4).drop (i - 4)).take n).length := by
      simp [hl]
    have e2 : ((msg'.drop 4).drop (i - 4)).take n ≠ ((msg.drop 4).drop (i - 4)).take n := by
      intro h
      apply hne
      rw [split3 msg' i n, split3 msg i n, hpre, hpost]
      have h' := h
      rw [List.drop_drop, List.drop_drop, show 4 + (i - 4) = i by omega] at h'
      rw [h']
    have hm' : msg'.drop 4 = (msg.drop 4).take (i - 4) ++ ((msg'.drop 4).drop (i - 4)).take n
        ++ (msg.drop 4).drop (i - 4 + n) := by
      have := hd msg'
      rw [e1, e3] at this
      exact this
    have key : crc32 (msg'.drop 4) ≠ crc32 (msg.drop 4) := by
      have := crc32_window_bytes ((msg.drop 4).take (i - 4)) (((msg'.drop 4).drop (i - 4)).take n)
        (((msg.drop 4).drop (i - 4)).take n) ((msg.drop 4).drop (i - 4 + n)) e2l (by simp; omega) e2
      rwa [← hm', ← hd msg] at this
    rw [ht, hcrc.2]
    intro h
    exact key (BitVec.toNat_inj.1 h).symm
  · -- window inside the stored word: same checksummed region, different stored word
    have hd : msg'.drop 4 = msg.drop 4 := by
      have := congrArg (List.drop (4 - (i + n))) hpost
      simpa [List.drop_drop, show i + n + (4 - (i + n)) = 4 by omega] using this
    rw [hd, ← hcrc.2]
    intro h
    have ht := beNat_inj _ _ (by simp [hl]) h
    apply hne
    rw [← List.take_append_drop 4 msg', ← List.take_append_drop 4 msg, ht, hd]

end Afkak.C12
