import AfkakProofs.Crc.Truncate
import AfkakProofs.Crc.Message
/-!
# An altered message inside a set: the messages before it are yielded, then `ChecksumError`
-/
namespace Afkak.C12
open Afkak.WireCost Afkak.Consts Afkak.Crc32 Afkak.Monitor.C12

/-- iterating over a prefix of complete plain entries: the loop reaches the end of the prefix having
    yielded exactly those messages -/
theorem setLoop_prefix (inner : List UInt8 → SetOut) (gz : Gz) (before : List (Int × Msg)) :
    ∀ (pre tail : List UInt8) (fuel : Nat) (rm : Bool) (acc : List (Int × Msg)) (k g : Nat),
      (∀ om ∈ before, plainEntry om = true) → before.length ≤ fuel →
      ∃ k', setLoop inner gz (pre ++ encodeSet before ++ tail) fuel pre.length rm acc k g
        = setLoop inner gz (pre ++ encodeSet before ++ tail) (fuel - before.length)
            (pre ++ encodeSet before).length (rm || !before.isEmpty) (before.reverse ++ acc) k' g := by
  induction before with
  | nil =>
    intro pre tail fuel rm acc k g _ _
    exact ⟨k, by simp [encodeSet]⟩
  | cons om rest ih =>
    intro pre tail fuel rm acc k g hpl hf
    obtain ⟨fuel, rfl⟩ : ∃ f, fuel = f + 1 := ⟨fuel - 1, by simp at hf; omega⟩
    obtain ⟨ho, hpm, hM⟩ := plainEntry_parts (hpl om (by simp))
    have hrest : ∀ x ∈ rest, plainEntry x = true := fun x hx => hpl x (by simp [hx])
    have hdata : pre ++ encodeSet (om :: rest) ++ tail
        = pre ++ (toBESigned 8 om.1 ++ toBESigned 4 (encodeMessage om.2).length ++ encodeMessage om.2)
            ++ (encodeSet rest ++ tail) := by
      simp [encodeSet, encodeEntry_eq, List.append_assoc]
    have hh := entryHeader_complete pre (encodeSet rest ++ tail) (encodeMessage om.2) om.1 ho hM k
    obtain ⟨k2, hd⟩ := decodeMessage_roundtrip inner gz om.1 om.2 hpm
    have hdata2 : pre ++ encodeSet (om :: rest) ++ tail = (pre ++ encodeEntry om) ++ encodeSet rest ++ tail := by
      simp [encodeSet, List.append_assoc]
    obtain ⟨k', hih⟩ := ih (pre ++ encodeEntry om) tail fuel (rm || !([(om.1, om.2)] : List (Int × Msg)).isEmpty)
      (([(om.1, om.2)] : List (Int × Msg)).reverse ++ acc) (k + 2 + k2) (g + 0) hrest (by simp at hf; omega)
    refine ⟨k', ?_⟩
    conv => lhs; unfold setLoop
    have hcur : pre.length < (pre ++ encodeSet (om :: rest) ++ tail).length := by
      simp [encodeSet, encodeEntry_eq]; omega
    simp only [hcur, ↓reduceIte]
    rw [hdata, hh]
    simp only [hd]
    have hcurlen : pre.length + (12 + (encodeMessage om.2).length) = (pre ++ encodeEntry om).length := by
      simp [encodeEntry_eq]; omega
    rw [← hdata, hdata2, hcurlen, hih]
    have e1 : fuel + 1 - (om :: rest).length = fuel - rest.length := by simp
    have e2 : (pre ++ encodeEntry om ++ encodeSet rest).length = (pre ++ encodeSet (om :: rest)).length := by
      simp [encodeSet]
    rw [e1, e2]
    simp

/-- **C12 (a), set level.**  In a set whose first messages `before` are plain and whose next
    message has been altered by a burst inside its checksummed region, iteration yields exactly
    `before` and then raises `ChecksumError` — whatever follows. -/
theorem decodeSet_corrupt (gz : Gz) (depth : Nat) (before : List (Int × Msg)) (off : Int)
    (msg e : List UInt8) (k : Nat) (tail : List UInt8)
    (hpl : ∀ om ∈ before, plainEntry om = true) (ho : int64 off = true)
    (hlen : msg.length < 2147483648)
    (hcrc : crcOk msg = true) (hb : isBurst msg.length e k = true) :
    let bad := xorBytes msg e
    let data := encodeSet before ++ (toBESigned 8 off ++ toBESigned 4 bad.length ++ bad) ++ tail
    (decodeSet gz depth data).msgs = before ∧ (decodeSet gz depth data).err = some Err.checksum := by
  intro bad data
  have hel : e.length = msg.length := by
    simp only [isBurst, Bool.and_eq_true, beq_iff_eq] at hb; exact hb.1.1.1
  have hbl : bad.length = msg.length := xorBytes_length _ _ hel
  have main : ∀ inner : List UInt8 → SetOut,
      (setLoop inner gz data (data.length + 1) 0 false [] 0 0).msgs = before ∧
      (setLoop inner gz data (data.length + 1) 0 false [] 0 0).err = some Err.checksum := by
    intro inner
    have hbe : before.length ≤ (encodeSet before).length := by
      clear hpl
      induction before with
      | nil => simp
      | cons om rest ih => simp [encodeSet, encodeEntry_eq] at ih ⊢; omega
    have hdl : (encodeSet before).length + 12 ≤ data.length := by
      simp only [data, List.length_append, toBESigned_length]; omega
    have hfuel : before.length ≤ data.length + 1 := by omega
    obtain ⟨k', hp⟩ := setLoop_prefix inner gz before []
      ((toBESigned 8 off ++ toBESigned 4 bad.length ++ bad) ++ tail) (data.length + 1) false [] 0 0 hpl hfuel
    have hd0 : [] ++ encodeSet before ++ ((toBESigned 8 off ++ toBESigned 4 bad.length ++ bad) ++ tail) = data := by
      simp [data, List.append_assoc]
    rw [hd0] at hp
    simp only [List.length_nil, List.nil_append, List.append_nil] at hp
    rw [hp]
    obtain ⟨f, hf⟩ : ∃ f, data.length + 1 - before.length = f + 1 := ⟨data.length - before.length, by omega⟩
    rw [hf]
    unfold setLoop
    have hcur : (encodeSet before).length < data.length := by
      simp only [data, List.length_append, toBESigned_length]; omega
    simp only [hcur, ↓reduceIte]
    have hh := entryHeader_complete (encodeSet before) tail bad off ho (by omega) k'
    have hd1 : encodeSet before ++ (toBESigned 8 off ++ toBESigned 4 bad.length ++ bad) ++ tail = data := rfl
    rw [hd1] at hh
    rw [hh]
    have hdm : decodeMessage inner gz (some bad) off
        = .out [] (some .checksum) (1 + (msg.length - 4)) 0 :=
      decodeMessage_burst inner gz off msg e k hcrc hb
    simp only [hdm]
    simp
  cases depth with
  | zero => unfold decodeSet; exact main _
  | succ d => unfold decodeSet; exact main _

end Afkak.C12
