import AfkakProofs.Crc.Truncate
import AfkakProofs.Crc.RefetchStep
/-!
# C12's second sentence end to end: decoder model → consumer model

"A message set whose final message is cut short yields exactly the complete messages that precede it,
or a fetch-size-too-small signal when not even one is complete, and the consumer then enlarges its
buffer rather than skipping."  `C12_truncate` is about the decoder model, `C12_refetch_*` about the
consumer model.  Here the two are composed: the outcome of iterating the first `c` bytes of an encoded
set (decoder model) is handed, as the fetch reply, to the consumer model's transition function, and
both monitors (`truncOk`, `refetchOk`) hold of the combined run — with the SAME `k` (number of complete
messages) computed from the byte lengths, as the harness computes it for the real Consumer.
-/
namespace Afkak.C12
open Afkak.WireCost Afkak.Monitor.C12

/-- What the consumer model is told about iterating `resp.messages`: the messages yielded (offset;
    payload identity `pid`, opaque to the consumer) and how the iteration ended
    (`ConsumerFetchSizeTooSmall` is what `_handle_fetch_response` catches; `other` classifies any
    other exception for the consumer model). -/
def replyOf (pid : Int × Msg → Nat) (other : Err → Afkak.Consumer.ErrKind × Nat) (o : SetOut) :
    Afkak.Consumer.Reply :=
  { msgs := o.msgs.map (fun om => { off := om.1, pid := pid om }),
    tail := match o.err with
      | none => .done
      | some .fetchSizeTooSmall => .small
      | some e => .raise (other e).1 (other e).2 }

open Afkak.Consumer in
/-- a fetch reply that ends normally: the position is what the message loop computes, the buffer is
    untouched — on `step`, whatever the processor does -/
theorem step_fetchOk_done (cfg : Cfg) (k : Nat) (s : St) (msgs : List Afkak.Consumer.Msg)
    (hc : s.crashed = false)
    (hq : (s.requestD == .pending k .fetch false || s.requestD == .pending k .fetch true) = true)
    (hr : s.startD = .pending) (hb : s.msgBlock = false) :
    (step cfg s (.fetchOk k { msgs := msgs, tail := .done })).fetchOffset = (extract s.fetchOffset msgs).2 ∧
    (step cfg s (.fetchOk k { msgs := msgs, tail := .done })).bufferSize = s.bufferSize := by
  obtain ⟨h1, h2⟩ := step_fetchOk_fields cfg k { msgs := msgs, tail := .done } s hc hq
  rw [h1, h2]
  unfold handleFetchResponse
  split
  · rename_i h
    have h' : s.startD = .none := by simpa using h
    rw [hr] at h'; cases h'
  · simp only []
    split
    · rename_i h
      have h' : s.msgBlock = true := h
      rw [hb] at h'; cases h'
    · unfold fetchBody
      have := fetchTail_done_frame (cfg := cfg) (opsN_k cfg cfg.depth) false msgs
        { s with out := .ev (.fetchOk k { msgs := msgs, tail := .done }) :: s.out,
                 retryDelay := cfg.retryInit, attempts := 1, requestD := ReqD.none }
        (fun k kind c h => ReqD.noConfusion h)
      simp only [] at this
      exact this

theorem completeCount_le : ∀ (lens : List Nat) (c : Nat), completeCount lens c ≤ lens.length
  | [], _ => by simp [completeCount]
  | l :: ls, c => by
    unfold completeCount
    split
    · have := completeCount_le ls (c - l); simp; omega
    · simp

open Afkak.Consumer in
/-- **Truncation and refetch, composed.** -/
theorem truncate_then_refetch (gz : Gz) (depth : Nat) (pid : Int × WireCost.Msg → Nat)
    (other : Err → ErrKind × Nat) (cfg : Cfg) (k : Nat) (s : St)
    (ms : List (Int × WireCost.Msg)) (c : Nat)
    (hpl : ∀ om ∈ ms, plainEntry om = true) (hc : c ≤ (encodeSet ms).length)
    (hasc : (ms.map (·.1)).Pairwise (· < ·)) (hfo : ∀ om, ms.head? = some om → s.fetchOffset ≤ om.1)
    (hcr : s.crashed = false)
    (hq : (s.requestD == .pending k .fetch false || s.requestD == .pending k .fetch true) = true)
    (hr : s.startD = .pending) (hb : s.msgBlock = false) :
    let out := decodeSet gz depth ((encodeSet ms).take c)
    let s' := step cfg s (.fetchOk k (replyOf pid other out))
    let n := completeCount (ms.map entryLen) c
    truncOk (ms.map entryLen) ms c out.msgs out.err = true ∧
    refetchOk (ms.map (·.1)) n s.fetchOffset s'.fetchOffset s.bufferSize cfg.bufMax c
      (if n = 0 ∧ 0 < c ∧ Afkak.Consumer.grow s.bufferSize cfg.bufMax = none then none
       else some s'.bufferSize) = true := by
  intro out s' n
  refine ⟨decodeSet_truncOk gz depth ms c hpl hc, ?_⟩
  obtain ⟨h1, h2⟩ := decodeSet_truncate gz depth ms c hpl hc
  by_cases hdone : 0 < n ∨ c = 0
  · -- the iteration ended normally with the `n` complete messages
    have herr : out.err = none := by
      show (decodeSet gz depth ((encodeSet ms).take c)).err = none
      rw [h2, if_pos hdone]
    have hmsgs : out.msgs = ms.take n := h1
    have hrep : replyOf pid other out
        = { msgs := (ms.take n).map (fun om => { off := om.1, pid := pid om }), tail := .done } := by
      simp only [replyOf, herr, hmsgs]
    have hoffs : ((ms.take n).map (fun om => ({ off := om.1, pid := pid om } : Afkak.Consumer.Msg))).map (·.off)
        = (ms.map (·.1)).take n := by
      simp [List.map_take, Function.comp_def]
    obtain ⟨f1, f2⟩ := step_fetchOk_done cfg k s
      ((ms.take n).map (fun om => { off := om.1, pid := pid om })) hcr hq hr hb
    have hex := extract_snd_sorted ((ms.take n).map (fun om => ({ off := om.1, pid := pid om } : Afkak.Consumer.Msg)))
      s.fetchOffset (by rw [hoffs]; exact hasc.sublist (List.take_sublist n _)) (by
        intro x hx
        cases hms : ms with
        | nil => simp [hms] at hx
        | cons om rest =>
          cases hn : n with
          | zero => simp [hn] at hx
          | succ n' =>
            simp only [hms, hn, List.take_succ_cons, List.map_cons, List.head?_cons, Option.some.injEq] at hx
            subst hx
            exact hfo om (by simp [hms]))
    rw [hoffs] at hex
    have e1 : s'.fetchOffset = (extract s.fetchOffset
        ((ms.take n).map (fun om => ({ off := om.1, pid := pid om } : Afkak.Consumer.Msg)))).2 := by
      show (step cfg s (.fetchOk k (replyOf pid other out))).fetchOffset = _
      rw [hrep, f1]
    have e2 : s'.bufferSize = s.bufferSize := by
      show (step cfg s (.fetchOk k (replyOf pid other out))).bufferSize = _
      rw [hrep, f2]
    unfold refetchOk
    rw [e1, e2, hex]
    cases hl : ((ms.map (·.1)).take n).getLast? with
    | some o =>
      have hn0 : n ≠ 0 := by
        intro h0; simp [h0] at hl
      simp [hn0]
    | none =>
      have hn0 : n = 0 := by
        rcases hdone with h | h
        · have hlen : n ≤ ms.length := by
            have := completeCount_le (ms.map entryLen) c; simpa using this
          have : ((ms.map (·.1)).take n) = [] := List.getLast?_eq_none_iff.1 hl
          have h0 := congrArg List.length this
          rw [List.length_take, List.length_map, List.length_nil] at h0
          omega
        · show completeCount (ms.map entryLen) c = 0
          subst h
          cases ms with
          | nil => rfl
          | cons om rest =>
            simp only [List.map_cons, completeCount]
            have : ¬ entryLen om ≤ 0 := by rw [entryLen_eq]; omega
            simp [this]
      have hc0 : c = 0 := by
        rcases hdone with h | h
        · omega
        · exact h
      simp [hn0, hc0]
  · -- not even one complete message: ConsumerFetchSizeTooSmall
    have hn0 : n = 0 := by omega
    have hcpos : 0 < c := by omega
    have herr : out.err = some Err.fetchSizeTooSmall := by
      show (decodeSet gz depth ((encodeSet ms).take c)).err = _
      rw [h2, if_neg hdone]
    have hmsgs : out.msgs = [] := by
      have : out.msgs = ms.take n := h1
      rw [this, hn0]; rfl
    have hrep : replyOf pid other out = { msgs := [], tail := .small } := by
      simp only [replyOf, herr, hmsgs, List.map_nil]
    have := consumer_refetchOk_step cfg k s hcr hq hr hb (ms.map (·.1)) c hcpos
    show refetchOk _ n _ (step cfg s (.fetchOk k (replyOf pid other out))).fetchOffset _ _ _
      (if n = 0 ∧ 0 < c ∧ Afkak.Consumer.grow s.bufferSize cfg.bufMax = none then none
       else some (step cfg s (.fetchOk k (replyOf pid other out))).bufferSize) = true
    rw [hrep, hn0]
    cases hg : Afkak.Consumer.grow s.bufferSize cfg.bufMax with
    | none => rw [hg] at this; simpa [hcpos] using this
    | some b => rw [hg] at this; simpa using this

end Afkak.C12
