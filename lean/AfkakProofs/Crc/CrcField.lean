import AfkakProofs.Crc.Truncate
import AfkakProofs.Crc.Message
/-!
# An alteration confined to the stored CRC field is detected
(the stored big-endian word changes, the checksummed region does not)
-/
namespace Afkak.C12
open Afkak.Crc32 Afkak.WireCost Afkak.Consts Afkak.Monitor.C12

theorem beNat_cons (x : UInt8) (xs : List UInt8) : beNat (x :: xs) = x.toNat * 256 ^ xs.length + beNat xs := by
  have := beNat_append [x] xs
  simpa [beNat] using this

theorem beNat_lt (l : List UInt8) : beNat l < 256 ^ l.length := by
  induction l with
  | nil => simp [beNat]
  | cons x xs ih =>
    rw [beNat_cons, List.length_cons, Nat.pow_succ]
    have hx : x.toNat < 256 := x.toNat_lt
    calc x.toNat * 256 ^ xs.length + beNat xs < x.toNat * 256 ^ xs.length + 256 ^ xs.length := by omega
      _ = (x.toNat + 1) * 256 ^ xs.length := by rw [Nat.add_mul, Nat.one_mul]
      _ ≤ 256 * 256 ^ xs.length := Nat.mul_le_mul_right _ (by omega)
      _ = 256 ^ xs.length * 256 := Nat.mul_comm _ _

theorem beNat_inj (a b : List UInt8) (hl : a.length = b.length) (he : beNat a = beNat b) : a = b := by
  induction a generalizing b with
  | nil => cases b with
    | nil => rfl
    | cons y ys => simp at hl
  | cons x xs ih =>
    cases b with
    | nil => simp at hl
    | cons y ys =>
      have hl' : xs.length = ys.length := by simpa using hl
      rw [beNat_cons, beNat_cons, hl'] at he
      have h1 := beNat_lt xs
      have h2 := beNat_lt ys
      rw [hl'] at h1
      have hP : 0 < 256 ^ ys.length := Nat.pow_pos (by omega)
      have hx : x.toNat = y.toNat := by
        have e1 : (x.toNat * 256 ^ ys.length + beNat xs) / 256 ^ ys.length = x.toNat := by
          rw [Nat.mul_comm, Nat.mul_add_div hP, Nat.div_eq_of_lt h1]; simp
        have e2 : (y.toNat * 256 ^ ys.length + beNat ys) / 256 ^ ys.length = y.toNat := by
          rw [Nat.mul_comm, Nat.mul_add_div hP, Nat.div_eq_of_lt h2]; simp
        rw [← e1, ← e2, he]
      rw [hx] at he
      have hr : beNat xs = beNat ys := by omega
      rw [UInt8.toNat_inj.1 hx, ih ys hl' hr]

theorem xorBytes_eq_self (a z : List UInt8) (hl : z.length = a.length) (h : xorBytes a z = a) :
    nonzero z = false := by
  induction a generalizing z with
  | nil => cases z with
    | nil => rfl
    | cons y ys => simp at hl
  | cons x xs ih =>
    cases z with
    | nil => simp at hl
    | cons y ys =>
      simp only [xorBytes, List.zipWith_cons_cons, List.cons.injEq] at h
      have hy : y = 0 := by
        have := h.1
        have h2 : x ^^^ (x ^^^ y) = x ^^^ x := by rw [this]
        simpa [← UInt8.xor_assoc] using h2
      have := ih ys (by simpa using hl) h.2
      simp [nonzero, hy] at this ⊢
      exact this

/-- an alteration confined to the stored CRC field is detected as well -/
theorem decodeMessage_crc_field (inner : List UInt8 → SetOut) (gz : Gz) (off : Int)
    (msg e : List UInt8) (hcrc : crcOk msg = true) (hel : e.length = msg.length)
    (hf : nonzero (e.take 4) = true) (hz : (e.drop 4).all (fun b => b == 0) = true) :
    decodeMessage inner gz (some (xorBytes msg e)) off
      = .out [] (some .checksum) (1 + (msg.length - 4)) 0 := by
  simp only [crcOk, Bool.and_eq_true, decide_eq_true_eq, beq_iff_eq] at hcrc
  have hlen : (xorBytes msg e).length = msg.length := xorBytes_length _ _ hel
  rw [← hlen]
  apply decodeMessage_checksum _ _ _ _ (by omega)
  rw [xorBytes_take, xorBytes_drop, xorBytes_zero (msg.drop 4) (e.drop 4) (by simp [hel]) hz, ← hcrc.2]
  intro h
  have := beNat_inj _ _ (by simp [xorBytes, hel]) h
  have := xorBytes_eq_self _ _ (by simp [hel]) this
  rw [this] at hf; cases hf
end Afkak.C12
