import Afkak.C12.Grow
/-!
# The buffer growth rule: enlarges strictly, never beyond the maximum, reaches every size
-/
namespace Afkak.C12
open Afkak.Consts

theorem growFactor_ge_two (b : Nat) : 2 ≤ growFactor b := by
  unfold growFactor
  split <;> decide

theorem grow_none_iff (b : Nat) (max : Option Nat) :
    grow b max = none ↔ ∃ m, max = some m ∧ m ≤ b := by
  unfold grow
  cases max with
  | none => simp
  | some m =>
    by_cases h : b < m
    · simp [h]
    · simp [h]; omega

theorem grow_gt (b : Nat) (max : Option Nat) (b' : Nat) (hb : 1 ≤ b) (h : grow b max = some b') :
    b < b' := by
  have hf := growFactor_ge_two b
  have hmul : 2 * b ≤ b * growFactor b := by
    rw [Nat.mul_comm 2 b]; exact Nat.mul_le_mul_left b hf
  unfold grow at h
  cases max with
  | none => simp at h; omega
  | some m =>
    by_cases hlt : b < m
    · simp [hlt] at h; omega
    · simp [hlt] at h

theorem grow_le_max (b m b' : Nat) (h : grow b (some m) = some b') : b' ≤ m := by
  unfold grow at h
  by_cases hlt : b < m
  · simp [hlt] at h; omega
  · simp [hlt] at h

/-- unlimited buffer: multiplied by the factor the source gives for the current size -/
theorem grow_unbounded (b : Nat) : grow b none = some (b * growFactor b) := rfl

/-- repeated too-small answers reach every size the maximum allows -/
theorem growN_reaches (m size : Nat) (hs : size ≤ m) :
    ∀ (n b : Nat), size - b = n → 1 ≤ b → b ≤ m →
      ∃ steps b', growN (some m) steps b = some b' ∧ size ≤ b' ∧ b' ≤ m := by
  intro n
  induction n using Nat.strongRecOn with
  | _ n ih =>
    intro b hn hb hbm
    by_cases hdone : size ≤ b
    · exact ⟨0, b, rfl, hdone, hbm⟩
    · have hlt : b < m := by omega
      have hg : ∃ b', grow b (some m) = some b' := by
        unfold grow; simp [hlt]
      obtain ⟨b1, hb1⟩ := hg
      have hgt := grow_gt b (some m) b1 hb hb1
      have hle := grow_le_max b m b1 hb1
      obtain ⟨steps, b', h1, h2, h3⟩ := ih (size - b1) (by omega) b1 rfl (by omega) hle
      exact ⟨steps + 1, b', by simp [growN, hb1, h1], h2, h3⟩

end Afkak.C12
