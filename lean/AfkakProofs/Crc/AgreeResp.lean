import AfkakProofs.Crc.Agree
/-!
# More response decoders: cost-erased, they are the wire package's

`leave_group`, `heartbeat`, `sync_group`, `consumermetadata`, `api_versions` (values) and the
generator decoders `produce`, `list-offsets`, `offset_commit`, `offset_fetch` (the items yielded, the
final cursor, or the exception that ends the iteration), through one generic lemma for the
topic / partition loop shape (`topicLoop_agree`, `topicsLoop_agree`).
`metadata`, `join_group`, `join_group_protocol_metadata`, `sync_group_member_assignment` are in
`AgreeResp2.lean`.
-/
namespace Afkak.Agree
open Afkak Afkak.Bytes

theorem ru2_agree (fmt : List Char) (data : Bytes) (c k : Nat) :
    Wire.ru2 ('>' :: fmt) data (c : Int) =
      match WireCost.relativeUnpack fmt data c k with
      | .ok [a, b] c' _ => .ok (a, b, (c' : Int))
      | .ok _ _ _ => .error .valueError
      | .err e _ => .error (errMap e) := by
  unfold Wire.ru2
  rw [relativeUnpack_agree fmt data c k]
  cases WireCost.relativeUnpack fmt data c k with
  | err e k1 => rfl
  | ok vals c1 k1 =>
    match vals with
    | [a, b] => rfl
    | [] => rfl
    | [_] => rfl
    | _ :: _ :: _ :: _ => rfl

theorem ru1_agree (fmt : List Char) (data : Bytes) (c k : Nat) :
    Wire.ru1 ('>' :: fmt) data (c : Int) =
      match WireCost.relativeUnpack fmt data c k with
      | .ok [a] c' _ => .ok (a, (c' : Int))
      | .ok _ _ _ => .error .valueError
      | .err e _ => .error (errMap e) := by
  unfold Wire.ru1
  rw [relativeUnpack_agree fmt data c k]
  cases WireCost.relativeUnpack fmt data c k with
  | err e k1 => rfl
  | ok vals c1 k1 =>
    match vals with
    | [a] => rfl
    | [] => rfl
    | _ :: _ :: _ => rfl

theorem ru3_agree (fmt : List Char) (data : Bytes) (c k : Nat) :
    Wire.ru3 ('>' :: fmt) data (c : Int) =
      match WireCost.relativeUnpack fmt data c k with
      | .ok [a, b, d] c' _ => .ok (a, b, d, (c' : Int))
      | .ok _ _ _ => .error .valueError
      | .err e _ => .error (errMap e) := by
  unfold Wire.ru3
  rw [relativeUnpack_agree fmt data c k]
  cases WireCost.relativeUnpack fmt data c k with
  | err e k1 => rfl
  | ok vals c1 k1 =>
    match vals with
    | [a, b, d] => rfl
    | [] => rfl
    | [_] => rfl
    | [_, _] => rfl
    | _ :: _ :: _ :: _ :: _ => rfl

/-- how a wire result is compared with this package's eager decoders: value through `conv`, the
    final cursor forgotten -/
def eraseVal {α : Type} (conv : WireCost.Val → α) : WireCost.Res WireCost.Val → Wire.R α
  | .ok v _ _ => .ok (conv v)
  | .err e _ => .error (errMap e)

def valInt : WireCost.Val → Int
  | .int i => i
  | _ => 0

theorem errorOnly_agree (fmt : List Char) (data : Bytes) :
    Wire.decodeErrorOnlyResponse ('>' :: fmt) data
      = eraseVal (fun v => match v with | .list [e] => valInt e | _ => 0)
          (WireCost.run (WireCost.decodeErrorOnly fmt) data) := by
  unfold Wire.decodeErrorOnlyResponse WireCost.decodeErrorOnly WireCost.run
  have h := ru2_agree fmt data 0 0
  rw [show ((0 : Nat) : Int) = 0 from rfl] at h
  rw [h]
  cases hr : WireCost.relativeUnpack fmt data 0 0 with
  | err e k => rw [C12.bind_err hr]; rfl
  | ok vals c k =>
    rw [C12.bind_ok hr]
    match vals with
    | [a, b] => rfl
    | [] => rfl
    | [_] => rfl
    | _ :: _ :: _ :: _ => rfl

theorem leave_heartbeat_agree (data : Bytes) :
    Wire.decodeLeaveGroupResponse data
      = eraseVal (fun v => match v with | .list [e] => valInt e | _ => 0)
          (WireCost.run WireCost.decodeLeaveGroup data) ∧
    Wire.decodeHeartbeatResponse data
      = eraseVal (fun v => match v with | .list [e] => valInt e | _ => 0)
          (WireCost.run WireCost.decodeHeartbeat data) := by
  have e1 : '>' :: Consts.c12Fmt_leave_0 = Consts.fmt_decode_leave_group_response_0 := by decide
  have e2 : '>' :: Consts.c12Fmt_heartbeat_0 = Consts.fmt_decode_heartbeat_response_0 := by decide
  unfold Wire.decodeLeaveGroupResponse Wire.decodeHeartbeatResponse WireCost.decodeLeaveGroup
    WireCost.decodeHeartbeat
  rw [← e1, ← e2]
  exact ⟨errorOnly_agree _ data, errorOnly_agree _ data⟩

def valBytes : WireCost.Val → Bytes
  | .bytes b => b
  | _ => []

def valOptBytes : WireCost.Val → Option Bytes
  | .bytes b => some b
  | _ => none

theorem optBytes_roundtrip (o : Option Bytes) : valOptBytes (WireCost.optBytes o) = o := by
  cases o <;> rfl

theorem syncGroup_agree (data : Bytes) :
    Wire.decodeSyncGroupResponse data
      = eraseVal (fun v => match v with | .list [e, ma] => (valInt e, valOptBytes ma) | _ => (0, none))
          (WireCost.run WireCost.decodeSyncGroup data) := by
  have e1 : '>' :: Consts.c12Fmt_sync_0 = Consts.fmt_decode_sync_group_response_0 := by decide
  unfold Wire.decodeSyncGroupResponse WireCost.decodeSyncGroup WireCost.run
  rw [← e1]
  have h := ru2_agree Consts.c12Fmt_sync_0 data 0 0
  rw [show ((0 : Nat) : Int) = 0 from rfl] at h
  rw [h]
  cases hr : WireCost.relativeUnpack Consts.c12Fmt_sync_0 data 0 0 with
  | err e k => rw [C12.bind_err hr]; rfl
  | ok vals c k =>
    rw [C12.bind_ok hr]
    match vals with
    | [a, b] =>
      simp only
      rw [readIntString_agree data c k]
      cases h1 : WireCost.readIntString data c k with
      | err e k1 => rw [C12.bind_err h1]; rfl
      | ok ma c1 k1 =>
        rw [C12.bind_ok h1, C12.pure_run]
        simp [eraseRes, eraseVal, valInt, optBytes_roundtrip]
    | [] => rfl
    | [_] => rfl
    | _ :: _ :: _ :: _ => rfl

theorem consumerMetadata_agree (data : Bytes) :
    Wire.decodeConsumerMetadataResponse data
      = eraseVal (fun v => match v with
            | .list [e, n, h, p] => ⟨valInt e, valInt n, valBytes h, valInt p⟩
            | _ => ⟨0, 0, [], 0⟩)
          (WireCost.run WireCost.decodeConsumerMetadata data) := by
  have e1 : '>' :: Consts.c12Fmt_consumermetadata_0 = Consts.fmt_decode_consumermetadata_response_0 := by decide
  have e2 : '>' :: Consts.c12Fmt_consumermetadata_1 = Consts.fmt_decode_consumermetadata_response_1 := by decide
  unfold Wire.decodeConsumerMetadataResponse WireCost.decodeConsumerMetadata WireCost.run
  rw [← e1, ← e2]
  have h := ru3_agree Consts.c12Fmt_consumermetadata_0 data 0 0
  rw [show ((0 : Nat) : Int) = 0 from rfl] at h
  rw [h]
  cases hr : WireCost.relativeUnpack Consts.c12Fmt_consumermetadata_0 data 0 0 with
  | err e k => rw [C12.bind_err hr]; rfl
  | ok vals c k =>
    rw [C12.bind_ok hr]
    match vals with
    | [a, b, n] =>
      simp only
      rw [readShortAscii_agree data c k]
      cases h1 : WireCost.readShortAscii data c k with
      | err e k1 => rw [C12.bind_err h1]; rfl
      | ok host c1 k1 =>
        rw [C12.bind_ok h1]
        simp only [eraseRes]
        rw [ru1_agree Consts.c12Fmt_consumermetadata_1 data c1 k1]
        cases h2 : WireCost.relativeUnpack Consts.c12Fmt_consumermetadata_1 data c1 k1 with
        | err e k2 => rw [C12.bind_err h2]; rfl
        | ok pl c2 k2 =>
          rw [C12.bind_ok h2]
          match pl with
          | [p] => rfl
          | [] => rfl
          | _ :: _ :: _ => rfl
    | [] => rfl
    | [_] => rfl
    | [_, _] => rfl
    | _ :: _ :: _ :: _ :: _ => rfl

/-- the topic loop shared by the generator decoders: this package's `topicLoop` against a wire
    function `wtopic` characterised by its three outcomes -/
theorem topicLoop_agree {β : Type} (conv : WireCost.Val → β) (data : Bytes) (fN : List Char)
    (part : List UInt8 → WireCost.Rd WireCost.Val) (wpart : Bytes → Int → Wire.G β) (wtopic : Int → Wire.G β)
    (hpart : ∀ topic, AgreeG1 conv data (part topic) (wpart topic))
    (h1 : ∀ cur e, Wire.readShortAscii data cur = .error e → wtopic cur = ([], .error e))
    (h2 : ∀ cur topic c1 e, Wire.readShortAscii data cur = .ok (topic, c1) →
      Wire.ru1 ('>' :: fN) data c1 = .error e → wtopic cur = ([], .error e))
    (h3 : ∀ cur topic c1 np c2, Wire.readShortAscii data cur = .ok (topic, c1) →
      Wire.ru1 ('>' :: fN) data c1 = .ok (np, c2) → wtopic cur = Wire.repeatG (wpart topic) np.toNat c2) :
    AgreeG conv data (WireCost.topicLoop fN part) wtopic := by
  intro c k
  unfold WireCost.topicLoop
  have ha := readShortAscii_agree data c k
  cases h0 : WireCost.readShortAscii data c k with
  | err e k0 =>
    rw [h0] at ha
    rw [C12.bind_err h0, h1 _ _ ha]
  | ok topic c0 k0 =>
    rw [h0] at ha
    simp only [eraseRes] at ha
    rw [C12.bind_ok h0]
    have hb := ru1_agree fN data c0 k0
    cases hr : WireCost.relativeUnpack fN data c0 k0 with
    | err e k1 =>
      rw [hr] at hb
      rw [C12.bind_err hr, h2 _ _ _ _ ha hb]
    | ok vals c1 k1 =>
      rw [hr] at hb
      rw [C12.bind_ok hr]
      match vals with
      | [n] =>
        simp only at hb ⊢
        rw [h3 _ _ _ _ _ ha hb]
        exact forRange_agreeG1 conv data _ _ (hpart topic) n c1 k1
      | [] => simp only at hb ⊢; rw [h2 _ _ _ _ ha hb]; rfl
      | _ :: _ :: _ => simp only at hb ⊢; rw [h2 _ _ _ _ ha hb]; rfl

theorem topicsLoop_agree {β : Type} (conv : WireCost.Val → β) (data : Bytes) (fN : List Char)
    (part : List UInt8 → WireCost.Rd WireCost.Val) (wtopic : Int → Wire.G β)
    (h : AgreeG conv data (WireCost.topicLoop fN part) wtopic) (n : Int) (c0 k0 : Nat) :
    match WireCost.topicsLoop fN part n data c0 k0 with
    | .ok val c _ => ∃ parts, val = .list parts ∧
        Wire.repeatG wtopic n.toNat (c0 : Int) = (parts.map conv, .ok (c : Int))
    | .err e _ => (Wire.repeatG wtopic n.toNat (c0 : Int)).2 = .error (errMap e) := by
  unfold WireCost.topicsLoop
  have hloop := repeatAcc_agreeG conv data _ wtopic h n.toNat [] c0 k0
  unfold WireCost.forRange
  cases hr : WireCost.repeatAcc (WireCost.topicLoop fN part) n.toNat [] data c0 k0 with
  | err e k1 => rw [hr] at hloop; rw [C12.bind_err hr]; exact hloop
  | ok tss c1 k1 =>
    rw [hr] at hloop
    obtain ⟨new, hl, hw⟩ := hloop
    simp only [List.reverse_nil, List.nil_append] at hl
    subst hl
    rw [C12.bind_ok hr, C12.pure_run]
    exact ⟨_, rfl, hw⟩

/-! ### offset-commit -/

def toOffsetCommit : WireCost.Val → Wire.OffsetCommitResp
  | .list [t, p, e] => ⟨valBytes t, valInt p, valInt e⟩
  | _ => ⟨[], 0, 0⟩

theorem oc_consts :
    '>' :: Consts.c12Fmt_offsetcommit_0 = Consts.fmt_decode_offset_commit_response_0 ∧
    '>' :: Consts.c12Fmt_offsetcommit_1 = Consts.fmt_decode_offset_commit_response_1 ∧
    '>' :: Consts.c12Fmt_offsetcommit_2 = Consts.fmt_decode_offset_commit_response_2 ∧
    '>' :: Consts.c12Fmt_offsetcommit_3 = Consts.fmt_decode_offset_commit_response_3 := by decide

theorem offsetCommitPartition_agree (data topic : Bytes) :
    AgreeG1 toOffsetCommit data (WireCost.offsetCommitPartition topic) (Wire.offsetCommitPartition data topic) := by
  obtain ⟨-, -, -, f3⟩ := oc_consts
  intro c k
  unfold Wire.offsetCommitPartition WireCost.offsetCommitPartition
  rw [← f3, ru2_agree Consts.c12Fmt_offsetcommit_3 data c k]
  cases h0 : WireCost.relativeUnpack Consts.c12Fmt_offsetcommit_3 data c k with
  | err e k0 => rw [C12.bind_err h0]
  | ok vals c0 k0 =>
    rw [C12.bind_ok h0]
    match vals with
    | [p, e] => rfl
    | [] => rfl
    | [_] => rfl
    | _ :: _ :: _ :: _ => rfl

theorem offsetCommitTopic_agree (data : Bytes) :
    AgreeG toOffsetCommit data (WireCost.topicLoop Consts.c12Fmt_offsetcommit_2 WireCost.offsetCommitPartition)
      (Wire.offsetCommitTopic data) := by
  obtain ⟨-, -, f2, -⟩ := oc_consts
  apply topicLoop_agree _ _ _ _ _ _ (offsetCommitPartition_agree data)
  · intro cur e h; unfold Wire.offsetCommitTopic; rw [h]
  · intro cur topic c1 e h hb; unfold Wire.offsetCommitTopic; rw [h]; simp only; rw [← f2, hb]
  · intro cur topic c1 np c2 h hb; unfold Wire.offsetCommitTopic; rw [h]; simp only; rw [← f2, hb]

/-- `decode_offset_commit_response` -/
theorem decodeOffsetCommit_agree (data : Bytes) :
    match WireCost.run WireCost.decodeOffsetCommit data with
    | .ok val c _ => ∃ parts, val = .list parts ∧
        Wire.decodeOffsetCommitResponse data = (parts.map toOffsetCommit, .ok (c : Int))
    | .err e _ => (Wire.decodeOffsetCommitResponse data).2 = .error (errMap e) := by
  obtain ⟨f0, f1, -, -⟩ := oc_consts
  unfold WireCost.run WireCost.decodeOffsetCommit Wire.decodeOffsetCommitResponse
  rw [← f0, ← f1]
  have h := ru1_agree Consts.c12Fmt_offsetcommit_0 data 0 0
  rw [show ((0 : Nat) : Int) = 0 from rfl] at h
  rw [h]
  cases h0 : WireCost.relativeUnpack Consts.c12Fmt_offsetcommit_0 data 0 0 with
  | err e k => rw [C12.bind_err h0]
  | ok vals c k =>
    rw [C12.bind_ok h0]
    match vals with
    | [corr] =>
      simp only
      rw [ru1_agree Consts.c12Fmt_offsetcommit_1 data c k]
      cases h1 : WireCost.relativeUnpack Consts.c12Fmt_offsetcommit_1 data c k with
      | err e k1 => rw [C12.bind_err h1]
      | ok vals1 c1 k1 =>
        rw [C12.bind_ok h1]
        match vals1 with
        | [n] => exact topicsLoop_agree _ data _ _ _ (offsetCommitTopic_agree data) n c1 k1
        | [] => rfl
        | _ :: _ :: _ => rfl
    | [] => rfl
    | _ :: _ :: _ => rfl

/-! ### offset-fetch -/

def toOffsetFetch : WireCost.Val → Wire.OffsetFetchResp
  | .list [t, p, o, m, e] => ⟨valBytes t, valInt p, valInt o, valOptBytes m, valInt e⟩
  | _ => ⟨[], 0, 0, none, 0⟩

theorem of_consts :
    '>' :: Consts.c12Fmt_offsetfetch_0 = Consts.fmt_decode_offset_fetch_response_0 ∧
    '>' :: Consts.c12Fmt_offsetfetch_1 = Consts.fmt_decode_offset_fetch_response_1 ∧
    '>' :: Consts.c12Fmt_offsetfetch_2 = Consts.fmt_decode_offset_fetch_response_2 ∧
    '>' :: Consts.c12Fmt_offsetfetch_3 = Consts.fmt_decode_offset_fetch_response_3 ∧
    '>' :: Consts.c12Fmt_offsetfetch_4 = Consts.fmt_decode_offset_fetch_response_4 := by decide

theorem offsetFetchPartition_agree (data topic : Bytes) :
    AgreeG1 toOffsetFetch data (WireCost.offsetFetchPartition topic) (Wire.offsetFetchPartition data topic) := by
  obtain ⟨-, -, -, f3, f4⟩ := of_consts
  intro c k
  unfold Wire.offsetFetchPartition WireCost.offsetFetchPartition
  rw [← f3, ← f4, ru2_agree Consts.c12Fmt_offsetfetch_3 data c k]
  cases h0 : WireCost.relativeUnpack Consts.c12Fmt_offsetfetch_3 data c k with
  | err e k0 => rw [C12.bind_err h0]
  | ok vals c0 k0 =>
    rw [C12.bind_ok h0]
    match vals with
    | [p, o] =>
      simp only
      rw [readShortBytes_agree data c0 k0]
      cases h1 : WireCost.readShortBytes data c0 k0 with
      | err e k1 => rw [C12.bind_err h1]; rfl
      | ok md c1 k1 =>
        rw [C12.bind_ok h1]
        simp only [eraseRes]
        rw [ru1_agree Consts.c12Fmt_offsetfetch_4 data c1 k1]
        cases h2 : WireCost.relativeUnpack Consts.c12Fmt_offsetfetch_4 data c1 k1 with
        | err e k2 => rw [C12.bind_err h2]
        | ok ev c2 k2 =>
          rw [C12.bind_ok h2]
          match ev with
          | [e] => simp [C12.pure_run, toOffsetFetch, valBytes, valInt, optBytes_roundtrip]
          | [] => rfl
          | _ :: _ :: _ => rfl
    | [] => rfl
    | [_] => rfl
    | _ :: _ :: _ :: _ => rfl

theorem offsetFetchTopic_agree (data : Bytes) :
    AgreeG toOffsetFetch data (WireCost.topicLoop Consts.c12Fmt_offsetfetch_2 WireCost.offsetFetchPartition)
      (Wire.offsetFetchTopic data) := by
  obtain ⟨-, -, f2, -, -⟩ := of_consts
  apply topicLoop_agree _ _ _ _ _ _ (offsetFetchPartition_agree data)
  · intro cur e h; unfold Wire.offsetFetchTopic; rw [h]
  · intro cur topic c1 e h hb; unfold Wire.offsetFetchTopic; rw [h]; simp only; rw [← f2, hb]
  · intro cur topic c1 np c2 h hb; unfold Wire.offsetFetchTopic; rw [h]; simp only; rw [← f2, hb]

/-- `decode_offset_fetch_response` -/
theorem decodeOffsetFetch_agree (data : Bytes) :
    match WireCost.run WireCost.decodeOffsetFetch data with
    | .ok val c _ => ∃ parts, val = .list parts ∧
        Wire.decodeOffsetFetchResponse data = (parts.map toOffsetFetch, .ok (c : Int))
    | .err e _ => (Wire.decodeOffsetFetchResponse data).2 = .error (errMap e) := by
  obtain ⟨f0, f1, -, -, -⟩ := of_consts
  unfold WireCost.run WireCost.decodeOffsetFetch Wire.decodeOffsetFetchResponse
  rw [← f0, ← f1]
  have h := ru1_agree Consts.c12Fmt_offsetfetch_0 data 0 0
  rw [show ((0 : Nat) : Int) = 0 from rfl] at h
  rw [h]
  cases h0 : WireCost.relativeUnpack Consts.c12Fmt_offsetfetch_0 data 0 0 with
  | err e k => rw [C12.bind_err h0]
  | ok vals c k =>
    rw [C12.bind_ok h0]
    match vals with
    | [corr] =>
      simp only
      rw [ru1_agree Consts.c12Fmt_offsetfetch_1 data c k]
      cases h1 : WireCost.relativeUnpack Consts.c12Fmt_offsetfetch_1 data c k with
      | err e k1 => rw [C12.bind_err h1]
      | ok vals1 c1 k1 =>
        rw [C12.bind_ok h1]
        match vals1 with
        | [n] => exact topicsLoop_agree _ data _ _ _ (offsetFetchTopic_agree data) n c1 k1
        | [] => rfl
        | _ :: _ :: _ => rfl
    | [] => rfl
    | _ :: _ :: _ => rfl

/-! ### produce -/

theorem ru4_agree (fmt : List Char) (data : Bytes) (c k : Nat) :
    Wire.ru4 ('>' :: fmt) data (c : Int) =
      match WireCost.relativeUnpack fmt data c k with
      | .ok [a, b, d, e] c' _ => .ok (a, b, d, e, (c' : Int))
      | .ok _ _ _ => .error .valueError
      | .err e _ => .error (errMap e) := by
  unfold Wire.ru4
  rw [relativeUnpack_agree fmt data c k]
  cases WireCost.relativeUnpack fmt data c k with
  | err e k1 => rfl
  | ok vals c1 k1 =>
    match vals with
    | [a, b, d, e] => rfl
    | [] => rfl
    | [_] => rfl
    | [_, _] => rfl
    | [_, _, _] => rfl
    | _ :: _ :: _ :: _ :: _ :: _ => rfl

def toProduce : WireCost.Val → Wire.ProduceResp
  | .list [t, p, e, o] => ⟨valBytes t, valInt p, valInt e, valInt o⟩
  | _ => ⟨[], 0, 0, 0⟩

theorem producePartition3_agree (fmt : List Char) (data topic : Bytes) :
    AgreeG1 toProduce data (WireCost.producePartition fmt 3 topic)
      (Wire.producePartition ('>' :: fmt) false data topic) := by
  intro c k
  unfold Wire.producePartition WireCost.producePartition
  simp only [Bool.false_eq_true, ↓reduceIte]
  rw [ru3_agree fmt data c k]
  cases h0 : WireCost.relativeUnpack fmt data c k with
  | err e k0 => rw [C12.bind_err h0]
  | ok vals c0 k0 =>
    rw [C12.bind_ok h0]
    match vals with
    | [p, e, o] => rfl
    | [] => rfl
    | [_] => rfl
    | [_, _] => rfl
    | _ :: _ :: _ :: _ :: _ => rfl

theorem producePartition4_agree (fmt : List Char) (data topic : Bytes) :
    AgreeG1 toProduce data (WireCost.producePartition fmt 4 topic)
      (Wire.producePartition ('>' :: fmt) true data topic) := by
  intro c k
  unfold Wire.producePartition WireCost.producePartition
  simp only [↓reduceIte]
  rw [ru4_agree fmt data c k]
  cases h0 : WireCost.relativeUnpack fmt data c k with
  | err e k0 => rw [C12.bind_err h0]
  | ok vals c0 k0 =>
    rw [C12.bind_ok h0]
    match vals with
    | [p, e, o, t] => rfl
    | [] => rfl
    | [_] => rfl
    | [_, _] => rfl
    | [_, _, _] => rfl
    | _ :: _ :: _ :: _ :: _ :: _ => rfl

theorem produceTopic_agree (fN fP : List Char) (arity : Nat) (wide : Bool) (data : Bytes)
    (hp : ∀ topic, AgreeG1 toProduce data (WireCost.producePartition fP arity topic)
      (Wire.producePartition ('>' :: fP) wide data topic)) :
    AgreeG toProduce data (WireCost.topicLoop fN (WireCost.producePartition fP arity))
      (Wire.produceTopic ('>' :: fN) ('>' :: fP) wide data) := by
  apply topicLoop_agree _ _ _ _ _ _ hp
  · intro cur e h; unfold Wire.produceTopic; rw [h]
  · intro cur topic c1 e h hb; unfold Wire.produceTopic; rw [h]; simp only; rw [hb]
  · intro cur topic c1 np c2 h hb; unfold Wire.produceTopic; rw [h]; simp only; rw [hb]

theorem produceTopics_agree (fH fN fP : List Char) (arity : Nat) (wide : Bool) (data : Bytes)
    (hp : ∀ topic, AgreeG1 toProduce data (WireCost.producePartition fP arity topic)
      (Wire.producePartition ('>' :: fP) wide data topic))
    (g : Wire.G Wire.ProduceResp)
    (hE : ∀ e, Wire.ru2 ('>' :: fH) data 0 = .error e → g = ([], .error e))
    (hO : ∀ a n cur, Wire.ru2 ('>' :: fH) data 0 = .ok (a, n, cur) →
      g = Wire.produceTopics ('>' :: fN) ('>' :: fP) wide data n cur) :
    match WireCost.produceTopics fH fN fP arity data 0 0 with
    | .ok val c _ => ∃ parts, val = .list parts ∧ g = (parts.map toProduce, .ok (c : Int))
    | .err e _ => g.2 = .error (errMap e) := by
  unfold WireCost.produceTopics
  have h := ru2_agree fH data 0 0
  rw [show ((0 : Nat) : Int) = 0 from rfl] at h
  cases h0 : WireCost.relativeUnpack fH data 0 0 with
  | err e k =>
    rw [h0] at h
    rw [C12.bind_err h0, hE _ h]
  | ok vals c k =>
    rw [h0] at h
    rw [C12.bind_ok h0]
    match vals with
    | [corr, n] =>
      simp only at h ⊢
      rw [hO _ _ _ h]
      unfold Wire.produceTopics
      exact topicsLoop_agree _ data _ _ _ (produceTopic_agree fN fP arity wide data hp) n c k
    | [] => simp only at h ⊢; rw [hE _ h]; rfl
    | [_] => simp only at h ⊢; rw [hE _ h]; rfl
    | _ :: _ :: _ :: _ => simp only at h ⊢; rw [hE _ h]; rfl

theorem produce_consts :
    '>' :: Consts.c12Fmt_produce_0 = Consts.fmt_decode_produce_response_v0_0 ∧
    '>' :: Consts.c12Fmt_produce_1 = Consts.fmt_decode_produce_response_v0_1 ∧
    '>' :: Consts.c12Fmt_produce_2 = Consts.fmt_decode_produce_response_v0_2 ∧
    '>' :: Consts.c12Fmt_produce_3 = Consts.fmt_decode_produce_response_v2_0 ∧
    '>' :: Consts.c12Fmt_produce_4 = Consts.fmt_decode_produce_response_v2_1 ∧
    '>' :: Consts.c12Fmt_produce_5 = Consts.fmt_decode_produce_response_v2_2 ∧
    '>' :: Consts.c12Fmt_produce_6 = Consts.fmt_decode_produce_response_v2_3 ∧
    Consts.produceRespV0Is = 0 ∧ Consts.produceRespV2From = 1 := by decide

/-- `decode_produce_response`: the call itself raises (`ValueError` for a negative version) in both
    models or in neither; otherwise the generator yields the same responses and ends the same way. -/
theorem decodeProduce_agree (v : Int) (data : Bytes) :
    match WireCost.run (WireCost.decodeProduce v) data with
    | .ok val _ _ => ∃ parts cw, val = .list parts ∧
        Wire.decodeProduceResponse data v = .ok (parts.map toProduce, .ok cw)
    | .err e _ => Wire.decodeProduceResponse data v = .error (errMap e) ∨
        ∃ g, Wire.decodeProduceResponse data v = .ok g ∧ g.2 = .error (errMap e) := by
  obtain ⟨f0, f1, f2, f3, f4, f5, f6, e0, e1⟩ := produce_consts
  unfold WireCost.run WireCost.decodeProduce Wire.decodeProduceResponse
  simp only [e0, e1]
  by_cases h0 : v = 0
  · subst h0
    simp only [beq_self_eq_true, ↓reduceIte]
    rw [← f0, ← f1, ← f2]
    have key := fun g hE hO => produceTopics_agree Consts.c12Fmt_produce_0 Consts.c12Fmt_produce_1
      Consts.c12Fmt_produce_2 3 false data (producePartition3_agree _ data) g hE hO
    cases hru : Wire.ru2 ('>' :: Consts.c12Fmt_produce_0) data 0 with
    | error e0 =>
      simp only
      have := key ([], .error e0) (by intro e he; rw [hru] at he; cases he; rfl)
        (by intro a n cur he; rw [hru] at he; cases he)
      cases hr : WireCost.produceTopics Consts.c12Fmt_produce_0 Consts.c12Fmt_produce_1 Consts.c12Fmt_produce_2 3 data 0 0 with
      | err e k => rw [hr] at this; exact Or.inr ⟨_, rfl, this⟩
      | ok val c k =>
        rw [hr] at this
        obtain ⟨parts, hv, hgv⟩ := this
        exact ⟨parts, c, hv, by rw [hgv]⟩
    | ok t =>
      obtain ⟨a, n, cur⟩ := t
      simp only
      have := key (Wire.produceTopics ('>' :: Consts.c12Fmt_produce_1) ('>' :: Consts.c12Fmt_produce_2) false data n cur)
        (by intro e he; rw [hru] at he; cases he)
        (by intro a' n' cur' he; rw [hru] at he; cases he; rfl)
      cases hr : WireCost.produceTopics Consts.c12Fmt_produce_0 Consts.c12Fmt_produce_1 Consts.c12Fmt_produce_2 3 data 0 0 with
      | err e k => rw [hr] at this; exact Or.inr ⟨_, rfl, this⟩
      | ok val c k =>
        rw [hr] at this
        obtain ⟨parts, hv, hgv⟩ := this
        exact ⟨parts, c, hv, by rw [hgv]⟩
  · have hb : (v == 0) = false := by simp [h0]
    simp only [h0, hb, Bool.false_eq_true, ↓reduceIte]
    by_cases h1 : v ≥ 1
    · simp only [h1, ↓reduceIte]
      rw [← f3, ← f4, ← f5, ← f6]
      have key := fun g hE hO => produceTopics_agree Consts.c12Fmt_produce_3 Consts.c12Fmt_produce_4
        Consts.c12Fmt_produce_5 4 true data (producePartition4_agree _ data) g hE hO
      cases hru : Wire.ru2 ('>' :: Consts.c12Fmt_produce_3) data 0 with
      | error e0 =>
        simp only
        have := key ([], .error e0) (by intro e he; rw [hru] at he; cases he; rfl)
          (by intro a n cur he; rw [hru] at he; cases he)
        cases hr : WireCost.produceTopics Consts.c12Fmt_produce_3 Consts.c12Fmt_produce_4 Consts.c12Fmt_produce_5 4 data 0 0 with
        | err e k => rw [hr] at this; rw [C12.bind_err hr]; exact Or.inr ⟨_, rfl, this⟩
        | ok val c k =>
          rw [hr] at this
          obtain ⟨parts, hv, hgv⟩ := this
          exact absurd (congrArg Prod.snd hgv) (by simp)
      | ok t =>
        obtain ⟨a, n, cur⟩ := t
        simp only
        have := key (Wire.produceTopics ('>' :: Consts.c12Fmt_produce_4) ('>' :: Consts.c12Fmt_produce_5) true data n cur)
          (by intro e he; rw [hru] at he; cases he)
          (by intro a' n' cur' he; rw [hru] at he; cases he; rfl)
        generalize Wire.produceTopics ('>' :: Consts.c12Fmt_produce_4) ('>' :: Consts.c12Fmt_produce_5) true data n cur = g at this ⊢
        cases hr : WireCost.produceTopics Consts.c12Fmt_produce_3 Consts.c12Fmt_produce_4 Consts.c12Fmt_produce_5 4 data 0 0 with
        | err e k =>
          rw [hr] at this
          rw [C12.bind_err hr]
          obtain ⟨ys, r⟩ := g
          simp only at this
          subst this
          exact Or.inr ⟨_, rfl, rfl⟩
        | ok val c k =>
          rw [hr] at this
          obtain ⟨parts, hv, hgv⟩ := this
          subst hgv
          rw [C12.bind_ok hr]
          simp only
          rw [relativeUnpack_agree Consts.c12Fmt_produce_6 data c k]
          cases h6 : WireCost.relativeUnpack Consts.c12Fmt_produce_6 data c k with
          | err e k6 => rw [C12.bind_err h6]; exact Or.inr ⟨_, rfl, rfl⟩
          | ok tv c6 k6 => rw [C12.bind_ok h6, C12.pure_run]; exact ⟨parts, c6, hv, rfl⟩
    · simp only [h1, ↓reduceIte]
      exact Or.inl rfl

/-! ### list-offsets -/

def eraseResC {α β : Type} (conv : α → β) : WireCost.Res α → Wire.R (β × Int)
  | .ok a c _ => .ok (conv a, (c : Int))
  | .err e _ => .error (errMap e)

theorem repeatAcc_agreeR {α β : Type} (conv : α → β) (data : Bytes) (m : WireCost.Rd α)
    (w : Int → Wire.R (β × Int))
    (h : ∀ (c k : Nat), w (c : Int) = eraseResC conv (m data c k)) (n : Nat) :
    ∀ (acc : List α) (c k : Nat), match WireCost.repeatAcc m n acc data c k with
      | .ok l c' _ => ∃ new, l = acc.reverse ++ new ∧ Wire.repeatR w n (c : Int) = .ok (new.map conv, (c' : Int))
      | .err e _ => Wire.repeatR w n (c : Int) = .error (errMap e) := by
  induction n with
  | zero => intro acc c k; exact ⟨[], by simp, rfl⟩
  | succ n ih =>
    intro acc c k
    unfold WireCost.repeatAcc Wire.repeatR
    rw [h c k]
    cases hr : m data c k with
    | err e k1 => rfl
    | ok a c1 k1 =>
      simp only [eraseResC]
      have h2 := ih (a :: acc) c1 k1
      cases hr2 : WireCost.repeatAcc m n (a :: acc) data c1 k1 with
      | err e k2 => rw [hr2] at h2; simp only at h2 ⊢; rw [h2]
      | ok l c2 k2 =>
        rw [hr2] at h2; simp only at h2 ⊢
        obtain ⟨new, hl, hw⟩ := h2
        exact ⟨a :: new, by simp [hl], by rw [hw]; simp⟩

def valInts : WireCost.Val → List Int
  | .list l => l.map valInt
  | _ => []

theorem valInts_ints (l : List Int) : valInts (WireCost.ints l) = l := by
  simp [valInts, WireCost.ints, List.map_map]
  induction l with
  | nil => rfl
  | cons x xs ih => simp [valInt, ih]

def toOffsetResp : WireCost.Val → Wire.OffsetResp
  | .list [t, p, e, os] => ⟨valBytes t, valInt p, valInt e, valInts os⟩
  | _ => ⟨[], 0, 0, []⟩

theorem off_consts :
    '>' :: Consts.c12Fmt_offset_0 = Consts.fmt_decode_offset_response_0 ∧
    '>' :: Consts.c12Fmt_offset_1 = Consts.fmt_decode_offset_response_1 ∧
    '>' :: Consts.c12Fmt_offset_2 = Consts.fmt_decode_offset_response_2 ∧
    '>' :: Consts.c12Fmt_offset_3 = Consts.fmt_decode_offset_response_3 := by decide

theorem offsetEntry_agree (data : Bytes) (c k : Nat) :
    Wire.ru1 ('>' :: Consts.c12Fmt_offset_3) data (c : Int) = eraseResC id (WireCost.offsetEntry data c k) := by
  unfold WireCost.offsetEntry
  rw [ru1_agree Consts.c12Fmt_offset_3 data c k]
  cases h0 : WireCost.relativeUnpack Consts.c12Fmt_offset_3 data c k with
  | err e k0 => rw [C12.bind_err h0]; rfl
  | ok vals c0 k0 =>
    rw [C12.bind_ok h0]
    match vals with
    | [o] => rfl
    | [] => rfl
    | _ :: _ :: _ => rfl

theorem offsetPartition_agree (data topic : Bytes) :
    AgreeG1 toOffsetResp data (WireCost.offsetPartition topic) (Wire.offsetPartition data topic) := by
  obtain ⟨-, -, f2, f3⟩ := off_consts
  intro c k
  unfold Wire.offsetPartition WireCost.offsetPartition
  rw [← f2, ← f3, ru3_agree Consts.c12Fmt_offset_2 data c k]
  cases h0 : WireCost.relativeUnpack Consts.c12Fmt_offset_2 data c k with
  | err e k0 => rw [C12.bind_err h0]
  | ok vals c0 k0 =>
    rw [C12.bind_ok h0]
    match vals with
    | [p, e, n] =>
      simp only
      have hl := repeatAcc_agreeR id data WireCost.offsetEntry (Wire.ru1 ('>' :: Consts.c12Fmt_offset_3) data)
        (offsetEntry_agree data) n.toNat [] c0 k0
      unfold WireCost.forRange
      cases hr : WireCost.repeatAcc WireCost.offsetEntry n.toNat [] data c0 k0 with
      | err e1 k1 => rw [hr] at hl; rw [C12.bind_err hr, hl]
      | ok l c1 k1 =>
        rw [hr] at hl
        obtain ⟨new, hnew, hw⟩ := hl
        simp only [List.reverse_nil, List.nil_append] at hnew
        subst hnew
        rw [C12.bind_ok hr, C12.pure_run, hw]
        simp [toOffsetResp, valBytes, valInt, valInts_ints]
    | [] => rfl
    | [_] => rfl
    | [_, _] => rfl
    | _ :: _ :: _ :: _ :: _ => rfl

theorem offsetTopic_agree (data : Bytes) :
    AgreeG toOffsetResp data (WireCost.topicLoop Consts.c12Fmt_offset_1 WireCost.offsetPartition)
      (Wire.offsetTopic data) := by
  obtain ⟨-, f1, -, -⟩ := off_consts
  apply topicLoop_agree _ _ _ _ _ _ (offsetPartition_agree data)
  · intro cur e h; unfold Wire.offsetTopic; rw [h]
  · intro cur topic c1 e h hb; unfold Wire.offsetTopic; rw [h]; simp only; rw [← f1, hb]
  · intro cur topic c1 np c2 h hb; unfold Wire.offsetTopic; rw [h]; simp only; rw [← f1, hb]

/-- `decode_offset_response` -/
theorem decodeOffset_agree (data : Bytes) :
    match WireCost.run WireCost.decodeOffset data with
    | .ok val c _ => ∃ parts, val = .list parts ∧
        Wire.decodeOffsetResponse data = (parts.map toOffsetResp, .ok (c : Int))
    | .err e _ => (Wire.decodeOffsetResponse data).2 = .error (errMap e) := by
  obtain ⟨f0, -, -, -⟩ := off_consts
  unfold WireCost.run WireCost.decodeOffset Wire.decodeOffsetResponse
  rw [← f0]
  have h := ru2_agree Consts.c12Fmt_offset_0 data 0 0
  rw [show ((0 : Nat) : Int) = 0 from rfl] at h
  rw [h]
  cases h0 : WireCost.relativeUnpack Consts.c12Fmt_offset_0 data 0 0 with
  | err e k => rw [C12.bind_err h0]
  | ok vals c k =>
    rw [C12.bind_ok h0]
    match vals with
    | [corr, n] => exact topicsLoop_agree _ data _ _ _ (offsetTopic_agree data) n c k
    | [] => rfl
    | [_] => rfl
    | _ :: _ :: _ :: _ => rfl

/-! ### api-versions -/

def toApiVersion : WireCost.Val → Wire.ApiVersion
  | .list [k, lo, hi] => ⟨valInt k, valInt lo, valInt hi⟩
  | _ => ⟨0, 0, 0⟩

theorem apiVersions_agree (data : Bytes) :
    Wire.decodeApiVersionsResponse data
      = eraseVal (fun v => match v with
          | .list [e, .list vs] => (valInt e, vs.map toApiVersion)
          | _ => (0, []))
        (WireCost.run WireCost.decodeApiVersions data) := by
  have f0 : '>' :: Consts.c12Fmt_apiversions_0 = Consts.fmt_decode_api_versions_response_0 := by decide
  have f1 : '>' :: Consts.c12Fmt_apiversions_1 = Consts.fmt_decode_api_versions_response_1 := by decide
  unfold Wire.decodeApiVersionsResponse WireCost.decodeApiVersions WireCost.run
  rw [← f0]
  have h := ru3_agree Consts.c12Fmt_apiversions_0 data 0 0
  rw [show ((0 : Nat) : Int) = 0 from rfl] at h
  rw [h]
  cases h0 : WireCost.relativeUnpack Consts.c12Fmt_apiversions_0 data 0 0 with
  | err e k => rw [C12.bind_err h0]; rfl
  | ok vals c k =>
    rw [C12.bind_ok h0]
    match vals with
    | [corr, err, n] =>
      simp only
      have hbody : ∀ (c k : Nat), Wire.apiVersionEntry data (c : Int)
          = eraseResC toApiVersion (WireCost.apiVersionEntry data c k) := by
        intro c k
        unfold Wire.apiVersionEntry WireCost.apiVersionEntry
        rw [← f1, ru3_agree Consts.c12Fmt_apiversions_1 data c k]
        cases h1 : WireCost.relativeUnpack Consts.c12Fmt_apiversions_1 data c k with
        | err e k1 => rw [C12.bind_err h1]; rfl
        | ok vs c1 k1 =>
          rw [C12.bind_ok h1]
          match vs with
          | [a, b, d] => rfl
          | [] => rfl
          | [_] => rfl
          | [_, _] => rfl
          | _ :: _ :: _ :: _ :: _ => rfl
      have hl := repeatAcc_agreeR toApiVersion data WireCost.apiVersionEntry (Wire.apiVersionEntry data)
        hbody n.toNat [] c k
      unfold WireCost.forRange
      cases hr : WireCost.repeatAcc WireCost.apiVersionEntry n.toNat [] data c k with
      | err e1 k1 => rw [hr] at hl; rw [C12.bind_err hr, hl]; rfl
      | ok l c1 k1 =>
        rw [hr] at hl
        obtain ⟨new, hnew, hw⟩ := hl
        simp only [List.reverse_nil, List.nil_append] at hnew
        subst hnew
        rw [C12.bind_ok hr, C12.pure_run, hw]
        simp [eraseVal, valInt]
    | [] => rfl
    | [_] => rfl
    | [_, _] => rfl
    | _ :: _ :: _ :: _ :: _ => rfl
end Afkak.Agree
