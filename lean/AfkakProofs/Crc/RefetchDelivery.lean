import Afkak.Consumer
import Afkak.Monitor.C12
/-!
# "… the next fetch starts right after the last delivered message, with the same buffer"

The other half of the monitor `refetchOk`, on the consumer MODEL: `handleFetchResponse` on a reply
that holds complete messages.  Delivering the block runs the processing loop, inside which the
application's processor may re-enter the API (`stop`, `commit`, `shutdown` — the parameter
`inner : Ops`).  None of that code assigns `fetch_offset` or `buffer_size`; this file proves it as a
frame property (`Fr`) of every function reachable from `deliverBlock` for the re-entrant API the
model actually uses (`opsN cfg n`), and derives the statement.

`NoPend`: no request is outstanding (`_request_d is None` or parked) — true inside
`_handle_fetch_response`, which clears `_request_d` first; under it `stop()`'s cancellation of the
request (the only path from `stop()` to `_handle_fetch_error`, which may reset the offset) is a no-op.
-/
namespace Afkak.C12
open Afkak.Consumer Afkak.Monitor.C12

def NoPend (s : St) : Prop := ∀ k kind c, s.requestD ≠ .pending k kind c

/-- `t` is a successor of `s` with the same fetch position and buffer size (given that no request was
    outstanding in `s`; then none is in `t`). -/
def Fr (s t : St) : Prop :=
  NoPend s → (t.fetchOffset = s.fetchOffset ∧ t.bufferSize = s.bufferSize ∧ NoPend t)

def Keeps (f : St → St) : Prop := ∀ s, Fr s (f s)

theorem Fr.refl (s : St) : Fr s s := fun h => ⟨rfl, rfl, h⟩

theorem Fr.trans {a b c : St} (h1 : Fr a b) (h2 : Fr b c) : Fr a c := by
  intro hn
  obtain ⟨x1, x2, x3⟩ := h1 hn
  obtain ⟨y1, y2, y3⟩ := h2 x3
  exact ⟨y1.trans x1, y2.trans x2, y3⟩

theorem Keeps.step {f : St → St} (hf : Keeps f) {s x : St} (hx : Fr s x) : Fr s (f x) := hx.trans (hf x)

theorem Keeps.comp {f g : St → St} (hf : Keeps f) (hg : Keeps g) : Keeps (fun s => g (f s)) :=
  fun s => (hf s).trans (hg (f s))

/-- explicit record updates that touch none of the three fields -/
theorem Fr.of_eq {s t : St} (h1 : t.fetchOffset = s.fetchOffset) (h2 : t.bufferSize = s.bufferSize)
    (h3 : t.requestD = s.requestD) : Fr s t := by
  intro hn
  refine ⟨h1, h2, ?_⟩
  intro k kind c; rw [h3]; exact hn k kind c

/-- … or that clear the request -/
theorem Fr.of_none {s t : St} (h1 : t.fetchOffset = s.fetchOffset) (h2 : t.bufferSize = s.bufferSize)
    (h3 : t.requestD = .none) : Fr s t := by
  intro _
  refine ⟨h1, h2, ?_⟩
  intro k kind c; rw [h3]; intro h; cases h

/-- case-split through `if`/`match`, unfolding `let`/`have` bindings on the way -/
macro "fr_cases" : tactic => `(tactic| repeat' (first | split | simp only []))

theorem id_keeps : Keeps (fun s => s) := fun s => Fr.refl s

/-! ## leaves -/

theorem emit_keeps (o : Ob) : Keeps (emit o) := fun _ => Fr.of_eq rfl rfl rfl

theorem crash_keeps (site : String) : Keeps (crash site) := fun _ => Fr.of_eq rfl rfl rfl

theorem startErrback_keeps (f : Fail) : Keeps (startErrback f) := by
  intro s; unfold startErrback; split
  · exact Fr.of_eq rfl rfl rfl
  · exact Fr.refl s

theorem retryFetch_keeps (cfg : Cfg) (a : Option Rat) : Keeps (retryFetch cfg a) := by
  intro s; unfold retryFetch
  split
  · exact Fr.refl s
  · split
    · split <;> exact Fr.of_eq rfl rfl rfl
    · exact Fr.refl s

theorem looperReset_keeps (cfg : Cfg) : Keeps (looperReset cfg) := by
  intro s; unfold looperReset
  split
  · split
    · exact Fr.of_eq rfl rfl rfl
    · exact Fr.refl s
  · exact Fr.refl s

theorem sendCommitRequest_keeps (cfg : Cfg) (d : Option Rat) (a : Option Nat) : Keeps (sendCommitRequest cfg d a) := by
  intro s; unfold sendCommitRequest
  fr_cases
  all_goals first | exact Fr.of_eq rfl rfl rfl | exact Fr.refl _

theorem handleAutoCommitError_keeps (f : Fail) : Keeps (handleAutoCommitError f) := by
  intro s; unfold handleAutoCommitError
  fr_cases
  all_goals first | exact startErrback_keeps f s | exact Fr.refl _

theorem commitState_keeps (cfg : Cfg) (who : Who) : Keeps (commitState cfg who) := by
  intro s; unfold commitState
  fr_cases
  all_goals first
    | exact Fr.refl _
    | exact Fr.of_eq rfl rfl rfl
    | exact (looperReset_keeps cfg).step ((sendCommitRequest_keeps cfg none none).step (Fr.of_eq rfl rfl rfl))

theorem autoCommit_keeps (cfg : Cfg) (b : Bool) : Keeps (autoCommit cfg b) := by
  intro s; unfold autoCommit
  fr_cases
  all_goals first
    | exact Fr.refl _
    | exact Fr.of_eq rfl rfl rfl
    | exact commitState_keeps cfg .auto s
    | exact (handleAutoCommitError_keeps _).step (commitState_keeps cfg .auto s)

theorem commitUser_keeps (cfg : Cfg) : Keeps (commitUser cfg) := by
  intro s; unfold commitUser
  have h : Fr s { commitState cfg .user s with nextCommit := s.nextCommit + 1 } :=
    (commitState_keeps cfg .user s).trans (Fr.of_eq rfl rfl rfl)
  split
  · exact (emit_keeps _).step h
  · exact h

theorem handleProcessorError_keeps (f : Fail) : Keeps (handleProcessorError f) := by
  intro s; unfold handleProcessorError
  split
  · exact Fr.refl s
  · exact startErrback_keeps f s

theorem procEnter_keeps (blk rest' : List Msg) (last : Int) : Keeps (procEnter blk rest' last) :=
  fun _ => Fr.of_eq rfl rfl rfl

theorem procLeave_keeps (res : PRes) (rest' : List Msg) (last : Int) : Keeps (procLeave res rest' last) := by
  intro s; unfold procLeave
  fr_cases
  all_goals exact Fr.of_eq rfl rfl rfl

theorem finishSimple_keeps : Keeps finishSimple := by
  intro s; unfold finishSimple
  split
  · exact Fr.of_eq rfl rfl rfl
  · exact Fr.refl s

theorem stopBlock_keeps : Keeps stopBlock := by
  intro s; unfold stopBlock
  split
  · split
    · exact Fr.of_none rfl rfl (by simp [*])
    · exact Fr.of_eq rfl rfl (by simp [*])
  · exact Fr.refl s

theorem stopRetry_keeps : Keeps stopRetry := by
  intro s; unfold stopRetry
  split
  · exact Fr.of_eq rfl rfl rfl
  · exact Fr.refl s

theorem stopTimers_keeps : Keeps stopTimers := by
  intro s; unfold stopTimers
  fr_cases
  all_goals first | exact Fr.refl _ | exact Fr.of_eq rfl rfl rfl

theorem stopFinish_keeps : Keeps stopFinish := by
  intro s; unfold stopFinish
  fr_cases
  all_goals first
    | exact Fr.of_none rfl rfl rfl
    | exact (crash_keeps _).step (Fr.of_none rfl rfl rfl)

/-- with no request outstanding, `stop()` has nothing to cancel -/
theorem stopReq_keeps (cfg : Cfg) : Keeps (stopReq cfg) := by
  intro s hn
  have : stopReq cfg s = s := by
    unfold stopReq
    split
    · rename_i k kind c h; exact absurd h (hn k kind c)
    · rfl
  rw [this]; exact ⟨rfl, rfl, hn⟩

/-! ## functions that reach the re-entrant API -/

/-- the re-entrant API one level down keeps fetch position and buffer size -/
structure OpsK (inner : Ops) : Prop where
  stop : Keeps inner.stop
  stopCore : Keeps inner.stopCore
  commit : Keeps inner.commit
  shutdown : Keeps inner.shutdown

def KeepsP (k : St → St × Bool) : Prop := ∀ s, Fr s (k s).1

section
variable {cfg : Cfg} {inner : Ops} (hin : OpsK inner)
include hin

theorem runAct_keeps (a : Act) : Keeps (runAct inner a) := by
  cases a
  · exact hin.stop
  · exact hin.commit
  · exact hin.shutdown

theorem procActs_keeps (acts : List Act) : Keeps (procActs inner acts) := by
  unfold procActs
  induction acts with
  | nil => intro s; exact Fr.refl s
  | cons a as ih =>
    intro s
    simp only [List.foldl_cons]
    exact ((emit_keeps (.act a) s).trans (runAct_keeps hin a _)).trans (ih _)

theorem procBody_keeps {k : St → St × Bool} (hk : KeepsP k) (blk rest' : List Msg) (last : Int) (e : PEntry) :
    KeepsP (procBody cfg inner k blk rest' last e) := by
  intro s
  have h0 : Fr s (procLeave e.res rest' last (procActs inner e.acts (procEnter blk rest' last s))) :=
    (procLeave_keeps _ _ _).step ((procActs_keeps hin _).step (procEnter_keeps _ _ _ s))
  unfold procBody
  generalize procLeave e.res rest' last (procActs inner e.acts (procEnter blk rest' last s)) = x at h0
  simp only []
  split
  · have h1 := (autoCommit_keeps cfg true).step h0
    split
    · exact h1
    · exact h1.trans (hk _)
  · split
    · exact h0.trans (handleProcessorError_keeps _ _)
    · split
      · exact h0.trans (handleProcessorError_keeps _ _)
      · exact (h0.trans (handleProcessorError_keeps _ _)).trans (hk _)
  · split
    · exact h0
    · exact h0.trans (handleProcessorError_keeps _ _)

theorem procLoop_keeps : ∀ (fuel : Nat) (rest : List Msg), KeepsP (procLoop cfg inner fuel rest)
  | 0, _ => fun s => by unfold procLoop; exact Fr.refl s
  | fuel + 1, rest => by
    intro s
    unfold procLoop
    split
    · exact Fr.refl s
    · split
      · exact Fr.refl s
      · exact procBody_keeps hin (procLoop_keeps fuel _) _ _ _ _ s

theorem nestedStop_keeps : Keeps (nestedStop inner) := by
  intro s; unfold nestedStop
  split
  · exact Fr.refl s
  · split
    · exact crash_keeps _ s
    · exact hin.stopCore s

theorem shutdownFinish_keeps (r : Option Fail) : Keeps (shutdownFinish inner r) := by
  intro s; unfold shutdownFinish
  simp only []
  have h1 : Fr s (nestedStop inner { s with shutdownD := false }) :=
    (nestedStop_keeps hin).step (Fr.of_eq rfl rfl rfl)
  generalize nestedStop inner { s with shutdownD := false } = s1 at h1
  have h2 : Fr s { s1 with shuttingDown := false } := h1.trans (Fr.of_eq rfl rfl rfl)
  fr_cases
  all_goals first
    | exact (crash_keeps _).step h2
    | exact (emit_keeps _).step h2

theorem commitAndStop_keeps : Keeps (commitAndStop cfg inner) := by
  intro s; unfold commitAndStop commitAndStop1
  fr_cases
  all_goals first
    | exact shutdownFinish_keeps hin _ s
    | exact commitState_keeps cfg .shut s
    | exact (shutdownFinish_keeps hin _).step (commitState_keeps cfg .shut s)

theorem shutdownSuccess_keeps : Keeps (shutdownSuccess cfg inner) := by
  intro s; unfold shutdownSuccess
  split
  · exact commitAndStop_keeps hin s
  · exact shutdownFinish_keeps hin _ s

theorem fireWaiter_keeps (r : DRes) (w : Waiter) : Keeps (fun s => fireWaiter cfg inner r s w) := by
  intro s; simp only []; unfold fireWaiter
  fr_cases
  all_goals first
    | exact Fr.refl s
    | exact emit_keeps _ s
    | exact handleAutoCommitError_keeps _ s
    | exact autoCommit_keeps cfg _ s
    | exact shutdownSuccess_keeps hin s
    | exact shutdownFinish_keeps hin _ s
    | exact commitAndStop_keeps hin s

theorem foldl_fireWaiter_keeps (r : DRes) (ws : List Waiter) : Keeps (fun s => ws.foldl (fireWaiter cfg inner r) s) := by
  induction ws with
  | nil => intro s; exact Fr.refl s
  | cons w ws ih =>
    intro s
    simp only [List.foldl_cons]
    exact (fireWaiter_keeps hin r w s).trans (ih _)

theorem deliver_keeps (r : DRes) : Keeps (deliver cfg inner r) := by
  intro s; unfold deliver
  simp only []
  exact (foldl_fireWaiter_keeps hin r _).step (Fr.of_eq rfl rfl rfl)

theorem handleCommitError_keeps (f : Fail) (d : Rat) (a : Nat) : Keeps (handleCommitError cfg inner f d a) := by
  intro s; unfold handleCommitError
  fr_cases
  all_goals first
    | exact deliver_keeps hin _ s
    | exact Fr.of_eq rfl rfl rfl

theorem cancelWaiters_keeps : ∀ fuel : Nat, Keeps (cancelWaiters cfg inner fuel)
  | 0 => by
    intro s; unfold cancelWaiters
    split
    · exact Fr.refl s
    · exact crash_keeps _ s
  | fuel + 1 => by
    intro s; unfold cancelWaiters
    split
    · exact Fr.refl s
    · simp only []
      exact (cancelWaiters_keeps fuel).step ((fireWaiter_keeps hin _ _).step (Fr.of_eq rfl rfl rfl))

theorem stopCommitReq_keeps : Keeps (stopCommitReq cfg inner) := by
  intro s; unfold stopCommitReq
  fr_cases
  all_goals first
    | exact Fr.refl s
    | exact (handleCommitError_keeps hin _ _ _).step (Fr.of_eq rfl rfl rfl)
    | exact Fr.of_eq rfl rfl rfl

/-- `stop()` cancelling the processor's Deferred: with `_stopping` set the generator is not resumed
    into the loop, and with the block cleared no parked reply is run. -/
theorem stopBlockProc_keeps (s : St) (hst : s.stopping = true) : Fr s (stopBlockProc cfg inner s) := by
  unfold stopBlockProc
  have hb : Fr s (stopBlock s) := stopBlock_keeps s
  have hstop : (stopBlock s).stopping = true := by unfold stopBlock; split <;> simp [hst]
  have hmb : (stopBlock s).msgBlock = false := by
    unfold stopBlock; split
    · rfl
    · rename_i h; simpa using h
  generalize stopBlock s = x at hb hstop hmb
  split
  · rename_i g hg
    have hy : Fr s (emit .procCancel x) := (emit_keeps _).step hb
    have hys : (emit .procCancel x).stopping = true := hstop
    have hym : (emit .procCancel x).msgBlock = false := hmb
    generalize emit .procCancel x = y at hy hys hym
    have hcanc : Fail.isCancelled (.ext .cancelled 0) = true := by decide
    have hp : procErrPassed (.ext .cancelled 0) y = false := by simp [procErrPassed, hys, hcanc]
    have hfired : procFired cfg g (some (.ext .cancelled 0)) y = { y with proc := none } := by
      simp [procFired, handleProcessorError, hys, hcanc]
    have hz : Fr s { y with proc := none } := hy.trans (Fr.of_eq rfl rfl rfl)
    have hzs : ({ y with proc := none } : St).stopping = true := hys
    have hzm : ({ y with proc := none } : St).msgBlock = false := hym
    have hzp : ({ y with proc := none } : St).proc = none := rfl
    unfold procResult
    simp only [hp, hfired]
    generalize ({ y with proc := none } : St) = z at hz hzs hzm hzp
    have hres : procResume cfg inner g false z = z := by
      unfold procResume
      have hl : procLoop cfg inner (g.rest.length + 1) g.rest z = (z, true) := by
        unfold procLoop; simp [hzs]
      simp [hl, hzp, finishFull, hzm]
    rw [hres]
    split
    · exact (commitAndStop_keeps hin).step hz
    · exact hz
  · exact hb

theorem stopCore_keeps : Keeps (stopCore cfg inner) := by
  intro s; unfold stopCore
  simp only []
  have h1 : Fr s (stopReq cfg { s with stopping := true }) := (stopReq_keeps cfg).step (Fr.of_eq rfl rfl rfl)
  have hst : (stopReq cfg { s with stopping := true }).stopping = true := by
    unfold stopReq
    fr_cases
    all_goals first
      | rfl
      | (unfold handleFetchError fetchErrorTail; fr_cases <;> simp [startErrback, retryFetch, emit] <;> (try split) <;> simp)
      | (unfold handleOffsetError offsetErrorTail; fr_cases <;> simp [startErrback, retryFetch, emit] <;> (try split) <;> simp)
  generalize stopReq cfg { s with stopping := true } = s1 at h1 hst
  have h2 : Fr s (stopBlockProc cfg inner s1) := h1.trans (stopBlockProc_keeps hin s1 hst)
  generalize stopBlockProc cfg inner s1 = s2 at h2
  have h3 := stopRetry_keeps.step h2
  generalize stopRetry s2 = s3 at h3
  have h4 := (cancelWaiters_keeps (cfg := cfg) hin (s3.commitDs.length + 4)).step h3
  generalize cancelWaiters cfg inner (s3.commitDs.length + 4) s3 = s4 at h4
  exact stopFinish_keeps.step (stopTimers_keeps.step ((stopCommitReq_keeps hin).step h4))

theorem stop_keeps : Keeps (stop cfg inner) := by
  intro s; unfold stop
  split
  · exact emit_keeps _ s
  · simp only []
    exact (emit_keeps _).step (stopCore_keeps hin s)

theorem shutdown_keeps : Keeps (shutdown cfg inner) := by
  intro s; unfold shutdown
  fr_cases
  all_goals first
    | exact emit_keeps _ s
    | exact Fr.of_eq rfl rfl rfl
    | exact (commitAndStop_keeps hin).step (Fr.of_eq rfl rfl rfl)

theorem mkOps_k : OpsK (mkOps cfg inner) :=
  ⟨stop_keeps hin, stopCore_keeps hin, commitUser_keeps cfg, shutdown_keeps hin⟩

theorem deliverBlock_keeps (msgs : List Msg) : Keeps (deliverBlock cfg inner msgs) := by
  intro s; unfold deliverBlock
  split
  · exact Fr.refl s
  · simp only []
    have h := (procLoop_keeps (cfg := cfg) hin (msgs.length + 1) msgs { s with msgBlock := true })
    have h0 : Fr s { s with msgBlock := true } := Fr.of_eq rfl rfl rfl
    generalize procLoop cfg inner (msgs.length + 1) msgs { s with msgBlock := true } = res at h
    split
    · exact h0.trans h
    · exact finishSimple_keeps.step (h0.trans h)

end

/-- the re-entrant API the model uses, at every depth -/
theorem opsN_k (cfg : Cfg) : ∀ n, OpsK (opsN cfg n)
  | 0 => ⟨crash_keeps _, crash_keeps _, crash_keeps _, crash_keeps _⟩
  | n + 1 => mkOps_k (opsN_k cfg n)

/-! ## the statement -/

/-- the message loop of `_handle_fetch_response` on a reply whose offsets ascend from the fetch
    position on: everything is taken and the position ends right after the last message -/
theorem extract_snd_sorted : ∀ (l : List Msg) (fo : Int), (l.map (·.off)).Pairwise (· < ·) →
    (∀ x, l.head? = some x → fo ≤ x.off) →
    (extract fo l).2 = (match (l.map (·.off)).getLast? with | some o => o + 1 | none => fo)
  | [], fo, _, _ => rfl
  | m :: ms, fo, hp, hh => by
    have h0 : ¬ m.off < fo := by have := hh m rfl; omega
    have hp' : (ms.map (·.off)).Pairwise (· < ·) := by
      simp only [List.map_cons, List.pairwise_cons] at hp; exact hp.2
    have ih := extract_snd_sorted ms (m.off + 1) hp' (by
      intro x hx
      cases ms with
      | nil => cases hx
      | cons m' ms' =>
        simp only [List.head?_cons, Option.some.injEq] at hx
        subst hx
        simp only [List.map_cons, List.pairwise_cons] at hp
        have := hp.1 m'.off (by simp)
        omega)
    unfold extract
    simp only [h0, if_false]
    show (extract (m.off + 1) ms).2 = _
    rw [ih]
    cases ms with
    | nil => rfl
    | cons m' ms' =>
      simp only [List.map_cons, List.getLast?_cons_cons]
      cases h : (m'.off :: List.map (fun x => x.off) ms').getLast? with
      | none => simp at h
      | some o => rfl

/-- `_handle_fetch_response` from the message loop on, for a reply that ends normally: the position is
    what the message loop computed, the buffer is untouched — whatever the processor does. -/
theorem fetchTail_done_frame {cfg : Cfg} {inner : Ops} (hin : OpsK inner) (viaBlock : Bool)
    (msgs : List Msg) (s : St) (hn : NoPend s) :
    (fetchTail cfg inner viaBlock { msgs := msgs, tail := .done } s).fetchOffset = (extract s.fetchOffset msgs).2 ∧
    (fetchTail cfg inner viaBlock { msgs := msgs, tail := .done } s).bufferSize = s.bufferSize := by
  unfold fetchTail
  simp only []
  have := ((retryFetch_keeps cfg (some 0)).step
    (deliverBlock_keeps (cfg := cfg) hin (extract s.fetchOffset msgs).1
      { s with fetchOffset := (extract s.fetchOffset msgs).2 })) (fun k kind c => hn k kind c)
  exact ⟨this.1, this.2.1⟩

/-- **`C12_refetch_after_delivery` for every re-entrant API that keeps position and buffer.** -/
theorem consumer_refetch_after_delivery (cfg : Cfg) (inner : Ops) (hin : OpsK inner) (k : Nat) (s : St)
    (m : Msg) (ms : List Msg)
    (hr : s.startD = .pending) (hb : s.msgBlock = false)
    (hp : ((m :: ms).map (·.off)).Pairwise (· < ·)) (hf : s.fetchOffset ≤ m.off) :
    let s' := handleFetchResponse cfg inner k { msgs := m :: ms, tail := .done } s
    refetchOk ((m :: ms).map (·.off)) (ms.length + 1) s.fetchOffset s'.fetchOffset s.bufferSize cfg.bufMax 1
      (some s'.bufferSize) = true := by
  intro s'
  have hex := extract_snd_sorted (m :: ms) s.fetchOffset hp (by
    intro x hx; simp only [List.head?_cons, Option.some.injEq] at hx; subst hx; exact hf)
  obtain ⟨o, ho⟩ : ∃ o, ((m :: ms).map (·.off)).getLast? = some o := by
    cases h : ((m :: ms).map (·.off)).getLast? with
    | none => simp at h
    | some o => exact ⟨o, rfl⟩
  rw [ho] at hex
  have key : s'.fetchOffset = o + 1 ∧ s'.bufferSize = s.bufferSize := by
    show (handleFetchResponse cfg inner k { msgs := m :: ms, tail := .done } s).fetchOffset = o + 1 ∧
      (handleFetchResponse cfg inner k { msgs := m :: ms, tail := .done } s).bufferSize = s.bufferSize
    unfold handleFetchResponse
    split
    · rename_i h; rw [hr] at h; exact absurd h (by decide)
    · simp only []
      split
      · rename_i h
        have h' : s.msgBlock = true := h
        rw [hb] at h'; cases h'
      · unfold fetchBody
        have := fetchTail_done_frame (cfg := cfg) hin false (m :: ms)
          { s with retryDelay := cfg.retryInit, attempts := 1, requestD := ReqD.none }
          (fun k kind c h => ReqD.noConfusion h)
        simp only [] at this
        rw [hex] at this
        exact this
  have htake : ((m :: ms).map (·.off)).take (ms.length + 1) = (m :: ms).map (·.off) := by
    apply List.take_of_length_le; simp
  unfold refetchOk
  rw [htake, ho]
  simp [key.1, key.2]

/-- … in particular for the re-entrant API the consumer model runs with (`stepCore` uses
    `opsN cfg cfg.depth`). -/
theorem consumer_refetch_after_delivery_opsN (cfg : Cfg) (n k : Nat) (s : St) (m : Msg) (ms : List Msg)
    (hr : s.startD = .pending) (hb : s.msgBlock = false)
    (hp : ((m :: ms).map (·.off)).Pairwise (· < ·)) (hf : s.fetchOffset ≤ m.off) :
    let s' := handleFetchResponse cfg (opsN cfg n) k { msgs := m :: ms, tail := .done } s
    refetchOk ((m :: ms).map (·.off)) (ms.length + 1) s.fetchOffset s'.fetchOffset s.bufferSize cfg.bufMax 1
      (some s'.bufferSize) = true :=
  consumer_refetch_after_delivery cfg (opsN cfg n) (opsN_k cfg n) k s m ms hr hb hp hf

end Afkak.C12
