import AfkakProofs.Crc.Wrapped
/-!
# A rejected message inside a set — for ANY reason `_decode_message` raises `ChecksumError`

`decodeSet_corrupt` / `decodeSet_corrupt_entries` are stated for a burst inside the checksummed region
(`isBurst`).  Their proofs use of the altered message only that `_decode_message` rejects it with
`ChecksumError` yielding nothing.  Here they are stated with exactly that hypothesis, so that every
message-level detection theorem (CRC-word alterations, non-straddling bursts anywhere, four-byte
windows) lifts to sets: the entries before the rejected message are yielded, then `ChecksumError`.
(The proofs are those of the two theorems named above with the last step generalised.)
-/
namespace Afkak.C12
open Afkak.WireCost Afkak.Consts Afkak.Crc32 Afkak.Monitor.C12

/-- plain entries before the rejected message, every nesting depth -/
theorem decodeSet_rejected (gz : Gz) (depth : Nat) (before : List (Int × Msg)) (off : Int)
    (bad : List UInt8) (c : Nat) (tail : List UInt8)
    (hpl : ∀ om ∈ before, plainEntry om = true) (ho : int64 off = true)
    (hlen : bad.length < 2147483648)
    (hdm : ∀ inner : List UInt8 → SetOut, decodeMessage inner gz (some bad) off = .out [] (some .checksum) c 0) :
    let data := encodeSet before ++ (toBESigned 8 off ++ toBESigned 4 bad.length ++ bad) ++ tail
    (decodeSet gz depth data).msgs = before ∧ (decodeSet gz depth data).err = some Err.checksum := by
  intro data
  have main : ∀ inner : List UInt8 → SetOut,
      (setLoop inner gz data (data.length + 1) 0 false [] 0 0).msgs = before ∧
      (setLoop inner gz data (data.length + 1) 0 false [] 0 0).err = some Err.checksum := by
    intro inner
    have hbe : before.length ≤ (encodeSet before).length := by
      clear hpl
      induction before with
      | nil => simp
      | cons om rest ih => simp [encodeSet, encodeEntry_eq] at ih ⊢; omega
    have hdl : (encodeSet before).length + 12 ≤ data.length := by
      simp only [data, List.length_append, toBESigned_length]; omega
    have hfuel : before.length ≤ data.length + 1 := by omega
    obtain ⟨k', hp⟩ := setLoop_prefix inner gz before []
      ((toBESigned 8 off ++ toBESigned 4 bad.length ++ bad) ++ tail) (data.length + 1) false [] 0 0 hpl hfuel
    have hd0 : [] ++ encodeSet before ++ ((toBESigned 8 off ++ toBESigned 4 bad.length ++ bad) ++ tail) = data := by
      simp [data, List.append_assoc]
    rw [hd0] at hp
    simp only [List.length_nil, List.nil_append, List.append_nil] at hp
    rw [hp]
    obtain ⟨f, hf⟩ : ∃ f, data.length + 1 - before.length = f + 1 := ⟨data.length - before.length, by omega⟩
    rw [hf]
    unfold setLoop
    have hcur : (encodeSet before).length < data.length := by
      simp only [data, List.length_append, toBESigned_length]; omega
    simp only [hcur, ↓reduceIte]
    have hh := entryHeader_complete (encodeSet before) tail bad off ho (by omega) k'
    have hd1 : encodeSet before ++ (toBESigned 8 off ++ toBESigned 4 bad.length ++ bad) ++ tail = data := rfl
    rw [hd1] at hh
    rw [hh]
    simp only [hdm inner]
    simp
  cases depth with
  | zero => unfold decodeSet; exact main _
  | succ d => unfold decodeSet; exact main _


/-- entries before the rejected message may be gzip wrappers of either format -/
theorem decodeSet_rejected_entries (gz : Gz) (depth : Nat) (before : List SetEntry) (off : Int)
    (bad : List UInt8) (c : Nat) (tail : List UInt8)
    (hwf : ∀ s ∈ before, s.WellFormed gz) (ho : int64 off = true)
    (hlen : bad.length < 2147483648)
    (hdm : ∀ inner : List UInt8 → SetOut, decodeMessage inner gz (some bad) off = .out [] (some .checksum) c 0) :
    let data := encodeEntries before ++ (toBESigned 8 off ++ toBESigned 4 bad.length ++ bad) ++ tail
    (decodeSet gz (depth + 1) data).msgs = before.flatMap SetEntry.yields ∧
    (decodeSet gz (depth + 1) data).err = some Err.checksum := by
  intro data
  have hcl : ∀ r ∈ before.map SetEntry.toRaw, CleanEntry (decodeSet gz depth) gz r := by
    intro r hr
    obtain ⟨s, hs, rfl⟩ := List.mem_map.1 hr
    exact wellFormed_clean gz depth s (hwf s hs)
  have hbe : before.length ≤ (encodeEntries before).length := by
    clear hwf hcl
    induction before with
    | nil => simp
    | cons s rest ih => simp [encodeEntries, SetEntry.bytes] at ih ⊢; omega
  have hdl : (encodeEntries before).length + 12 ≤ data.length := by
    simp only [data, List.length_append, toBESigned_length]; omega
  obtain ⟨k', g', hp⟩ := setLoop_prefix_gen (decodeSet gz depth) gz (before.map SetEntry.toRaw) []
    ((toBESigned 8 off ++ toBESigned 4 bad.length ++ bad) ++ tail) (data.length + 1) false [] 0 0 hcl
    (by simp; omega)
  have hd0 : [] ++ encodeRaw (before.map SetEntry.toRaw) ++ ((toBESigned 8 off ++ toBESigned 4 bad.length ++ bad) ++ tail) = data := by
    simp [data, List.append_assoc, encodeEntries_raw]
  rw [hd0] at hp
  simp only [List.length_nil, List.nil_append, List.append_nil, List.length_map, ← encodeEntries_raw, toRaw_yields] at hp
  unfold decodeSet
  rw [hp]
  obtain ⟨f, hf⟩ : ∃ f, data.length + 1 - before.length = f + 1 := ⟨data.length - before.length, by omega⟩
  rw [hf]
  unfold setLoop
  have hcur : (encodeEntries before).length < data.length := by omega
  simp only [hcur, ↓reduceIte]
  have hh := entryHeader_complete (encodeEntries before) tail bad off ho (by omega) k'
  have hd1 : encodeEntries before ++ (toBESigned 8 off ++ toBESigned 4 bad.length ++ bad) ++ tail = data := rfl
  rw [hd1] at hh
  rw [hh]
  simp only [hdm (decodeSet gz depth)]
  simp
end Afkak.C12
