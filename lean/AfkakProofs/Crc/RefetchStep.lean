import AfkakProofs.Crc.RefetchDelivery
import AfkakProofs.Crc.Refetch
/-!
# `refetchOk` after delivery, on the consumer model's transition function

`Open.C12_refetch_after_delivery` quantifies over an arbitrary re-entrant API `inner : Ops` and is
false for that reason only.  The model never runs `handleFetchResponse` with an arbitrary `inner`: its
transition function `step` fixes `inner := opsN cfg cfg.depth`.  This file states the property where
no `inner` can be chosen — on `step` itself, for EVERY state (hence every reachable one, `run`) that
enables the event — and proves it.
-/
namespace Afkak.C12
open Afkak.Consumer Afkak.Monitor.C12

theorem probe_fetchOffset (s : St) : (probe s).fetchOffset = s.fetchOffset := rfl
theorem probe_bufferSize (s : St) : (probe s).bufferSize = s.bufferSize := rfl

/-- a fetch reply that the state enables is handled by `handleFetchResponse` with the model's own
    re-entrant API; `step` only adds trace items around it -/
theorem step_fetchOk_fields (cfg : Cfg) (k : Nat) (r : Reply) (s : St) (hc : s.crashed = false)
    (hq : (s.requestD == .pending k .fetch false || s.requestD == .pending k .fetch true) = true) :
    (step cfg s (.fetchOk k r)).fetchOffset
      = (handleFetchResponse cfg (opsN cfg cfg.depth) k r { s with out := .ev (.fetchOk k r) :: s.out }).fetchOffset ∧
    (step cfg s (.fetchOk k r)).bufferSize
      = (handleFetchResponse cfg (opsN cfg cfg.depth) k r { s with out := .ev (.fetchOk k r) :: s.out }).bufferSize := by
  unfold step
  simp only [hc, Bool.false_eq_true, if_false]
  unfold stepCore
  simp only [hq, if_true]
  split <;> simp [probe_fetchOffset, probe_bufferSize]

/-- **`refetchOk` after delivery, on `step`.** -/
theorem consumer_refetch_after_delivery_step (cfg : Cfg) (k : Nat) (s : St) (m : Msg) (ms : List Msg)
    (hc : s.crashed = false)
    (hq : (s.requestD == .pending k .fetch false || s.requestD == .pending k .fetch true) = true)
    (hr : s.startD = .pending) (hb : s.msgBlock = false)
    (hp : ((m :: ms).map (·.off)).Pairwise (· < ·)) (hf : s.fetchOffset ≤ m.off) :
    let s' := step cfg s (.fetchOk k { msgs := m :: ms, tail := .done })
    refetchOk ((m :: ms).map (·.off)) (ms.length + 1) s.fetchOffset s'.fetchOffset s.bufferSize cfg.bufMax 1
      (some s'.bufferSize) = true := by
  intro s'
  obtain ⟨h1, h2⟩ := step_fetchOk_fields cfg k { msgs := m :: ms, tail := .done } s hc hq
  have := consumer_refetch_after_delivery_opsN cfg cfg.depth k
    { s with out := .ev (.fetchOk k { msgs := m :: ms, tail := .done }) :: s.out } m ms hr hb hp hf
  simp only [] at this
  show refetchOk _ _ _ (step cfg s _).fetchOffset _ _ _ (some (step cfg s _).bufferSize) = true
  rw [h1, h2]
  exact this

/-- **`refetchOk` after a too-small answer, on `step`** (the other half; `consumer_refetchOk` lifted
    through `step`). -/
theorem consumer_refetchOk_step (cfg : Cfg) (k : Nat) (s : St) (hc : s.crashed = false)
    (hq : (s.requestD == .pending k .fetch false || s.requestD == .pending k .fetch true) = true)
    (hr : s.startD = .pending) (hb : s.msgBlock = false) (offs : List Int) (c : Nat) (hc0 : 0 < c) :
    refetchOk offs 0 s.fetchOffset
      (step cfg s (.fetchOk k { msgs := [], tail := .small })).fetchOffset
      s.bufferSize cfg.bufMax c
      (match Afkak.Consumer.grow s.bufferSize cfg.bufMax with
        | some _ => some (step cfg s (.fetchOk k { msgs := [], tail := .small })).bufferSize
        | none => none) = true := by
  obtain ⟨h1, h2⟩ := step_fetchOk_fields cfg k { msgs := [], tail := .small } s hc hq
  rw [h1, h2]
  exact consumer_refetchOk cfg (opsN cfg cfg.depth) k
    { s with out := .ev (.fetchOk k { msgs := [], tail := .small }) :: s.out } hr hb offs c hc0

end Afkak.C12
