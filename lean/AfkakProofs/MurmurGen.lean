import AfkakProofs.Murmur
/-!
# The generated term of `pure_murmur2` equals the hand-written model

`Afkak.Consts.genPureMurmur2` (in `Afkak/Generated/PartitionerConsts.lean`) is produced on every run
from the AST of `afkak/partitioner.py: pure_murmur2` by `harness/lib/pure_translate.py`: a `do` block
in the `Option` monad (`none` = IndexError) with `List.foldlM` over `List.range (length / 4)` for the
`for` loop and index lookups `byte_array[i]?`.  Here it is proved equal, for ALL inputs, to the
structurally recursive hand-written model `Afkak.Murmur.pureMurmur2` (in particular: no lookup of the
source can raise IndexError).  A change of the source that changes the term breaks `gen_eq`.
-/
namespace Afkak.Murmur
open Afkak.Consts

/-- `length & ~3` (emitted as `n ^^^ (n &&& 3)`) is `4 * (length // 4)`. -/
theorem clear_low2 (n : Nat) : n ^^^ (n &&& 3) = n / 4 * 4 := by
  apply Nat.eq_of_testBit_eq
  intro i
  have h3 : (3 : Nat) = 2 ^ 2 - 1 := by decide
  have h4 : n / 4 * 4 = (n >>> 2) <<< 2 := by
    simp only [Nat.shiftRight_eq_div_pow, Nat.shiftLeft_eq]
  rw [h4, Nat.testBit_xor, Nat.testBit_and, h3, Nat.testBit_two_pow_sub_one, Nat.testBit_shiftLeft,
    Nat.testBit_shiftRight]
  by_cases hi : i < 2
  · have : ¬ (i ≥ 2) := by omega
    simp [hi, this]
  · have h2 : i ≥ 2 := by omega
    have : 2 + (i - 2) = i := by omega
    simp [hi, h2, this]

theorem short_of_no_chunk (tail : List UInt8)
    (hne : ∀ b0 b1 b2 b3 rest, tail = b0 :: b1 :: b2 :: b3 :: rest → False) : tail.length < 4 := by
  match tail, hne with
  | [], _ => simp
  | [_], _ => simp
  | [_, _], _ => simp
  | [_, _, _], _ => simp
  | a :: b :: c :: d :: r, hne => exact absurd rfl (hne a b c d r)

/-- What `pyLoop` leaves over is the list without its `length / 4` full chunks. -/
theorem pyLoop_snd (h : Nat) (bs : List UInt8) : (pyLoop h bs).2 = bs.drop (bs.length / 4 * 4) := by
  fun_induction pyLoop h bs with
  | case1 h b0 b1 b2 b3 rest ih =>
    have : (b0 :: b1 :: b2 :: b3 :: rest).length / 4 * 4 = rest.length / 4 * 4 + 4 := by
      simp only [List.length_cons]; omega
    rw [this, ih]; rfl
  | case2 h tail hne =>
    have : tail.length < 4 := short_of_no_chunk tail hne
    have : tail.length / 4 * 4 = 0 := by omega
    rw [this]; rfl

/-- The indexed fold, started at chunk `k` of `bs = pre ++ rest`, is the structural recursion on
    `rest` — for ANY loop body `f` that computes `pyMix` from the four bytes it looks up. -/
theorem loop_aux (bs : List UInt8) (f : Nat → Nat → Option Nat)
    (hf : ∀ h i b0 b1 b2 b3, bs[i * 4 + 0]? = some b0 → bs[i * 4 + 1]? = some b1 →
      bs[i * 4 + 2]? = some b2 → bs[i * 4 + 3]? = some b3 → f h i = some (pyMix h b0 b1 b2 b3))
    (h : Nat) (rest : List UInt8) : ∀ (pre : List UInt8) (k : Nat), pre.length = k * 4 → bs = pre ++ rest →
      List.foldlM f h (List.range' k (rest.length / 4)) = some (pyLoop h rest).1 := by
  fun_induction pyLoop h rest with
  | case1 h b0 b1 b2 b3 rest ih =>
    intro pre k hk hbs
    have hl : (b0 :: b1 :: b2 :: b3 :: rest).length / 4 = rest.length / 4 + 1 := by
      simp only [List.length_cons]; omega
    rw [hl, List.range'_succ, List.foldlM_cons]
    have e0 : bs[k * 4 + 0]? = some b0 := by
      rw [hbs, List.getElem?_append_right (by omega)]; simp [hk]
    have e1 : bs[k * 4 + 1]? = some b1 := by
      rw [hbs, List.getElem?_append_right (by omega)]; simp [hk]
    have e2 : bs[k * 4 + 2]? = some b2 := by
      rw [hbs, List.getElem?_append_right (by omega)]; simp [hk]
    have e3 : bs[k * 4 + 3]? = some b3 := by
      rw [hbs, List.getElem?_append_right (by omega)]; simp [hk]
    rw [hf h k b0 b1 b2 b3 e0 e1 e2 e3]
    simp only [Option.bind_some, bind]
    exact ih (pre ++ [b0, b1, b2, b3]) (k + 1) (by simp [hk]; omega) (by simp [hbs])
  | case2 h tail hne =>
    intro pre k _ _
    have : tail.length < 4 := short_of_no_chunk tail hne
    have : tail.length / 4 = 0 := by omega
    rw [this]; rfl

theorem loop_eq (bs : List UInt8) (f : Nat → Nat → Option Nat)
    (hf : ∀ h i b0 b1 b2 b3, bs[i * 4 + 0]? = some b0 → bs[i * 4 + 1]? = some b1 →
      bs[i * 4 + 2]? = some b2 → bs[i * 4 + 3]? = some b3 → f h i = some (pyMix h b0 b1 b2 b3))
    (h : Nat) : List.foldlM f h (List.range (bs.length / 4)) = some (pyLoop h bs).1 := by
  rw [List.range_eq_range']
  exact loop_aux bs f hf h bs [] 0 rfl rfl

/-- The term generated from the source's AST computes the hand-written model, for every byte
    string and every seed; in particular it never hits `none` (IndexError). -/
theorem gen_eq (bs : List UInt8) (seed : Nat) :
    genPureMurmur2 bs seed = some (pureMurmur2 bs seed) := by
  simp only [genPureMurmur2, pureMurmur2]
  -- the `for` loop: the generated body is `pyMix` of the four looked-up bytes (by `rfl`)
  rw [loop_eq bs _ ?hf]
  case hf =>
    intro h i b0 b1 b2 b3 e0 e1 e2 e3
    simp only [e0, e1, e2, e3, bind, Option.bind_some, pure]
    rfl
  -- the tail: lookups at `(length & ~3) + j` are lookups at `j` in the leftover list
  rw [pyLoop_snd, clear_low2]
  have hlen : (bs.drop (bs.length / 4 * 4)).length = bs.length % 4 := by
    rw [List.length_drop]; omega
  have hget : ∀ j, bs[bs.length / 4 * 4 + j]? = (bs.drop (bs.length / 4 * 4))[j]? := by
    intro j; rw [List.getElem?_drop]
  have hget0 := hget 0
  rw [Nat.add_zero] at hget0
  rw [hget 2, hget 1, hget0, ← hlen]
  generalize (pyLoop (seed ^^^ bs.length) bs).fst = h1
  generalize bs.drop (bs.length / 4 * 4) = t at hlen
  have hlt : t.length < 4 := by omega
  match t, hlt with
  | [], _ => rfl
  | [a], _ => rfl
  | [a, b], _ => rfl
  | [a, b, c], _ => rfl
  | a :: b :: c :: d :: r, hlt => simp only [List.length_cons] at hlt; omega

end Afkak.Murmur
