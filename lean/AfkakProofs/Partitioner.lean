import Afkak.Partitioner
import AfkakProofs.Murmur
namespace Afkak.Partitioner
open Afkak.Consts Afkak.Murmur

theorem hashed_some (key : List UInt8) (ps : List Int) (h : ps ≠ []) :
    ∃ p, hashed key ps = some p ∧ p ∈ ps := by
  have hl : 0 < ps.length := List.length_pos_iff.mpr h
  unfold hashed
  rw [if_neg (by omega)]
  have hi : ((pureMurmur2 key) &&& hashedPositiveMask) % ps.length < ps.length := Nat.mod_lt _ hl
  refine ⟨ps[((pureMurmur2 key) &&& hashedPositiveMask) % ps.length], ?_, List.getElem_mem hi⟩
  exact List.getElem?_eq_getElem hi

theorem hashed_eq_java (key : List UInt8) (ps : List Int) (hk : key.length < 2^32) (h : ps ≠ []) :
    hashed key ps = ps[javaIndex key ps.length]? := by
  have hl : 0 < ps.length := List.length_pos_iff.mpr h
  unfold hashed javaIndex
  rw [if_neg (by omega), pureMurmur2_eq_java key hk]
  rfl

/-- In-sync state: `self.partitions == partitions` and the cycle is a rotation (permutation) of it. -/
def RRInv (st : RR) (ps : List Int) : Prop := st.parts = ps ∧ st.rot.Perm ps

theorem insertInt_perm (a : Int) (l : List Int) : (insertInt a l).Perm (a :: l) := by
  induction l with
  | nil => exact List.Perm.refl _
  | cons b l ih =>
    unfold insertInt
    split
    · exact List.Perm.refl _
    · exact (List.Perm.cons b ih).trans (List.Perm.swap a b l)

theorem sortInts_perm (l : List Int) : (sortInts l).Perm l := by
  induction l with
  | nil => exact List.Perm.refl _
  | cons a l ih => exact (insertInt_perm a _).trans (List.Perm.cons a ih)

theorem sortInts_of_sorted {ps : List Int} (h : ps.Pairwise (· ≤ ·)) : sortInts ps = ps := by
  induction ps with
  | nil => rfl
  | cons a l ih =>
    rw [List.pairwise_cons] at h
    rw [sortInts, ih h.2]
    cases l with
    | nil => rfl
    | cons b l => rw [insertInt, if_pos (h.1 b List.mem_cons_self)]

theorem rotate1_perm (l : List Int) : (rotate1 l).Perm l := by
  cases l with
  | nil => exact List.Perm.refl _
  | cons x xs => exact List.perm_append_singleton x xs

theorem rotateN_perm (n : Nat) (l : List Int) : (rotateN n l).Perm l := by
  induction n generalizing l with
  | zero => exact List.Perm.refl _
  | succ n ih => exact (ih (rotate1 l)).trans (rotate1_perm l)

theorem setPartitions_inv {ps : List Int} (hs : ps.Pairwise (· ≤ ·)) (hne : ps ≠ [])
    (start : Option Nat) : ∃ st, setPartitions ps start = some st ∧ RRInv st ps := by
  have hl : 0 < ps.length := List.length_pos_iff.mpr hne
  cases start with
  | none => exact ⟨_, rfl, sortInts_of_sorted hs, List.Perm.refl _⟩
  | some r =>
    refine ⟨{ parts := sortInts ps, rot := rotateN r ps }, ?_, sortInts_of_sorted hs, rotateN_perm r ps⟩
    simp only [setPartitions]; rw [if_neg (by omega)]

/-- Picking `a.length` times from an in-sync state whose cycle is `a ++ b` yields exactly `a`
    and leaves the cycle at `b ++ a`. -/
theorem rrPicks_prefix (ps : List Int) (start : Option Nat) (a b : List Int) (parts : List Int)
    (hp : parts = ps) :
    rrPicks { parts := parts, rot := a ++ b } ps start a.length
      = some (a, { parts := parts, rot := b ++ a }) := by
  induction a generalizing b with
  | nil => simp [rrPicks]
  | cons x xs ih =>
    have := ih (b ++ [x])
    simp only [List.length_cons, rrPicks, rrPartition, hp, ne_eq, not_true_eq_false, if_false,
      List.cons_append, rotate1]
    subst hp
    rw [List.append_assoc, this]
    simp

theorem rrPicks_cycle (ps : List Int) (start : Option Nat) (st : RR) (hp : st.parts = ps) :
    rrPicks st ps start st.rot.length = some (st.rot, st) := by
  have := rrPicks_prefix ps start st.rot [] st.parts hp
  simpa using this

theorem rrPicks_append (st : RR) (ps : List Int) (start : Option Nat) (i j : Nat)
    (xs ys : List Int) (st1 st2 : RR)
    (h1 : rrPicks st ps start i = some (xs, st1)) (h2 : rrPicks st1 ps start j = some (ys, st2)) :
    rrPicks st ps start (i + j) = some (xs ++ ys, st2) := by
  induction i generalizing st xs with
  | zero => simp [rrPicks] at h1; obtain ⟨rfl, rfl⟩ := h1; simpa using h2
  | succ i ih =>
    rw [Nat.add_right_comm]
    simp only [rrPicks] at h1 ⊢
    split at h1
    · exact absurd h1 (by simp)
    · rename_i x st' hx
      split at h1
      · exact absurd h1 (by simp)
      · rename_i zs st'' hz
        simp only [Option.some.injEq, Prod.mk.injEq] at h1
        obtain ⟨rfl, rfl⟩ := h1
        simp only [ih st' zs hz, List.cons_append]

/-- `k` full cycles from an in-sync state: the picks are the cycle repeated `k` times and the
    state is unchanged. -/
theorem rrPicks_cycles (ps : List Int) (start : Option Nat) (st : RR) (hp : st.parts = ps) (k : Nat) :
    rrPicks st ps start (k * st.rot.length) = some ((List.replicate k st.rot).flatten, st) := by
  induction k with
  | zero => simp [rrPicks]
  | succ k ih =>
    rw [Nat.succ_mul]
    have := rrPicks_append st ps start _ _ _ _ st st ih (rrPicks_cycle ps start st hp)
    rw [this]
    congr 2
    rw [List.replicate_succ']
    simp

theorem count_flatten_replicate (k : Nat) (l : List Int) (p : Int) :
    ((List.replicate k l).flatten).count p = k * l.count p := by
  induction k with
  | zero => simp
  | succ k ih => simp [List.replicate_succ, ih, Nat.succ_mul, Nat.add_comm]

/-- Fairness from an in-sync state. -/
theorem rr_fair_insync (ps : List Int) (start : Option Nat) (st : RR) (hinv : RRInv st ps) (k : Nat) :
    ∃ picks, rrPicks st ps start (k * ps.length) = some (picks, st) ∧
      ∀ p, picks.count p = k * ps.count p := by
  obtain ⟨hp, hperm⟩ := hinv
  refine ⟨(List.replicate k st.rot).flatten, ?_, ?_⟩
  · rw [← hperm.length_eq]; exact rrPicks_cycles ps start st hp k
  · intro p; rw [count_flatten_replicate, hperm.count_eq]

/-- A single pick from any state with an ascending non-empty list leaves an in-sync state. -/
theorem rrPartition_inv (st : RR) {ps : List Int} (hs : ps.Pairwise (· ≤ ·)) (hne : ps ≠ [])
    (start : Option Nat) (hst : st.parts = ps → st.rot.Perm ps) :
    ∃ x st', rrPartition st ps start = some (x, st') ∧ x ∈ ps ∧ RRInv st' ps := by
  have key : ∀ s : RR, RRInv s ps → ∃ x st', (match s.rot with
      | [] => none
      | x :: _ => some (x, { s with rot := rotate1 s.rot })) = some (x, st') ∧ x ∈ ps ∧ RRInv st' ps := by
    intro s ⟨h1, h2⟩
    cases hr : s.rot with
    | nil => rw [hr] at h2; exact absurd h2.symm.eq_nil hne
    | cons x xs =>
      refine ⟨x, _, rfl, ?_, h1, ?_⟩
      · rw [hr] at h2; exact h2.subset (List.mem_cons_self)
      · show (rotate1 (x :: xs)).Perm ps
        rw [hr] at h2; exact (rotate1_perm _).trans h2
  unfold rrPartition
  by_cases hc : st.parts ≠ ps
  · obtain ⟨s, hs1, hs2⟩ := setPartitions_inv hs hne start
    rw [if_pos hc, hs1]
    exact key s hs2
  · have hc' : st.parts = ps := by simpa using hc
    rw [if_neg hc]
    exact key st ⟨hc', hst hc'⟩

end Afkak.Partitioner

namespace Afkak.Partitioner

/-- Global invariant of every partitioner state: the cycle is a permutation of `self.partitions`. -/
def WF (st : RR) : Prop := st.rot.Perm st.parts

theorem setPartitions_wf {ps : List Int} {start : Option Nat} {st : RR}
    (h : setPartitions ps start = some st) : WF st := by
  unfold setPartitions at h
  cases start with
  | none =>
    simp only [Option.some.injEq] at h; subst h
    exact (sortInts_perm _).symm
  | some r =>
    simp only at h
    split at h
    · exact absurd h (by simp)
    · simp only [Option.some.injEq] at h; subst h
      exact (rotateN_perm r ps).trans (sortInts_perm _).symm

theorem rrPartition_wf {st st' : RR} {ps : List Int} {start : Option Nat} {x : Int}
    (hw : WF st) (h : rrPartition st ps start = some (x, st')) : WF st' := by
  unfold rrPartition at h
  have key : ∀ s : RR, WF s → (match s.rot with
      | [] => none
      | x :: _ => some (x, { s with rot := rotate1 s.rot })) = some (x, st') → WF st' := by
    intro s hs hm
    split at hm
    · exact absurd hm (by simp)
    · simp only [Option.some.injEq, Prod.mk.injEq] at hm
      obtain ⟨_, rfl⟩ := hm
      exact (rotate1_perm _).trans hs
  by_cases hc : st.parts ≠ ps
  · rw [if_pos hc] at h
    cases hs : setPartitions ps start with
    | none => rw [hs] at h; exact absurd h (by simp)
    | some s => rw [hs] at h; exact key s (setPartitions_wf hs) h
  · rw [if_neg hc] at h
    exact key st hw h

/-- A call with a list different from `self.partitions` behaves exactly like a call on the freshly
    reset state. -/
theorem rrPartition_reset_eq {st s : RR} {ps : List Int} {start : Option Nat}
    (hc : st.parts ≠ ps) (hs : setPartitions ps start = some s) (hsp : s.parts = ps) :
    rrPartition st ps start = rrPartition s ps start := by
  unfold rrPartition
  rw [if_pos hc, hs, if_neg (by simpa using hsp)]

/-- Fairness for a window that starts in ANY well-formed state (in sync or about to be reset). -/
theorem rr_fair (st : RR) (hw : WF st) (ps : List Int) (hs : ps.Pairwise (· ≤ ·)) (hne : ps ≠ [])
    (start : Option Nat) (k : Nat) :
    ∃ picks st', rrPicks st ps start (k * ps.length) = some (picks, st') ∧
      ∀ p, picks.count p = k * ps.count p := by
  by_cases hc : st.parts ≠ ps
  · obtain ⟨s, hs1, hs2⟩ := setPartitions_inv hs hne start
    cases k with
    | zero => exact ⟨[], st, by simp [rrPicks], by simp⟩
    | succ k =>
      obtain ⟨picks, hp, hcnt⟩ := rr_fair_insync ps start s hs2 (k+1)
      refine ⟨picks, s, ?_, hcnt⟩
      have hl : 0 < ps.length := List.length_pos_iff.mpr hne
      obtain ⟨m, hm⟩ : ∃ m, (k+1) * ps.length = m + 1 := ⟨(k+1) * ps.length - 1, by
        have : 0 < (k+1) * ps.length := Nat.mul_pos (Nat.succ_pos k) hl
        omega⟩
      rw [hm] at hp ⊢
      simp only [rrPicks] at hp ⊢
      rw [rrPartition_reset_eq hc hs1 hs2.1]
      exact hp
  · have hc' : st.parts = ps := by simpa using hc
    obtain ⟨picks, hp, hcnt⟩ := rr_fair_insync ps start st ⟨hc', hc' ▸ hw⟩ k
    exact ⟨picks, st, hp, hcnt⟩

end Afkak.Partitioner

namespace Afkak.Partitioner

theorem PMap.get_set_same (m : PMap) (t : String) (st : RR) : (m.set t st).get t = some st := by
  induction m with
  | nil => simp [PMap.set, PMap.get]
  | cons hd rest ih =>
    obtain ⟨t', st'⟩ := hd
    unfold PMap.set
    by_cases h : t' = t
    · simp [h, PMap.get]
    · simp [h, PMap.get, ih]

theorem PMap.get_set_other (m : PMap) (t t' : String) (st : RR) (h : t' ≠ t) :
    (m.set t st).get t' = m.get t' := by
  induction m with
  | nil => simp [PMap.set, PMap.get, Ne.symm h]
  | cons hd rest ih =>
    obtain ⟨t'', st''⟩ := hd
    unfold PMap.set
    by_cases h2 : t'' = t
    · subst h2; simp [PMap.get, Ne.symm h]
    · simp only [h2, if_false, PMap.get]; rw [ih]

/-- A call for another topic leaves topic `t`'s partitioner untouched. -/
theorem nextPartitionRR_other {m m' : PMap} {t t' : String} {ps : List Int} {start : Option Nat} {x : Int}
    (h : nextPartitionRR m t' ps start = some (x, m')) (hne : t ≠ t') : m'.get t = m.get t := by
  unfold nextPartitionRR at h
  generalize getOrNew m t' ps start = st? at h
  cases st? with
  | none => exact absurd h (by simp)
  | some st =>
    simp only at h
    cases hr : rrPartition st ps start with
    | none => rw [hr] at h; exact absurd h (by simp)
    | some r =>
      obtain ⟨y, st'⟩ := r
      rw [hr] at h
      simp only [Option.some.injEq, Prod.mk.injEq] at h
      obtain ⟨_, rfl⟩ := h
      exact PMap.get_set_other _ _ _ _ hne

/-- The outcome of a call for topic `t` depends only on `t`'s own partitioner. -/
theorem nextPartitionRR_congr {m1 m2 : PMap} {t : String} (ps : List Int) (start : Option Nat)
    (h : m1.get t = m2.get t) :
    (nextPartitionRR m1 t ps start = none ∧ nextPartitionRR m2 t ps start = none) ∨
    ∃ x m1' m2', nextPartitionRR m1 t ps start = some (x, m1') ∧
      nextPartitionRR m2 t ps start = some (x, m2') ∧ m1'.get t = m2'.get t := by
  have hg : getOrNew m1 t ps start = getOrNew m2 t ps start := by unfold getOrNew; rw [h]
  unfold nextPartitionRR
  rw [hg]
  generalize getOrNew m2 t ps start = st?
  cases st? with
  | none => left; exact ⟨rfl, rfl⟩
  | some st =>
    cases hr : rrPartition st ps start with
    | none => left; simp only [hr, and_self]
    | some r =>
      obtain ⟨x, st'⟩ := r
      right
      refine ⟨x, m1.set t st', m2.set t st', ?_, ?_, ?_⟩
      · simp only [hr]
      · simp only [hr]
      · rw [PMap.get_set_same, PMap.get_set_same]

/-- A RAISING call for another topic leaves topic `t`'s partitioner untouched. -/
theorem nextPartitionRRAfterError_other (m : PMap) {t t' : String} (ps : List Int) (start : Option Nat)
    (hne : t ≠ t') : (nextPartitionRRAfterError m t' ps start).get t = m.get t := by
  unfold nextPartitionRRAfterError
  cases m.get t' with
  | some st => exact PMap.get_set_other _ _ _ _ hne
  | none =>
    cases setPartitions ps start with
    | none => rfl
    | some st => exact PMap.get_set_other _ _ _ _ hne

/-- What a RAISING call for topic `t` leaves for `t` depends only on `t`'s own partitioner. -/
theorem nextPartitionRRAfterError_congr {m1 m2 : PMap} {t : String} (ps : List Int) (start : Option Nat)
    (h : m1.get t = m2.get t) :
    (nextPartitionRRAfterError m1 t ps start).get t = (nextPartitionRRAfterError m2 t ps start).get t := by
  unfold nextPartitionRRAfterError
  rw [h]
  cases m2.get t with
  | some st => rw [PMap.get_set_same, PMap.get_set_same]
  | none =>
    cases setPartitions ps start with
    | none => exact h
    | some st => rw [PMap.get_set_same, PMap.get_set_same]

/-- Isolation: the selections made for topic `t` under ANY interleaving with calls for other topics
    are exactly those made when only `t`'s calls are executed. -/
theorem picksOf_filter (t : String) (m1 m2 : PMap) (h : m1.get t = m2.get t) (cs : List Call) :
    picksOf t m1 cs = picksOf t m2 (cs.filter (fun c => c.topic = t)) := by
  induction cs generalizing m1 m2 with
  | nil => rfl
  | cons c cs ih =>
    by_cases hc : c.topic = t
    · have hf : (c :: cs).filter (fun c => c.topic = t) = c :: cs.filter (fun c => c.topic = t) := by
        simp [hc]
      rw [hf]
      simp only [picksOf, hc]
      rcases nextPartitionRR_congr c.ps c.start h with ⟨h1, h2⟩ | ⟨x, m1', m2', h1, h2, h3⟩
      · rw [h1, h2]; simp only [if_true]
        rw [ih _ _ (hc ▸ nextPartitionRRAfterError_congr c.ps c.start (hc ▸ h))]
      · rw [h1, h2]; simp only [if_true]; rw [ih m1' m2' h3]
    · have hf : (c :: cs).filter (fun c => c.topic = t) = cs.filter (fun c => c.topic = t) := by
        simp [hc]
      rw [hf]
      simp only [picksOf, hc, if_false, List.nil_append]
      cases hn : nextPartitionRR m1 c.topic c.ps c.start with
      | none => exact ih _ m2 (by rw [nextPartitionRRAfterError_other m1 c.ps c.start (Ne.symm hc)]; exact h)
      | some r =>
        obtain ⟨x, m'⟩ := r
        exact ih m' m2 (by rw [nextPartitionRR_other hn (Ne.symm hc)]; exact h)

/-- Executing only `t`'s calls, all with the same list, is the round-robin partitioner itself. -/
theorem picksOf_replicate (t : String) (m : PMap) (st : RR) (hg : m.get t = some st)
    (ps : List Int) (start : Option Nat) (k : Nat) (picks : List Int) (st' : RR)
    (h : rrPicks st ps start k = some (picks, st')) :
    picksOf t m (List.replicate k ⟨t, ps, start⟩) = picks.map some := by
  induction k generalizing m st picks with
  | zero => simp [rrPicks] at h; simp [picksOf, h.1]
  | succ k ih =>
    simp only [rrPicks] at h
    split at h
    · exact absurd h (by simp)
    · rename_i x st1 hx
      split at h
      · exact absurd h (by simp)
      · rename_i zs st2 hz
        simp only [Option.some.injEq, Prod.mk.injEq] at h
        obtain ⟨rfl, rfl⟩ := h
        simp only [List.replicate_succ, picksOf, nextPartitionRR, getOrNew, hg, hx, if_true, List.map_cons,
          List.singleton_append]
        rw [ih (m.set t st1) st1 (PMap.get_set_same _ _ _) zs hz]

end Afkak.Partitioner

namespace Afkak.Partitioner

theorem rrAfterError_wf (st : RR) (ps : List Int) (hw : WF st) : WF (rrAfterError st ps) := by
  unfold rrAfterError
  split
  · exact (sortInts_perm ps).symm
  · exact hw

end Afkak.Partitioner
