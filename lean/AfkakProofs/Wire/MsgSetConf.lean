import AfkakProofs.Wire.ProduceReq
/-!
# `_encode_message_set(messages, offset, magic)` for EVERY `offset` argument

`msgset_bytes` (ProduceReq.lean) covers the call the produce encoder makes (`offset=None`: every entry
is written with offset 0).  Here: the general call — `offset=None` or an explicit first offset, from
which the entries are numbered `offset, offset+1, …` — writes byte for byte the grammar's encoding of
`Monitor.C04.entriesAt nowMs offset ms`, the value the monitor `Monitor.C04.messageSet` expects.
-/
namespace Afkak.Wire
open Afkak Afkak.Bytes Afkak.Codec Afkak.Consts Afkak.Monitor.C04

set_option synthInstance.maxSize 100000

/-- the entries `_encode_message_set` writes, following its loop: running offset `o`, increment `incr` -/
def entriesFrom (nowMs : Int) (incr : Int) : Int → List Message → Option (List (Int × Spec.Msg))
  | _, [] => some []
  | o, m :: ms =>
    match specMsg nowMs m, entriesFrom nowMs incr (o + incr) ms with
    | some sm, some r => some ((o, sm) :: r)
    | _, _ => none

/-- the loop of `_encode_message_set` writes the grammar's encoding of `entriesFrom` -/
theorem msgset_bytes_from (ext : Ext) (magic : Int) (hm : magic = 0 ∨ magic = 1) (incr : Int) :
    ∀ (ms : List Message) (entries : List (Int × Spec.Msg)) (body : Bytes) (offset : Int),
      encodeMessageSetLoop ext magic incr offset ms = .ok body →
      entriesFrom ext.nowMs incr offset ms = some entries → body = encAll (Spec.entry ext.crc) entries := by
  intro ms
  induction ms with
  | nil =>
    intro entries body offset h hs
    simp only [entriesFrom, Option.some.injEq] at hs
    subst hs
    simp only [encodeMessageSetLoop] at h
    cases h
    rfl
  | cons m ms ih =>
    intro entries body offset h hs
    unfold entriesFrom at hs
    cases hsm : specMsg ext.nowMs m with
    | none => simp [hsm] at hs
    | some sm =>
      cases hr : entriesFrom ext.nowMs incr (offset + incr) ms with
      | none => simp [hsm, hr] at hs
      | some r =>
        simp only [hsm, hr, Option.some.injEq] at hs
        subst hs
        unfold encodeMessageSetLoop at h
        have hmm : ¬ (magic ≠ 0 ∧ magic ≠ 1) := by
          rcases hm with h0 | h1
          · intro hh; exact hh.1 h0
          · intro hh; exact hh.2 h1
        rw [if_neg hmm] at h
        split at h
        · cases h
        · rename_i enc henc
          split at h
          · cases h
          · rename_i hdr hhdr
            split at h
            · cases h
            · rename_i rest hrest
              cases h
              simp only [fmt_encode_message_set_0] at hhdr
              have r' := ih r rest (offset + incr) hrest hr
              rw [message_bytes ext m sm enc henc hsm] at hhdr ⊢
              rw [pack_bytes hhdr, r']
              simp only [encAll, entry_enc, packedBody, widthOf, fieldSpec, List.append_nil, Codec.bytes, lenPrefixed,
                List.append_assoc]

theorem entriesFrom_cons (nowMs incr o : Int) (m : Message) (ms : List Message) :
    entriesFrom nowMs incr o (m :: ms) =
      (match specMsg nowMs m, entriesFrom nowMs incr (o + incr) ms with
       | some sm, some r => some ((o, sm) :: r)
       | _, _ => none) := rfl

/-- `entriesAt` (the monitor's expectation, written with `zipIdx`) is the loop's numbering -/
theorem entriesAt_some_from (nowMs : Int) (o : Int) : ∀ (ms : List Message) (k : Nat),
    (ms.zipIdx k).mapM (fun (p : Message × Nat) => (specMsg nowMs p.1).map (fun sm => (o + (p.2 : Int), sm)))
      = entriesFrom nowMs msgSetIncr (o + (k : Int)) ms := by
  intro ms
  induction ms with
  | nil => intro k; simp [entriesFrom]
  | cons m ms ih =>
    intro k
    rw [List.zipIdx_cons, mapM_option_cons, ih (k + 1)]
    have hk : o + ((k + 1 : Nat) : Int) = o + (k : Int) + msgSetIncr := by
      simp only [msgSetIncr]; omega
    rw [hk, entriesFrom_cons]
    generalize entriesFrom nowMs msgSetIncr (o + (k : Int) + msgSetIncr) ms = tl
    cases specMsg nowMs m <;> cases tl <;> rfl

theorem entriesAt_none_from (nowMs : Int) : ∀ (ms : List Message) (k : Nat),
    (ms.zipIdx k).mapM (fun (p : Message × Nat) => (specMsg nowMs p.1).map (fun sm => ((0 : Int), sm)))
      = entriesFrom nowMs msgSetIncrNoOffset 0 ms := by
  intro ms
  induction ms with
  | nil => intro k; simp [entriesFrom]
  | cons m ms ih =>
    intro k
    rw [List.zipIdx_cons, mapM_option_cons, ih (k + 1)]
    have hz : (0 : Int) + msgSetIncrNoOffset = 0 := by decide
    rw [entriesFrom_cons, hz]
    generalize entriesFrom nowMs msgSetIncrNoOffset 0 ms = tl
    cases specMsg nowMs m <;> cases tl <;> rfl

/-- **`_encode_message_set` conforms, whatever `offset` is**: if the encoder writes bytes and the
    grammar can name the messages (`entriesAt … = some entries`), the bytes are the grammar's encoding
    of exactly those entries. -/
theorem encodeMessageSet_bytes (ext : Ext) (ms : List Message) (offset : Option Int) (magic : Int)
    (hm : magic = 0 ∨ magic = 1) (entries : List (Int × Spec.Msg)) (data : Bytes)
    (h : encodeMessageSet ext ms offset magic = .ok data)
    (he : entriesAt ext.nowMs offset ms = some entries) :
    data = (Spec.messageSet ext.crc).enc entries := by
  unfold encodeMessageSet at h
  unfold entriesAt at he
  cases offset with
  | none =>
    simp only at h he
    rw [entriesAt_none_from ext.nowMs ms 0] at he
    rw [msgset_bytes_from ext magic hm _ ms entries data 0 h he]
    rfl
  | some o =>
    simp only at h he
    have := entriesAt_some_from ext.nowMs o ms 0
    simp only [Int.natCast_zero, Int.add_zero] at this
    rw [this] at he
    rw [msgset_bytes_from ext magic hm _ ms entries data o h he]
    rfl

/-- with a `magic` other than 0 or 1 the loop body binds no `encoded_message`: only the empty list encodes -/
theorem encodeMessageSet_badMagic (ext : Ext) (ms : List Message) (offset : Option Int) (magic : Int)
    (hm : magic ≠ 0 ∧ magic ≠ 1) (data : Bytes) (h : encodeMessageSet ext ms offset magic = .ok data) :
    ms = [] ∧ data = [] := by
  unfold encodeMessageSet at h
  cases ms with
  | nil => cases offset <;> simp only [encodeMessageSetLoop] at h <;> cases h <;> exact ⟨rfl, rfl⟩
  | cons m ms =>
    cases offset <;> simp only [encodeMessageSetLoop] at h <;> rw [if_pos hm] at h <;> cases h

/-- the monitor never fails on what the model of `_encode_message_set` writes -/
theorem messageSet_conforms (ext : Ext) (ms : List Message) (offset : Option Int) (magic : Int) (data : Bytes)
    (h : encodeMessageSet ext ms offset magic = .ok data) :
    Monitor.C04.messageSet ext.crc ext.nowMs ms offset data ≠ .fail := by
  unfold Monitor.C04.messageSet
  apply conforms_of_enc
  intro v hv
  by_cases hm : magic = 0 ∨ magic = 1
  · exact encodeMessageSet_bytes ext ms offset magic hm v data h hv
  · have hm' : magic ≠ 0 ∧ magic ≠ 1 := by
      constructor
      · intro h0; exact hm (Or.inl h0)
      · intro h1; exact hm (Or.inr h1)
    obtain ⟨rfl, rfl⟩ := encodeMessageSet_badMagic ext ms offset magic hm' data h
    cases offset <;> simp [entriesAt] at hv <;> subst hv <;> rfl

end Afkak.Wire
