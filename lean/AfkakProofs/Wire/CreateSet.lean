import AfkakProofs.Wire.Compressed
/-!
# `create_message_set(requests, codec, magic)` for EVERY `codec` argument

`createMessageSet_gzip` (Compressed.lean) covers `CODEC_GZIP`.  Here the other three branches:
`CODEC_NONE` (the plain list), `CODEC_SNAPPY` (`create_snappy_message`; the compressor is the external
`ext.snappy`, which raises `NotImplementedError` when python-snappy is absent) and any other value
(`UnsupportedCodecError`: nothing is returned).
-/
namespace Afkak.Wire
open Afkak Afkak.Bytes Afkak.Codec Afkak.Consts Afkak.Monitor.C04

set_option synthInstance.maxSize 100000

/-- `CODEC_NONE`: the messages handed on are, for the grammar, exactly the requests' payloads in
    order: offset 0, attributes 0, the request's key, the format asked for, stamped with the clock
    when the format is 1 -/
theorem createMessageSet_none (ext : Ext) (reqs : List (Option Bytes × List (Option Bytes))) (magic : Int)
    (ms : List Message) (h : createMessageSet ext reqs codecNone magic = .ok ms) :
    specEntries ext.nowMs ms = some (plainEntries ext.nowMs magic reqs) := by
  unfold createMessageSet at h
  split at h
  · cases h
  · rename_i inner hinner
    rw [if_pos rfl] at h
    cases h
    exact createMsgList_entries ext magic reqs _ hinner

/-- `CODEC_SNAPPY`: one wrapper, attributes = the snappy codec, null key, the format asked for, its
    value the compressor's output for exactly the grammar's encoding of the requests' payloads -/
theorem createMessageSet_snappy (ext : Ext) (reqs : List (Option Bytes × List (Option Bytes))) (magic : Int)
    (ms : List Message) (h : createMessageSet ext reqs codecSnappy magic = .ok ms) :
    ∃ w sn, ms = [w] ∧ w.attributes = codecSnappy ∧ w.key = none ∧ w.value = some sn ∧ w.magic = magic
      ∧ (w.timestamp = if magic = 1 then some ext.nowMs else none)
      ∧ ext.snappy ((Spec.messageSet ext.crc).enc (plainEntries ext.nowMs magic reqs)) = .ok sn := by
  unfold createMessageSet at h
  split at h
  · cases h
  · rename_i inner hinner
    rw [if_neg (by decide), if_neg (by decide), if_pos rfl] at h
    split at h
    · cases h
    · rename_i w hw
      cases h
      unfold createSnappyMessage at hw
      split at hw
      · cases hw
      · rename_i enc henc
        split at hw
        · cases hw
        · rename_i sn hsn
          have hent := createMsgList_entries ext magic reqs inner hinner
          have hbytes : enc = (Spec.messageSet ext.crc).enc (plainEntries ext.nowMs magic reqs) := by
            unfold encodeMessageSet at henc
            exact msgset_bytes ext 0 (Or.inl rfl) _ _ _ 0 rfl henc hent
          rw [hbytes] at hsn
          by_cases h1 : magic = 1
          · rw [if_pos h1] at hw
            cases hw
            exact ⟨_, sn, rfl, rfl, rfl, rfl, rfl, by simp [h1], hsn⟩
          · rw [if_neg h1] at hw
            cases hw
            exact ⟨_, sn, rfl, rfl, rfl, rfl, rfl, by simp [h1], hsn⟩

/-- any other codec value: `UnsupportedCodecError`, nothing is returned -/
theorem createMessageSet_unsupported (ext : Ext) (reqs : List (Option Bytes × List (Option Bytes))) (codec magic : Int)
    (hc : codec ≠ codecNone ∧ codec ≠ codecGzip ∧ codec ≠ codecSnappy) :
    ∀ ms, createMessageSet ext reqs codec magic ≠ .ok ms := by
  intro ms h
  unfold createMessageSet at h
  split at h
  · cases h
  · rw [if_neg hc.1, if_neg hc.2.1, if_neg hc.2.2] at h
    cases h

end Afkak.Wire
