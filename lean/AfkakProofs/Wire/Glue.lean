import AfkakProofs.Wire.Requests
/-!
# The client glue: the decoder applied to the reply is the decoder for the version in the request header
-/
namespace Afkak.Wire
open Afkak Afkak.Bytes Afkak.Codec Afkak.Consts Afkak.Monitor.C04

set_option synthInstance.maxSize 100000

theorem produceClamp_fst (v : Int) : (produceClamp v).1 = if v ≥ 2 then 2 else v := by
  unfold produceClamp
  simp only [produceClampAt, produceClampTo]
  by_cases h : v ≥ 2
  · simp only [h, if_true]
  · simp only [h, if_false]

theorem fetchClamp_eq (v : Int) : fetchClamp v = if v ≥ 2 then 2 else v := by
  unfold fetchClamp
  simp only [fetchClampAt, fetchClampTo]
  by_cases h : v ≥ 2
  · simp only [h, if_true]
  · simp only [h, if_false]

/-- the produce decoder handed `api_ver` behaves as the decoder of the version the header carries -/
theorem decodeProduceResponse_clamp (data : Bytes) (v : Int) :
    decodeProduceResponse data v = decodeProduceResponse data (produceClamp v).1 := by
  rw [produceClamp_fst]
  by_cases h : v ≥ 2
  · rw [if_pos h]
    unfold decodeProduceResponse
    simp only [produceRespV0Is, produceRespV2From]
    have h1 : ¬ (v = 0) := by omega
    have h2 : v ≥ 1 := by omega
    have h3 : ¬ ((2 : Int) = 0) := by decide
    have h4 : (2 : Int) ≥ 1 := by decide
    simp only [h1, h2, h3, h4, if_false, if_true]
  · rw [if_neg h]

theorem decodeFetchResponse_clamp (ext : Ext) (depth : Nat) (data : Bytes) (v : Int) :
    decodeFetchResponse ext depth data v = decodeFetchResponse ext depth data (fetchClamp v) := by
  rw [fetchClamp_eq]
  by_cases h : v ≥ 2
  · rw [if_pos h]
    unfold decodeFetchResponse
    simp only [fetchRespV0Is, fetchRespV2From]
    have h1 : ¬ (v = 0) := by omega
    have h3 : ¬ ((2 : Int) = 0) := by decide
    have h4 : (2 : Int) ≥ 2 := by decide
    simp only [h1, h, h3, h4, if_false, if_true]
  · rw [if_neg h]

/-- the header the model writes is a header the grammar can carry, and parses back from the front of
    anything it is followed by -/
theorem header_parses {cid : Bytes} {corr key ver : Int} {x rest : Bytes} (h : encodeHeader cid corr key ver = .ok x) :
    Spec.header.dec (x ++ rest) = some (⟨key, ver, corr, some cid⟩, rest) := by
  have hx := encodeHeader_ok h
  simp only [encodeHeader, fmt_encode_message_header_0] at h
  split at h
  · cases h
  · rename_i l hl
    have hok := ((pack_eq _ _ _).mp hl).1
    simp only [fieldsOk, fieldSpec, and_true] at hok
    obtain ⟨hk, hv, hc, hlen⟩ := hok
    rw [hx]
    apply Spec.header.law
    simp only [Spec.header, iso, seq, int16, int32, intN, nullableString, nullablePrefixed, Bool.true_and,
      Bool.and_eq_true]
    exact ⟨(intFitsB_iff _ _).mpr ((fits2 _).mp hk), (intFitsB_iff _ _).mpr ((fits2 _).mp hv),
      (intFitsB_iff _ _).mpr ((fits4 _).mp hc), (intFitsB_iff _ _).mpr ((fits2 _).mp hlen)⟩

theorem produce_header {ext : Ext} {cid : Bytes} {corr acks timeout v : Int} {ps : List ProduceReq} {frame : Bytes}
    (h : encodeProduceRequest ext cid corr ps acks timeout v = .ok frame) :
    ∃ rest, Spec.header.dec frame = some (⟨0, (produceClamp v).1, corr, some cid⟩, rest) := by
  unfold encodeProduceRequest at h
  simp only at h
  split at h
  · cases h
  split at h
  · cases h
  · rename_i hd hhd
    split at h
    · cases h
    · rename_i h2 hh2
      split at h
      · cases h
      · rename_i body hbody
        cases h
        refine ⟨h2 ++ body, ?_⟩
        rw [List.append_assoc]
        have := header_parses (rest := h2 ++ body) hhd
        simpa [hdrKey_encode_produce_request] using this

theorem fetch_header {cid : Bytes} {corr wait minb v : Int} {ps : List FetchReq} {frame : Bytes}
    (h : encodeFetchRequest cid corr ps wait minb v = .ok frame) :
    ∃ rest, Spec.header.dec frame = some (⟨1, fetchClamp v, corr, some cid⟩, rest) := by
  unfold encodeFetchRequest at h
  simp only at h
  split at h
  · cases h
  split at h
  · cases h
  · rename_i hd hhd
    split at h
    · cases h
    · rename_i h2 hh2
      split at h
      · cases h
      · rename_i body hbody
        cases h
        refine ⟨h2 ++ body, ?_⟩
        rw [List.append_assoc]
        have := header_parses (rest := h2 ++ body) hhd
        simpa [hdrKey_encode_fetch_request] using this

/-! ## every way the discovery can end -/

theorem fetchLoop_outcomes : ∀ (n : Nat) (attempts : List Attempt),
    fetchLoop n attempts = none ∨ (∃ e, fetchLoop n attempts = some (.error e)) ∨
    fetchLoop n attempts = some (.ok .legacy) ∨ ∃ t, fetchLoop n attempts = some (.ok (.table t)) := by
  intro n
  induction n with
  | zero =>
    intro attempts
    right; right; left
    simp [fetchLoop, handleApiVersionUpdate]
  | succ n ih =>
    intro attempts
    cases attempts with
    | nil => left; rfl
    | cons a as =>
      cases a with
      | unavailable => simpa [fetchLoop] using ih as
      | reply data =>
        simp only [fetchLoop]
        cases hd : decodeApiVersionsResponse data with
        | error e => right; left; exact ⟨e, rfl⟩
        | ok r =>
          obtain ⟨err, vs⟩ := r
          simp only [handleApiVersionUpdate]
          by_cases he : err ≠ 0
          · right; right; left; simp [he]
          · right; right; right; exact ⟨vs, by simp [he]⟩

/-- the state the public `fetch_api_versions()` leaves is the one the discovery loop computes -/
theorem fetchLoopCall_state : ∀ (n : Nat) (attempts : List Attempt),
    (fetchLoopCall n attempts).map (fun r => r.map (·.1)) = fetchLoop n attempts := by
  intro n
  induction n with
  | zero => intro attempts; rfl
  | succ n ih =>
    intro attempts
    cases attempts with
    | nil => rfl
    | cons a as =>
      cases a with
      | unavailable => simpa [fetchLoop, fetchLoopCall] using ih as
      | reply data =>
        simp only [fetchLoop, fetchLoopCall]
        cases hd : decodeApiVersionsResponse data with
        | error e => rfl
        | ok r => rfl

/-! ## the fallback, characterised -/

/-- a discovery that ends normally ends in the fallback state or in the table of a reply whose error
    code is 0 -/
theorem fetchLoop_ok_char : ∀ (n : Nat) (attempts : List Attempt) (st : ApiVersionsState),
    fetchLoop n attempts = some (.ok st) →
    st = .legacy ∨ ∃ data vs, Attempt.reply data ∈ attempts ∧ decodeApiVersionsResponse data = .ok (0, vs) ∧ st = .table vs := by
  intro n
  induction n with
  | zero =>
    intro attempts st h
    simp only [fetchLoop, handleApiVersionUpdate, Option.some.injEq, Except.ok.injEq] at h
    left; rw [← h]; decide
  | succ n ih =>
    intro attempts st h
    cases attempts with
    | nil => simp [fetchLoop] at h
    | cons a as =>
      cases a with
      | unavailable =>
        simp only [fetchLoop] at h
        rcases ih as st h with h1 | ⟨data, vs, hm, hd, hs⟩
        · exact Or.inl h1
        · exact Or.inr ⟨data, vs, List.mem_cons_of_mem _ hm, hd, hs⟩
      | reply data =>
        simp only [fetchLoop] at h
        cases hd : decodeApiVersionsResponse data with
        | error e => simp [hd] at h
        | ok r =>
          obtain ⟨err, vs⟩ := r
          simp only [hd, Option.some.injEq, Except.ok.injEq, handleApiVersionUpdate] at h
          by_cases he : err ≠ 0
          · left; rw [← h]; simp [he]
          · have he0 : err = 0 := by omega
            right
            refine ⟨data, vs, List.mem_cons_self, by rw [hd, he0], ?_⟩
            rw [← h]; simp [he]

/-- `k ≤ n` unanswered attempts in a row, as many as the loop allows: the fallback -/
theorem fetchLoop_all_unavailable : ∀ (n : Nat) (rest : List Attempt),
    fetchLoop n (List.replicate n .unavailable ++ rest) = some (.ok .legacy) := by
  intro n
  induction n with
  | zero => intro rest; simp [fetchLoop, handleApiVersionUpdate]
  | succ n ih => intro rest; simpa [List.replicate_succ, fetchLoop] using ih rest

/-- fewer unanswered attempts than the loop allows, then a reply carrying an error code: the fallback -/
theorem fetchLoop_error_code : ∀ (n k : Nat) (data : Bytes) (err : Int) (vs : List ApiVersion) (rest : List Attempt),
    k < n → decodeApiVersionsResponse data = .ok (err, vs) → err ≠ 0 →
    fetchLoop n (List.replicate k .unavailable ++ .reply data :: rest) = some (.ok .legacy) := by
  intro n
  induction n with
  | zero => intro k _ _ _ _ hk; omega
  | succ n ih =>
    intro k data err vs rest hk hd he
    cases k with
    | zero => simp [fetchLoop, hd, handleApiVersionUpdate, he]
    | succ k =>
      simp only [List.replicate_succ, List.cons_append, fetchLoop]
      exact ih k data err vs rest (by omega) hd he

/-- … and a reply with error code 0: its table -/
theorem fetchLoop_table : ∀ (n k : Nat) (data : Bytes) (vs : List ApiVersion) (rest : List Attempt),
    k < n → decodeApiVersionsResponse data = .ok (0, vs) →
    fetchLoop n (List.replicate k .unavailable ++ .reply data :: rest) = some (.ok (.table vs)) := by
  intro n
  induction n with
  | zero => intro k _ _ _ hk; omega
  | succ n ih =>
    intro k data vs rest hk hd
    cases k with
    | zero => simp [fetchLoop, hd, handleApiVersionUpdate]
    | succ k =>
      simp only [List.replicate_succ, List.cons_append, fetchLoop]
      exact ih k data vs rest (by omega) hd

/-- … and a reply the decoder rejects: the decoder's exception, no fallback -/
theorem fetchLoop_garbled : ∀ (n k : Nat) (data : Bytes) (e : Err) (rest : List Attempt),
    k < n → decodeApiVersionsResponse data = .error e →
    fetchLoop n (List.replicate k .unavailable ++ .reply data :: rest) = some (.error e) := by
  intro n
  induction n with
  | zero => intro k _ _ _ hk; omega
  | succ n ih =>
    intro k data e rest hk hd
    cases k with
    | zero => simp [fetchLoop, hd]
    | succ k =>
      simp only [List.replicate_succ, List.cons_append, fetchLoop]
      exact ih k data e rest (by omega) hd

end Afkak.Wire
