import AfkakProofs.Wire.RespProofs
/-!
# Message sets: decoding the grammar's encoding of plain (uncompressed) messages
-/
namespace Afkak.Wire
open Afkak Afkak.Bytes Afkak.Codec Afkak.Consts Afkak.Monitor.C05

set_option synthInstance.maxSize 100000

/-! ## one message, given what its primitive reads return -/

theorem decodeCodec_plain (ext : Ext) (recSet : Bytes → Gen) (att : Int) (value : Option Bytes) (plain : Gen)
    (wrap : Gen → Gen) (h : att.toNat &&& attributeCodecMask = codecNone.toNat) :
    decodeCodec ext recSet att value plain wrap = plain := by
  simp only [decodeCodec, h, if_true]

theorem decodeMessage_v0_steps {ext : Ext} {recSet : Bytes → Gen} {data : Bytes} {off crc att c1 c2 c3 : Int}
    {key value : Option Bytes}
    (h1 : relativeUnpack ['>', 'I', 'B', 'B'] data 0 = .ok ([crc, 0, att], c1))
    (hcrc : crc = ((ext.crc (pySlice data crcFrom data.length) &&& crcMask : Nat) : Int))
    (h2 : readIntString data c1 = .ok (key, c2)) (h3 : readIntString data c2 = .ok (value, c3)) :
    decodeMessageWith ext recSet (some data) off =
      decodeCodec ext recSet att value ([⟨off, { magic := 0, attributes := att, key := key, value := value }⟩], none) id := by
  unfold decodeMessageWith
  simp only [fmt_decode_message_0]
  rw [h1]
  simp only
  rw [if_neg (by rw [hcrc]; simp)]
  simp only [if_true]
  rw [h2]; simp only; rw [h3]

theorem decodeMessage_v1_steps {ext : Ext} {recSet : Bytes → Gen} {data : Bytes} {off crc att ts c1 c2 c3 c4 : Int}
    {key value : Option Bytes}
    (h1 : relativeUnpack ['>', 'I', 'B', 'B'] data 0 = .ok ([crc, 1, att], c1))
    (hcrc : crc = ((ext.crc (pySlice data crcFrom data.length) &&& crcMask : Nat) : Int))
    (ht : relativeUnpack ['>', 'q'] data c1 = .ok ([ts], c2))
    (h2 : readIntString data c2 = .ok (key, c3)) (h3 : readIntString data c3 = .ok (value, c4)) :
    decodeMessageWith ext recSet (some data) off =
      decodeCodec ext recSet att value
        ([⟨off, { magic := 1, attributes := att, key := key, value := value, timestamp := some ts }⟩], none) (v1Inner off) := by
  unfold decodeMessageWith
  simp only [fmt_decode_message_0, fmt_decode_message_v1_0]
  rw [h1]
  simp only
  rw [if_neg (by rw [hcrc]; simp)]
  have h10 : ¬ ((1 : Int) = 0) := by decide
  simp only [h10, if_false, if_true]
  rw [ht]; simp only; rw [h2]; simp only; rw [h3]

/-! ## the layout of the grammar's message -/

theorem msgBody_enc (m : Spec.Msg) :
    Spec.msgBody.enc m = ofIntBE 1 m.magic ++ (Spec.msgRest m.magic).enc (m.attributes, m.timestamp, m.key, m.value) := rfl

theorem msgBody_valid (m : Spec.Msg) :
    Spec.msgBody.valid m = (true && (int8.valid m.magic && (Spec.msgRest m.magic).valid (m.attributes, m.timestamp, m.key, m.value))) := rfl

theorem msgRest0_enc (q : Nat × Option Int × Option Bytes × Option Bytes) :
    (Spec.msgRest 0).enc q = ofNatBE 1 q.1 ++ (nullableBytes.enc q.2.2.1 ++ nullableBytes.enc q.2.2.2) := rfl

theorem msgRest0_valid (q : Nat × Option Int × Option Bytes × Option Bytes) :
    (Spec.msgRest 0).valid q = (q.2.1.isNone && (uint8.valid q.1 && (nullableBytes.valid q.2.2.1 && nullableBytes.valid q.2.2.2))) := rfl

theorem msgRest1_enc (q : Nat × Option Int × Option Bytes × Option Bytes) :
    (Spec.msgRest 1).enc q = ofNatBE 1 q.1 ++ (ofIntBE 8 (match q.2.1 with | some t => t | none => 0) ++
      (nullableBytes.enc q.2.2.1 ++ nullableBytes.enc q.2.2.2)) := rfl

theorem msgRest1_valid (q : Nat × Option Int × Option Bytes × Option Bytes) :
    (Spec.msgRest 1).valid q = (q.2.1.isSome && (uint8.valid q.1 && (int64.valid (match q.2.1 with | some t => t | none => 0) &&
      (nullableBytes.valid q.2.2.1 && nullableBytes.valid q.2.2.2)))) := rfl

theorem msgRest_other_valid (magic : Int) (h0 : magic ≠ 0) (h1 : magic ≠ 1) (q : Nat × Option Int × Option Bytes × Option Bytes) :
    (Spec.msgRest magic).valid q = false := by
  unfold Spec.msgRest
  rw [if_neg h0, if_neg h1]
  rfl

theorem message_enc (crc : Bytes → Nat) (m : Spec.Msg) :
    (Spec.message crc).enc m = ofNatBE 4 (crc (Spec.msgBody.enc m) % 256 ^ 4) ++ Spec.msgBody.enc m := rfl

theorem message_valid (crc : Bytes → Nat) (m : Spec.Msg) : (Spec.message crc).valid m = Spec.msgBody.valid m := rfl

/-! ## reading packed groups at a cursor (cursor kept as `↑(… packedBody …).length`) -/

theorem relativeUnpack_at0 (cs : List Char) (vs : List Int) {data rest : Bytes} (h : fieldsOk cs vs)
    (hd : data = packedBody cs vs ++ rest) :
    relativeUnpack ('>' :: cs) data 0 = .ok (vs, ((packedBody cs vs).length : Int)) := by
  have := relativeUnpack_packed cs vs [] rest h
  rw [hd]
  simpa using this

theorem relativeUnpack_at (cs : List Char) (vs : List Int) {data pre rest : Bytes} (h : fieldsOk cs vs)
    (hd : data = pre ++ packedBody cs vs ++ rest) :
    relativeUnpack ('>' :: cs) data pre.length = .ok (vs, ((pre ++ packedBody cs vs).length : Int)) := by
  rw [hd, relativeUnpack_packed cs vs pre rest h, natCast_add_length pre _]

theorem uint8_lt {n : Nat} (h : uint8.valid n = true) : n < 256 := by
  have : n < 256 ^ 1 := of_decide_eq_true h
  simpa using this

theorem ok_B_nat {n : Nat} (h : n < 256) :
    (match fieldSpec 'B' with | some (w, s) => fieldInRange w s (n : Int) = true | none => False) := by
  simp only [fieldSpec]
  rw [fieldInRange_unsigned]
  constructor <;> omega

theorem ok_I_nat {n : Nat} (h : n < 4294967296) :
    (match fieldSpec 'I' with | some (w, s) => fieldInRange w s (n : Int) = true | none => False) := by
  simp only [fieldSpec]
  rw [fieldInRange_unsigned]
  constructor <;> omega

theorem crcMask_mod (n : Nat) : n &&& crcMask = n % 256 ^ 4 := by
  have : crcMask = 2 ^ 32 - 1 := by decide
  rw [this, Nat.and_two_pow_sub_one_eq_mod]

/-- one message of the grammar, decoded by `_decode_message`: header, checksum, key and value are read
    back; what is yielded is then decided by the codec bits (`decodeCodec`) -/
theorem message_decode (ext : Ext) (recSet : Bytes → Gen) (off : Int) (m : Spec.Msg)
    (hv : (Spec.message ext.crc).valid m = true) :
    decodeMessageWith ext recSet (some ((Spec.message ext.crc).enc m)) off =
      decodeCodec ext recSet (m.attributes : Int) m.value ([⟨off, toMessage m⟩], none)
        (if m.magic = 1 then v1Inner off else id) := by
  obtain ⟨magic, attrs, ts, key, value⟩ := m
  rw [message_valid, msgBody_valid] at hv
  simp only [Bool.true_and] at hv
  have hv := Bool.and_eq_true_iff.mp hv
  simp only at hv ⊢
  have hC : ext.crc (Spec.msgBody.enc ⟨magic, attrs, ts, key, value⟩) % 256 ^ 4 < 4294967296 := Nat.mod_lt _ (by decide)
  rw [message_enc]
  generalize hbody : Spec.msgBody.enc ⟨magic, attrs, ts, key, value⟩ = body at hC ⊢
  rw [msgBody_enc] at hbody
  simp only at hbody
  by_cases h0 : magic = 0
  · subst h0
    rw [msgRest0_valid] at hv
    rw [msgRest0_enc] at hbody
    simp only at hv hbody
    have hr := Bool.and_eq_true_iff.mp hv.2
    have hr2 := Bool.and_eq_true_iff.mp hr.2
    have hr3 := Bool.and_eq_true_iff.mp hr2.2
    have hts : ts = none := by cases ts <;> simp_all
    subst hts
    have hA := uint8_lt hr2.1
    generalize hC' : ext.crc body % 256 ^ 4 = C at hC
    have hp : packedBody ['I', 'B', 'B'] [(C : Int), 0, (attrs : Int)] = ofNatBE 4 C ++ (ofIntBE 1 0 ++ ofNatBE 1 attrs) := by
      simp only [packedBody, widthOf, fieldSpec, List.append_nil, ofIntBE_natCast 4 C hC, ofIntBE_natCast 1 attrs (by simpa using hA)]
    have hok : fieldsOk ['I', 'B', 'B'] [(C : Int), 0, (attrs : Int)] :=
      ⟨ok_I_nat hC, ok_B_nat (n := 0) (by decide), ok_B_nat hA, trivial⟩
    have hdata : ofNatBE 4 C ++ body =
        packedBody ['I', 'B', 'B'] [(C : Int), 0, (attrs : Int)] ++ (nullableBytes.enc key ++ nullableBytes.enc value) := by
      rw [hp, ← hbody]; simp only [List.append_assoc]
    generalize hdat : ofNatBE 4 C ++ body = data at hdata ⊢
    have hslice : pySlice data crcFrom data.length = body := by
      have := pySlice_mid (ofNatBE 4 C) body []
      rw [List.append_nil, hdat, ofNatBE_length] at this
      have hl : (data.length : Int) = ((4 : Nat) : Int) + (body.length : Int) := by
        rw [← hdat]; simp [List.length_append, ofNatBE_length]
      rw [hl]
      exact this
    have r := decodeMessage_v0_steps (ext := ext) (recSet := recSet) (off := off)
      (relativeUnpack_at0 ['I', 'B', 'B'] [(C : Int), 0, (attrs : Int)] hok hdata)
      (by rw [hslice, crcMask_mod, hC'])
      (ris_nullable_at (data := data) (pre := packedBody ['I', 'B', 'B'] [(C : Int), 0, (attrs : Int)]) (rest := nullableBytes.enc value)
        (by rw [hdata]; simp only [List.append_assoc]) hr3.1)
      (ris_nullable_at (data := data) (pre := packedBody ['I', 'B', 'B'] [(C : Int), 0, (attrs : Int)] ++ nullableBytes.enc key) (rest := [])
        (by rw [hdata]; simp only [List.append_assoc, List.append_nil]) hr3.2)
    rw [r]
    rfl
  · by_cases h1 : magic = 1
    · subst h1
      rw [msgRest1_valid] at hv
      rw [msgRest1_enc] at hbody
      simp only at hv hbody
      have hr := Bool.and_eq_true_iff.mp hv.2
      have hr2 := Bool.and_eq_true_iff.mp hr.2
      have hr3 := Bool.and_eq_true_iff.mp hr2.2
      have hr4 := Bool.and_eq_true_iff.mp hr3.2
      cases ts with
      | none => simp at hr
      | some t =>
        simp only at hr3 hbody
        have hA := uint8_lt hr2.1
        generalize hC' : ext.crc body % 256 ^ 4 = C at hC
        have hp : packedBody ['I', 'B', 'B'] [(C : Int), 1, (attrs : Int)] = ofNatBE 4 C ++ (ofIntBE 1 1 ++ ofNatBE 1 attrs) := by
          simp only [packedBody, widthOf, fieldSpec, List.append_nil, ofIntBE_natCast 4 C hC, ofIntBE_natCast 1 attrs (by simpa using hA)]
        have hq : packedBody ['q'] [t] = ofIntBE 8 t := by simp only [packedBody, widthOf, fieldSpec, List.append_nil]
        have hok : fieldsOk ['I', 'B', 'B'] [(C : Int), 1, (attrs : Int)] :=
          ⟨ok_I_nat hC, ok_B_nat (n := 1) (by decide), ok_B_nat hA, trivial⟩
        have hdata : ofNatBE 4 C ++ body =
            packedBody ['I', 'B', 'B'] [(C : Int), 1, (attrs : Int)] ++ (packedBody ['q'] [t] ++ (nullableBytes.enc key ++ nullableBytes.enc value)) := by
          rw [hp, hq, ← hbody]; simp only [List.append_assoc]
        generalize hdat : ofNatBE 4 C ++ body = data at hdata ⊢
        have hslice : pySlice data crcFrom data.length = body := by
          have := pySlice_mid (ofNatBE 4 C) body []
          rw [List.append_nil, hdat, ofNatBE_length] at this
          have hl : (data.length : Int) = ((4 : Nat) : Int) + (body.length : Int) := by
            rw [← hdat]; simp [List.length_append, ofNatBE_length]
          rw [hl]
          exact this
        have r := decodeMessage_v1_steps (ext := ext) (recSet := recSet) (off := off)
          (relativeUnpack_at0 ['I', 'B', 'B'] [(C : Int), 1, (attrs : Int)] hok hdata)
          (by rw [hslice, crcMask_mod, hC'])
          (relativeUnpack_at ['q'] [t] (data := data) (pre := packedBody ['I', 'B', 'B'] [(C : Int), 1, (attrs : Int)])
            (rest := nullableBytes.enc key ++ nullableBytes.enc value) ⟨ok_q (v64 hr3.1), trivial⟩
            (by rw [hdata]; simp only [List.append_assoc]))
          (ris_nullable_at (data := data) (pre := packedBody ['I', 'B', 'B'] [(C : Int), 1, (attrs : Int)] ++ packedBody ['q'] [t])
            (rest := nullableBytes.enc value) (by rw [hdata]; simp only [List.append_assoc]) hr4.1)
          (ris_nullable_at (data := data)
            (pre := packedBody ['I', 'B', 'B'] [(C : Int), 1, (attrs : Int)] ++ packedBody ['q'] [t] ++ nullableBytes.enc key) (rest := [])
            (by rw [hdata]; simp only [List.append_assoc, List.append_nil]) hr4.2)
        rw [r]
        rfl
    · rw [msgRest_other_valid magic h0 h1] at hv
      simp at hv

/-- one plain message of the grammar, decoded by `_decode_message` -/
theorem message_roundtrip (ext : Ext) (recSet : Bytes → Gen) (off : Int) (m : Spec.Msg)
    (hv : (Spec.message ext.crc).valid m = true) (hplain : m.attributes % 4 = 0) :
    decodeMessageWith ext recSet (some ((Spec.message ext.crc).enc m)) off = ([⟨off, toMessage m⟩], none) := by
  rw [message_decode ext recSet off m hv]
  apply decodeCodec_plain
  have h3 : attributeCodecMask = 2 ^ 2 - 1 := by decide
  have h4 : codecNone.toNat = 0 := by decide
  rw [Int.toNat_natCast, h3, Nat.and_two_pow_sub_one_eq_mod, h4]
  simpa using hplain

/-! ## the loop of `_decode_message_set_iter` -/

theorem setLoop_end (ext : Ext) (recSet : Bytes → Gen) (data : Bytes) (n : Nat) (rm : Bool) :
    setLoopWith ext recSet data n (data.length : Int) rm = ([], none) := by
  have h : ¬ ((data.length : Int) < (data.length : Int)) := by omega
  cases n with
  | zero => simp only [setLoopWith, h, if_false]
  | succ n => simp only [setLoopWith, h, not_false_eq_true, if_true]

theorem setLoop_step {ext : Ext} {recSet : Bytes → Gen} {data : Bytes} {n : Nat} {cur c1 c2 off : Int}
    {msg : Option Bytes} {om : OffsetAndMessage} {rm : Bool}
    (hlt : cur < (data.length : Int))
    (h1 : relativeUnpack ['>', 'q'] data cur = .ok ([off], c1))
    (h2 : readIntString data c1 = .ok (msg, c2))
    (h3 : decodeMessageWith ext recSet msg off = ([om], none)) :
    setLoopWith ext recSet data (n + 1) cur rm =
      (om :: (setLoopWith ext recSet data n c2 true).1, (setLoopWith ext recSet data n c2 true).2) := by
  conv => lhs; unfold setLoopWith
  have hn : ¬ ¬ (cur < (data.length : Int)) := by omega
  rw [if_neg hn]
  simp only [fmt_decode_message_set_iter_0]
  rw [h1]; simp only; rw [h2]; simp only; rw [h3]
  simp only [List.isEmpty_cons, Bool.not_false, Bool.or_true, List.cons_append, List.nil_append]

/-- every entry of the grammar's message set has at least the 12 bytes of offset and size -/
theorem entry_enc (crc : Bytes → Nat) (e : Int × Spec.Msg) :
    (Spec.entry crc).enc e = ofIntBE 8 e.1 ++ Codec.bytes.enc ((Spec.message crc).enc e.2) := rfl

theorem entry_valid {crc : Bytes → Nat} {e : Int × Spec.Msg} (h : (Spec.entry crc).valid e = true) :
    IntFits 8 e.1 ∧ (Spec.message crc).valid e.2 = true ∧ Codec.bytes.valid ((Spec.message crc).enc e.2) = true := by
  have h1 := seq_valid h
  have h2 := sized32_valid h1.2
  refine ⟨v64 h1.1, h2.1, ?_⟩
  exact (intFitsB_iff _ _).mpr h2.2

/-- the loop over the rest of a set of plain messages -/
theorem setLoop_entries (ext : Ext) (recSet : Bytes → Gen) (data : Bytes) :
    ∀ (entries : List (Int × Spec.Msg)) (pre : Bytes) (n : Nat) (rm : Bool), entries.length ≤ n →
      (∀ e ∈ entries, (Spec.entry ext.crc).valid e = true ∧ e.2.attributes % 4 = 0) →
      data = pre ++ encAll (Spec.entry ext.crc) entries →
      setLoopWith ext recSet data n pre.length rm = (entries.map (fun e => ⟨e.1, toMessage e.2⟩), none) := by
  intro entries
  induction entries with
  | nil =>
    intro pre n rm _ _ hd
    have : data = pre := by rw [hd]; simp [encAll]
    rw [← this]
    exact setLoop_end ext recSet data n rm
  | cons e es ih =>
    intro pre n rm hn hv hd
    obtain ⟨off, m⟩ := e
    have he := hv (off, m) List.mem_cons_self
    have hev := entry_valid he.1
    cases n with
    | zero => simp at hn
    | succ n =>
      have hn' : es.length ≤ n := by simpa using hn
      have hq : packedBody ['q'] [off] = ofIntBE 8 off := by simp only [packedBody, widthOf, fieldSpec, List.append_nil]
      have hd1 : data = pre ++ packedBody ['q'] [off] ++
          (Codec.bytes.enc ((Spec.message ext.crc).enc m) ++ encAll (Spec.entry ext.crc) es) := by
        rw [hd, hq]; simp only [encAll, entry_enc, List.append_assoc]
      have hd2 : data = (pre ++ packedBody ['q'] [off]) ++ Codec.bytes.enc ((Spec.message ext.crc).enc m) ++
          encAll (Spec.entry ext.crc) es := by
        rw [hd1]; simp only [List.append_assoc]
      have hlt : (pre.length : Int) < (data.length : Int) := by
        rw [hd1]
        simp only [List.length_append, hq, ofIntBE_length]
        omega
      have step := setLoop_step (ext := ext) (recSet := recSet) (n := n) (rm := rm) hlt
        (relativeUnpack_at ['q'] [off] (data := data) ⟨ok_q hev.1, trivial⟩ hd1)
        (ris_bytes_at (data := data) hd2 hev.2.2)
        (message_roundtrip ext recSet off m hev.2.1 he.2)
      rw [step]
      have hd3 : data = (pre ++ packedBody ['q'] [off] ++ Codec.bytes.enc ((Spec.message ext.crc).enc m)) ++
          encAll (Spec.entry ext.crc) es := hd2
      have r := ih (pre ++ packedBody ['q'] [off] ++ Codec.bytes.enc ((Spec.message ext.crc).enc m)) n true hn'
        (fun x hx => hv x (List.mem_cons_of_mem _ hx)) hd3
      rw [r]
      rfl

/-- **Message-set round trip**: a set of plain messages (either format, null / empty keys and
    values, any offsets and timestamps) encoded by the grammar decodes to exactly its entries, and
    the iteration then ends normally. -/
theorem msgset_roundtrip (ext : Ext) (depth : Nat) (entries : List (Int × Spec.Msg))
    (hv : (Spec.messageSet ext.crc).valid entries = true) (hplain : entries.all (fun e => e.2.attributes % 4 = 0) = true) :
    decodeMessageSet ext (depth + 1) ((Spec.messageSet ext.crc).enc entries) =
      (entries.map (fun e => ⟨e.1, toMessage e.2⟩), none) := by
  have hvalid := many_valid hv
  have hpl := List.all_eq_true.mp hplain
  have henc : (Spec.messageSet ext.crc).enc entries = encAll (Spec.entry ext.crc) entries := rfl
  rw [henc]
  generalize hdat : encAll (Spec.entry ext.crc) entries = data
  unfold decodeMessageSet
  have hlen : entries.length ≤ data.length + 1 := by
    have : entries.length ≤ (encAll (Spec.entry ext.crc) entries).length := by
      apply encAll_length_ge
      intro a _ hnil
      have := congrArg List.length hnil
      rw [entry_enc] at this
      simp [List.length_append, ofIntBE_length] at this
    rw [hdat] at this
    omega
  have := setLoop_entries ext (decodeMessageSet ext depth) data entries [] (data.length + 1) false hlen
    (fun e he => ⟨hvalid e he, by simpa using hpl e he⟩) (by rw [← hdat]; rfl)
  simpa using this

end Afkak.Wire
