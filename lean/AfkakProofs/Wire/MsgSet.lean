import AfkakProofs.Wire.RespProofs
/-!
# Message sets: decoding the grammar's encoding of plain (uncompressed) messages
-/
namespace Afkak.Wire
open Afkak Afkak.Bytes Afkak.Codec Afkak.Consts Afkak.Monitor.C05

set_option synthInstance.maxSize 100000

/-! ## one message, given what its primitive reads return -/

theorem decodeCodec_plain (ext : Ext) (recSet : Bytes → Gen) (att : Int) (value : Option Bytes) (plain : Gen)
    (wrap : Gen → Gen) (h : att.toNat &&& attributeCodecMask = codecNone.toNat) :
    decodeCodec ext recSet att value plain wrap = plain := by
  simp only [decodeCodec, h, if_true]

theorem decodeMessage_v0_steps {ext : Ext} {recSet : Bytes → Gen} {data : Bytes} {off crc att c1 c2 c3 : Int}
    {key value : Option Bytes}
    (h1 : relativeUnpack ['>', 'I', 'B', 'B'] data 0 = .ok ([crc, 0, att], c1))
    (hcrc : crc = ((ext.crc (pySlice data crcFrom data.length) &&& crcMask : Nat) : Int))
    (h2 : readIntString data c1 = .ok (key, c2)) (h3 : readIntString data c2 = .ok (value, c3))
    (hcodec : att.toNat &&& attributeCodecMask = codecNone.toNat) :
    decodeMessageWith ext recSet (some data) off =
      ([⟨off, { magic := 0, attributes := att, key := key, value := value }⟩], none) := by
  unfold decodeMessageWith
  simp only [fmt_decode_message_0]
  rw [h1]
  simp only
  rw [if_neg (by rw [hcrc]; simp)]
  simp only [if_true]
  rw [h2]; simp only; rw [h3]; simp only
  exact decodeCodec_plain ext recSet att value _ _ hcodec

theorem decodeMessage_v1_steps {ext : Ext} {recSet : Bytes → Gen} {data : Bytes} {off crc att ts c1 c2 c3 c4 : Int}
    {key value : Option Bytes}
    (h1 : relativeUnpack ['>', 'I', 'B', 'B'] data 0 = .ok ([crc, 1, att], c1))
    (hcrc : crc = ((ext.crc (pySlice data crcFrom data.length) &&& crcMask : Nat) : Int))
    (ht : relativeUnpack ['>', 'q'] data c1 = .ok ([ts], c2))
    (h2 : readIntString data c2 = .ok (key, c3)) (h3 : readIntString data c3 = .ok (value, c4))
    (hcodec : att.toNat &&& attributeCodecMask = codecNone.toNat) :
    decodeMessageWith ext recSet (some data) off =
      ([⟨off, { magic := 1, attributes := att, key := key, value := value, timestamp := some ts }⟩], none) := by
  unfold decodeMessageWith
  simp only [fmt_decode_message_0, fmt_decode_message_v1_0]
  rw [h1]
  simp only
  rw [if_neg (by rw [hcrc]; simp)]
  have h10 : ¬ ((1 : Int) = 0) := by decide
  simp only [h10, if_false, if_true]
  rw [ht]; simp only; rw [h2]; simp only; rw [h3]; simp only
  exact decodeCodec_plain ext recSet att value _ _ hcodec

end Afkak.Wire
