import AfkakProofs.Wire.RespProofs
/-!
# The model decoders give back what the grammar encoded (group join and the topic/partition generators)
-/
namespace Afkak.Wire
open Afkak Afkak.Bytes Afkak.Codec Afkak.Consts Afkak.Monitor.C05

set_option synthInstance.maxSize 100000

/-! ## JoinGroup -/

theorem joinGroup_roundtrip (v : Spec.JoinGroupResp) (e : JoinGroupResp) (he : expectedJoinGroup v = some e) :
    decodeJoinGroupResponse (Spec.joinGroupResponse.enc v) = .ok e := by
  obtain ⟨corr, err, gen, proto, leader, member, members⟩ := v
  simp only [expectedJoinGroup] at he
  split at he
  · rename_i hc
    cases he
    have hc := Bool.and_eq_true_iff.mp hc
    have h1 := seq_valid' hc.1
    have h2 := seq_valid' h1.2
    have h3 := seq_valid' h2.2
    have h4 := seq_valid' h3.2
    have h5 := seq_valid' h4.2
    have h6 := seq_valid' h5.2
    have ha := array_valid h6.2
    have htext : ∀ s ∈ [proto, leader, member] ++ members.map (·.1), validUtf8 s = true := List.all_eq_true.mp hc.2
    have tp : validUtf8 proto = true := htext proto (by simp)
    have tl : validUtf8 leader = true := htext leader (by simp)
    have tm : validUtf8 member = true := htext member (by simp)
    have tms : ∀ x ∈ members, validUtf8 x.1 = true := fun x hx =>
      htext x.1 (List.mem_append_right _ (List.mem_map.mpr ⟨x, hx, rfl⟩))
    have henc : Spec.joinGroupResponse.enc (corr, err, gen, proto, leader, member, members) =
        ofIntBE 4 corr ++ (ofIntBE 2 err ++ (ofIntBE 4 gen ++ (Codec.string.enc proto ++ (Codec.string.enc leader ++
          (Codec.string.enc member ++ (ofIntBE 4 (members.length : Int) ++ encAll (Codec.string ⊗ Codec.bytes) members)))))) := rfl
    generalize hdat : Spec.joinGroupResponse.enc (corr, err, gen, proto, leader, member, members) = data at henc ⊢
    have hl := repeatR_at (Codec.string ⊗ Codec.bytes)
      (fun a => (Codec.string ⊗ Codec.bytes).valid a = true ∧ validUtf8 a.1 = true)
      (fun (x : Bytes × Bytes) => (x.1, some x.2)) (data := data) (joinGroupMember data)
      (by
        intro pre rest a hav hd
        obtain ⟨m, md⟩ := a
        have q := seq_valid' hav.1
        have e : pre ++ (Codec.string ⊗ Codec.bytes).enc (m, md) = pre ++ Codec.string.enc m ++ Codec.bytes.enc md := by
          simp only [seq_enc, List.append_assoc]
        rw [e]
        exact joinGroupMember_steps
          (rst_at (data := data) (pre := pre) (rest := Codec.bytes.enc md ++ rest) (b := m)
            (by rw [hd]; simp only [seq_enc, List.append_assoc]) q.1 hav.2)
          (ris_bytes_at (data := data) (pre := pre ++ Codec.string.enc m) (rest := rest) (b := md)
            (by rw [hd]; simp only [seq_enc, List.append_assoc]) q.2))
      (l := members)
      (pre := ofIntBE 4 corr ++ (ofIntBE 2 err ++ ofIntBE 4 gen) ++ Codec.string.enc proto ++ Codec.string.enc leader ++
        Codec.string.enc member ++ ofIntBE 4 (members.length : Int)) (rest := [])
      (by intro a ha'; exact ⟨ha.2 a ha', tms a ha'⟩)
      (by rw [henc]; simp only [List.append_assoc, List.append_nil])
    exact joinGroup_steps
      (ru3_ihi_at0 (rest := Codec.string.enc proto ++ (Codec.string.enc leader ++ (Codec.string.enc member ++
          (ofIntBE 4 (members.length : Int) ++ encAll (Codec.string ⊗ Codec.bytes) members))))
        (by rw [henc]; simp only [List.append_assoc]) (v32 h1.1) (v16 h2.1) (v32 h3.1))
      (rst_at (pre := ofIntBE 4 corr ++ (ofIntBE 2 err ++ ofIntBE 4 gen)) (b := proto)
        (rest := Codec.string.enc leader ++ (Codec.string.enc member ++
          (ofIntBE 4 (members.length : Int) ++ encAll (Codec.string ⊗ Codec.bytes) members)))
        (by rw [henc]; simp only [List.append_assoc]) h4.1 tp)
      (rst_at (pre := ofIntBE 4 corr ++ (ofIntBE 2 err ++ ofIntBE 4 gen) ++ Codec.string.enc proto) (b := leader)
        (rest := Codec.string.enc member ++ (ofIntBE 4 (members.length : Int) ++ encAll (Codec.string ⊗ Codec.bytes) members))
        (by rw [henc]; simp only [List.append_assoc]) h5.1 tl)
      (rst_at (pre := ofIntBE 4 corr ++ (ofIntBE 2 err ++ ofIntBE 4 gen) ++ Codec.string.enc proto ++ Codec.string.enc leader)
        (b := member) (rest := ofIntBE 4 (members.length : Int) ++ encAll (Codec.string ⊗ Codec.bytes) members)
        (by rw [henc]; simp only [List.append_assoc]) h6.1 tm)
      (ru1_i_at (pre := ofIntBE 4 corr ++ (ofIntBE 2 err ++ ofIntBE 4 gen) ++ Codec.string.enc proto ++ Codec.string.enc leader ++
          Codec.string.enc member) (v := (members.length : Int)) (rest := encAll (Codec.string ⊗ Codec.bytes) members)
        (by rw [henc]; simp only [List.append_assoc]) ha.1)
      (by rw [Int.toNat_natCast]; exact hl)
  · cases he

end Afkak.Wire
