import AfkakProofs.Wire.MsgSet
/-!
# Message sets with compressed wrappers (one level): what the protocol says they contain is what the
decoder yields — inner offsets as stored for a format-0 wrapper, `wrapper − last + inner` for format 1
-/
namespace Afkak.Wire
open Afkak Afkak.Bytes Afkak.Codec Afkak.Consts Afkak.Monitor.C05

set_option synthInstance.maxSize 100000

/-- an entry of a message set: a plain message, or a gzip wrapper around a set of plain messages -/
inductive Entry
  | plain (off : Int) (m : Spec.Msg)
  | wrapper (off : Int) (w : Spec.Msg) (inner : List (Int × Spec.Msg))

/-- the entry as it goes on the wire: a wrapper's value is the compressed inner set -/
def Entry.toSpec (crc : Bytes → Nat) (gzip : Bytes → Bytes) : Entry → Int × Spec.Msg
  | .plain off m => (off, m)
  | .wrapper off w inner => (off, { w with value := some (gzip ((Spec.messageSet crc).enc inner)) })

/-- the messages an entry stands for, with the offsets the protocol defines -/
def Entry.contents : Entry → List (Int × Spec.Msg)
  | .plain off m => [(off, m)]
  | .wrapper off w inner =>
    if w.magic = 1 then
      match inner.getLast? with
      | none => []
      | some last => inner.map (fun e => (off - last.1 + e.1, e.2))
    else inner

/-- what the theorem asks of an entry (besides being encodable) -/
def Entry.Ok (crc : Bytes → Nat) : Entry → Prop
  | .plain _ m => m.attributes % 8 = 0
  | .wrapper _ w inner =>
    w.attributes % 8 = 1 ∧ (Spec.messageSet crc).valid inner = true ∧ ∀ x ∈ inner, x.2.attributes % 8 = 0

/-! ## the grammar side (`Monitor.C05.expand`) -/

theorem expandWith_plain (f : Int → Spec.Msg → Option (List (Int × Spec.Msg))) (l : List (Int × Spec.Msg))
    (h : ∀ x ∈ l, x.2.attributes % 8 = 0) : expandWith f l = some l := by
  induction l with
  | nil => rfl
  | cons x xs ih =>
    obtain ⟨off, m⟩ := x
    have hx := h (off, m) List.mem_cons_self
    simp only [expandWith, ih (fun y hy => h y (List.mem_cons_of_mem _ hy)), hx, if_true]

theorem expand_plain (crc : Bytes → Nat) (g : Bytes → Option Bytes) (d : Nat) (l : List (Int × Spec.Msg))
    (h : ∀ x ∈ l, x.2.attributes % 8 = 0) : expand crc g d l = some l := by
  cases d <;> exact expandWith_plain _ l h

theorem openWrapper_entry (ext : Ext) (gzip : Bytes → Bytes) (hg : ∀ x, ext.gunzip (some (gzip x)) = .ok x) (d : Nat)
    (off : Int) (w : Spec.Msg) (inner : List (Int × Spec.Msg))
    (hiv : (Spec.messageSet ext.crc).valid inner = true) (hip : ∀ x ∈ inner, x.2.attributes % 8 = 0) :
    openWrapper ext.crc (fun b => (ext.gunzip (some b)).toOption)
      (expand ext.crc (fun b => (ext.gunzip (some b)).toOption) d) off
      { w with value := some (gzip ((Spec.messageSet ext.crc).enc inner)) } =
      some (Entry.contents (.wrapper off w inner)) := by
  have hopt : (ext.gunzip (some (gzip ((Spec.messageSet ext.crc).enc inner)))).toOption =
      some ((Spec.messageSet ext.crc).enc inner) := by rw [hg]; rfl
  unfold openWrapper
  simp only [hopt, (Spec.messageSet ext.crc).law inner hiv, expand_plain ext.crc _ d inner hip, Entry.contents]
  by_cases hm : w.magic = 1
  · simp only [hm, if_true]
    cases inner.getLast? <;> rfl
  · simp only [hm, if_false]

theorem expand_entries (ext : Ext) (gzip : Bytes → Bytes) (hg : ∀ x, ext.gunzip (some (gzip x)) = .ok x) (d : Nat) :
    ∀ (es : List Entry), (∀ e ∈ es, e.Ok ext.crc) →
      expand ext.crc (fun b => (ext.gunzip (some b)).toOption) (d + 1) (es.map (Entry.toSpec ext.crc gzip)) =
        some (es.flatMap Entry.contents) := by
  intro es
  induction es with
  | nil => intro _; rfl
  | cons e es ih =>
    intro hok
    have ih' := ih (fun x hx => hok x (List.mem_cons_of_mem _ hx))
    have he := hok e List.mem_cons_self
    unfold expand at ih' ⊢
    cases e with
    | plain off m =>
      simp only [Entry.Ok] at he
      simp only [List.map_cons, Entry.toSpec, expandWith, ih', he, if_true, List.flatMap_cons, Entry.contents,
        List.singleton_append]
    | wrapper off w inner =>
      simp only [Entry.Ok] at he
      obtain ⟨hw, hiv, hip⟩ := he
      have h10 : ¬ ((1 : Nat) = 0) := by decide
      simp only [List.map_cons, Entry.toSpec, expandWith, ih', hw, h10, if_false, if_true,
        openWrapper_entry ext gzip hg d off w inner hiv hip, Option.map_some, List.flatMap_cons]

/-! ## the decoder side -/

theorem setLoop_step' {ext : Ext} {recSet : Bytes → Gen} {data : Bytes} {n : Nat} {cur c1 c2 off : Int}
    {msg : Option Bytes} {ys : List OffsetAndMessage} {rm : Bool}
    (hlt : cur < (data.length : Int))
    (h1 : relativeUnpack ['>', 'q'] data cur = .ok ([off], c1))
    (h2 : readIntString data c1 = .ok (msg, c2))
    (h3 : decodeMessageWith ext recSet msg off = (ys, none)) :
    setLoopWith ext recSet data (n + 1) cur rm =
      (ys ++ (setLoopWith ext recSet data n c2 (rm || !ys.isEmpty)).1,
        (setLoopWith ext recSet data n c2 (rm || !ys.isEmpty)).2) := by
  conv => lhs; unfold setLoopWith
  have hn : ¬ ¬ (cur < (data.length : Int)) := by omega
  rw [if_neg hn]
  simp only [fmt_decode_message_set_iter_0]
  rw [h1]; simp only; rw [h2]; simp only; rw [h3]

def toOM (e : Int × Spec.Msg) : OffsetAndMessage := ⟨e.1, toMessage e.2⟩

theorem v1Inner_map (off : Int) (inner : List (Int × Spec.Msg)) :
    v1Inner off (inner.map toOM, none) =
      ((match inner.getLast? with
        | none => []
        | some last => inner.map (fun (e : Int × Spec.Msg) => (off - last.1 + e.1, e.2))).map toOM, none) := by
  unfold v1Inner
  simp only [List.getLast?_map]
  cases inner.getLast? with
  | none => rfl
  | some last =>
    simp only [Option.map_some, List.map_map, Function.comp_def]
    rfl

theorem mod8_to_mod4 {a : Nat} {r : Nat} (h : a % 8 = r) (hr : r < 4) : a % 4 = r := by omega

/-- one entry, decoded by `_decode_message` with the set decoder of one level less for its contents -/
theorem entry_decode (ext : Ext) (gzip : Bytes → Bytes) (hg : ∀ x, ext.gunzip (some (gzip x)) = .ok x) (depth : Nat)
    (e : Entry) (hok : e.Ok ext.crc) (hv : (Spec.message ext.crc).valid (e.toSpec ext.crc gzip).2 = true) :
    decodeMessageWith ext (decodeMessageSet ext (depth + 1))
      (some ((Spec.message ext.crc).enc (e.toSpec ext.crc gzip).2)) (e.toSpec ext.crc gzip).1 =
      (e.contents.map toOM, none) := by
  cases e with
  | plain off m =>
    simp only [Entry.Ok] at hok
    simp only [Entry.toSpec] at hv ⊢
    rw [message_roundtrip ext _ off m hv (mod8_to_mod4 hok (by decide))]
    rfl
  | wrapper off w inner =>
    simp only [Entry.Ok] at hok
    obtain ⟨hw, hiv, hip⟩ := hok
    simp only [Entry.toSpec] at hv ⊢
    rw [message_decode ext _ off _ hv]
    simp only
    have h4 := mod8_to_mod4 hw (by decide)
    have hcodec : ((w.attributes : Int)).toNat &&& attributeCodecMask = codecGzip.toNat := by
      have h3 : attributeCodecMask = 2 ^ 2 - 1 := by decide
      have h5 : codecGzip.toNat = 1 := by decide
      rw [Int.toNat_natCast, h3, Nat.and_two_pow_sub_one_eq_mod, h5]
      simpa using h4
    have hne : ¬ (codecGzip.toNat = codecNone.toNat) := by decide
    simp only [decodeCodec, hcodec, hne, if_false, if_true, hg]
    have hin := msgset_roundtrip ext depth inner hiv
      (List.all_eq_true.mpr (fun x hx => by simpa using mod8_to_mod4 (hip x hx) (by decide)))
    rw [hin]
    by_cases hm : w.magic = 1
    · simp only [hm, if_true, Entry.contents]
      exact v1Inner_map off inner
    · simp only [hm, if_false, Entry.contents, id]
      rfl

/-- the loop over entries that are plain messages or one-level gzip wrappers -/
theorem setLoop_entries' (ext : Ext) (gzip : Bytes → Bytes) (hg : ∀ x, ext.gunzip (some (gzip x)) = .ok x) (depth : Nat)
    (data : Bytes) :
    ∀ (es : List Entry) (pre : Bytes) (n : Nat) (rm : Bool), es.length ≤ n →
      (∀ e ∈ es, e.Ok ext.crc ∧ (Spec.entry ext.crc).valid (e.toSpec ext.crc gzip) = true) →
      data = pre ++ encAll (Spec.entry ext.crc) (es.map (Entry.toSpec ext.crc gzip)) →
      setLoopWith ext (decodeMessageSet ext (depth + 1)) data n pre.length rm =
        ((es.flatMap Entry.contents).map toOM, none) := by
  intro es
  induction es with
  | nil =>
    intro pre n rm _ _ hd
    have : data = pre := by rw [hd]; simp [encAll]
    rw [← this]
    exact setLoop_end ext _ data n rm
  | cons e es ih =>
    intro pre n rm hn hv hd
    have he := hv e List.mem_cons_self
    have hev := entry_valid he.2
    cases n with
    | zero => simp at hn
    | succ n =>
      have hn' : es.length ≤ n := by simpa using hn
      generalize hsp : e.toSpec ext.crc gzip = sp at he hev hd
      obtain ⟨off, m⟩ := sp
      have hq : packedBody ['q'] [off] = ofIntBE 8 off := by simp only [packedBody, widthOf, fieldSpec, List.append_nil]
      have hd1 : data = pre ++ packedBody ['q'] [off] ++
          (Codec.bytes.enc ((Spec.message ext.crc).enc m) ++ encAll (Spec.entry ext.crc) (es.map (Entry.toSpec ext.crc gzip))) := by
        rw [hd, hq]; simp only [List.map_cons, hsp, encAll, entry_enc, List.append_assoc]
      have hd2 : data = (pre ++ packedBody ['q'] [off]) ++ Codec.bytes.enc ((Spec.message ext.crc).enc m) ++
          encAll (Spec.entry ext.crc) (es.map (Entry.toSpec ext.crc gzip)) := by
        rw [hd1]; simp only [List.append_assoc]
      have hlt : (pre.length : Int) < (data.length : Int) := by
        rw [hd1]
        simp only [List.length_append, hq, ofIntBE_length]
        omega
      have hdec := entry_decode ext gzip hg depth e he.1 (by rw [hsp]; exact hev.2.1)
      rw [hsp] at hdec
      have step := setLoop_step' (ext := ext) (recSet := decodeMessageSet ext (depth + 1)) (n := n) (rm := rm) hlt
        (relativeUnpack_at ['q'] [off] (data := data) ⟨ok_q hev.1, trivial⟩ hd1)
        (ris_bytes_at (data := data) hd2 hev.2.2) hdec
      rw [step]
      have r := ih (pre ++ packedBody ['q'] [off] ++ Codec.bytes.enc ((Spec.message ext.crc).enc m)) n
        (rm || !(e.contents.map toOM).isEmpty) hn' (fun x hx => hv x (List.mem_cons_of_mem _ hx)) hd2
      rw [r]
      simp only [List.flatMap_cons, List.map_append]

/-- **Compressed wrappers** (gzip, one level, both formats, mixed with plain messages, any inner
    offsets, under `gunzip (gzip x) = x`): the decoder yields exactly the messages the protocol says the
    set contains — inner offsets as stored for a format-0 wrapper, `wrapper − last inner + inner` for a
    format-1 wrapper — and then ends normally. -/
theorem gzip_roundtrip (ext : Ext) (gzip : Bytes → Bytes) (hg : ∀ x, ext.gunzip (some (gzip x)) = .ok x) (depth : Nat)
    (es : List Entry) (hok : ∀ e ∈ es, e.Ok ext.crc)
    (hv : (Spec.messageSet ext.crc).valid (es.map (Entry.toSpec ext.crc gzip)) = true) :
    decodeMessageSet ext (depth + 2) ((Spec.messageSet ext.crc).enc (es.map (Entry.toSpec ext.crc gzip))) =
      ((es.flatMap Entry.contents).map toOM, none)
    ∧ expectedSet ext.crc (fun b => (ext.gunzip (some b)).toOption) (depth + 1) (es.map (Entry.toSpec ext.crc gzip)) =
      some ((es.flatMap Entry.contents).map toOM, none) := by
  have hvalid := many_valid hv
  constructor
  · have henc : (Spec.messageSet ext.crc).enc (es.map (Entry.toSpec ext.crc gzip)) =
        encAll (Spec.entry ext.crc) (es.map (Entry.toSpec ext.crc gzip)) := rfl
    rw [henc]
    generalize hdat : encAll (Spec.entry ext.crc) (es.map (Entry.toSpec ext.crc gzip)) = data
    unfold decodeMessageSet
    have hlen : es.length ≤ data.length + 1 := by
      have : (es.map (Entry.toSpec ext.crc gzip)).length ≤
          (encAll (Spec.entry ext.crc) (es.map (Entry.toSpec ext.crc gzip))).length := by
        apply encAll_length_ge
        intro a _ hnil
        have := congrArg List.length hnil
        rw [entry_enc] at this
        simp [List.length_append, ofIntBE_length] at this
      rw [hdat, List.length_map] at this
      omega
    have := setLoop_entries' ext gzip hg depth data es [] (data.length + 1) false hlen
      (fun e he => ⟨hok e he, hvalid _ (List.mem_map.mpr ⟨e, he, rfl⟩)⟩) (by rw [← hdat]; rfl)
    simpa using this
  · unfold expectedSet
    rw [if_pos hv, expand_entries ext gzip hg depth es hok]
    rfl

end Afkak.Wire
