import AfkakProofs.Wire.GenEq
import Afkak.Wire.Requests
import Afkak.Wire.Responses
/-!
# The terms generated from the source of `afkak/kafkacodec.py` equal the hand-written models

Continuation of `GenEq.lean` for `KafkaCodec._encode_message_header`, the straight-line request
encoders (ApiVersions, FindCoordinator, LeaveGroup, Heartbeat, SyncGroup, JoinGroup, the JoinGroup
protocol metadata) and response decoders (correlation id, LeaveGroup, Heartbeat, SyncGroup).  The
payload records are the tuples of their fields.  `foldlM_concat` turns the generated accumulator loop
(`for x in xs: message += ..`) into the model's `concatMapM`.
-/
namespace Afkak.Wire
open Afkak Afkak.Bytes Afkak.Consts

/-- case split on a fallible call that occurs on both sides; the `error` case closes by `rfl` -/
macro "xc " t:term : tactic => `(tactic| (cases $t:term <;> try rfl))

theorem gen_encodeHeader (cid : Bytes) (corr key ver : Int) :
    genEncodeMessageHeader cid corr key ver = encodeHeader cid corr key ver := by
  simp only [genEncodeMessageHeader, encodeHeader, fmt_encode_message_header_0]
  xc pack ['>', 'h', 'h', 'i', 'h'] [key, ver, corr, (cid.length : Int)]

theorem gen_encodeApiVersions (cid : Bytes) (corr key ver : Int) :
    genEncodeApiVersionsRequest cid corr (key, ver) = encodeApiVersionsRequest cid corr key ver := by
  simp only [genEncodeApiVersionsRequest, encodeApiVersionsRequest, gen_encodeHeader]

theorem gen_encodeConsumerMetadata (cid : Bytes) (corr : Int) (g : Option Bytes) :
    genEncodeConsumermetadataRequest cid corr g = encodeConsumerMetadataRequest cid corr g := by
  simp only [genEncodeConsumermetadataRequest, encodeConsumerMetadataRequest, gen_encodeHeader, gen_writeShortText,
    hdrKey_encode_consumermetadata_request, hdrVer_encode_consumermetadata_request]
  xc encodeHeader cid corr 10 0
  xc writeShortText g

theorem gen_encodeLeaveGroup (cid : Bytes) (corr : Int) (g m : Option Bytes) :
    genEncodeLeaveGroupRequest cid corr (g, m) = encodeLeaveGroupRequest cid corr g m := by
  simp only [genEncodeLeaveGroupRequest, encodeLeaveGroupRequest, gen_encodeHeader, gen_writeShortText,
    hdrKey_encode_leave_group_request, hdrVer_encode_leave_group_request]
  xc encodeHeader cid corr 13 0
  xc writeShortText g
  xc writeShortText m

theorem gen_encodeHeartbeat (cid : Bytes) (corr : Int) (g : Option Bytes) (gen : Int) (m : Option Bytes) :
    genEncodeHeartbeatRequest cid corr (g, gen, m) = encodeHeartbeatRequest cid corr g gen m := by
  simp only [genEncodeHeartbeatRequest, encodeHeartbeatRequest, gen_encodeHeader, gen_writeShortText,
    hdrKey_encode_heartbeat_request, hdrVer_encode_heartbeat_request, fmt_encode_heartbeat_request_0]
  xc encodeHeader cid corr 12 0
  xc writeShortText g
  xc pack ['>', 'i'] [gen]
  xc writeShortText m

/-- `for x in xs: message += f(x)` (as the generated `foldlM` over the accumulator) is the model's
    `concatMapM`, for any loop body that appends `f x` to the accumulator. -/
theorem foldlM_concat {α : Type} (body : Bytes → α → R Bytes) (f : α → R Bytes)
    (h : ∀ msg a, body msg a = (match f a with | .error e => .error e | .ok x => .ok (msg ++ x)))
    (l : List α) : ∀ msg0 : Bytes, List.foldlM body msg0 l =
      (match concatMapM f l with | .error e => .error e | .ok y => .ok (msg0 ++ y)) := by
  induction l with
  | nil => intro msg0; simp [concatMapM, pure, Except.pure]
  | cons a as ih =>
    intro msg0
    rw [List.foldlM_cons, h]
    simp only [concatMapM]
    cases f a with
    | error e => rfl
    | ok x =>
      simp only [ok_bind, ih]
      cases concatMapM f as with
      | error e => rfl
      | ok y => simp [List.append_assoc]

theorem gen_encodeSyncGroup (cid : Bytes) (corr : Int) (g : Option Bytes) (gen : Int) (m : Option Bytes)
    (ga : List (Option Bytes × Option Bytes)) :
    genEncodeSyncGroupRequest cid corr (g, gen, m, ga) = encodeSyncGroupRequest cid corr g gen m ga := by
  simp only [genEncodeSyncGroupRequest, encodeSyncGroupRequest, gen_encodeHeader, gen_writeShortText, gen_writeIntString,
    hdrKey_encode_sync_group_request, hdrVer_encode_sync_group_request, fmt_encode_sync_group_request_0,
    fmt_encode_sync_group_request_1]
  xc encodeHeader cid corr 14 0
  xc writeShortText g
  xc pack ['>', 'i'] [gen]
  xc writeShortText m
  xc pack ['>', 'i'] [(ga.length : Int)]
  simp only [ok_bind]
  rw [foldlM_concat _ (fun (a : Option Bytes × Option Bytes) =>
      match writeShortText a.1 with
      | .error e => .error e
      | .ok mid => match writeIntString a.2 with
        | .error e => .error e
        | .ok md => .ok (mid ++ md))]
  · generalize concatMapM _ ga = r
    cases r <;> rfl
  · intro msg a
    xc writeShortText a.1
    xc writeIntString a.2
    simp only [ok_bind, pure, Except.pure, List.append_assoc]

theorem gen_encodeJoinGroup (cid : Bytes) (corr : Int) (p : JoinGroupReq) :
    genEncodeJoinGroupRequest cid corr (p.group, p.sessionTimeout, p.memberId, p.protocolType, p.groupProtocols)
      = encodeJoinGroupRequest cid corr p := by
  simp only [genEncodeJoinGroupRequest, encodeJoinGroupRequest, gen_encodeHeader, gen_writeShortText, gen_writeIntString,
    gen_writeShortAscii,
    hdrKey_encode_join_group_request, hdrVer_encode_join_group_request, fmt_encode_join_group_request_0,
    fmt_encode_join_group_request_1]
  xc encodeHeader cid corr 11 0
  xc writeShortText p.group
  xc pack ['>', 'i'] [p.sessionTimeout]
  xc writeShortText p.memberId
  xc writeShortText p.protocolType
  xc pack ['>', 'i'] [(p.groupProtocols.length : Int)]
  simp only [ok_bind]
  rw [foldlM_concat _ (fun (gp : Option Bytes × Option Bytes) =>
      match writeShortAscii gp.1 with
      | .error e => .error e
      | .ok nm => match writeIntString gp.2 with
        | .error e => .error e
        | .ok md => .ok (nm ++ md))]
  · generalize concatMapM _ p.groupProtocols = r
    cases r <;> rfl
  · intro msg a
    xc writeShortAscii a.1
    xc writeIntString a.2
    simp only [ok_bind, pure, Except.pure, List.append_assoc]

theorem gen_encodeJoinGroupProtocolMetadata (version : Int) (subs : List (Option Bytes)) (ud : Option Bytes) :
    genEncodeJoinGroupProtocolMetadata version subs ud = encodeJoinGroupProtocolMetadata version subs ud := by
  simp only [genEncodeJoinGroupProtocolMetadata, encodeJoinGroupProtocolMetadata, gen_writeShortText, gen_writeIntString,
    fmt_encode_join_group_protocol_metadata_0]
  xc pack ['>', 'h', 'i'] [version, (subs.length : Int)]
  simp only [ok_bind]
  rw [foldlM_concat _ writeShortText]
  · generalize concatMapM _ subs = r
    cases r with
    | error e => rfl
    | ok ss =>
      simp only [ok_bind]
      xc writeIntString ud
  · intro msg a
    xc writeShortText a

theorem gen_getResponseCorrelationId (data : Bytes) :
    genGetResponseCorrelationId data = getResponseCorrelationId data := by
  simp only [genGetResponseCorrelationId, getResponseCorrelationId, ru1, gen_relativeUnpack,
    fmt_get_response_correlation_id_0]
  cases relativeUnpack ['>', 'i'] data 0 with
  | error e => rfl
  | ok r =>
    obtain ⟨vs, c⟩ := r
    match vs with
    | [] => rfl
    | [a] => rfl
    | _ :: _ :: _ => rfl

theorem gen_decodeErrorOnly (data : Bytes) :
    genDecodeLeaveGroupResponse data = decodeLeaveGroupResponse data
    ∧ genDecodeHeartbeatResponse data = decodeHeartbeatResponse data := by
  simp only [genDecodeLeaveGroupResponse, genDecodeHeartbeatResponse, decodeLeaveGroupResponse, decodeHeartbeatResponse,
    decodeErrorOnlyResponse, ru2, gen_relativeUnpack, fmt_decode_leave_group_response_0, fmt_decode_heartbeat_response_0]
  cases relativeUnpack ['>', 'i', 'h'] data 0 with
  | error e => exact ⟨rfl, rfl⟩
  | ok r =>
    obtain ⟨vs, c⟩ := r
    match vs with
    | [] => exact ⟨rfl, rfl⟩
    | [a] => exact ⟨rfl, rfl⟩
    | [a, b] => exact ⟨rfl, rfl⟩
    | _ :: _ :: _ :: _ => exact ⟨rfl, rfl⟩

theorem gen_decodeSyncGroupResponse (data : Bytes) :
    genDecodeSyncGroupResponse data = decodeSyncGroupResponse data := by
  simp only [genDecodeSyncGroupResponse, decodeSyncGroupResponse, ru2, gen_relativeUnpack, gen_readIntString,
    fmt_decode_sync_group_response_0]
  cases relativeUnpack ['>', 'i', 'h'] data 0 with
  | error e => rfl
  | ok r =>
    obtain ⟨vs, c⟩ := r
    match vs with
    | [] => rfl
    | [a] => rfl
    | [a, b] =>
      simp only [ok_bind]
      cases readIntString data c with
      | error e => rfl
      | ok r2 => obtain ⟨ma, c2⟩ := r2; rfl
    | _ :: _ :: _ :: _ => rfl

end Afkak.Wire
