import AfkakProofs.Wire.GenEqCodec
/-!
# Generated decoders with a `for _i in range(n)` loop equal the hand-written models

`decode_api_versions_response`, `decode_join_group_protocol_metadata`, `decode_join_group_response`:
the generated term threads `(cur, list)` through `List.foldlM` over `List.range n.toNat`;
`foldlM_repeat` shows that is the model's `repeatR`.  The generated result is the tuple of the
constructor's arguments; the model's result is the corresponding structure.
-/
namespace Afkak.Wire
open Afkak Afkak.Bytes Afkak.Consts

/-- `for _i in range(n): (x, cur) = entry(cur); acc.append(x)` (the generated `foldlM` over the pair
    `(cur, acc)`) is the model's `repeatR`. -/
theorem foldlM_repeat {β ι : Type} (body : Int × List β → ι → R (Int × List β)) (entry : Int → R (β × Int))
    (h : ∀ cur acc i, body (cur, acc) i =
      (match entry cur with | .error e => .error e | .ok (a, cur') => .ok (cur', acc ++ [a])))
    (l : List ι) : ∀ (cur : Int) (acc : List β), List.foldlM body (cur, acc) l =
      (match repeatR entry l.length cur with | .error e => .error e | .ok (as, cur') => .ok (cur', acc ++ as)) := by
  induction l with
  | nil => intro cur acc; simp [repeatR, pure, Except.pure]
  | cons i is ih =>
    intro cur acc
    rw [List.foldlM_cons, h]
    simp only [List.length_cons, repeatR]
    cases entry cur with
    | error e => rfl
    | ok r =>
      obtain ⟨a, cur'⟩ := r
      simp only [ok_bind, ih]
      cases repeatR entry is.length cur' with
      | error e => rfl
      | ok r2 => obtain ⟨as, c2⟩ := r2; simp [List.append_assoc]

theorem gen_decodeJoinGroupProtocolMetadata (data : Bytes) :
    (genDecodeJoinGroupProtocolMetadata data).map (fun r => (⟨r.1, r.2.1, r.2.2⟩ : JoinGroupProtocolMetadata))
      = decodeJoinGroupProtocolMetadata data := by
  simp only [genDecodeJoinGroupProtocolMetadata, decodeJoinGroupProtocolMetadata, ru2, gen_relativeUnpack,
    gen_readIntString, gen_readShortText, fmt_decode_join_group_protocol_metadata_0]
  cases relativeUnpack ['>', 'h', 'i'] data 0 with
  | error e => rfl
  | ok r =>
    obtain ⟨vs, c⟩ := r
    match vs with
    | [] => rfl
    | [a] => rfl
    | [version, n] =>
      simp only [ok_bind]
      rw [foldlM_repeat _ (readShortText data)]
      · simp only [List.length_range]
        cases repeatR (readShortText data) n.toNat c with
        | error e => rfl
        | ok r2 =>
          obtain ⟨subs, c2⟩ := r2
          simp only [ok_bind, List.nil_append]
          cases readIntString data c2 with
          | error e => rfl
          | ok r3 => obtain ⟨ud, c3⟩ := r3; rfl
      · intro cur acc i
        cases readShortText data cur with
        | error e => rfl
        | ok r2 => obtain ⟨s, c2⟩ := r2; rfl
    | _ :: _ :: _ :: _ => rfl

theorem repeatR_map {β γ : Type} (conv : β → γ) (e1 : Int → R (β × Int)) (e2 : Int → R (γ × Int))
    (h : ∀ cur, e2 cur = (match e1 cur with | .error e => .error e | .ok (a, c) => .ok (conv a, c))) :
    ∀ (n : Nat) (cur : Int), repeatR e2 n cur =
      (match repeatR e1 n cur with | .error e => .error e | .ok (as, c) => .ok (as.map conv, c)) := by
  intro n
  induction n with
  | zero => intro cur; rfl
  | succ n ih =>
    intro cur
    simp only [repeatR, h]
    cases e1 cur with
    | error e => rfl
    | ok r =>
      obtain ⟨a, c⟩ := r
      simp only [ih]
      cases repeatR e1 n c with
      | error e => rfl
      | ok r2 => obtain ⟨as, c2⟩ := r2; rfl

/-- the tuple an `ApiVersion(api_key, min_version, max_version)` call builds -/
def apiVersionOfTuple (v : Int × Int × Int) : ApiVersion := ⟨v.1, v.2.1, v.2.2⟩

/-- one iteration of the loop, on tuples (what the generated body does) -/
def apiVersionEntryT (data : Bytes) (cur : Int) : R ((Int × Int × Int) × Int) :=
  match ru3 ['>', 'h', 'h', 'h'] data cur with
  | .error e => .error e
  | .ok (k, lo, hi, cur) => .ok ((k, lo, hi), cur)

theorem gen_decodeApiVersionsResponse (data : Bytes) :
    (genDecodeApiVersionsResponse data).map (fun r => (r.1, r.2.map apiVersionOfTuple))
      = decodeApiVersionsResponse data := by
  simp only [genDecodeApiVersionsResponse, decodeApiVersionsResponse, ru3, gen_relativeUnpack,
    fmt_decode_api_versions_response_0]
  cases relativeUnpack ['>', 'i', 'h', 'i'] data 0 with
  | error e => rfl
  | ok r =>
    obtain ⟨vs, c⟩ := r
    match vs with
    | [] => rfl
    | [a] => rfl
    | [a, b] => rfl
    | [corr, err, n] =>
      simp only [ok_bind]
      rw [foldlM_repeat _ (apiVersionEntryT data)]
      · simp only [List.length_range]
        rw [repeatR_map apiVersionOfTuple (apiVersionEntryT data) (apiVersionEntry data)]
        · cases repeatR (apiVersionEntryT data) n.toNat c with
          | error e => rfl
          | ok r2 => obtain ⟨as, c2⟩ := r2; rfl
        · intro cur
          simp only [apiVersionEntry, apiVersionEntryT, fmt_decode_api_versions_response_1]
          cases ru3 ['>', 'h', 'h', 'h'] data cur with
          | error e => rfl
          | ok r2 => obtain ⟨k, lo, hi, c2⟩ := r2; rfl
      · intro cur acc i
        simp only [apiVersionEntryT, ru3]
        cases relativeUnpack ['>', 'h', 'h', 'h'] data cur with
        | error e => rfl
        | ok r2 =>
          obtain ⟨ws, c2⟩ := r2
          match ws with
          | [] => rfl
          | [a] => rfl
          | [a, b] => rfl
          | [a, b, c'] => rfl
          | _ :: _ :: _ :: _ :: _ => rfl
    | _ :: _ :: _ :: _ :: _ => rfl

theorem gen_decodeJoinGroupResponse (data : Bytes) :
    (genDecodeJoinGroupResponse data).map
        (fun r => (⟨r.1, r.2.1, r.2.2.1, r.2.2.2.1, r.2.2.2.2.1, r.2.2.2.2.2⟩ : JoinGroupResp))
      = decodeJoinGroupResponse data := by
  simp only [genDecodeJoinGroupResponse, decodeJoinGroupResponse, ru3, ru1, gen_relativeUnpack,
    gen_readIntString, gen_readShortText, fmt_decode_join_group_response_0, fmt_decode_join_group_response_1]
  cases relativeUnpack ['>', 'i', 'h', 'i'] data 0 with
  | error e => rfl
  | ok r =>
    obtain ⟨vs, c⟩ := r
    match vs with
    | [] => rfl
    | [a] => rfl
    | [a, b] => rfl
    | [corr, err, gen] =>
      simp only [ok_bind]
      cases readShortText data c with
      | error e => rfl
      | ok r1 =>
        obtain ⟨gp, c1⟩ := r1
        simp only [ok_bind]
        cases readShortText data c1 with
        | error e => rfl
        | ok r2 =>
          obtain ⟨lid, c2⟩ := r2
          simp only [ok_bind]
          cases readShortText data c2 with
          | error e => rfl
          | ok r3 =>
            obtain ⟨mid, c3⟩ := r3
            simp only [ok_bind]
            cases relativeUnpack ['>', 'i'] data c3 with
            | error e => rfl
            | ok r4 =>
              obtain ⟨ws, c4⟩ := r4
              match ws with
              | [] => rfl
              | [n] =>
                simp only [ok_bind]
                rw [foldlM_repeat _ (joinGroupMember data)]
                · simp only [List.length_range]
                  cases repeatR (joinGroupMember data) n.toNat c4 with
                  | error e => rfl
                  | ok r5 => obtain ⟨ms, c5⟩ := r5; rfl
                · intro cur acc i
                  simp only [joinGroupMember]
                  cases readShortText data cur with
                  | error e => rfl
                  | ok r5 =>
                    obtain ⟨s, c5⟩ := r5
                    simp only [ok_bind]
                    cases readIntString data c5 with
                    | error e => rfl
                    | ok r6 => obtain ⟨md, c6⟩ := r6; rfl
              | _ :: _ :: _ => rfl
    | _ :: _ :: _ :: _ :: _ => rfl

end Afkak.Wire
