import Afkak.Wire.Spec
/-!
# The converse law of the grammar: whatever parses is the encoding of what it parses to

`Codec.Sound c`: if `c.dec bs = some (a, rest)` then `a` is a value the grammar can carry and
`bs = c.enc a ++ rest` — the grammar is unambiguous (canonical encodings).  Proved here for every
combinator the message-set grammar is built from, hence for `Spec.messageSet`: a byte string that
parses as a message set IS the encoding of the entries it parses to.
-/
namespace Afkak.Codec
open Afkak Afkak.Bytes

def Codec.Sound {α : Type} (c : Codec α) : Prop :=
  ∀ bs a rest, c.dec bs = some (a, rest) → c.valid a = true ∧ bs = c.enc a ++ rest

def Exact.Sound {α : Type} (e : Exact α) : Prop :=
  ∀ bs a, e.dec bs = some a → e.valid a = true ∧ bs = e.enc a

/-! ## big-endian, the other way round -/

theorem digit_add_mul (a r w j : Nat) (hj : j < w) :
    (a * 256 ^ w + r) / 256 ^ j % 256 = r / 256 ^ j % 256 := by
  have hw : 256 ^ w = 256 ^ (w - j - 1) * 256 * 256 ^ j := by
    rw [Nat.mul_assoc, ← Nat.pow_succ', ← Nat.pow_add]
    congr 1; omega
  rw [hw, ← Nat.mul_assoc, ← Nat.mul_assoc, Nat.add_comm, Nat.add_mul_div_right _ _ (Nat.pow_pos (by decide)),
    Nat.add_mul_mod_self_right]

theorem ofNatBE_add_mul (a r w : Nat) : ∀ k, k ≤ w → ofNatBE k (a * 256 ^ w + r) = ofNatBE k r := by
  intro k
  induction k with
  | zero => intro _; rfl
  | succ k ih =>
    intro hk
    simp only [ofNatBE]
    rw [digit_add_mul a r w k (by omega), ih (by omega)]

theorem ofNatBE_toNatBE (xs : Bytes) : ofNatBE xs.length (toNatBE xs) = xs := by
  induction xs with
  | nil => rfl
  | cons b bs ih =>
    simp only [List.length_cons, ofNatBE, toNatBE]
    have hlt := toNatBE_lt bs
    have hb : b.toNat < 256 := b.toNat_lt
    have hd : (b.toNat * 256 ^ bs.length + toNatBE bs) / 256 ^ bs.length % 256 = b.toNat := by
      rw [Nat.add_comm, Nat.add_mul_div_right _ _ (Nat.pow_pos (by decide)), Nat.div_eq_of_lt hlt, Nat.zero_add,
        Nat.mod_eq_of_lt hb]
    rw [hd, ofNatBE_add_mul b.toNat (toNatBE bs) bs.length bs.length (Nat.le_refl _), ih]
    simp

theorem ofIntBE_toIntBE (xs : Bytes) : ofIntBE xs.length (toIntBE xs) = xs ∧ IntFits xs.length (toIntBE xs) := by
  have hlt := toNatBE_lt xs
  have hpos : 0 < 256 ^ xs.length := Nat.pow_pos (by decide)
  unfold toIntBE IntFits
  simp only
  by_cases h : 2 * toNatBE xs < 256 ^ xs.length
  · rw [if_pos h]
    constructor
    · unfold ofIntBE
      have : ((toNatBE xs : Int) % ((256 ^ xs.length : Nat) : Int)) = (toNatBE xs : Int) :=
        Int.emod_eq_of_lt (by omega) (by exact_mod_cast hlt)
      rw [this, Int.toNat_natCast, ofNatBE_toNatBE]
    · constructor <;> omega
  · rw [if_neg h]
    constructor
    · unfold ofIntBE
      have : (((toNatBE xs : Int) - ((256 ^ xs.length : Nat) : Int)) % ((256 ^ xs.length : Nat) : Int)) = (toNatBE xs : Int) := by
        rw [Int.sub_emod, Int.emod_self, Int.sub_zero, Int.emod_emod_of_dvd _ (Int.dvd_refl _)]
        exact Int.emod_eq_of_lt (by omega) (by exact_mod_cast hlt)
      rw [this, Int.toNat_natCast, ofNatBE_toNatBE]
    · constructor <;> omega

theorem length_take_of_le {α : Type} (l : List α) (w : Nat) (h : ¬ l.length < w) : (l.take w).length = w := by
  rw [List.length_take]; omega

/-! ## combinators -/

theorem uintN_sound (w : Nat) : (uintN w).Sound := by
  intro bs a rest h
  simp only [uintN] at h ⊢
  split at h
  · cases h
  · rename_i hl
    simp only [Option.some.injEq, Prod.mk.injEq] at h
    obtain ⟨rfl, rfl⟩ := h
    have hlen := length_take_of_le bs w hl
    constructor
    · have := toNatBE_lt (bs.take w)
      rw [hlen] at this
      exact decide_eq_true this
    · have := ofNatBE_toNatBE (bs.take w)
      rw [hlen] at this
      rw [this, List.take_append_drop]

theorem intN_sound (w : Nat) : (intN w).Sound := by
  intro bs a rest h
  simp only [intN] at h ⊢
  split at h
  · cases h
  · rename_i hl
    simp only [Option.some.injEq, Prod.mk.injEq] at h
    obtain ⟨rfl, rfl⟩ := h
    have hlen := length_take_of_le bs w hl
    have := ofIntBE_toIntBE (bs.take w)
    rw [hlen] at this
    exact ⟨(intFitsB_iff _ _).mpr this.2, by rw [this.1, List.take_append_drop]⟩

theorem seq_sound {α β : Type} {a : Codec α} {b : Codec β} (ha : a.Sound) (hb : b.Sound) : (a ⊗ b).Sound := by
  intro bs p rest h
  simp only [seq] at h ⊢
  split at h
  · cases h
  · rename_i x r hx
    split at h
    · cases h
    · rename_i y r' hy
      simp only [Option.some.injEq, Prod.mk.injEq] at h
      obtain ⟨rfl, rfl⟩ := h
      have h1 := ha bs x r hx
      have h2 := hb r y r' hy
      exact ⟨Bool.and_eq_true_iff.mpr ⟨h1.1, h2.1⟩, by rw [h1.2, h2.2, List.append_assoc]⟩

theorem dep_sound {τ β : Type} {tag : Codec τ} {body : τ → Codec β} (ht : tag.Sound) (hb : ∀ t, (body t).Sound) :
    (dep tag body).Sound := by
  intro bs p rest h
  simp only [dep] at h ⊢
  split at h
  · cases h
  · rename_i t r hx
    split at h
    · cases h
    · rename_i y r' hy
      simp only [Option.some.injEq, Prod.mk.injEq] at h
      obtain ⟨rfl, rfl⟩ := h
      have h1 := ht bs t r hx
      have h2 := hb t r y r' hy
      exact ⟨Bool.and_eq_true_iff.mpr ⟨h1.1, h2.1⟩, by rw [h1.2, h2.2, List.append_assoc]⟩

theorem iso_sound {α β : Type} {c : Codec α} {f : α → β} {g : β → α} {p : β → Bool}
    {h : ∀ b, p b = true → f (g b) = b} (hc : c.Sound) (hgf : ∀ a, g (f a) = a) (hp : ∀ a, p (f a) = true) :
    (iso c f g p h).Sound := by
  intro bs b rest hd
  simp only [iso] at hd ⊢
  split at hd
  · cases hd
  · rename_i a r ha
    simp only [Option.some.injEq, Prod.mk.injEq] at hd
    obtain ⟨rfl, rfl⟩ := hd
    have h1 := hc bs a r ha
    rw [hgf a]
    exact ⟨Bool.and_eq_true_iff.mpr ⟨hp a, h1.1⟩, h1.2⟩

theorem fail_sound {α : Type} : (fail : Codec α).Sound := by
  intro bs a rest h
  simp [fail] at h

theorem nullablePrefixed_sound (w : Nat) : (nullablePrefixed w).Sound := by
  intro bs a rest h
  simp only [nullablePrefixed] at h ⊢
  split at h
  · cases h
  · rename_i n r hn
    have h1 := intN_sound w bs n r hn
    have hfit : IntFits w n := intN_valid h1.1
    have hbs : bs = ofIntBE w n ++ r := h1.2
    split at h
    · rename_i hm1
      simp only [Option.some.injEq, Prod.mk.injEq] at h
      obtain ⟨rfl, rfl⟩ := h
      subst hm1
      exact ⟨(intFitsB_iff _ _).mpr hfit, hbs⟩
    · split at h
      · cases h
      · split at h
        · cases h
        · rename_i hne hn0 hlen
          simp only [Option.some.injEq, Prod.mk.injEq] at h
          obtain ⟨rfl, rfl⟩ := h
          have hl : (r.take n.toNat).length = n.toNat := length_take_of_le r _ hlen
          have hcast : ((r.take n.toNat).length : Int) = n := by rw [hl]; omega
          simp only
          constructor
          · rw [hcast]; exact (intFitsB_iff _ _).mpr hfit
          · rw [hcast, hbs, List.append_assoc, List.take_append_drop]

theorem whole_sound {α : Type} {c : Codec α} (hc : c.Sound) : (whole c).Sound := by
  intro bs a h
  simp only [whole] at h ⊢
  split at h
  · rename_i a' ha
    cases h
    have := hc bs a [] ha
    exact ⟨this.1, by rw [this.2, List.append_nil]⟩
  · cases h

theorem checksummed_sound {α : Type} (crc : Bytes → Nat) {e : Exact α} (he : e.Sound) : (checksummed crc e).Sound := by
  intro bs a h
  simp only [checksummed] at h ⊢
  split at h
  · cases h
  · rename_i c body hc
    split at h
    · rename_i hcrc
      have h1 := uintN_sound 4 bs c body hc
      have h2 := he body a h
      refine ⟨h2.1, ?_⟩
      have : bs = ofNatBE 4 c ++ body := h1.2
      rw [this, hcrc, h2.2]
    · cases h

theorem sized32_sound {α : Type} {e : Exact α} (he : e.Sound) : (sized32 e).Sound := by
  intro bs a rest h
  simp only [sized32] at h ⊢
  split at h
  · cases h
  · rename_i n r hn
    have h1 := intN_sound 4 bs n r hn
    have hfit : IntFits 4 n := intN_valid h1.1
    have hbs : bs = ofIntBE 4 n ++ r := h1.2
    split at h
    · cases h
    · split at h
      · cases h
      · rename_i hn0 hlen
        split at h
        · cases h
        · rename_i a' ha
          simp only [Option.some.injEq, Prod.mk.injEq] at h
          obtain ⟨rfl, rfl⟩ := h
          have h2 := he _ _ ha
          have hl : (r.take n.toNat).length = n.toNat := length_take_of_le r _ hlen
          have hcast : ((e.enc a').length : Int) = n := by rw [← h2.2, hl]; omega
          constructor
          · exact Bool.and_eq_true_iff.mpr ⟨h2.1, by rw [hcast]; exact (intFitsB_iff _ _).mpr hfit⟩
          · rw [hcast, hbs, ← h2.2, List.append_assoc, List.take_append_drop]

theorem decMany_sound {α : Type} {c : Codec α} (hc : c.Sound) :
    ∀ (n : Nat) (bs : Bytes) (l : List α), decMany c n bs = some l →
      (∀ a ∈ l, c.valid a = true) ∧ bs = encAll c l := by
  intro n
  induction n with
  | zero =>
    intro bs l h
    cases bs with
    | nil => simp only [decMany, Option.some.injEq] at h; subst h; exact ⟨by simp, rfl⟩
    | cons b bs => simp [decMany] at h
  | succ n ih =>
    intro bs l h
    cases bs with
    | nil => simp only [decMany, Option.some.injEq] at h; subst h; exact ⟨by simp, rfl⟩
    | cons b bs =>
      simp only [decMany] at h
      split at h
      · cases h
      · rename_i a r ha
        split at h
        · cases h
        · rename_i as has
          simp only [Option.some.injEq] at h
          subst h
          have h1 := hc _ _ _ ha
          have h2 := ih r as has
          refine ⟨?_, by rw [h1.2, h2.2]; rfl⟩
          intro x hx
          rcases List.mem_cons.mp hx with rfl | hx'
          · exact h1.1
          · exact h2.1 x hx'

theorem many_sound {α : Type} {c : Codec α} (hc : c.Sound) (hne : ∀ a, c.enc a ≠ []) : (many c).Sound := by
  intro bs l h
  have := decMany_sound hc bs.length bs l h
  refine ⟨?_, this.2⟩
  simp only [many]
  rw [List.all_eq_true]
  intro a ha
  rw [Bool.and_eq_true]
  refine ⟨this.1 a ha, ?_⟩
  have := hne a
  cases hh : c.enc a with
  | nil => exact absurd hh this
  | cons _ _ => rfl

end Afkak.Codec

namespace Afkak.Wire.Spec
open Afkak Afkak.Codec

theorem msgRest_sound (magic : Int) : (msgRest magic).Sound := by
  unfold msgRest
  split
  · exact iso_sound (seq_sound (uintN_sound 1) (seq_sound (nullablePrefixed_sound 4) (nullablePrefixed_sound 4)))
      (fun _ => rfl) (fun _ => rfl)
  · split
    · exact iso_sound (seq_sound (uintN_sound 1) (seq_sound (intN_sound 8)
        (seq_sound (nullablePrefixed_sound 4) (nullablePrefixed_sound 4)))) (fun _ => rfl) (fun _ => rfl)
    · exact fail_sound

theorem msgBody_sound : msgBody.Sound :=
  iso_sound (dep_sound (intN_sound 1) msgRest_sound) (fun _ => rfl) (fun _ => rfl)

theorem message_sound (crc : Bytes → Nat) : (message crc).Sound :=
  checksummed_sound crc (whole_sound msgBody_sound)

theorem entry_sound (crc : Bytes → Nat) : (entry crc).Sound :=
  seq_sound (intN_sound 8) (sized32_sound (message_sound crc))

theorem entry_enc_ne_nil (crc : Bytes → Nat) (e : Int × Msg) : (entry crc).enc e ≠ [] := by
  intro h
  have := congrArg List.length h
  simp [entry, seq, int64, intN, List.length_append, ofIntBE_length] at this

/-- **The message-set grammar is unambiguous**: bytes that parse as a message set are the encoding of
    the entries they parse to, and those entries are values the grammar can carry. -/
theorem messageSet_sound (crc : Bytes → Nat) : (messageSet crc).Sound :=
  many_sound (entry_sound crc) (entry_enc_ne_nil crc)

end Afkak.Wire.Spec
