import Afkak.Wire.Requests
import Afkak.Codec.Combinators
/-!
# `struct.pack` as modelled, in closed form

`packBody cs vs = .ok x` holds exactly when every value fits its field, and then `x` is the
concatenation of the big-endian fields.  The concrete formats (from `Afkak.Consts.fmt_*`) are
discharged by `simp` with these lemmas.
-/
namespace Afkak.Wire
open Afkak Afkak.Bytes Afkak.Codec

/-- width of a format character (0 for a character `struct` does not know) -/
def widthOf (c : Char) : Nat :=
  match fieldSpec c with
  | some (w, _) => w
  | none => 0

/-- the bytes `packBody` produces when it succeeds -/
def packedBody : List Char → List Int → Bytes
  | c :: cs, v :: vs => ofIntBE (widthOf c) v ++ packedBody cs vs
  | _, _ => []

/-- every value fits its field and the arity matches -/
def fieldsOk : List Char → List Int → Prop
  | [], [] => True
  | c :: cs, v :: vs =>
    (match fieldSpec c with
     | some (w, s) => fieldInRange w s v = true
     | none => False) ∧ fieldsOk cs vs
  | _, _ => False

theorem packBody_eq (cs : List Char) (vs : List Int) (x : Bytes) :
    packBody cs vs = .ok x ↔ fieldsOk cs vs ∧ x = packedBody cs vs := by
  induction cs generalizing vs x with
  | nil =>
    cases vs with
    | nil => simp [packBody, fieldsOk, packedBody, eq_comm]
    | cons v vs => simp [packBody, fieldsOk]
  | cons c cs ih =>
    cases vs with
    | nil => simp [packBody, fieldsOk]
    | cons v vs =>
      simp only [packBody, packField, fieldsOk, packedBody, widthOf]
      cases hc : fieldSpec c with
      | none => simp
      | some ws =>
        obtain ⟨w, s⟩ := ws
        by_cases hr : fieldInRange w s v = true
        · simp only [hr, if_true, true_and]
          cases hb : packBody cs vs with
          | error e =>
            have := (ih vs (packedBody cs vs))
            rw [hb] at this
            constructor
            · intro h; cases h
            · intro ⟨hok, _⟩
              have h2 := this.mpr ⟨hok, rfl⟩
              cases h2
          | ok b =>
            have := (ih vs b).mp hb
            simp only [this.1, true_and]
            constructor
            · intro h; cases h; rw [this.2]
            · intro h; rw [h, this.2]
        · simp [hr]

theorem pack_eq (cs : List Char) (vs : List Int) (x : Bytes) :
    pack ('>' :: cs) vs = .ok x ↔ fieldsOk cs vs ∧ x = packedBody cs vs := by
  simp only [pack]
  exact packBody_eq cs vs x

/-- on success the bytes are the closed form -/
theorem pack_bytes {cs : List Char} {vs : List Int} {x : Bytes} (h : pack ('>' :: cs) vs = .ok x) :
    x = packedBody cs vs := ((pack_eq cs vs x).mp h).2

theorem pack_ok {cs : List Char} {vs : List Int} (h : fieldsOk cs vs) :
    pack ('>' :: cs) vs = .ok (packedBody cs vs) := (pack_eq cs vs _).mpr ⟨h, rfl⟩

/-! ## signed ranges: `struct`'s and the grammar's agree -/

theorem fieldInRange_signed (w : Nat) (v : Int) :
    fieldInRange w true v = true ↔ (-(2 ^ (8 * w - 1) : Nat) ≤ v ∧ v < ((2 ^ (8 * w - 1) : Nat) : Int)) := by
  unfold fieldInRange
  cases v with
  | ofNat n => simp only [if_true, Nat.blt_eq, Int.ofNat_eq_natCast]; constructor <;> intro h <;> omega
  | negSucc n => simp only [Bool.true_and, Nat.blt_eq, Int.negSucc_eq]; constructor <;> intro h <;> omega

theorem fieldInRange_unsigned (w : Nat) (v : Int) :
    fieldInRange w false v = true ↔ (0 ≤ v ∧ v < ((2 ^ (8 * w) : Nat) : Int)) := by
  unfold fieldInRange
  cases v with
  | ofNat n =>
    simp only [Nat.blt_eq, Int.ofNat_eq_natCast, Bool.false_eq_true, if_false]; constructor <;> intro h <;> omega
  | negSucc n =>
    simp only [Bool.false_and, Int.negSucc_eq]; constructor <;> intro h
    · cases h
    · omega

theorem fits1 (v : Int) : fieldInRange 1 true v = true ↔ IntFits 1 v := by
  rw [fieldInRange_signed]; simp only [IntFits]; omega
theorem fits2 (v : Int) : fieldInRange 2 true v = true ↔ IntFits 2 v := by
  rw [fieldInRange_signed]; simp only [IntFits]; omega
theorem fits4 (v : Int) : fieldInRange 4 true v = true ↔ IntFits 4 v := by
  rw [fieldInRange_signed]; simp only [IntFits]; omega
theorem fits8 (v : Int) : fieldInRange 8 true v = true ↔ IntFits 8 v := by
  rw [fieldInRange_signed]; simp only [IntFits]; omega

/-- an unsigned field holds the natural number itself -/
theorem ofIntBE_natCast (w n : Nat) (h : n < 256 ^ w) : ofIntBE w (n : Int) = ofNatBE w n := by
  simp only [ofIntBE]
  congr 1
  have : ((n : Int) % ((256 ^ w : Nat) : Int)) = (n : Int) := Int.emod_eq_of_lt (by omega) (by exact_mod_cast h)
  rw [this]; simp

end Afkak.Wire
