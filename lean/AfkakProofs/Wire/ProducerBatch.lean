import AfkakProofs.Wire.EncDec
import AfkakProofs.Wire.Compressed
import AfkakProofs.Wire.Nested
/-!
# The producer's compressed batch, through afkak's own encoder and decoder

`create_message_set(requests, CODEC_GZIP, magic)` → `_encode_message_set([wrapper])` →
`_decode_message_set_iter`: under `gunzip (gzip x) = x` the decoder yields exactly the requests'
payloads.  Composition of `createMessageSet_gzip` (Compressed.lean), `msgset_encoded` (EncDec.lean:
what the encoder wrote is valid for the grammar) and `nested_sets` (Nested.lean).
-/
namespace Afkak.Wire
open Afkak Afkak.Bytes Afkak.Codec Afkak.Consts Afkak.Monitor.C04 Afkak.Monitor.C05

set_option synthInstance.maxSize 100000

theorem specEntries_eq_from (nowMs : Int) : ∀ (ms : List Message),
    specEntries nowMs ms = entriesFrom nowMs msgSetIncrNoOffset 0 ms := by
  intro ms
  induction ms with
  | nil => rfl
  | cons m ms ih =>
    unfold specEntries at ih ⊢
    have hz : (0 : Int) + msgSetIncrNoOffset = 0 := by decide
    rw [mapM_option_cons, ih, entriesFrom_cons, hz]
    generalize entriesFrom nowMs msgSetIncrNoOffset 0 ms = tl
    cases specMsg nowMs m <;> cases tl <;> rfl

/-- the payloads `create_message_set(…, CODEC_GZIP, …)` compresses are values the grammar can carry -/
theorem createMessageSet_gzip_valid (ext : Ext) (reqs : List (Option Bytes × List (Option Bytes))) (magic : Int)
    (ms : List Message) (h : createMessageSet ext reqs codecGzip magic = .ok ms) :
    (Spec.messageSet ext.crc).valid (plainEntries ext.nowMs magic reqs) = true := by
  unfold createMessageSet at h
  split at h
  · cases h
  · rename_i inner hinner
    rw [if_neg (by decide), if_pos rfl] at h
    split at h
    · cases h
    · rename_i w hw
      unfold createGzipMessage at hw
      split at hw
      · cases hw
      · rename_i enc henc
        have hent := createMsgList_entries ext magic reqs inner hinner
        rw [specEntries_eq_from] at hent
        unfold encodeMessageSet at henc
        obtain ⟨entries, hes, hev, _⟩ := msgset_encoded ext 0 _ inner enc 0 henc
        rw [hent] at hes
        cases hes
        exact messageSet_valid_of_entries hev

theorem plainEntries_plain (nowMs magic : Int) (reqs : List (Option Bytes × List (Option Bytes))) :
    ∀ x ∈ plainEntries nowMs magic reqs, x.2.attributes % 8 = 0 ∧ x.1 = 0 := by
  intro x hx
  unfold plainEntries at hx
  obtain ⟨r, _, hr⟩ := List.mem_flatMap.mp hx
  obtain ⟨p, _, rfl⟩ := List.mem_map.mp hr
  exact ⟨rfl, rfl⟩

theorem map_offsets_zero (off : Int) (l : List (Int × Spec.Msg)) (h : ∀ x ∈ l, x.1 = 0) (last : Int × Spec.Msg)
    (hl : last.1 = 0) : l.map (fun e => (off - last.1 + e.1, e.2)) = l.map (fun e => (off, e.2)) := by
  apply List.map_congr_left
  intro e he
  rw [hl, h e he]
  simp

/-- **The producer's compressed batch comes back from the decoder**: `create_message_set(requests,
    CODEC_GZIP, magic)` builds one wrapper; `_encode_message_set([wrapper])` is what the produce encoder
    writes for the partition (and what a broker that keeps the batch hands to a fetch); if the
    decompressor undoes the compressor, `_decode_message_set_iter` yields exactly the requests'
    payloads, in order, each with the request's key, attributes 0 and the format asked for, every one at
    offset 0 (afkak writes 0 for the wrapper and all inner offsets; a broker assigns the real ones). -/
theorem producer_batch_roundtrip (ext : Ext) (depth : Nat) (reqs : List (Option Bytes × List (Option Bytes)))
    (magic magic' : Int) (ms : List Message) (data : Bytes)
    (hinv : ∀ b z, ext.gzip b = .ok z → ext.gunzip (some z) = .ok b)
    (h : createMessageSet ext reqs codecGzip magic = .ok ms)
    (hd : encodeMessageSet ext ms none magic' = .ok data) :
    decodeMessageSet ext (depth + 2) data = ((plainEntries ext.nowMs magic reqs).map toOM, none) := by
  have hpv := createMessageSet_gzip_valid ext reqs magic ms h
  obtain ⟨w, gz, rfl, hatt, hkey, hval, hmag, hts, hgz⟩ := createMessageSet_gzip ext reqs magic ms h
  unfold encodeMessageSet at hd
  simp only at hd
  obtain ⟨entries, hes, hev, _⟩ := msgset_encoded ext magic' _ [w] data 0 hd
  have hm' : magic' = 0 ∨ magic' = 1 := by
    by_cases hm : magic' = 0 ∨ magic' = 1
    · exact hm
    · exfalso
      simp only [encodeMessageSetLoop] at hd
      rw [if_pos (by
        constructor
        · intro h0; exact hm (Or.inl h0)
        · intro h1; exact hm (Or.inr h1))] at hd
      cases hd
  have hbytes := msgset_bytes_from ext magic' hm' _ [w] entries data 0 hd hes
  rw [entriesFrom_cons] at hes
  cases hsm : specMsg ext.nowMs w with
  | none => simp [hsm] at hes
  | some sm =>
    simp only [hsm, entriesFrom, Option.some.injEq] at hes
    subst hes
    have hvalid := messageSet_valid_of_entries hev
    -- the wrapper as the grammar sees it
    have hsm' : sm.attributes % 8 = 1 ∧ sm.value = some gz ∧ (sm.magic = 0 ∨ sm.magic = 1) := by
      unfold specMsg at hsm
      rw [hatt] at hsm
      rw [if_neg (by decide)] at hsm
      split at hsm
      · cases hsm; exact ⟨(by decide : codecGzip.toNat % 8 = 1), hval, Or.inl rfl⟩
      · split at hsm
        · cases hsm; exact ⟨(by decide : codecGzip.toNat % 8 = 1), hval, Or.inr rfl⟩
        · cases hsm
    have hgun : gunzipOpt ext gz = some ((Spec.messageSet ext.crc).enc (plainEntries ext.nowMs magic reqs)) := by
      unfold gunzipOpt
      rw [hinv _ _ hgz]; rfl
    have hpl := plainEntries_plain ext.nowMs magic reqs
    have hexp : expand ext.crc (gunzipOpt ext) (depth + 1) [(0, sm)] = some (plainEntries ext.nowMs magic reqs) := by
      show expandWith (openWrapper ext.crc (gunzipOpt ext) (expand ext.crc (gunzipOpt ext) depth)) [(0, sm)] = _
      simp only [expandWith]
      rw [if_neg (by omega), if_pos hsm'.1]
      simp only [openWrapper, hsm'.2.1, hgun, (Spec.messageSet ext.crc).law _ hpv,
        expand_plain ext.crc (gunzipOpt ext) depth _ (fun x hx => (hpl x hx).1)]
      by_cases h1 : sm.magic = 1
      · rw [if_pos h1]
        cases hlast : (plainEntries ext.nowMs magic reqs).getLast? with
        | none =>
          have : plainEntries ext.nowMs magic reqs = [] := List.getLast?_eq_none_iff.mp hlast
          simp [this]
        | some last =>
          have hlm : last ∈ plainEntries ext.nowMs magic reqs := List.mem_of_getLast? hlast
          simp only [Option.map_some, List.append_nil, Option.some.injEq]
          rw [map_offsets_zero 0 _ (fun x hx => (hpl x hx).2) last (hpl last hlm).2]
          conv => rhs; rw [← List.map_id (plainEntries ext.nowMs magic reqs)]
          apply List.map_congr_left
          intro e he
          show (0, e.2) = e
          rw [← (hpl e he).2]
      · rw [if_neg h1]
        simp
    rw [hbytes]
    exact nested_sets ext (depth + 1) [(0, sm)] _ hvalid hexp
end Afkak.Wire
