import AfkakProofs.Wire.Loops
import Afkak.Monitor.C05
/-!
# The model decoders give back what the grammar encoded (straight-line and array decoders)

Each `…_roundtrip` says: the model of `KafkaCodec.decode_x`, run on `Spec.x.enc v`, returns the value
`Afkak.Monitor.C05.expectedX v` names.  The reading lemmas (`…_at`) say what a primitive returns
when the cursor stands right after `pre` in `data = pre ++ (encoding) ++ rest`, and leave the cursor
as `↑(pre ++ encoding).length`, so that steps chain.
-/
namespace Afkak.Wire
open Afkak Afkak.Bytes Afkak.Codec Afkak.Consts Afkak.Monitor.C05

set_option synthInstance.maxSize 100000

/-! ## ranges -/

theorem ok_i {v : Int} (h : IntFits 4 v) : (match fieldSpec 'i' with | some (w, s) => fieldInRange w s v = true | none => False) := by
  simp only [fieldSpec]; exact (fits4 v).mpr h
theorem ok_h {v : Int} (h : IntFits 2 v) : (match fieldSpec 'h' with | some (w, s) => fieldInRange w s v = true | none => False) := by
  simp only [fieldSpec]; exact (fits2 v).mpr h
theorem ok_q {v : Int} (h : IntFits 8 v) : (match fieldSpec 'q' with | some (w, s) => fieldInRange w s v = true | none => False) := by
  simp only [fieldSpec]; exact (fits8 v).mpr h

theorem v32 {v : Int} (h : int32.valid v = true) : IntFits 4 v := intN_valid h
theorem v16 {v : Int} (h : int16.valid v = true) : IntFits 2 v := intN_valid h
theorem v64 {v : Int} (h : int64.valid v = true) : IntFits 8 v := intN_valid h

theorem enc32 (v : Int) : int32.enc v = ofIntBE 4 v := rfl
theorem enc16 (v : Int) : int16.enc v = ofIntBE 2 v := rfl
theorem enc64 (v : Int) : int64.enc v = ofIntBE 8 v := rfl

theorem len32 (v : Int) : (ofIntBE 4 v).length = 4 := ofIntBE_length 4 v
theorem len16 (v : Int) : (ofIntBE 2 v).length = 2 := ofIntBE_length 2 v
theorem len64 (v : Int) : (ofIntBE 8 v).length = 8 := ofIntBE_length 8 v

theorem cur0 : (0 : Int) = (([] : Bytes).length : Int) := rfl

/-- `seq_valid` for an explicit pair (keeps the component types free of projections) -/
theorem seq_valid' {α β : Type} {a : Codec α} {b : Codec β} {x : α} {y : β} (h : (a ⊗ b).valid (x, y) = true) :
    a.valid x = true ∧ b.valid y = true := seq_valid h

/-! ## reading at a cursor -/

theorem ru1_i_at {data pre rest : Bytes} {v : Int} (hd : data = pre ++ ofIntBE 4 v ++ rest) (hv : IntFits 4 v) :
    ru1 ['>', 'i'] data pre.length = .ok (v, ((pre ++ ofIntBE 4 v).length : Int)) := by
  have := ru1_packed 'i' v pre rest ⟨ok_i hv, trivial⟩
  simp only [packedBody, widthOf, fieldSpec, List.append_nil] at this
  rw [hd, this, natCast_add_length pre _]

theorem ru1_h_at {data pre rest : Bytes} {v : Int} (hd : data = pre ++ ofIntBE 2 v ++ rest) (hv : IntFits 2 v) :
    ru1 ['>', 'h'] data pre.length = .ok (v, ((pre ++ ofIntBE 2 v).length : Int)) := by
  have := ru1_packed 'h' v pre rest ⟨ok_h hv, trivial⟩
  simp only [packedBody, widthOf, fieldSpec, List.append_nil] at this
  rw [hd, this, natCast_add_length pre _]

theorem ru1_q_at {data pre rest : Bytes} {v : Int} (hd : data = pre ++ ofIntBE 8 v ++ rest) (hv : IntFits 8 v) :
    ru1 ['>', 'q'] data pre.length = .ok (v, ((pre ++ ofIntBE 8 v).length : Int)) := by
  have := ru1_packed 'q' v pre rest ⟨ok_q hv, trivial⟩
  simp only [packedBody, widthOf, fieldSpec, List.append_nil] at this
  rw [hd, this, natCast_add_length pre _]

theorem ru2_ih_at {data pre rest : Bytes} {a b : Int} (hd : data = pre ++ (ofIntBE 4 a ++ ofIntBE 2 b) ++ rest)
    (ha : IntFits 4 a) (hb : IntFits 2 b) :
    ru2 ['>', 'i', 'h'] data pre.length = .ok (a, b, ((pre ++ (ofIntBE 4 a ++ ofIntBE 2 b)).length : Int)) := by
  have := ru2_packed 'i' 'h' a b pre rest ⟨ok_i ha, ok_h hb, trivial⟩
  simp only [packedBody, widthOf, fieldSpec, List.append_nil] at this
  rw [hd, this, natCast_add_length pre _]

theorem ru2_ii_at {data pre rest : Bytes} {a b : Int} (hd : data = pre ++ (ofIntBE 4 a ++ ofIntBE 4 b) ++ rest)
    (ha : IntFits 4 a) (hb : IntFits 4 b) :
    ru2 ['>', 'i', 'i'] data pre.length = .ok (a, b, ((pre ++ (ofIntBE 4 a ++ ofIntBE 4 b)).length : Int)) := by
  have := ru2_packed 'i' 'i' a b pre rest ⟨ok_i ha, ok_i hb, trivial⟩
  simp only [packedBody, widthOf, fieldSpec, List.append_nil] at this
  rw [hd, this, natCast_add_length pre _]

theorem ru2_hi_at {data pre rest : Bytes} {a b : Int} (hd : data = pre ++ (ofIntBE 2 a ++ ofIntBE 4 b) ++ rest)
    (ha : IntFits 2 a) (hb : IntFits 4 b) :
    ru2 ['>', 'h', 'i'] data pre.length = .ok (a, b, ((pre ++ (ofIntBE 2 a ++ ofIntBE 4 b)).length : Int)) := by
  have := ru2_packed 'h' 'i' a b pre rest ⟨ok_h ha, ok_i hb, trivial⟩
  simp only [packedBody, widthOf, fieldSpec, List.append_nil] at this
  rw [hd, this, natCast_add_length pre _]

theorem ru2_iq_at {data pre rest : Bytes} {a b : Int} (hd : data = pre ++ (ofIntBE 4 a ++ ofIntBE 8 b) ++ rest)
    (ha : IntFits 4 a) (hb : IntFits 8 b) :
    ru2 ['>', 'i', 'q'] data pre.length = .ok (a, b, ((pre ++ (ofIntBE 4 a ++ ofIntBE 8 b)).length : Int)) := by
  have := ru2_packed 'i' 'q' a b pre rest ⟨ok_i ha, ok_q hb, trivial⟩
  simp only [packedBody, widthOf, fieldSpec, List.append_nil] at this
  rw [hd, this, natCast_add_length pre _]

theorem ru3_ihi_at {data pre rest : Bytes} {a b c : Int}
    (hd : data = pre ++ (ofIntBE 4 a ++ (ofIntBE 2 b ++ ofIntBE 4 c)) ++ rest)
    (ha : IntFits 4 a) (hb : IntFits 2 b) (hc : IntFits 4 c) :
    ru3 ['>', 'i', 'h', 'i'] data pre.length =
      .ok (a, b, c, ((pre ++ (ofIntBE 4 a ++ (ofIntBE 2 b ++ ofIntBE 4 c))).length : Int)) := by
  have := ru3_packed 'i' 'h' 'i' a b c pre rest ⟨ok_i ha, ok_h hb, ok_i hc, trivial⟩
  simp only [packedBody, widthOf, fieldSpec, List.append_nil] at this
  rw [hd, this, natCast_add_length pre _]

theorem ru3_ihq_at {data pre rest : Bytes} {a b c : Int}
    (hd : data = pre ++ (ofIntBE 4 a ++ (ofIntBE 2 b ++ ofIntBE 8 c)) ++ rest)
    (ha : IntFits 4 a) (hb : IntFits 2 b) (hc : IntFits 8 c) :
    ru3 ['>', 'i', 'h', 'q'] data pre.length =
      .ok (a, b, c, ((pre ++ (ofIntBE 4 a ++ (ofIntBE 2 b ++ ofIntBE 8 c))).length : Int)) := by
  have := ru3_packed 'i' 'h' 'q' a b c pre rest ⟨ok_i ha, ok_h hb, ok_q hc, trivial⟩
  simp only [packedBody, widthOf, fieldSpec, List.append_nil] at this
  rw [hd, this, natCast_add_length pre _]

theorem ru3_hhh_at {data pre rest : Bytes} {a b c : Int}
    (hd : data = pre ++ (ofIntBE 2 a ++ (ofIntBE 2 b ++ ofIntBE 2 c)) ++ rest)
    (ha : IntFits 2 a) (hb : IntFits 2 b) (hc : IntFits 2 c) :
    ru3 ['>', 'h', 'h', 'h'] data pre.length =
      .ok (a, b, c, ((pre ++ (ofIntBE 2 a ++ (ofIntBE 2 b ++ ofIntBE 2 c))).length : Int)) := by
  have := ru3_packed 'h' 'h' 'h' a b c pre rest ⟨ok_h ha, ok_h hb, ok_h hc, trivial⟩
  simp only [packedBody, widthOf, fieldSpec, List.append_nil] at this
  rw [hd, this, natCast_add_length pre _]

theorem ru4_ihqq_at {data pre rest : Bytes} {a b c d : Int}
    (hd : data = pre ++ (ofIntBE 4 a ++ (ofIntBE 2 b ++ (ofIntBE 8 c ++ ofIntBE 8 d))) ++ rest)
    (ha : IntFits 4 a) (hb : IntFits 2 b) (hc : IntFits 8 c) (hdd : IntFits 8 d) :
    ru4 ['>', 'i', 'h', 'q', 'q'] data pre.length =
      .ok (a, b, c, d, ((pre ++ (ofIntBE 4 a ++ (ofIntBE 2 b ++ (ofIntBE 8 c ++ ofIntBE 8 d)))).length : Int)) := by
  have := ru4_packed 'i' 'h' 'q' 'q' a b c d pre rest ⟨ok_i ha, ok_h hb, ok_q hc, ok_q hdd, trivial⟩
  simp only [packedBody, widthOf, fieldSpec, List.append_nil] at this
  rw [hd, this, natCast_add_length pre _]

theorem rsa_at {data pre rest b : Bytes} (hd : data = pre ++ Codec.string.enc b ++ rest)
    (hv : Codec.string.valid b = true) (ha : isAscii b = true) :
    readShortAscii data pre.length = .ok (b, ((pre ++ Codec.string.enc b).length : Int)) := by
  rw [hd, readShortAscii_string b pre rest hv ha, natCast_add_length pre _]

theorem rst_at {data pre rest b : Bytes} (hd : data = pre ++ Codec.string.enc b ++ rest)
    (hv : Codec.string.valid b = true) (ha : validUtf8 b = true) :
    readShortText data pre.length = .ok (b, ((pre ++ Codec.string.enc b).length : Int)) := by
  rw [hd, readShortText_string b pre rest hv ha, natCast_add_length pre _]

theorem rsb_nullable_at {data pre rest : Bytes} {b : Option Bytes} (hd : data = pre ++ Codec.nullableString.enc b ++ rest)
    (hv : Codec.nullableString.valid b = true) :
    readShortBytes data pre.length = .ok (b, ((pre ++ Codec.nullableString.enc b).length : Int)) := by
  rw [hd, readShortBytes_nullable b pre rest hv, natCast_add_length pre _]

theorem ris_bytes_at {data pre rest b : Bytes} (hd : data = pre ++ Codec.bytes.enc b ++ rest)
    (hv : Codec.bytes.valid b = true) :
    readIntString data pre.length = .ok (some b, ((pre ++ Codec.bytes.enc b).length : Int)) := by
  rw [hd, readIntString_bytes b pre rest hv, natCast_add_length pre _]

theorem ris_nullable_at {data pre rest : Bytes} {b : Option Bytes} (hd : data = pre ++ Codec.nullableBytes.enc b ++ rest)
    (hv : Codec.nullableBytes.valid b = true) :
    readIntString data pre.length = .ok (b, ((pre ++ Codec.nullableBytes.enc b).length : Int)) := by
  rw [hd, readIntString_nullable b pre rest hv, natCast_add_length pre _]

/-! ## loops with the cursor in `↑(pre ++ …).length` form -/

theorem repeatR_at {α β : Type} (c : Codec α) (P : α → Prop) (f : α → β) {data : Bytes} (body : Int → R (β × Int))
    (hbody : ∀ (pre rest : Bytes) (a : α), P a → data = pre ++ c.enc a ++ rest →
      body pre.length = .ok (f a, ((pre ++ c.enc a).length : Int)))
    {l : List α} {pre rest : Bytes} (hv : ∀ a ∈ l, P a) (hd : data = pre ++ encAll c l ++ rest) :
    repeatR body l.length pre.length = .ok (l.map f, ((pre ++ encAll c l).length : Int)) := by
  rw [natCast_add_length]
  apply repeatR_encAll c P f data body _ l pre rest hv hd
  intro pre rest a ha hd
  rw [hbody pre rest a ha hd, natCast_add_length]

theorem repeatG_at {α β : Type} (c : Codec α) (P : α → Prop) (f : α → List β) {data : Bytes} (body : Int → G β)
    (hbody : ∀ (pre rest : Bytes) (a : α), P a → data = pre ++ c.enc a ++ rest →
      body pre.length = (f a, .ok ((pre ++ c.enc a).length : Int)))
    {l : List α} {pre rest : Bytes} (hv : ∀ a ∈ l, P a) (hd : data = pre ++ encAll c l ++ rest) :
    repeatG body l.length pre.length = (l.flatMap f, .ok ((pre ++ encAll c l).length : Int)) := by
  rw [natCast_add_length]
  apply repeatG_encAll c P f data body _ l pre rest hv hd
  intro pre rest a ha hd
  rw [hbody pre rest a ha hd, natCast_add_length]

/-! ## the first read, at cursor `0` -/

theorem ru1_i_at0 {data rest : Bytes} {v : Int} (hd : data = ofIntBE 4 v ++ rest) (hv : IntFits 4 v) :
    ru1 ['>', 'i'] data 0 = .ok (v, ((ofIntBE 4 v).length : Int)) := by
  have := ru1_i_at (data := data) (pre := []) (rest := rest) (v := v) (by rw [hd]; rfl) hv
  simpa using this

theorem ru2_ih_at0 {data rest : Bytes} {a b : Int} (hd : data = (ofIntBE 4 a ++ ofIntBE 2 b) ++ rest)
    (ha : IntFits 4 a) (hb : IntFits 2 b) :
    ru2 ['>', 'i', 'h'] data 0 = .ok (a, b, ((ofIntBE 4 a ++ ofIntBE 2 b).length : Int)) := by
  have := ru2_ih_at (data := data) (pre := []) (rest := rest) (a := a) (b := b) (by rw [hd]; rfl) ha hb
  simpa using this

theorem ru2_ii_at0 {data rest : Bytes} {a b : Int} (hd : data = (ofIntBE 4 a ++ ofIntBE 4 b) ++ rest)
    (ha : IntFits 4 a) (hb : IntFits 4 b) :
    ru2 ['>', 'i', 'i'] data 0 = .ok (a, b, ((ofIntBE 4 a ++ ofIntBE 4 b).length : Int)) := by
  have := ru2_ii_at (data := data) (pre := []) (rest := rest) (a := a) (b := b) (by rw [hd]; rfl) ha hb
  simpa using this

theorem ru2_hi_at0 {data rest : Bytes} {a b : Int} (hd : data = (ofIntBE 2 a ++ ofIntBE 4 b) ++ rest)
    (ha : IntFits 2 a) (hb : IntFits 4 b) :
    ru2 ['>', 'h', 'i'] data 0 = .ok (a, b, ((ofIntBE 2 a ++ ofIntBE 4 b).length : Int)) := by
  have := ru2_hi_at (data := data) (pre := []) (rest := rest) (a := a) (b := b) (by rw [hd]; rfl) ha hb
  simpa using this

theorem ru3_ihi_at0 {data rest : Bytes} {a b c : Int}
    (hd : data = (ofIntBE 4 a ++ (ofIntBE 2 b ++ ofIntBE 4 c)) ++ rest)
    (ha : IntFits 4 a) (hb : IntFits 2 b) (hc : IntFits 4 c) :
    ru3 ['>', 'i', 'h', 'i'] data 0 = .ok (a, b, c, ((ofIntBE 4 a ++ (ofIntBE 2 b ++ ofIntBE 4 c)).length : Int)) := by
  have := ru3_ihi_at (data := data) (pre := []) (rest := rest) (a := a) (b := b) (c := c) (by rw [hd]; rfl) ha hb hc
  simpa using this

/-! ## what each decoder returns, given what its primitive reads return (cursors abstract) -/

theorem errorOnly_steps {fmt : List Char} {data : Bytes} {corr err cur1 : Int}
    (h1 : ru2 fmt data 0 = .ok (corr, err, cur1)) : decodeErrorOnlyResponse fmt data = .ok err := by
  unfold decodeErrorOnlyResponse; rw [h1]

theorem syncGroup_steps {data : Bytes} {corr err cur1 cur2 : Int} {b : Option Bytes}
    (h1 : ru2 ['>', 'i', 'h'] data 0 = .ok (corr, err, cur1)) (h2 : readIntString data cur1 = .ok (b, cur2)) :
    decodeSyncGroupResponse data = .ok (err, b) := by
  unfold decodeSyncGroupResponse
  simp only [fmt_decode_sync_group_response_0]
  rw [h1]; simp only; rw [h2]

theorem findCoordinator_steps {data : Bytes} {corr err node port cur1 cur2 cur3 : Int} {host : Bytes}
    (h1 : ru3 ['>', 'i', 'h', 'i'] data 0 = .ok (corr, err, node, cur1))
    (h2 : readShortAscii data cur1 = .ok (host, cur2)) (h3 : ru1 ['>', 'i'] data cur2 = .ok (port, cur3)) :
    decodeConsumerMetadataResponse data = .ok ⟨err, node, host, port⟩ := by
  unfold decodeConsumerMetadataResponse
  simp only [fmt_decode_consumermetadata_response_0, fmt_decode_consumermetadata_response_1]
  rw [h1]; simp only; rw [h2]; simp only; rw [h3]

theorem correlationId_steps {data : Bytes} {corr cur1 : Int} (h1 : ru1 ['>', 'i'] data 0 = .ok (corr, cur1)) :
    getResponseCorrelationId data = .ok corr := by
  unfold getResponseCorrelationId
  simp only [fmt_get_response_correlation_id_0]
  rw [h1]

theorem apiVersionEntry_steps {data : Bytes} {k lo hi cur cur1 : Int}
    (h1 : ru3 ['>', 'h', 'h', 'h'] data cur = .ok (k, lo, hi, cur1)) :
    apiVersionEntry data cur = .ok (⟨k, lo, hi⟩, cur1) := by
  unfold apiVersionEntry
  simp only [fmt_decode_api_versions_response_1]
  rw [h1]

theorem apiVersions_steps {data : Bytes} {corr err n cur1 cur2 : Int} {vs : List ApiVersion}
    (h1 : ru3 ['>', 'i', 'h', 'i'] data 0 = .ok (corr, err, n, cur1))
    (h2 : repeatR (apiVersionEntry data) n.toNat cur1 = .ok (vs, cur2)) :
    decodeApiVersionsResponse data = .ok (err, vs) := by
  unfold decodeApiVersionsResponse
  simp only [fmt_decode_api_versions_response_0]
  rw [h1]; simp only; rw [h2]

theorem subscription_steps {data : Bytes} {ver n cur1 cur2 cur3 : Int} {subs : List Bytes} {ud : Option Bytes}
    (h1 : ru2 ['>', 'h', 'i'] data 0 = .ok (ver, n, cur1))
    (h2 : repeatR (readShortText data) n.toNat cur1 = .ok (subs, cur2))
    (h3 : readIntString data cur2 = .ok (ud, cur3)) :
    decodeJoinGroupProtocolMetadata data = .ok ⟨ver, subs, ud⟩ := by
  unfold decodeJoinGroupProtocolMetadata
  simp only [fmt_decode_join_group_protocol_metadata_0]
  rw [h1]; simp only; rw [h2]; simp only; rw [h3]

theorem joinGroupMember_steps {data : Bytes} {cur cur1 cur2 : Int} {mid : Bytes} {md : Option Bytes}
    (h1 : readShortText data cur = .ok (mid, cur1)) (h2 : readIntString data cur1 = .ok (md, cur2)) :
    joinGroupMember data cur = .ok ((mid, md), cur2) := by
  unfold joinGroupMember
  rw [h1]; simp only; rw [h2]

theorem joinGroup_steps {data : Bytes} {corr err gen n c1 c2 c3 c4 c5 c6 : Int} {proto leader member : Bytes}
    {members : List (Bytes × Option Bytes)}
    (h1 : ru3 ['>', 'i', 'h', 'i'] data 0 = .ok (corr, err, gen, c1))
    (h2 : readShortText data c1 = .ok (proto, c2)) (h3 : readShortText data c2 = .ok (leader, c3))
    (h4 : readShortText data c3 = .ok (member, c4)) (h5 : ru1 ['>', 'i'] data c4 = .ok (n, c5))
    (h6 : repeatR (joinGroupMember data) n.toNat c5 = .ok (members, c6)) :
    decodeJoinGroupResponse data = .ok ⟨err, gen, proto, leader, member, members⟩ := by
  unfold decodeJoinGroupResponse
  simp only [fmt_decode_join_group_response_0, fmt_decode_join_group_response_1]
  rw [h1]; simp only; rw [h2]; simp only; rw [h3]; simp only; rw [h4]; simp only; rw [h5]; simp only; rw [h6]

/-! ## instantiation on the grammar's encoding -/

/-- Heartbeat / LeaveGroup responses -/
theorem errorOnly_roundtrip (v : Spec.ErrorOnlyResp) (hv : Spec.errorOnlyResponse.valid v = true) :
    decodeErrorOnlyResponse ['>', 'i', 'h'] (Spec.errorOnlyResponse.enc v) = .ok v.2 := by
  obtain ⟨corr, err⟩ := v
  have h := seq_valid' hv
  have henc : Spec.errorOnlyResponse.enc (corr, err) = ofIntBE 4 corr ++ ofIntBE 2 err := rfl
  exact errorOnly_steps (ru2_ih_at0 (rest := []) (by rw [henc]; simp) (v32 h.1) (v16 h.2))

/-- SyncGroup response -/
theorem syncGroup_roundtrip (v : Spec.SyncGroupResp) (hv : Spec.syncGroupResponse.valid v = true) :
    decodeSyncGroupResponse (Spec.syncGroupResponse.enc v) = .ok (v.2.1, some v.2.2) := by
  obtain ⟨corr, err, b⟩ := v
  have h := seq_valid' hv
  have h' := seq_valid' h.2
  have henc : Spec.syncGroupResponse.enc (corr, err, b) = ofIntBE 4 corr ++ (ofIntBE 2 err ++ Codec.bytes.enc b) := rfl
  exact syncGroup_steps
    (ru2_ih_at0 (rest := Codec.bytes.enc b) (by rw [henc]; simp) (v32 h.1) (v16 h'.1))
    (ris_bytes_at (pre := ofIntBE 4 corr ++ ofIntBE 2 err) (rest := []) (b := b) (by rw [henc]; simp) h'.2)

/-- FindCoordinator response -/
theorem findCoordinator_roundtrip (v : Spec.FindCoordinatorResp) (e : ConsumerMetadataResp)
    (he : expectedFindCoordinator v = some e) :
    decodeConsumerMetadataResponse (Spec.findCoordinatorResponse.enc v) = .ok e := by
  obtain ⟨corr, err, node, host, port⟩ := v
  simp only [expectedFindCoordinator] at he
  split at he
  · rename_i hc
    cases he
    have hc := Bool.and_eq_true_iff.mp hc
    have h1v := seq_valid' hc.1
    have h2v := seq_valid' h1v.2
    have h3v := seq_valid' h2v.2
    have h4v := seq_valid' h3v.2
    have henc : Spec.findCoordinatorResponse.enc (corr, err, node, host, port) =
        ofIntBE 4 corr ++ (ofIntBE 2 err ++ (ofIntBE 4 node ++ (Codec.string.enc host ++ ofIntBE 4 port))) := rfl
    exact findCoordinator_steps
      (ru3_ihi_at0 (rest := Codec.string.enc host ++ ofIntBE 4 port) (by rw [henc]; simp) (v32 h1v.1) (v16 h2v.1) (v32 h3v.1))
      (rsa_at (pre := ofIntBE 4 corr ++ (ofIntBE 2 err ++ ofIntBE 4 node)) (rest := ofIntBE 4 port) (b := host)
        (by rw [henc]; simp) h4v.1 hc.2)
      (ru1_i_at (pre := ofIntBE 4 corr ++ (ofIntBE 2 err ++ ofIntBE 4 node) ++ Codec.string.enc host) (rest := []) (v := port)
        (by rw [henc]; simp) (v32 h4v.2))
  · cases he

/-- the correlation id every response starts with -/
theorem correlationId_roundtrip (corr : Int) (rest : Bytes) (hv : int32.valid corr = true) :
    getResponseCorrelationId (int32.enc corr ++ rest) = .ok corr :=
  correlationId_steps (ru1_i_at0 (rest := rest) (v := corr) (by rw [enc32]) (v32 hv))

/-- ApiVersions response (finding F3, repaired: the error code is the int16 it is) -/
theorem apiVersions_roundtrip (v : Spec.ApiVersionsResp) (e : Int × List ApiVersion)
    (he : expectedApiVersions v = some e) :
    decodeApiVersionsResponse (Spec.apiVersionsResponse.enc v) = .ok e := by
  obtain ⟨corr, err, vs⟩ := v
  simp only [expectedApiVersions] at he
  split at he
  · rename_i hc
    cases he
    have h1v := seq_valid' hc
    have h2v := seq_valid' h1v.2
    have ha := array_valid h2v.2
    have henc : Spec.apiVersionsResponse.enc (corr, err, vs) =
        ofIntBE 4 corr ++ (ofIntBE 2 err ++ (ofIntBE 4 (vs.length : Int) ++ encAll (int16 ⊗ int16 ⊗ int16) vs)) := rfl
    have hl := repeatR_at (int16 ⊗ int16 ⊗ int16) (fun a => (int16 ⊗ int16 ⊗ int16).valid a = true)
      (fun (x : Int × Int × Int) => (⟨x.1, x.2.1, x.2.2⟩ : ApiVersion))
      (data := Spec.apiVersionsResponse.enc (corr, err, vs)) (apiVersionEntry (Spec.apiVersionsResponse.enc (corr, err, vs)))
      (by
        intro pre rest a hav hd
        obtain ⟨k, lo, hi⟩ := a
        have q1 := seq_valid' hav
        have q2 := seq_valid' q1.2
        exact apiVersionEntry_steps
          (ru3_hhh_at (pre := pre) (rest := rest) (a := k) (b := lo) (c := hi) (by rw [hd]; rfl) (v16 q1.1) (v16 q2.1) (v16 q2.2)))
      (l := vs) (pre := ofIntBE 4 corr ++ (ofIntBE 2 err ++ ofIntBE 4 (vs.length : Int))) (rest := [])
      ha.2 (by rw [henc]; simp)
    exact apiVersions_steps
      (ru3_ihi_at0 (rest := encAll (int16 ⊗ int16 ⊗ int16) vs) (by rw [henc]; simp) (v32 h1v.1) (v16 h2v.1) ha.1)
      (by rw [Int.toNat_natCast]; exact hl)
  · cases he

/-- the subscription inside JoinGroup (`decode_join_group_protocol_metadata`) -/
theorem subscription_roundtrip (v : Spec.Subscription) (e : JoinGroupProtocolMetadata)
    (he : expectedSubscription v = some e) :
    decodeJoinGroupProtocolMetadata (Spec.subscription.enc v) = .ok e := by
  obtain ⟨ver, subs, ud⟩ := v
  simp only [expectedSubscription] at he
  split at he
  · rename_i hc
    cases he
    have hc := Bool.and_eq_true_iff.mp hc
    have h1v := seq_valid' hc.1
    have h2v := seq_valid' h1v.2
    have ha := array_valid h2v.1
    have htext : ∀ s ∈ subs, validUtf8 s = true := List.all_eq_true.mp hc.2
    have henc : Spec.subscription.enc (ver, subs, ud) =
        ofIntBE 2 ver ++ ((ofIntBE 4 (subs.length : Int) ++ encAll Codec.string subs) ++ Codec.nullableBytes.enc ud) := rfl
    have hl := repeatR_at Codec.string (fun a => Codec.string.valid a = true ∧ validUtf8 a = true) (fun (x : Bytes) => x)
      (data := Spec.subscription.enc (ver, subs, ud)) (readShortText (Spec.subscription.enc (ver, subs, ud)))
      (by
        intro pre rest a hav hd
        exact rst_at (pre := pre) (rest := rest) (b := a) hd hav.1 hav.2)
      (l := subs) (pre := ofIntBE 2 ver ++ ofIntBE 4 (subs.length : Int)) (rest := Codec.nullableBytes.enc ud)
      (by intro a ha'; exact ⟨ha.2 a ha', htext a ha'⟩)
      (by rw [henc]; simp only [List.append_assoc])
    rw [List.map_id'] at hl
    exact subscription_steps
      (ru2_hi_at0 (rest := encAll Codec.string subs ++ Codec.nullableBytes.enc ud) (by rw [henc]; simp) (v16 h1v.1) ha.1)
      (by rw [Int.toNat_natCast]; exact hl)
      (ris_nullable_at (pre := ofIntBE 2 ver ++ ofIntBE 4 (subs.length : Int) ++ encAll Codec.string subs) (rest := [])
        (by rw [henc]; simp) h2v.2)
  · cases he

end Afkak.Wire
