import AfkakProofs.Wire.Gzip
import AfkakProofs.Wire.Sound
/-!
# Message sets with compressed wrappers nested to ANY depth, for ANY decompressor

Whenever the protocol says what a message set contains (`Monitor.C05.expand … = some l`: every
wrapper's payload decompresses to bytes that PARSE as a message set, down to the nesting depth
given), the decoder yields exactly that.  Uses the converse law of the grammar (`messageSet_sound`):
bytes that parse as a message set are the encoding of what they parse to.
-/
namespace Afkak.Wire
open Afkak Afkak.Bytes Afkak.Codec Afkak.Consts Afkak.Monitor.C05

set_option synthInstance.maxSize 100000

theorem expandWith_cons (opener : Int → Spec.Msg → Option (List (Int × Spec.Msg))) (off : Int) (m : Spec.Msg)
    (rest l : List (Int × Spec.Msg)) (h : expandWith opener ((off, m) :: rest) = some l) :
    ∃ tail, expandWith opener rest = some tail ∧
      ((m.attributes % 8 = 0 ∧ l = (off, m) :: tail) ∨
       (m.attributes % 8 = 1 ∧ ∃ c, opener off m = some c ∧ l = c ++ tail)) := by
  simp only [expandWith] at h
  split at h
  · cases h
  · rename_i tail htail
    refine ⟨tail, htail, ?_⟩
    split at h
    · rename_i h0
      cases h
      exact Or.inl ⟨h0, rfl⟩
    · split at h
      · rename_i h1
        cases hc : opener off m with
        | none => simp [hc] at h
        | some c =>
          simp only [hc, Option.map_some, Option.some.injEq] at h
          exact Or.inr ⟨h1, c, rfl, h.symm⟩
      · cases h

/-- the loop, for any opener / inner-set decoder pair that agree on wrappers -/
theorem setLoop_general (ext : Ext) (recSet : Bytes → Gen)
    (opener : Int → Spec.Msg → Option (List (Int × Spec.Msg))) (data : Bytes)
    (Hw : ∀ off m c, (Spec.message ext.crc).valid m = true → m.attributes % 8 = 1 → opener off m = some c →
      decodeMessageWith ext recSet (some ((Spec.message ext.crc).enc m)) off = (c.map toOM, none)) :
    ∀ (entries : List (Int × Spec.Msg)) (pre : Bytes) (n : Nat) (rm : Bool) (l : List (Int × Spec.Msg)),
      entries.length ≤ n → (∀ e ∈ entries, (Spec.entry ext.crc).valid e = true) →
      data = pre ++ encAll (Spec.entry ext.crc) entries → expandWith opener entries = some l →
      setLoopWith ext recSet data n pre.length rm = (l.map toOM, none) := by
  intro entries
  induction entries with
  | nil =>
    intro pre n rm l _ _ hd hl
    simp only [expandWith, Option.some.injEq] at hl
    subst hl
    have : data = pre := by rw [hd]; simp [encAll]
    rw [← this]
    exact setLoop_end ext recSet data n rm
  | cons e es ih =>
    intro pre n rm l hn hv hd hl
    obtain ⟨off, m⟩ := e
    have hev := entry_valid (hv (off, m) List.mem_cons_self)
    obtain ⟨tail, htail, hcase⟩ := expandWith_cons opener off m es l hl
    cases n with
    | zero => simp at hn
    | succ n =>
      have hn' : es.length ≤ n := by simpa using hn
      have hq : packedBody ['q'] [off] = ofIntBE 8 off := by simp only [packedBody, widthOf, fieldSpec, List.append_nil]
      have hd1 : data = pre ++ packedBody ['q'] [off] ++
          (Codec.bytes.enc ((Spec.message ext.crc).enc m) ++ encAll (Spec.entry ext.crc) es) := by
        rw [hd, hq]; simp only [encAll, entry_enc, List.append_assoc]
      have hd2 : data = (pre ++ packedBody ['q'] [off]) ++ Codec.bytes.enc ((Spec.message ext.crc).enc m) ++
          encAll (Spec.entry ext.crc) es := by
        rw [hd1]; simp only [List.append_assoc]
      have hlt : (pre.length : Int) < (data.length : Int) := by
        rw [hd1]
        simp only [List.length_append, hq, ofIntBE_length]
        omega
      have hmsg : ∃ c, decodeMessageWith ext recSet (some ((Spec.message ext.crc).enc m)) off = (c.map toOM, none)
          ∧ l = c ++ tail := by
        rcases hcase with ⟨h0, hl0⟩ | ⟨h1, c, hc, hl1⟩
        · refine ⟨[(off, m)], ?_, by rw [hl0]; rfl⟩
          rw [message_roundtrip ext recSet off m hev.2.1 (mod8_to_mod4 h0 (by decide))]
          rfl
        · exact ⟨c, Hw off m c hev.2.1 h1 hc, hl1⟩
      obtain ⟨c, hdec, hlc⟩ := hmsg
      have step := setLoop_step' (ext := ext) (recSet := recSet) (n := n) (rm := rm) hlt
        (relativeUnpack_at ['q'] [off] (data := data) ⟨ok_q hev.1, trivial⟩ hd1)
        (ris_bytes_at (data := data) hd2 hev.2.2) hdec
      rw [step]
      have r := ih (pre ++ packedBody ['q'] [off] ++ Codec.bytes.enc ((Spec.message ext.crc).enc m)) n
        (rm || !(c.map toOM).isEmpty) tail hn' (fun x hx => hv x (List.mem_cons_of_mem _ hx)) hd2 htail
      rw [r, hlc]
      simp only [List.map_append]

/-- the decompressor as the grammar-side monitor sees it -/
def gunzipOpt (ext : Ext) (b : Bytes) : Option Bytes := (ext.gunzip (some b)).toOption

theorem gunzipOpt_some {ext : Ext} {gz raw : Bytes} (h : gunzipOpt ext gz = some raw) : ext.gunzip (some gz) = .ok raw := by
  unfold gunzipOpt at h
  cases hg : ext.gunzip (some gz) with
  | error e => simp [hg, Except.toOption] at h
  | ok x => simp only [hg, Except.toOption, Option.some.injEq] at h; rw [h]

theorem set_of_loop (ext : Ext) (recSet : Bytes → Gen) (opener : Int → Spec.Msg → Option (List (Int × Spec.Msg)))
    (Hw : ∀ off m c, (Spec.message ext.crc).valid m = true → m.attributes % 8 = 1 → opener off m = some c →
      decodeMessageWith ext recSet (some ((Spec.message ext.crc).enc m)) off = (c.map toOM, none))
    (entries l : List (Int × Spec.Msg)) (hv : (Spec.messageSet ext.crc).valid entries = true)
    (hl : expandWith opener entries = some l) :
    setLoopWith ext recSet ((Spec.messageSet ext.crc).enc entries)
      (((Spec.messageSet ext.crc).enc entries).length + 1) 0 false = (l.map toOM, none) := by
  have hvalid := many_valid hv
  have henc : (Spec.messageSet ext.crc).enc entries = encAll (Spec.entry ext.crc) entries := rfl
  rw [henc]
  generalize hdat : encAll (Spec.entry ext.crc) entries = data
  have hlen : entries.length ≤ data.length + 1 := by
    have : entries.length ≤ (encAll (Spec.entry ext.crc) entries).length := by
      apply encAll_length_ge
      intro a _ hnil
      have := congrArg List.length hnil
      rw [entry_enc] at this
      simp [List.length_append, ofIntBE_length] at this
    rw [hdat] at this
    omega
  have := setLoop_general ext recSet opener data Hw entries [] (data.length + 1) false l hlen hvalid
    (by rw [← hdat]; rfl) hl
  simpa using this

/-- **Nested sets, any depth**: what `expand` says the set contains is what the decoder yields. -/
theorem nested_sets (ext : Ext) : ∀ (d : Nat) (entries l : List (Int × Spec.Msg)),
    (Spec.messageSet ext.crc).valid entries = true → expand ext.crc (gunzipOpt ext) d entries = some l →
    decodeMessageSet ext (d + 1) ((Spec.messageSet ext.crc).enc entries) = (l.map toOM, none) := by
  intro d
  induction d with
  | zero =>
    intro entries l hv hl
    unfold expand at hl
    unfold decodeMessageSet
    exact set_of_loop ext _ _ (by intro off m c _ _ hc; cases hc) entries l hv hl
  | succ d ih =>
    intro entries l hv hl
    unfold expand at hl
    unfold decodeMessageSet
    apply set_of_loop ext _ _ _ entries l hv hl
    intro off m c hmv h1 hc
    unfold openWrapper at hc
    cases hval : m.value with
    | none => simp [hval] at hc
    | some gz =>
      cases hgz : gunzipOpt ext gz with
      | none => simp [hval, hgz] at hc
      | some raw =>
        cases hdec : (Spec.messageSet ext.crc).dec raw with
        | none => simp [hval, hgz, hdec] at hc
        | some inner =>
          cases hexp : expand ext.crc (gunzipOpt ext) d inner with
          | none => simp [hval, hgz, hdec, hexp] at hc
          | some flat =>
            simp only [hval, hgz, hdec, hexp] at hc
            have hs := Spec.messageSet_sound ext.crc raw inner hdec
            have hinner := ih inner flat hs.1 hexp
            rw [message_decode ext _ off m hmv]
            have h4 := mod8_to_mod4 h1 (by decide)
            have hcodec : ((m.attributes : Int)).toNat &&& attributeCodecMask = codecGzip.toNat := by
              have h3 : attributeCodecMask = 2 ^ 2 - 1 := by decide
              have h5 : codecGzip.toNat = 1 := by decide
              rw [Int.toNat_natCast, h3, Nat.and_two_pow_sub_one_eq_mod, h5]
              simpa using h4
            have hne : ¬ (codecGzip.toNat = codecNone.toNat) := by decide
            simp only [decodeCodec, hcodec, hne, if_false, if_true, hval, gunzipOpt_some hgz]
            rw [hs.2, hinner]
            by_cases hm : m.magic = 1
            · simp only [hm, if_true] at hc ⊢
              rw [v1Inner_map off flat]
              cases hlast : flat.getLast? with
              | none => simp only [hlast, Option.some.injEq] at hc; subst hc; rfl
              | some last => simp only [hlast, Option.some.injEq] at hc; subst hc; rfl
            · simp only [hm, if_false, Option.some.injEq] at hc ⊢
              subst hc
              rfl

end Afkak.Wire
