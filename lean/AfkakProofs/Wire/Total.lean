import AfkakProofs.Wire.GroupedReqs
import AfkakProofs.Wire.GroupCountConv
/-!
# No spurious refusal: on every argument list the grammar can carry, the encoders write a frame

The conformance theorems say "a frame that was written is the grammar's encoding of the caller's
values".  Here the other half: whenever the caller's values are ones the grammar can carry (every
integer fits its field, every string its length prefix), names are ASCII where afkak encodes them
with `.encode("ascii")`, and no (topic, partition) is named twice, the encoder does write a frame —
so the monitor's verdict on it is `ok`, not merely "not fail".
-/
namespace Afkak.Wire
open Afkak Afkak.Bytes Afkak.Codec Afkak.Consts Afkak.Monitor.C04

set_option synthInstance.maxSize 100000

variable {α β : Type}

/-! ## generic -/

theorem concatMapM_total (f : α → R Bytes) :
    ∀ (l : List α), (∀ a ∈ l, ∃ y, f a = .ok y) → ∃ x, concatMapM f l = .ok x := by
  intro l
  induction l with
  | nil => intro _; exact ⟨[], rfl⟩
  | cons a as ih =>
    intro h
    obtain ⟨y, hy⟩ := h a List.mem_cons_self
    obtain ⟨z, hz⟩ := ih (fun b hb => h b (List.mem_cons_of_mem _ hb))
    exact ⟨y ++ z, by simp only [concatMapM, hy, hz]⟩

/-- `mapM` pairs every element with its image -/
theorem mapM_mem (g : α → Option β) : ∀ (l : List α) (l' : List β), l.mapM g = some l' →
    ∀ a ∈ l, ∃ b ∈ l', g a = some b := by
  intro l
  induction l with
  | nil => intro l' _ a ha; cases ha
  | cons x xs ih =>
    intro l' h a ha
    rw [mapM_option_cons] at h
    cases hgx : g x with
    | none => simp [hgx] at h
    | some b =>
      cases hxs : xs.mapM g with
      | none => simp [hgx, hxs] at h
      | some bs =>
        simp only [hgx, hxs, Option.some.injEq] at h
        subst h
        rcases List.mem_cons.mp ha with rfl | ha'
        · exact ⟨b, List.mem_cons_self, hgx⟩
        · obtain ⟨b', hb', hg⟩ := ih bs hxs a ha'
          exact ⟨b', List.mem_cons_of_mem _ hb', hg⟩

/-! ## primitives -/

theorem fits2_len {n : Nat} (h : IntFits 2 (n : Int)) : n ≤ 32767 := by
  simp only [IntFits] at h; omega

theorem writeShortBytes_total {b : Bytes} (h : IntFits 2 (b.length : Int)) : ∃ x, writeShortBytes (some b) = .ok x := by
  have hl := fits2_len h
  simp only [writeShortBytes]
  rw [if_neg (by simp only [shortBytesMax]; omega)]
  simp only [fmt_write_short_bytes_0]
  rw [pack_ok (by simp only [fieldsOk, fieldSpec, and_true]; exact (fits2 _).mpr h)]
  exact ⟨_, rfl⟩

theorem writeShortAscii_total {s : Bytes} (ha : isAscii s = true) (h : IntFits 2 (s.length : Int)) :
    ∃ x, writeShortAscii (some s) = .ok x := by
  simp only [writeShortAscii, ha, if_true]
  exact writeShortBytes_total h

theorem writeShortText_total {s : Bytes} (h : IntFits 2 (s.length : Int)) : ∃ x, writeShortText (some s) = .ok x := by
  simp only [writeShortText]
  exact writeShortBytes_total h

theorem writeShortBytes_opt_total {b : Option Bytes} (h : Codec.nullableString.valid b = true) :
    ∃ x, writeShortBytes b = .ok x := by
  cases b with
  | none =>
    simp only [writeShortBytes, nullShortString, fmt_null_short_string, nullShortLen]
    rw [pack_ok (by simp only [fieldsOk, fieldSpec, and_true]; exact (fits2 _).mpr (nullablePrefixed_valid_none h))]
    exact ⟨_, rfl⟩
  | some b => exact writeShortBytes_total (nullablePrefixed_valid_some h)

theorem encodeHeader_total {cid : Bytes} {corr key ver : Int}
    (h : Spec.header.valid ⟨key, ver, corr, some cid⟩ = true) : ∃ x, encodeHeader cid corr key ver = .ok x := by
  have h1 := seq_valid (a := int16) (b := int16 ⊗ int32 ⊗ nullableString) (p := (key, ver, corr, some cid))
    (by simpa [Spec.header, iso] using h)
  have h2 := seq_valid h1.2
  have h3 := seq_valid h2.2
  simp only [encodeHeader, fmt_encode_message_header_0]
  rw [pack_ok (by
    simp only [fieldsOk, fieldSpec, and_true]
    exact ⟨(fits2 _).mpr (intN_valid h1.1), (fits2 _).mpr (intN_valid h2.1), (fits4 _).mpr (intN_valid h3.1),
      (fits2 _).mpr (nullablePrefixed_valid_some h3.2)⟩)]
  exact ⟨_, rfl⟩

theorem pack_i_total {v : Int} (h : IntFits 4 v) : ∃ x, pack ['>', 'i'] [v] = .ok x := by
  rw [pack_ok (by simp only [fieldsOk, fieldSpec, and_true]; exact (fits4 _).mpr h)]
  exact ⟨_, rfl⟩

/-! ## the topic loop -/

theorem topics_total (topic : α → Option Bytes) (partition : α → Int) (item : α → Option β) (c : Codec (Int × β))
    (partEntry : Int × α → R Bytes)
    (hitem : ∀ q b, itemMap item q = some b → c.valid b = true → ∃ y, partEntry q = .ok y)
    (xs : List α) (l : List (Bytes × (Int × β))) (hk : keyed topic partition item xs = some l)
    (hnd : (xs.map (fun x => (topic x, partition x))).Nodup)
    (hvalid : (Spec.topics c).valid (regroup l) = true)
    (hascii : ∀ e ∈ regroup l, isAscii e.1 = true) :
    ∃ body, concatMapM (topicEntry ['>', 'i'] partEntry) (groupByTopicPartition topic partition xs) = .ok body := by
  have hg := (group_mapM_regroup topic partition item xs l hk hnd).1
  have hv := (array_valid hvalid).2
  apply concatMapM_total
  intro tp htp
  obtain ⟨r, hr, hm⟩ := mapM_mem (topicMap item) _ _ hg tp htp
  obtain ⟨h1, h2⟩ := topicMap_some hm
  have hrv := seq_valid (hv r hr)
  have hps := array_valid hrv.2
  obtain ⟨t, x1⟩ := writeShortAscii_total (hascii r hr) (lenPrefixed_valid hrv.1)
  have hlen : tp.2.length = r.2.length := (mapM_length _ _ _ h2).symm
  obtain ⟨n, x2⟩ := pack_i_total (v := (tp.2.length : Int)) (by rw [hlen]; exact hps.1)
  obtain ⟨ps, x3⟩ := concatMapM_total partEntry tp.2 (by
    intro q hq
    obtain ⟨b, hb, hqb⟩ := mapM_mem (itemMap item) _ _ h2 q hq
    exact hitem q b hqb (hps.2 b hb))
  refine ⟨t ++ n ++ ps, ?_⟩
  unfold topicEntry
  rw [h1, x1]
  simp only [x2, x3]

/-! ## Fetch -/

theorem fetch_total {cid : Bytes} {corr wait minb ver v : Int} {ps : List FetchReq}
    {l : List (Bytes × (Int × (Int × Int)))}
    (hv : implementedVersion ver = some v)
    (hk : keyed FetchReq.topic FetchReq.partition (fun p => some (p.offset, p.maxBytes)) ps = some l)
    (hnd : (ps.map (fun p => (p.topic, p.partition))).Nodup)
    (hvalid : (Spec.request Spec.fetchRequest).valid (hdr 1 v corr cid, -1, wait, minb, regroup l) = true)
    (hascii : ∀ e ∈ regroup l, isAscii e.1 = true) :
    ∃ frame, encodeFetchRequest cid corr ps wait minb ver = .ok frame := by
  have hw := seq_valid (a := Spec.header) (b := Spec.fetchRequest) hvalid
  have b1 := seq_valid (a := int32) hw.2
  have b2 := seq_valid (a := int32) b1.2
  have b3 := seq_valid (a := int32) b2.2
  obtain ⟨hd, x1⟩ := encodeHeader_total (key := 1) hw.1
  obtain ⟨body, x3⟩ := topics_total FetchReq.topic FetchReq.partition (fun p => some (p.offset, p.maxBytes))
    (int32 ⊗ int64 ⊗ int32) fetchPartEntry
    (by
      intro q b hq hb
      simp only [itemMap, Option.map_some, Option.some.injEq] at hq
      subst hq
      have c1 := seq_valid (a := int32) hb
      have c2 := seq_valid (a := int64) c1.2
      unfold fetchPartEntry
      simp only [fmt_encode_fetch_request_2]
      rw [pack_ok (by
        simp only [fieldsOk, fieldSpec, and_true]
        exact ⟨(fits4 _).mpr (intN_valid c1.1), (fits8 _).mpr (intN_valid c2.1), (fits4 _).mpr (intN_valid c2.2)⟩)]
      exact ⟨_, rfl⟩)
    ps l hk hnd b3.2 hascii
  have hlen := (group_mapM_regroup FetchReq.topic FetchReq.partition _ ps l hk hnd).2
  have hn := (array_valid (c := Codec.string ⊗ array (int32 ⊗ int64 ⊗ int32)) b3.2).1
  unfold encodeFetchRequest
  simp only
  rw [if_neg (by rw [(payloadCount_eq_iff FetchReq.topic FetchReq.partition ps).mpr hnd]; simp)]
  rw [clamp_fetch hv]
  simp only [hdrKey_encode_fetch_request, fmt_encode_fetch_request_0, argc_encode_fetch_request_0_0,
    fmt_encode_fetch_request_1] at x1 ⊢
  rw [x1]
  simp only
  rw [pack_ok (by
    simp only [fieldsOk, fieldSpec, and_true]
    exact ⟨(fits4 _).mpr (intN_valid b1.1), (fits4 _).mpr (intN_valid b2.1), (fits4 _).mpr (intN_valid b3.1),
      (fits4 _).mpr (by rw [hlen]; exact hn)⟩)]
  simp only [x3]
  exact ⟨_, rfl⟩

/-! ## ListOffsets -/

theorem listOffsets_total {cid : Bytes} {corr : Int} {ps : List OffsetReq}
    {l : List (Bytes × (Int × (Int × Int)))}
    (hk : keyed OffsetReq.topic OffsetReq.partition (fun p => some (p.time, p.maxOffsets)) ps = some l)
    (hnd : (ps.map (fun p => (p.topic, p.partition))).Nodup)
    (hvalid : (Spec.request Spec.listOffsetsRequest).valid (hdr 2 0 corr cid, -1, regroup l) = true)
    (hascii : ∀ e ∈ regroup l, isAscii e.1 = true) :
    ∃ frame, encodeOffsetRequest cid corr ps = .ok frame := by
  have hw := seq_valid (a := Spec.header) (b := Spec.listOffsetsRequest) hvalid
  have b1 := seq_valid (a := int32) hw.2
  obtain ⟨hd, x1⟩ := encodeHeader_total (key := 2) hw.1
  obtain ⟨body, x3⟩ := topics_total OffsetReq.topic OffsetReq.partition (fun p => some (p.time, p.maxOffsets))
    (int32 ⊗ int64 ⊗ int32) offsetPartEntry
    (by
      intro q b hq hb
      simp only [itemMap, Option.map_some, Option.some.injEq] at hq
      subst hq
      have c1 := seq_valid (a := int32) hb
      have c2 := seq_valid (a := int64) c1.2
      unfold offsetPartEntry
      simp only [fmt_encode_offset_request_2]
      rw [pack_ok (by
        simp only [fieldsOk, fieldSpec, and_true]
        exact ⟨(fits4 _).mpr (intN_valid c1.1), (fits8 _).mpr (intN_valid c2.1), (fits4 _).mpr (intN_valid c2.2)⟩)]
      exact ⟨_, rfl⟩)
    ps l hk hnd b1.2 hascii
  have hlen := (group_mapM_regroup OffsetReq.topic OffsetReq.partition _ ps l hk hnd).2
  have hn := (array_valid (c := Codec.string ⊗ array (int32 ⊗ int64 ⊗ int32)) b1.2).1
  unfold encodeOffsetRequest
  simp only
  rw [if_neg (by rw [(payloadCount_eq_iff OffsetReq.topic OffsetReq.partition ps).mpr hnd]; simp)]
  simp only [hdrKey_encode_offset_request, hdrVer_encode_offset_request, fmt_encode_offset_request_0,
    argc_encode_offset_request_0_0, fmt_encode_offset_request_1] at x1 ⊢
  rw [x1]
  simp only
  rw [pack_ok (by
    simp only [fieldsOk, fieldSpec, and_true]
    exact ⟨(fits4 _).mpr (intN_valid b1.1), (fits4 _).mpr (by rw [hlen]; exact hn)⟩)]
  simp only [x3]
  exact ⟨_, rfl⟩

/-! ## OffsetFetch -/

theorem map_valid_fst {l : List (Bytes × List (Int × Unit))}
    (h : (Spec.topics int32).valid (l.map (fun e => (e.1, e.2.map (·.1)))) = true) :
    (Spec.topics (int32 ⊗ Codec.unit)).valid l = true := by
  have hv := array_valid h
  simp only [Spec.topics, array, Bool.and_eq_true, List.all_eq_true]
  refine ⟨by have := (intFitsB_iff 4 _).mpr hv.1; simpa using this, ?_⟩
  intro e he
  have h1 := seq_valid (hv.2 (e.1, e.2.map (·.1)) (List.mem_map.mpr ⟨e, he, rfl⟩))
  have h2 := array_valid h1.2
  simp only [seq, Bool.and_eq_true, List.all_eq_true]
  refine ⟨h1.1, by have := (intFitsB_iff 4 _).mpr h2.1; simpa using this, ?_⟩
  intro q hq
  have := h2.2 q.1 (List.mem_map.mpr ⟨q, hq, rfl⟩)
  simp only [Codec.unit]
  exact ⟨this, trivial⟩

theorem offsetFetch_total {cid g : Bytes} {corr : Int} {ps : List OffsetFetchReq}
    {l : List (Bytes × (Int × Unit))}
    (hk : keyed OffsetFetchReq.topic OffsetFetchReq.partition (fun _ => some ()) ps = some l)
    (hnd : (ps.map (fun p => (p.topic, p.partition))).Nodup)
    (hvalid : (Spec.request Spec.offsetFetchRequest).valid
      (hdr 9 1 corr cid, g, (regroup l).map (fun e => (e.1, e.2.map (·.1)))) = true)
    (hascii : ∀ e ∈ regroup l, isAscii e.1 = true) :
    ∃ frame, encodeOffsetFetchRequest cid corr (some g) ps = .ok frame := by
  have hw := seq_valid (a := Spec.header) (b := Spec.offsetFetchRequest) hvalid
  have b1 := seq_valid (a := Codec.string) hw.2
  have hv' := map_valid_fst b1.2
  obtain ⟨hd, x1⟩ := encodeHeader_total (key := 9) hw.1
  obtain ⟨gb, x2⟩ := writeShortText_total (lenPrefixed_valid b1.1)
  obtain ⟨body, x3⟩ := topics_total OffsetFetchReq.topic OffsetFetchReq.partition (fun _ => some ())
    (int32 ⊗ Codec.unit) offsetFetchPartEntry
    (by
      intro q b hq hb
      simp only [itemMap, Option.map_some, Option.some.injEq] at hq
      subst hq
      have c1 := seq_valid (a := int32) hb
      unfold offsetFetchPartEntry
      simp only [fmt_encode_offset_fetch_request_2]
      rw [pack_ok (by simp only [fieldsOk, fieldSpec, and_true]; exact (fits4 _).mpr (intN_valid c1.1))]
      exact ⟨_, rfl⟩)
    ps l hk hnd hv' hascii
  have hlen := (group_mapM_regroup OffsetFetchReq.topic OffsetFetchReq.partition _ ps l hk hnd).2
  have hn := (array_valid (c := Codec.string ⊗ array (int32 ⊗ Codec.unit)) hv').1
  unfold encodeOffsetFetchRequest
  simp only
  rw [if_neg (by rw [(payloadCount_eq_iff OffsetFetchReq.topic OffsetFetchReq.partition ps).mpr hnd]; simp)]
  simp only [hdrKey_encode_offset_fetch_request, hdrVer_encode_offset_fetch_request, fmt_encode_offset_fetch_request_0,
    fmt_encode_offset_fetch_request_1] at x1 ⊢
  rw [x1]
  simp only [x2]
  rw [pack_ok (by simp only [fieldsOk, fieldSpec, and_true]; exact (fits4 _).mpr (by rw [hlen]; exact hn))]
  simp only [x3]
  exact ⟨_, rfl⟩

/-! ## OffsetCommit -/

theorem offsetCommit_total {cid g c : Bytes} {corr gen : Int} {ps : List OffsetCommitReq}
    {l : List (Bytes × (Int × (Int × Int × Option Bytes)))}
    (hk : keyed OffsetCommitReq.topic OffsetCommitReq.partition (fun p => some (p.offset, p.timestamp, p.metadata)) ps = some l)
    (hnd : (ps.map (fun p => (p.topic, p.partition))).Nodup)
    (hvalid : (Spec.request Spec.offsetCommitRequest).valid (hdr 8 1 corr cid, g, gen, c, regroup l) = true)
    (hascii : ∀ e ∈ regroup l, isAscii e.1 = true) :
    ∃ frame, encodeOffsetCommitRequest cid corr (some g) gen (some c) ps = .ok frame := by
  have hw := seq_valid (a := Spec.header) (b := Spec.offsetCommitRequest) hvalid
  have b1 := seq_valid (a := Codec.string) hw.2
  have b2 := seq_valid (a := int32) b1.2
  have b3 := seq_valid (a := Codec.string) b2.2
  obtain ⟨hd, x1⟩ := encodeHeader_total (key := 8) hw.1
  obtain ⟨gb, x2⟩ := writeShortText_total (lenPrefixed_valid b1.1)
  obtain ⟨cb, x4⟩ := writeShortText_total (lenPrefixed_valid b3.1)
  obtain ⟨body, x3⟩ := topics_total OffsetCommitReq.topic OffsetCommitReq.partition
    (fun p => some (p.offset, p.timestamp, p.metadata))
    (int32 ⊗ int64 ⊗ int64 ⊗ nullableString) offsetCommitPartEntry
    (by
      intro q b hq hb
      simp only [itemMap, Option.map_some, Option.some.injEq] at hq
      subst hq
      have c1 := seq_valid (a := int32) hb
      have c2 := seq_valid (a := int64) c1.2
      have c3 := seq_valid (a := int64) c2.2
      obtain ⟨md, y⟩ := writeShortBytes_opt_total c3.2
      simp only at y
      unfold offsetCommitPartEntry
      simp only [fmt_encode_offset_commit_request_3]
      rw [pack_ok (by
        simp only [fieldsOk, fieldSpec, and_true]
        exact ⟨(fits4 _).mpr (intN_valid c1.1), (fits8 _).mpr (intN_valid c2.1), (fits8 _).mpr (intN_valid c3.1)⟩)]
      simp only [y]
      exact ⟨_, rfl⟩)
    ps l hk hnd b3.2 hascii
  have hlen := (group_mapM_regroup OffsetCommitReq.topic OffsetCommitReq.partition _ ps l hk hnd).2
  have hn := (array_valid (c := Codec.string ⊗ array (int32 ⊗ int64 ⊗ int64 ⊗ nullableString)) b3.2).1
  unfold encodeOffsetCommitRequest
  simp only [Option.isNone_some, Bool.false_eq_true, if_false]
  rw [if_neg (by rw [(payloadCount_eq_iff OffsetCommitReq.topic OffsetCommitReq.partition ps).mpr hnd]; simp)]
  simp only [hdrKey_encode_offset_commit_request, hdrVer_encode_offset_commit_request,
    fmt_encode_offset_commit_request_0, fmt_encode_offset_commit_request_1, fmt_encode_offset_commit_request_2] at x1 ⊢
  rw [x1]
  simp only [x2]
  rw [pack_ok (by simp only [fieldsOk, fieldSpec, and_true]; exact (fits4 _).mpr (intN_valid b2.1))]
  simp only [x4]
  rw [pack_ok (by simp only [fieldsOk, fieldSpec, and_true]; exact (fits4 _).mpr (by rw [hlen]; exact hn))]
  simp only [x3]
  exact ⟨_, rfl⟩

/-! ## requests without topic grouping -/

theorem metadata_total {cid : Bytes} {corr : Int} {topics : List (Option Bytes)} {ts : List Bytes}
    (ht : topics.mapM id = some ts)
    (hvalid : (Spec.request Spec.metadataRequest).valid (hdr 3 0 corr cid, ts) = true)
    (hascii : ∀ t ∈ ts, isAscii t = true) :
    ∃ frame, encodeMetadataRequest cid corr topics = .ok frame := by
  have hw := seq_valid (a := Spec.header) (b := Spec.metadataRequest) hvalid
  have hv := array_valid (c := Codec.string) hw.2
  obtain ⟨hd, x1⟩ := encodeHeader_total (key := 3) hw.1
  obtain ⟨tb, x3⟩ := concatMapM_total writeShortAscii topics (by
    intro a ha
    obtain ⟨b, hb, hab⟩ := mapM_mem id _ _ ht a ha
    simp only [id] at hab
    subst hab
    exact writeShortAscii_total (hascii b hb) (lenPrefixed_valid (hv.2 b hb)))
  unfold encodeMetadataRequest
  simp only [hdrKey_encode_metadata_request, hdrVer_encode_metadata_request, fmt_encode_metadata_request_0] at x1 ⊢
  rw [x1]
  simp only
  rw [pack_ok (by
    simp only [fieldsOk, fieldSpec, and_true]
    exact (fits4 _).mpr (by rw [← mapM_length _ _ _ ht]; exact hv.1))]
  simp only [x3]
  exact ⟨_, rfl⟩

theorem findCoordinator_total {cid g : Bytes} {corr : Int}
    (hvalid : (Spec.request Spec.findCoordinatorRequest).valid (hdr 10 0 corr cid, g) = true) :
    ∃ frame, encodeConsumerMetadataRequest cid corr (some g) = .ok frame := by
  have hw := seq_valid (a := Spec.header) (b := Spec.findCoordinatorRequest) hvalid
  obtain ⟨hd, x1⟩ := encodeHeader_total (key := 10) hw.1
  obtain ⟨gb, x2⟩ := writeShortText_total (lenPrefixed_valid hw.2)
  unfold encodeConsumerMetadataRequest
  simp only [hdrKey_encode_consumermetadata_request, hdrVer_encode_consumermetadata_request] at x1 ⊢
  rw [x1]
  simp only [x2]
  exact ⟨_, rfl⟩

theorem heartbeat_total {cid g m : Bytes} {corr gen : Int}
    (hvalid : (Spec.request Spec.heartbeatRequest).valid (hdr 12 0 corr cid, g, gen, m) = true) :
    ∃ frame, encodeHeartbeatRequest cid corr (some g) gen (some m) = .ok frame := by
  have hw := seq_valid (a := Spec.header) (b := Spec.heartbeatRequest) hvalid
  have b1 := seq_valid (a := Codec.string) hw.2
  have b2 := seq_valid (a := int32) b1.2
  obtain ⟨hd, x1⟩ := encodeHeader_total (key := 12) hw.1
  obtain ⟨gb, x2⟩ := writeShortText_total (lenPrefixed_valid b1.1)
  obtain ⟨mb, x3⟩ := writeShortText_total (lenPrefixed_valid b2.2)
  unfold encodeHeartbeatRequest
  simp only [hdrKey_encode_heartbeat_request, hdrVer_encode_heartbeat_request, fmt_encode_heartbeat_request_0] at x1 ⊢
  rw [x1]
  simp only [x2]
  rw [pack_ok (by simp only [fieldsOk, fieldSpec, and_true]; exact (fits4 _).mpr (intN_valid b2.1))]
  simp only [x3]
  exact ⟨_, rfl⟩

theorem leaveGroup_total {cid g m : Bytes} {corr : Int}
    (hvalid : (Spec.request Spec.leaveGroupRequest).valid (hdr 13 0 corr cid, g, m) = true) :
    ∃ frame, encodeLeaveGroupRequest cid corr (some g) (some m) = .ok frame := by
  have hw := seq_valid (a := Spec.header) (b := Spec.leaveGroupRequest) hvalid
  have b1 := seq_valid (a := Codec.string) hw.2
  obtain ⟨hd, x1⟩ := encodeHeader_total (key := 13) hw.1
  obtain ⟨gb, x2⟩ := writeShortText_total (lenPrefixed_valid b1.1)
  obtain ⟨mb, x3⟩ := writeShortText_total (lenPrefixed_valid b1.2)
  unfold encodeLeaveGroupRequest
  simp only [hdrKey_encode_leave_group_request, hdrVer_encode_leave_group_request] at x1 ⊢
  rw [x1]
  simp only [x2, x3]
  exact ⟨_, rfl⟩

theorem apiVersions_total {cid : Bytes} {corr : Int}
    (hvalid : (Spec.request Spec.apiVersionsRequest).valid (hdr 18 0 corr cid, ()) = true) :
    ∃ frame, encodeApiVersionsRequest cid corr 18 0 = .ok frame := by
  have hw := seq_valid (a := Spec.header) (b := Spec.apiVersionsRequest) hvalid
  obtain ⟨hd, x1⟩ := encodeHeader_total (key := 18) hw.1
  unfold encodeApiVersionsRequest
  exact ⟨hd, x1⟩

end Afkak.Wire
