import AfkakProofs.Wire.RespProofs2
/-!
# The generator-style decoders: `[topic [partition item]]` responses
-/
namespace Afkak.Wire
open Afkak Afkak.Bytes Afkak.Codec Afkak.Consts Afkak.Monitor.C05

set_option synthInstance.maxSize 100000

theorem flatMap_singleton {α β : Type} (g : α → β) (l : List α) : l.flatMap (fun a => [g a]) = l.map g := by
  induction l with
  | nil => rfl
  | cons a as ih => simp only [List.flatMap_cons, List.map_cons, ih, List.singleton_append]

/-- what makes a topic entry of the grammar readable by afkak's topic loops -/
def TopicOk {α : Type} (c : Codec α) (Pp : α → Prop) (tp : Bytes × List α) : Prop :=
  Codec.string.valid tp.1 = true ∧ isAscii tp.1 = true ∧ IntFits 4 (tp.2.length : Int) ∧ ∀ p ∈ tp.2, Pp p

/-- The shape all topic loops share: read the ASCII topic, the partition count, then the partitions. -/
theorem topicLoop_at {α β : Type} (c : Codec α) (Pp : α → Prop) (g : Bytes → α → β) {data : Bytes}
    (topicBody : Int → G β) (partBody : Bytes → Int → G β)
    (htopic : ∀ (cur c1 c2 c3 n : Int) (topic : Bytes) (items : List β),
      readShortAscii data cur = .ok (topic, c1) → ru1 ['>', 'i'] data c1 = .ok (n, c2) →
      repeatG (partBody topic) n.toNat c2 = (items, .ok c3) → topicBody cur = (items, .ok c3))
    (hpart : ∀ (topic pre rest : Bytes) (a : α), Pp a → data = pre ++ c.enc a ++ rest →
      partBody topic pre.length = ([g topic a], .ok ((pre ++ c.enc a).length : Int)))
    {topics : List (Bytes × List α)} {pre rest : Bytes} (hv : ∀ tp ∈ topics, TopicOk c Pp tp)
    (hd : data = pre ++ encAll (Codec.string ⊗ array c) topics ++ rest) :
    repeatG topicBody topics.length pre.length =
      (flatten g topics, .ok ((pre ++ encAll (Codec.string ⊗ array c) topics).length : Int)) := by
  have := repeatG_at (Codec.string ⊗ array c) (TopicOk c Pp) (fun tp => tp.2.map (g tp.1)) (data := data) topicBody
    (by
      intro pre rest tp hok hd
      obtain ⟨t, ps⟩ := tp
      obtain ⟨hs, ha, hn, hp⟩ := hok
      have e : pre ++ (Codec.string ⊗ array c).enc (t, ps) =
          pre ++ Codec.string.enc t ++ ofIntBE 4 (ps.length : Int) ++ encAll c ps := by
        simp only [seq_enc, array_enc', List.append_assoc]
      have hd' : data = pre ++ Codec.string.enc t ++ (ofIntBE 4 (ps.length : Int) ++ (encAll c ps ++ rest)) := by
        rw [hd]; simp only [seq_enc, array_enc', List.append_assoc]
      have hd2 : data = (pre ++ Codec.string.enc t) ++ ofIntBE 4 (ps.length : Int) ++ (encAll c ps ++ rest) := by
        rw [hd']; simp only [List.append_assoc]
      have hd3 : data = (pre ++ Codec.string.enc t ++ ofIntBE 4 (ps.length : Int)) ++ encAll c ps ++ rest := by
        rw [hd']; simp only [List.append_assoc]
      have hl := repeatG_at c Pp (fun p => [g t p]) (data := data) (partBody t)
        (fun pre rest a hpa hda => hpart t pre rest a hpa hda) (l := ps) hp hd3
      rw [flatMap_singleton] at hl
      rw [e]
      exact htopic _ _ _ _ _ t _ (rsa_at (data := data) hd' hs ha) (ru1_i_at (data := data) hd2 hn)
        (by rw [Int.toNat_natCast]; exact hl))
    (l := topics) hv hd
  exact this

/-! ## Produce -/

theorem producePartition_narrow_steps {data topic : Bytes} {cur p e o c1 : Int}
    (h1 : ru3 ['>', 'i', 'h', 'q'] data cur = .ok (p, e, o, c1)) :
    producePartition ['>', 'i', 'h', 'q'] false data topic cur = ([⟨topic, p, e, o⟩], .ok c1) := by
  unfold producePartition
  simp only [Bool.false_eq_true, if_false]
  rw [h1]

theorem producePartition_wide_steps {data topic : Bytes} {cur p e o t c1 : Int}
    (h1 : ru4 ['>', 'i', 'h', 'q', 'q'] data cur = .ok (p, e, o, t, c1)) :
    producePartition ['>', 'i', 'h', 'q', 'q'] true data topic cur = ([⟨topic, p, e, o⟩], .ok c1) := by
  unfold producePartition
  simp only [if_true]
  rw [h1]

theorem produceTopic_steps {fmtP : List Char} {wide : Bool} {data topic : Bytes} {cur c1 c2 c3 n : Int}
    {items : List ProduceResp}
    (h1 : readShortAscii data cur = .ok (topic, c1)) (h2 : ru1 ['>', 'i'] data c1 = .ok (n, c2))
    (h3 : repeatG (producePartition fmtP wide data topic) n.toNat c2 = (items, .ok c3)) :
    produceTopic ['>', 'i'] fmtP wide data cur = (items, .ok c3) := by
  unfold produceTopic
  rw [h1]; simp only; rw [h2]; simp only; rw [h3]

theorem produceV0_steps {data : Bytes} {corr n c1 c2 : Int} {items : List ProduceResp}
    (h1 : ru2 ['>', 'i', 'i'] data 0 = .ok (corr, n, c1))
    (h2 : repeatG (produceTopic ['>', 'i'] ['>', 'i', 'h', 'q'] false data) n.toNat c1 = (items, .ok c2)) :
    decodeProduceResponse data 0 = .ok (items, .ok c2) := by
  unfold decodeProduceResponse
  simp only [produceRespV0Is, if_true, fmt_decode_produce_response_v0_0, fmt_decode_produce_response_v0_1,
    fmt_decode_produce_response_v0_2, produceTopics]
  rw [h1]; simp only; rw [h2]

theorem produceV2_steps {data : Bytes} {corr n c1 c2 c3 : Int} {items : List ProduceResp} {tt : List Int}
    (h1 : ru2 ['>', 'i', 'i'] data 0 = .ok (corr, n, c1))
    (h2 : repeatG (produceTopic ['>', 'i'] ['>', 'i', 'h', 'q', 'q'] true data) n.toNat c1 = (items, .ok c2))
    (h3 : relativeUnpack ['>', 'i'] data c2 = .ok (tt, c3)) :
    decodeProduceResponse data 2 = .ok (items, .ok c3) := by
  unfold decodeProduceResponse
  have hne : ¬ ((2 : Int) = produceRespV0Is) := by decide
  have hge : (2 : Int) ≥ produceRespV2From := by decide
  simp only [hne, if_false, hge, if_true, fmt_decode_produce_response_v2_0, fmt_decode_produce_response_v2_1,
    fmt_decode_produce_response_v2_2, fmt_decode_produce_response_v2_3, produceTopics]
  rw [h1]; simp only; rw [h2]; simp only; rw [h3]

theorem topicsOk_of_valid {α : Type} {c : Codec α} {topics : List (Bytes × List α)}
    (hv : (Spec.topics c).valid topics = true) (ha : topicsAscii topics = true) :
    IntFits 4 (topics.length : Int) ∧ ∀ tp ∈ topics, TopicOk c (fun p => c.valid p = true) tp := by
  have h := array_valid hv
  refine ⟨h.1, ?_⟩
  intro tp htp
  obtain ⟨t, ps⟩ := tp
  have h2 := seq_valid' (h.2 (t, ps) htp)
  have h3 := array_valid h2.2
  have hasc : isAscii t = true := by
    have := List.all_eq_true.mp ha t (List.mem_map.mpr ⟨(t, ps), htp, rfl⟩)
    exact this
  exact ⟨h2.1, hasc, h3.1, h3.2⟩

/-- Produce v0 response -/
theorem produceV0_roundtrip (v : Spec.ProduceRespV0) (e : List ProduceResp) (he : expectedProduceV0 v = some (e, true)) :
    ∃ cur, decodeProduceResponse (Spec.produceResponseV0.enc v) 0 = .ok (e, .ok cur) := by
  obtain ⟨corr, topics⟩ := v
  simp only [expectedProduceV0] at he
  split at he
  · rename_i hc
    simp only [Option.some.injEq, Prod.mk.injEq, and_true] at he
    subst he
    have hc := Bool.and_eq_true_iff.mp hc
    have h1 := seq_valid' hc.1
    have ht := topicsOk_of_valid h1.2 hc.2
    have henc : Spec.produceResponseV0.enc (corr, topics) =
        ofIntBE 4 corr ++ (ofIntBE 4 (topics.length : Int) ++ encAll (Codec.string ⊗ array (int32 ⊗ int16 ⊗ int64)) topics) := rfl
    generalize Spec.produceResponseV0.enc (corr, topics) = data at henc ⊢
    have hl := topicLoop_at (int32 ⊗ int16 ⊗ int64) (fun p => (int32 ⊗ int16 ⊗ int64).valid p = true)
      (fun t (p : Int × Int × Int) => (⟨t, p.1, p.2.1, p.2.2⟩ : ProduceResp)) (data := data)
      (produceTopic ['>', 'i'] ['>', 'i', 'h', 'q'] false data) (producePartition ['>', 'i', 'h', 'q'] false data)
      (fun _ _ _ _ _ _ _ a b c => produceTopic_steps a b c)
      (by
        intro topic pre rest a hpa hda
        obtain ⟨p, er, o⟩ := a
        have q1 := seq_valid' hpa
        have q2 := seq_valid' q1.2
        exact producePartition_narrow_steps
          (ru3_ihq_at (data := data) (pre := pre) (rest := rest) (by rw [hda]; rfl) (v32 q1.1) (v16 q2.1) (v64 q2.2)))
      (topics := topics) (pre := ofIntBE 4 corr ++ ofIntBE 4 (topics.length : Int)) (rest := [])
      ht.2 (by rw [henc]; simp only [List.append_assoc, List.append_nil])
    exact ⟨_, produceV0_steps
      (ru2_ii_at0 (data := data) (rest := encAll (Codec.string ⊗ array (int32 ⊗ int16 ⊗ int64)) topics)
        (by rw [henc]; simp only [List.append_assoc]) (v32 h1.1) ht.1)
      (by rw [Int.toNat_natCast]; exact hl)⟩
  · cases he

/-- Produce v2 response (the layout the decoder uses for every version ≥ 1) -/
theorem produceV2_roundtrip (v : Spec.ProduceRespV2) (e : List ProduceResp) (he : expectedProduceV2 v = some (e, true)) :
    ∃ cur, decodeProduceResponse (Spec.produceResponseV2.enc v) 2 = .ok (e, .ok cur) := by
  obtain ⟨corr, topics, throttle⟩ := v
  simp only [expectedProduceV2] at he
  split at he
  · rename_i hc
    simp only [Option.some.injEq, Prod.mk.injEq, and_true] at he
    subst he
    have hc := Bool.and_eq_true_iff.mp hc
    have h1 := seq_valid' hc.1
    have h2 := seq_valid' h1.2
    have ht := topicsOk_of_valid h2.1 hc.2
    have henc : Spec.produceResponseV2.enc (corr, topics, throttle) =
        ofIntBE 4 corr ++ ((ofIntBE 4 (topics.length : Int) ++
          encAll (Codec.string ⊗ array (int32 ⊗ int16 ⊗ int64 ⊗ int64)) topics) ++ ofIntBE 4 throttle) := rfl
    generalize Spec.produceResponseV2.enc (corr, topics, throttle) = data at henc ⊢
    have hl := topicLoop_at (int32 ⊗ int16 ⊗ int64 ⊗ int64) (fun p => (int32 ⊗ int16 ⊗ int64 ⊗ int64).valid p = true)
      (fun t (p : Int × Int × Int × Int) => (⟨t, p.1, p.2.1, p.2.2.1⟩ : ProduceResp)) (data := data)
      (produceTopic ['>', 'i'] ['>', 'i', 'h', 'q', 'q'] true data) (producePartition ['>', 'i', 'h', 'q', 'q'] true data)
      (fun _ _ _ _ _ _ _ a b c => produceTopic_steps a b c)
      (by
        intro topic pre rest a hpa hda
        obtain ⟨p, er, o, lt⟩ := a
        have q1 := seq_valid' hpa
        have q2 := seq_valid' q1.2
        have q3 := seq_valid' q2.2
        exact producePartition_wide_steps
          (ru4_ihqq_at (data := data) (pre := pre) (rest := rest) (by rw [hda]; rfl) (v32 q1.1) (v16 q2.1) (v64 q3.1) (v64 q3.2)))
      (topics := topics) (pre := ofIntBE 4 corr ++ ofIntBE 4 (topics.length : Int)) (rest := ofIntBE 4 throttle)
      ht.2 (by rw [henc]; simp only [List.append_assoc])
    have h3 := relativeUnpack_packed ['i'] [throttle]
      (ofIntBE 4 corr ++ ofIntBE 4 (topics.length : Int) ++ encAll (Codec.string ⊗ array (int32 ⊗ int16 ⊗ int64 ⊗ int64)) topics) []
      ⟨ok_i (v32 h2.2), trivial⟩
    have hd3 : data = ofIntBE 4 corr ++ ofIntBE 4 (topics.length : Int) ++
        encAll (Codec.string ⊗ array (int32 ⊗ int16 ⊗ int64 ⊗ int64)) topics ++ packedBody ['i'] [throttle] ++ [] := by
      rw [henc]; simp only [packedBody, widthOf, fieldSpec, List.append_assoc, List.append_nil]
    rw [← hd3] at h3
    exact ⟨_, produceV2_steps
      (ru2_ii_at0 (data := data)
        (rest := encAll (Codec.string ⊗ array (int32 ⊗ int16 ⊗ int64 ⊗ int64)) topics ++ ofIntBE 4 throttle)
        (by rw [henc]; simp only [List.append_assoc]) (v32 h1.1) ht.1)
      (by rw [Int.toNat_natCast]; exact hl) h3⟩
  · cases he

/-! ## ListOffsets -/

theorem offsetPartition_steps {data topic : Bytes} {cur p e n c1 c2 : Int} {offs : List Int}
    (h1 : ru3 ['>', 'i', 'h', 'i'] data cur = .ok (p, e, n, c1))
    (h2 : repeatR (ru1 ['>', 'q'] data) n.toNat c1 = .ok (offs, c2)) :
    offsetPartition data topic cur = ([⟨topic, p, e, offs⟩], .ok c2) := by
  unfold offsetPartition
  simp only [fmt_decode_offset_response_2, fmt_decode_offset_response_3]
  rw [h1]; simp only; rw [h2]

theorem offsetTopic_steps {data topic : Bytes} {cur c1 c2 c3 n : Int} {items : List OffsetResp}
    (h1 : readShortAscii data cur = .ok (topic, c1)) (h2 : ru1 ['>', 'i'] data c1 = .ok (n, c2))
    (h3 : repeatG (offsetPartition data topic) n.toNat c2 = (items, .ok c3)) :
    offsetTopic data cur = (items, .ok c3) := by
  unfold offsetTopic
  simp only [fmt_decode_offset_response_1]
  rw [h1]; simp only; rw [h2]; simp only; rw [h3]

theorem listOffsets_steps {data : Bytes} {corr n c1 c2 : Int} {items : List OffsetResp}
    (h1 : ru2 ['>', 'i', 'i'] data 0 = .ok (corr, n, c1))
    (h2 : repeatG (offsetTopic data) n.toNat c1 = (items, .ok c2)) :
    decodeOffsetResponse data = (items, .ok c2) := by
  unfold decodeOffsetResponse
  simp only [fmt_decode_offset_response_0]
  rw [h1]; simp only; rw [h2]

/-- ListOffsets v0 response -/
theorem listOffsets_roundtrip (v : Spec.ListOffsetsResp) (e : List OffsetResp) (he : expectedListOffsets v = some (e, true)) :
    ∃ cur, decodeOffsetResponse (Spec.listOffsetsResponse.enc v) = (e, .ok cur) := by
  obtain ⟨corr, topics⟩ := v
  simp only [expectedListOffsets] at he
  split at he
  · rename_i hc
    simp only [Option.some.injEq, Prod.mk.injEq, and_true] at he
    subst he
    have hc := Bool.and_eq_true_iff.mp hc
    have h1 := seq_valid' hc.1
    have ht := topicsOk_of_valid h1.2 hc.2
    have henc : Spec.listOffsetsResponse.enc (corr, topics) =
        ofIntBE 4 corr ++ (ofIntBE 4 (topics.length : Int) ++ encAll (Codec.string ⊗ array (int32 ⊗ int16 ⊗ array int64)) topics) := rfl
    generalize Spec.listOffsetsResponse.enc (corr, topics) = data at henc ⊢
    have hl := topicLoop_at (int32 ⊗ int16 ⊗ array int64) (fun p => (int32 ⊗ int16 ⊗ array int64).valid p = true)
      (fun t (p : Int × Int × List Int) => (⟨t, p.1, p.2.1, p.2.2⟩ : OffsetResp)) (data := data)
      (offsetTopic data) (offsetPartition data)
      (fun _ _ _ _ _ _ _ a b c => offsetTopic_steps a b c)
      (by
        intro topic pre rest a hpa hda
        obtain ⟨p, er, offs⟩ := a
        have q1 := seq_valid' hpa
        have q2 := seq_valid' q1.2
        have qa := array_valid q2.2
        have e1 : pre ++ (int32 ⊗ int16 ⊗ array int64).enc (p, er, offs) =
            pre ++ (ofIntBE 4 p ++ (ofIntBE 2 er ++ ofIntBE 4 (offs.length : Int))) ++ encAll int64 offs := by
          simp only [seq_enc, array_enc', enc32, enc16, List.append_assoc]
        have hd1 : data = pre ++ (ofIntBE 4 p ++ (ofIntBE 2 er ++ ofIntBE 4 (offs.length : Int))) ++ (encAll int64 offs ++ rest) := by
          rw [hda]; simp only [seq_enc, array_enc', enc32, enc16, List.append_assoc]
        have hd2 : data = (pre ++ (ofIntBE 4 p ++ (ofIntBE 2 er ++ ofIntBE 4 (offs.length : Int)))) ++ encAll int64 offs ++ rest := by
          rw [hd1]; simp only [List.append_assoc]
        have hoffs := repeatR_at int64 (fun o => int64.valid o = true) (fun (o : Int) => o) (data := data) (ru1 ['>', 'q'] data)
          (by intro pre rest o ho hdo; exact ru1_q_at (data := data) (by rw [hdo]; rfl) (v64 ho))
          (l := offs) qa.2 hd2
        rw [List.map_id'] at hoffs
        rw [e1]
        exact offsetPartition_steps (ru3_ihi_at (data := data) hd1 (v32 q1.1) (v16 q2.1) qa.1)
          (by rw [Int.toNat_natCast]; exact hoffs))
      (topics := topics) (pre := ofIntBE 4 corr ++ ofIntBE 4 (topics.length : Int)) (rest := [])
      ht.2 (by rw [henc]; simp only [List.append_assoc, List.append_nil])
    exact ⟨_, listOffsets_steps
      (ru2_ii_at0 (data := data) (rest := encAll (Codec.string ⊗ array (int32 ⊗ int16 ⊗ array int64)) topics)
        (by rw [henc]; simp only [List.append_assoc]) (v32 h1.1) ht.1)
      (by rw [Int.toNat_natCast]; exact hl)⟩
  · cases he

/-! ## OffsetCommit -/

theorem offsetCommitPartition_steps {data topic : Bytes} {cur p e c1 : Int}
    (h1 : ru2 ['>', 'i', 'h'] data cur = .ok (p, e, c1)) :
    offsetCommitPartition data topic cur = ([⟨topic, p, e⟩], .ok c1) := by
  unfold offsetCommitPartition
  simp only [fmt_decode_offset_commit_response_3]
  rw [h1]

theorem offsetCommitTopic_steps {data topic : Bytes} {cur c1 c2 c3 n : Int} {items : List OffsetCommitResp}
    (h1 : readShortAscii data cur = .ok (topic, c1)) (h2 : ru1 ['>', 'i'] data c1 = .ok (n, c2))
    (h3 : repeatG (offsetCommitPartition data topic) n.toNat c2 = (items, .ok c3)) :
    offsetCommitTopic data cur = (items, .ok c3) := by
  unfold offsetCommitTopic
  simp only [fmt_decode_offset_commit_response_2]
  rw [h1]; simp only; rw [h2]; simp only; rw [h3]

theorem offsetCommit_steps {data : Bytes} {corr n c1 c2 c3 : Int} {items : List OffsetCommitResp}
    (h1 : ru1 ['>', 'i'] data 0 = .ok (corr, c1)) (h2 : ru1 ['>', 'i'] data c1 = .ok (n, c2))
    (h3 : repeatG (offsetCommitTopic data) n.toNat c2 = (items, .ok c3)) :
    decodeOffsetCommitResponse data = (items, .ok c3) := by
  unfold decodeOffsetCommitResponse
  simp only [fmt_decode_offset_commit_response_0, fmt_decode_offset_commit_response_1]
  rw [h1]; simp only; rw [h2]; simp only; rw [h3]

/-- OffsetCommit response -/
theorem offsetCommit_roundtrip (v : Spec.OffsetCommitResp) (e : List OffsetCommitResp)
    (he : expectedOffsetCommit v = some (e, true)) :
    ∃ cur, decodeOffsetCommitResponse (Spec.offsetCommitResponse.enc v) = (e, .ok cur) := by
  obtain ⟨corr, topics⟩ := v
  simp only [expectedOffsetCommit] at he
  split at he
  · rename_i hc
    simp only [Option.some.injEq, Prod.mk.injEq, and_true] at he
    subst he
    have hc := Bool.and_eq_true_iff.mp hc
    have h1 := seq_valid' hc.1
    have ht := topicsOk_of_valid h1.2 hc.2
    have henc : Spec.offsetCommitResponse.enc (corr, topics) =
        ofIntBE 4 corr ++ (ofIntBE 4 (topics.length : Int) ++ encAll (Codec.string ⊗ array (int32 ⊗ int16)) topics) := rfl
    generalize Spec.offsetCommitResponse.enc (corr, topics) = data at henc ⊢
    have hl := topicLoop_at (int32 ⊗ int16) (fun p => (int32 ⊗ int16).valid p = true)
      (fun t (p : Int × Int) => (⟨t, p.1, p.2⟩ : OffsetCommitResp)) (data := data)
      (offsetCommitTopic data) (offsetCommitPartition data)
      (fun _ _ _ _ _ _ _ a b c => offsetCommitTopic_steps a b c)
      (by
        intro topic pre rest a hpa hda
        obtain ⟨p, er⟩ := a
        have q1 := seq_valid' hpa
        exact offsetCommitPartition_steps
          (ru2_ih_at (data := data) (pre := pre) (rest := rest) (by rw [hda]; rfl) (v32 q1.1) (v16 q1.2)))
      (topics := topics) (pre := ofIntBE 4 corr ++ ofIntBE 4 (topics.length : Int)) (rest := [])
      ht.2 (by rw [henc]; simp only [List.append_assoc, List.append_nil])
    exact ⟨_, offsetCommit_steps
      (ru1_i_at0 (data := data) (rest := ofIntBE 4 (topics.length : Int) ++ encAll (Codec.string ⊗ array (int32 ⊗ int16)) topics)
        henc (v32 h1.1))
      (ru1_i_at (data := data) (pre := ofIntBE 4 corr) (rest := encAll (Codec.string ⊗ array (int32 ⊗ int16)) topics)
        (by rw [henc]; simp only [List.append_assoc]) ht.1)
      (by rw [Int.toNat_natCast]; exact hl)⟩
  · cases he

/-! ## OffsetFetch -/

theorem offsetFetchPartition_steps {data topic : Bytes} {cur p o e c1 c2 c3 : Int} {md : Option Bytes}
    (h1 : ru2 ['>', 'i', 'q'] data cur = .ok (p, o, c1)) (h2 : readShortBytes data c1 = .ok (md, c2))
    (h3 : ru1 ['>', 'h'] data c2 = .ok (e, c3)) :
    offsetFetchPartition data topic cur = ([⟨topic, p, o, md, e⟩], .ok c3) := by
  unfold offsetFetchPartition
  simp only [fmt_decode_offset_fetch_response_3, fmt_decode_offset_fetch_response_4]
  rw [h1]; simp only; rw [h2]; simp only; rw [h3]

theorem offsetFetchTopic_steps {data topic : Bytes} {cur c1 c2 c3 n : Int} {items : List OffsetFetchResp}
    (h1 : readShortAscii data cur = .ok (topic, c1)) (h2 : ru1 ['>', 'i'] data c1 = .ok (n, c2))
    (h3 : repeatG (offsetFetchPartition data topic) n.toNat c2 = (items, .ok c3)) :
    offsetFetchTopic data cur = (items, .ok c3) := by
  unfold offsetFetchTopic
  simp only [fmt_decode_offset_fetch_response_2]
  rw [h1]; simp only; rw [h2]; simp only; rw [h3]

theorem offsetFetch_steps {data : Bytes} {corr n c1 c2 c3 : Int} {items : List OffsetFetchResp}
    (h1 : ru1 ['>', 'i'] data 0 = .ok (corr, c1)) (h2 : ru1 ['>', 'i'] data c1 = .ok (n, c2))
    (h3 : repeatG (offsetFetchTopic data) n.toNat c2 = (items, .ok c3)) :
    decodeOffsetFetchResponse data = (items, .ok c3) := by
  unfold decodeOffsetFetchResponse
  simp only [fmt_decode_offset_fetch_response_0, fmt_decode_offset_fetch_response_1]
  rw [h1]; simp only; rw [h2]; simp only; rw [h3]

/-- OffsetFetch response -/
theorem offsetFetch_roundtrip (v : Spec.OffsetFetchResp) (e : List OffsetFetchResp)
    (he : expectedOffsetFetch v = some (e, true)) :
    ∃ cur, decodeOffsetFetchResponse (Spec.offsetFetchResponse.enc v) = (e, .ok cur) := by
  obtain ⟨corr, topics⟩ := v
  simp only [expectedOffsetFetch] at he
  split at he
  · rename_i hc
    simp only [Option.some.injEq, Prod.mk.injEq, and_true] at he
    subst he
    have hc := Bool.and_eq_true_iff.mp hc
    have h1 := seq_valid' hc.1
    have ht := topicsOk_of_valid h1.2 hc.2
    have henc : Spec.offsetFetchResponse.enc (corr, topics) =
        ofIntBE 4 corr ++ (ofIntBE 4 (topics.length : Int) ++
          encAll (Codec.string ⊗ array (int32 ⊗ int64 ⊗ nullableString ⊗ int16)) topics) := rfl
    generalize Spec.offsetFetchResponse.enc (corr, topics) = data at henc ⊢
    have hl := topicLoop_at (int32 ⊗ int64 ⊗ nullableString ⊗ int16)
      (fun p => (int32 ⊗ int64 ⊗ nullableString ⊗ int16).valid p = true)
      (fun t (p : Int × Int × Option Bytes × Int) => (⟨t, p.1, p.2.1, p.2.2.1, p.2.2.2⟩ : OffsetFetchResp)) (data := data)
      (offsetFetchTopic data) (offsetFetchPartition data)
      (fun _ _ _ _ _ _ _ a b c => offsetFetchTopic_steps a b c)
      (by
        intro topic pre rest a hpa hda
        obtain ⟨p, o, md, er⟩ := a
        have q1 := seq_valid' hpa
        have q2 := seq_valid' q1.2
        have q3 := seq_valid' q2.2
        have e1 : pre ++ (int32 ⊗ int64 ⊗ nullableString ⊗ int16).enc (p, o, md, er) =
            pre ++ (ofIntBE 4 p ++ ofIntBE 8 o) ++ nullableString.enc md ++ ofIntBE 2 er := by
          simp only [seq_enc, enc32, enc64, enc16, List.append_assoc]
        have hd1 : data = pre ++ (ofIntBE 4 p ++ ofIntBE 8 o) ++ (nullableString.enc md ++ (ofIntBE 2 er ++ rest)) := by
          rw [hda]; simp only [seq_enc, enc32, enc64, enc16, List.append_assoc]
        have hd2 : data = (pre ++ (ofIntBE 4 p ++ ofIntBE 8 o)) ++ nullableString.enc md ++ (ofIntBE 2 er ++ rest) := by
          rw [hd1]; simp only [List.append_assoc]
        have hd3 : data = (pre ++ (ofIntBE 4 p ++ ofIntBE 8 o) ++ nullableString.enc md) ++ ofIntBE 2 er ++ rest := by
          rw [hd1]; simp only [List.append_assoc]
        rw [e1]
        exact offsetFetchPartition_steps (ru2_iq_at (data := data) hd1 (v32 q1.1) (v64 q2.1))
          (rsb_nullable_at (data := data) hd2 q3.1) (ru1_h_at (data := data) hd3 (v16 q3.2)))
      (topics := topics) (pre := ofIntBE 4 corr ++ ofIntBE 4 (topics.length : Int)) (rest := [])
      ht.2 (by rw [henc]; simp only [List.append_assoc, List.append_nil])
    exact ⟨_, offsetFetch_steps
      (ru1_i_at0 (data := data) (rest := ofIntBE 4 (topics.length : Int) ++
          encAll (Codec.string ⊗ array (int32 ⊗ int64 ⊗ nullableString ⊗ int16)) topics) henc (v32 h1.1))
      (ru1_i_at (data := data) (pre := ofIntBE 4 corr)
        (rest := encAll (Codec.string ⊗ array (int32 ⊗ int64 ⊗ nullableString ⊗ int16)) topics)
        (by rw [henc]; simp only [List.append_assoc]) ht.1)
      (by rw [Int.toNat_natCast]; exact hl)⟩
  · cases he

end Afkak.Wire
