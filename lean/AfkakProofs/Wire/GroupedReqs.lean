import AfkakProofs.Wire.Requests
import AfkakProofs.Wire.Group
import AfkakProofs.Wire.GroupCount
/-!
# The topic-grouped requests: the model's bytes are the grammar's encoding of the regrouped payloads
-/
namespace Afkak.Wire
open Afkak Afkak.Bytes Afkak.Codec Afkak.Consts Afkak.Monitor.C04

set_option synthInstance.maxSize 100000

variable {α β : Type}

theorem topicMap_some {item : α → Option β} {tp : Option Bytes × List (Int × α)} {r : Bytes × List (Int × β)}
    (h : topicMap item tp = some r) : tp.1 = some r.1 ∧ tp.2.mapM (itemMap item) = some r.2 := by
  unfold topicMap at h
  cases h1 : tp.1 with
  | none => simp [h1] at h
  | some t =>
    cases h2 : tp.2.mapM (itemMap item) with
    | none => simp [h1, h2] at h
    | some ps =>
      simp [h1, h2] at h
      subst h
      exact ⟨rfl, rfl⟩

/-- the topic loop shared by all broker-aware requests writes the grammar's `[topic [partition item]]` -/
theorem topics_bytes (topic : α → Option Bytes) (partition : α → Int) (item : α → Option β) (c : Codec (Int × β))
    (partEntry : Int × α → R Bytes)
    (hitem : ∀ q b y, itemMap item q = some b → partEntry q = .ok y → y = c.enc b)
    (xs : List α) (l : List (Bytes × (Int × β))) (hk : keyed topic partition item xs = some l)
    (hcnt : payloadCount (groupByTopicPartition topic partition xs) = xs.length) (body : Bytes)
    (hbody : concatMapM (topicEntry ['>', 'i'] partEntry) (groupByTopicPartition topic partition xs) = .ok body) :
    body = encAll (Codec.string ⊗ array c) (regroup l)
    ∧ (groupByTopicPartition topic partition xs).length = (regroup l).length := by
  have hg := group_mapM_regroup topic partition item xs l hk (payloadCount_eq_iff_nodup topic partition xs hcnt)
  refine ⟨?_, hg.2⟩
  apply concatMapM_encAll (topicEntry ['>', 'i'] partEntry) (topicMap item) (Codec.string ⊗ array c) _ _ _ _ hg.1 hbody
  intro tp r y hr hy
  obtain ⟨h1, h2⟩ := topicMap_some hr
  obtain ⟨t, ps⟩ := r
  simp only at h1 h2
  unfold topicEntry at hy
  rw [h1] at hy
  split at hy
  · cases hy
  · rename_i tb htb
    split at hy
    · cases hy
    · rename_i nb hnb
      split at hy
      · cases hy
      · rename_i pb hpb
        cases hy
        rw [writeShortAscii_some htb, pack_i hnb, concatMapM_encAll partEntry (itemMap item) c hitem _ _ _ h2 hpb]
        simp only [seq_enc, array_enc, mapM_length _ _ _ h2, List.append_assoc]

/-! ## Fetch / ListOffsets / OffsetFetch / OffsetCommit -/

theorem clamp_fetch {ver v : Int} (h : implementedVersion ver = some v) : fetchClamp ver = v := by
  unfold implementedVersion at h
  unfold fetchClamp
  split at h
  · cases h
  · split at h
    · rename_i h2
      cases h
      rw [if_pos (by simp only [fetchClampAt]; omega)]; rfl
    · rename_i h1 h2
      cases h
      rw [if_neg (by simp only [fetchClampAt]; omega)]

theorem clamp_produce {ver v : Int} (h : implementedVersion ver = some v) :
    (produceClamp ver).1 = v ∧ ((produceClamp ver).2 = 0 ∨ (produceClamp ver).2 = 1) := by
  unfold implementedVersion at h
  unfold produceClamp
  split at h
  · cases h
  · split at h
    · rename_i h2
      cases h
      rw [if_pos (by simp only [produceClampAt]; omega)]
      exact ⟨rfl, Or.inr rfl⟩
    · rename_i h1 h2
      cases h
      rw [if_neg (by simp only [produceClampAt]; omega)]
      exact ⟨rfl, Or.inl rfl⟩

theorem fetch_bytes {cid : Bytes} {corr wait minb ver v : Int} {ps : List FetchReq}
    {l : List (Bytes × (Int × (Int × Int)))} {frame : Bytes}
    (h : encodeFetchRequest cid corr ps wait minb ver = .ok frame) (hv : implementedVersion ver = some v)
    (hk : keyed FetchReq.topic FetchReq.partition (fun p => some (p.offset, p.maxBytes)) ps = some l) :
    frame = (Spec.request Spec.fetchRequest).enc (hdr 1 v corr cid, -1, wait, minb, regroup l) := by
  unfold encodeFetchRequest at h
  simp only at h
  split at h
  · cases h
  rename_i hcnt
  split at h
  · cases h
  · rename_i hd hhd
    split at h
    · cases h
    · rename_i h2 hh2
      split at h
      · cases h
      · rename_i body hbody
        cases h
        simp only [fmt_encode_fetch_request_1] at hbody
        have hb := topics_bytes FetchReq.topic FetchReq.partition (fun p => some (p.offset, p.maxBytes))
          (int32 ⊗ int64 ⊗ int32) fetchPartEntry
          (by
            intro q b y hq hy
            simp only [itemMap, Option.map_some, Option.some.injEq] at hq
            subst hq
            unfold fetchPartEntry at hy
            simp only [fmt_encode_fetch_request_2] at hy
            rw [pack_bytes hy]
            simp [packedBody, widthOf, fieldSpec, seq_enc, int32, int64, intN])
          ps l hk (Decidable.not_not.mp hcnt) body hbody
        simp only [fmt_encode_fetch_request_0, argc_encode_fetch_request_0_0] at hh2
        rw [encodeHeader_ok hhd, pack_bytes hh2, hb.1, clamp_fetch hv, hb.2]
        simp [packedBody, widthOf, fieldSpec, request_enc, Spec.fetchRequest, Spec.topics, seq_enc, array_enc, hdr,
          hdrKey_encode_fetch_request, int32, intN, List.append_assoc]

theorem listOffsets_bytes {cid : Bytes} {corr : Int} {ps : List OffsetReq}
    {l : List (Bytes × (Int × (Int × Int)))} {frame : Bytes}
    (h : encodeOffsetRequest cid corr ps = .ok frame)
    (hk : keyed OffsetReq.topic OffsetReq.partition (fun p => some (p.time, p.maxOffsets)) ps = some l) :
    frame = (Spec.request Spec.listOffsetsRequest).enc (hdr 2 0 corr cid, -1, regroup l) := by
  unfold encodeOffsetRequest at h
  simp only at h
  split at h
  · cases h
  rename_i hcnt
  split at h
  · cases h
  · rename_i hd hhd
    split at h
    · cases h
    · rename_i h2 hh2
      split at h
      · cases h
      · rename_i body hbody
        cases h
        simp only [fmt_encode_offset_request_1] at hbody
        have hb := topics_bytes OffsetReq.topic OffsetReq.partition (fun p => some (p.time, p.maxOffsets))
          (int32 ⊗ int64 ⊗ int32) offsetPartEntry
          (by
            intro q b y hq hy
            simp only [itemMap, Option.map_some, Option.some.injEq] at hq
            subst hq
            unfold offsetPartEntry at hy
            simp only [fmt_encode_offset_request_2] at hy
            rw [pack_bytes hy]
            simp [packedBody, widthOf, fieldSpec, seq_enc, int32, int64, intN])
          ps l hk (Decidable.not_not.mp hcnt) body hbody
        simp only [fmt_encode_offset_request_0, argc_encode_offset_request_0_0] at hh2
        rw [encodeHeader_ok hhd, pack_bytes hh2, hb.1, hb.2]
        simp [packedBody, widthOf, fieldSpec, request_enc, Spec.listOffsetsRequest, Spec.topics, seq_enc, array_enc, hdr,
          hdrKey_encode_offset_request, hdrVer_encode_offset_request, int32, intN, List.append_assoc]

theorem offsetFetch_bytes {cid g : Bytes} {corr : Int} {ps : List OffsetFetchReq}
    {l : List (Bytes × (Int × Unit))} {frame : Bytes}
    (h : encodeOffsetFetchRequest cid corr (some g) ps = .ok frame)
    (hk : keyed OffsetFetchReq.topic OffsetFetchReq.partition (fun _ => some ()) ps = some l) :
    frame = (Spec.request Spec.offsetFetchRequest).enc
      (hdr 9 1 corr cid, g, (regroup l).map (fun e => (e.1, e.2.map (·.1)))) := by
  unfold encodeOffsetFetchRequest at h
  simp only at h
  split at h
  · cases h
  rename_i hcnt
  split at h
  · cases h
  · rename_i hd hhd
    split at h
    · cases h
    · rename_i gb hgb
      split at h
      · cases h
      · rename_i nb hnb
        split at h
        · cases h
        · rename_i body hbody
          cases h
          simp only [fmt_encode_offset_fetch_request_1] at hbody
          -- the grammar's partition item is the bare partition id: view it as `(partition, ())`
          have hb := topics_bytes OffsetFetchReq.topic OffsetFetchReq.partition (fun _ => some ())
            (iso int32 (fun p => (p, ())) (fun q => q.1) (fun _ => true) (fun _ _ => rfl)) offsetFetchPartEntry
            (by
              intro q b y hq hy
              simp only [itemMap, Option.map_some, Option.some.injEq] at hq
              subst hq
              unfold offsetFetchPartEntry at hy
              simp only [fmt_encode_offset_fetch_request_2] at hy
              rw [pack_i hy]
              rfl)
            ps l hk (Decidable.not_not.mp hcnt) body hbody
          simp only [fmt_encode_offset_fetch_request_0] at hnb
          have henc : ∀ (topics : List (Bytes × List (Int × Unit))),
              encAll (Codec.string ⊗ array (iso int32 (fun p => (p, ())) (fun q => q.1) (fun _ => true) (fun _ _ => rfl))) topics =
              encAll (Codec.string ⊗ array int32) (topics.map (fun e => (e.1, e.2.map (·.1)))) := by
            intro topics
            induction topics with
            | nil => rfl
            | cons tp tps ih =>
              simp only [encAll, List.map_cons, ih, seq_enc, array_enc, List.length_map]
              congr 3
              induction tp.2 with
              | nil => rfl
              | cons p ps ih2 => simp only [encAll, List.map_cons, ih2]; rfl
          rw [encodeHeader_ok hhd, writeShortText_some hgb, pack_i hnb, hb.1, hb.2, henc]
          simp [request_enc, Spec.offsetFetchRequest, Spec.topics, seq_enc, array_enc, hdr,
            hdrKey_encode_offset_fetch_request, hdrVer_encode_offset_fetch_request, List.append_assoc]

theorem offsetCommit_bytes {cid g c : Bytes} {corr gen : Int} {ps : List OffsetCommitReq}
    {l : List (Bytes × (Int × (Int × Int × Option Bytes)))} {frame : Bytes}
    (h : encodeOffsetCommitRequest cid corr (some g) gen (some c) ps = .ok frame)
    (hk : keyed OffsetCommitReq.topic OffsetCommitReq.partition (fun p => some (p.offset, p.timestamp, p.metadata)) ps = some l) :
    frame = (Spec.request Spec.offsetCommitRequest).enc (hdr 8 1 corr cid, g, gen, c, regroup l) := by
  unfold encodeOffsetCommitRequest at h
  simp only [Option.isNone_some, Bool.false_eq_true, if_false] at h
  split at h
  · cases h
  rename_i hcnt
  split at h
  · cases h
  · rename_i hd hhd
    split at h
    · cases h
    · rename_i gb hgb
      split at h
      · cases h
      · rename_i genb hgenb
        split at h
        · cases h
        · rename_i cb hcb
          split at h
          · cases h
          · rename_i nb hnb
            split at h
            · cases h
            · rename_i body hbody
              cases h
              simp only [fmt_encode_offset_commit_request_2] at hbody
              have hb := topics_bytes OffsetCommitReq.topic OffsetCommitReq.partition
                (fun p => some (p.offset, p.timestamp, p.metadata))
                (int32 ⊗ int64 ⊗ int64 ⊗ nullableString) offsetCommitPartEntry
                (by
                  intro q b y hq hy
                  simp only [itemMap, Option.map_some, Option.some.injEq] at hq
                  subst hq
                  unfold offsetCommitPartEntry at hy
                  split at hy
                  · cases hy
                  · rename_i hb' hhb'
                    split at hy
                    · cases hy
                    · rename_i md hmd
                      cases hy
                      simp only [fmt_encode_offset_commit_request_3] at hhb'
                      rw [pack_bytes hhb', writeShortBytes_opt hmd]
                      simp [packedBody, widthOf, fieldSpec, seq_enc, int32, int64, intN, List.append_assoc])
                ps l hk (Decidable.not_not.mp hcnt) body hbody
              simp only [fmt_encode_offset_commit_request_0] at hgenb
              simp only [fmt_encode_offset_commit_request_1] at hnb
              rw [encodeHeader_ok hhd, writeShortText_some hgb, pack_i hgenb, writeShortText_some hcb, pack_i hnb, hb.1, hb.2]
              simp [request_enc, Spec.offsetCommitRequest, Spec.topics, seq_enc, array_enc, hdr,
                hdrKey_encode_offset_commit_request, hdrVer_encode_offset_commit_request, List.append_assoc]

end Afkak.Wire
