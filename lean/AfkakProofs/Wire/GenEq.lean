import Afkak.Generated.WiregenConsts
/-!
# The terms generated from the source of `afkak/_util.py` equal the hand-written models

`Afkak.Consts.gen*` (in `Afkak/Generated/WiregenConsts.lean`) are produced on every run from the AST
of `/repo/afkak/_util.py` by `harness/lib/wire_translate.py` (a `do` block in `Except Err`, one line
per source statement; `struct.pack/unpack/calcsize`, slicing, `encode`/`decode` are the library
primitives of `Afkak/Wire/Primitives.lean` + `GenPrims.lean`).  Each is proved equal, for ALL inputs,
to the hand-written model function of `Afkak/Wire/Primitives.lean` that the theorems of C04/C05 are
about.  A change of the source that changes the term breaks a proof below.

One real difference is bridged here: `(strlen,) = struct.unpack(..)` raises `ValueError` when the
tuple does not have exactly one element, the hand-written model folds that case into `struct.error`;
`unpack_one` shows the case cannot occur for a one-field format.
-/
namespace Afkak.Wire
open Afkak Afkak.Bytes Afkak.Consts

theorem ok_bind {α β : Type} (a : α) (f : α → R β) : ((Except.ok a : R α) >>= f) = f a := rfl
theorem error_bind {α β : Type} (e : Err) (f : α → R β) : ((Except.error e : R α) >>= f) = Except.error e := rfl

theorem gen_writeIntString (s : Option Bytes) : genWriteIntString s = writeIntString s := by
  cases s with
  | none =>
    simp only [genWriteIntString, writeIntString, fmt_write_int_string_0, writeIntNull]
  | some s =>
    simp only [genWriteIntString, writeIntString, fmt_write_int_string_1]
    cases pack ['>', 'i'] [(s.length : Int)] <;> rfl

theorem gen_writeShortBytes (b : Option Bytes) : genWriteShortBytes b = writeShortBytes b := by
  cases b with
  | none =>
    simp only [genWriteShortBytes, writeShortBytes, nullShortString, fmt_null_short_string, nullShortLen]
  | some b =>
    simp only [genWriteShortBytes, writeShortBytes, fmt_write_short_bytes_0, shortBytesMax]
    by_cases h : b.length > 32767
    · have h' : (b.length : Int) > 32767 := by omega
      simp only [h, h', if_true]
    · have h' : ¬ (b.length : Int) > 32767 := by omega
      simp only [h, h', if_false]
      cases pack ['>', 'h'] [(b.length : Int)] <;> rfl

theorem gen_writeShortAscii (s : Option Bytes) : genWriteShortAscii s = writeShortAscii s := by
  cases s with
  | none =>
    simp only [genWriteShortAscii, writeShortAscii, nullShortString, fmt_null_short_string, nullShortLen]
  | some s =>
    simp only [genWriteShortAscii, writeShortAscii, encodeAscii, gen_writeShortBytes]
    by_cases h : isAscii s = true
    · simp only [h, if_true, ok_bind]
    · simp only [h]; rfl

theorem gen_writeShortText (s : Option Bytes) : genWriteShortText s = writeShortText s := by
  cases s with
  | none =>
    simp only [genWriteShortText, writeShortText, nullShortString, fmt_null_short_string, nullShortLen]
  | some s =>
    simp only [genWriteShortText, writeShortText, encodeUtf8, gen_writeShortBytes, ok_bind]

theorem unpack_one (c : Char) (bs : Bytes) (vs : List Int) (h : unpack ['>', c] bs = some vs) :
    ∃ v, vs = [v] := by
  simp only [unpack, unpackBody] at h
  cases hs : fieldSpec c with
  | none => simp [hs] at h
  | some ws =>
    obtain ⟨w, s⟩ := ws
    simp only [hs] at h
    split at h
    · next vs' heq =>
      split at heq
      · simp at heq
      · simp only [Option.some.injEq, Prod.mk.injEq] at heq h
        exact ⟨_, by rw [← h, ← heq.1]⟩
    · simp at h

theorem gen_readLen (fmt : List Char) (c : Char) (hf : fmt = ['>', c]) (lenW : Int) (data : Bytes) (cur : Int)
    (K : Int → R (Option Bytes × Int)) :
    (if (data.length : Int) < cur + lenW then Except.error Err.bufferUnderflow else do
      let t0 ← unpackR fmt (pySlice data cur (cur + lenW))
      match t0 with
      | [strlen] => K strlen
      | _ => Except.error Err.valueError) =
    (if (data.length : Int) < cur + lenW then Except.error Err.bufferUnderflow
     else match unpack fmt (pySlice data cur (cur + lenW)) with
      | some [strlen] => K strlen
      | _ => Except.error Err.structError) := by
  subst hf
  split
  · rfl
  · simp only [unpackR]
    cases hu : unpack ['>', c] (pySlice data cur (cur + lenW)) with
    | none => rfl
    | some vs =>
      obtain ⟨v, rfl⟩ := unpack_one c _ _ hu
      rfl

theorem gen_readShortBytes (data : Bytes) (cur : Int) : genReadShortBytes data cur = readShortBytes data cur := by
  simp only [genReadShortBytes, readShortBytes, readLenPrefixed, fmt_read_short_bytes_0, readShortNull,
    readShortNegBelow, unpackR]
  split
  · rfl
  · cases hu : unpack ['>', 'h'] (pySlice data cur (cur + 2)) with
    | none => rfl
    | some vs =>
      obtain ⟨v, rfl⟩ := unpack_one _ _ _ hu
      simp only [ok_bind]
      rfl

theorem gen_readIntString (data : Bytes) (cur : Int) : genReadIntString data cur = readIntString data cur := by
  simp only [genReadIntString, readIntString, readLenPrefixed, fmt_read_int_string_0, readIntNull,
    readIntNegBelow, unpackR]
  split
  · rfl
  · cases hu : unpack ['>', 'i'] (pySlice data cur (cur + 4)) with
    | none => rfl
    | some vs =>
      obtain ⟨v, rfl⟩ := unpack_one _ _ _ hu
      simp only [ok_bind]
      rfl

theorem gen_readShortAscii (data : Bytes) (cur : Int) : genReadShortAscii data cur = readShortAscii data cur := by
  simp only [genReadShortAscii, readShortAscii, gen_readShortBytes]
  cases readShortBytes data cur with
  | error e => rfl
  | ok r =>
    obtain ⟨b, c⟩ := r
    simp only [ok_bind]
    cases decodeAscii b <;> rfl

theorem gen_readShortText (data : Bytes) (cur : Int) : genReadShortText data cur = readShortText data cur := by
  simp only [genReadShortText, readShortText, gen_readShortBytes]
  cases readShortBytes data cur with
  | error e => rfl
  | ok r =>
    obtain ⟨b, c⟩ := r
    simp only [ok_bind]
    cases decodeText b <;> rfl

theorem gen_relativeUnpack (fmt : List Char) (data : Bytes) (cur : Int) :
    genRelativeUnpack fmt data cur = relativeUnpack fmt data cur := by
  simp only [genRelativeUnpack, relativeUnpack, calcsizeR, unpackR]
  cases calcsize fmt with
  | none => rfl
  | some size =>
    simp only [ok_bind]
    split
    · rfl
    · cases unpack fmt (pySlice data cur (cur + (size : Int))) <;> rfl

/-! ## `group_by_topic_and_partition` (generic in the payload type; reads `.topic` and `.partition`) -/

theorem foldlM_pure_R {α β : Type} (f : β → α → β) (l : List α) : ∀ b : β,
    List.foldlM (fun b a => (pure (f b a) : R β)) b l = .ok (l.foldl f b) := by
  induction l with
  | nil => intro b; rfl
  | cons a as ih => intro b; rw [List.foldlM_cons]; exact ih (f b a)

theorem gen_groupBy {α : Type} (topic : α → Option Bytes) (partition : α → Int) (xs : List α) :
    genGroupByTopicAndPartition topic partition xs = .ok (groupByTopicPartition topic partition xs) := by
  simp only [genGroupByTopicAndPartition, groupByTopicPartition, ddSet2]
  rw [foldlM_pure_R (fun out t => dictSet out (topic t) (dictSet ((dictGet out (topic t)).getD []) (partition t) t))]

end Afkak.Wire
