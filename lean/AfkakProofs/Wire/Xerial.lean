import Afkak.Wire.Xerial
import AfkakProofs.Wire.Unpack
/-!
# `snappy_decode`'s xerial loop: a proved hazard

`block_size` is read from the stream and used unchecked.  A negative size moves the cursor backwards;
with size -4 the cursor returns to where it was.  Replayed on the real loop (python-snappy absent: the
module object `afkak.codec.snappy` replaced by a stub whose `decompress` is the identity):
`snappy_decode(_XERIAL_HEADER + b"\xff\xff\xff\xfc")` does not return.
-/
namespace Afkak.Wire
open Afkak Afkak.Bytes Afkak.Codec

/-- a block size of -4 sends the cursor back to where it was: with a decompressor that accepts the
    empty string the loop never ends (every fuel is used up) -/
theorem xerial_negative_block_spins (decompress : Bytes → R Bytes) (h : decompress [] = .ok []) (fuel : Nat) :
    snappyDecode decompress fuel (xerialHeader ++ [0xFF, 0xFF, 0xFF, 0xFC]) = .error .fuel := by
  have hp : (xerialHeader ++ [0xFF, 0xFF, 0xFF, 0xFC]).take 16 = xerialHeader := by decide
  simp only [snappyDecode, hp, if_true]
  induction fuel with
  | zero => rfl
  | succ n ih =>
    have hb : toIntBE (pySlice (xerialHeader ++ [0xFF, 0xFF, 0xFF, 0xFC]) 16 (16 + 4)) = -4 := by decide
    have hs : pySlice (xerialHeader ++ [0xFF, 0xFF, 0xFF, 0xFC]) (16 + 4) (16 + 4 + -4) = [] := by decide
    have hl : ((xerialHeader ++ [0xFF, 0xFF, 0xFF, 0xFC]).length : Int) = 20 := by decide
    rw [xerialLoop]
    have ho : (if (16 : Int) < 0 then (16 : Int) + 20 else 16) = 16 := by decide
    simp only [hl, ho, hb, hs, h]
    have e : (16 : Int) + 4 + -4 = 16 := by decide
    rw [e, ih]
    decide
/-! ## the framing round-trips -/

def xerialBody (compress : Bytes → Bytes) (chunks : List Bytes) : Bytes :=
  (chunks.map (fun c => ofIntBE 4 (compress c).length ++ compress c)).flatten

theorem xerialLoop_roundtrip (compress : Bytes → Bytes) (decompress : Bytes → R Bytes)
    (hinv : ∀ x, decompress (compress x) = .ok x) :
    ∀ (chunks : List Bytes) (pre : Bytes), (∀ c ∈ chunks, (compress c).length < 2 ^ 31) →
      xerialLoop decompress (pre ++ xerialBody compress chunks) (chunks.length + 1) (pre.length : Int)
        = .ok chunks.flatten := by
  intro chunks
  induction chunks with
  | nil =>
    intro pre _
    simp [xerialLoop, xerialBody]
  | cons c cs ih =>
    intro pre hfit
    have hC : (compress c).length < 2 ^ 31 := hfit c (List.mem_cons_self ..)
    have hL : (ofIntBE 4 ((compress c).length : Int)).length = 4 := ofIntBE_length 4 _
    have hfits : IntFits 4 ((compress c).length : Int) := by
      unfold IntFits
      have : (256 ^ 4 : Nat) = 2 ^ 32 := by decide
      constructor <;> omega
    have hbs0 : toIntBE (ofIntBE 4 ((compress c).length : Int)) = ((compress c).length : Int) := toIntBE_ofIntBE 4 _ hfits
    have hdc : decompress (compress c) = .ok c := hinv c
    have hbody : xerialBody compress (c :: cs)
        = ofIntBE 4 ((compress c).length : Int) ++ compress c ++ xerialBody compress cs := by
      simp [xerialBody, List.append_assoc]
    rw [hbody, List.length_cons, xerialLoop]
    generalize ofIntBE 4 ((compress c).length : Int) = L at hL hbs0 ⊢
    generalize compress c = C at hC hbs0 hdc ⊢
    have hlen : ((pre ++ (L ++ C ++ xerialBody compress cs)).length : Int)
        = pre.length + 4 + C.length + (xerialBody compress cs).length := by
      simp only [List.length_append, hL]; omega
    have h1 : (pre.length : Int) < ((pre ++ (L ++ C ++ xerialBody compress cs)).length : Int) := by rw [hlen]; omega
    have h2 : ¬ ((pre.length : Int) < 0) := by omega
    have h3 : ¬ (((pre.length : Int)) < 0 ∨ ((pre ++ (L ++ C ++ xerialBody compress cs)).length : Int) < (pre.length : Int) + 4) := by
      rw [hlen]; omega
    have hs1 : pySlice (pre ++ (L ++ C ++ xerialBody compress cs)) (pre.length : Int) ((pre.length : Int) + 4) = L := by
      have := pySlice_mid pre L (C ++ xerialBody compress cs)
      rw [hL] at this
      simpa [List.append_assoc] using this
    have hbs : toIntBE L = (C.length : Int) := hbs0
    have hs2 : pySlice (pre ++ (L ++ C ++ xerialBody compress cs)) ((pre.length : Int) + 4) ((pre.length : Int) + 4 + (C.length : Int)) = C := by
      have := pySlice_mid (pre ++ L) C (xerialBody compress cs)
      simp only [List.length_append, hL] at this
      have e : ((pre.length + 4 : Nat) : Int) = (pre.length : Int) + 4 := by omega
      rw [e] at this
      simpa [List.append_assoc] using this
    simp only [h1, h2, h3, not_true_eq_false, if_false, hs1, hbs, hs2, hdc]
    have hnext := ih (pre ++ L ++ C) (fun x hx => hfit x (List.mem_cons_of_mem _ hx))
    have e2 : ((pre ++ L ++ C).length : Int) = (pre.length : Int) + 4 + (C.length : Int) := by
      simp only [List.length_append, hL]; omega
    rw [e2] at hnext
    have e3 : pre ++ L ++ C ++ xerialBody compress cs = pre ++ (L ++ C ++ xerialBody compress cs) := by
      simp [List.append_assoc]
    rw [e3] at hnext
    rw [hnext]
    simp [hL]
    omega

theorem snappy_xerial_roundtrip (compress : Bytes → Bytes) (decompress : Bytes → R Bytes) (chunks : List Bytes)
    (hinv : ∀ x, decompress (compress x) = .ok x) (hfit : ∀ c ∈ chunks, (compress c).length < 2 ^ 31) :
    ∃ fuel, snappyDecode decompress fuel (xerialEncode compress chunks) = .ok chunks.flatten := by
  refine ⟨chunks.length + 1, ?_⟩
  have ht : (xerialEncode compress chunks).take 16 = xerialHeader := by
    simp only [xerialEncode]
    exact List.take_left' (by decide)
  simp only [snappyDecode, ht, if_true]
  have := xerialLoop_roundtrip compress decompress hinv chunks xerialHeader hfit
  have h16 : ((xerialHeader.length : Nat) : Int) = 16 := by decide
  rw [h16] at this
  simpa [xerialEncode, xerialBody] using this

end Afkak.Wire
