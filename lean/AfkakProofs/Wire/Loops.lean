import AfkakProofs.Wire.Unpack
/-!
# Reading arrays: the `for _ in range(n)` loops of the decoders over the grammar's `encAll`

If one iteration of the loop body, started right before an item's encoding, returns the item's
image and stops right after it, then the whole loop over `encAll c items` returns the images of all
items and stops right after the array.
-/
namespace Afkak.Wire
open Afkak Afkak.Bytes Afkak.Codec Afkak.Consts

theorem natCast_add_length (pre mid : Bytes) :
    (((pre ++ mid).length : Nat) : Int) = (pre.length : Int) + (mid.length : Int) := by
  simp [List.length_append]

/-- loop collecting one value per item (`repeatR`) -/
theorem repeatR_encAll {α β : Type} (c : Codec α) (P : α → Prop) (f : α → β) (data : Bytes) (body : Int → R (β × Int))
    (hbody : ∀ (pre rest : Bytes) (a : α), P a → data = pre ++ c.enc a ++ rest →
      body pre.length = .ok (f a, (pre.length : Int) + ((c.enc a).length : Int))) :
    ∀ (l : List α) (pre rest : Bytes), (∀ a ∈ l, P a) → data = pre ++ encAll c l ++ rest →
      repeatR body l.length pre.length = .ok (l.map f, (pre.length : Int) + ((encAll c l).length : Int)) := by
  intro l
  induction l with
  | nil =>
    intro pre rest _ _
    simp [repeatR, encAll]
  | cons a as ih =>
    intro pre rest hv hd
    have ha : P a := hv a List.mem_cons_self
    have has : ∀ x ∈ as, P x := fun x hx => hv x (List.mem_cons_of_mem _ hx)
    have hd1 : data = pre ++ c.enc a ++ (encAll c as ++ rest) := by
      rw [hd]; simp only [encAll, List.append_assoc]
    have hd2 : data = (pre ++ c.enc a) ++ encAll c as ++ rest := by
      rw [hd]; simp only [encAll, List.append_assoc]
    have h1 := hbody pre (encAll c as ++ rest) a ha hd1
    have h2 := ih (pre ++ c.enc a) rest has hd2
    rw [natCast_add_length] at h2
    simp only [List.length_cons, repeatR, h1, h2, List.map_cons, encAll, List.length_append]
    congr 2
    push_cast
    omega

/-- loop inside a generator (`repeatG`): every item contributes the values it yields -/
theorem repeatG_encAll {α β : Type} (c : Codec α) (P : α → Prop) (f : α → List β) (data : Bytes) (body : Int → G β)
    (hbody : ∀ (pre rest : Bytes) (a : α), P a → data = pre ++ c.enc a ++ rest →
      body pre.length = (f a, .ok ((pre.length : Int) + ((c.enc a).length : Int)))) :
    ∀ (l : List α) (pre rest : Bytes), (∀ a ∈ l, P a) → data = pre ++ encAll c l ++ rest →
      repeatG body l.length pre.length = (l.flatMap f, .ok ((pre.length : Int) + ((encAll c l).length : Int))) := by
  intro l
  induction l with
  | nil =>
    intro pre rest _ _
    simp [repeatG, encAll]
  | cons a as ih =>
    intro pre rest hv hd
    have ha : P a := hv a List.mem_cons_self
    have has : ∀ x ∈ as, P x := fun x hx => hv x (List.mem_cons_of_mem _ hx)
    have hd1 : data = pre ++ c.enc a ++ (encAll c as ++ rest) := by
      rw [hd]; simp only [encAll, List.append_assoc]
    have hd2 : data = (pre ++ c.enc a) ++ encAll c as ++ rest := by
      rw [hd]; simp only [encAll, List.append_assoc]
    have h1 := hbody pre (encAll c as ++ rest) a ha hd1
    have h2 := ih (pre ++ c.enc a) rest has hd2
    rw [natCast_add_length] at h2
    simp only [List.length_cons, repeatG, h1, h2, List.flatMap_cons, encAll, List.length_append]
    congr 2
    push_cast
    omega

/-! ## the `ruN` helpers on packed groups -/

theorem ru1_packed (c1 : Char) (a : Int) (pre rest : Bytes) (h : fieldsOk [c1] [a]) :
    ru1 ['>', c1] (pre ++ packedBody [c1] [a] ++ rest) pre.length =
      .ok (a, (pre.length : Int) + ((packedBody [c1] [a]).length : Int)) := by
  simp only [ru1, relativeUnpack_packed [c1] [a] pre rest h]

theorem ru2_packed (c1 c2 : Char) (a b : Int) (pre rest : Bytes) (h : fieldsOk [c1, c2] [a, b]) :
    ru2 ['>', c1, c2] (pre ++ packedBody [c1, c2] [a, b] ++ rest) pre.length =
      .ok (a, b, (pre.length : Int) + ((packedBody [c1, c2] [a, b]).length : Int)) := by
  simp only [ru2, relativeUnpack_packed [c1, c2] [a, b] pre rest h]

theorem ru3_packed (c1 c2 c3 : Char) (a b c : Int) (pre rest : Bytes) (h : fieldsOk [c1, c2, c3] [a, b, c]) :
    ru3 ['>', c1, c2, c3] (pre ++ packedBody [c1, c2, c3] [a, b, c] ++ rest) pre.length =
      .ok (a, b, c, (pre.length : Int) + ((packedBody [c1, c2, c3] [a, b, c]).length : Int)) := by
  simp only [ru3, relativeUnpack_packed [c1, c2, c3] [a, b, c] pre rest h]

theorem ru4_packed (c1 c2 c3 c4 : Char) (a b c d : Int) (pre rest : Bytes)
    (h : fieldsOk [c1, c2, c3, c4] [a, b, c, d]) :
    ru4 ['>', c1, c2, c3, c4] (pre ++ packedBody [c1, c2, c3, c4] [a, b, c, d] ++ rest) pre.length =
      .ok (a, b, c, d, (pre.length : Int) + ((packedBody [c1, c2, c3, c4] [a, b, c, d]).length : Int)) := by
  simp only [ru4, relativeUnpack_packed [c1, c2, c3, c4] [a, b, c, d] pre rest h]

end Afkak.Wire
