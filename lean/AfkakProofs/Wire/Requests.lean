import AfkakProofs.Wire.Pack
import Afkak.Monitor.C04
/-!
# The model's request bytes are the grammar's encoding of the caller's values

For every encoder: if the model returns `.ok frame`, then `frame` is `Spec.…enc` of the value
`Afkak.Monitor.C04` expects.  Together with the round-trip law every `Codec` carries, this gives
`conforms … ≠ fail` (`conforms_of_enc`).
-/
namespace Afkak.Wire
open Afkak Afkak.Bytes Afkak.Codec Afkak.Consts Afkak.Monitor.C04

set_option synthInstance.maxSize 100000

/-! ## generic -/

/-- if the frame is the grammar's encoding of every value the monitor may expect, the monitor never fails -/
theorem conforms_of_enc {α : Type} [DecidableEq α] (spec : Exact α) (expected : Option α) (frame : Bytes)
    (h : ∀ v, expected = some v → frame = spec.enc v) : conforms spec expected frame ≠ .fail := by
  unfold conforms
  cases expected with
  | none => simp
  | some v =>
    simp only
    by_cases hv : spec.valid v = true
    · rw [if_pos hv, h v rfl, spec.law v hv]; simp
    · rw [if_neg hv]; simp

/-- … and says `ok` when the value is one the grammar can carry -/
theorem conforms_ok_of_enc {α : Type} [DecidableEq α] (spec : Exact α) (v : α) (frame : Bytes)
    (hv : spec.valid v = true) (h : frame = spec.enc v) : conforms spec (some v) frame = .ok := by
  unfold conforms
  simp only [hv, if_true, h, spec.law v hv]

theorem mapM_option_cons {α β : Type} (g : α → Option β) (a : α) (l : List α) :
    (a :: l).mapM g = (match g a with
      | none => none
      | some b => match l.mapM g with
        | none => none
        | some bs => some (b :: bs)) := by
  simp only [List.mapM_cons]
  cases g a <;> simp [bind, Option.bind]
  cases l.mapM g <;> simp

/-- `message += f(x)` over a list writes the grammar's items one after the other -/
theorem concatMapM_encAll {α β : Type} (f : α → R Bytes) (g : α → Option β) (c : Codec β)
    (hfg : ∀ a b y, g a = some b → f a = .ok y → y = c.enc b) :
    ∀ (l : List α) (l' : List β) (x : Bytes), l.mapM g = some l' → concatMapM f l = .ok x → x = encAll c l' := by
  intro l
  induction l with
  | nil =>
    intro l' x hm hx
    simp at hm
    subst hm
    simp only [concatMapM] at hx
    cases hx
    rfl
  | cons a as ih =>
    intro l' x hm hx
    rw [mapM_option_cons] at hm
    cases hga : g a with
    | none => simp [hga] at hm
    | some b =>
      cases has : as.mapM g with
      | none => simp [hga, has] at hm
      | some bs =>
        simp only [hga, has, Option.some.injEq] at hm
        subst hm
        simp only [concatMapM] at hx
        split at hx
        · cases hx
        · rename_i y hy
          split at hx
          · cases hx
          · rename_i z hz
            cases hx
            rw [hfg a b y hga hy, ih bs z has hz]
            rfl

/-! ## primitives -/

theorem nullShortString_ok {x : Bytes} (h : nullShortString = .ok x) : x = ofIntBE 2 (-1) := by
  simp only [nullShortString, fmt_null_short_string, nullShortLen] at h
  rw [pack_bytes h]
  simp [packedBody, widthOf, fieldSpec]

theorem writeShortBytes_some {b x : Bytes} (h : writeShortBytes (some b) = .ok x) : x = Codec.string.enc b := by
  simp only [writeShortBytes] at h
  split at h
  · cases h
  · split at h
    · cases h
    · rename_i l hl
      cases h
      simp only [fmt_write_short_bytes_0] at hl
      rw [pack_bytes hl]
      simp [packedBody, widthOf, fieldSpec, Codec.string, lenPrefixed]

theorem writeShortBytes_opt {b : Option Bytes} {x : Bytes} (h : writeShortBytes b = .ok x) :
    x = Codec.nullableString.enc b := by
  cases b with
  | none =>
    simp only [writeShortBytes] at h
    rw [nullShortString_ok h]; rfl
  | some b => rw [writeShortBytes_some h]; rfl

theorem writeShortAscii_some {s x : Bytes} (h : writeShortAscii (some s) = .ok x) : x = Codec.string.enc s := by
  simp only [writeShortAscii] at h
  split at h
  · exact writeShortBytes_some h
  · cases h

theorem writeShortText_some {s x : Bytes} (h : writeShortText (some s) = .ok x) : x = Codec.string.enc s := by
  simp only [writeShortText] at h
  exact writeShortBytes_some h

theorem writeIntString_some {s x : Bytes} (h : writeIntString (some s) = .ok x) : x = Codec.bytes.enc s := by
  simp only [writeIntString] at h
  split at h
  · cases h
  · rename_i l hl
    cases h
    simp only [fmt_write_int_string_1] at hl
    rw [pack_bytes hl]
    simp [packedBody, widthOf, fieldSpec, Codec.bytes, lenPrefixed]

theorem writeIntString_opt {s : Option Bytes} {x : Bytes} (h : writeIntString s = .ok x) :
    x = Codec.nullableBytes.enc s := by
  cases s with
  | none =>
    simp only [writeIntString, fmt_write_int_string_0, writeIntNull] at h
    rw [pack_bytes h]
    simp [packedBody, widthOf, fieldSpec, Codec.nullableBytes, nullablePrefixed]
  | some s => rw [writeIntString_some h]; rfl

theorem encodeHeader_ok {cid : Bytes} {corr key ver : Int} {x : Bytes} (h : encodeHeader cid corr key ver = .ok x) :
    x = Spec.header.enc ⟨key, ver, corr, some cid⟩ := by
  simp only [encodeHeader, fmt_encode_message_header_0] at h
  split at h
  · cases h
  · rename_i l hl
    cases h
    rw [pack_bytes hl]
    simp [packedBody, widthOf, fieldSpec, Spec.header, iso, seq, int16, int32, intN, nullableString, nullablePrefixed]

theorem pack_i {v : Int} {x : Bytes} (h : pack ['>', 'i'] [v] = .ok x) : x = int32.enc v := by
  rw [pack_bytes h]; simp [packedBody, widthOf, fieldSpec, int32, intN]

theorem request_enc {α : Type} (body : Codec α) (h : Spec.Header) (b : α) :
    (Spec.request body).enc (h, b) = Spec.header.enc h ++ body.enc b := rfl

theorem array_enc {α : Type} (c : Codec α) (l : List α) :
    (array c).enc l = int32.enc (l.length : Int) ++ encAll c l := rfl

theorem mapM_length {α β : Type} (g : α → Option β) : ∀ (l : List α) (l' : List β), l.mapM g = some l' → l'.length = l.length := by
  intro l
  induction l with
  | nil => intro l' h; simp at h; subst h; rfl
  | cons a as ih =>
    intro l' h
    rw [mapM_option_cons] at h
    cases hga : g a with
    | none => simp [hga] at h
    | some b =>
      cases has : as.mapM g with
      | none => simp [hga, has] at h
      | some bs =>
        simp only [hga, has, Option.some.injEq] at h
        subst h
        simp [ih bs has]

/-! ## requests without topic grouping -/

theorem metadata_bytes {cid : Bytes} {corr : Int} {topics : List (Option Bytes)} {ts : List Bytes} {frame : Bytes}
    (h : encodeMetadataRequest cid corr topics = .ok frame) (ht : topics.mapM id = some ts) :
    frame = (Spec.request Spec.metadataRequest).enc (hdr 3 0 corr cid, ts) := by
  unfold encodeMetadataRequest at h
  split at h
  · cases h
  · rename_i hd hhd
    split at h
    · cases h
    · rename_i n hn
      split at h
      · cases h
      · rename_i tb htb
        cases h
        simp only [fmt_encode_metadata_request_0] at hn
        rw [encodeHeader_ok hhd, pack_i hn,
          concatMapM_encAll writeShortAscii id Codec.string
            (by intro a b y hab hy; simp at hab; subst hab; exact writeShortAscii_some hy) topics ts tb ht htb]
        simp only [request_enc, Spec.metadataRequest, array_enc, mapM_length _ _ _ ht, hdr,
          hdrKey_encode_metadata_request, hdrVer_encode_metadata_request, List.append_assoc]

theorem findCoordinator_bytes {cid : Bytes} {corr : Int} {g frame : Bytes}
    (h : encodeConsumerMetadataRequest cid corr (some g) = .ok frame) :
    frame = (Spec.request Spec.findCoordinatorRequest).enc (hdr 10 0 corr cid, g) := by
  unfold encodeConsumerMetadataRequest at h
  split at h
  · cases h
  · rename_i hd hhd
    split at h
    · cases h
    · rename_i gb hgb
      cases h
      rw [encodeHeader_ok hhd, writeShortText_some hgb]
      simp only [request_enc, Spec.findCoordinatorRequest, hdr, hdrKey_encode_consumermetadata_request,
        hdrVer_encode_consumermetadata_request]

theorem heartbeat_bytes {cid : Bytes} {corr gen : Int} {g m frame : Bytes}
    (h : encodeHeartbeatRequest cid corr (some g) gen (some m) = .ok frame) :
    frame = (Spec.request Spec.heartbeatRequest).enc (hdr 12 0 corr cid, g, gen, m) := by
  unfold encodeHeartbeatRequest at h
  split at h
  · cases h
  · rename_i hd hhd
    split at h
    · cases h
    · rename_i gb hgb
      split at h
      · cases h
      · rename_i genb hgen
        split at h
        · cases h
        · rename_i mb hmb
          cases h
          simp only [fmt_encode_heartbeat_request_0] at hgen
          rw [encodeHeader_ok hhd, writeShortText_some hgb, pack_i hgen, writeShortText_some hmb]
          simp only [request_enc, Spec.heartbeatRequest, seq, hdr, hdrKey_encode_heartbeat_request,
            hdrVer_encode_heartbeat_request, List.append_assoc]

theorem leaveGroup_bytes {cid : Bytes} {corr : Int} {g m frame : Bytes}
    (h : encodeLeaveGroupRequest cid corr (some g) (some m) = .ok frame) :
    frame = (Spec.request Spec.leaveGroupRequest).enc (hdr 13 0 corr cid, g, m) := by
  unfold encodeLeaveGroupRequest at h
  split at h
  · cases h
  · rename_i hd hhd
    split at h
    · cases h
    · rename_i gb hgb
      split at h
      · cases h
      · rename_i mb hmb
        cases h
        rw [encodeHeader_ok hhd, writeShortText_some hgb, writeShortText_some hmb]
        simp only [request_enc, Spec.leaveGroupRequest, seq, hdr, hdrKey_encode_leave_group_request,
          hdrVer_encode_leave_group_request, List.append_assoc]

theorem apiVersions_bytes {cid : Bytes} {corr : Int} {frame : Bytes}
    (h : encodeApiVersionsRequest cid corr 18 0 = .ok frame) :
    frame = (Spec.request Spec.apiVersionsRequest).enc (hdr 18 0 corr cid, ()) := by
  unfold encodeApiVersionsRequest at h
  rw [encodeHeader_ok h]
  simp [request_enc, Spec.apiVersionsRequest, Codec.unit, hdr]

theorem joinGroup_bytes {cid : Bytes} {corr : Int} {p : JoinGroupReq} {g m t : Bytes} {ps : List (Bytes × Bytes)}
    {frame : Bytes} (h : encodeJoinGroupRequest cid corr p = .ok frame)
    (hg : p.group = some g) (hm : p.memberId = some m) (ht : p.protocolType = some t)
    (hps : pairs p.groupProtocols = some ps) :
    frame = (Spec.request Spec.joinGroupRequest).enc (hdr 11 0 corr cid, g, p.sessionTimeout, m, t, ps) := by
  unfold encodeJoinGroupRequest at h
  rw [hg, hm, ht] at h
  split at h
  · cases h
  · rename_i hd hhd
    split at h
    · cases h
    · rename_i gb hgb
      split at h
      · cases h
      · rename_i stb hst
        split at h
        · cases h
        · rename_i mb hmb
          split at h
          · cases h
          · rename_i tb htb
            split at h
            · cases h
            · rename_i nb hnb
              split at h
              · cases h
              · rename_i pb hpb
                cases h
                simp only [fmt_encode_join_group_request_0] at hst
                simp only [fmt_encode_join_group_request_1] at hnb
                have hitems := concatMapM_encAll _ (fun (q : Option Bytes × Option Bytes) =>
                    match q.1, q.2 with | some a, some b => some (a, b) | _, _ => none)
                  (Codec.string ⊗ Codec.bytes)
                  (by
                    intro a b y hab hy
                    obtain ⟨a1, a2⟩ := a
                    cases a1 <;> cases a2 <;> simp at hab
                    subst hab
                    simp only at hy
                    split at hy
                    · cases hy
                    · rename_i nm hnm
                      split at hy
                      · cases hy
                      · rename_i md hmd
                        cases hy
                        rw [writeShortAscii_some hnm, writeIntString_some hmd]; rfl)
                  p.groupProtocols ps pb hps hpb
                rw [encodeHeader_ok hhd, writeShortText_some hgb, pack_i hst, writeShortText_some hmb,
                  writeShortText_some htb, pack_i hnb, hitems]
                simp only [request_enc, Spec.joinGroupRequest, seq, array_enc, hdr, hdrKey_encode_join_group_request,
                  hdrVer_encode_join_group_request, List.append_assoc, mapM_length _ _ _ hps]

theorem syncGroup_bytes {cid : Bytes} {corr gen : Int} {g m : Bytes} {asg : List (Option Bytes × Option Bytes)}
    {ps : List (Bytes × Bytes)} {frame : Bytes}
    (h : encodeSyncGroupRequest cid corr (some g) gen (some m) asg = .ok frame) (hps : pairs asg = some ps) :
    frame = (Spec.request Spec.syncGroupRequest).enc (hdr 14 0 corr cid, g, gen, m, ps) := by
  unfold encodeSyncGroupRequest at h
  split at h
  · cases h
  · rename_i hd hhd
    split at h
    · cases h
    · rename_i gb hgb
      split at h
      · cases h
      · rename_i genb hgen
        split at h
        · cases h
        · rename_i mb hmb
          split at h
          · cases h
          · rename_i nb hnb
            split at h
            · cases h
            · rename_i pb hpb
              cases h
              simp only [fmt_encode_sync_group_request_0] at hgen
              simp only [fmt_encode_sync_group_request_1] at hnb
              have hitems := concatMapM_encAll _ (fun (q : Option Bytes × Option Bytes) =>
                  match q.1, q.2 with | some a, some b => some (a, b) | _, _ => none)
                (Codec.string ⊗ Codec.bytes)
                (by
                  intro a b y hab hy
                  obtain ⟨a1, a2⟩ := a
                  cases a1 <;> cases a2 <;> simp at hab
                  subst hab
                  simp only at hy
                  split at hy
                  · cases hy
                  · rename_i nm hnm
                    split at hy
                    · cases hy
                    · rename_i md hmd
                      cases hy
                      rw [writeShortText_some hnm, writeIntString_some hmd]; rfl)
                asg ps pb hps hpb
              rw [encodeHeader_ok hhd, writeShortText_some hgb, pack_i hgen, writeShortText_some hmb, pack_i hnb, hitems]
              simp only [request_enc, Spec.syncGroupRequest, seq, array_enc, hdr, hdrKey_encode_sync_group_request,
                hdrVer_encode_sync_group_request, List.append_assoc, mapM_length _ _ _ hps]

end Afkak.Wire
