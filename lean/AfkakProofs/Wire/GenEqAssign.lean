import AfkakProofs.Wire.GenEqGrouped
import AfkakProofs.Wire.GenEqLoops
/-!
# Generated member-assignment codec equals the hand-written model

`encode_sync_group_member_assignment` (a loop over `assignments.items()` with the templated
`struct.pack(">i%si" % len(partitions), len(partitions), *partitions)`) and
`decode_sync_group_member_assignment` (`relative_unpack(">%si" % num_partitions, ..)`, the result
dict built with `assignments[topic] = partitions`).  `expandFmtR` (GenPrims.lean) is the library
reading of a `%s` repeat count; `relativeUnpack_expanded` / `expand_counted` show the model's
`relativeUnpackN` / `packCounted` shortcuts are exactly that.
-/
namespace Afkak.Wire
open Afkak Afkak.Bytes Afkak.Consts

theorem expand_counted (c0 c : Char) (k : Char) (hk : k = 'd' ∨ k = 's') (hc0 : c0 ≠ '%') (hc : c ≠ '%') (n : Nat) :
    expandFmtR ['>', c0, '%', k, c] (n : Int) = .ok ('>' :: c0 :: List.replicate n c) := by
  have h0 : ('>' : Char) ≠ '%' := by decide
  simp [expandFmtR, expandFmt, hk, hc0, hc, h0]

theorem gen_encodeSyncGroupMemberAssignment (version : Int) (asg : List (Option Bytes × List Int)) (ud : Option Bytes) :
    genEncodeSyncGroupMemberAssignment version asg ud = encodeSyncGroupMemberAssignment version asg ud := by
  simp only [genEncodeSyncGroupMemberAssignment, encodeSyncGroupMemberAssignment, gen_writeShortAscii, gen_writeIntString,
    fmt_encode_sync_group_member_assignment_0, fmt_encode_sync_group_member_assignment_1]
  xg pack ['>', 'h'] _
  xg pack ['>', 'i'] _
  simp only [ok_bind]
  rw [foldlM_concat _ (fun (a : Option Bytes × List Int) =>
      match writeShortAscii a.1 with
      | .error e => .error e
      | .ok t => match packCounted fmt_encode_sync_group_member_assignment_2 a.2 with
        | .error e => .error e
        | .ok ps => .ok (t ++ ps))]
  · xg concatMapM _ _
    simp only [ok_bind]
    xg writeIntString ud
  · intro msg a
    obtain ⟨t, ps⟩ := a
    simp only []
    xg writeShortAscii t
    simp only [ok_bind]
    rw [expand_counted 'i' 'i' 's' (Or.inr rfl) (by decide) (by decide)]
    simp only [ok_bind, packCounted, fmt_encode_sync_group_member_assignment_2, pack]
    have : ¬ (('s' : Char) ≠ 'd' ∧ ('s' : Char) ≠ 's') := by decide
    simp only [this, if_false, List.singleton_append]
    xg packBody _ _
    simp only [ok_bind, pure, Except.pure, List.append_assoc]


theorem bodySize_replicate (c : Char) (w : Nat) (sg : Bool) (h : fieldSpec c = some (w, sg)) (n : Nat) :
    bodySize (List.replicate n c) = some (n * w) := by
  induction n with
  | zero => simp [bodySize]
  | succ n ih => simp only [List.replicate_succ, bodySize, h, ih]; congr 1; rw [Nat.succ_mul, Nat.add_comm]

theorem relativeUnpack_expanded (n : Int) (data : Bytes) (cur : Int) :
    (expandFmtR ['>', '%', 's', 'i'] n >>= fun f => relativeUnpack f data cur)
      = relativeUnpackN ['>', '%', 's', 'i'] n data cur := by
  have h0 : ('>' : Char) ≠ '%' := by decide
  by_cases hn : 0 ≤ n
  · have hneg : ¬ n < 0 := by omega
    have e : expandFmtR ['>', '%', 's', 'i'] n = .ok ('>' :: List.replicate n.toNat 'i') := by
      simp [expandFmtR, expandFmt, hn, h0]
    have hs : fieldSpec 'i' = some (4, true) := rfl
    have hw : ((n.toNat * 4 : Nat) : Int) = n * 4 := by
      rw [Int.natCast_mul, Int.toNat_of_nonneg hn]; rfl
    rw [e, ok_bind]
    simp only [relativeUnpack, relativeUnpackN, calcsize, bodySize_replicate 'i' 4 true hs, unpack, hs, hneg, if_false, hw]
    have : ¬ (('s' : Char) ≠ 'd' ∧ ('s' : Char) ≠ 's') := by decide
    have h4 : ((4 : Nat) : Int) = 4 := rfl
    simp only [this, if_false, h4]
    by_cases hlt : (data.length : Int) < cur + n * 4
    · simp only [hlt, if_true]
    · simp only [hlt, if_false]
      generalize unpackBody _ _ = r
      match r with
      | none => rfl
      | some (vs, []) => rfl
      | some (vs, _ :: _) => rfl
  · have hneg : n < 0 := by omega
    have e : expandFmtR ['>', '%', 's', 'i'] n = .error .structError := by
      simp [expandFmtR, expandFmt, hn, h0]
    rw [e]
    simp only [relativeUnpackN, hneg, if_true]
    have : ¬ (('s' : Char) ≠ 'd' ∧ ('s' : Char) ≠ 's') := by decide
    simp only [this, if_false]
    rfl

/-- `foldlM_repeat` for any accumulator update (`acc.append(x)`, `d[k] = v`, ...) -/
theorem foldlM_repeat_gen {β γ ι : Type} (upd : γ → β → γ) (body : Int × γ → ι → R (Int × γ)) (entry : Int → R (β × Int))
    (h : ∀ cur acc i, body (cur, acc) i =
      (match entry cur with | .error e => .error e | .ok (a, cur') => .ok (cur', upd acc a)))
    (l : List ι) : ∀ (cur : Int) (acc : γ), List.foldlM body (cur, acc) l =
      (match repeatR entry l.length cur with | .error e => .error e | .ok (as, cur') => .ok (cur', as.foldl upd acc)) := by
  induction l with
  | nil => intro cur acc; simp [repeatR, pure, Except.pure]
  | cons i is ih =>
    intro cur acc
    rw [List.foldlM_cons, h]
    simp only [List.length_cons, repeatR]
    cases entry cur with
    | error e => rfl
    | ok r =>
      obtain ⟨a, cur'⟩ := r
      simp only [ok_bind, ih]
      cases repeatR entry is.length cur' with
      | error e => rfl
      | ok r2 => obtain ⟨as, c2⟩ := r2; rfl

theorem gen_decodeSyncGroupMemberAssignment (data : Bytes) :
    (genDecodeSyncGroupMemberAssignment data).map (fun r => (⟨r.1, r.2.1, r.2.2⟩ : SyncGroupMemberAssignment))
      = decodeSyncGroupMemberAssignment data := by
  simp only [genDecodeSyncGroupMemberAssignment, decodeSyncGroupMemberAssignment, ru2, gen_relativeUnpack,
    gen_readIntString, gen_readShortAscii, fmt_decode_sync_group_member_assignment_0]
  cases relativeUnpack ['>', 'h', 'i'] data 0 with
  | error e => rfl
  | ok r =>
    obtain ⟨vs, c⟩ := r
    match vs with
    | [] => rfl
    | [a] => rfl
    | [version, n] =>
      simp only [ok_bind]
      split
      · rfl
      · rw [foldlM_repeat_gen (fun (d : List (Bytes × List Int)) (e : Bytes × List Int) => dictSet d e.1 e.2) _ (assignmentTopic data)]
        · simp only [List.length_range]
          cases repeatR (assignmentTopic data) n.toNat c with
          | error e => rfl
          | ok r2 =>
            obtain ⟨as, c2⟩ := r2
            simp only [ok_bind]
            cases readIntString data c2 with
            | error e => rfl
            | ok r3 => obtain ⟨ud, c3⟩ := r3; rfl
        · intro cur acc i
          simp only [assignmentTopic, ru1, fmt_decode_sync_group_member_assignment_1, fmt_decode_sync_group_member_assignment_2]
          cases readShortAscii data cur with
          | error e => rfl
          | ok r1 =>
            obtain ⟨topic, c1⟩ := r1
            simp only [ok_bind]
            cases relativeUnpack ['>', 'i'] data c1 with
            | error e => rfl
            | ok r2 =>
              obtain ⟨ws, c2⟩ := r2
              match ws with
              | [] => rfl
              | [np] =>
                simp only [ok_bind]
                have hx := relativeUnpack_expanded np data c2
                cases hE : expandFmtR ['>', '%', 's', 'i'] np with
                | error e =>
                  rw [hE] at hx
                  simp only [error_bind] at hx
                  rw [← hx]; rfl
                | ok f =>
                  rw [hE] at hx
                  simp only [ok_bind] at hx
                  rw [← hx]
                  simp only [ok_bind]
                  cases relativeUnpack f data c2 with
                  | error e => rfl
                  | ok r3 => obtain ⟨ps, c3⟩ := r3; rfl
              | _ :: _ :: _ => rfl
    | _ :: _ :: _ :: _ => rfl

end Afkak.Wire
