import Afkak.Monitor.C04
/-!
# `group_by_topic_and_partition` is the protocol's nesting

For payloads with non-null topics and pairwise distinct (topic, partition) keys, the Python grouping
(`defaultdict(dict)`, insertion ordered, modelled by `groupByTopicPartition`) produces exactly the
independent `regroup` of `Afkak.Monitor.C04`: topics in order of first occurrence, each with its
payloads in the caller's order.  In particular every payload appears exactly once and the relative
order of the payloads of one topic (hence of one partition) is kept.
-/
namespace Afkak.Wire
open Afkak Afkak.Monitor.C04

variable {α : Type}

/-! ## `firstOccurrences` -/

theorem mem_firstOccurrences (ks : List Bytes) (k : Bytes) : k ∈ firstOccurrences ks ↔ k ∈ ks := by
  induction ks with
  | nil => simp [firstOccurrences]
  | cons a as ih =>
    simp only [firstOccurrences, List.mem_cons, List.mem_filter, ih, bne_iff_ne, ne_eq]
    constructor
    · rintro (h | ⟨h, _⟩)
      · exact Or.inl h
      · exact Or.inr h
    · rintro (h | h)
      · exact Or.inl h
      · by_cases hk : k = a
        · exact Or.inl hk
        · exact Or.inr ⟨h, hk⟩

theorem firstOccurrences_nodup (ks : List Bytes) : (firstOccurrences ks).Nodup := by
  induction ks with
  | nil => simp [firstOccurrences]
  | cons a as ih =>
    simp only [firstOccurrences, List.nodup_cons, List.mem_filter, bne_self_eq_false, Bool.false_eq_true, and_false,
      not_false_eq_true, true_and]
    exact ih.filter _

theorem filter_ne_of_not_mem (l : List Bytes) (k : Bytes) (h : k ∉ l) : l.filter (fun x => x != k) = l := by
  rw [List.filter_eq_self]
  intro a ha
  simp only [bne_iff_ne, ne_eq]
  intro hak
  exact h (hak ▸ ha)

theorem firstOccurrences_append_singleton (ks : List Bytes) (k : Bytes) :
    firstOccurrences (ks ++ [k]) = if k ∈ ks then firstOccurrences ks else firstOccurrences ks ++ [k] := by
  induction ks with
  | nil => simp [firstOccurrences]
  | cons a as ih =>
    simp only [List.cons_append, firstOccurrences, ih, List.mem_cons]
    by_cases hka : k = a
    · subst hka
      simp only [true_or, if_true]
      by_cases hk : k ∈ as
      · simp only [hk, if_true]
      · simp only [hk, if_false, List.filter_append, List.filter_cons, bne_self_eq_false, Bool.false_eq_true, if_false,
          List.filter_nil, List.append_nil]
    · have hak : ¬ (a = k) := fun h => hka h.symm
      by_cases hk : k ∈ as
      · simp only [hka, hk, or_true, if_true]
      · have hne : (k != a) = true := by simp [bne_iff_ne, hka]
        simp only [hka, hk, or_false, if_false, List.filter_append, List.filter_cons, hne, if_true, List.filter_nil]

/-! ## dictionaries -/

theorem dictSet_append_of_not_mem {κ ν : Type} [BEq κ] [LawfulBEq κ] (d : List (κ × ν)) (k : κ) (v : ν)
    (h : ∀ e ∈ d, e.1 ≠ k) : dictSet d k v = d ++ [(k, v)] := by
  unfold dictSet
  have : d.any (fun e => e.1 == k) = false := by
    rw [List.any_eq_false]
    intro e he
    simp only [beq_iff_eq]
    exact h e he
  simp only [this, Bool.false_eq_true, if_false]

/-! ## the step of the grouping fold on the regrouped form -/

/-- the payloads of topic `u`, in order -/
def itemsOf (l : List (Bytes × (Int × α))) (u : Bytes) : List (Int × α) := (l.filter (fun x => x.1 == u)).map (·.2)

/-- the regrouped form with `some` topics (what the Python dict of dicts looks like) -/
def lifted (l : List (Bytes × (Int × α))) : List (Option Bytes × List (Int × α)) :=
  (firstOccurrences (l.map (·.1))).map (fun u => (some u, itemsOf l u))

theorem lifted_eq_regroup (l : List (Bytes × (Int × α))) :
    lifted l = (regroup l).map (fun e => (some e.1, e.2)) := by
  simp only [lifted, regroup, itemsOf, List.map_map, Function.comp_def]

theorem itemsOf_append (l : List (Bytes × (Int × α))) (e : Bytes × (Int × α)) (u : Bytes) :
    itemsOf (l ++ [e]) u = itemsOf l u ++ (if e.1 == u then [e.2] else []) := by
  simp only [itemsOf, List.filter_append, List.map_append, List.filter_cons, List.filter_nil]
  split <;> simp

theorem itemsOf_nil_of_not_mem (l : List (Bytes × (Int × α))) (u : Bytes) (h : u ∉ l.map (·.1)) : itemsOf l u = [] := by
  simp only [itemsOf, List.map_eq_nil_iff, List.filter_eq_nil_iff, beq_iff_eq]
  intro a ha hau
  exact h (List.mem_map.mpr ⟨a, ha, hau⟩)

theorem dictGet_lifted (l : List (Bytes × (Int × α))) (t : Bytes) :
    dictGet (lifted l) (some t) = if t ∈ l.map (·.1) then some (itemsOf l t) else none := by
  unfold dictGet lifted
  have hnd := firstOccurrences_nodup (l.map (·.1))
  have hmem := mem_firstOccurrences (l.map (·.1)) t
  generalize firstOccurrences (l.map (·.1)) = F at hnd hmem
  have hiff : (if t ∈ l.map (·.1) then some (itemsOf l t) else none) = (if t ∈ F then some (itemsOf l t) else none) := by
    by_cases h : t ∈ F
    · rw [if_pos h, if_pos (hmem.mp h)]
    · rw [if_neg h, if_neg (fun h' => h (hmem.mpr h'))]
  rw [hiff]
  clear hmem hiff
  induction F with
  | nil => simp
  | cons a as ih =>
    simp only [List.nodup_cons] at hnd
    simp only [List.map_cons, List.filter_cons, beq_iff_eq, Option.some.injEq, List.mem_cons]
    by_cases hat : a = t
    · subst hat
      simp
    · have hta : ¬ (t = a) := fun h => hat h.symm
      simp only [hat, if_false, hta, false_or]
      exact ih hnd.2

/-- one step of the Python fold, on the regrouped form: a payload whose (topic, partition) is new -/
theorem step_lifted (l : List (Bytes × (Int × α))) (e : Bytes × (Int × α))
    (hnew : ∀ x ∈ l, ¬ (x.1 = e.1 ∧ x.2.1 = e.2.1)) :
    dictSet (lifted l) (some e.1) (dictSet ((dictGet (lifted l) (some e.1)).getD []) e.2.1 e.2.2) = lifted (l ++ [e]) := by
  obtain ⟨t, p, x⟩ := e
  simp only at hnew ⊢
  -- the inner dict: the payloads of topic t so far; p is a new key in it
  have hinner : dictSet ((dictGet (lifted l) (some t)).getD []) p x = itemsOf l t ++ [(p, x)] := by
    rw [dictGet_lifted]
    by_cases ht : t ∈ l.map (·.1)
    · simp only [ht, if_true, Option.getD_some]
      apply dictSet_append_of_not_mem
      intro q hq hqp
      simp only [itemsOf, List.mem_map, List.mem_filter, beq_iff_eq] at hq
      obtain ⟨y, ⟨hy, hyt⟩, hyq⟩ := hq
      exact hnew y hy ⟨hyt, by rw [hyq]; exact hqp⟩
    · simp only [ht, if_false, Option.getD_none, itemsOf_nil_of_not_mem l t ht, List.nil_append]
      rfl
  rw [hinner]
  unfold lifted
  simp only [List.map_append, List.map_cons, List.map_nil, firstOccurrences_append_singleton]
  have hmem := mem_firstOccurrences (l.map (·.1)) t
  have hnd := firstOccurrences_nodup (l.map (·.1))
  by_cases ht : t ∈ l.map (·.1)
  · -- the topic exists: its entry is replaced in place
    simp only [ht, if_true]
    have hF : t ∈ firstOccurrences (l.map (·.1)) := hmem.mpr ht
    unfold dictSet
    have hany : ((firstOccurrences (l.map (·.1))).map (fun u => (some u, itemsOf l u))).any (fun e => e.1 == some t) = true := by
      rw [List.any_eq_true]
      exact ⟨(some t, itemsOf l t), List.mem_map.mpr ⟨t, hF, rfl⟩, by simp⟩
    simp only [hany, if_true, List.map_map, Function.comp_def]
    apply List.map_congr_left
    intro u _
    rw [itemsOf_append]
    by_cases hut : u = t
    · subst hut; simp
    · have htu : ¬ (t = u) := fun h => hut h.symm
      simp [hut, htu]
  · -- a new topic: appended at the end
    simp only [ht, if_false, List.map_append, List.map_cons, List.map_nil]
    have hF : t ∉ firstOccurrences (l.map (·.1)) := fun h => ht (hmem.mp h)
    rw [dictSet_append_of_not_mem]
    · congr 1
      · apply List.map_congr_left
        intro u hu
        rw [itemsOf_append]
        have : ¬ (t = u) := fun h => hF (h ▸ hu)
        simp [this]
      · rw [itemsOf_append, itemsOf_nil_of_not_mem l t ht]
        simp
    · intro q hq
      simp only [List.mem_map] at hq
      obtain ⟨u, hu, rfl⟩ := hq
      simp only [ne_eq, Option.some.injEq]
      intro hut
      exact hF (hut ▸ hu)

/-- the fold over the keyed payloads -/
theorem fold_lifted :
    ∀ (rest done : List (Bytes × (Int × α))), ((done ++ rest).map (fun e => (e.1, e.2.1))).Nodup →
      rest.foldl (fun out e => dictSet out (some e.1) (dictSet ((dictGet out (some e.1)).getD []) e.2.1 e.2.2)) (lifted done)
        = lifted (done ++ rest) := by
  intro rest
  induction rest with
  | nil => intro done _; simp
  | cons e es ih =>
    intro done hd
    simp only [List.foldl_cons]
    have hnew : ∀ x ∈ done, ¬ (x.1 = e.1 ∧ x.2.1 = e.2.1) := by
      intro x hx hxe
      rw [List.map_append, List.nodup_append] at hd
      have := hd.2.2 (x.1, x.2.1) (List.mem_map.mpr ⟨x, hx, rfl⟩) (e.1, e.2.1)
        (List.mem_map.mpr ⟨e, List.mem_cons_self, rfl⟩)
      exact this (by rw [hxe.1, hxe.2])
    rw [step_lifted done e hnew]
    have := ih (done ++ [e]) (by simpa using hd)
    rw [this]
    simp

end Afkak.Wire

namespace Afkak.Wire
open Afkak Afkak.Monitor.C04

variable {α β : Type}

/-! ## from the payload list to the keyed list -/

/-- what `keyed` returns: the mapped payloads -/
theorem keyed_mapM (topic : α → Option Bytes) (partition : α → Int) (item : α → Option β) (xs : List α)
    (l : List (Bytes × (Int × β))) (h : keyed topic partition item xs = some l) :
    xs.mapM (keyOne topic partition item) = some l := h

/-- the keys of the keyed list are the payloads' keys -/
theorem keyed_keys (topic : α → Option Bytes) (partition : α → Int) (item : α → Option β) :
    ∀ (xs : List α) (l : List (Bytes × (Int × β))), xs.mapM (keyOne topic partition item) = some l →
      l.map (fun e => (some e.1, e.2.1)) = xs.map (fun x => (topic x, partition x)) := by
  intro xs
  induction xs with
  | nil => intro l h; simp at h; subst h; rfl
  | cons a as ih =>
    intro l h
    rw [List.mapM_cons] at h
    cases hk : keyOne topic partition item a with
    | none => simp [hk] at h
    | some b =>
      cases hs : as.mapM (keyOne topic partition item) with
      | none => simp [hk, hs] at h
      | some bs =>
        simp [hk, hs] at h
        subst h
        unfold keyOne at hk
        cases ht : topic a with
        | none => simp [ht] at hk
        | some t =>
          cases hi : item a with
          | none => simp [ht, hi] at hk
          | some bb =>
            simp only [ht, hi, Option.some.injEq] at hk
            subst hk
            simp [ih bs hs, ht]

theorem nodup_of_map {γ δ : Type} (f : γ → δ) : ∀ (l : List γ), (l.map f).Nodup → l.Nodup := by
  intro l
  induction l with
  | nil => intro _; exact List.nodup_nil
  | cons a as ih =>
    intro h
    rw [List.map_cons, List.nodup_cons] at h
    rw [List.nodup_cons]
    exact ⟨fun hm => h.1 (List.mem_map_of_mem hm), ih h.2⟩

theorem keyed_nodup (topic : α → Option Bytes) (partition : α → Int) (item : α → Option β) (xs : List α)
    (l : List (Bytes × (Int × β))) (h : xs.mapM (keyOne topic partition item) = some l)
    (hnd : (xs.map (fun x => (topic x, partition x))).Nodup) : (l.map (fun e => (e.1, e.2.1))).Nodup := by
  rw [← keyed_keys topic partition item xs l h] at hnd
  have : l.map (fun e => (some e.1, e.2.1)) = (l.map (fun e => (e.1, e.2.1))).map (fun k => (some k.1, k.2)) := by
    simp [List.map_map, Function.comp_def]
  rw [this] at hnd
  exact nodup_of_map _ _ hnd

theorem mapM_some_map {γ δ : Type} (f : γ → δ) (xs : List γ) : xs.mapM (fun x => some (f x)) = some (xs.map f) := by
  induction xs with
  | nil => rfl
  | cons a as ih => simp [List.mapM_cons, ih]

end Afkak.Wire

namespace Afkak.Wire
open Afkak Afkak.Monitor.C04

variable {α β : Type}

theorem mapM_cons_some {γ δ : Type} (g : γ → Option δ) (a : γ) (as : List γ) (l : List δ)
    (h : (a :: as).mapM g = some l) : ∃ b bs, g a = some b ∧ as.mapM g = some bs ∧ l = b :: bs := by
  rw [List.mapM_cons] at h
  cases hg : g a with
  | none => simp [hg] at h
  | some b =>
    cases hs : as.mapM g with
    | none => simp [hg, hs] at h
    | some bs =>
      simp [hg, hs] at h
      exact ⟨b, bs, rfl, rfl, h.symm⟩

/-- the Python grouping of the payloads, as a fold over their keyed form with the payload itself as item -/
theorem group_fold (topic : α → Option Bytes) (partition : α → Int) :
    ∀ (xs : List α) (l0 : List (Bytes × (Int × α))) (acc : List (Option Bytes × List (Int × α))),
      xs.mapM (keyOne topic partition (fun x => some x)) = some l0 →
      xs.foldl (fun out t => dictSet out (topic t) (dictSet ((dictGet out (topic t)).getD []) (partition t) t)) acc =
      l0.foldl (fun out e => dictSet out (some e.1) (dictSet ((dictGet out (some e.1)).getD []) e.2.1 e.2.2)) acc := by
  intro xs
  induction xs with
  | nil => intro l0 acc h; simp at h; subst h; rfl
  | cons a as ih =>
    intro l0 acc h
    obtain ⟨b, bs, hb, hbs, rfl⟩ := mapM_cons_some _ a as l0 h
    simp only [List.foldl_cons]
    unfold keyOne at hb
    cases ht : topic a with
    | none => simp [ht] at hb
    | some t =>
      simp only [ht, Option.some.injEq] at hb
      subst hb
      exact ih bs _ hbs

/-- **The grouping is the protocol's nesting** (per-partition order preserved, every payload once). -/
theorem group_eq_lifted (topic : α → Option Bytes) (partition : α → Int) (xs : List α) (l0 : List (Bytes × (Int × α)))
    (h : keyed topic partition (fun x => some x) xs = some l0) (hnd : (l0.map (fun e => (e.1, e.2.1))).Nodup) :
    groupByTopicPartition topic partition xs = lifted l0 := by
  have hk := keyed_mapM topic partition (fun x => some x) xs l0 h
  unfold groupByTopicPartition
  rw [group_fold topic partition xs l0 [] hk]
  have := fold_lifted l0 ([] : List (Bytes × (Int × α))) (by simpa using hnd)
  simpa [lifted, firstOccurrences] using this

end Afkak.Wire

namespace Afkak.Wire
open Afkak Afkak.Monitor.C04

variable {α β : Type}

/-- turn the items of one topic of the grouped payloads into the grammar's items -/
def itemMap (item : α → Option β) (q : Int × α) : Option (Int × β) := (item q.2).map (fun b => (q.1, b))

theorem keyed_relation (topic : α → Option Bytes) (partition : α → Int) (item : α → Option β) :
    ∀ (xs : List α) (l : List (Bytes × (Int × β))), xs.mapM (keyOne topic partition item) = some l →
      ∃ l0, xs.mapM (keyOne topic partition (fun x => some x)) = some l0 ∧
        l0.map (fun e => (e.1, e.2.1)) = l.map (fun e => (e.1, e.2.1)) ∧
        ∀ u, (itemsOf l0 u).mapM (itemMap item) = some (itemsOf l u) := by
  intro xs
  induction xs with
  | nil =>
    intro l h
    simp at h; subst h
    exact ⟨[], by simp, rfl, fun u => by simp [itemsOf]⟩
  | cons a as ih =>
    intro l h
    obtain ⟨b, bs, hb, hbs, rfl⟩ := mapM_cons_some _ a as l h
    obtain ⟨l0, h0, hk, hi⟩ := ih bs hbs
    unfold keyOne at hb
    cases ht : topic a with
    | none => simp [ht] at hb
    | some t =>
      cases hit : item a with
      | none => simp [ht, hit] at hb
      | some bb =>
        simp only [ht, hit, Option.some.injEq] at hb
        subst hb
        refine ⟨(t, (partition a, a)) :: l0, ?_, ?_, ?_⟩
        · rw [List.mapM_cons]
          simp [keyOne, ht, h0]
        · simp [hk]
        · intro u
          simp only [itemsOf, List.filter_cons]
          by_cases htu : t = u
          · subst htu
            simp only [beq_self_eq_true, if_true, List.map_cons, List.mapM_cons, itemMap, hit, Option.map_some]
            have := hi t
            simp only [itemsOf] at this
            simp [this]
          · have : (t == u) = false := by simp [htu]
            simp only [this, Bool.false_eq_true, if_false]
            exact hi u

theorem mapM_map_some {γ δ ε : Type} (F : List γ) (a : γ → δ) (b : γ → ε) (g : δ → Option ε)
    (h : ∀ u ∈ F, g (a u) = some (b u)) : (F.map a).mapM g = some (F.map b) := by
  induction F with
  | nil => rfl
  | cons x xs ih =>
    have hx := h x List.mem_cons_self
    have hxs := ih (fun u hu => h u (List.mem_cons_of_mem _ hu))
    simp [List.mapM_cons, hx, hxs]

/-- one topic of the grouped payloads as the grammar's `(topic, [partition item])` -/
def topicMap (item : α → Option β) (tp : Option Bytes × List (Int × α)) : Option (Bytes × List (Int × β)) :=
  match tp.1 with
  | some t => (tp.2.mapM (itemMap item)).map (fun ps => (t, ps))
  | none => none

/-- what an encoder loop finds: the Python grouping of the payloads, item by item, is the `regroup`
    of the monitor's keyed list -/
theorem group_mapM_regroup (topic : α → Option Bytes) (partition : α → Int) (item : α → Option β) (xs : List α)
    (l : List (Bytes × (Int × β))) (h : keyed topic partition item xs = some l)
    (hnd : (xs.map (fun x => (topic x, partition x))).Nodup) :
    (groupByTopicPartition topic partition xs).mapM (topicMap item) = some (regroup l)
    ∧ (groupByTopicPartition topic partition xs).length = (regroup l).length := by
  have hk := keyed_mapM topic partition item xs l h
  obtain ⟨l0, h0, hkeys, hitems⟩ := keyed_relation topic partition item xs l hk
  have hnd0 := keyed_nodup topic partition (fun x => some x) xs l0 h0 hnd
  rw [group_eq_lifted topic partition xs l0 h0 hnd0]
  have hF : l0.map (·.1) = l.map (·.1) := by
    have := congrArg (List.map (·.1)) hkeys
    simpa [List.map_map, Function.comp_def] using this
  constructor
  · unfold lifted regroup
    rw [hF]
    apply mapM_map_some
    intro u _
    simp only [topicMap, hitems u, Option.map_some]
    rfl
  · simp [lifted, regroup, hF]

end Afkak.Wire
