import AfkakProofs.Wire.GroupCount
/-!
# The converse of the `_group_payloads` guard: a payload list that names no (topic, partition) twice
is never refused
-/
namespace Afkak.Wire
open Afkak Afkak.Monitor.C04

variable {α : Type}

/-- a step adds no key but the payload's own -/
theorem gstep_keyIn_rev (topic : α → Option Bytes) (partition : α → Int) (out : Grouped α) (x : α) (hI : GInv out)
    (t : Option Bytes) (p : Int) (h : keyIn (gstep topic partition out x) t p) :
    keyIn out t p ∨ (t = topic x ∧ p = partition x) := by
  unfold gstep at h
  by_cases ht : topic x ∈ out.map (·.1)
  · obtain ⟨a, old, b, hab, ha, hb⟩ := dict_split out (topic x) ht hI.1
    have hold : (old.map (·.1)).Nodup := hI.2 (topic x, old) (by rw [hab]; simp)
    rw [hab, dictGet_split a b (topic x) old ha, Option.getD_some] at h
    by_cases hp : partition x ∈ old.map (·.1)
    · obtain ⟨c, y, d, hcd, hc, hd⟩ := dict_split old (partition x) hp hold
      rw [hcd, dictSet_split c d (partition x) y x hc hd, dictSet_split a b (topic x) _ _ ha hb] at h
      obtain ⟨e, he, het, q, hq, hqp⟩ := h
      rcases List.mem_append.mp he with h' | h'
      · exact Or.inl ⟨e, by rw [hab]; exact List.mem_append_left _ h', het, q, hq, hqp⟩
      · rcases List.mem_cons.mp h' with rfl | h'
        · simp only at hq het
          rcases List.mem_append.mp hq with h'' | h''
          · exact Or.inl ⟨(topic x, old), by rw [hab]; simp, het, q, by rw [hcd]; exact List.mem_append_left _ h'', hqp⟩
          · rcases List.mem_cons.mp h'' with rfl | h''
            · exact Or.inr ⟨het.symm, hqp.symm⟩
            · exact Or.inl ⟨(topic x, old), by rw [hab]; simp, het, q,
                by rw [hcd]; exact List.mem_append_right _ (List.mem_cons_of_mem _ h''), hqp⟩
        · exact Or.inl ⟨e, by rw [hab]; exact List.mem_append_right _ (List.mem_cons_of_mem _ h'), het, q, hq, hqp⟩
    · rw [dictSet_append_of_not_mem old (partition x) x (fun e he hep => hp (List.mem_map.mpr ⟨e, he, hep⟩)),
        dictSet_split a b (topic x) _ _ ha hb] at h
      obtain ⟨e, he, het, q, hq, hqp⟩ := h
      rcases List.mem_append.mp he with h' | h'
      · exact Or.inl ⟨e, by rw [hab]; exact List.mem_append_left _ h', het, q, hq, hqp⟩
      · rcases List.mem_cons.mp h' with rfl | h'
        · simp only at hq het
          rcases List.mem_append.mp hq with h'' | h''
          · exact Or.inl ⟨(topic x, old), by rw [hab]; simp, het, q, h'', hqp⟩
          · simp only [List.mem_singleton] at h''
            subst h''
            exact Or.inr ⟨het.symm, hqp.symm⟩
        · exact Or.inl ⟨e, by rw [hab]; exact List.mem_append_right _ (List.mem_cons_of_mem _ h'), het, q, hq, hqp⟩
  · rw [dictGet_none out (topic x) ht, Option.getD_none] at h
    have hin : dictSet ([] : List (Int × α)) (partition x) x = [(partition x, x)] := by simp [dictSet]
    rw [hin, dictSet_append_of_not_mem out (topic x) _ (fun e he het => ht (List.mem_map.mpr ⟨e, he, het⟩))] at h
    obtain ⟨e, he, het, q, hq, hqp⟩ := h
    rcases List.mem_append.mp he with h' | h'
    · exact Or.inl ⟨e, h', het, q, hq, hqp⟩
    · simp only [List.mem_singleton] at h'
      subst h'
      simp only [List.mem_singleton] at hq
      subst hq
      exact Or.inr ⟨het.symm, hqp.symm⟩

/-- distinct new keys: every payload adds one -/
theorem gfold_exact (topic : α → Option Bytes) (partition : α → Int) :
    ∀ (xs : List α) (acc : Grouped α), GInv acc →
      (xs.map (fun x => (topic x, partition x))).Nodup → (∀ x ∈ xs, ¬ keyIn acc (topic x) (partition x)) →
      payloadCount (xs.foldl (gstep topic partition) acc) = payloadCount acc + xs.length := by
  intro xs
  induction xs with
  | nil => intro acc _ _ _; simp
  | cons x xs ih =>
    intro acc hI hnd hnew
    obtain ⟨hI', _, _, hcount⟩ := gstep_spec topic partition acc x hI
    rw [List.map_cons, List.nodup_cons] at hnd
    have hx := hnew x List.mem_cons_self
    rcases hcount with ⟨_, hc⟩ | ⟨hin, _⟩
    · simp only [List.foldl_cons, List.length_cons]
      rw [ih (gstep topic partition acc x) hI' hnd.2 ?_, hc]
      · omega
      · intro y hy hk
        rcases gstep_keyIn_rev topic partition acc x hI _ _ hk with h | ⟨h1, h2⟩
        · exact hnew y (List.mem_cons_of_mem _ hy) h
        · exact hnd.1 (List.mem_map.mpr ⟨y, hy, by rw [h1, h2]⟩)
    · exact absurd hin hx

/-- **The guard of `_group_payloads` refuses exactly the lists that name a (topic, partition) twice.** -/
theorem payloadCount_eq_iff (topic : α → Option Bytes) (partition : α → Int) (xs : List α) :
    payloadCount (groupByTopicPartition topic partition xs) = xs.length
      ↔ (xs.map (fun x => (topic x, partition x))).Nodup := by
  constructor
  · exact payloadCount_eq_iff_nodup topic partition xs
  · intro hnd
    have := gfold_exact topic partition xs [] ⟨by simp, by simp⟩ hnd
      (by intro x _ ⟨e, he, _⟩; simp at he)
    have h0 : payloadCount ([] : Grouped α) = 0 := rfl
    rw [h0, Nat.zero_add] at this
    exact this

end Afkak.Wire
