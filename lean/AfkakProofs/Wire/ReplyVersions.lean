import Afkak.Wire.Responses
/-!
# `decode_produce_response` / `decode_fetch_response`: what EVERY value of `api_version` selects

The round-trip theorems of C05 are stated for `api_version` 0 and 2.  The two decoders take any
integer; these lemmas say which of the two layouts (or which exception) each integer selects, so that
no value of the parameter is outside the theorems:

* produce: `0` → layout v0; every `v ≥ 1` → layout v2 (`elif api_version >= 1`), `v < 0` → `ValueError`
  raised by the call itself;
* fetch: `0` → layout v0; every `v ≥ 2` → layout v2; `v = 1` and `v < 0` bind neither branch of the
  `if … elif` and the first `range(num_topics)` raises `UnboundLocalError` — on every input.
-/
namespace Afkak.Wire
open Afkak Afkak.Bytes Afkak.Consts

theorem decodeProduceResponse_ge1 (data : Bytes) (v : Int) (h : 1 ≤ v) :
    decodeProduceResponse data v = decodeProduceResponse data 2 := by
  unfold decodeProduceResponse
  simp only [produceRespV0Is, produceRespV2From]
  have h1 : ¬ (v = 0) := by omega
  have h2 : v ≥ 1 := by omega
  have h3 : ¬ ((2 : Int) = 0) := by decide
  have h4 : (2 : Int) ≥ 1 := by decide
  simp only [h1, h2, h3, h4, if_false, if_true]

theorem decodeProduceResponse_neg (data : Bytes) (v : Int) (h : v < 0) :
    decodeProduceResponse data v = .error .valueError := by
  unfold decodeProduceResponse
  simp only [produceRespV0Is, produceRespV2From]
  have h1 : ¬ (v = 0) := by omega
  have h2 : ¬ (v ≥ 1) := by omega
  simp only [h1, h2, if_false]

theorem decodeFetchResponse_ge2 (ext : Ext) (depth : Nat) (data : Bytes) (v : Int) (h : 2 ≤ v) :
    decodeFetchResponse ext depth data v = decodeFetchResponse ext depth data 2 := by
  unfold decodeFetchResponse
  simp only [fetchRespV0Is, fetchRespV2From]
  have h1 : ¬ (v = 0) := by omega
  have h2 : v ≥ 2 := by omega
  have h3 : ¬ ((2 : Int) = 0) := by decide
  have h4 : (2 : Int) ≥ 2 := by decide
  simp only [h1, h2, h3, h4, if_false, if_true]

theorem decodeFetchResponse_unbound (ext : Ext) (depth : Nat) (data : Bytes) (v : Int) (h : v = 1 ∨ v < 0) :
    decodeFetchResponse ext depth data v = ([], .error .unboundLocal) := by
  unfold decodeFetchResponse
  simp only [fetchRespV0Is, fetchRespV2From]
  have h1 : ¬ (v = 0) := by omega
  have h2 : ¬ (v ≥ 2) := by omega
  simp only [h1, h2, if_false]

end Afkak.Wire
