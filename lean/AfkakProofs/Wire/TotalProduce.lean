import AfkakProofs.Wire.Total
import AfkakProofs.Wire.ProduceReq
/-!
# No spurious refusal, Produce: messages, message sets, the request
-/
namespace Afkak.Wire
open Afkak Afkak.Bytes Afkak.Codec Afkak.Consts Afkak.Monitor.C04

set_option synthInstance.maxSize 100000

theorem writeIntString_total {s : Option Bytes} (h : nullableBytes.valid s = true) : ∃ x, writeIntString s = .ok x := by
  cases s with
  | none =>
    simp only [writeIntString, fmt_write_int_string_0, writeIntNull]
    rw [pack_ok (by simp only [fieldsOk, fieldSpec, and_true]; exact (fits4 _).mpr (nullablePrefixed_valid_none h))]
    exact ⟨_, rfl⟩
  | some s =>
    simp only [writeIntString, fmt_write_int_string_1]
    rw [pack_ok (by simp only [fieldsOk, fieldSpec, and_true]; exact (fits4 _).mpr (nullablePrefixed_valid_some h))]
    exact ⟨_, rfl⟩

theorem crc_total (n : Nat) : ∃ x, pack ['>', 'I'] [((n &&& crcMask : Nat) : Int)] = .ok x := by
  rw [pack_ok (by
    simp only [fieldsOk, fieldSpec, and_true]
    rw [fieldInRange_unsigned, crcMask_mod]
    have : n % 256 ^ 4 < 256 ^ 4 := Nat.mod_lt _ (by decide)
    constructor <;> omega)]
  exact ⟨_, rfl⟩

theorem attrs_ok {a : Int} (h0 : ¬ a < 0) (h : uint8.valid a.toNat = true) : fieldInRange 1 false a = true := by
  have : a.toNat < 256 ^ 1 := of_decide_eq_true h
  rw [fieldInRange_unsigned]
  constructor <;> omega

/-- a message the grammar can carry is written -/
theorem message_total (ext : Ext) (m : Message) (sm : Spec.Msg)
    (hs : specMsg ext.nowMs m = some sm) (hv : (Spec.message ext.crc).valid sm = true) :
    ∃ bytes, encodeMessage ext m = .ok bytes := by
  rw [message_valid, msgBody_valid] at hv
  unfold specMsg at hs
  split at hs
  · cases hs
  · rename_i hneg
    unfold encodeMessage
    by_cases h0 : m.magic = 0
    · rw [if_pos h0] at hs ⊢
      cases hs
      simp only [Bool.true_and, Bool.and_eq_true, msgRest0_valid] at hv
      obtain ⟨k, hk⟩ := writeIntString_total hv.2.2.2.1
      obtain ⟨v, hvv⟩ := writeIntString_total hv.2.2.2.2
      simp only [fmt_encode_message_0, fmt_encode_message_1]
      rw [pack_ok (by
        simp only [fieldsOk, fieldSpec, and_true]
        exact ⟨by rw [h0]; decide, attrs_ok hneg hv.2.2.1⟩)]
      simp only [hk, hvv]
      obtain ⟨c, hc⟩ := crc_total (ext.crc (packedBody ['B', 'B'] [m.magic, m.attributes] ++ k ++ v))
      simp only [hc]
      exact ⟨_, rfl⟩
    · rw [if_neg h0] at hs ⊢
      by_cases h1 : m.magic = 1
      · rw [if_pos h1] at hs ⊢
        cases hs
        simp only [Bool.true_and, Bool.and_eq_true, msgRest1_valid] at hv
        obtain ⟨k, hk⟩ := writeIntString_total hv.2.2.2.2.1
        obtain ⟨v, hvv⟩ := writeIntString_total hv.2.2.2.2.2
        have hts := intN_valid hv.2.2.2.1
        simp only [fmt_encode_message_2, fmt_encode_message_3, fmt_encode_message_4]
        cases hmt : m.timestamp with
        | none =>
          simp only [hmt] at hts ⊢
          rw [pack_ok (by
            simp only [fieldsOk, fieldSpec, and_true]
            exact ⟨by rw [h1]; decide, attrs_ok hneg hv.2.2.1, (fits8 _).mpr hts⟩)]
          simp only [hk, hvv]
          obtain ⟨c, hc⟩ := crc_total (ext.crc (packedBody ['B', 'B', 'q'] [m.magic, m.attributes, ext.nowMs] ++ k ++ v))
          simp only [hc]
          exact ⟨_, rfl⟩
        | some ts =>
          simp only [hmt] at hts ⊢
          rw [pack_ok (by
            simp only [fieldsOk, fieldSpec, and_true]
            exact ⟨by rw [h1]; decide, attrs_ok hneg hv.2.2.1, (fits8 _).mpr hts⟩)]
          simp only [hk, hvv]
          obtain ⟨c, hc⟩ := crc_total (ext.crc (packedBody ['B', 'B', 'q'] [m.magic, m.attributes, ts] ++ k ++ v))
          simp only [hc]
          exact ⟨_, rfl⟩
      · rw [if_neg h1] at hs
        cases hs

/-- a message set the grammar can carry is written (the producer's sets: every offset 0) -/
theorem msgset_total (ext : Ext) (magic : Int) (hm : magic = 0 ∨ magic = 1) :
    ∀ (ms : List Message) (entries : List (Int × Spec.Msg)) (offset : Int), offset = 0 →
      specEntries ext.nowMs ms = some entries → (∀ e ∈ entries, (Spec.entry ext.crc).valid e = true) →
      ∃ body, encodeMessageSetLoop ext magic msgSetIncrNoOffset offset ms = .ok body := by
  intro ms
  induction ms with
  | nil => intro entries offset _ _ _; exact ⟨[], by simp only [encodeMessageSetLoop]⟩
  | cons m ms ih =>
    intro entries offset ho hs hv
    subst ho
    unfold specEntries at hs
    obtain ⟨b, bs, hb, hbs, rfl⟩ := mapM_cons_some _ m ms entries hs
    cases hsm : specMsg ext.nowMs m with
    | none => simp [hsm] at hb
    | some sm =>
      simp only [hsm, Option.map_some, Option.some.injEq] at hb
      subst hb
      have hev := entry_valid (hv _ List.mem_cons_self)
      obtain ⟨enc, henc⟩ := message_total ext m sm hsm hev.2.1
      have hz : (0 : Int) + msgSetIncrNoOffset = 0 := by decide
      obtain ⟨rest, hrest⟩ := ih bs ((0 : Int) + msgSetIncrNoOffset) hz hbs (fun e he => hv e (List.mem_cons_of_mem _ he))
      have hmm : ¬ (magic ≠ 0 ∧ magic ≠ 1) := by
        rcases hm with h0 | h1
        · intro hh; exact hh.1 h0
        · intro hh; exact hh.2 h1
      have hlen : IntFits 4 (enc.length : Int) := by
        rw [message_bytes ext m sm enc henc hsm]
        exact lenPrefixed_valid hev.2.2
      unfold encodeMessageSetLoop
      rw [if_neg hmm]
      simp only [henc, fmt_encode_message_set_0]
      rw [pack_ok (by
        simp only [fieldsOk, fieldSpec, and_true]
        exact ⟨by decide, (fits4 _).mpr hlen⟩)]
      simp only [hrest]
      exact ⟨_, rfl⟩

/-- the produce request -/
theorem produce_total {ext : Ext} {cid : Bytes} {corr acks timeout ver v : Int} {ps : List ProduceReq}
    {l : List (Bytes × (Int × List (Int × Spec.Msg)))}
    (hv : implementedVersion ver = some v)
    (hk : keyed ProduceReq.topic ProduceReq.partition (fun p => specEntries ext.nowMs p.messages) ps = some l)
    (hnd : (ps.map (fun p => (p.topic, p.partition))).Nodup)
    (hvalid : (Spec.request (Spec.produceRequest ext.crc)).valid (hdr 0 v corr cid, acks, timeout, regroup l) = true)
    (hascii : ∀ e ∈ regroup l, isAscii e.1 = true) :
    ∃ frame, encodeProduceRequest ext cid corr ps acks timeout ver = .ok frame := by
  have hcl := clamp_produce hv
  have hw := seq_valid (a := Spec.header) (b := Spec.produceRequest ext.crc) hvalid
  have b1 := seq_valid (a := int16) hw.2
  have b2 := seq_valid (a := int32) b1.2
  obtain ⟨hd, x1⟩ := encodeHeader_total (key := 0) hw.1
  obtain ⟨body, x3⟩ := topics_total ProduceReq.topic ProduceReq.partition (fun p => specEntries ext.nowMs p.messages)
    (int32 ⊗ sized32 (Spec.messageSet ext.crc)) (producePartEntry ext (produceClamp ver).2)
    (by
      intro q b hq hb
      unfold itemMap at hq
      cases hse : specEntries ext.nowMs q.2.messages with
      | none => simp [hse] at hq
      | some entries =>
        simp only [hse, Option.map_some, Option.some.injEq] at hq
        subst hq
        have c1 := seq_valid (a := int32) hb
        have c2 := sized32_valid c1.2
        obtain ⟨ms, hms⟩ := msgset_total ext _ hcl.2 q.2.messages entries 0 rfl hse (many_valid c2.1)
        have hmsb : ms = encAll (Spec.entry ext.crc) entries := msgset_bytes ext _ hcl.2 _ _ _ 0 rfl hms hse
        unfold producePartEntry encodeMessageSet
        simp only [hms, fmt_encode_produce_request_2]
        rw [pack_ok (by
          simp only [fieldsOk, fieldSpec, and_true]
          refine ⟨(fits4 _).mpr (intN_valid c1.1), (fits4 _).mpr ?_⟩
          rw [hmsb]
          exact c2.2)]
        exact ⟨_, rfl⟩)
    ps l hk hnd b2.2 hascii
  have hlen := (group_mapM_regroup ProduceReq.topic ProduceReq.partition _ ps l hk hnd).2
  have hn := (array_valid (c := Codec.string ⊗ array (int32 ⊗ sized32 (Spec.messageSet ext.crc))) b2.2).1
  unfold encodeProduceRequest
  simp only
  rw [if_neg (by rw [(payloadCount_eq_iff ProduceReq.topic ProduceReq.partition ps).mpr hnd]; simp)]
  simp only [hdrKey_encode_produce_request, fmt_encode_produce_request_0, fmt_encode_produce_request_1] at x1 ⊢
  rw [hcl.1, x1]
  simp only
  rw [pack_ok (by
    simp only [fieldsOk, fieldSpec, and_true]
    exact ⟨(fits2 _).mpr (intN_valid b1.1), (fits4 _).mpr (intN_valid b2.1), (fits4 _).mpr (by rw [hlen]; exact hn)⟩)]
  simp only [x3]
  exact ⟨_, rfl⟩

end Afkak.Wire
