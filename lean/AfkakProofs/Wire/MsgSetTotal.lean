import AfkakProofs.Wire.TotalProduce
import AfkakProofs.Wire.MsgSetConf
/-!
# No spurious refusal: `_encode_message_set(messages, offset, magic)` for every `offset` argument

`msgset_total` (TotalProduce.lean) is the `offset=None` call.  Here: whenever the grammar can carry the
entries the monitor expects (`entriesAt … = some entries`, every entry valid) and `magic` is 0 or 1,
the encoder writes a set, and the monitor's verdict on it is `ok`.
-/
namespace Afkak.Wire
open Afkak Afkak.Bytes Afkak.Codec Afkak.Consts Afkak.Monitor.C04

set_option synthInstance.maxSize 100000

theorem msgset_total_from (ext : Ext) (magic : Int) (hm : magic = 0 ∨ magic = 1) (incr : Int) :
    ∀ (ms : List Message) (entries : List (Int × Spec.Msg)) (offset : Int),
      entriesFrom ext.nowMs incr offset ms = some entries → (∀ e ∈ entries, (Spec.entry ext.crc).valid e = true) →
      ∃ body, encodeMessageSetLoop ext magic incr offset ms = .ok body := by
  intro ms
  induction ms with
  | nil => intro entries offset _ _; exact ⟨[], by simp only [encodeMessageSetLoop]⟩
  | cons m ms ih =>
    intro entries offset hs hv
    rw [entriesFrom_cons] at hs
    cases hsm : specMsg ext.nowMs m with
    | none => simp [hsm] at hs
    | some sm =>
      cases hr : entriesFrom ext.nowMs incr (offset + incr) ms with
      | none => simp [hsm, hr] at hs
      | some r =>
        simp only [hsm, hr, Option.some.injEq] at hs
        subst hs
        have hev := entry_valid (hv _ List.mem_cons_self)
        obtain ⟨enc, henc⟩ := message_total ext m sm hsm hev.2.1
        obtain ⟨rest, hrest⟩ := ih r (offset + incr) hr (fun e he => hv e (List.mem_cons_of_mem _ he))
        have hmm : ¬ (magic ≠ 0 ∧ magic ≠ 1) := by
          rcases hm with h0 | h1
          · intro hh; exact hh.1 h0
          · intro hh; exact hh.2 h1
        have hlen : IntFits 4 (enc.length : Int) := by
          rw [message_bytes ext m sm enc henc hsm]
          exact lenPrefixed_valid hev.2.2
        unfold encodeMessageSetLoop
        rw [if_neg hmm]
        simp only [henc, fmt_encode_message_set_0]
        rw [pack_ok (by
          simp only [fieldsOk, fieldSpec, and_true]
          exact ⟨(fits8 _).mpr hev.1, (fits4 _).mpr hlen⟩)]
        simp only [hrest]
        exact ⟨_, rfl⟩

/-- the encoder writes every set the grammar can carry, and the monitor says `ok` -/
theorem messageSet_total (ext : Ext) (ms : List Message) (offset : Option Int) (magic : Int)
    (hm : magic = 0 ∨ magic = 1) (entries : List (Int × Spec.Msg))
    (he : entriesAt ext.nowMs offset ms = some entries) (hv : (Spec.messageSet ext.crc).valid entries = true) :
    ∃ data, encodeMessageSet ext ms offset magic = .ok data
      ∧ Monitor.C04.messageSet ext.crc ext.nowMs ms offset data = .ok := by
  have hvalid := many_valid hv
  have hex : ∃ data, encodeMessageSet ext ms offset magic = .ok data := by
    unfold encodeMessageSet
    unfold entriesAt at he
    cases offset with
    | none =>
      simp only at he ⊢
      rw [entriesAt_none_from ext.nowMs ms 0] at he
      exact msgset_total_from ext magic hm _ ms entries 0 he hvalid
    | some o =>
      simp only at he ⊢
      have := entriesAt_some_from ext.nowMs o ms 0
      simp only [Int.natCast_zero, Int.add_zero] at this
      rw [this] at he
      exact msgset_total_from ext magic hm _ ms entries o he hvalid
  obtain ⟨data, hd⟩ := hex
  refine ⟨data, hd, ?_⟩
  unfold Monitor.C04.messageSet
  rw [he]
  exact conforms_ok_of_enc _ entries data hv (encodeMessageSet_bytes ext ms offset magic hm entries data hd he)

end Afkak.Wire
