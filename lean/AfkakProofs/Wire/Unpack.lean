import AfkakProofs.Wire.Pack
import Afkak.Wire.Responses
/-!
# Reading back what the grammar wrote: cursor-style primitives on `pre ++ field ++ rest`

The decoders of `Afkak/Wire/Responses.lean` read with an `Int` cursor into one byte string.  The
lemmas here say what each primitive returns when the cursor stands right after `pre` in
`pre ++ (encoding of a value) ++ rest`: the value, and the cursor right after the encoding.
-/
namespace Afkak.Wire
open Afkak Afkak.Bytes Afkak.Codec Afkak.Consts

/-! ## Python slicing at a non-negative cursor -/

theorem pySlice_mid (pre mid rest : Bytes) :
    pySlice (pre ++ mid ++ rest) (pre.length : Int) ((pre.length : Int) + (mid.length : Int)) = mid := by
  unfold pySlice
  simp only [List.length_append]
  have h1 : ¬ ((pre.length : Int) < 0) := by omega
  have h2 : ¬ ((pre.length : Int) > ((pre.length + mid.length + rest.length : Nat) : Int)) := by omega
  have h3 : ¬ ((pre.length : Int) + (mid.length : Int) < 0) := by omega
  have h4 : ¬ ((pre.length : Int) + (mid.length : Int) > ((pre.length + mid.length + rest.length : Nat) : Int)) := by omega
  simp only [h1, h2, h3, h4, if_false]
  by_cases hm : mid = []
  · subst hm; simp
  · have hpos : 0 < mid.length := List.length_pos_iff.mpr hm
    have hlt : (pre.length : Int) < (pre.length : Int) + (mid.length : Int) := by omega
    rw [if_pos hlt]
    have e1 : ((pre.length : Int)).toNat = pre.length := by simp
    have e2 : ((pre.length : Int) + (mid.length : Int) - (pre.length : Int)).toNat = mid.length := by
      have : (pre.length : Int) + (mid.length : Int) - (pre.length : Int) = (mid.length : Int) := by omega
      rw [this]; simp
    rw [e1, e2, List.append_assoc, List.drop_left' rfl, List.take_left' rfl]

/-! ## fields -/

theorem fieldSpec_width {c : Char} {w : Nat} {s : Bool} (h : fieldSpec c = some (w, s)) :
    w = 1 ∨ w = 2 ∨ w = 4 ∨ w = 8 := by
  unfold fieldSpec at h
  split at h <;> simp at h <;> omega

theorem two_pow_pred (w : Nat) (hw : w = 1 ∨ w = 2 ∨ w = 4 ∨ w = 8) : 2 * 2 ^ (8 * w - 1) = 256 ^ w := by
  rcases hw with h | h | h | h <;> subst h <;> rfl

theorem two_pow_eq (w : Nat) (hw : w = 1 ∨ w = 2 ∨ w = 4 ∨ w = 8) : 2 ^ (8 * w) = 256 ^ w := by
  rcases hw with h | h | h | h <;> subst h <;> rfl

/-- a field read back from its own encoding is the value that was packed -/
theorem fieldValue_ofIntBE {c : Char} {w : Nat} {s : Bool} (hc : fieldSpec c = some (w, s)) (v : Int)
    (hr : fieldInRange w s v = true) : fieldValue s (ofIntBE w v) = v := by
  have hw := fieldSpec_width hc
  cases s with
  | true =>
    have := (fieldInRange_signed w v).mp hr
    have h2 := two_pow_pred w hw
    simp only [fieldValue, if_true]
    apply toIntBE_ofIntBE
    unfold IntFits
    constructor <;> omega
  | false =>
    have := (fieldInRange_unsigned w v).mp hr
    have h2 := two_pow_eq w hw
    simp only [fieldValue, Bool.false_eq_true, if_false, ofIntBE, toNatBE_ofNatBE]
    have hpos : (0 : Int) < (256 ^ w : Nat) := by
      have : 0 < 256 ^ w := Nat.pow_pos (by decide)
      omega
    have he : v % ((256 ^ w : Nat) : Int) = v := Int.emod_eq_of_lt this.1 (by omega)
    rw [he]
    have hlt : v.toNat < 256 ^ w := by omega
    rw [Nat.mod_eq_of_lt hlt]
    omega

theorem unpackBody_packed (cs : List Char) (vs : List Int) (rest : Bytes) (h : fieldsOk cs vs) :
    unpackBody cs (packedBody cs vs ++ rest) = some (vs, rest) := by
  induction cs generalizing vs with
  | nil =>
    cases vs with
    | nil => simp [unpackBody, packedBody]
    | cons v vs => simp [fieldsOk] at h
  | cons c cs ih =>
    cases vs with
    | nil => simp [fieldsOk] at h
    | cons v vs =>
      simp only [fieldsOk] at h
      cases hc : fieldSpec c with
      | none => simp [hc] at h
      | some ws =>
        obtain ⟨w, s⟩ := ws
        simp only [hc] at h
        have hl : (ofIntBE w v).length = w := ofIntBE_length w v
        have hnl : ¬ (ofIntBE w v ++ (packedBody cs vs ++ rest)).length < w := by simp [hl]
        simp only [unpackBody, hc, packedBody, widthOf, List.append_assoc, hnl, if_false,
          List.drop_left' hl, List.take_left' hl, ih vs h.2, fieldValue_ofIntBE hc v h.1]

theorem bodySize_packed (cs : List Char) (vs : List Int) (h : fieldsOk cs vs) :
    bodySize cs = some (packedBody cs vs).length := by
  induction cs generalizing vs with
  | nil =>
    cases vs with
    | nil => simp [bodySize, packedBody]
    | cons v vs => simp [fieldsOk] at h
  | cons c cs ih =>
    cases vs with
    | nil => simp [fieldsOk] at h
    | cons v vs =>
      simp only [fieldsOk] at h
      cases hc : fieldSpec c with
      | none => simp [hc] at h
      | some ws =>
        obtain ⟨w, s⟩ := ws
        simp only [hc] at h
        simp only [bodySize, hc, ih vs h.2, packedBody, widthOf, List.length_append, ofIntBE_length]

theorem unpack_of_body (cs : List Char) (bs : Bytes) (vs : List Int) (h : unpackBody cs bs = some (vs, [])) :
    unpack ('>' :: cs) bs = some vs := by
  simp only [unpack, h]

/-- `relative_unpack(fmt, data, cur)` at the start of a packed group -/
theorem relativeUnpack_packed (cs : List Char) (vs : List Int) (pre rest : Bytes) (h : fieldsOk cs vs) :
    relativeUnpack ('>' :: cs) (pre ++ packedBody cs vs ++ rest) pre.length =
      .ok (vs, (pre.length : Int) + ((packedBody cs vs).length : Int)) := by
  have hsz := bodySize_packed cs vs h
  simp only [relativeUnpack, calcsize, hsz]
  have hnl : ¬ (((pre ++ packedBody cs vs ++ rest).length : Nat) : Int) < (pre.length : Int) + ((packedBody cs vs).length : Int) := by
    simp only [List.length_append]; omega
  rw [if_neg hnl, pySlice_mid]
  have := unpackBody_packed cs vs [] h
  simp only [List.append_nil] at this
  rw [unpack_of_body _ _ _ this]

/-! ## strings and byte fields -/

theorem unpack_h (v : Int) (h : IntFits 2 v) : unpack ['>', 'h'] (ofIntBE 2 v) = some [v] := by
  have hok : fieldsOk ['h'] [v] := by
    simp only [fieldsOk, fieldSpec, and_true]; exact (fits2 v).mpr h
  have := unpackBody_packed ['h'] [v] [] hok
  have e : packedBody ['h'] [v] ++ [] = ofIntBE 2 v := by
    simp only [packedBody, widthOf, fieldSpec, List.append_nil]
  rw [e] at this
  exact unpack_of_body _ _ _ this

theorem unpack_i (v : Int) (h : IntFits 4 v) : unpack ['>', 'i'] (ofIntBE 4 v) = some [v] := by
  have hok : fieldsOk ['i'] [v] := by
    simp only [fieldsOk, fieldSpec, and_true]; exact (fits4 v).mpr h
  have := unpackBody_packed ['i'] [v] [] hok
  have e : packedBody ['i'] [v] ++ [] = ofIntBE 4 v := by
    simp only [packedBody, widthOf, fieldSpec, List.append_nil]
  rw [e] at this
  exact unpack_of_body _ _ _ this

/-- the shared reader on a non-null field: `w`-byte length, then the bytes -/
theorem readLenPrefixed_some (fmt : List Char) (w : Nat) (null negBelow : Int) (hnull : null = -1) (hneg : negBelow = 0)
    (hun : ∀ v, IntFits w v → unpack fmt (ofIntBE w v) = some [v]) (b pre rest : Bytes) (hfit : IntFits w (b.length : Int)) :
    readLenPrefixed fmt (w : Int) null negBelow (pre ++ (ofIntBE w (b.length : Int) ++ b) ++ rest) pre.length =
      .ok (some b, (pre.length : Int) + ((ofIntBE w (b.length : Int) ++ b).length : Int)) := by
  have hlw : (ofIntBE w (b.length : Int)).length = w := ofIntBE_length w _
  subst hnull; subst hneg
  unfold readLenPrefixed
  have hnl : ¬ (((pre ++ (ofIntBE w (b.length : Int) ++ b) ++ rest).length : Nat) : Int) < (pre.length : Int) + (w : Int) := by
    simp only [List.length_append, hlw]; omega
  rw [if_neg hnl]
  have hs := pySlice_mid pre (ofIntBE w (b.length : Int)) (b ++ rest)
  rw [hlw] at hs
  have hre : pre ++ (ofIntBE w (b.length : Int) ++ b) ++ rest = pre ++ ofIntBE w (b.length : Int) ++ (b ++ rest) := by
    simp only [List.append_assoc]
  rw [hre, hs, hun _ hfit]
  simp only
  have hne : ¬ ((b.length : Int) = -1) := by omega
  have hn0 : ¬ ((b.length : Int) < 0) := by omega
  rw [if_neg hne, if_neg hn0]
  have hnl2 : ¬ (((pre ++ ofIntBE w (b.length : Int) ++ (b ++ rest)).length : Nat) : Int) < (pre.length : Int) + (w : Int) + (b.length : Int) := by
    simp only [List.length_append, hlw]; omega
  rw [if_neg hnl2]
  have hs2 := pySlice_mid (pre ++ ofIntBE w (b.length : Int)) b rest
  simp only [List.length_append, hlw] at hs2
  have hcast : (((pre.length + w : Nat)) : Int) = (pre.length : Int) + (w : Int) := by omega
  rw [hcast] at hs2
  have hre2 : pre ++ ofIntBE w (b.length : Int) ++ (b ++ rest) = pre ++ ofIntBE w (b.length : Int) ++ b ++ rest := by
    simp only [List.append_assoc]
  rw [hre2, hs2]
  simp only [List.length_append, hlw]
  congr 2
  omega

/-- the shared reader on a null field (length `-1`) -/
theorem readLenPrefixed_none (fmt : List Char) (w : Nat) (null negBelow : Int) (hnull : null = -1)
    (hun : ∀ v, IntFits w v → unpack fmt (ofIntBE w v) = some [v]) (pre rest : Bytes) (hfit : IntFits w (-1)) :
    readLenPrefixed fmt (w : Int) null negBelow (pre ++ ofIntBE w (-1) ++ rest) pre.length =
      .ok (none, (pre.length : Int) + ((ofIntBE w (-1)).length : Int)) := by
  have hlw : (ofIntBE w (-1)).length = w := ofIntBE_length w _
  subst hnull
  unfold readLenPrefixed
  have hnl : ¬ (((pre ++ ofIntBE w (-1) ++ rest).length : Nat) : Int) < (pre.length : Int) + (w : Int) := by
    simp only [List.length_append, hlw]; omega
  rw [if_neg hnl]
  have hs := pySlice_mid pre (ofIntBE w (-1)) rest
  rw [hlw] at hs
  rw [hs, hun _ hfit]
  simp only [if_true, hlw]

/-- `read_short_bytes` on a (non-null) STRING of the grammar -/
theorem readShortBytes_string (b pre rest : Bytes) (hv : Codec.string.valid b = true) :
    readShortBytes (pre ++ Codec.string.enc b ++ rest) pre.length =
      .ok (some b, (pre.length : Int) + ((Codec.string.enc b).length : Int)) :=
  readLenPrefixed_some fmt_read_short_bytes_0 2 readShortNull readShortNegBelow rfl rfl unpack_h b pre rest (lenPrefixed_valid hv)

/-- `read_short_bytes` on a NULLABLE_STRING of the grammar -/
theorem readShortBytes_nullable (b : Option Bytes) (pre rest : Bytes) (hv : Codec.nullableString.valid b = true) :
    readShortBytes (pre ++ Codec.nullableString.enc b ++ rest) pre.length =
      .ok (b, (pre.length : Int) + ((Codec.nullableString.enc b).length : Int)) := by
  cases b with
  | none => exact readLenPrefixed_none fmt_read_short_bytes_0 2 readShortNull readShortNegBelow rfl unpack_h pre rest (nullablePrefixed_valid_none hv)
  | some b => exact readLenPrefixed_some fmt_read_short_bytes_0 2 readShortNull readShortNegBelow rfl rfl unpack_h b pre rest (nullablePrefixed_valid_some hv)

/-- `read_int_string` on BYTES of the grammar -/
theorem readIntString_bytes (b pre rest : Bytes) (hv : Codec.bytes.valid b = true) :
    readIntString (pre ++ Codec.bytes.enc b ++ rest) pre.length =
      .ok (some b, (pre.length : Int) + ((Codec.bytes.enc b).length : Int)) :=
  readLenPrefixed_some fmt_read_int_string_0 4 readIntNull readIntNegBelow rfl rfl unpack_i b pre rest (lenPrefixed_valid hv)

/-- `read_int_string` on NULLABLE_BYTES of the grammar -/
theorem readIntString_nullable (b : Option Bytes) (pre rest : Bytes) (hv : Codec.nullableBytes.valid b = true) :
    readIntString (pre ++ Codec.nullableBytes.enc b ++ rest) pre.length =
      .ok (b, (pre.length : Int) + ((Codec.nullableBytes.enc b).length : Int)) := by
  cases b with
  | none => exact readLenPrefixed_none fmt_read_int_string_0 4 readIntNull readIntNegBelow rfl unpack_i pre rest (nullablePrefixed_valid_none hv)
  | some b => exact readLenPrefixed_some fmt_read_int_string_0 4 readIntNull readIntNegBelow rfl rfl unpack_i b pre rest (nullablePrefixed_valid_some hv)

/-- `read_short_ascii` on an ASCII STRING -/
theorem readShortAscii_string (b pre rest : Bytes) (hv : Codec.string.valid b = true) (ha : isAscii b = true) :
    readShortAscii (pre ++ Codec.string.enc b ++ rest) pre.length =
      .ok (b, (pre.length : Int) + ((Codec.string.enc b).length : Int)) := by
  simp only [readShortAscii, readShortBytes_string b pre rest hv, decodeAscii, ha, if_true]

/-- `read_short_text` on a UTF-8 STRING -/
theorem readShortText_string (b pre rest : Bytes) (hv : Codec.string.valid b = true) (ha : validUtf8 b = true) :
    readShortText (pre ++ Codec.string.enc b ++ rest) pre.length =
      .ok (b, (pre.length : Int) + ((Codec.string.enc b).length : Int)) := by
  simp only [readShortText, readShortBytes_string b pre rest hv, decodeText, ha, if_true]

end Afkak.Wire
