import AfkakProofs.Wire.RespProofs4
/-!
# `decode_metadata_response` refuses a response that lists more than `MAX_BROKERS` brokers

The round-trip theorem for Metadata (`metadata_roundtrip`) is about responses with at most 1024
brokers (`Monitor.C05.brokerLimit`).  This is the other side: a response the grammar can carry that
lists more brokers than `MAX_BROKERS` is refused with `InvalidMessageError`, whatever else it holds —
the one place where a well-formed response is not decoded, by design of the code.
-/
namespace Afkak.Wire
open Afkak Afkak.Bytes Afkak.Codec Afkak.Consts Afkak.Monitor.C05

set_option synthInstance.maxSize 100000

theorem metadata_too_many_brokers (v : Spec.MetadataResp) (hv : Spec.metadataResponse.valid v = true)
    (hn : (v.2.1.length : Int) > maxBrokers) :
    decodeMetadataResponse (Spec.metadataResponse.enc v) = .error .invalidMessage := by
  obtain ⟨corr, brokers, topics⟩ := v
  have h1 := seq_valid' hv
  have h2 := seq_valid' h1.2
  have hab := array_valid h2.1
  have henc : Spec.metadataResponse.enc (corr, brokers, topics) =
      (ofIntBE 4 corr ++ ofIntBE 4 (brokers.length : Int)) ++ (encAll brokerCodec brokers ++
        (ofIntBE 4 (topics.length : Int) ++ encAll topicCodec topics)) := by
    show ofIntBE 4 corr ++ ((ofIntBE 4 (brokers.length : Int) ++ encAll brokerCodec brokers) ++
          (ofIntBE 4 (topics.length : Int) ++ encAll topicCodec topics)) = _
    simp only [List.append_assoc]
  have r := ru2_ii_at0 (data := Spec.metadataResponse.enc (corr, brokers, topics)) henc (v32 h1.1) hab.1
  unfold decodeMetadataResponse
  simp only [fmt_decode_metadata_response_0]
  rw [r]
  simp only
  rw [if_pos hn]

end Afkak.Wire
