import AfkakProofs.Wire.Requests
/-!
# The consumer-protocol payloads of JoinGroup / SyncGroup: subscription and assignment, byte for byte
-/
namespace Afkak.Wire
open Afkak Afkak.Bytes Afkak.Codec Afkak.Consts Afkak.Monitor.C04

set_option synthInstance.maxSize 100000

theorem subscription_bytes {ver : Int} {subs : List (Option Bytes)} {ud : Option Bytes} {ts : List Bytes} {data : Bytes}
    (h : encodeJoinGroupProtocolMetadata ver subs ud = .ok data) (ht : subs.mapM id = some ts) :
    data = (whole Spec.subscription).enc (ver, ts, ud) := by
  unfold encodeJoinGroupProtocolMetadata at h
  split at h
  · cases h
  · rename_i hb hhb
    split at h
    · cases h
    · rename_i sb hsb
      split at h
      · cases h
      · rename_i ub hub
        cases h
        simp only [fmt_encode_join_group_protocol_metadata_0] at hhb
        rw [pack_bytes hhb, writeIntString_opt hub,
          concatMapM_encAll writeShortText id Codec.string
            (by intro a b y hab hy; simp at hab; subst hab; exact writeShortText_some hy) subs ts sb ht hsb]
        simp [packedBody, widthOf, fieldSpec, whole, Spec.subscription, seq_enc, array_enc, mapM_length _ _ _ ht,
          int16, int32, intN, List.append_assoc]

/-- `struct.pack(">i%si" % n, n, *vals)`: the count, then the values -/
theorem packBody_replicate (vals : List Int) (x : Bytes)
    (h : packBody (List.replicate vals.length 'i') vals = .ok x) : x = encAll int32 vals := by
  induction vals generalizing x with
  | nil => simp only [List.length_nil, List.replicate_zero, packBody] at h; cases h; rfl
  | cons v vs ih =>
    simp only [List.length_cons, List.replicate_succ, packBody] at h
    split at h
    · cases h
    · rename_i a ha
      split at h
      · cases h
      · rename_i b hb
        cases h
        rw [ih b hb]
        unfold packField at ha
        simp only [fieldSpec] at ha
        split at ha
        · cases ha; rfl
        · cases ha

theorem packCounted_bytes {vals : List Int} {x : Bytes}
    (h : packCounted ['>', 'i', '%', 's', 'i'] vals = .ok x) : x = (array int32).enc vals := by
  unfold packCounted at h
  simp only [ne_eq, Char.reduceEq, not_true_eq_false, and_false, if_false, packBody] at h
  split at h
  · cases h
  · rename_i a ha
    split at h
    · cases h
    · rename_i b hb
      cases h
      rw [packBody_replicate vals b hb]
      unfold packField at ha
      simp only [fieldSpec] at ha
      split at ha
      · cases ha; rfl
      · cases ha

theorem assignment_bytes {ver : Int} {asg : List (Option Bytes × List Int)} {ud : Option Bytes}
    {a : List (Bytes × List Int)} {data : Bytes}
    (h : encodeSyncGroupMemberAssignment ver asg ud = .ok data)
    (ha : asg.mapM (fun (p : Option Bytes × List Int) => p.1.map (fun t => (t, p.2))) = some a) :
    data = (whole Spec.assignment).enc (ver, a, ud) := by
  unfold encodeSyncGroupMemberAssignment at h
  split at h
  · cases h
  · rename_i vb hvb
    split at h
    · cases h
    · rename_i nb hnb
      split at h
      · cases h
      · rename_i ab hab
        split at h
        · cases h
        · rename_i ub hub
          cases h
          simp only [fmt_encode_sync_group_member_assignment_0] at hvb
          simp only [fmt_encode_sync_group_member_assignment_1] at hnb
          have hitems := concatMapM_encAll _ (fun (p : Option Bytes × List Int) => p.1.map (fun t => (t, p.2)))
            (Codec.string ⊗ array int32)
            (by
              intro p b y hpb hy
              obtain ⟨t, ps⟩ := p
              cases t with
              | none => simp at hpb
              | some t =>
                simp only [Option.map_some, Option.some.injEq] at hpb
                subst hpb
                simp only at hy
                split at hy
                · cases hy
                · rename_i tb htb
                  split at hy
                  · cases hy
                  · rename_i pb hpb'
                    cases hy
                    simp only [fmt_encode_sync_group_member_assignment_2] at hpb'
                    rw [writeShortAscii_some htb, packCounted_bytes hpb']
                    rfl)
            asg a ab ha hab
          rw [pack_bytes hvb, pack_i hnb, hitems, writeIntString_opt hub]
          simp [packedBody, widthOf, fieldSpec, whole, Spec.assignment, seq_enc, array_enc, mapM_length _ _ _ ha,
            int16, intN, List.append_assoc]

end Afkak.Wire
