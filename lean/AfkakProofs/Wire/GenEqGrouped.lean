import AfkakProofs.Wire.GenEqCodec
/-!
# Generated broker-aware request encoders equal the hand-written models

`_group_payloads`, `encode_fetch_request`, `encode_offset_request`, `encode_offset_commit_request`,
`encode_offset_fetch_request` (generic in the payload type: the generated terms take one accessor
function per attribute they read; here they are instantiated with the projections of the model's
payload structures) and `encode_metadata_request`.  `topic_loop` turns the two nested generated
accumulator loops (`for topic, topic_payloads in grouped.items(): .. for partition, payload in
topic_payloads.items(): ..`) into the model's `concatMapM (topicEntry fmtN partEntry)`.
-/
namespace Afkak.Wire
open Afkak Afkak.Bytes Afkak.Consts

theorem sum_len_cast {β : Type} (f : β → Nat) (l : List β) :
    List.sum (List.map (fun x => ((f x : Nat) : Int)) l) = (((List.map f l).sum : Nat) : Int) := by
  induction l with
  | nil => rfl
  | cons a as ih => simp only [List.map_cons, List.sum_cons, ih, Int.natCast_add]

theorem gen_groupPayloads {α : Type} (topic : α → Option Bytes) (partition : α → Int) (xs : List α) :
    genGroupPayloads topic partition xs =
      (if payloadCount (groupByTopicPartition topic partition xs) ≠ xs.length then .error .valueError
       else .ok (groupByTopicPartition topic partition xs)) := by
  simp only [genGroupPayloads, gen_groupBy, ok_bind, payloadCount]
  have h := sum_len_cast (fun (tp : Option Bytes × List (Int × α)) => tp.2.length) (groupByTopicPartition topic partition xs)
  simp only [List.map_map]
  have e : (fun by_partition : List (Int × α) => (by_partition.length : Int)) ∘ Prod.snd
      = fun (tp : Option Bytes × List (Int × α)) => ((tp.2.length : Nat) : Int) := rfl
  rw [e, h]
  by_cases hc : (List.map (fun (tp : Option Bytes × List (Int × α)) => tp.2.length) (groupByTopicPartition topic partition xs)).sum = xs.length
  · have : ¬ ((((List.map (fun (tp : Option Bytes × List (Int × α)) => tp.2.length) (groupByTopicPartition topic partition xs)).sum : Nat) : Int) ≠ (xs.length : Int)) := by
      rw [hc]; simp
    simp only [this, hc, if_false, ne_eq, not_true_eq_false]
    rfl
  · have : ((((List.map (fun (tp : Option Bytes × List (Int × α)) => tp.2.length) (groupByTopicPartition topic partition xs)).sum : Nat) : Int) ≠ (xs.length : Int)) := by
      intro h'; exact hc (by exact_mod_cast h')
    simp only [this, hc, if_true, ne_eq, not_false_eq_true]

/-- the inner `for partition, payload in topic_payloads.items()` loop followed by the outer
    `for topic, topic_payloads in grouped.items()` loop is `concatMapM (topicEntry fmtN partEntry)` -/
theorem topic_loop {α : Type} (fmtN : List Char) (partEntry : Int × α → R Bytes)
    (inner : Bytes → List (Int × α) → R Bytes)
    (hin : ∀ msg tps, inner msg tps = (match concatMapM partEntry tps with | .error e => .error e | .ok y => .ok (msg ++ y)))
    (body : Bytes → Option Bytes × List (Int × α) → R Bytes)
    (hb : ∀ msg tp, body msg tp = (do
      let t ← writeShortAscii tp.1
      let n ← pack fmtN [(tp.2.length : Int)]
      inner (msg ++ t ++ n) tp.2))
    (grouped : List (Option Bytes × List (Int × α))) (msg0 : Bytes) :
    List.foldlM body msg0 grouped =
      (match concatMapM (topicEntry fmtN partEntry) grouped with | .error e => .error e | .ok y => .ok (msg0 ++ y)) := by
  apply foldlM_concat
  intro msg tp
  rw [hb]
  simp only [topicEntry]
  xc writeShortAscii tp.1
  xc pack fmtN [(tp.2.length : Int)]
  simp only [ok_bind, hin]
  xc concatMapM partEntry tp.2
  simp [List.append_assoc]

macro "xg " t:term : tactic => `(tactic| (generalize $t = r; cases r <;> try rfl))

theorem gen_encodeFetch (cid : Bytes) (corr : Int) (payloads : List FetchReq) (mw mb ver : Int) :
    genEncodeFetchRequest FetchReq.topic FetchReq.partition FetchReq.offset FetchReq.maxBytes cid corr payloads mw mb ver
      = encodeFetchRequest cid corr payloads mw mb ver := by
  have hclamp : (if ver ≥ 2 then 2 else ver) = fetchClamp ver := rfl
  simp only [genEncodeFetchRequest, encodeFetchRequest, gen_groupPayloads, gen_encodeHeader, hclamp,
    hdrKey_encode_fetch_request, fmt_encode_fetch_request_0, argc_encode_fetch_request_0_0]
  split
  · rfl
  · simp only [ok_bind]
    xg encodeHeader cid corr _ _
    xg pack ['>', 'i', 'i', 'i', 'i'] _
    simp only [ok_bind]
    rw [topic_loop fmt_encode_fetch_request_1 fetchPartEntry
      (fun message tps => List.foldlM (fun message (x : Int × FetchReq) => do
        let t5 ← pack ['>', 'i', 'q', 'i'] [x.1, x.2.offset, x.2.maxBytes]
        pure (message ++ t5)) message tps)]
    · xg concatMapM _ _
    · intro msg tps
      apply foldlM_concat
      intro m a
      simp only [fetchPartEntry, fmt_encode_fetch_request_2]
      xg pack ['>', 'i', 'q', 'i'] _
    · intro msg tp
      obtain ⟨t, tps⟩ := tp
      simp only [gen_writeShortAscii, fmt_encode_fetch_request_1]

theorem gen_encodeOffset (cid : Bytes) (corr : Int) (payloads : List OffsetReq) :
    genEncodeOffsetRequest OffsetReq.topic OffsetReq.partition OffsetReq.time OffsetReq.maxOffsets cid corr payloads
      = encodeOffsetRequest cid corr payloads := by
  simp only [genEncodeOffsetRequest, encodeOffsetRequest, gen_groupPayloads, gen_encodeHeader,
    hdrKey_encode_offset_request, hdrVer_encode_offset_request, fmt_encode_offset_request_0, argc_encode_offset_request_0_0]
  split
  · rfl
  · simp only [ok_bind]
    xg encodeHeader cid corr _ _
    xg pack ['>', 'i', 'i'] _
    simp only [ok_bind]
    rw [topic_loop fmt_encode_offset_request_1 offsetPartEntry
      (fun message tps => List.foldlM (fun message (x : Int × OffsetReq) => do
        let t5 ← pack ['>', 'i', 'q', 'i'] [x.1, x.2.time, x.2.maxOffsets]
        pure (message ++ t5)) message tps)]
    · xg concatMapM _ _
    · intro msg tps
      apply foldlM_concat
      intro m a
      simp only [offsetPartEntry, fmt_encode_offset_request_2]
      xg pack ['>', 'i', 'q', 'i'] _
    · intro msg tp
      obtain ⟨t, tps⟩ := tp
      simp only [gen_writeShortAscii, fmt_encode_offset_request_1]

theorem gen_encodeOffsetFetch (cid : Bytes) (corr : Int) (group : Option Bytes) (payloads : List OffsetFetchReq) :
    genEncodeOffsetFetchRequest OffsetFetchReq.topic OffsetFetchReq.partition cid corr group payloads
      = encodeOffsetFetchRequest cid corr group payloads := by
  simp only [genEncodeOffsetFetchRequest, encodeOffsetFetchRequest, gen_groupPayloads, gen_encodeHeader, gen_writeShortText,
    hdrKey_encode_offset_fetch_request, hdrVer_encode_offset_fetch_request, fmt_encode_offset_fetch_request_0]
  split
  · rfl
  · simp only [ok_bind]
    xg encodeHeader cid corr _ _
    xg writeShortText group
    xg pack ['>', 'i'] _
    simp only [ok_bind]
    rw [topic_loop fmt_encode_offset_fetch_request_1 offsetFetchPartEntry
      (fun message tps => List.foldlM (fun message (partition : Int) => do
        let t6 ← pack ['>', 'i'] [partition]
        pure (message ++ t6)) message (List.map Prod.fst tps))]
    · xg concatMapM _ _
    · intro msg tps
      rw [List.foldlM_map]
      apply foldlM_concat
      intro m a
      simp only [offsetFetchPartEntry, fmt_encode_offset_fetch_request_2]
      xg pack ['>', 'i'] _
    · intro msg tp
      obtain ⟨t, tps⟩ := tp
      simp only [gen_writeShortAscii, fmt_encode_offset_fetch_request_1]

theorem gen_encodeOffsetCommit (cid : Bytes) (corr : Int) (group : Option Bytes) (gen : Int) (consumer : Option Bytes)
    (payloads : List OffsetCommitReq) :
    genEncodeOffsetCommitRequest OffsetCommitReq.topic OffsetCommitReq.partition OffsetCommitReq.offset
        OffsetCommitReq.timestamp OffsetCommitReq.metadata cid corr group gen consumer payloads
      = encodeOffsetCommitRequest cid corr group gen consumer payloads := by
  cases consumer with
  | none => rfl
  | some consumer =>
  simp only [genEncodeOffsetCommitRequest, encodeOffsetCommitRequest, gen_groupPayloads, gen_encodeHeader, gen_writeShortText,
    gen_writeShortBytes,
    hdrKey_encode_offset_commit_request, hdrVer_encode_offset_commit_request, fmt_encode_offset_commit_request_0,
    fmt_encode_offset_commit_request_1, Option.isNone_some, Bool.false_eq_true, if_false]
  split
  · rfl
  · simp only [ok_bind]
    xg encodeHeader cid corr _ _
    xg writeShortText group
    xg pack ['>', 'i'] [gen]
    xg writeShortText (some consumer)
    xg pack ['>', 'i'] _
    simp only [ok_bind]
    rw [topic_loop fmt_encode_offset_commit_request_2 offsetCommitPartEntry
      (fun message tps => List.foldlM (fun message (x : Int × OffsetCommitReq) => do
        let t8 ← pack ['>', 'i', 'q', 'q'] [x.1, x.2.offset, x.2.timestamp]
        let t9 ← writeShortBytes x.2.metadata
        pure (message ++ t8 ++ t9)) message tps)]
    · xg concatMapM _ _
    · intro msg tps
      apply foldlM_concat
      intro m a
      simp only [offsetCommitPartEntry, fmt_encode_offset_commit_request_3]
      xg pack ['>', 'i', 'q', 'q'] _
      xg writeShortBytes _
      simp only [ok_bind, pure, Except.pure, List.append_assoc]
    · intro msg tp
      obtain ⟨t, tps⟩ := tp
      simp only [gen_writeShortAscii, fmt_encode_offset_commit_request_2]

/-- `for x in xs: parts.append(f(x))` followed by `b"".join(parts)` is the model's `concatMapM` -/
theorem foldlM_collect {α : Type} (body : List Bytes → α → R (List Bytes)) (f : α → R Bytes)
    (h : ∀ ms a, body ms a = (match f a with | .error e => .error e | .ok x => .ok (ms ++ [x])))
    (l : List α) : ∀ m0 : List Bytes, (List.foldlM body m0 l >>= fun m => (pure (List.flatten m) : R Bytes)) =
      (match concatMapM f l with | .error e => .error e | .ok y => .ok (m0.flatten ++ y)) := by
  induction l with
  | nil => intro m0; simp [concatMapM, pure, Except.pure, bind, Except.bind]
  | cons a as ih =>
    intro m0
    rw [List.foldlM_cons, h]
    simp only [concatMapM]
    cases f a with
    | error e => rfl
    | ok x =>
      simp only [ok_bind, ih]
      cases concatMapM f as with
      | error e => rfl
      | ok y => simp [List.append_assoc]

theorem gen_encodeMetadata (cid : Bytes) (corr : Int) (topics : List (Option Bytes)) :
    genEncodeMetadataRequest cid corr topics = encodeMetadataRequest cid corr topics := by
  simp only [genEncodeMetadataRequest, encodeMetadataRequest, gen_encodeHeader, gen_writeShortAscii,
    hdrKey_encode_metadata_request, hdrVer_encode_metadata_request, fmt_encode_metadata_request_0]
  xg encodeHeader cid corr _ _
  xg pack ['>', 'i'] _
  simp only [ok_bind]
  rw [foldlM_collect _ writeShortAscii]
  · xg concatMapM _ _
    simp [List.append_assoc]
  · intro ms a
    xg writeShortAscii a

end Afkak.Wire
