import AfkakProofs.Wire.GenEqAssign
/-!
# Generated FindCoordinator and Metadata response decoders equal the hand-written models

`decode_consumermetadata_response` and `decode_metadata_response` (three nested `for _ in range(n)`
loops that fill the `brokers`, `topic_metadata` and `partition_metadata` dicts).  The generated terms
build the tuples of the constructors' arguments; `convBroker` / `convPart` / `convTopic` map them to
the model's structures.  `foldlM_repeat_conv` is the loop lemma up to that conversion;
`md_*_step` are the three loop bodies.  `nativeString(host)` (Twisted) is the identity on what
`read_short_ascii` returns (`readShortAscii_ascii`).
-/
namespace Afkak.Wire
open Afkak Afkak.Bytes Afkak.Consts

theorem readShortAscii_ascii (data : Bytes) (cur : Int) (s : Bytes) (c : Int)
    (h : readShortAscii data cur = .ok (s, c)) : isAscii s = true := by
  simp only [readShortAscii] at h
  cases hb : readShortBytes data cur with
  | error e => simp [hb] at h
  | ok r =>
    obtain ⟨b, c'⟩ := r
    simp only [hb] at h
    cases b with
    | none => simp [decodeAscii] at h
    | some bs =>
      simp only [decodeAscii] at h
      by_cases ha : isAscii bs = true
      · simp only [ha, if_true] at h
        have : bs = s := by injection h with h'; exact (Prod.mk.inj h').1
        rw [← this]; exact ha
      · simp [ha] at h

theorem gen_decodeConsumerMetadataResponse (data : Bytes) :
    (genDecodeConsumermetadataResponse data).map (fun r => (⟨r.1, r.2.1, r.2.2.1, r.2.2.2⟩ : ConsumerMetadataResp))
      = decodeConsumerMetadataResponse data := by
  simp only [genDecodeConsumermetadataResponse, decodeConsumerMetadataResponse, ru3, ru1, gen_relativeUnpack,
    gen_readShortAscii, fmt_decode_consumermetadata_response_0, fmt_decode_consumermetadata_response_1]
  cases relativeUnpack ['>', 'i', 'h', 'i'] data 0 with
  | error e => rfl
  | ok r =>
    obtain ⟨vs, c⟩ := r
    match vs with
    | [] => rfl
    | [a] => rfl
    | [a, b] => rfl
    | [corr, err, node] =>
      simp only [ok_bind]
      cases hr : readShortAscii data c with
      | error e => rfl
      | ok r1 =>
        obtain ⟨host, c1⟩ := r1
        have ha := readShortAscii_ascii data c host c1 hr
        simp only [ok_bind]
        cases relativeUnpack ['>', 'i'] data c1 with
        | error e => rfl
        | ok r2 =>
          obtain ⟨ws, c2⟩ := r2
          match ws with
          | [] => rfl
          | [port] => simp only [ok_bind, nativeStringR, ha, if_true]; rfl
          | _ :: _ :: _ => rfl
    | _ :: _ :: _ :: _ :: _ => rfl


/-! ### decode_metadata_response -/

theorem map_bind {α β γ : Type} (x : R α) (f : α → R β) (g : β → γ) :
    (x >>= f).map g = x >>= fun a => (f a).map g := by
  cases x <;> rfl

/-- one iteration `(x, cur) = entry(cur); acc = upd(acc, x)` -/
def stepOf {β γ : Type} (entry : Int → R (β × Int)) (upd : γ → β → γ) (cur : Int) (A : γ) : R (Int × γ) :=
  match entry cur with | .error e => .error e | .ok (a, cur') => .ok (cur', upd A a)

/-- `n` iterations -/
def loopOf {β γ : Type} (entry : Int → R (β × Int)) (upd : γ → β → γ) (n : Nat) (cur : Int) (A : γ) : R (Int × γ) :=
  match repeatR entry n cur with | .error e => .error e | .ok (as, cur') => .ok (cur', as.foldl upd A)

/-- `foldlM_repeat_gen` up to a conversion of the accumulator (generated tuples ↦ model structures) -/
theorem foldlM_repeat_conv {β γ γ' ι : Type} (convAcc : γ' → γ) (upd : γ → β → γ)
    (body : Int × γ' → ι → R (Int × γ')) (entry : Int → R (β × Int))
    (h : ∀ cur acc i, (body (cur, acc) i).map (fun p => (p.1, convAcc p.2)) = stepOf entry upd cur (convAcc acc))
    (l : List ι) : ∀ (cur : Int) (acc : γ'), (List.foldlM body (cur, acc) l).map (fun p => (p.1, convAcc p.2)) =
      loopOf entry upd l.length cur (convAcc acc) := by
  induction l with
  | nil => intro cur acc; simp [loopOf, repeatR, pure, Except.pure, Except.map]
  | cons i is ih =>
    intro cur acc
    rw [List.foldlM_cons, map_bind]
    have hb := h cur acc i
    simp only [stepOf] at hb
    simp only [loopOf] at ih
    simp only [loopOf, List.length_cons, repeatR]
    cases hbody : body (cur, acc) i with
    | error e =>
      rw [hbody] at hb
      cases hent : entry cur with
      | error e' => rw [hent] at hb; simp only [Except.map] at hb; injection hb with hb; rw [hb]; rfl
      | ok r => obtain ⟨a, c'⟩ := r; rw [hent] at hb; simp [Except.map] at hb
    | ok p =>
      obtain ⟨c1, acc1⟩ := p
      rw [hbody] at hb
      cases hent : entry cur with
      | error e' => rw [hent] at hb; simp [Except.map] at hb
      | ok r =>
        obtain ⟨a, c'⟩ := r
        rw [hent] at hb
        simp only [Except.map, Except.ok.injEq, Prod.mk.injEq] at hb
        obtain ⟨hc, hacc⟩ := hb
        simp only [ok_bind, ih, hc, hacc]
        cases repeatR entry is.length c' with
        | error e => rfl
        | ok r2 => obtain ⟨as, c2⟩ := r2; rfl

theorem dictSet_mapVal {κ ν ν' : Type} [BEq κ] (g : ν → ν') (d : List (κ × ν)) (k : κ) (v : ν) :
    (dictSet d k v).map (fun e => (e.1, g e.2)) = dictSet (d.map (fun e => (e.1, g e.2))) k (g v) := by
  simp only [dictSet, List.any_map, Function.comp_def]
  split
  · simp only [List.map_map, Function.comp_def]
    apply List.map_congr_left
    intro e _
    split <;> rfl
  · simp


abbrev BrokerT := Int × Bytes × Int
abbrev PartT := Bytes × Int × Int × Int × List Int × List Int
abbrev TopicT := Bytes × Int × List (Int × PartT)
def convBroker (t : BrokerT) : BrokerMeta := ⟨t.1, t.2.1, t.2.2⟩
def convPart (t : PartT) : PartitionMeta := ⟨t.1, t.2.1, t.2.2.1, t.2.2.2.1, t.2.2.2.2.1, t.2.2.2.2.2⟩
def convParts (d : List (Int × PartT)) : List (Int × PartitionMeta) := d.map (fun e => (e.1, convPart e.2))
def convTopic (t : TopicT) : TopicMeta := ⟨t.1, t.2.1, convParts t.2.2⟩
def convBrokers (d : List (Int × BrokerT)) : List (Int × BrokerMeta) := d.map (fun e => (e.1, convBroker e.2))
def convTopics (d : List (Bytes × TopicT)) : List (Bytes × TopicMeta) := d.map (fun e => (e.1, convTopic e.2))

theorem bind_conv {α γ γ' δ : Type} (x : R (α × γ')) (convAcc : γ' → γ) (F : α × γ → R δ) :
    (x >>= fun p => F (p.1, convAcc p.2)) = (x.map (fun p => (p.1, convAcc p.2))) >>= F := by
  cases x <;> rfl

theorem relUnpackN_d (n : Int) (data : Bytes) (cur : Int) :
    (expandFmtR ['>', '%', 'd', 'i'] n >>= fun f => relativeUnpack f data cur)
      = relativeUnpackN ['>', '%', 'd', 'i'] n data cur := by
  have h0 : ('>' : Char) ≠ '%' := by decide
  by_cases hn : 0 ≤ n
  · have hneg : ¬ n < 0 := by omega
    have e : expandFmtR ['>', '%', 'd', 'i'] n = .ok ('>' :: List.replicate n.toNat 'i') := by
      simp [expandFmtR, expandFmt, hn, h0]
    have hs : fieldSpec 'i' = some (4, true) := rfl
    have hw : ((n.toNat * 4 : Nat) : Int) = n * 4 := by
      rw [Int.natCast_mul, Int.toNat_of_nonneg hn]; rfl
    rw [e, ok_bind]
    simp only [relativeUnpack, relativeUnpackN, calcsize, bodySize_replicate 'i' 4 true hs, unpack, hs, hneg, if_false, hw]
    have : ¬ (('d' : Char) ≠ 'd' ∧ ('d' : Char) ≠ 's') := by decide
    have h4 : ((4 : Nat) : Int) = 4 := rfl
    simp only [this, if_false, h4]
    by_cases hlt : (data.length : Int) < cur + n * 4
    · simp only [hlt, if_true]
    · simp only [hlt, if_false]
      generalize unpackBody _ _ = r
      match r with
      | none => rfl
      | some (vs, []) => rfl
      | some (vs, _ :: _) => rfl
  · have hneg : n < 0 := by omega
    have e : expandFmtR ['>', '%', 'd', 'i'] n = .error .structError := by
      simp [expandFmtR, expandFmt, hn, h0]
    rw [e]
    simp only [relativeUnpackN, hneg, if_true]
    have : ¬ (('d' : Char) ≠ 'd' ∧ ('d' : Char) ≠ 's') := by decide
    simp only [this, if_false]
    rfl

/-- the partition loop body, converted -/
theorem md_part_step (data topicName : Bytes) (cur : Int) (acc : List (Int × PartT)) :
    (do
      let t9 ← relativeUnpack ['>', 'h', 'i', 'i', 'i'] data cur
      match t9.1 with
      | [partition_error_code, partition, leader, numReplicas] => (do
        let t10 ← expandFmtR ['>', '%', 'd', 'i'] numReplicas
        let t11 ← relativeUnpack t10 data t9.2
        let t12 ← relativeUnpack ['>', 'i'] data t11.2
        match t12.1 with
        | [num_isr] => (do
          let t13 ← expandFmtR ['>', '%', 'd', 'i'] num_isr
          let t14 ← relativeUnpack t13 data t12.2
          pure (t14.2, dictSet acc partition (topicName, partition, partition_error_code, leader, t11.1, t14.1)))
        | _ => Except.error Err.valueError)
      | _ => Except.error Err.valueError : R (Int × List (Int × PartT))).map (fun p => (p.1, convParts p.2))
    = stepOf (metadataPartition data topicName) (fun d e => dictSet d e.1 e.2) cur (convParts acc) := by
  simp only [stepOf, metadataPartition, ru4, ru1, fmt_decode_metadata_response_6, fmt_decode_metadata_response_7,
    fmt_decode_metadata_response_8, fmt_decode_metadata_response_9]
  cases relativeUnpack ['>', 'h', 'i', 'i', 'i'] data cur with
  | error e => rfl
  | ok r =>
    obtain ⟨vs, c⟩ := r
    match vs with
    | [] => rfl
    | [_] => rfl
    | [_, _] => rfl
    | [_, _, _] => rfl
    | [perr, part, leader, nrep] =>
      simp only [ok_bind]
      have hx := relUnpackN_d nrep data c
      cases hE : expandFmtR ['>', '%', 'd', 'i'] nrep with
      | error e => rw [hE] at hx; simp only [error_bind] at hx; rw [← hx]; rfl
      | ok f =>
        rw [hE] at hx; simp only [ok_bind] at hx; rw [← hx]
        simp only [ok_bind]
        cases relativeUnpack f data c with
        | error e => rfl
        | ok r3 =>
          obtain ⟨reps, c3⟩ := r3
          simp only [ok_bind]
          cases relativeUnpack ['>', 'i'] data c3 with
          | error e => rfl
          | ok r4 =>
            obtain ⟨ws, c4⟩ := r4
            match ws with
            | [] => rfl
            | [nisr] =>
              simp only [ok_bind]
              have hy := relUnpackN_d nisr data c4
              cases hE2 : expandFmtR ['>', '%', 'd', 'i'] nisr with
              | error e => rw [hE2] at hy; simp only [error_bind] at hy; rw [← hy]; rfl
              | ok f2 =>
                rw [hE2] at hy; simp only [ok_bind] at hy; rw [← hy]
                simp only [ok_bind]
                cases relativeUnpack f2 data c4 with
                | error e => rfl
                | ok r5 =>
                  obtain ⟨isr, c5⟩ := r5
                  simp only [ok_bind, pure, Except.pure, Except.map, convParts, dictSet_mapVal]
                  rfl
            | _ :: _ :: _ => rfl
    | _ :: _ :: _ :: _ :: _ :: _ => rfl


theorem map_conv_bind {γ' γ : Type} (x : R (Int × γ')) (conv : γ' → γ) (K : Int → γ' → R (Int × List (Bytes × TopicT)))
    (K' : Int → γ → R (Int × List (Bytes × TopicMeta)))
    (hK : ∀ c a, (K c a).map (fun p => (p.1, convTopics p.2)) = K' c (conv a)) :
    (x >>= fun p => K p.1 p.2).map (fun p => (p.1, convTopics p.2))
      = (x.map (fun p => (p.1, conv p.2))) >>= fun q => K' q.1 q.2 := by
  cases x with
  | error e => rfl
  | ok p => obtain ⟨c, a⟩ := p; exact hK c a

/-- the topic loop body, converted; `partBody` is the (generated) body of the inner partition loop -/
theorem md_topic_step (data : Bytes)
    (partBody : Bytes × Int → Int × List (Int × PartT) → Nat → R (Int × List (Int × PartT)))
    (hpart : ∀ t7 cur acc i, (partBody t7 (cur, acc) i).map (fun p => (p.1, convParts p.2)) =
      stepOf (metadataPartition data t7.1) (fun d e => dictSet d e.1 e.2) cur (convParts acc))
    (cur : Int) (acc : List (Bytes × TopicT)) :
    (do
      let t6 ← relativeUnpack ['>', 'h'] data cur
      match t6.1 with
      | [topic_error] => (do
        let t7 ← readShortAscii data t6.2
        let t8 ← relativeUnpack ['>', 'i'] data t7.2
        match t8.1 with
        | [num_partitions] => (do
          let r ← List.foldlM (partBody t7) (t8.2, ([] : List (Int × PartT))) (List.range num_partitions.toNat)
          pure (r.1, dictSet acc t7.1 (t7.1, topic_error, r.2)))
        | _ => Except.error Err.valueError)
      | _ => Except.error Err.valueError : R (Int × List (Bytes × TopicT))).map (fun p => (p.1, convTopics p.2))
    = stepOf (metadataTopic data) (fun d e => dictSet d e.1 e.2) cur (convTopics acc) := by
  simp only [stepOf, metadataTopic, ru1, fmt_decode_metadata_response_4, fmt_decode_metadata_response_5]
  cases relativeUnpack ['>', 'h'] data cur with
  | error e => rfl
  | ok r =>
    obtain ⟨vs, c⟩ := r
    match vs with
    | [] => rfl
    | [terr] =>
      simp only [ok_bind]
      cases readShortAscii data c with
      | error e => rfl
      | ok r1 =>
        obtain ⟨name, c1⟩ := r1
        simp only [ok_bind]
        cases relativeUnpack ['>', 'i'] data c1 with
        | error e => rfl
        | ok r2 =>
          obtain ⟨ws, c2⟩ := r2
          match ws with
          | [] => rfl
          | [np] =>
            simp only [ok_bind]
            have hl := foldlM_repeat_conv convParts (fun (d : List (Int × PartitionMeta)) (e : Int × PartitionMeta) => dictSet d e.1 e.2)
              (partBody (name, c1)) (metadataPartition data name) (hpart (name, c1)) (List.range np.toNat) c2 []
            simp only [List.length_range, loopOf] at hl
            cases hf : List.foldlM (partBody (name, c1)) (c2, ([] : List (Int × PartT))) (List.range np.toNat) with
            | error e =>
              rw [hf] at hl
              cases hr : repeatR (metadataPartition data name) np.toNat c2 with
              | error e' => rw [hr] at hl; simp only [Except.map] at hl; injection hl with hl; rw [hl]; rfl
              | ok q => obtain ⟨as, c3⟩ := q; rw [hr] at hl; simp [Except.map] at hl
            | ok q =>
              obtain ⟨c3, pm⟩ := q
              rw [hf] at hl
              cases hr : repeatR (metadataPartition data name) np.toNat c2 with
              | error e' => rw [hr] at hl; simp [Except.map] at hl
              | ok q2 =>
                obtain ⟨as, c4⟩ := q2
                rw [hr] at hl
                simp only [Except.map, Except.ok.injEq, Prod.mk.injEq] at hl
                obtain ⟨hc, hpm⟩ := hl
                simp only [ok_bind, pure, Except.pure, Except.map]
                rw [convTopics, dictSet_mapVal]
                simp only [convTopic, hc, hpm, dictOfList]
                rfl
          | _ :: _ :: _ => rfl
    | _ :: _ :: _ => rfl


/-- the broker loop body, converted -/
theorem md_broker_step (data : Bytes) (cur : Int) (acc : List (Int × BrokerT)) :
    (do
      let t1 ← relativeUnpack ['>', 'i'] data cur
      match t1.1 with
      | [nodeId] => (do
        let t2 ← readShortAscii data t1.2
        let t3 ← relativeUnpack ['>', 'i'] data t2.2
        match t3.1 with
        | [port] => (do
          let t4 ← nativeStringR t2.1
          pure (t3.2, dictSet acc nodeId (nodeId, t4, port)))
        | _ => Except.error Err.valueError)
      | _ => Except.error Err.valueError : R (Int × List (Int × BrokerT))).map (fun p => (p.1, convBrokers p.2))
    = stepOf (metadataBroker data) (fun d e => dictSet d e.1 e.2) cur (convBrokers acc) := by
  simp only [stepOf, metadataBroker, ru1, fmt_decode_metadata_response_1, fmt_decode_metadata_response_2]
  cases relativeUnpack ['>', 'i'] data cur with
  | error e => rfl
  | ok r =>
    obtain ⟨vs, c⟩ := r
    match vs with
    | [] => rfl
    | [node] =>
      simp only [ok_bind]
      cases hr : readShortAscii data c with
      | error e => rfl
      | ok r1 =>
        obtain ⟨host, c1⟩ := r1
        have ha := readShortAscii_ascii data c host c1 hr
        simp only [ok_bind]
        cases relativeUnpack ['>', 'i'] data c1 with
        | error e => rfl
        | ok r2 =>
          obtain ⟨ws, c2⟩ := r2
          match ws with
          | [] => rfl
          | [port] =>
            simp only [ok_bind, nativeStringR, ha, if_true, pure, Except.pure, Except.map]
            rw [convBrokers, dictSet_mapVal]
            rfl
          | _ :: _ :: _ => rfl
    | _ :: _ :: _ => rfl

/-- a converted loop followed by a continuation that uses the result only through the conversion -/
theorem loop_then {γ' γ δ' δ : Type} (x : R (Int × γ')) (conv : γ' → γ) (y : R (Int × γ)) (hxy : x.map (fun p => (p.1, conv p.2)) = y)
    (K : Int × γ' → R δ') (G : δ' → δ) (K' : Int × γ → R δ)
    (hK : ∀ c a, (K (c, a)).map G = K' (c, conv a)) :
    (x >>= K).map G = y >>= K' := by
  subst hxy
  cases x with
  | error e => rfl
  | ok p => obtain ⟨c, a⟩ := p; exact hK c a

theorem gen_decodeMetadataResponse (data : Bytes) :
    (genDecodeMetadataResponse data).map (fun r => (convBrokers r.1, convTopics r.2)) = decodeMetadataResponse data := by
  have h1024 : ((1024 : Nat) : Int) = 1024 := rfl
  simp only [genDecodeMetadataResponse, decodeMetadataResponse, ru2, ru1, gen_relativeUnpack, gen_readShortAscii,
    fmt_decode_metadata_response_0, fmt_decode_metadata_response_3, maxBrokers, h1024]
  cases relativeUnpack ['>', 'i', 'i'] data 0 with
  | error e => rfl
  | ok r =>
    obtain ⟨vs, c⟩ := r
    match vs with
    | [] => rfl
    | [_] => rfl
    | [corr, nb] =>
      simp only [ok_bind]
      by_cases hnb : nb > 1024
      · simp only [hnb, if_true]; rfl
      · simp only [hnb, if_false]
        refine (loop_then _ convBrokers _
          (foldlM_repeat_conv convBrokers (fun (d : List (Int × BrokerMeta)) (e : Int × BrokerMeta) => dictSet d e.1 e.2)
            _ (metadataBroker data) (fun cur acc i => md_broker_step data cur acc) (List.range nb.toNat) c [])
          _ _ (fun q => ?K') ?hK).trans ?fin
        case K' =>
          exact (match relativeUnpack ['>', 'i'] data q.1 with
            | .ok ([nt], c') => (loopOf (metadataTopic data) (fun d e => dictSet d e.1 e.2) nt.toNat c' []).map (fun p => (q.2, p.2))
            | .ok _ => .error .valueError
            | .error e => .error e)
        case hK =>
          intro c1 brokers
          simp only []
          cases relativeUnpack ['>', 'i'] data c1 with
          | error e => rfl
          | ok r2 =>
            obtain ⟨ws, c2⟩ := r2
            match ws with
            | [] => rfl
            | [nt] =>
              simp only [ok_bind]
              refine (loop_then _ convTopics _
                (foldlM_repeat_conv convTopics (fun (d : List (Bytes × TopicMeta)) (e : Bytes × TopicMeta) => dictSet d e.1 e.2)
                  _ (metadataTopic data)
                  (fun cur acc i => md_topic_step data _ (fun t7 cur acc i => md_part_step data t7.1 cur acc) cur acc)
                  (List.range nt.toNat) c2 [])
                _ _ (fun q => .ok (convBrokers brokers, q.2)) ?hK2).trans ?fin2
              case hK2 => intro c3 tm; rfl
              case fin2 =>
                simp only [List.length_range, loopOf]
                cases repeatR (metadataTopic data) nt.toNat c2 with
                | error e => rfl
                | ok q => obtain ⟨as, c4⟩ := q; rfl
            | _ :: _ :: _ => rfl
        case fin =>
          simp only [List.length_range, loopOf]
          cases repeatR (metadataBroker data) nb.toNat c with
          | error e => rfl
          | ok q =>
            obtain ⟨bs, c1⟩ := q
            simp only [ok_bind]
            cases relativeUnpack ['>', 'i'] data c1 with
            | error e => rfl
            | ok r2 =>
              obtain ⟨ws, c2⟩ := r2
              match ws with
              | [] => rfl
              | [nt] =>
                simp only []
                cases repeatR (metadataTopic data) nt.toNat c2 with
                | error e => rfl
                | ok q2 => obtain ⟨ts, c3⟩ := q2; rfl
              | _ :: _ :: _ => rfl
    | _ :: _ :: _ :: _ => rfl

end Afkak.Wire
