import AfkakProofs.Wire.GroupedReqs
import AfkakProofs.Wire.MsgSet
/-!
# Produce: messages, message sets and the request, byte for byte
-/
namespace Afkak.Wire
open Afkak Afkak.Bytes Afkak.Codec Afkak.Consts Afkak.Monitor.C04

set_option synthInstance.maxSize 100000

theorem attrs_nat {a : Int} (h : fieldInRange 1 false a = true) : a = ((a.toNat : Nat) : Int) ∧ a.toNat < 256 := by
  have := (fieldInRange_unsigned 1 a).mp h
  constructor <;> omega

theorem crc_field {n : Nat} {x : Bytes} (h : pack ['>', 'I'] [((n &&& crcMask : Nat) : Int)] = .ok x) :
    x = ofNatBE 4 (n % 256 ^ 4) := by
  rw [pack_bytes h, crcMask_mod]
  have hlt : n % 256 ^ 4 < 256 ^ 4 := Nat.mod_lt _ (by decide)
  simp only [packedBody, widthOf, fieldSpec, List.append_nil, ofIntBE_natCast 4 _ hlt]

/-- **Every emitted message is the grammar's message**: magic, attributes, (timestamp,) key, value with
    null distinct from empty, preceded by the checksum of exactly those bytes. -/
theorem message_bytes (ext : Ext) (m : Message) (sm : Spec.Msg) (bytes : Bytes)
    (h : encodeMessage ext m = .ok bytes) (hs : specMsg ext.nowMs m = some sm) :
    bytes = (Spec.message ext.crc).enc sm := by
  unfold specMsg at hs
  split at hs
  · cases hs
  · unfold encodeMessage at h
    by_cases h0 : m.magic = 0
    · rw [if_pos h0] at h hs
      cases hs
      split at h
      · rename_i hb k v hhb hk hv
        simp only at h
        split at h
        · rename_i c hc
          cases h
          simp only [fmt_encode_message_0] at hhb
          simp only [fmt_encode_message_1] at hc
          have hok := ((pack_eq _ _ _).mp hhb).1
          simp only [fieldsOk, fieldSpec, and_true] at hok
          have ha := attrs_nat hok.2
          rw [crc_field hc, pack_bytes hhb, writeIntString_opt hk, writeIntString_opt hv, message_enc, msgBody_enc]
          simp only [msgRest0_enc, packedBody, widthOf, fieldSpec, List.append_nil, h0]
          rw [ha.1, ofIntBE_natCast 1 _ (by simpa using ha.2)]
          simp only [Int.toNat_natCast, List.append_assoc]
        · cases h
      · cases h
      · cases h
      · cases h
    · rw [if_neg h0] at h hs
      by_cases h1 : m.magic = 1
      · rw [if_pos h1] at h hs
        cases hs
        have hbytes : ∀ (ts : Int) (hb : Bytes), pack ['>', 'B', 'B', 'q'] [m.magic, m.attributes, ts] = .ok hb →
            hb = ofIntBE 1 1 ++ (ofNatBE 1 m.attributes.toNat ++ ofIntBE 8 ts) := by
          intro ts hb hp
          have hok := ((pack_eq _ _ _).mp hp).1
          simp only [fieldsOk, fieldSpec, and_true] at hok
          have ha := attrs_nat hok.2.1
          rw [pack_bytes hp]
          simp only [packedBody, widthOf, fieldSpec, List.append_nil, h1]
          rw [ha.1, ofIntBE_natCast 1 _ (by simpa using ha.2)]
          simp only [Int.toNat_natCast]
        cases hts : m.timestamp with
        | none =>
          simp only [hts] at h
          split at h
          · rename_i hb k v hhb hk hv
            split at h
            · rename_i c hc
              cases h
              simp only [fmt_encode_message_4] at hc
              simp only [fmt_encode_message_2] at hhb
              rw [crc_field hc, writeIntString_opt hk, writeIntString_opt hv, message_enc, msgBody_enc, hbytes _ _ hhb]
              simp only [msgRest1_enc, List.append_assoc]
            · cases h
          · cases h
          · cases h
          · cases h
        | some ts =>
          simp only [hts] at h
          split at h
          · rename_i hb k v hhb hk hv
            split at h
            · rename_i c hc
              cases h
              simp only [fmt_encode_message_4] at hc
              simp only [fmt_encode_message_3] at hhb
              rw [crc_field hc, writeIntString_opt hk, writeIntString_opt hv, message_enc, msgBody_enc, hbytes _ _ hhb]
              simp only [msgRest1_enc, List.append_assoc]
            · cases h
          · cases h
          · cases h
          · cases h
      · rw [if_neg h1] at hs
        cases hs

/-! ## message sets as the producer writes them (every offset 0) -/

theorem msgset_bytes (ext : Ext) (magic : Int) (hm : magic = 0 ∨ magic = 1) :
    ∀ (ms : List Message) (entries : List (Int × Spec.Msg)) (body : Bytes) (offset : Int), offset = 0 →
      encodeMessageSetLoop ext magic msgSetIncrNoOffset offset ms = .ok body →
      specEntries ext.nowMs ms = some entries → body = encAll (Spec.entry ext.crc) entries := by
  intro ms
  induction ms with
  | nil =>
    intro entries body offset _ h hs
    simp only [specEntries, List.mapM_nil] at hs
    cases hs
    simp only [encodeMessageSetLoop] at h
    cases h
    rfl
  | cons m ms ih =>
    intro entries body offset ho h hs
    subst ho
    unfold specEntries at hs
    obtain ⟨b, bs, hb, hbs, rfl⟩ := mapM_cons_some _ m ms entries hs
    cases hsm : specMsg ext.nowMs m with
    | none => simp [hsm] at hb
    | some sm =>
      simp only [hsm, Option.map_some, Option.some.injEq] at hb
      subst hb
      unfold encodeMessageSetLoop at h
      have hmm : ¬ (magic ≠ 0 ∧ magic ≠ 1) := by
        rcases hm with h0 | h1
        · intro hh; exact hh.1 h0
        · intro hh; exact hh.2 h1
      rw [if_neg hmm] at h
      split at h
      · cases h
      · rename_i enc henc
        split at h
        · cases h
        · rename_i hdr hhdr
          split at h
          · cases h
          · rename_i rest hrest
            cases h
            simp only [fmt_encode_message_set_0] at hhdr
            have hz : (0 : Int) + msgSetIncrNoOffset = 0 := by decide
            have r := ih bs rest ((0 : Int) + msgSetIncrNoOffset) hz hrest hbs
            rw [message_bytes ext m sm enc henc hsm] at hhdr ⊢
            rw [pack_bytes hhdr, r]
            simp only [encAll, entry_enc, packedBody, widthOf, fieldSpec, List.append_nil, Codec.bytes, lenPrefixed,
              List.append_assoc]

theorem specEntries_magic (nowMs : Int) : ∀ (ms : List Message) (entries : List (Int × Spec.Msg)),
    specEntries nowMs ms = some entries → ∀ e ∈ entries, e.2.magic = 0 ∨ e.2.magic = 1 := by
  intro ms
  induction ms with
  | nil => intro entries h; simp only [specEntries, List.mapM_nil] at h; cases h; simp
  | cons m ms ih =>
    intro entries h
    unfold specEntries at h
    obtain ⟨b, bs, hb, hbs, rfl⟩ := mapM_cons_some _ m ms entries h
    intro e he
    rcases List.mem_cons.mp he with rfl | he'
    · cases hsm : specMsg nowMs m with
      | none => simp [hsm] at hb
      | some sm =>
        simp only [hsm, Option.map_some, Option.some.injEq] at hb
        subst hb
        unfold specMsg at hsm
        split at hsm
        · cases hsm
        · split at hsm
          · cases hsm; exact Or.inl rfl
          · split at hsm
            · cases hsm; exact Or.inr rfl
            · cases hsm
    · exact ih bs hbs e he'

/-- the produce request -/
theorem produce_bytes {ext : Ext} {cid : Bytes} {corr acks timeout ver v : Int} {ps : List ProduceReq}
    {l : List (Bytes × (Int × List (Int × Spec.Msg)))} {frame : Bytes}
    (h : encodeProduceRequest ext cid corr ps acks timeout ver = .ok frame) (hv : implementedVersion ver = some v)
    (hk : keyed ProduceReq.topic ProduceReq.partition (fun p => specEntries ext.nowMs p.messages) ps = some l) :
    frame = (Spec.request (Spec.produceRequest ext.crc)).enc (hdr 0 v corr cid, acks, timeout, regroup l) := by
  have hcl := clamp_produce hv
  unfold encodeProduceRequest at h
  simp only at h
  split at h
  · cases h
  rename_i hcnt
  split at h
  · cases h
  · rename_i hd hhd
    split at h
    · cases h
    · rename_i h2 hh2
      split at h
      · cases h
      · rename_i body hbody
        cases h
        simp only [fmt_encode_produce_request_1] at hbody
        have hb := topics_bytes ProduceReq.topic ProduceReq.partition (fun p => specEntries ext.nowMs p.messages)
          (int32 ⊗ sized32 (Spec.messageSet ext.crc)) (producePartEntry ext (produceClamp ver).2)
          (by
            intro q b y hq hy
            unfold itemMap at hq
            cases hse : specEntries ext.nowMs q.2.messages with
            | none => simp [hse] at hq
            | some entries =>
              simp only [hse, Option.map_some, Option.some.injEq] at hq
              subst hq
              unfold producePartEntry at hy
              split at hy
              · cases hy
              · rename_i ms hms
                split at hy
                · cases hy
                · rename_i hh hhh
                  cases hy
                  simp only [fmt_encode_produce_request_2] at hhh
                  have hmsb : ms = encAll (Spec.entry ext.crc) entries := by
                    unfold encodeMessageSet at hms
                    exact msgset_bytes ext _ hcl.2 _ _ _ 0 rfl hms hse
                  rw [pack_bytes hhh, hmsb]
                  simp only [packedBody, widthOf, fieldSpec, List.append_nil, seq_enc, sized32_enc, many_enc, Spec.messageSet,
                    enc32, List.append_assoc])
          ps l hk (Decidable.not_not.mp hcnt) body hbody
        simp only [fmt_encode_produce_request_0] at hh2
        rw [encodeHeader_ok hhd, pack_bytes hh2, hb.1, hcl.1, hb.2]
        simp [packedBody, widthOf, fieldSpec, request_enc, Spec.produceRequest, Spec.topics, seq_enc, array_enc, hdr,
          hdrKey_encode_produce_request, int16, int32, intN, List.append_assoc]

end Afkak.Wire
