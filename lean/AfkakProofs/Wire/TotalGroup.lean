import AfkakProofs.Wire.TotalProduce
import AfkakProofs.Wire.GroupPayloads
/-!
# No spurious refusal: JoinGroup, SyncGroup and the consumer protocol payloads inside them
-/
namespace Afkak.Wire
open Afkak Afkak.Bytes Afkak.Codec Afkak.Consts Afkak.Monitor.C04

set_option synthInstance.maxSize 100000

theorem concatMapM_not_error {α : Type} (f : α → R Bytes) (l : List α) (hall : ∀ a ∈ l, ∃ y, f a = .ok y) (e : Err) :
    concatMapM f l ≠ .error e := by
  obtain ⟨x, hx⟩ := concatMapM_total f l hall
  rw [hx]
  intro h
  cases h

theorem pairs_mem {l : List (Option Bytes × Option Bytes)} {ps : List (Bytes × Bytes)} (h : pairs l = some ps) :
    ∀ a ∈ l, ∃ b ∈ ps, a = (some b.1, some b.2) := by
  intro a ha
  obtain ⟨b, hb, hab⟩ := mapM_mem _ _ _ h a ha
  refine ⟨b, hb, ?_⟩
  obtain ⟨a1, a2⟩ := a
  cases a1 <;> cases a2 <;> simp at hab
  subst hab
  rfl

theorem writeIntString_some_total {s : Bytes} (h : Codec.bytes.valid s = true) : ∃ x, writeIntString (some s) = .ok x :=
  writeIntString_total (s := some s) h

theorem joinGroup_total {cid : Bytes} {corr : Int} {p : JoinGroupReq} {g m t : Bytes} {ps : List (Bytes × Bytes)}
    (hg : p.group = some g) (hm : p.memberId = some m) (ht : p.protocolType = some t)
    (hps : pairs p.groupProtocols = some ps)
    (hvalid : (Spec.request Spec.joinGroupRequest).valid (hdr 11 0 corr cid, g, p.sessionTimeout, m, t, ps) = true)
    (hascii : ∀ e ∈ ps, isAscii e.1 = true) :
    ∃ frame, encodeJoinGroupRequest cid corr p = .ok frame := by
  have hw := seq_valid (a := Spec.header) (b := Spec.joinGroupRequest) hvalid
  have b1 := seq_valid (a := Codec.string) hw.2
  have b2 := seq_valid (a := int32) b1.2
  have b3 := seq_valid (a := Codec.string) b2.2
  have b4 := seq_valid (a := Codec.string) b3.2
  have hv := array_valid (c := Codec.string ⊗ Codec.bytes) b4.2
  obtain ⟨hd, x1⟩ := encodeHeader_total (key := 11) hw.1
  obtain ⟨gb, x2⟩ := writeShortText_total (lenPrefixed_valid b1.1)
  obtain ⟨mb, x3⟩ := writeShortText_total (lenPrefixed_valid b3.1)
  obtain ⟨tb, x4⟩ := writeShortText_total (lenPrefixed_valid b4.1)
  unfold encodeJoinGroupRequest
  rw [hg, hm, ht]
  simp only [hdrKey_encode_join_group_request, hdrVer_encode_join_group_request, fmt_encode_join_group_request_0,
    fmt_encode_join_group_request_1] at x1 ⊢
  rw [x1]
  simp only [x2]
  rw [pack_ok (by simp only [fieldsOk, fieldSpec, and_true]; exact (fits4 _).mpr (intN_valid b2.1))]
  simp only [x3, x4]
  rw [pack_ok (by
    simp only [fieldsOk, fieldSpec, and_true]
    exact (fits4 _).mpr (by rw [← mapM_length _ _ _ hps]; exact hv.1))]
  simp only
  split
  · rename_i e heq
    exact absurd heq (concatMapM_not_error _ _ (by
      intro a ha
      obtain ⟨b, hb, rfl⟩ := pairs_mem hps a ha
      have hbv := seq_valid (hv.2 b hb)
      obtain ⟨nm, y1⟩ := writeShortAscii_total (hascii b hb) (lenPrefixed_valid hbv.1)
      obtain ⟨md, y2⟩ := writeIntString_some_total hbv.2
      simp only [y1, y2]
      exact ⟨_, rfl⟩) e)
  · exact ⟨_, rfl⟩

theorem syncGroup_total {cid g m : Bytes} {corr gen : Int} {asg : List (Option Bytes × Option Bytes)}
    {ps : List (Bytes × Bytes)} (hps : pairs asg = some ps)
    (hvalid : (Spec.request Spec.syncGroupRequest).valid (hdr 14 0 corr cid, g, gen, m, ps) = true) :
    ∃ frame, encodeSyncGroupRequest cid corr (some g) gen (some m) asg = .ok frame := by
  have hw := seq_valid (a := Spec.header) (b := Spec.syncGroupRequest) hvalid
  have b1 := seq_valid (a := Codec.string) hw.2
  have b2 := seq_valid (a := int32) b1.2
  have b3 := seq_valid (a := Codec.string) b2.2
  have hv := array_valid (c := Codec.string ⊗ Codec.bytes) b3.2
  obtain ⟨hd, x1⟩ := encodeHeader_total (key := 14) hw.1
  obtain ⟨gb, x2⟩ := writeShortText_total (lenPrefixed_valid b1.1)
  obtain ⟨mb, x3⟩ := writeShortText_total (lenPrefixed_valid b3.1)
  unfold encodeSyncGroupRequest
  simp only [hdrKey_encode_sync_group_request, hdrVer_encode_sync_group_request, fmt_encode_sync_group_request_0,
    fmt_encode_sync_group_request_1] at x1 ⊢
  rw [x1]
  simp only [x2]
  rw [pack_ok (by simp only [fieldsOk, fieldSpec, and_true]; exact (fits4 _).mpr (intN_valid b2.1))]
  simp only [x3]
  rw [pack_ok (by
    simp only [fieldsOk, fieldSpec, and_true]
    exact (fits4 _).mpr (by rw [← mapM_length _ _ _ hps]; exact hv.1))]
  simp only
  split
  · rename_i e heq
    exact absurd heq (concatMapM_not_error _ _ (by
      intro a ha
      obtain ⟨b, hb, rfl⟩ := pairs_mem hps a ha
      have hbv := seq_valid (hv.2 b hb)
      obtain ⟨nm, y1⟩ := writeShortText_total (lenPrefixed_valid hbv.1)
      obtain ⟨md, y2⟩ := writeIntString_some_total hbv.2
      simp only [y1, y2]
      exact ⟨_, rfl⟩) e)
  · exact ⟨_, rfl⟩

theorem subscription_total {ver : Int} {subs : List (Option Bytes)} {ud : Option Bytes} {ts : List Bytes}
    (ht : subs.mapM id = some ts) (hvalid : (whole Spec.subscription).valid (ver, ts, ud) = true) :
    ∃ data, encodeJoinGroupProtocolMetadata ver subs ud = .ok data := by
  have b1 := seq_valid (a := int16) (b := array Codec.string ⊗ nullableBytes) hvalid
  have b2 := seq_valid (a := array Codec.string) b1.2
  have hv := array_valid (c := Codec.string) b2.1
  obtain ⟨ss, x2⟩ := concatMapM_total writeShortText subs (by
    intro a ha
    obtain ⟨b, hb, hab⟩ := mapM_mem id _ _ ht a ha
    simp only [id] at hab
    subst hab
    exact writeShortText_total (lenPrefixed_valid (hv.2 b hb)))
  obtain ⟨u, x3⟩ := writeIntString_total b2.2
  unfold encodeJoinGroupProtocolMetadata
  simp only [fmt_encode_join_group_protocol_metadata_0]
  rw [pack_ok (by
    simp only [fieldsOk, fieldSpec, and_true]
    exact ⟨(fits2 _).mpr (intN_valid b1.1), (fits4 _).mpr (by rw [← mapM_length _ _ _ ht]; exact hv.1)⟩)]
  simp only [x2, x3]
  exact ⟨_, rfl⟩

theorem fieldsOk_replicate : ∀ (vals : List Int), (∀ v ∈ vals, IntFits 4 v) →
    fieldsOk (List.replicate vals.length 'i') vals := by
  intro vals
  induction vals with
  | nil => intro _; simp [fieldsOk]
  | cons v vs ih =>
    intro h
    simp only [List.length_cons, List.replicate_succ, fieldsOk, fieldSpec]
    exact ⟨(fits4 _).mpr (h v List.mem_cons_self), ih (fun u hu => h u (List.mem_cons_of_mem _ hu))⟩

theorem packCounted_total {vals : List Int} (h : (array int32).valid vals = true) :
    ∃ x, packCounted ['>', 'i', '%', 's', 'i'] vals = .ok x := by
  have hv := array_valid h
  unfold packCounted
  simp only [ne_eq, Char.reduceEq, not_true_eq_false, and_false, if_false]
  have hok : fieldsOk ('i' :: List.replicate vals.length 'i') ((vals.length : Int) :: vals) := by
    simp only [fieldsOk, fieldSpec]
    exact ⟨(fits4 _).mpr hv.1, fieldsOk_replicate vals (fun v hv' => intN_valid (hv.2 v hv'))⟩
  exact ⟨_, (packBody_eq _ _ _).mpr ⟨hok, rfl⟩⟩

theorem assignment_total {ver : Int} {asg : List (Option Bytes × List Int)} {ud : Option Bytes}
    {a : List (Bytes × List Int)}
    (ha : asg.mapM (fun (p : Option Bytes × List Int) => p.1.map (fun t => (t, p.2))) = some a)
    (hvalid : (whole Spec.assignment).valid (ver, a, ud) = true) (hascii : ∀ e ∈ a, isAscii e.1 = true) :
    ∃ data, encodeSyncGroupMemberAssignment ver asg ud = .ok data := by
  have b1 := seq_valid (a := int16) (b := array (Codec.string ⊗ array int32) ⊗ nullableBytes) hvalid
  have b2 := seq_valid (a := array (Codec.string ⊗ array int32)) b1.2
  have hv := array_valid (c := Codec.string ⊗ array int32) b2.1
  obtain ⟨u, x3⟩ := writeIntString_total b2.2
  unfold encodeSyncGroupMemberAssignment
  simp only [fmt_encode_sync_group_member_assignment_0, fmt_encode_sync_group_member_assignment_1,
    fmt_encode_sync_group_member_assignment_2]
  rw [pack_ok (by simp only [fieldsOk, fieldSpec, and_true]; exact (fits2 _).mpr (intN_valid b1.1))]
  simp only
  rw [pack_ok (by
    simp only [fieldsOk, fieldSpec, and_true]
    exact (fits4 _).mpr (by rw [← mapM_length _ _ _ ha]; exact hv.1))]
  simp only
  split
  · rename_i e heq
    exact absurd heq (concatMapM_not_error _ _ (by
      intro q hq
      obtain ⟨b, hb, hqb⟩ := mapM_mem _ _ _ ha q hq
      obtain ⟨q1, q2⟩ := q
      cases q1 with
      | none => simp at hqb
      | some t =>
        simp only [Option.map_some, Option.some.injEq] at hqb
        subst hqb
        have hbv := seq_valid (hv.2 _ hb)
        obtain ⟨tb, y1⟩ := writeShortAscii_total (hascii _ hb) (lenPrefixed_valid hbv.1)
        obtain ⟨pb, y2⟩ := packCounted_total hbv.2
        simp only at y1 y2
        simp only [y1, y2]
        exact ⟨_, rfl⟩) e)
  · simp only [x3]
    exact ⟨_, rfl⟩

end Afkak.Wire
